/-
  C16 — forward totality: `insert_vertices_on_edge` and the whole step 5 (`insert_edges_in_map`) SUCCEED under conditions on the
  map before the call.  (C14 and Props/C16EdgeInsert.lean prove the elimination direction: what an `Ok` means.)

  * `link1_fwd`, `link2_fwd`, `unlink1_fwd`, `unlink2_fwd`   the four link cores, forwards: accepted, result well formed, new β in closed form
  * `chainFirst_total`, `chainSecond_total`, `placeVertices_total`, `insertVerticesBody_total`
  * `C16_insertVertices_total_partial`   the kernel answers `Ok` on a 2-linked edge whose two darts have a successor (every edge the
                                         pipeline splits), spare darts in use / free / distinct, positions in ]0,1[, both end points
                                         carrying a value — with C14d's `insertVertices_reads` for the validation part
  * `markBoundary_total`, `replaceInter_total`   the two attribute passes of step 5
  * `insertOneEdge_total`                one iteration, any number of intermediate points, with the β0 / β1 frame for the darts handed
                                         out before
  * `EdgeOK`, `Indep`                    the conditions: `Ready` (Props/C16Step5Total.lean) + a coordinate at both end points; a later
                                         edge does not start / end at a dart an earlier edge redirects
  * `C16_stepFive_total_indep_partial`   step 5 succeeds when, IN THE MAP BEFORE THE STEP, every edge is `EdgeOK` and the edges are
                                         pairwise `Indep`.  PARTIAL: independence is assumed (edges sharing a dart are covered, without
                                         intermediate points, by `C16_stepFive_total_partial`).
  The loop of steps 2–3 (`insert_intersections` over all edges) is in Props/C16Steps23Total.lean.
-/
import Honeycomb.Props.C16Step5Total
import Honeycomb.Props.C14d
import Honeycomb.Props.C16Chain

set_option linter.unusedSimpArgs false
set_option linter.unusedVariables false

namespace HC.C16
open HC

/-- same dart count, removal flags and attribute storages -/
structure SameNUA (m m' : Map Val) : Prop where
  n : m'.n = m.n
  u : m'.u = m.u
  a : m'.a = m.a

theorem SameNUA.refl (m : Map Val) : SameNUA m m := ⟨rfl, rfl, rfl⟩
theorem SameNUA.trans {m m' m'' : Map Val} (h1 : SameNUA m m') (h2 : SameNUA m' m'') : SameNUA m m'' :=
  ⟨h2.n.trans h1.n, h2.u.trans h1.u, h2.a.trans h1.a⟩
theorem SameNUA.inUse {m m' : Map Val} (s : SameNUA m m') {d : Nat} (h : C01.InUse m d) : C01.InUse m' d :=
  ⟨h.1, by rw [s.n]; exact h.2.1, by unfold Map.unused; rw [s.u]; exact h.2.2⟩

theorem run_twoUnlinkCore_ok {l : Nat} {m : Map Val} (o1 : m.okβ 2 l = true) (o0 : m.okβ 2 (m.β 2 l) = true)
    (h1 : m.β 2 l ≠ 0) :
    run (iUnlinkCore (X := Val) 2 l) m = (.ok (), (m.setβ 2 l 0).setβ 2 (m.β 2 l) 0) := by
  unfold iUnlinkCore
  simp only [Prog.bind_eq, bind, run_rB, o1, o0, h1, if_true, if_false, run_wB, run_wB', Map.okβ_setβ]

theorem link1_fwd {m : Map Val} (hwf : WF 3 m) {l r : Nat} (hl : C01.InUse m l) (hr : C01.InUse m r)
    (h1 : m.β 1 l = 0) (h0 : m.β 0 r = 0) :
    ∃ m', run (oneLinkCore (X := Val) l r) m = (.ok (), m') ∧ WF 3 m' ∧ SameNUA m m' ∧
      ∀ j e, m'.β j e = if 0 = j ∧ r = e then l else if 1 = j ∧ l = e then r else m.β j e := by
  have sz := hwf.toSized
  have ok1 := (sz.okβ 1 l).2 ⟨by omega, hl.2.1⟩
  have ok0 := (sz.okβ 0 r).2 ⟨by omega, hr.2.1⟩
  exact ⟨_, run_oneLinkCore_ok ok1 ok0 h1 h0, hwf.link1 (by omega) hl.1 hr.1 hl.2.1 hr.2.1 hl.2.2 hr.2.2 h1 h0,
    ⟨rfl, rfl, rfl⟩, (setβ2_facts sz r l (show 1 < 3 by omega) (show 0 < 3 by omega) hl.2.1 hr.2.1).2.2⟩

theorem link2_fwd {m : Map Val} (hwf : WF 3 m) {l r : Nat} (hl : C01.InUse m l) (hr : C01.InUse m r) (hlr : l ≠ r)
    (h1 : m.β 2 l = 0) (h0 : m.β 2 r = 0) :
    ∃ m', run (iLinkCore (X := Val) 2 l r) m = (.ok (), m') ∧ WF 3 m' ∧ SameNUA m m' ∧
      ∀ j e, m'.β j e = if 2 = j ∧ r = e then l else if 2 = j ∧ l = e then r else m.β j e := by
  have sz := hwf.toSized
  have ok1 := (sz.okβ 2 l).2 ⟨by omega, hl.2.1⟩
  have ok0 := (sz.okβ 2 r).2 ⟨by omega, hr.2.1⟩
  exact ⟨_, run_twoLinkCore_ok ok1 ok0 h1 h0,
    hwf.linkI (by omega) (by omega) hl.1 hr.1 hlr hl.2.1 hr.2.1 hl.2.2 hr.2.2 h1 h0,
    ⟨rfl, rfl, rfl⟩, (setβ2_facts sz r l (show 2 < 3 by omega) (show 2 < 3 by omega) hl.2.1 hr.2.1).2.2⟩

theorem unlink1_fwd {m : Map Val} (hwf : WF 3 m) {l : Nat} (hl : C01.InUse m l) (h1 : m.β 1 l ≠ 0) :
    ∃ m', run (oneUnlinkCore (X := Val) l) m = (.ok (), m') ∧ WF 3 m' ∧ SameNUA m m' ∧
      ∀ j e, m'.β j e = if 0 = j ∧ m.β 1 l = e then 0 else if 1 = j ∧ l = e then 0 else m.β j e := by
  have sz := hwf.toSized
  have hr := hwf.range 1 (by omega) l hl.2.1
  have ok1 := (sz.okβ 1 l).2 ⟨by omega, hl.2.1⟩
  have ok0 := (sz.okβ 0 (m.β 1 l)).2 ⟨by omega, hr⟩
  exact ⟨_, run_oneUnlinkCore_ok ok1 ok0 h1, hwf.unlink1 (by omega) hl.2.1 h1,
    ⟨rfl, rfl, rfl⟩, (setβ2_facts sz 0 0 (show 1 < 3 by omega) (show 0 < 3 by omega) hl.2.1 hr).2.2⟩

theorem unlink2_fwd {m : Map Val} (hwf : WF 3 m) {l : Nat} (hl : C01.InUse m l) (h1 : m.β 2 l ≠ 0) :
    ∃ m', run (iUnlinkCore (X := Val) 2 l) m = (.ok (), m') ∧ WF 3 m' ∧ SameNUA m m' ∧
      ∀ j e, m'.β j e = if 2 = j ∧ m.β 2 l = e then 0 else if 2 = j ∧ l = e then 0 else m.β j e := by
  have sz := hwf.toSized
  have hr := hwf.range 2 (by omega) l hl.2.1
  have ok1 := (sz.okβ 2 l).2 ⟨by omega, hl.2.1⟩
  have ok0 := (sz.okβ 2 (m.β 2 l)).2 ⟨by omega, hr⟩
  exact ⟨_, run_twoUnlinkCore_ok ok1 ok0 h1, hwf.unlinkI (by omega) (by omega) hl.2.1 h1,
    ⟨rfl, rfl, rfl⟩, (setβ2_facts sz 0 0 (show 2 < 3 by omega) (show 2 < 3 by omega) hl.2.1 hr).2.2⟩

/-- the first chain: `prev → l₀ → l₁ → …`, forwards -/
theorem chainFirst_total : ∀ (l : List Nat) (prev : Nat) (m : Map Val), WF 3 m → C01.InUse m prev → m.β 1 prev = 0 →
    (∀ x, x ∈ l → C01.InUse m x ∧ m.β 0 x = 0 ∧ m.β 1 x = 0) → (prev :: l).Nodup →
    ∃ m', run (chainFirst prev l) m = (.ok (l.getLastD prev), m') ∧ WF 3 m' ∧ SameNUA m m' ∧
      m'.β 1 (l.getLastD prev) = 0 ∧ (∀ d, m'.β 2 d = m.β 2 d) ∧
      (∀ d, d ∉ prev :: l → m'.β 1 d = m.β 1 d) ∧ (∀ d, d ∉ l → m'.β 0 d = m.β 0 d) := by
  intro l
  induction l with
  | nil =>
      intro prev m hwf hp h1 _ _
      exact ⟨m, by simp [chainFirst], hwf, SameNUA.refl m, h1, fun _ => rfl, fun _ _ => rfl, fun _ _ => rfl⟩
  | cons nd rest ih =>
      intro prev m hwf hp h1 hfree hnd
      obtain ⟨ind, f0, f1⟩ := hfree nd List.mem_cons_self
      obtain ⟨m1, r1, w1, s1, β1⟩ := link1_fwd hwf hp ind h1 f0
      have hpn : prev ≠ nd := fun e => (List.nodup_cons.1 hnd).1 (e ▸ List.mem_cons_self)
      have hnd' : (nd :: rest).Nodup := (List.nodup_cons.1 hnd).2
      have hfree' : ∀ x, x ∈ rest → C01.InUse m1 x ∧ m1.β 0 x = 0 ∧ m1.β 1 x = 0 := by
        intro x hx
        obtain ⟨a, b, c⟩ := hfree x (List.mem_cons_of_mem _ hx)
        have hxn : nd ≠ x := fun e => (List.nodup_cons.1 hnd').1 (e ▸ hx)
        have hxp : prev ≠ x := fun e => (List.nodup_cons.1 hnd).1 (e ▸ List.mem_cons_of_mem _ hx)
        refine ⟨s1.inUse a, ?_, ?_⟩
        · rw [β1]; simp [hxn, b]
        · rw [β1]; simp [hxp, c]
      have h1' : m1.β 1 nd = 0 := by rw [β1]; simp [hpn, f1]
      obtain ⟨m', r', w', s', l', b2, b1, b0⟩ := ih nd m1 w1 (s1.inUse ind) h1' hfree' hnd'
      refine ⟨m', ?_, w', s1.trans s', ?_, ?_, ?_, ?_⟩
      · simp only [chainFirst, Prog.bind_eq]
        rw [run_bind_of_ok r1, r', List.getLastD_cons]
      · rw [List.getLastD_cons]; exact l'
      · intro d; rw [b2, β1]; simp
      · intro d hd
        simp only [List.mem_cons, not_or] at hd
        rw [b1 d (by simp only [List.mem_cons, not_or]; exact ⟨hd.2.1, hd.2.2⟩), β1]
        simp [Ne.symm hd.1]
      · intro d hd
        simp only [List.mem_cons, not_or] at hd
        rw [b0 d hd.2, β1]
        simp [Ne.symm hd.1]

/-- the second chain: `prev → nd₀ → nd₁ → …` with `β2(prev) = d₀`, `β2(nd₀) = d₁`, …, forwards -/
theorem chainSecond_total : ∀ (l : List (Nat × Nat)) (prev : Nat) (m : Map Val), WF 3 m → C01.InUse m prev →
    m.β 1 prev = 0 → m.β 2 prev = 0 →
    (∀ x, x ∈ l → C01.InUse m x.1 ∧ m.β 2 x.1 = 0 ∧ C01.InUse m x.2 ∧ m.β 0 x.2 = 0 ∧ m.β 1 x.2 = 0 ∧ m.β 2 x.2 = 0) →
    (prev :: l.map (·.2)).Nodup → (l.map (·.1)).Nodup → (∀ x, x ∈ l.map (·.1) → x ∉ prev :: l.map (·.2)) →
    ∃ m', run (chainSecond prev l) m = (.ok ((l.map (·.2)).getLastD prev), m') ∧ WF 3 m' ∧ SameNUA m m' ∧
      m'.β 1 ((l.map (·.2)).getLastD prev) = 0 ∧ m'.β 2 ((l.map (·.2)).getLastD prev) = 0 ∧
      (∀ d, d ∉ prev :: l.map (·.2) → m'.β 1 d = m.β 1 d) ∧ (∀ d, d ∉ l.map (·.2) → m'.β 0 d = m.β 0 d) ∧
      (∀ d, d ∉ prev :: l.map (·.2) → d ∉ l.map (·.1) → m'.β 2 d = m.β 2 d) := by
  intro l
  induction l with
  | nil =>
      intro prev m hwf hp h1 h2 _ _ _ _
      exact ⟨m, by simp [chainSecond], hwf, SameNUA.refl m, h1, h2, fun _ _ => rfl, fun _ _ => rfl, fun _ _ _ => rfl⟩
  | cons x rest ih =>
      intro prev m hwf hp h1 h2 hfree hnd2 hnd1 hdis
      obtain ⟨d, nd⟩ := x
      simp only [List.map_cons] at hnd2 hnd1 hdis ⊢
      obtain ⟨id, fd2, ind, f0, f1, f2⟩ := hfree (d, nd) List.mem_cons_self
      simp only at id fd2 ind f0 f1 f2
      have hpn : prev ≠ nd := fun e => (List.nodup_cons.1 hnd2).1 (e ▸ List.mem_cons_self)
      have hnd2' : (nd :: rest.map (·.2)).Nodup := (List.nodup_cons.1 hnd2).2
      have hd_out := hdis d List.mem_cons_self
      simp only [List.mem_cons, not_or] at hd_out
      have hpd : prev ≠ d := Ne.symm hd_out.1
      have hdn : d ≠ nd := hd_out.2.1
      obtain ⟨mA, rA, wA, sA, βA⟩ := link2_fwd hwf hp id hpd h2 fd2
      have h1A : mA.β 1 prev = 0 := by rw [βA]; simp [h1]
      have f0A : mA.β 0 nd = 0 := by rw [βA]; simp [f0]
      obtain ⟨mB, rB', wB', sB, βB⟩ := link1_fwd wA (sA.inUse hp) (sA.inUse ind) h1A f0A
      have sAB := sA.trans sB
      have βAB : ∀ j e, mB.β j e = if 0 = j ∧ nd = e then prev else if 1 = j ∧ prev = e then nd else
          if 2 = j ∧ d = e then prev else if 2 = j ∧ prev = e then d else m.β j e := by
        intro j e; rw [βB, βA]
      have h1B : mB.β 1 nd = 0 := by rw [βAB]; simp [hpn, f1]
      have h2B : mB.β 2 nd = 0 := by rw [βAB]; simp [hpn, hdn, f2]
      have hfree' : ∀ x, x ∈ rest → C01.InUse mB x.1 ∧ mB.β 2 x.1 = 0 ∧ C01.InUse mB x.2 ∧ mB.β 0 x.2 = 0 ∧
          mB.β 1 x.2 = 0 ∧ mB.β 2 x.2 = 0 := by
        intro x hx
        obtain ⟨a1, a2, b1, b2, b3, b4⟩ := hfree x (List.mem_cons_of_mem _ hx)
        have hx1 : x.1 ∈ rest.map (·.1) := List.mem_map_of_mem hx
        have hx2 : x.2 ∈ rest.map (·.2) := List.mem_map_of_mem hx
        have e1 : d ≠ x.1 := fun e => (List.nodup_cons.1 hnd1).1 (e ▸ hx1)
        have o1 := hdis x.1 (List.mem_cons_of_mem _ hx1)
        simp only [List.mem_cons, not_or] at o1
        have e2 : prev ≠ x.1 := Ne.symm o1.1
        have e3 : nd ≠ x.2 := fun e => (List.nodup_cons.1 hnd2').1 (e ▸ hx2)
        have e4 : prev ≠ x.2 := fun e => (List.nodup_cons.1 hnd2).1 (e ▸ List.mem_cons_of_mem _ hx2)
        have e5 : d ≠ x.2 := fun e => hd_out.2.2 (e ▸ hx2)
        refine ⟨sAB.inUse a1, ?_, sAB.inUse b1, ?_, ?_, ?_⟩
        · rw [βAB]; simp [e1, e2, a2]
        · rw [βAB]; simp [e3, b2]
        · rw [βAB]; simp [e4, b3]
        · rw [βAB]; simp [e5, e4, b4]
      have hdis' : ∀ x, x ∈ rest.map (·.1) → x ∉ nd :: rest.map (·.2) := by
        intro x hx
        have := hdis x (List.mem_cons_of_mem _ hx)
        simp only [List.mem_cons, not_or] at this ⊢
        exact ⟨this.2.1, this.2.2⟩
      obtain ⟨m', r', w', s', l1, l2, b1, b0, b2⟩ :=
        ih nd mB wB' (sAB.inUse ind) h1B h2B hfree' hnd2' (List.nodup_cons.1 hnd1).2 hdis'
      refine ⟨m', ?_, w', sAB.trans s', ?_, ?_, ?_, ?_, ?_⟩
      · simp only [chainSecond, Prog.bind_eq]
        rw [run_bind_of_ok rA, run_bind_of_ok rB', r', List.getLastD_cons]
      · rw [List.getLastD_cons]; exact l1
      · rw [List.getLastD_cons]; exact l2
      · intro e he
        simp only [List.mem_cons, not_or] at he
        rw [b1 e (by simp only [List.mem_cons, not_or]; exact ⟨he.2.1, he.2.2⟩), βAB]
        simp [Ne.symm he.1]
      · intro e he
        simp only [List.mem_cons, not_or] at he
        rw [b0 e he.2, βAB]
        simp [Ne.symm he.1]
      · intro e he he'
        simp only [List.mem_cons, not_or] at he he'
        rw [b2 e (by simp only [List.mem_cons, not_or]; exact ⟨he.2.1, he.2.2⟩) he'.2, βAB]
        simp [Ne.symm he.1, Ne.symm he'.1]

theorem run_writeVtx_ok {m : Map Val} {id : Nat} (v : Val) (h : m.okA 0 id = true) :
    run (writeVtx id v) m = (.ok (m.att 0 id), m.setA 0 id (some v)) := by
  unfold writeVtx
  simp only [Prog.bind_eq, bind, run_rA, h, if_true, run_wA, Prog.pure_eq, run_ret]

theorem okA_vertex {m : Map Val} (hwf : WF 3 m) {s : Nat} (hs : s < m.a.size) {d : Nat} (hd : d < m.n) :
    m.okA s d = true := by
  unfold Map.okA
  have := hwf.toSized.asz s hs
  simp only [Bool.and_eq_true, decide_eq_true_eq]
  exact ⟨hs, by omega⟩

/-- writing the new points: total on a well-formed map with a vertex storage -/
theorem placeVertices_total (v1 v2 : Val) : ∀ (l : List (Rat × Nat)) (m : Map Val), WF 3 m → 0 < m.a.size →
    (∀ x, x ∈ l → x.2 ≠ 0 ∧ x.2 < m.n) →
    ∃ m', run (placeVertices m.n v1 v2 l) m = (.ok (), m') ∧ SameTopo m m' := by
  intro l
  induction l with
  | nil => intro m _ _ _; exact ⟨m, by simp [placeVertices], SameTopo.refl m⟩
  | cons x rest ih =>
      intro m hwf h0 hall
      obtain ⟨t, nd⟩ := x
      obtain ⟨hn0, hnlt⟩ := hall (t, nd) List.mem_cons_self
      simp only at hn0 hnlt
      have hvid := (C03.C03_vertexId2_min hwf hn0 hnlt).1
      have hid := C03.cellId_idem hwf (pol := .vertex) trivial hn0 hnlt
      have okv := okA_vertex hwf h0 hid.2.1
      have st := SameTopo.setA m 0 (C03.cellId m .vertex nd) (some (placeVal v1 v2 (some t)))
      obtain ⟨m', r', s'⟩ := ih (m.setA 0 (C03.cellId m .vertex nd) (some (placeVal v1 v2 (some t)))) (hwf.sameTopo st)
        (by rw [st.asz]; exact h0) (fun x hx => hall x (List.mem_cons_of_mem _ hx))
      rw [Map.n_setA] at r'
      refine ⟨m', ?_, st.trans s'⟩
      simp only [placeVertices, Prog.bind_eq]
      rw [run_bind_of_ok hvid, run_bind_of_ok (run_writeVtx_ok _ okv)]
      exact r'

theorem getLastD_mem_cons : ∀ (l : List Nat) (a : Nat), l.getLastD a ∈ a :: l
  | [], a => by simp
  | x :: rest, a => by
      rw [List.getLastD_cons]
      exact List.mem_cons_of_mem _ (getLastD_mem_cons rest x)

/-- **the editing part of `insert_vertices_on_edge` is total** on a 2-linked edge whose two darts have a successor: on a
    well-formed map with a vertex storage, with spare darts that are in use, free and distinct, every link / unlink is
    accepted and every vertex identifier is computed -/
theorem insertVerticesBody_total {m : Map Val} (hwf : WF 3 m) (h0 : 0 < m.a.size) {e : Nat} (he : C01.InUse m e)
    (hb1 : m.β 1 e ≠ 0) (hb2 : m.β 2 e ≠ 0) (hc1 : m.β 1 (m.β 2 e) ≠ 0) {fh sh : List Nat} (hlen : fh.length = sh.length)
    (hfree : ∀ x, x ∈ fh ++ sh → C01.InUse m x ∧ ∀ i, i < 3 → m.β i x = 0) (hnd : (fh ++ sh).Nodup)
    (v1 v2 : Val) (ts : List Rat) :
    ∃ m', run (insertVerticesBody m.n v1 v2 e (m.β 2 e) (m.β 1 e) fh sh ts) m = (.ok (), m') ∧ WF 3 m' ∧
      m'.n = m.n ∧ m'.u = m.u ∧ m'.a.size = m.a.size := by
  obtain ⟨b1, hB1⟩ : ∃ b1, m.β 1 e = b1 := ⟨_, rfl⟩
  obtain ⟨b2, hB2⟩ : ∃ b2, m.β 2 e = b2 := ⟨_, rfl⟩
  rw [hB2] at hc1 ⊢
  obtain ⟨c1, hC1⟩ : ∃ c1, m.β 1 b2 = c1 := ⟨_, rfl⟩
  rw [hB1] at hb1 ⊢
  rw [hB2] at hb2
  rw [hC1] at hc1
  -- the old darts
  have ib1 : C01.InUse m b1 := hB1 ▸ inUse_image hwf (by omega) he.2.1 (hB1 ▸ hb1)
  have ib2 : C01.InUse m b2 := hB2 ▸ inUse_image hwf (by omega) he.2.1 (hB2 ▸ hb2)
  have ic1 : C01.InUse m c1 := hC1 ▸ inUse_image hwf (by omega) ib2.2.1 (hC1 ▸ hc1)
  have hb0b1 : m.β 0 b1 = e := hB1 ▸ hwf.inv01 e he.2.1 (hB1 ▸ hb1)
  have hb0c1 : m.β 0 c1 = b2 := hC1 ▸ hwf.inv01 b2 ib2.2.1 (hC1 ▸ hc1)
  have hinv := hwf.invol 2 (by omega) (by omega) e he.2.1 (hB2 ▸ hb2)
  rw [hB2] at hinv
  have heb2 : e ≠ b2 := Ne.symm hinv.2
  -- the spare darts
  have fr : ∀ x, x ∈ fh ++ sh → x ≠ e ∧ x ≠ b1 ∧ x ≠ b2 ∧ x ≠ c1 := by
    intro x hx
    obtain ⟨_, f⟩ := hfree x hx
    refine ⟨?_, ?_, ?_, ?_⟩
    · rintro rfl; exact hb1 (hB1 ▸ f 1 (by omega))
    · rintro rfl; exact he.1 (hb0b1 ▸ f 0 (by omega))
    · rintro rfl; exact he.1 (hinv.1 ▸ f 2 (by omega))
    · rintro rfl; exact ib2.1 (hb0c1 ▸ f 0 (by omega))
  have frf : ∀ x, x ∈ fh → x ∈ fh ++ sh := fun x hx => List.mem_append_left _ hx
  have frs : ∀ x, x ∈ sh → x ∈ fh ++ sh := fun x hx => List.mem_append_right _ hx
  have ndf : fh.Nodup := (List.nodup_append.1 hnd).1
  have nds : sh.Nodup := (List.nodup_append.1 hnd).2.1
  have dfs : ∀ x, x ∈ fh → x ∉ sh := fun x hx hx' => (List.nodup_append.1 hnd).2.2 x hx x hx' rfl
  have notin_f : ∀ {y}, (y = e ∨ y = b1 ∨ y = b2 ∨ y = c1) → y ∉ fh := by
    intro y hy hyf
    obtain ⟨a, b, c, d⟩ := fr y (frf y hyf)
    rcases hy with h | h | h | h <;> simp_all
  have notin_s : ∀ {y}, (y = e ∨ y = b1 ∨ y = b2 ∨ y = c1) → y ∉ sh := by
    intro y hy hys
    obtain ⟨a, b, c, d⟩ := fr y (frs y hys)
    rcases hy with h | h | h | h <;> simp_all
  -- A. unlink `e`
  obtain ⟨mA, rA, wA, sA, βA⟩ := unlink1_fwd hwf he (hB1 ▸ hb1)
  rw [hB1] at βA
  -- B. 2-unlink `e`
  have hA2 : mA.β 2 e = b2 := by rw [βA]; simp [hB2]
  obtain ⟨mB, rB', wB', sB, βB⟩ := unlink2_fwd wA (sA.inUse he) (hA2 ▸ hb2)
  rw [hA2] at βB
  have sAB := sA.trans sB
  have βAB : ∀ j x, mB.β j x = if 2 = j ∧ b2 = x then 0 else if 2 = j ∧ e = x then 0 else
      if 0 = j ∧ b1 = x then 0 else if 1 = j ∧ e = x then 0 else m.β j x := by
    intro j x; rw [βB, βA]
  -- C. the first chain
  have hB1e : mB.β 1 e = 0 := by rw [βAB]; simp
  have hfreeC : ∀ x, x ∈ fh → C01.InUse mB x ∧ mB.β 0 x = 0 ∧ mB.β 1 x = 0 := by
    intro x hx
    obtain ⟨iu, f⟩ := hfree x (frf x hx)
    obtain ⟨n1, n2, n3, n4⟩ := fr x (frf x hx)
    refine ⟨sAB.inUse iu, ?_, ?_⟩
    · rw [βAB]; simp [Ne.symm n2, f 0 (by omega)]
    · rw [βAB]; simp [Ne.symm n1, f 1 (by omega)]
  obtain ⟨mC, rC, wC, sC, hCl, βC2, βC1, βC0⟩ := chainFirst_total fh e mB wB' (sAB.inUse he) hB1e hfreeC
    (List.nodup_cons.2 ⟨notin_f (Or.inl rfl), ndf⟩)
  have sAC := sAB.trans sC
  have hp1 := getLastD_mem_cons fh e
  have ip1 : C01.InUse m (fh.getLastD e) := by
    rcases List.mem_cons.1 hp1 with h | h
    · rw [h]; exact he
    · exact (hfree _ (frf _ h)).1
  have b2_notin : b2 ∉ e :: fh := by
    intro h
    rcases List.mem_cons.1 h with h | h
    · exact heb2 h.symm
    · exact notin_f (Or.inr (Or.inr (Or.inl rfl))) h
  -- D. close the first chain on the old successor
  have hC0b1 : mC.β 0 b1 = 0 := by
    rw [βC0 b1 (notin_f (Or.inr (Or.inl rfl))), βAB]; simp
  obtain ⟨mD, rD, wD, sD, βD⟩ := link1_fwd wC (sAC.inUse ip1) (sAC.inUse ib1) hCl hC0b1
  have sAD := sAC.trans sD
  -- E. the second side: unlink `b2`
  have hD1b2 : mD.β 1 b2 = c1 := by
    have hne : fh.getLastD e ≠ b2 := fun h => b2_notin (h ▸ hp1)
    rw [βD]; simp only [show ¬ (0 = 1) by omega, false_and, if_false, hne, and_false]
    rw [βC1 b2 b2_notin, βAB]; simp [heb2, hC1]
  obtain ⟨mE, rE, wE, sE, βE⟩ := unlink1_fwd wD (sAD.inUse ib2) (hD1b2 ▸ hc1)
  rw [hD1b2] at βE
  have sAE := sAD.trans sE
  -- F. the second chain
  have hZ1 : (fh.reverse.zip sh).map (·.1) = fh.reverse := by
    apply List.map_fst_zip; simp [hlen]
  have hZ2 : (fh.reverse.zip sh).map (·.2) = sh := by
    apply List.map_snd_zip; simp [hlen]
  have hE2 : ∀ x, mE.β 2 x = mB.β 2 x := by
    intro x; rw [βE, βD]; simp only [show ¬ (0 = 2) by omega, show ¬ (1 = 2) by omega, false_and, if_false]
    exact βC2 x
  have hE1b2 : mE.β 1 b2 = 0 := by rw [βE]; simp
  have hE2b2 : mE.β 2 b2 = 0 := by rw [hE2, βAB]; simp
  have p1_ne : ∀ {y}, y ∉ e :: fh → fh.getLastD e ≠ y := fun hy h => hy (h ▸ hp1)
  have s_notin : ∀ {y}, y ∈ sh → y ∉ e :: fh := by
    intro y hy h
    rcases List.mem_cons.1 h with h | h
    · exact notin_s (Or.inl rfl) (h ▸ hy)
    · exact dfs y h hy
  have hfreeF : ∀ x, x ∈ fh.reverse.zip sh → C01.InUse mE x.1 ∧ mE.β 2 x.1 = 0 ∧ C01.InUse mE x.2 ∧ mE.β 0 x.2 = 0 ∧
      mE.β 1 x.2 = 0 ∧ mE.β 2 x.2 = 0 := by
    intro x hx
    have hx1 : x.1 ∈ fh := List.mem_reverse.1 (List.of_mem_zip hx).1
    have hx2 : x.2 ∈ sh := (List.of_mem_zip hx).2
    obtain ⟨iu1, f1⟩ := hfree _ (frf _ hx1)
    obtain ⟨iu2, f2⟩ := hfree _ (frs _ hx2)
    obtain ⟨a1, a2, a3, a4⟩ := fr _ (frf _ hx1)
    obtain ⟨c1', c2, c3, c4⟩ := fr _ (frs _ hx2)
    refine ⟨sAE.inUse iu1, ?_, sAE.inUse iu2, ?_, ?_, ?_⟩
    · rw [hE2, βAB]; simp [Ne.symm a3, Ne.symm a1, f1 2 (by omega)]
    · rw [βE, βD]; simp only [Ne.symm c4, Ne.symm c2, and_false, if_false, show ¬ (1 = 0) by omega, false_and]
      rw [βC0 _ (fun h => dfs _ h hx2), βAB]; simp [Ne.symm c2, f2 0 (by omega)]
    · rw [βE, βD]; simp only [Ne.symm c3, p1_ne (s_notin hx2), and_false, if_false, show ¬ (0 = 1) by omega, false_and]
      rw [βC1 _ (s_notin hx2), βAB]; simp [Ne.symm c1', f2 1 (by omega)]
    · rw [hE2, βAB]; simp [Ne.symm c3, Ne.symm c1', f2 2 (by omega)]
  obtain ⟨mF, rF, wF, sF, hF1, hF2, βF1, βF0, βF2⟩ := chainSecond_total (fh.reverse.zip sh) b2 mE wE (sAE.inUse ib2)
    hE1b2 hE2b2 hfreeF (by rw [hZ2]; exact List.nodup_cons.2 ⟨notin_s (Or.inr (Or.inr (Or.inl rfl))), nds⟩)
    (by rw [hZ1]; exact List.nodup_reverse.2 ndf)
    (by
      rw [hZ1, hZ2]
      intro x hx h
      have hxf := List.mem_reverse.1 hx
      rcases List.mem_cons.1 h with h | h
      · exact notin_f (Or.inr (Or.inr (Or.inl rfl))) (h ▸ hxf)
      · exact dfs x hxf h)
  rw [hZ2] at rF hF1 hF2 βF1 βF0 βF2
  rw [hZ1] at βF2
  have sAF := sAE.trans sF
  have hp2 := getLastD_mem_cons sh b2
  have ip2 : C01.InUse m (sh.getLastD b2) := by
    rcases List.mem_cons.1 hp2 with h | h
    · rw [h]; exact ib2
    · exact (hfree _ (frs _ h)).1
  -- G. close the second chain on the old successor of `b2`
  have hF0c1 : mF.β 0 c1 = 0 := by
    rw [βF0 c1 (notin_s (Or.inr (Or.inr (Or.inr rfl)))), βE]; simp
  obtain ⟨mG, rG, wG, sG, βG⟩ := link1_fwd wF (sAF.inUse ip2) (sAF.inUse ic1) hF1 hF0c1
  have sAG := sAF.trans sG
  -- H. 2-link the last dart with `e`
  have e_notin : e ∉ b2 :: sh := by
    intro h
    rcases List.mem_cons.1 h with h | h
    · exact heb2 h
    · exact notin_s (Or.inl rfl) h
  have hp2e : sh.getLastD b2 ≠ e := fun h => e_notin (h ▸ hp2)
  have hG2p : mG.β 2 (sh.getLastD b2) = 0 := by
    rw [βG]; simp only [show ¬ (0 = 2) by omega, show ¬ (1 = 2) by omega, false_and, if_false]; exact hF2
  have hG2e : mG.β 2 e = 0 := by
    rw [βG]; simp only [show ¬ (0 = 2) by omega, show ¬ (1 = 2) by omega, false_and, if_false]
    rw [βF2 e e_notin (fun h => notin_f (Or.inl rfl) (List.mem_reverse.1 h)), hE2, βAB]; simp
  obtain ⟨mH, rH, wH, sH, βH⟩ := link2_fwd wG (sAG.inUse ip2) (sAG.inUse he) hp2e hG2p hG2e
  have sAH := sAG.trans sH
  -- I. the new points
  obtain ⟨mI, rI, sI⟩ := placeVertices_total v1 v2 (ts.zip fh) mH wH (by rw [sAH.a]; exact h0) (by
    intro x hx
    have hx2 := (List.of_mem_zip hx).2
    have := (hfree _ (frf _ hx2)).1
    exact ⟨this.1, by rw [sAH.n]; exact this.2.1⟩)
  rw [sAH.n] at rI
  refine ⟨mI, ?_, wH.sameTopo sI, by rw [sI.n, sAH.n], by rw [sI.u, sAH.u], by rw [sI.asz, sAH.a]⟩
  have rS : run (insertVerticesSide2 e b2 fh sh) mD = (.ok (), mH) := by
    unfold insertVerticesSide2
    simp only [Prog.bind_eq]
    rw [run_rB, if_pos ((Sized.okβ wD.toSized 1 b2).2 ⟨by omega, by rw [sAD.n]; exact ib2.2.1⟩), hD1b2]
    simp only [whenP, ne_eq, hc1, not_false_eq_true, decide_true, if_true]
    rw [run_bind_of_ok rE, run_bind_of_ok rF, run_bind_of_ok rG]
    exact rH
  unfold insertVerticesBody
  simp only [whenP, ne_eq, hb1, hb2, not_false_eq_true, decide_true, if_true, Prog.bind_eq]
  rw [run_bind_of_ok rA, run_bind_of_ok rB', run_bind_of_ok rC, run_bind_of_ok rD, run_bind_of_ok rS]
  exact rI

/-- **`insert_vertices_on_edge` is total** (partial: for a 2-linked edge whose two darts have a successor — every edge the
    pipeline splits).  On a well-formed map with a vertex storage, an edge dart in use, `2k` spare darts in use, free and
    distinct, `k` positions in `]0,1[`, and both end points of the edge carrying a value (`DefinedEdge` of C14d), the kernel
    answers `Ok`: C14 proved what an `Ok` means and which error comes when; this is the converse. -/
theorem C16_insertVertices_total_partial {m : Map Val} (hwf : WF 3 m) (h0 : 0 < m.a.size) {e : Nat} (he : C01.InUse m e)
    (hb1 : m.β 1 e ≠ 0) (hb2 : m.β 2 e ≠ 0) (hc1 : m.β 1 (m.β 2 e) ≠ 0) {nds : List Nat} {ts : List Rat}
    (hlen : nds.length = 2 * ts.length) (hfree : ∀ x, x ∈ nds → C01.InUse m x ∧ ∀ i, i < 3 → m.β i x = 0)
    (hnd : nds.Nodup) (ht : ∀ t, t ∈ ts → 0 < t ∧ t < 1)
    (hv1 : (m.att 0 (C03.cellId m .vertex e)).isSome = true)
    (hv2 : (m.att 0 (C03.cellId m .vertex (m.β 1 e))).isSome = true) :
    ∃ m', run (insertVerticesOnEdge m.n e nds ts) m = (.ok (), m') ∧ WF 3 m' ∧ m'.n = m.n ∧ m'.u = m.u ∧
      m'.a.size = m.a.size := by
  have hsplit : nds.take ts.length ++ nds.drop ts.length = nds := List.take_append_drop _ _
  have hnz : ∀ x, x ∈ nds → x ≠ 0 := fun x hx => (hfree x hx).1.1
  rw [C14.insertVertices_reads m hwf h0 e he.1 he.2.1 nds ts hlen
    (fun d hd => ⟨(hfree d hd).1.2.1, (isFree_iff m 3 d).2 (hfree d hd).2⟩)
    (fun h => hnz 0 (List.mem_of_mem_take h) rfl) (fun _ h => hnz 0 (List.mem_of_mem_drop h) rfl) ht,
    if_neg (fun h => hb1 h.1)]
  have htgt : C14.tgtOf m e = m.β 1 e := by unfold C14.tgtOf; rw [if_pos hb1]
  rw [htgt]
  obtain ⟨v1, v2, _, _, hw⟩ := C14.withEnds_some (k := fun v1 v2 =>
    insertVerticesBody m.n v1 v2 e (m.β 2 e) (m.β 1 e) (nds.take ts.length) (nds.drop ts.length) ts) hv1 hv2
  rw [hw]
  exact insertVerticesBody_total hwf h0 he hb1 hb2 hc1
    (by rw [List.length_take, List.length_drop]; omega)
    (by rw [hsplit]; exact hfree) (by rw [hsplit]; exact hnd) v1 v2 ts

/-! ## the attribute passes of step 5 -/

theorem okβ_of_wf {m : Map Val} (hwf : WF 3 m) {i d : Nat} (hi : i < 3) (hd : d < m.n) : m.okβ i d = true :=
  (Sized.okβ hwf.toSized i d).2 ⟨hi, hd⟩

/-- one step of `mark_boundary`, forwards -/
theorem run_markBoundary_step {m : Map Val} (hwf : WF 3 m) (hA : sBd < m.a.size) {stop d f : Nat} (hd : d ≠ stop)
    (hlt : d < m.n) :
    run (markBoundary stop (f + 1) d) m =
      run (markBoundary stop f (m.β 1 d)) ((m.setA sBd d (some bdLeft)).setA sBd (m.β 2 d) (some bdRight)) := by
  have h2 := hwf.range 2 (by omega) d hlt
  rw [markBoundary, if_neg hd]
  simp only [Prog.bind_eq, bind, run_rA, run_wA, run_rB, okA_vertex hwf hA hlt, okA_vertex hwf hA h2,
    okβ_of_wf hwf (show 1 < 3 by omega) hlt, okβ_of_wf hwf (show 2 < 3 by omega) hlt, if_true, Map.okA_setA,
    Map.okβ_setA, Map.β_setA]

/-- `mark_boundary` along a β1 chain `d → l … → stop`: it ends within `|l| + 2` steps -/
theorem markBoundary_total (stop : Nat) : ∀ (l : List Nat) (d : Nat) (m : Map Val) (fuel : Nat), WF 3 m →
    sBd < m.a.size → B1Chain m d l → m.β 1 (l.getLastD d) = stop → stop ∉ d :: l → (∀ x, x ∈ d :: l → x < m.n) →
    l.length + 2 ≤ fuel → ∃ m', run (markBoundary stop fuel d) m = (.ok (), m') ∧ SameTopo m m' := by
  intro l
  induction l with
  | nil =>
      intro d m fuel hwf hA _ hlast hstop hlt hfuel
      obtain ⟨f, rfl⟩ : ∃ f, fuel = f + 2 := ⟨fuel - 2, by simp at hfuel; omega⟩
      simp only [List.getLastD_nil] at hlast
      rw [run_markBoundary_step hwf hA (fun h => hstop (by rw [h]; exact List.mem_cons_self)) (hlt d List.mem_cons_self),
        hlast, markBoundary, if_pos rfl]
      exact ⟨_, rfl, (SameTopo.setA _ _ _ _).trans (SameTopo.setA _ _ _ _)⟩
  | cons x rest ih =>
      intro d m fuel hwf hA hch hlast hstop hlt hfuel
      obtain ⟨f, rfl⟩ : ∃ f, fuel = f + 1 := ⟨fuel - 1, by simp at hfuel; omega⟩
      obtain ⟨h1, h2⟩ := hch
      have st : SameTopo m ((m.setA sBd d (some bdLeft)).setA sBd (m.β 2 d) (some bdRight)) :=
        (SameTopo.setA _ _ _ _).trans (SameTopo.setA _ _ _ _)
      rw [run_markBoundary_step hwf hA (fun h => hstop (by rw [h]; exact List.mem_cons_self)) (hlt d List.mem_cons_self), h1]
      rw [List.getLastD_cons] at hlast
      obtain ⟨m', r', s'⟩ := ih x _ f (hwf.sameTopo st) (by rw [st.asz]; exact hA) (b1chain_congr st.b rest x h2)
        (by rw [st.β]; exact hlast) (fun h => hstop (List.mem_cons_of_mem _ h))
        (fun y hy => by rw [st.n]; exact hlt y (List.mem_cons_of_mem _ hy))
        (by simp only [List.length_cons] at hfuel; omega)
      exact ⟨m', r', st.trans s'⟩

/-- the replacement of the placeholders is total on a well-formed map that has the storages it writes -/
theorem replaceInter_total (ha : Bool) (i : Nat) : ∀ (pts : List Pt) (d : Nat) (m : Map Val), WF 3 m → 0 < m.a.size →
    (ha = true → sVA < m.a.size) → d < m.n →
    ∃ m', run (replaceInter m.n ha i d pts) m = (.ok (), m') ∧ SameTopo m m' := by
  intro pts
  induction pts with
  | nil => intro d m _ _ _ _; exact ⟨m, by simp [replaceInter], SameTopo.refl m⟩
  | cons v vs ih =>
      intro d m hwf h0 hva hd
      -- the vertex identifier of `d` (the null dart has identifier 0)
      obtain ⟨vid, hvid, hvlt⟩ : ∃ vid, run (vertexId2 (X := Val) m.n d) m = (.ok vid, m) ∧ vid < m.n := by
        by_cases hd0 : d = 0
        · subst hd0; exact ⟨0, C14.run_vertexId2_null m hwf, hwf.toSized.npos⟩
        · exact ⟨_, (C03.C03_vertexId2_min hwf hd0 hd).1, (C03.cellId_idem hwf (pol := .vertex) trivial hd0 hd).2.1⟩
      have ok0 := okA_vertex hwf h0 hvlt
      have st1 := SameTopo.setA m 0 vid (some (.pt v.1 v.2 0))
      have hb1 := hwf.range 1 (by omega) d hd
      cases ha with
      | false =>
          obtain ⟨m', r', s'⟩ := ih (m.β 1 d) _ (hwf.sameTopo st1) (by rw [st1.asz]; exact h0) (by intro h; cases h)
            (by rw [st1.n]; exact hb1)
          rw [Map.n_setA] at r'
          refine ⟨m', ?_, st1.trans s'⟩
          simp only [replaceInter, Prog.bind_eq]
          rw [run_bind_of_ok hvid, run_bind_of_ok (run_writeVtx_ok _ ok0)]
          simp only [Bool.false_eq_true, if_false, Prog.pure_eq, Prog.ret_bind]
          rw [run_rB, if_pos (by rw [Map.okβ_setA]; exact okβ_of_wf hwf (by omega) hd), Map.β_setA]
          exact r'
      | true =>
          have okv := okA_vertex hwf (hva rfl) hvlt
          have st2 := SameTopo.setA (m.setA 0 vid (some (.pt v.1 v.2 0))) sVA vid (some (.tm (.leaf (4 * i))))
          have st := st1.trans st2
          obtain ⟨m', r', s'⟩ := ih (m.β 1 d) _ (hwf.sameTopo st) (by rw [st.asz]; exact h0)
            (by intro _; rw [st.asz]; exact hva rfl) (by rw [st.n]; exact hb1)
          rw [Map.n_setA, Map.n_setA] at r'
          refine ⟨m', ?_, st.trans s'⟩
          simp only [replaceInter, Prog.bind_eq]
          rw [run_bind_of_ok hvid, run_bind_of_ok (run_writeVtx_ok _ ok0)]
          simp only [if_true, Prog.bind_eq, bind]
          rw [run_bind, run_bind]
          simp only [run_rA', run_wA, Map.okA_setA, okv, if_true, run_wA']
          rw [run_rB, if_pos (by rw [Map.okβ_setA, Map.okβ_setA]; exact okβ_of_wf hwf (by omega) hd), Map.β_setA, Map.β_setA]
          exact r'

/-! ## one iteration of step 5, any number of intermediate points -/

theorem run_edgeId2_linked {m : Map Val} (hwf : WF 3 m) {d : Nat} (hd : d < m.n) (h2 : m.β 2 d = d + 1) :
    run (edgeId2 (X := Val) d) m = (.ok d, m) := by
  unfold edgeId2
  simp only [Prog.bind_eq, bind, run_rB, okβ_of_wf hwf (show 2 < 3 by omega) hd, if_true, h2]
  rw [if_neg (by omega)]
  simp only [Prog.pure_eq, run_ret]
  rw [Nat.min_eq_right (by omega)]

/-- **one iteration of `insert_edges_in_map` is total**: the edge is `Ready`, its two end points carry a value, the block
    of new darts is there; and what the iteration does to β0 / β1 of the darts handed out before -/
theorem insertOneEdge_total {m : Map Val} {next i : Nat} {ha : Bool} {e : MEdge} (I : EInv m next)
    (hA : sBd < m.a.size) (hva : ha = true → sVA < m.a.size) (R : Ready m e)
    (hroom : next + (2 + 2 * e.inter.length) ≤ m.n)
    (hc1 : ∃ P, Carries m (m.β 1 e.start) P) (hc2 : ∃ P, Carries m e.stop P) :
    ∃ m', run (insertOneEdge m.n ha i e (List.range' next (2 + 2 * e.inter.length))) m = (.ok (), m') ∧
      m'.a.size = m.a.size ∧
      (∀ d, d < next → d ≠ e.start → d ≠ m.β 0 e.stop → m'.β 1 d = m.β 1 d) ∧
      (∀ d, d < next → (m'.β 1 d = m.β 1 d ∨ next ≤ m'.β 1 d)) ∧
      (∀ d, d < next → d ≠ e.stop → d ≠ m.β 1 e.start → m'.β 0 d = m.β 0 d) ∧
      (∀ d, d < next → m.β 0 d ≠ 0 → m'.β 0 d ≠ 0) := by
  obtain ⟨hs, he, n1, n0, hcons⟩ := R
  have hwf := I.wf
  have h0 : 0 < m.a.size := by unfold sBd at hA; omega
  set k := e.inter.length with hk
  obtain ⟨u0, f0, t0⟩ := I.fresh next (Nat.le_refl _) (by omega)
  obtain ⟨u1, f1, t1⟩ := I.fresh (next + 1) (by omega) (by omega)
  have hpos := I.pos
  have id0 : C01.InUse m next := ⟨by omega, by omega, u0⟩
  have id1 : C01.InUse m (next + 1) := ⟨by omega, by omega, u1⟩
  obtain ⟨m1, r1⟩ := buildBaseEdge_total hwf hs he id0 id1 f0 f1 (by omega) n1 n0 hcons
  obtain ⟨w1, nn1, uu1, a1, as1, _, _, e1, e2, e3, e4, e5, e6, e7⟩ :=
    C16_buildBaseEdge_spec hwf hs he id0 id1 f0 f1 (by omega) r1
  have notFresh : ∀ d, d < m.n → (∃ j, j < 3 ∧ m.β j d ≠ 0) → d < next := by
    intro d hd ⟨j, hj, hne⟩
    rcases Nat.lt_or_ge d next with h' | h'
    · exact h'
    · exact absurd ((I.fresh d h' hd).2.1 j hj) hne
  have hstart : e.start < next := notFresh _ hs.2.1 ⟨1, by omega, n1⟩
  have hstop : e.stop < next := notFresh _ he.2.1 ⟨0, by omega, n0⟩
  have hb1s_lt : m.β 1 e.start < m.n := hwf.range 1 (by omega) _ hs.2.1
  have hb0e_lt : m.β 0 e.stop < m.n := hwf.range 0 (by omega) _ he.2.1
  have hb1s' : m.β 1 e.start < next := notFresh _ hb1s_lt ⟨0, by omega, by rw [hwf.inv01 _ hs.2.1 n1]; exact hs.1⟩
  have hb0e' : m.β 0 e.stop < next := notFresh _ hb0e_lt ⟨1, by omega, by rw [hwf.inv10 _ he.2.1 n0]; exact he.1⟩
  have iu1 : ∀ {d}, C01.InUse m d → C01.InUse m1 d := fun h =>
    ⟨h.1, by rw [nn1]; exact h.2.1, by unfold Map.unused; rw [uu1]; exact h.2.2⟩
  have b2n : m1.β 2 next = next + 1 := by rw [e5, if_pos rfl]
  -- the darts not handed out yet are still free after `build_base_edge`
  have free1 : ∀ d, next + 2 ≤ d → d < m.n → ∀ j, j < 3 → m1.β j d = 0 := by
    intro d hd hdn j hj
    have hf := (I.fresh d (by omega) hdn).2.1
    rcases (by omega : j = 0 ∨ j = 1 ∨ j = 2) with rfl | rfl | rfl
    · rw [e7 d (by omega) (by omega) (by omega) (by omega)]; exact hf 0 (by omega)
    · rw [e6 d (by omega) (by omega) (by omega) (by omega)]; exact hf 1 (by omega)
    · rw [e5 d, if_neg (by omega), if_neg (by omega)]; exact hf 2 (by omega)
  -- the middle part: intermediate vertices and their coordinates
  have mid : ∃ m3 fh sh, run (if e.inter.isEmpty then (pure () : P Val Unit) else do
        let eid ← edgeId2 next
        insertVerticesOnEdge m.n eid ((List.range' next (2 + 2 * k)).drop 2) (e.inter.map fun _ => (1 / 2 : Rat))
        let d ← rB 1 eid
        replaceInter m.n ha i d e.inter) m1 = (.ok (), m3) ∧
      WF 3 m3 ∧ m3.n = m.n ∧ m3.a.size = m.a.size ∧ B1Chain m3 next fh ∧ m3.β 1 (fh.getLastD next) = e.stop ∧
      m3.β 1 (sh.getLastD (next + 1)) = m.β 1 e.start ∧
      (∀ x, x ∈ fh ++ sh → next + 2 ≤ x ∧ x < next + 2 + 2 * k) ∧ fh.length ≤ k ∧
      (∀ d, d < next → m3.β 1 d = m1.β 1 d) ∧
      (∀ d, d < next → d ≠ e.stop → d ≠ m.β 1 e.start → m3.β 0 d = m1.β 0 d) := by
    by_cases hemp : e.inter.isEmpty = true
    · refine ⟨m1, [], [], by rw [if_pos hemp]; rfl, w1, nn1, as1, trivial, e2, e4, by simp, by simp,
        fun _ _ => rfl, fun _ _ _ _ => rfl⟩
    · rw [if_neg hemp]
      have hkpos : 0 < k := by
        rw [hk]; cases hi : e.inter with
        | nil => rw [hi] at hemp; simp at hemp
        | cons _ _ => simp
      have hslice : (List.range' next (2 + 2 * k)).drop 2 = List.range' (next + 2) (2 * k) := by
        rw [List.drop_range']; congr 1; omega
      rw [hslice]
      have hmem : ∀ d, d ∈ List.range' (next + 2) (2 * k) → next + 2 ≤ d ∧ d < next + 2 + 2 * k := by
        intro d hd; rw [List.mem_range'_1] at hd; exact hd
      have hlen : (e.inter.map fun _ => (1 / 2 : Rat)).length = k := by rw [List.length_map]
      -- the two end points of the edge that is subdivided carry a value
      obtain ⟨P1, hP1⟩ := hc1
      obtain ⟨P2, hP2⟩ := hc2
      have c1 := carries_buildBaseEdge hwf hs he id0 id1 f0 f1 (by omega) r1 hb1s' (by omega) hP1
      have c2 := carries_buildBaseEdge hwf hs he id0 id1 f0 f1 (by omega) r1 hstop (by omega) hP2
      have hvid : C03.cellId m1 .vertex next = C03.cellId m1 .vertex (m.β 1 e.start) := by
        have := cellId_b1b2 w1 (x := next) id0.1 (by rw [nn1]; exact id0.2.1) (by rw [b2n, e4]; exact n1)
        rw [b2n, e4] at this; exact this.symm
      obtain ⟨m2, r2, w2, nn2, uu2, as2⟩ := C16_insertVertices_total_partial (m := m1) (e := next)
        (nds := List.range' (next + 2) (2 * k)) (ts := e.inter.map fun _ => (1 / 2 : Rat)) w1 (by rw [as1]; exact h0)
        (iu1 id0) (by rw [e2]; exact he.1) (by rw [b2n]; omega) (by rw [b2n, e4]; exact n1)
        (by rw [List.length_range', hlen])
        (fun x hx => by
          obtain ⟨a, b⟩ := hmem x hx
          exact ⟨iu1 ⟨by omega, by omega, (I.fresh x (by omega) (by omega)).1⟩, free1 x a (by omega)⟩)
        List.nodup_range'
        (fun t ht => by
          obtain ⟨_, _, rfl⟩ := List.mem_map.1 ht
          exact ⟨by norm_num, by norm_num⟩)
        (by rw [hvid, c1.2]; rfl) (by rw [e2, c2.2]; rfl)
      rw [nn1] at r2
      have hlive : ∀ d, d ∈ List.range' (next + 2) (2 * k) → m1.unused d = false := by
        intro d hd
        obtain ⟨a, b⟩ := hmem d hd
        unfold Map.unused; rw [uu1]
        exact (I.fresh d (by omega) (by omega)).1
      have hfhnd : ((List.range' (next + 2) (2 * k)).take (e.inter.map fun _ => (1 / 2 : Rat)).length).Nodup :=
        (List.nodup_range').sublist (List.take_sublist _ _)
      obtain ⟨_, hres⟩ := C14.C14_insertVertices_beta_structure m1 m2 next _ _ w1 (iu1 id0) hlive hfhnd
        (fun _ => List.nodup_range') (by rw [nn1]; exact r2)
      set fh := (List.range' (next + 2) (2 * k)).take (e.inter.map fun _ => (1 / 2 : Rat)).length with hfh
      set sh := (List.range' (next + 2) (2 * k)).drop (e.inter.map fun _ => (1 / 2 : Rat)).length with hsh
      have hfhm : ∀ d, d ∈ fh → next + 2 ≤ d ∧ d < next + 2 + 2 * k := fun d hd => hmem d (List.mem_of_mem_take hd)
      have hshm : ∀ d, d ∈ sh → next + 2 ≤ d ∧ d < next + 2 + 2 * k := fun d hd => hmem d (List.mem_of_mem_drop hd)
      have h2ne : m1.β 2 next ≠ 0 := by rw [b2n]; omega
      -- the replacement of the placeholders
      have hd2 : m2.β 1 next < m2.n := w2.range 1 (by omega) next (by rw [nn2, nn1]; exact id0.2.1)
      obtain ⟨m3, r3, st3⟩ := replaceInter_total ha i e.inter (m2.β 1 next) m2 w2 (by rw [as2, as1]; exact h0)
        (by intro h; rw [as2, as1]; exact hva h) hd2
      rw [nn2, nn1] at r3
      have hβ3 : ∀ j d, m3.β j d = m2.β j d := fun j d => st3.β j d
      refine ⟨m3, fh, sh, ?_, w2.sameTopo st3, by rw [st3.n, nn2, nn1], by rw [st3.asz, as2, as1],
        b1chain_congr st3.b fh next hres.side1.1, ?_, ?_, ?_, ?_, ?_, ?_⟩
      · simp only [Prog.bind_eq]
        rw [run_bind_of_ok (run_edgeId2_linked w1 (by rw [nn1]; exact id0.2.1) b2n), run_bind_of_ok r2, run_rB,
          if_pos (okβ_of_wf w2 (by omega) (by rw [nn2, nn1]; exact id0.2.1))]
        exact r3
      · rw [hβ3, hres.side1.2, e2]
      · have := (hres.side2 h2ne).2
        rw [b2n, e4] at this
        rw [hβ3]; exact this
      · intro x hx
        rcases List.mem_append.1 hx with h | h
        · exact hfhm x h
        · exact hshm x h
      · rw [hfh, List.length_take]; omega
      · intro d hd
        rw [hβ3]
        refine hres.frame1 d ?_ (fun _ => ?_)
        · intro h
          rcases List.mem_cons.1 h with h | h
          · omega
          · have := hfhm d h; omega
        · intro h
          rw [b2n] at h
          rcases List.mem_cons.1 h with h | h
          · omega
          · have := hshm d h; omega
      · intro d hd hds hdb
        rw [hβ3]
        refine hres.frame0 d (fun h => by have := hfhm d h; omega) (by rw [e2]; exact hds) (fun _ => ⟨?_, ?_⟩)
        · intro h; have := hshm d h; omega
        · rw [b2n, e4]; exact hdb
  obtain ⟨m3, fh, sh, r3, w3, nn3, as3, hch, hlast, hlast2, hnew, hfl, fr1, fr0⟩ := mid
  have hnf : ∀ x, x ∈ fh → next + 2 ≤ x ∧ x < next + 2 + 2 * k := fun x hx => hnew x (List.mem_append_left _ hx)
  have hns : ∀ x, x ∈ sh → next + 2 ≤ x ∧ x < next + 2 + 2 * k := fun x hx => hnew x (List.mem_append_right _ hx)
  have h3start : m3.β 1 e.start = next := by rw [fr1 _ hstart, e1]
  -- `mark_boundary` walks the new edge
  obtain ⟨m', r', st'⟩ := markBoundary_total e.stop fh next m3 m.n w3 (by rw [as3]; exact hA) hch hlast
    (by
      intro h
      rcases List.mem_cons.1 h with h | h
      · omega
      · have := hnf _ h; omega)
    (by
      intro x hx
      rw [nn3]
      rcases List.mem_cons.1 hx with h | h
      · omega
      · have := hnf _ h; omega)
    (by omega)
  have hβ' : ∀ j d, m'.β j d = m3.β j d := fun j d => st'.β j d
  have w' := w3.sameTopo st'
  have hL1 : fh.getLastD next ≠ 0 ∧ fh.getLastD next < m.n := by
    rcases List.mem_cons.1 (getLastD_mem_cons fh next) with h | h
    · rw [h]; omega
    · have := hnf _ h; omega
  have hL2 : sh.getLastD (next + 1) ≠ 0 ∧ sh.getLastD (next + 1) < m.n := by
    rcases List.mem_cons.1 (getLastD_mem_cons sh (next + 1)) with h | h
    · rw [h]; omega
    · have := hns _ h; omega
  refine ⟨m', ?_, by rw [st'.asz, as3], ?_, ?_, ?_, ?_⟩
  · unfold insertOneEdge
    simp only [Prog.bind_eq]
    rw [rg' (by omega : 0 < 2 + 2 * k), rg' (by omega : 1 < 2 + 2 * k), Nat.add_zero, run_bind_of_ok r1]
    simp only [Prog.bind_eq] at r3
    rw [run_bind_of_ok r3, run_rB, if_pos (okβ_of_wf w3 (by omega) (by rw [nn3]; exact hs.2.1)), h3start]
    exact r'
  · intro d hd h1 h2
    rw [hβ', fr1 d hd]
    exact e6 d h1 h2 (by omega) (by omega)
  · intro d hd
    rw [hβ', fr1 d hd]
    by_cases h1 : d = e.start
    · right; rw [h1, e1]
    · by_cases h2 : d = m.β 0 e.stop
      · right; rw [h2, e3]; omega
      · left; exact e6 d h1 h2 (by omega) (by omega)
  · intro d hd h1 h2
    rw [hβ', fr0 d hd h1 h2]
    exact e7 d h1 h2 (by omega) (by omega)
  · intro d hd hd0
    rw [hβ']
    by_cases h1 : d = e.stop
    · have := w3.inv01 (fh.getLastD next) (by rw [nn3]; exact hL1.2) (by rw [hlast]; exact he.1)
      rw [hlast] at this; rw [h1, this]; exact hL1.1
    · by_cases h2 : d = m.β 1 e.start
      · have := w3.inv01 (sh.getLastD (next + 1)) (by rw [nn3]; exact hL2.2) (by rw [hlast2]; exact n1)
        rw [hlast2] at this; rw [h2, this]; exact hL2.1
      · rw [fr0 d hd h1 h2, e7 d h1 h2 (by omega) (by omega)]; exact hd0

/-! ## the whole step 5 -/

/-- what an edge needs at its turn: the decidable condition of `build_base_edge`, and a value at its two end points -/
def EdgeOK (m : Map Val) (e : MEdge) : Prop :=
  Ready m e ∧ (∃ P, Carries m (m.β 1 e.start) P) ∧ ∃ P, Carries m e.stop P

/-- the later edge `e'` does not start at a dart whose successor the earlier edge `e` redirects, nor end at a dart whose
    predecessor it redirects -/
def Indep (m : Map Val) (e e' : MEdge) : Prop :=
  e'.start ≠ e.start ∧ e'.start ≠ m.β 0 e.stop ∧ e'.stop ≠ e.stop ∧ e'.stop ≠ m.β 1 e.start

instance (m : Map Val) (e e' : MEdge) : Decidable (Indep m e e') := by unfold Indep; infer_instance

theorem insertEdgesFrom_total (ha : Bool) : ∀ (edges : List MEdge) (m : Map Val) (next i : Nat), EInv m next →
    sBd < m.a.size → (ha = true → sVA < m.a.size) → (∀ e, e ∈ edges → EdgeOK m e) → edges.Pairwise (Indep m) →
    next + (edges.map fun e => 2 + 2 * e.inter.length).sum ≤ m.n →
    ∃ m', run (insertEdgesFrom m.n ha i (edges.zip (edgeSlices next edges))) m = (.ok (), m') := by
  intro edges
  induction edges with
  | nil =>
      intro m next i _ _ _ _ _ _
      exact ⟨m, by simp only [edgeSlices, List.zip_nil_right, insertEdgesFrom, Prog.pure_eq, run_ret]⟩
  | cons e es ih =>
      intro m next i I hA hva hall hpw hroom
      simp only [List.map_cons, List.sum_cons] at hroom
      obtain ⟨R, c1, c2⟩ := hall e List.mem_cons_self
      obtain ⟨m1, r1, as1, F1, F1', F0, F0'⟩ := insertOneEdge_total (i := i) I hA hva R (by omega) c1 c2
      obtain ⟨I1, nn1, uu1⟩ := C16_insertOneEdge_inv I R.1 R.2.1 (by omega) r1
      have hwf := I.wf
      have notFresh : ∀ d, d < m.n → (∃ j, j < 3 ∧ m.β j d ≠ 0) → d < next := by
        intro d hd ⟨j, hj, hne⟩
        rcases Nat.lt_or_ge d next with h' | h'
        · exact h'
        · exact absurd ((I.fresh d h' hd).2.1 j hj) hne
      obtain ⟨hind, hpw'⟩ := List.pairwise_cons.1 hpw
      -- what the later edges read is untouched
      have keep : ∀ e', e' ∈ es → e'.start < next ∧ e'.stop < next ∧ m1.β 1 e'.start = m.β 1 e'.start ∧
          m1.β 0 e'.stop = m.β 0 e'.stop ∧ m.β 1 e'.start < next := by
        intro e' he'
        obtain ⟨⟨hs', hst', n1', n0', _⟩, _, _⟩ := hall e' (List.mem_cons_of_mem _ he')
        obtain ⟨i1, i2, i3, i4⟩ := hind e' he'
        have a := notFresh _ hs'.2.1 ⟨1, by omega, n1'⟩
        have b := notFresh _ hst'.2.1 ⟨0, by omega, n0'⟩
        have c : m.β 1 e'.start < next := notFresh _ (hwf.range 1 (by omega) _ hs'.2.1)
          ⟨0, by omega, by rw [hwf.inv01 _ hs'.2.1 n1']; exact hs'.1⟩
        exact ⟨a, b, F1 _ a i1 i2, F0 _ b i3 i4, c⟩
      have hall' : ∀ e', e' ∈ es → EdgeOK m1 e' := by
        intro e' he'
        obtain ⟨R', ⟨P1, hP1⟩, ⟨P2, hP2⟩⟩ := hall e' (List.mem_cons_of_mem _ he')
        obtain ⟨a, b, k1, k0, c⟩ := keep e' he'
        refine ⟨ready_step I R' nn1 uu1 F1' F0', ⟨P1, ?_⟩, ⟨P2, ?_⟩⟩
        · rw [k1]
          exact carriesS_insertOneEdge I R.1 R.2.1 (by omega) r1 (by decide) c hP1
        · exact carriesS_insertOneEdge I R.1 R.2.1 (by omega) r1 (by decide) b hP2
      have hpw1 : es.Pairwise (Indep m1) := by
        refine List.Pairwise.imp_of_mem ?_ hpw'
        intro a b ha' _ hab
        obtain ⟨_, _, k1, k0, _⟩ := keep a ha'
        unfold Indep at hab ⊢
        rw [k1, k0]; exact hab
      obtain ⟨m', r'⟩ := ih m1 (next + (2 + 2 * e.inter.length)) (i + 1) I1 (by rw [as1]; exact hA)
        (by intro h; rw [as1]; exact hva h) hall' hpw1 (by rw [nn1]; omega)
      refine ⟨m', ?_⟩
      simp only [edgeSlices, List.zip_cons_cons, insertEdgesFrom, Prog.bind_eq]
      rw [run_bind_of_ok r1, ← nn1]
      exact r'

/-- **C16, step 5 — a sufficient condition for success, edges with any number of intermediate points** (partial: for edges
    that are pairwise independent, `Indep`).  On a well-formed map that has the storages step 5 writes and carries no tag,
    `insert_edges_in_map` succeeds as soon as, IN THE MAP BEFORE THE STEP, every edge is `Ready` (decidable: its darts in use,
    a successor, a predecessor, not consecutive — no consecutive-darts panic), its two end points carry a coordinate (no
    `UndefinedEdge` from `insert_vertices_on_edge`), and no later edge starts / ends at a dart an earlier edge redirects.
    Inside: forward totality of `build_base_edge`, of `insert_vertices_on_edge` (`C16_insertVertices_total_partial`), of the
    placeholder replacement and of the walk of `mark_boundary`; the conditions are transported along the loop. -/
theorem C16_stepFive_total_indep_partial {m : Map Val} {ha : Bool} {edges : List MEdge} (hwf : WF 3 m)
    (hnotag : ∀ d, m.att sBd d = none) (hA : sBd < m.a.size) (hva : ha = true → sVA < m.a.size)
    (hok : ∀ e, e ∈ edges → EdgeOK m e) (hind : edges.Pairwise (Indep m)) :
    ∃ m', stepFive m ha edges = (.ok (), m') := by
  unfold stepFive
  simp only
  set k := (edges.map fun e => 2 + 2 * e.inter.length).sum with hk
  have hs := hwf.toSized
  have w1 : WF 3 (m.addFreeDarts k).2 := hwf.addFreeDarts (by omega) k
  have hn1 : (m.addFreeDarts k).2.n = m.n + k := rfl
  have t1 := addFreeDarts_att_none sBd hnotag k
  have I1 : EInv (m.addFreeDarts k).2 m.n := by
    refine ⟨w1, fun d => Or.inl (t1 d), ?_, hs.npos, ?_⟩
    · intro d _ _ _
      show (m.addFreeDarts k).2.att sBd d = _ ↔ (m.addFreeDarts k).2.att sBd _ = _
      rw [t1, t1]; simp
    · intro d hd hdn
      refine ⟨?_, ?_, t1 d⟩
      · rw [addFreeDarts_unused hs, if_neg (by omega)]
      · intro i hi; rw [addFreeDarts_β hs k i d hi, if_neg (by omega)]
  have eβ : ∀ i d, i < 3 → d < m.n → (m.addFreeDarts k).2.β i d = m.β i d := by
    intro i d hi hd; rw [addFreeDarts_β hs k i d hi, if_pos hd]
  have hok' : ∀ e, e ∈ edges → EdgeOK (m.addFreeDarts k).2 e := by
    intro e he
    obtain ⟨⟨a, b, c1, c0, cc⟩, ⟨P1, hP1⟩, ⟨P2, hP2⟩⟩ := hok e he
    refine ⟨⟨⟨a.1, by rw [hn1]; have := a.2.1; omega, ?_⟩, ⟨b.1, by rw [hn1]; have := b.2.1; omega, ?_⟩, ?_, ?_, ?_⟩,
      ⟨P1, ?_⟩, ⟨P2, carries_addFreeDarts hwf k hP2⟩⟩
    · rw [addFreeDarts_unused hs, if_pos a.2.1]; exact a.2.2
    · rw [addFreeDarts_unused hs, if_pos b.2.1]; exact b.2.2
    · rw [eβ 1 _ (by omega) a.2.1]; exact c1
    · rw [eβ 0 _ (by omega) b.2.1]; exact c0
    · rw [eβ 1 _ (by omega) a.2.1]; exact cc
    · rw [eβ 1 _ (by omega) a.2.1]; exact carries_addFreeDarts hwf k hP1
  have hind' : edges.Pairwise (Indep (m.addFreeDarts k).2) := by
    refine List.Pairwise.imp_of_mem ?_ hind
    intro a b ha' _ hab
    obtain ⟨⟨ia, ib, _⟩, _⟩ := hok a ha'
    unfold Indep at hab ⊢
    rw [eβ 0 _ (by omega) ib.2.1, eβ 1 _ (by omega) ia.2.1]; exact hab
  have hsz : (m.addFreeDarts k).2.a.size = m.a.size := by simp only [Map.addFreeDarts, Array.size_map]
  have hfst : (m.addFreeDarts k).1 = m.n := rfl
  rw [hfst]
  exact insertEdgesFrom_total ha edges _ m.n 0 I1 (by rw [hsz]; exact hA) (by intro h; rw [hsz]; exact hva h) hok' hind'
    (by rw [hn1])

/-- the edge of `C16EdgeInsert` (one point of interest, across the cell `exCell`): the hypotheses hold -/
example : ∃ m', stepFive exCell true [exEdge] = (.ok (), m') :=
  C16_stepFive_total_indep_partial exCell_wf exCell_notag (by decide +kernel) (fun _ => by decide +kernel)
    (by
      intro e he
      simp only [List.mem_cons, List.not_mem_nil, or_false] at he
      subst he
      refine ⟨by decide +kernel, ⟨.pt 1 0 0, by decide +kernel, ?_⟩, ⟨.pt 1 1 0, by decide +kernel, ?_⟩⟩
      · have h : C03.cellId exCell .vertex (exCell.β 1 exEdge.start) = 2 := by decide +kernel
        rw [h]; decide +kernel
      · have h : C03.cellId exCell .vertex exEdge.stop = 3 := by decide +kernel
        rw [h]; decide +kernel)
    (List.pairwise_singleton _ _)

end HC.C16
