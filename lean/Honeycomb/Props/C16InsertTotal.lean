import Honeycomb.Props.C16Step5Total
import Honeycomb.Props.C14d

set_option linter.unusedSimpArgs false
set_option linter.unusedVariables false

namespace HC.C16
open HC

/-- same dart count, removal flags and attribute storages -/
structure SameNUA (m m' : Map Val) : Prop where
  n : m'.n = m.n
  u : m'.u = m.u
  a : m'.a = m.a

theorem SameNUA.refl (m : Map Val) : SameNUA m m := ⟨rfl, rfl, rfl⟩
theorem SameNUA.trans {m m' m'' : Map Val} (h1 : SameNUA m m') (h2 : SameNUA m' m'') : SameNUA m m'' :=
  ⟨h2.n.trans h1.n, h2.u.trans h1.u, h2.a.trans h1.a⟩
theorem SameNUA.inUse {m m' : Map Val} (s : SameNUA m m') {d : Nat} (h : C01.InUse m d) : C01.InUse m' d :=
  ⟨h.1, by rw [s.n]; exact h.2.1, by unfold Map.unused; rw [s.u]; exact h.2.2⟩

theorem run_twoUnlinkCore_ok {l : Nat} {m : Map Val} (o1 : m.okβ 2 l = true) (o0 : m.okβ 2 (m.β 2 l) = true)
    (h1 : m.β 2 l ≠ 0) :
    run (iUnlinkCore (X := Val) 2 l) m = (.ok (), (m.setβ 2 l 0).setβ 2 (m.β 2 l) 0) := by
  unfold iUnlinkCore
  simp only [Prog.bind_eq, bind, run_rB, o1, o0, h1, if_true, if_false, run_wB, run_wB', Map.okβ_setβ]

theorem link1_fwd {m : Map Val} (hwf : WF 3 m) {l r : Nat} (hl : C01.InUse m l) (hr : C01.InUse m r)
    (h1 : m.β 1 l = 0) (h0 : m.β 0 r = 0) :
    ∃ m', run (oneLinkCore (X := Val) l r) m = (.ok (), m') ∧ WF 3 m' ∧ SameNUA m m' ∧
      ∀ j e, m'.β j e = if 0 = j ∧ r = e then l else if 1 = j ∧ l = e then r else m.β j e := by
  have sz := hwf.toSized
  have ok1 := (sz.okβ 1 l).2 ⟨by omega, hl.2.1⟩
  have ok0 := (sz.okβ 0 r).2 ⟨by omega, hr.2.1⟩
  exact ⟨_, run_oneLinkCore_ok ok1 ok0 h1 h0, hwf.link1 (by omega) hl.1 hr.1 hl.2.1 hr.2.1 hl.2.2 hr.2.2 h1 h0,
    ⟨rfl, rfl, rfl⟩, (setβ2_facts sz r l (show 1 < 3 by omega) (show 0 < 3 by omega) hl.2.1 hr.2.1).2.2⟩

theorem link2_fwd {m : Map Val} (hwf : WF 3 m) {l r : Nat} (hl : C01.InUse m l) (hr : C01.InUse m r) (hlr : l ≠ r)
    (h1 : m.β 2 l = 0) (h0 : m.β 2 r = 0) :
    ∃ m', run (iLinkCore (X := Val) 2 l r) m = (.ok (), m') ∧ WF 3 m' ∧ SameNUA m m' ∧
      ∀ j e, m'.β j e = if 2 = j ∧ r = e then l else if 2 = j ∧ l = e then r else m.β j e := by
  have sz := hwf.toSized
  have ok1 := (sz.okβ 2 l).2 ⟨by omega, hl.2.1⟩
  have ok0 := (sz.okβ 2 r).2 ⟨by omega, hr.2.1⟩
  exact ⟨_, run_twoLinkCore_ok ok1 ok0 h1 h0,
    hwf.linkI (by omega) (by omega) hl.1 hr.1 hlr hl.2.1 hr.2.1 hl.2.2 hr.2.2 h1 h0,
    ⟨rfl, rfl, rfl⟩, (setβ2_facts sz r l (show 2 < 3 by omega) (show 2 < 3 by omega) hl.2.1 hr.2.1).2.2⟩

theorem unlink1_fwd {m : Map Val} (hwf : WF 3 m) {l : Nat} (hl : C01.InUse m l) (h1 : m.β 1 l ≠ 0) :
    ∃ m', run (oneUnlinkCore (X := Val) l) m = (.ok (), m') ∧ WF 3 m' ∧ SameNUA m m' ∧
      ∀ j e, m'.β j e = if 0 = j ∧ m.β 1 l = e then 0 else if 1 = j ∧ l = e then 0 else m.β j e := by
  have sz := hwf.toSized
  have hr := hwf.range 1 (by omega) l hl.2.1
  have ok1 := (sz.okβ 1 l).2 ⟨by omega, hl.2.1⟩
  have ok0 := (sz.okβ 0 (m.β 1 l)).2 ⟨by omega, hr⟩
  exact ⟨_, run_oneUnlinkCore_ok ok1 ok0 h1, hwf.unlink1 (by omega) hl.2.1 h1,
    ⟨rfl, rfl, rfl⟩, (setβ2_facts sz 0 0 (show 1 < 3 by omega) (show 0 < 3 by omega) hl.2.1 hr).2.2⟩

theorem unlink2_fwd {m : Map Val} (hwf : WF 3 m) {l : Nat} (hl : C01.InUse m l) (h1 : m.β 2 l ≠ 0) :
    ∃ m', run (iUnlinkCore (X := Val) 2 l) m = (.ok (), m') ∧ WF 3 m' ∧ SameNUA m m' ∧
      ∀ j e, m'.β j e = if 2 = j ∧ m.β 2 l = e then 0 else if 2 = j ∧ l = e then 0 else m.β j e := by
  have sz := hwf.toSized
  have hr := hwf.range 2 (by omega) l hl.2.1
  have ok1 := (sz.okβ 2 l).2 ⟨by omega, hl.2.1⟩
  have ok0 := (sz.okβ 2 (m.β 2 l)).2 ⟨by omega, hr⟩
  exact ⟨_, run_twoUnlinkCore_ok ok1 ok0 h1, hwf.unlinkI (by omega) (by omega) hl.2.1 h1,
    ⟨rfl, rfl, rfl⟩, (setβ2_facts sz 0 0 (show 2 < 3 by omega) (show 2 < 3 by omega) hl.2.1 hr).2.2⟩

/-- the first chain: `prev → l₀ → l₁ → …`, forwards -/
theorem chainFirst_total : ∀ (l : List Nat) (prev : Nat) (m : Map Val), WF 3 m → C01.InUse m prev → m.β 1 prev = 0 →
    (∀ x, x ∈ l → C01.InUse m x ∧ m.β 0 x = 0 ∧ m.β 1 x = 0) → (prev :: l).Nodup →
    ∃ m', run (chainFirst prev l) m = (.ok (l.getLastD prev), m') ∧ WF 3 m' ∧ SameNUA m m' ∧
      m'.β 1 (l.getLastD prev) = 0 ∧ (∀ d, m'.β 2 d = m.β 2 d) ∧
      (∀ d, d ∉ prev :: l → m'.β 1 d = m.β 1 d) ∧ (∀ d, d ∉ l → m'.β 0 d = m.β 0 d) := by
  intro l
  induction l with
  | nil =>
      intro prev m hwf hp h1 _ _
      exact ⟨m, by simp [chainFirst], hwf, SameNUA.refl m, h1, fun _ => rfl, fun _ _ => rfl, fun _ _ => rfl⟩
  | cons nd rest ih =>
      intro prev m hwf hp h1 hfree hnd
      obtain ⟨ind, f0, f1⟩ := hfree nd List.mem_cons_self
      obtain ⟨m1, r1, w1, s1, β1⟩ := link1_fwd hwf hp ind h1 f0
      have hpn : prev ≠ nd := fun e => (List.nodup_cons.1 hnd).1 (e ▸ List.mem_cons_self)
      have hnd' : (nd :: rest).Nodup := (List.nodup_cons.1 hnd).2
      have hfree' : ∀ x, x ∈ rest → C01.InUse m1 x ∧ m1.β 0 x = 0 ∧ m1.β 1 x = 0 := by
        intro x hx
        obtain ⟨a, b, c⟩ := hfree x (List.mem_cons_of_mem _ hx)
        have hxn : nd ≠ x := fun e => (List.nodup_cons.1 hnd').1 (e ▸ hx)
        have hxp : prev ≠ x := fun e => (List.nodup_cons.1 hnd).1 (e ▸ List.mem_cons_of_mem _ hx)
        refine ⟨s1.inUse a, ?_, ?_⟩
        · rw [β1]; simp [hxn, b]
        · rw [β1]; simp [hxp, c]
      have h1' : m1.β 1 nd = 0 := by rw [β1]; simp [hpn, f1]
      obtain ⟨m', r', w', s', l', b2, b1, b0⟩ := ih nd m1 w1 (s1.inUse ind) h1' hfree' hnd'
      refine ⟨m', ?_, w', s1.trans s', ?_, ?_, ?_, ?_⟩
      · simp only [chainFirst, Prog.bind_eq]
        rw [run_bind_of_ok r1, r', List.getLastD_cons]
      · rw [List.getLastD_cons]; exact l'
      · intro d; rw [b2, β1]; simp
      · intro d hd
        simp only [List.mem_cons, not_or] at hd
        rw [b1 d (by simp only [List.mem_cons, not_or]; exact ⟨hd.2.1, hd.2.2⟩), β1]
        simp [Ne.symm hd.1]
      · intro d hd
        simp only [List.mem_cons, not_or] at hd
        rw [b0 d hd.2, β1]
        simp [Ne.symm hd.1]

/-- the second chain: `prev → nd₀ → nd₁ → …` with `β2(prev) = d₀`, `β2(nd₀) = d₁`, …, forwards -/
theorem chainSecond_total : ∀ (l : List (Nat × Nat)) (prev : Nat) (m : Map Val), WF 3 m → C01.InUse m prev →
    m.β 1 prev = 0 → m.β 2 prev = 0 →
    (∀ x, x ∈ l → C01.InUse m x.1 ∧ m.β 2 x.1 = 0 ∧ C01.InUse m x.2 ∧ m.β 0 x.2 = 0 ∧ m.β 1 x.2 = 0 ∧ m.β 2 x.2 = 0) →
    (prev :: l.map (·.2)).Nodup → (l.map (·.1)).Nodup → (∀ x, x ∈ l.map (·.1) → x ∉ prev :: l.map (·.2)) →
    ∃ m', run (chainSecond prev l) m = (.ok ((l.map (·.2)).getLastD prev), m') ∧ WF 3 m' ∧ SameNUA m m' ∧
      m'.β 1 ((l.map (·.2)).getLastD prev) = 0 ∧ m'.β 2 ((l.map (·.2)).getLastD prev) = 0 ∧
      (∀ d, d ∉ prev :: l.map (·.2) → m'.β 1 d = m.β 1 d) ∧ (∀ d, d ∉ l.map (·.2) → m'.β 0 d = m.β 0 d) ∧
      (∀ d, d ∉ prev :: l.map (·.2) → d ∉ l.map (·.1) → m'.β 2 d = m.β 2 d) := by
  intro l
  induction l with
  | nil =>
      intro prev m hwf hp h1 h2 _ _ _ _
      exact ⟨m, by simp [chainSecond], hwf, SameNUA.refl m, h1, h2, fun _ _ => rfl, fun _ _ => rfl, fun _ _ _ => rfl⟩
  | cons x rest ih =>
      intro prev m hwf hp h1 h2 hfree hnd2 hnd1 hdis
      obtain ⟨d, nd⟩ := x
      simp only [List.map_cons] at hnd2 hnd1 hdis ⊢
      obtain ⟨id, fd2, ind, f0, f1, f2⟩ := hfree (d, nd) List.mem_cons_self
      simp only at id fd2 ind f0 f1 f2
      have hpn : prev ≠ nd := fun e => (List.nodup_cons.1 hnd2).1 (e ▸ List.mem_cons_self)
      have hnd2' : (nd :: rest.map (·.2)).Nodup := (List.nodup_cons.1 hnd2).2
      have hd_out := hdis d List.mem_cons_self
      simp only [List.mem_cons, not_or] at hd_out
      have hpd : prev ≠ d := Ne.symm hd_out.1
      have hdn : d ≠ nd := hd_out.2.1
      obtain ⟨mA, rA, wA, sA, βA⟩ := link2_fwd hwf hp id hpd h2 fd2
      have h1A : mA.β 1 prev = 0 := by rw [βA]; simp [h1]
      have f0A : mA.β 0 nd = 0 := by rw [βA]; simp [f0]
      obtain ⟨mB, rB', wB', sB, βB⟩ := link1_fwd wA (sA.inUse hp) (sA.inUse ind) h1A f0A
      have sAB := sA.trans sB
      have βAB : ∀ j e, mB.β j e = if 0 = j ∧ nd = e then prev else if 1 = j ∧ prev = e then nd else
          if 2 = j ∧ d = e then prev else if 2 = j ∧ prev = e then d else m.β j e := by
        intro j e; rw [βB, βA]
      have h1B : mB.β 1 nd = 0 := by rw [βAB]; simp [hpn, f1]
      have h2B : mB.β 2 nd = 0 := by rw [βAB]; simp [hpn, hdn, f2]
      have hfree' : ∀ x, x ∈ rest → C01.InUse mB x.1 ∧ mB.β 2 x.1 = 0 ∧ C01.InUse mB x.2 ∧ mB.β 0 x.2 = 0 ∧
          mB.β 1 x.2 = 0 ∧ mB.β 2 x.2 = 0 := by
        intro x hx
        obtain ⟨a1, a2, b1, b2, b3, b4⟩ := hfree x (List.mem_cons_of_mem _ hx)
        have hx1 : x.1 ∈ rest.map (·.1) := List.mem_map_of_mem hx
        have hx2 : x.2 ∈ rest.map (·.2) := List.mem_map_of_mem hx
        have e1 : d ≠ x.1 := fun e => (List.nodup_cons.1 hnd1).1 (e ▸ hx1)
        have o1 := hdis x.1 (List.mem_cons_of_mem _ hx1)
        simp only [List.mem_cons, not_or] at o1
        have e2 : prev ≠ x.1 := Ne.symm o1.1
        have e3 : nd ≠ x.2 := fun e => (List.nodup_cons.1 hnd2').1 (e ▸ hx2)
        have e4 : prev ≠ x.2 := fun e => (List.nodup_cons.1 hnd2).1 (e ▸ List.mem_cons_of_mem _ hx2)
        have e5 : d ≠ x.2 := fun e => hd_out.2.2 (e ▸ hx2)
        refine ⟨sAB.inUse a1, ?_, sAB.inUse b1, ?_, ?_, ?_⟩
        · rw [βAB]; simp [e1, e2, a2]
        · rw [βAB]; simp [e3, b2]
        · rw [βAB]; simp [e4, b3]
        · rw [βAB]; simp [e5, e4, b4]
      have hdis' : ∀ x, x ∈ rest.map (·.1) → x ∉ nd :: rest.map (·.2) := by
        intro x hx
        have := hdis x (List.mem_cons_of_mem _ hx)
        simp only [List.mem_cons, not_or] at this ⊢
        exact ⟨this.2.1, this.2.2⟩
      obtain ⟨m', r', w', s', l1, l2, b1, b0, b2⟩ :=
        ih nd mB wB' (sAB.inUse ind) h1B h2B hfree' hnd2' (List.nodup_cons.1 hnd1).2 hdis'
      refine ⟨m', ?_, w', sAB.trans s', ?_, ?_, ?_, ?_, ?_⟩
      · simp only [chainSecond, Prog.bind_eq]
        rw [run_bind_of_ok rA, run_bind_of_ok rB', r', List.getLastD_cons]
      · rw [List.getLastD_cons]; exact l1
      · rw [List.getLastD_cons]; exact l2
      · intro e he
        simp only [List.mem_cons, not_or] at he
        rw [b1 e (by simp only [List.mem_cons, not_or]; exact ⟨he.2.1, he.2.2⟩), βAB]
        simp [Ne.symm he.1]
      · intro e he
        simp only [List.mem_cons, not_or] at he
        rw [b0 e he.2, βAB]
        simp [Ne.symm he.1]
      · intro e he he'
        simp only [List.mem_cons, not_or] at he he'
        rw [b2 e (by simp only [List.mem_cons, not_or]; exact ⟨he.2.1, he.2.2⟩) he'.2, βAB]
        simp [Ne.symm he.1, Ne.symm he'.1]

theorem run_writeVtx_ok {m : Map Val} {id : Nat} (v : Val) (h : m.okA 0 id = true) :
    run (writeVtx id v) m = (.ok (m.att 0 id), m.setA 0 id (some v)) := by
  unfold writeVtx
  simp only [Prog.bind_eq, bind, run_rA, h, if_true, run_wA, Prog.pure_eq, run_ret]

theorem okA_vertex {m : Map Val} (hwf : WF 3 m) {s : Nat} (hs : s < m.a.size) {d : Nat} (hd : d < m.n) :
    m.okA s d = true := by
  unfold Map.okA
  have := hwf.toSized.asz s hs
  simp only [Bool.and_eq_true, decide_eq_true_eq]
  exact ⟨hs, by omega⟩

/-- writing the new points: total on a well-formed map with a vertex storage -/
theorem placeVertices_total (v1 v2 : Val) : ∀ (l : List (Rat × Nat)) (m : Map Val), WF 3 m → 0 < m.a.size →
    (∀ x, x ∈ l → x.2 ≠ 0 ∧ x.2 < m.n) →
    ∃ m', run (placeVertices m.n v1 v2 l) m = (.ok (), m') ∧ SameTopo m m' := by
  intro l
  induction l with
  | nil => intro m _ _ _; exact ⟨m, by simp [placeVertices], SameTopo.refl m⟩
  | cons x rest ih =>
      intro m hwf h0 hall
      obtain ⟨t, nd⟩ := x
      obtain ⟨hn0, hnlt⟩ := hall (t, nd) List.mem_cons_self
      simp only at hn0 hnlt
      have hvid := (C03.C03_vertexId2_min hwf hn0 hnlt).1
      have hid := C03.cellId_idem hwf (pol := .vertex) trivial hn0 hnlt
      have okv := okA_vertex hwf h0 hid.2.1
      have st := SameTopo.setA m 0 (C03.cellId m .vertex nd) (some (placeVal v1 v2 (some t)))
      obtain ⟨m', r', s'⟩ := ih (m.setA 0 (C03.cellId m .vertex nd) (some (placeVal v1 v2 (some t)))) (hwf.sameTopo st)
        (by rw [st.asz]; exact h0) (fun x hx => hall x (List.mem_cons_of_mem _ hx))
      rw [Map.n_setA] at r'
      refine ⟨m', ?_, st.trans s'⟩
      simp only [placeVertices, Prog.bind_eq]
      rw [run_bind_of_ok hvid, run_bind_of_ok (run_writeVtx_ok _ okv)]
      exact r'

theorem getLastD_mem_cons : ∀ (l : List Nat) (a : Nat), l.getLastD a ∈ a :: l
  | [], a => by simp
  | x :: rest, a => by
      rw [List.getLastD_cons]
      exact List.mem_cons_of_mem _ (getLastD_mem_cons rest x)

/-- **the editing part of `insert_vertices_on_edge` is total** on a 2-linked edge whose two darts have a successor: on a
    well-formed map with a vertex storage, with spare darts that are in use, free and distinct, every link / unlink is
    accepted and every vertex identifier is computed -/
theorem insertVerticesBody_total {m : Map Val} (hwf : WF 3 m) (h0 : 0 < m.a.size) {e : Nat} (he : C01.InUse m e)
    (hb1 : m.β 1 e ≠ 0) (hb2 : m.β 2 e ≠ 0) (hc1 : m.β 1 (m.β 2 e) ≠ 0) {fh sh : List Nat} (hlen : fh.length = sh.length)
    (hfree : ∀ x, x ∈ fh ++ sh → C01.InUse m x ∧ ∀ i, i < 3 → m.β i x = 0) (hnd : (fh ++ sh).Nodup)
    (v1 v2 : Val) (ts : List Rat) :
    ∃ m', run (insertVerticesBody m.n v1 v2 e (m.β 2 e) (m.β 1 e) fh sh ts) m = (.ok (), m') ∧ WF 3 m' ∧
      m'.n = m.n ∧ m'.u = m.u ∧ m'.a.size = m.a.size := by
  obtain ⟨b1, hB1⟩ : ∃ b1, m.β 1 e = b1 := ⟨_, rfl⟩
  obtain ⟨b2, hB2⟩ : ∃ b2, m.β 2 e = b2 := ⟨_, rfl⟩
  rw [hB2] at hc1 ⊢
  obtain ⟨c1, hC1⟩ : ∃ c1, m.β 1 b2 = c1 := ⟨_, rfl⟩
  rw [hB1] at hb1 ⊢
  rw [hB2] at hb2
  rw [hC1] at hc1
  -- the old darts
  have ib1 : C01.InUse m b1 := hB1 ▸ inUse_image hwf (by omega) he.2.1 (hB1 ▸ hb1)
  have ib2 : C01.InUse m b2 := hB2 ▸ inUse_image hwf (by omega) he.2.1 (hB2 ▸ hb2)
  have ic1 : C01.InUse m c1 := hC1 ▸ inUse_image hwf (by omega) ib2.2.1 (hC1 ▸ hc1)
  have hb0b1 : m.β 0 b1 = e := hB1 ▸ hwf.inv01 e he.2.1 (hB1 ▸ hb1)
  have hb0c1 : m.β 0 c1 = b2 := hC1 ▸ hwf.inv01 b2 ib2.2.1 (hC1 ▸ hc1)
  have hinv := hwf.invol 2 (by omega) (by omega) e he.2.1 (hB2 ▸ hb2)
  rw [hB2] at hinv
  have heb2 : e ≠ b2 := Ne.symm hinv.2
  -- the spare darts
  have fr : ∀ x, x ∈ fh ++ sh → x ≠ e ∧ x ≠ b1 ∧ x ≠ b2 ∧ x ≠ c1 := by
    intro x hx
    obtain ⟨_, f⟩ := hfree x hx
    refine ⟨?_, ?_, ?_, ?_⟩
    · rintro rfl; exact hb1 (hB1 ▸ f 1 (by omega))
    · rintro rfl; exact he.1 (hb0b1 ▸ f 0 (by omega))
    · rintro rfl; exact he.1 (hinv.1 ▸ f 2 (by omega))
    · rintro rfl; exact ib2.1 (hb0c1 ▸ f 0 (by omega))
  have frf : ∀ x, x ∈ fh → x ∈ fh ++ sh := fun x hx => List.mem_append_left _ hx
  have frs : ∀ x, x ∈ sh → x ∈ fh ++ sh := fun x hx => List.mem_append_right _ hx
  have ndf : fh.Nodup := (List.nodup_append.1 hnd).1
  have nds : sh.Nodup := (List.nodup_append.1 hnd).2.1
  have dfs : ∀ x, x ∈ fh → x ∉ sh := fun x hx hx' => (List.nodup_append.1 hnd).2.2 x hx x hx' rfl
  have notin_f : ∀ {y}, (y = e ∨ y = b1 ∨ y = b2 ∨ y = c1) → y ∉ fh := by
    intro y hy hyf
    obtain ⟨a, b, c, d⟩ := fr y (frf y hyf)
    rcases hy with h | h | h | h <;> simp_all
  have notin_s : ∀ {y}, (y = e ∨ y = b1 ∨ y = b2 ∨ y = c1) → y ∉ sh := by
    intro y hy hys
    obtain ⟨a, b, c, d⟩ := fr y (frs y hys)
    rcases hy with h | h | h | h <;> simp_all
  -- A. unlink `e`
  obtain ⟨mA, rA, wA, sA, βA⟩ := unlink1_fwd hwf he (hB1 ▸ hb1)
  rw [hB1] at βA
  -- B. 2-unlink `e`
  have hA2 : mA.β 2 e = b2 := by rw [βA]; simp [hB2]
  obtain ⟨mB, rB', wB', sB, βB⟩ := unlink2_fwd wA (sA.inUse he) (hA2 ▸ hb2)
  rw [hA2] at βB
  have sAB := sA.trans sB
  have βAB : ∀ j x, mB.β j x = if 2 = j ∧ b2 = x then 0 else if 2 = j ∧ e = x then 0 else
      if 0 = j ∧ b1 = x then 0 else if 1 = j ∧ e = x then 0 else m.β j x := by
    intro j x; rw [βB, βA]
  -- C. the first chain
  have hB1e : mB.β 1 e = 0 := by rw [βAB]; simp
  have hfreeC : ∀ x, x ∈ fh → C01.InUse mB x ∧ mB.β 0 x = 0 ∧ mB.β 1 x = 0 := by
    intro x hx
    obtain ⟨iu, f⟩ := hfree x (frf x hx)
    obtain ⟨n1, n2, n3, n4⟩ := fr x (frf x hx)
    refine ⟨sAB.inUse iu, ?_, ?_⟩
    · rw [βAB]; simp [Ne.symm n2, f 0 (by omega)]
    · rw [βAB]; simp [Ne.symm n1, f 1 (by omega)]
  obtain ⟨mC, rC, wC, sC, hCl, βC2, βC1, βC0⟩ := chainFirst_total fh e mB wB' (sAB.inUse he) hB1e hfreeC
    (List.nodup_cons.2 ⟨notin_f (Or.inl rfl), ndf⟩)
  have sAC := sAB.trans sC
  have hp1 := getLastD_mem_cons fh e
  have ip1 : C01.InUse m (fh.getLastD e) := by
    rcases List.mem_cons.1 hp1 with h | h
    · rw [h]; exact he
    · exact (hfree _ (frf _ h)).1
  have b2_notin : b2 ∉ e :: fh := by
    intro h
    rcases List.mem_cons.1 h with h | h
    · exact heb2 h.symm
    · exact notin_f (Or.inr (Or.inr (Or.inl rfl))) h
  -- D. close the first chain on the old successor
  have hC0b1 : mC.β 0 b1 = 0 := by
    rw [βC0 b1 (notin_f (Or.inr (Or.inl rfl))), βAB]; simp
  obtain ⟨mD, rD, wD, sD, βD⟩ := link1_fwd wC (sAC.inUse ip1) (sAC.inUse ib1) hCl hC0b1
  have sAD := sAC.trans sD
  -- E. the second side: unlink `b2`
  have hD1b2 : mD.β 1 b2 = c1 := by
    have hne : fh.getLastD e ≠ b2 := fun h => b2_notin (h ▸ hp1)
    rw [βD]; simp only [show ¬ (0 = 1) by omega, false_and, if_false, hne, and_false]
    rw [βC1 b2 b2_notin, βAB]; simp [heb2, hC1]
  obtain ⟨mE, rE, wE, sE, βE⟩ := unlink1_fwd wD (sAD.inUse ib2) (hD1b2 ▸ hc1)
  rw [hD1b2] at βE
  have sAE := sAD.trans sE
  -- F. the second chain
  have hZ1 : (fh.reverse.zip sh).map (·.1) = fh.reverse := by
    apply List.map_fst_zip; simp [hlen]
  have hZ2 : (fh.reverse.zip sh).map (·.2) = sh := by
    apply List.map_snd_zip; simp [hlen]
  have hE2 : ∀ x, mE.β 2 x = mB.β 2 x := by
    intro x; rw [βE, βD]; simp only [show ¬ (0 = 2) by omega, show ¬ (1 = 2) by omega, false_and, if_false]
    exact βC2 x
  have hE1b2 : mE.β 1 b2 = 0 := by rw [βE]; simp
  have hE2b2 : mE.β 2 b2 = 0 := by rw [hE2, βAB]; simp
  have p1_ne : ∀ {y}, y ∉ e :: fh → fh.getLastD e ≠ y := fun hy h => hy (h ▸ hp1)
  have s_notin : ∀ {y}, y ∈ sh → y ∉ e :: fh := by
    intro y hy h
    rcases List.mem_cons.1 h with h | h
    · exact notin_s (Or.inl rfl) (h ▸ hy)
    · exact dfs y h hy
  have hfreeF : ∀ x, x ∈ fh.reverse.zip sh → C01.InUse mE x.1 ∧ mE.β 2 x.1 = 0 ∧ C01.InUse mE x.2 ∧ mE.β 0 x.2 = 0 ∧
      mE.β 1 x.2 = 0 ∧ mE.β 2 x.2 = 0 := by
    intro x hx
    have hx1 : x.1 ∈ fh := List.mem_reverse.1 (List.of_mem_zip hx).1
    have hx2 : x.2 ∈ sh := (List.of_mem_zip hx).2
    obtain ⟨iu1, f1⟩ := hfree _ (frf _ hx1)
    obtain ⟨iu2, f2⟩ := hfree _ (frs _ hx2)
    obtain ⟨a1, a2, a3, a4⟩ := fr _ (frf _ hx1)
    obtain ⟨c1', c2, c3, c4⟩ := fr _ (frs _ hx2)
    refine ⟨sAE.inUse iu1, ?_, sAE.inUse iu2, ?_, ?_, ?_⟩
    · rw [hE2, βAB]; simp [Ne.symm a3, Ne.symm a1, f1 2 (by omega)]
    · rw [βE, βD]; simp only [Ne.symm c4, Ne.symm c2, and_false, if_false, show ¬ (1 = 0) by omega, false_and]
      rw [βC0 _ (fun h => dfs _ h hx2), βAB]; simp [Ne.symm c2, f2 0 (by omega)]
    · rw [βE, βD]; simp only [Ne.symm c3, p1_ne (s_notin hx2), and_false, if_false, show ¬ (0 = 1) by omega, false_and]
      rw [βC1 _ (s_notin hx2), βAB]; simp [Ne.symm c1', f2 1 (by omega)]
    · rw [hE2, βAB]; simp [Ne.symm c3, Ne.symm c1', f2 2 (by omega)]
  obtain ⟨mF, rF, wF, sF, hF1, hF2, βF1, βF0, βF2⟩ := chainSecond_total (fh.reverse.zip sh) b2 mE wE (sAE.inUse ib2)
    hE1b2 hE2b2 hfreeF (by rw [hZ2]; exact List.nodup_cons.2 ⟨notin_s (Or.inr (Or.inr (Or.inl rfl))), nds⟩)
    (by rw [hZ1]; exact List.nodup_reverse.2 ndf)
    (by
      rw [hZ1, hZ2]
      intro x hx h
      have hxf := List.mem_reverse.1 hx
      rcases List.mem_cons.1 h with h | h
      · exact notin_f (Or.inr (Or.inr (Or.inl rfl))) (h ▸ hxf)
      · exact dfs x hxf h)
  rw [hZ2] at rF hF1 hF2 βF1 βF0 βF2
  rw [hZ1] at βF2
  have sAF := sAE.trans sF
  have hp2 := getLastD_mem_cons sh b2
  have ip2 : C01.InUse m (sh.getLastD b2) := by
    rcases List.mem_cons.1 hp2 with h | h
    · rw [h]; exact ib2
    · exact (hfree _ (frs _ h)).1
  -- G. close the second chain on the old successor of `b2`
  have hF0c1 : mF.β 0 c1 = 0 := by
    rw [βF0 c1 (notin_s (Or.inr (Or.inr (Or.inr rfl)))), βE]; simp
  obtain ⟨mG, rG, wG, sG, βG⟩ := link1_fwd wF (sAF.inUse ip2) (sAF.inUse ic1) hF1 hF0c1
  have sAG := sAF.trans sG
  -- H. 2-link the last dart with `e`
  have e_notin : e ∉ b2 :: sh := by
    intro h
    rcases List.mem_cons.1 h with h | h
    · exact heb2 h
    · exact notin_s (Or.inl rfl) h
  have hp2e : sh.getLastD b2 ≠ e := fun h => e_notin (h ▸ hp2)
  have hG2p : mG.β 2 (sh.getLastD b2) = 0 := by
    rw [βG]; simp only [show ¬ (0 = 2) by omega, show ¬ (1 = 2) by omega, false_and, if_false]; exact hF2
  have hG2e : mG.β 2 e = 0 := by
    rw [βG]; simp only [show ¬ (0 = 2) by omega, show ¬ (1 = 2) by omega, false_and, if_false]
    rw [βF2 e e_notin (fun h => notin_f (Or.inl rfl) (List.mem_reverse.1 h)), hE2, βAB]; simp
  obtain ⟨mH, rH, wH, sH, βH⟩ := link2_fwd wG (sAG.inUse ip2) (sAG.inUse he) hp2e hG2p hG2e
  have sAH := sAG.trans sH
  -- I. the new points
  obtain ⟨mI, rI, sI⟩ := placeVertices_total v1 v2 (ts.zip fh) mH wH (by rw [sAH.a]; exact h0) (by
    intro x hx
    have hx2 := (List.of_mem_zip hx).2
    have := (hfree _ (frf _ hx2)).1
    exact ⟨this.1, by rw [sAH.n]; exact this.2.1⟩)
  rw [sAH.n] at rI
  refine ⟨mI, ?_, wH.sameTopo sI, by rw [sI.n, sAH.n], by rw [sI.u, sAH.u], by rw [sI.asz, sAH.a]⟩
  have rS : run (insertVerticesSide2 e b2 fh sh) mD = (.ok (), mH) := by
    unfold insertVerticesSide2
    simp only [Prog.bind_eq]
    rw [run_rB, if_pos ((Sized.okβ wD.toSized 1 b2).2 ⟨by omega, by rw [sAD.n]; exact ib2.2.1⟩), hD1b2]
    simp only [whenP, ne_eq, hc1, not_false_eq_true, decide_true, if_true]
    rw [run_bind_of_ok rE, run_bind_of_ok rF, run_bind_of_ok rG]
    exact rH
  unfold insertVerticesBody
  simp only [whenP, ne_eq, hb1, hb2, not_false_eq_true, decide_true, if_true, Prog.bind_eq]
  rw [run_bind_of_ok rA, run_bind_of_ok rB', run_bind_of_ok rC, run_bind_of_ok rD, run_bind_of_ok rS]
  exact rI

end HC.C16
