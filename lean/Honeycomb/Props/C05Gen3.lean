/-
  C05 — `CMap3::three_sew` / `three_unsew` (dim3/sews/three.rs), the two sews with `for` loops, TRANSLATED from the
  source on every run (`Gen/Sews3Loops.lean`, written by tools/gen_lean.py sews3c): a skeleton (the two face walks,
  their minima, the accumulators, the loops, the straight-line statements between them) and the bodies of the loops,
  instruction by instruction.  Interpreted in the model's transaction monad they are EQUAL as programs to the
  hand-written `threeSew3` / `threeUnsew3` of Model/Ops3.lean (and the loop bodies to one unfolding of
  `threeSewCollect` / `threeUnsewLoop`), which the C05 theorems are proved about.  What they call is tied elsewhere
  (`three_link` / `three_unlink`: Props/C02Gen3.lean; `AttrSparseVec::merge` / `split`: Props/C04Gen.lean; the images
  of `vertex_id_transac` / `edge_id_transac` and of the `Custom` policy: Props/C03Gen.lean) or stays hand-written
  (`merge_attributes` / `split_attributes` over the storages, the traversal itself).
-/
import Honeycomb.Gen.Sews3Loops
import Honeycomb.Model.Ops3
import Honeycomb.Props.C05

namespace HC.GenTie
open HC HC.C05
variable {X : Type}

/-- the two accumulators of `three_sew` (`edges`, `vertices`) -/
abbrev Accs3 := List (Nat × Nat) × List (Nat × Nat)

/-- operand of a generated instruction: parameters / loop variables, the null dart, bound variables -/
def s3cArg (l r : Nat) (env : List Nat) : Nat → Nat
  | 0 => l
  | 1 => r
  | 2 => 0
  | n => env.getD (n - 20) 0

/-- the meaning of a straight-line block (see the header of Gen/Sews3Loops.lean), in continuation-passing style: `k`
    receives the variables and the accumulators at the end of the block; the fuel only makes the recursion structural -/
def interpS3c {α : Type} (cfg : Cfg X) (n l r : Nat) :
    Nat → List Nat → Accs3 → List (Nat × List Nat) → (List Nat → Accs3 → P X α) → P X α
  | 0, _, _, _, _ => Prog.panic
  | _ + 1, env, acc, [], k => k env acc
  | f + 1, env, acc, (1, [i, a]) :: rest, k => do
      let v ← rB i (s3cArg l r env a)
      interpS3c cfg n l r f (env ++ [v]) acc rest k
  | f + 1, env, acc, (5, [a]) :: rest, k => do
      let v ← vertexId3 n (s3cArg l r env a)
      interpS3c cfg n l r f (env ++ [v]) acc rest k
  | f + 1, env, acc, (10, [a]) :: rest, k => do
      let v ← edgeId3 n (s3cArg l r env a)
      interpS3c cfg n l r f (env ++ [v]) acc rest k
  | f + 1, env, acc, (6, [0, x, y, z]) :: rest, k => do
      mergeS cfg 0 (s3cArg l r env x) (s3cArg l r env y) (s3cArg l r env z)
      interpS3c cfg n l r f env acc rest k
  | f + 1, env, acc, (6, [1, x, y, z]) :: rest, k => do
      splitS cfg 0 (s3cArg l r env x) (s3cArg l r env y) (s3cArg l r env z)
      interpS3c cfg n l r f env acc rest k
  | f + 1, env, acc, (7, [0, p, x, y, z]) :: rest, k => do
      mergeAttrs cfg p (s3cArg l r env x) (s3cArg l r env y) (s3cArg l r env z)
      interpS3c cfg n l r f env acc rest k
  | f + 1, env, acc, (7, [1, p, x, y, z]) :: rest, k => do
      splitAttrs cfg p (s3cArg l r env x) (s3cArg l r env y) (s3cArg l r env z)
      interpS3c cfg n l r f env acc rest k
  | f + 1, env, acc, (11, [vl, vb1r, vb1l, vr, i, a, b]) :: rest, k => do
      let pl ← rA 0 (s3cArg l r env vl)
      let pb1r ← rA 0 (s3cArg l r env vb1r)
      let pb1l ← rA 0 (s3cArg l r env vb1l)
      let pr ← rA 0 (s3cArg l r env vr)
      if badPair cfg pl pb1r pb1l pr then abort (errBadGeometry i (s3cArg l r env a) (s3cArg l r env b)) else
      interpS3c cfg n l r f env acc rest k
  | f + 1, env, acc, (15, [a, b]) :: rest, k =>
      interpS3c cfg n l r f (env ++ [min (s3cArg l r env a) (s3cArg l r env b)]) acc rest k
  | f + 1, env, acc, (18, [x, y, z]) :: rest, k =>
      interpS3c cfg n l r f (env ++ [if s3cArg l r env x = 0 then s3cArg l r env y else s3cArg l r env z]) acc rest k
  | f + 1, env, acc, (19, [a, m]) :: rest, k =>
      if s3cArg l r env a = 0 then
        interpS3c cfg n l r f env acc (rest.take m) (fun _ acc' => interpS3c cfg n l r f env acc' (rest.drop m) k)
      else interpS3c cfg n l r f env acc (rest.drop m) k
  | f + 1, env, acc, (20, [0, a, b]) :: rest, k =>
      interpS3c cfg n l r f env (acc.1 ++ [(s3cArg l r env a, s3cArg l r env b)], acc.2) rest k
  | f + 1, env, acc, (20, [1, a, b]) :: rest, k =>
      interpS3c cfg n l r f env (acc.1, acc.2 ++ [(s3cArg l r env a, s3cArg l r env b)]) rest k
  | f + 1, env, acc, (21, [0, 3, a, b]) :: rest, k => do
      threeLink3 n (s3cArg l r env a) (s3cArg l r env b)
      interpS3c cfg n l r f env acc rest k
  | f + 1, env, acc, (21, [1, 3, a, _]) :: rest, k => do
      threeUnlink3 n (s3cArg l r env a)
      interpS3c cfg n l r f env acc rest k
  | _, _, _, _, _ => Prog.panic

/-- a loop body run on the loop variables `l`, `r`: no variable bound yet, the variables are dropped at the end -/
def runBlockS3c {α : Type} (cfg : Cfg X) (n l r : Nat) (acc : Accs3) (body : List (Nat × List Nat))
    (k : Accs3 → P X α) : P X α :=
  interpS3c cfg n l r (body.length + 1) [] acc body (fun _ a => k a)

/-- `for (l, r) in <list of pairs> { body }` with the accumulators threaded through -/
def zipLoopS {α : Type} (body : Nat → Nat → Accs3 → (Accs3 → P X α) → P X α) :
    List (Nat × Nat) → Accs3 → (Accs3 → P X α) → P X α
  | [], acc, k => k acc
  | (l, r) :: rest, acc, k => body l r acc (fun acc' => zipLoopS body rest acc' k)

/-- the `filter` closure of a merge loop: `a1 != b1 && a2 != b2 && …` over 0, 1 = the components, 2 = the null dart -/
def condAllS (p : Nat × Nat) : List Nat → Bool
  | [] => true
  | a :: b :: rest => decide (s3cArg p.1 p.2 [] a ≠ s3cArg p.1 p.2 [] b) && condAllS p rest
  | [_] => false

/-- the meaning of a skeleton; `sides` are the collected walks with their start darts -/
def interpS3cSkel (cfg : Cfg X) (n ld rd : Nat) (bodies : List (List (Nat × List Nat))) :
    Nat → List Nat → List (List Nat × Nat) → Accs3 → List (Nat × List Nat) → P X Unit
  | 0, _, _, _, _ => Prog.panic
  | _ + 1, _, _, _, [] => pure ()
  | f + 1, env, sides, acc, (40, a :: g) :: rest => do
      let o ← orbitWith n (gen3 (.custom g)) (s3cArg ld rd env a)
      interpS3cSkel cfg n ld rd bodies f env (sides ++ [(o, s3cArg ld rd env a)]) acc rest
  | f + 1, env, sides, acc, (41, [s]) :: rest =>
      match sides[s]? with
      | some (o, d) => interpS3cSkel cfg n ld rd bodies f (env ++ [listMin o d]) sides acc rest
      | none => Prog.panic
  | f + 1, env, sides, acc, (42, [0]) :: rest => interpS3cSkel cfg n ld rd bodies f env sides ([], acc.2) rest
  | f + 1, env, sides, acc, (42, [1]) :: rest => interpS3cSkel cfg n ld rd bodies f env sides (acc.1, []) rest
  | f + 1, env, sides, acc, (43, [s, t, b]) :: rest =>
      match sides[s]?, sides[t]?, bodies[b]? with
      | some (o1, _), some (o2, _), some body =>
          zipLoopS (fun l r a k => runBlockS3c cfg n l r a body k) (o1.zip o2) acc
            (fun acc' => interpS3cSkel cfg n ld rd bodies f env sides acc' rest)
      | _, _, _ => Prog.panic
  | f + 1, env, sides, acc, (44, 0 :: b :: c) :: rest =>
      match bodies[b]? with
      | some body => do
          HC.forM_ (acc.1.filter (fun p => condAllS p c)) (fun p => runBlockS3c cfg n p.1 p.2 acc body (fun _ => pure ()))
          interpS3cSkel cfg n ld rd bodies f env sides acc rest
      | none => Prog.panic
  | f + 1, env, sides, acc, (44, 1 :: b :: c) :: rest =>
      match bodies[b]? with
      | some body => do
          HC.forM_ (acc.2.filter (fun p => condAllS p c)) (fun p => runBlockS3c cfg n p.1 p.2 acc body (fun _ => pure ()))
          interpS3cSkel cfg n ld rd bodies f env sides acc rest
      | none => Prog.panic
  | f + 1, env, sides, acc, (45, op :: args) :: rest =>
      interpS3c cfg n ld rd 2 env acc [(op, args)]
        (fun env' acc' => interpS3cSkel cfg n ld rd bodies f env' sides acc' rest)
  | _, _, _, _, _ => Prog.panic

theorem bind_unitS3c (p : P X Unit) : p.bind (fun _ => Prog.ret ()) = p := Prog.bind_ret p

theorem ite_bindS3c {α β : Type} (c : Prop) [Decidable c] (p q : P X α) (f : α → P X β) :
    (if c then p else q).bind f = if c then p.bind f else q.bind f := by
  split <;> rfl

/-- **one turn of the collecting loop of `three_sew`**: one unfolding of the model's loop is the translated body
    followed by the loop on the rest -/
theorem C05_gen_threeSewCollect_step (cfg : Cfg X) (n l r : Nat) (rest es vs : List (Nat × Nat)) :
    threeSewCollect (X := X) n ((l, r) :: rest) es vs =
      runBlockS3c cfg n l r (es, vs) Gen.threeSewBody0 (fun acc => threeSewCollect n rest acc.1 acc.2) := by
  simp only [runBlockS3c, Gen.threeSewBody0, List.length, interpS3c, s3cArg, threeSewCollect, List.drop, List.take,
    List.getD, List.nil_append, List.cons_append, List.append_assoc, Prog.bind_eq]
  rfl

/-- **one turn of the splitting loop of `three_unsew`** -/
theorem C05_gen_threeUnsewLoop_step (cfg : Cfg X) (n l r : Nat) (rest : List (Nat × Nat)) (acc : Accs3) :
    threeUnsewLoop cfg n ((l, r) :: rest) =
      runBlockS3c cfg n l r acc Gen.threeUnsewBody0 (fun _ => threeUnsewLoop cfg n rest) := by
  simp only [runBlockS3c, Gen.threeUnsewBody0, List.length, interpS3c, s3cArg, threeUnsewLoop, List.drop, List.take,
    List.getD, List.nil_append, List.cons_append, Prog.bind_eq]
  rfl

/-- the translated body of the collecting loop is natural in its continuation -/
theorem runBlock_sewBody0_bind {α β : Type} (cfg : Cfg X) (n l r : Nat) (acc : Accs3) (G : Accs3 → P X β)
    (K : β → P X α) :
    runBlockS3c cfg n l r acc Gen.threeSewBody0 (fun a => (G a).bind K) =
      (runBlockS3c cfg n l r acc Gen.threeSewBody0 G).bind K := by
  simp only [runBlockS3c, Gen.threeSewBody0, List.length, interpS3c, s3cArg, List.drop, List.take,
    List.getD, List.nil_append, List.cons_append, List.append_assoc, Prog.bind_eq, Prog.bind_assoc, ite_bindS3c]

/-- the same for the body of the splitting loop -/
theorem runBlock_unsewBody0_bind {α β : Type} (cfg : Cfg X) (n l r : Nat) (acc : Accs3) (G : Accs3 → P X β)
    (K : β → P X α) :
    runBlockS3c cfg n l r acc Gen.threeUnsewBody0 (fun a => (G a).bind K) =
      (runBlockS3c cfg n l r acc Gen.threeUnsewBody0 G).bind K := by
  simp only [runBlockS3c, Gen.threeUnsewBody0, List.length, interpS3c, s3cArg, List.drop, List.take,
    List.getD, List.nil_append, List.cons_append, Prog.bind_eq, Prog.bind_assoc, ite_bindS3c]

/-- the body of the splitting loop hands the accumulators on unchanged -/
theorem runBlock_unsewBody0_acc {α : Type} (cfg : Cfg X) (n l r : Nat) (acc : Accs3) (k : Accs3 → P X α) :
    runBlockS3c cfg n l r acc Gen.threeUnsewBody0 k =
      runBlockS3c cfg n l r acc Gen.threeUnsewBody0 (fun _ => k acc) := by
  simp only [runBlockS3c, Gen.threeUnsewBody0, List.length, interpS3c, s3cArg, List.drop, List.take,
    List.getD, List.nil_append, List.cons_append, Prog.bind_eq]

/-- **the collecting loop of `three_sew`**: the `for` loop over the translated body is `threeSewCollect` -/
theorem C05_gen_threeSewCollect {α : Type} (cfg : Cfg X) (n : Nat) (K : Accs3 → P X α) :
    ∀ (zs es vs : List (Nat × Nat)),
      zipLoopS (fun l r a k => runBlockS3c cfg n l r a Gen.threeSewBody0 k) zs (es, vs) K =
        (threeSewCollect n zs es vs).bind K
  | [], _, _ => rfl
  | (l, r) :: rest, es, vs => by
      have ih : (fun acc' : Accs3 => zipLoopS (fun l r a k => runBlockS3c cfg n l r a Gen.threeSewBody0 k) rest acc' K) =
          fun acc' => (threeSewCollect n rest acc'.1 acc'.2).bind K :=
        funext (fun a => C05_gen_threeSewCollect cfg n K rest a.1 a.2)
      rw [C05_gen_threeSewCollect_step cfg, zipLoopS, ih, runBlock_sewBody0_bind]

/-- **the splitting loop of `three_unsew`**: the `for` loop over the translated body is `threeUnsewLoop` (it leaves
    the accumulators alone) -/
theorem C05_gen_threeUnsewLoop {α : Type} (cfg : Cfg X) (n : Nat) (acc : Accs3) (K : Accs3 → P X α) :
    ∀ (zs : List (Nat × Nat)),
      zipLoopS (fun l r a k => runBlockS3c cfg n l r a Gen.threeUnsewBody0 k) zs acc K =
        (threeUnsewLoop cfg n zs).bind (fun _ => K acc)
  | [] => rfl
  | (l, r) :: rest => by
      have ih : (fun acc' : Accs3 => zipLoopS (fun l r a k => runBlockS3c cfg n l r a Gen.threeUnsewBody0 k) rest acc' K) =
          fun acc' => (threeUnsewLoop cfg n rest).bind (fun _ => K acc') :=
        funext (fun a => C05_gen_threeUnsewLoop cfg n a K rest)
      rw [C05_gen_threeUnsewLoop_step cfg n l r rest acc, zipLoopS, ih]
      exact (runBlock_unsewBody0_acc cfg n l r acc _).trans
        (runBlock_unsewBody0_bind cfg n l r acc (fun _ => threeUnsewLoop cfg n rest) (fun _ => K acc))

/-- the translated `filter` closure of both merge loops is `keepPair` -/
theorem condAllS_keepPair : (fun p : Nat × Nat => condAllS p [0, 1, 0, 2, 1, 2]) = keepPair := by
  funext p
  simp [condAllS, s3cArg, keepPair]

/-- body of the edge-merging loop of `three_sew` -/
theorem runBlock_sewBody1 (cfg : Cfg X) (n a b : Nat) (acc : Accs3) :
    runBlockS3c cfg n a b acc Gen.threeSewBody1 (fun _ => Prog.ret ()) = mergeAttrs cfg 1 (min a b) a b := by
  simp only [runBlockS3c, Gen.threeSewBody1, List.length, interpS3c, s3cArg, List.getD, List.nil_append,
    Prog.bind_eq, bind_unitS3c]
  rfl

/-- body of the vertex-merging loop of `three_sew` -/
theorem runBlock_sewBody2 (cfg : Cfg X) (n a b : Nat) (acc : Accs3) :
    runBlockS3c cfg n a b acc Gen.threeSewBody2 (fun _ => Prog.ret ()) =
      (mergeS cfg 0 (min a b) a b).bind (fun _ => mergeAttrs cfg 0 (min a b) a b) := by
  simp only [runBlockS3c, Gen.threeSewBody2, List.length, interpS3c, s3cArg, List.getD, List.nil_append,
    List.cons_append, Prog.bind_eq, bind_unitS3c]
  rfl

/-- **tie of `CMap3::three_sew`**: the interpreted skeleton, looping over the interpreted bodies, is `threeSew3` -/
theorem C05_gen_threeSew3 (cfg : Cfg X) (n ld rd : Nat) :
    interpS3cSkel cfg n ld rd Gen.threeSewBodies 32 [] [] ([], []) Gen.threeSewSkel = threeSew3 cfg n ld rd := by
  simp only [Gen.threeSewSkel, Gen.threeSewBodies, interpS3cSkel, interpS3c, s3cArg, threeSew3, faceOrbits3,
    List.getD, List.nil_append, List.cons_append, List.getElem?_cons_zero, List.getElem?_cons_succ,
    Option.getD_some, Nat.sub_self, C05_gen_threeSewCollect, condAllS_keepPair, runBlock_sewBody1, runBlock_sewBody2,
    badPair, Prog.bind_eq, Prog.pure_eq, Prog.bind_assoc, Prog.ret_bind, bind_unitS3c]
  rfl

/-- **tie of `CMap3::three_unsew`** -/
theorem C05_gen_threeUnsew3 (cfg : Cfg X) (n ld : Nat) :
    interpS3cSkel cfg n ld 0 Gen.threeUnsewBodies 16 [] [] ([], []) Gen.threeUnsewSkel = threeUnsew3 cfg n ld := by
  simp only [Gen.threeUnsewSkel, Gen.threeUnsewBodies, interpS3cSkel, interpS3c, s3cArg, threeUnsew3, faceOrbits3,
    List.getD, List.nil_append, List.cons_append, List.getElem?_cons_zero, List.getElem?_cons_succ,
    C05_gen_threeUnsewLoop, Prog.bind_eq, Prog.pure_eq, Prog.bind_assoc, Prog.ret_bind, bind_unitS3c]
  rfl

/-- **C05 (a) stated on the translated code**: a successful run of the translated `CMap3::three_sew` leaves exactly
    the topology of `three_link`, one of the translated `three_unsew` exactly that of `three_unlink` -/
theorem C05_gen_three_sews_topology (cfg : Cfg X) (n ld rd : Nat) (m m' : Map X) (u : Unit) :
    (run (interpS3cSkel cfg n ld rd Gen.threeSewBodies 32 [] [] ([], []) Gen.threeSewSkel) m = (.ok u, m') →
      ∃ m1, run (threeLink3 (X := X) n ld rd) m = (.ok (), m1) ∧ SameTopo m1 m') ∧
    (run (interpS3cSkel cfg n ld 0 Gen.threeUnsewBodies 16 [] [] ([], []) Gen.threeUnsewSkel) m = (.ok u, m') →
      ∃ m1, run (threeUnlink3 (X := X) n ld) m = (.ok (), m1) ∧ SameTopo m1 m') := by
  rw [C05_gen_threeSew3, C05_gen_threeUnsew3]
  exact ⟨C05_threeSew3_topology cfg n ld rd m m' u, C05_threeUnsew3_topology cfg n ld m m' u⟩

/-- lists the interpreters do not understand are a panic, not a silent success: an unknown opcode, a loop over a
    walk that was never collected, a loop body that is not in the table -/
example (cfg : Cfg X) (n l r : Nat) (k : List Nat → Accs3 → P X Unit) :
    interpS3c cfg n l r 4 [] ([], []) [(21, [0, 2, 0, 1])] k = Prog.panic := rfl
example (cfg : Cfg X) (n l r : Nat) :
    interpS3cSkel cfg n l r [] 4 [] [] ([], []) [(43, [0, 1, 0])] = Prog.panic := rfl
example (cfg : Cfg X) (n l r : Nat) :
    interpS3cSkel cfg n l r [] 4 [] [] ([], []) [(44, [0, 0, 0, 1])] = Prog.panic := rfl

end HC.GenTie
