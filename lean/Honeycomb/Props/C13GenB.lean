/-
  C13 — the ear-clipping kernel of `honeycomb-kernels/src/triangulation/ear_clipping.rs` (`process_cell` with its two
  public entry points `earclip_cell_countercw` / `earclip_cell_cw`), TRANSLATED from the source (`Gen/EarClip.lean`,
  written by tools/gen_lean.py, generator `earclip`), interpreted in the model's transaction monad, is EQUAL to the
  hand-written `insideCCW` / `insideCW`, `earTest`, `earclipLoop`, `earclipCell` of Model/Kernels/EarClip.lean.

  Translated as data: the orientation closure of each entry point (argument order of the cross product, comparison
  with zero), the range start of the ear search, the three vertex indices (`*idx`, `(*idx + k) % n`), the argument
  order of `is_inside_fn`, the first two arguments of the three cross products of the overlap test, the six
  comparisons of `has_pos` / `has_neg`, the error of a failed search, the two darts picked from the dart list, the
  statements of one clipping step (β reads, `unsew::<I>`, `sew::<I>` in order with their arguments; instruction format
  and interpreter `fanRun` of Props/C13Gen.lean), the offsets and the pushed dart of the list bookkeeping, the
  constant of the closing `assert_eq!`, the orbit policy, the undefined-vertex error.  Rigid shapes (anything else is
  refused): the collecting loops, the pre-check, the `.filter(..).all(..)` skeleton with `has_pos && has_neg` and
  `is_inside && no_overlap`, `darts.swap_remove(ear)`, `n -= 1`.

  The Rust keeps the polygon size in its own variable `n` (`let mut n = darts.len(); … n -= 1`); the interpreter
  does the same (`k`), the model uses the length of the vertex list.  The step and loop theorems therefore assume
  `k = vs.length`; the whole function is tied on runs (`run … m`), where `faceVertices` returns as many vertices as
  darts.
-/
import Honeycomb.Props.C13Gen
import Honeycomb.Gen.EarClip
import Honeycomb.Model.Kernels.EarClip

namespace HC.GenTie
open HC HC.C13

/-! ## the orientation closures and the ear test -/

/-- `x <op> T::zero()` -/
def earCmp : Nat → Rat → Bool
  | 0, x => decide (x > 0)
  | 1, x => decide (x < 0)
  | 2, x => decide (x ≥ 0)
  | _, x => decide (x ≤ 0)

/-- `v1` / `v2` / `v3` by number -/
def earPick (v1 v2 v3 : P2) : Nat → P2
  | 1 => v1
  | 2 => v2
  | _ => v3

/-- the closure handed to `process_cell` -/
def earInsideG : List Nat → P2 → P2 → P2 → Bool
  | [a, b, c, op], v1, v2, v3 => earCmp op (cross (earPick v1 v2 v3 a) (earPick v1 v2 v3 b) (earPick v1 v2 v3 c))
  | _, _, _, _ => false

/-- **the orientation test of `earclip_cell_countercw`**: `cross(v1, v2, v3) > 0` -/
theorem C13_gen_earInside_ccw : earInsideG Gen.EarClip.ccwInside = insideCCW := by
  funext v1 v2 v3; rfl

/-- **the orientation test of `earclip_cell_cw`**: `cross(v1, v2, v3) < 0` -/
theorem C13_gen_earInside_cw : earInsideG Gen.EarClip.cwInside = insideCW := by
  funext v1 v2 v3; rfl

/-- index 0 = the variable itself, `o ≥ 1` = `(i + o) % k` -/
def earIdx (k i : Nat) : Nat → Nat
  | 0 => i
  | o + 1 => (i + (o + 1)) % k

/-- the `.all(..)` closure with the translated arguments and comparisons -/
def earOutsideG (sigs : List (List Nat)) (pos neg : List Nat) (v1 v2 v3 v : P2) : Bool :=
  match sigs, pos, neg with
  | [[p1, q1], [p2, q2], [p3, q3]], [x1, x2, x3], [y1, y2, y3] =>
      let s12 := cross (earPick v1 v2 v3 p1) (earPick v1 v2 v3 q1) v
      let s23 := cross (earPick v1 v2 v3 p2) (earPick v1 v2 v3 q2) v
      let s31 := cross (earPick v1 v2 v3 p3) (earPick v1 v2 v3 q3) v
      (earCmp x1 s12 || earCmp x2 s23 || earCmp x3 s31) && (earCmp y1 s12 || earCmp y2 s23 || earCmp y3 s31)
  | _, _, _ => false

/-- the closure of `.find(..)` with polygon size `k` -/
def earTestG (k : Nat) (inside : P2 → P2 → P2 → Bool) (vs : List P2) (idx : Nat) : Bool :=
  match Gen.EarClip.search, Gen.EarClip.insideArgs with
  | [_, i1, i2, i3], [a, b, c] =>
      let v1 := vs.getD (earIdx k idx i1) default
      let v2 := vs.getD (earIdx k idx i2) default
      let v3 := vs.getD (earIdx k idx i3) default
      inside (earPick v1 v2 v3 a) (earPick v1 v2 v3 b) (earPick v1 v2 v3 c) &&
        (vs.filter (fun v => v ≠ v1 && v ≠ v2 && v ≠ v3)).all
          (earOutsideG Gen.EarClip.sigs Gen.EarClip.posOps Gen.EarClip.negOps v1 v2 v3)
  | _, _ => false

theorem earOutsideG_eq (v1 v2 v3 : P2) :
    earOutsideG Gen.EarClip.sigs Gen.EarClip.posOps Gen.EarClip.negOps v1 v2 v3 = strictlyOutside v1 v2 v3 := by
  funext v; rfl

/-- **tie of the ear test**: vertices `idx`, `(idx + 1) % n`, `(idx + 2) % n`; `is_inside_fn(v1, v2, v3)`; every
    other vertex (different from all three) has cross products `(v1, v2, v)`, `(v2, v3, v)`, `(v3, v1, v)` of which one
    is `> 0` and one is `< 0` (both strict) -/
theorem C13_gen_earTest (inside : P2 → P2 → P2 → Bool) (vs : List P2) (idx : Nat) :
    earTestG vs.length inside vs idx = earTest inside vs idx := by
  simp only [earTestG, Gen.EarClip.search, Gen.EarClip.insideArgs, earIdx, earPick, earOutsideG_eq, earTest, Nat.zero_add,
    Nat.reduceAdd]
  rfl

/-- `(lo..n).find(..)` -/
def earFindG (k : Nat) (inside : P2 → P2 → P2 → Bool) (vs : List P2) : Option Nat :=
  ((List.range k).drop (Gen.EarClip.search.getD 0 0)).find? (earTestG k inside vs)

theorem earFindG_eq (inside : P2 → P2 → P2 → Bool) (vs : List P2) :
    earFindG vs.length inside vs = findEar inside vs := by
  unfold earFindG findEar
  have : earTestG vs.length inside vs = earTest inside vs := funext (C13_gen_earTest inside vs)
  rw [this]; rfl

/-! ## one clipping step and the loop -/

/-- an error action with the messages of this file -/
def earAct : List Nat → Option Err
  | [v, pk, j] => some (fanErrG v pk 0 (Gen.EarClip.msgs.getD j ""))
  | _ => none

/-- `for sl in new_darts.chunks_exact(2) { … }; assert_eq!(n, finalN)` with the Rust variable `n` as `k` -/
def earLoopG (cfg : Cfg Val) (nn : Nat) (inside : P2 → P2 → P2 → Bool) :
    Nat → List (Nat × Nat) → List Nat → List P2 → P Val Unit
  | k, [], _, _ => if k = Gen.EarClip.finalN then pure () else Prog.panic
  | k, (nd1, nd2) :: rest, darts, vs =>
      match earFindG k inside vs, earAct Gen.EarClip.noEar, Gen.EarClip.picks, Gen.EarClip.surgery with
      | none, some e, _, _ => abort e
      | some ear, _, [j1, j2], [kr, pu, kv] =>
          fanRun cfg nn [darts.getD (earIdx k ear j1) 0, darts.getD (earIdx k ear j2) 0, nd1, nd2] [] []
            Gen.EarClip.stepBody fun env _ =>
              earLoopG cfg nn inside (k - 1) rest
                (swapRemove ((darts.eraseIdx (earIdx k ear kr)) ++
                  [fanArg [darts.getD (earIdx k ear j1) 0, darts.getD (earIdx k ear j2) 0, nd1, nd2] env pu]) ear)
                (vs.eraseIdx (earIdx k ear kv))
      | _, _, _, _ => Prog.panic

theorem earAct_noEar : earAct Gen.EarClip.noEar = some errNoEar := rfl

/-- **one clipping step**: the translated loop body, run with `n = vs.length = darts.length`, is one unfolding of the
    model's loop — the two β reads, `unsew::<1>(b0_d_ear1)`, `unsew::<1>(d_ear2)`, `sew::<1>(d_ear2, nd1)`,
    `sew::<1>(nd1, d_ear1)`, `sew::<1>(b0_d_ear1, nd2)`, `sew::<1>(nd2, b1_d_ear2)`, `sew::<2>(nd1, nd2)`, then
    `darts.remove((ear + 1) % n); darts.push(nd2); darts.swap_remove(ear); vertices.remove((ear + 1) % n); n -= 1` -/
theorem C13_gen_earclip_step (cfg : Cfg Val) (nn : Nat) (inside : P2 → P2 → P2 → Bool) (nd1 nd2 : Nat)
    (rest : List (Nat × Nat)) (darts : List Nat) (vs : List P2) (hd : darts.length = vs.length) :
    earLoopG cfg nn inside vs.length ((nd1, nd2) :: rest) darts vs =
      (match findEar inside vs with
      | none => abort errNoEar
      | some ear => do
          let dEar1 := darts.getD ear 0
          let dEar2 := darts.getD ((ear + 1) % vs.length) 0
          let b0e1 ← rB 0 dEar1
          let b1e2 ← rB 1 dEar2
          oneUnsew2 cfg nn b0e1
          oneUnsew2 cfg nn dEar2
          oneSew2 cfg nn dEar2 nd1
          oneSew2 cfg nn nd1 dEar1
          oneSew2 cfg nn b0e1 nd2
          oneSew2 cfg nn nd2 b1e2
          twoSew2 cfg nn nd1 nd2
          earLoopG cfg nn inside (vs.length - 1) rest (dartSurgery darts ear nd2)
            (vs.eraseIdx ((ear + 1) % vs.length))) := by
  rw [earLoopG, earFindG_eq, earAct_noEar]
  cases findEar inside vs with
  | none => rfl
  | some ear =>
    simp only [Gen.EarClip.picks, Gen.EarClip.surgery, Gen.EarClip.stepBody, earIdx, fanRun, fanArg, fanSewCall,
      List.getD, List.nil_append, List.cons_append, List.getElem?_cons_zero, List.getElem?_cons_succ,
      Option.getD_some, Nat.reduceSub, Nat.reduceLT, if_true, if_false, Prog.bind_eq, dartSurgery, hd, Nat.zero_add]

/-- **tie of the loop** (with the closing `assert_eq!(n, 3)`), for `n = vs.length = darts.length` -/
theorem C13_gen_earclip_loop (cfg : Cfg Val) (nn : Nat) (inside : P2 → P2 → P2 → Bool) :
    ∀ (pairs : List (Nat × Nat)) (darts : List Nat) (vs : List P2), darts.length = vs.length →
      earLoopG cfg nn inside vs.length pairs darts vs = earclipLoop cfg nn inside pairs darts vs
  | [], darts, vs, _ => by simp only [earLoopG, earclipLoop, Gen.EarClip.finalN]; rfl
  | (nd1, nd2) :: rest, darts, vs, hd => by
      rw [C13_gen_earclip_step cfg nn inside nd1 nd2 rest darts vs hd, earclipLoop]
      cases hf : findEar inside vs with
      | none => rfl
      | some ear =>
        have hlt : ear < vs.length := by
          have hm := List.mem_of_find?_eq_some hf
          exact List.mem_range.mp hm
        have hpos : (ear + 1) % vs.length < vs.length := Nat.mod_lt _ (by omega)
        have hv : (vs.eraseIdx ((ear + 1) % vs.length)).length = vs.length - 1 := by
          rw [List.length_eraseIdx]; simp [hpos]
        have hdl : (dartSurgery darts ear nd2).length = vs.length - 1 := by
          simp only [dartSurgery, swapRemove, List.length_dropLast, List.length_set, List.length_append,
            List.length_eraseIdx, hd, hpos, if_true, List.length_singleton]
          omega
        have ih := C13_gen_earclip_loop cfg nn inside rest (dartSurgery darts ear nd2)
          (vs.eraseIdx ((ear + 1) % vs.length)) (by rw [hdl, hv])
        rw [hv] at ih
        simp only [ih]

/-! ## the whole function -/

theorem earVertices_eq (n : Nat) (ds : List Nat) :
    fanVerticesG n (earAct Gen.EarClip.undef) ds = faceVertices n ds := fanVerticesG_eq n ds

/-- the translated `process_cell` with the orientation closure `sh` of an entry point; `let mut n = darts.len()` -/
def earInterpCell (cfg : Cfg Val) (nn : Nat) (sh : List Nat) (face : Nat) (nds : List Nat) : P Val Unit := do
  let darts ← orbit2 nn (fanPolicy Gen.EarClip.policy) face
  let vs ← fanVerticesG nn (earAct Gen.EarClip.undef) darts
  match fanInterpCheck darts.length nds.length with
  | .error e => abort e
  | .ok () => earLoopG cfg nn (earInsideG sh) darts.length (chunks2 nds) darts (vs.map Val.p2)

/-- **tie of `process_cell`** (on runs: the vertex loop returns as many vertices as there are darts, so the Rust
    variable `n` and the model's `vs.length` agree) -/
theorem C13_gen_earclip (cfg : Cfg Val) (nn : Nat) (sh : List Nat) (face : Nat) (nds : List Nat) (m : Map Val) :
    run (earInterpCell cfg nn sh face nds) m = run (earclipCell cfg nn (earInsideG sh) face nds) m := by
  unfold earInterpCell earclipCell
  simp only [Prog.bind_eq, run_bind, earVertices_eq, C13_gen_check_requirements, Gen.EarClip.policy, fanPolicy]
  rcases h1 : run (orbit2 nn .faceLinear face) m with ⟨r1, m1⟩
  cases r1 with
  | ok darts =>
    simp only []
    rcases h2 : run (faceVertices nn darts) m1 with ⟨r2, m2⟩
    cases r2 with
    | ok vs =>
      simp only []
      have hl := (faceVertices_length nn darts m1 m2 vs h2).1
      cases checkRequirements darts.length nds.length with
      | error e => rfl
      | ok u =>
        cases u
        have hl2 : darts.length = (vs.map Val.p2).length := by rw [List.length_map, hl]
        simp only []
        rw [← C13_gen_earclip_loop cfg nn (earInsideG sh) (chunks2 nds) darts (vs.map Val.p2) hl2, ← hl2]
    | _ => rfl
  | _ => rfl

/-- **`earclip_cell_countercw`** -/
theorem C13_gen_earclip_ccw (cfg : Cfg Val) (nn face : Nat) (nds : List Nat) (m : Map Val) :
    run (earInterpCell cfg nn Gen.EarClip.ccwInside face nds) m = run (earclipCellCCW cfg nn face nds) m := by
  rw [C13_gen_earclip, C13_gen_earInside_ccw]; rfl

/-- **`earclip_cell_cw`** -/
theorem C13_gen_earclip_cw (cfg : Cfg Val) (nn face : Nat) (nds : List Nat) (m : Map Val) :
    run (earInterpCell cfg nn Gen.EarClip.cwInside face nds) m = run (earclipCellCW cfg nn face nds) m := by
  rw [C13_gen_earclip, C13_gen_earInside_cw]; rfl

/-- **C13 for the ear-clipping kernel stated on the translated code**: a successful run of the translated
    `process_cell` read an `n ≥ 4`-gon with `2(n-3)` spare darts and clipped triangles whose doubled areas sum to the
    polygon's, every ear passing the orientation test -/
theorem C13_gen_earclip_kernel_triangles (cfg : Cfg Val) (n : Nat) (sh : List Nat) (face : Nat)
    (nds : List Nat) (m m' : Map Val) (h : run (earInterpCell cfg n sh face nds) m = (.ok (), m')) :
    ∃ (darts : List Nat) (vals : List Val) (tris : List Tri),
      run (orbit2 n .faceLinear face) m = (.ok darts, m) ∧
      run (faceVertices n darts) m = (.ok vals, m) ∧
      4 ≤ darts.length ∧ nds.length = 2 * (darts.length - 3) ∧
      earclipTriangles (earInsideG sh) (darts.length - 3) (vals.map Val.p2) = some tris ∧
      (tris.map tri2).sum = area2 (vals.map Val.p2) ∧
      (∀ t ∈ tris.dropLast, earInsideG sh t.1 t.2.1 t.2.2 = true) := by
  rw [C13_gen_earclip] at h
  exact C13_earclip_kernel_triangles cfg n (earInsideG sh) face nds m m' h

end HC.GenTie
