/-
  C11, fourth part — the round-trip theorems apply to the meshes the library builds.

  (d0) `exportable_of_lattice` / `noCrack_of_lattice`: a sufficient condition for `Exportable` / `NoCrack` in
       terms of a "lattice point" function `P` on darts (vertices ↔ lattice points, affine coordinates).
  (d1) `C11_grid2_exportable`, `C11_grid2_noCrack`, `C11_grid_round_trip`: for all `nx, ny ≥ 1` and non-zero
       cell lengths, the map of `build_2d_grid` is exportable without crack; hence export followed by import
       returns a well-formed map isomorphic to the grid (faces, β1, β2 — so adjacency AND boundary —,
       vertex coordinates).
  (d2) the same for `build_2d_splitgrid`: `C11_split2_exportable`, `C11_split2_noCrack`,
       `C11_split_round_trip`.
-/
import Honeycomb.Props.C11c
import Honeycomb.Props.C12
import Honeycomb.Lemmas.GridVertexSplit
import Mathlib.Algebra.Order.Field.Rat

set_option linter.unusedSimpArgs false
set_option linter.unusedVariables false

namespace HC.C11
open HC HC.Vtk HC.C03 HC.CellCalc

/-! ## (d0) exportable from a lattice description -/

/-- coordinates of a lattice point -/
def latCoord (ox oy lx ly : Rat) (p : Nat × Nat) : Val := .pt (ox + (p.1 : Rat) * lx) (oy + (p.2 : Rat) * ly) 0

theorem latCoord_ne {ox oy lx ly : Rat} (hlx : lx ≠ 0) (hly : ly ≠ 0) {p q : Nat × Nat} (h : p ≠ q)
    {x y z x' y' z' : Rat} (hp : latCoord ox oy lx ly p = .pt x y z) (hq : latCoord ox oy lx ly q = .pt x' y' z') :
    x ≠ x' ∨ y ≠ y' := by
  unfold latCoord at hp hq
  simp only [Val.pt.injEq] at hp hq
  by_cases c : p.1 = q.1
  · right
    have c2 : p.2 ≠ q.2 := fun e => h (Prod.ext c e)
    rw [← hp.2.1, ← hq.2.1]
    intro e
    have := mul_right_cancel₀ hly (add_left_cancel e)
    exact c2 (Nat.cast_injective this)
  · left
    rw [← hp.1, ← hq.1]
    intro e
    have := mul_right_cancel₀ hlx (add_left_cancel e)
    exact c (Nat.cast_injective this)

theorem three_le_of_mem {l : List Nat} (hnd : l.Nodup) {a b c : Nat} (ha : a ∈ l) (hb : b ∈ l) (hc : c ∈ l)
    (hab : a ≠ b) (hac : a ≠ c) (hbc : b ≠ c) : 3 ≤ l.length := by
  have h1 : [a, b, c].Nodup := by simp [hab, hac, hbc]
  have h2 : [a, b, c] ⊆ l := by
    intro x hx
    simp only [List.mem_cons, List.not_mem_nil, or_false] at hx
    rcases hx with rfl | rfl | rfl <;> assumption
  exact h1.length_le_of_subset h2

/-- a non-null existing dart -/
def Valid (m : Map Val) (d : Nat) : Prop := d ≠ 0 ∧ d < m.n

theorem exportable_of_lattice {m : Map Val} (hwf : WF 3 m) (P : Nat → Nat × Nat) {ox oy lx ly : Rat}
    (hlx : lx ≠ 0) (hly : ly ≠ 0)
    (hvid : ∀ d e, Valid m d → Valid m e → vid m d = vid m e → P d = P e)
    (hatt : ∀ d, Valid m d → m.att 0 (vid m d) = some (latCoord ox oy lx ly (P d)))
    (hb1 : ∀ d, Valid m d → m.β 1 d ≠ 0)
    (hface : ∀ d, Valid m d → m.β 1 d ≠ d ∧ m.β 1 (m.β 1 d) ≠ d ∧ m.β 1 (m.β 1 d) ≠ m.β 1 d)
    (huniq : ∀ d e, Valid m d → Valid m e → P d = P e → P (m.β 1 d) = P (m.β 1 e) → d = e)
    (hends : ∀ d, Valid m d → P d ≠ P (m.β 1 d)) : Exportable m := by
  have val1 : ∀ d, Valid m d → Valid m (m.β 1 d) := fun d hd =>
    ⟨hb1 d hd, hwf.range 1 (by omega) d hd.2⟩
  refine ⟨hwf, fun d hd => hb1 d ⟨hd.1, hd.2.1⟩, ?_, ?_, ?_, ?_⟩
  · intro f hf
    have hu := inUse_of_iterFaces hf
    have hv : Valid m f := ⟨hu.1, hu.2.1⟩
    have hp : PolOK (.custom [1]) := by intro b hb; simp at hb; omega
    obtain ⟨_, _, hnd, _, hmem, _⟩ := C03_orbit2_spec hwf hp hu.1 hu.2.1
    have g : g2 m (.custom [1]) = fun x => [m.β 1 x] := by funext x; simp [g2]
    have r1 : Reach (g2 m (.custom [1])) f (m.β 1 f) := Reach.single (by rw [g]; simp)
    have r2 : Reach (g2 m (.custom [1])) f (m.β 1 (m.β 1 f)) := .tail r1 (by rw [g]; simp)
    obtain ⟨c1, c2, c3⟩ := hface f hv
    exact three_le_of_mem hnd ((hmem f).2 ⟨hu.1, .refl _⟩) ((hmem _).2 ⟨hb1 f hv, r1⟩)
      ((hmem _).2 ⟨hb1 _ (val1 f hv), r2⟩) (fun e => c1 e.symm) (fun e => c2 e.symm) (fun e => c3 e.symm)
  · intro v hv
    obtain ⟨d, hd0, hd, _, rfl⟩ := (C03_iterVertices2_mem hwf v).1 hv
    have := hatt d ⟨hd0, hd⟩
    exact ⟨_, _, _, this⟩
  · intro d e hd he h1 h2
    have vd : Valid m d := ⟨hd.1, hd.2.1⟩
    have ve : Valid m e := ⟨he.1, he.2.1⟩
    exact huniq d e vd ve (hvid d e vd ve h1) (hvid _ _ (val1 d vd) (val1 e ve) h2)
  · intro d hd x y z x' y' z' e1 e2
    have vd : Valid m d := ⟨hd.1, hd.2.1⟩
    rw [hatt d vd] at e1
    rw [hatt _ (val1 d vd)] at e2
    simp only [Option.some.injEq] at e1 e2
    exact latCoord_ne hlx hly (hends d vd) e1 e2

theorem noCrack_of_lattice {m : Map Val} (hwf : WF 3 m) (P : Nat → Nat × Nat)
    (hvid : ∀ d e, Valid m d → Valid m e → vid m d = vid m e → P d = P e)
    (hb1 : ∀ d, Valid m d → m.β 1 d ≠ 0)
    (hcrack : ∀ d e, Valid m d → Valid m e → m.β 2 d = 0 → m.β 2 e = 0 → P d = P (m.β 1 e) →
      P (m.β 1 d) = P e → False) : NoCrack m := by
  intro d e hd he c1 c2 v1 v2
  have vd : Valid m d := ⟨hd.1, hd.2.1⟩
  have ve : Valid m e := ⟨he.1, he.2.1⟩
  have val1 : ∀ d, Valid m d → Valid m (m.β 1 d) := fun d hd =>
    ⟨hb1 d hd, hwf.range 1 (by omega) d hd.2⟩
  exact hcrack d e vd ve c1 c2 (hvid _ _ vd (val1 e ve) v1) (hvid _ _ (val1 d vd) ve v2)

/-- the isomorphism statement: `m'` is a copy of the in-use part of `m` -/
structure IsoCopy (m m' : Map Val) : Prop where
  wf : WF 3 m'
  n : m'.n = 1 + ((walks m).map List.length).sum
  /-- faces, β1 and vertex coordinates -/
  faces : FaceCopied m m' 1 (walks m)
  /-- adjacency -/
  adj : ∀ d' d e' e, DartOf 1 (walks m) d' d → DartOf 1 (walks m) e' e → (m'.β 2 d' = e' ↔ m.β 2 d = e)
  /-- boundary -/
  bnd : ∀ d' d, DartOf 1 (walks m) d' d → (m'.β 2 d' = 0 ↔ m.β 2 d = 0)
  /-- the copy relation is a bijection darts of `m'` ↔ in-use darts of `m` -/
  tot : ∀ d', 1 ≤ d' → d' < m'.n → ∃ d, DartOf 1 (walks m) d' d
  inUse : ∀ d' d, DartOf 1 (walks m) d' d → C01.InUse m d
  onto : ∀ d, C01.InUse m d → ∃ d', DartOf 1 (walks m) d' d
  fn : ∀ d' d1 d2, DartOf 1 (walks m) d' d1 → DartOf 1 (walks m) d' d2 → d1 = d2
  inj : ∀ d1 d2 d, DartOf 1 (walks m) d1 d → DartOf 1 (walks m) d2 d → d1 = d2

/-- **C11 (c5), the composition theorem**: for an exportable map without crack, export followed by import
    returns a well-formed map isomorphic to the in-use part of the source: same faces (β1 cycles), same
    adjacency (β2), same boundary, same vertex coordinates (z dropped) -/
theorem C11_roundTrip_iso {m : Map Val} (hE : Exportable m) (hnc : NoCrack m) :
    ∃ m', roundTrip m = .ok m' ∧ IsoCopy m m' := by
  obtain ⟨m', hrt, hwf', hn', hf⟩ := C11_roundTrip_faces hE
  obtain ⟨b1, b2, b3, b4, b5⟩ := C11_roundTrip_bijection hE
  have adj : ∀ d' d e' e, DartOf 1 (walks m) d' d → DartOf 1 (walks m) e' e →
      (m'.β 2 d' = e' ↔ m.β 2 d = e) := fun d' d e' e hd he => C11_roundTrip_adjacency hE hnc hrt hd he
  refine ⟨m', hrt, hwf', hn', hf, adj, ?_, fun d' h1 h2 => b1 d' h1 (by rw [← hn']; exact h2), b3, b4, b2, b5⟩
  intro d' d hd
  have hdu := b3 d' d hd
  have hd'lt : d' < m'.n := by
    rw [hn']
    -- d' is the copy of a dart, hence in range
    by_cases c : d' < 1 + ((walks m).map List.length).sum
    · exact c
    · exfalso
      -- darts beyond the range have no original: contradiction through `dartOf_lt`
      have : ∀ (ws : List (List Nat)) (s x y : Nat), DartOf s ws x y → x < s + (ws.map List.length).sum := by
        intro ws
        induction ws with
        | nil => intro s x y h; exact h.elim
        | cons o os ih =>
            intro s x y h
            simp only [List.map_cons, List.sum_cons]
            rcases h with ⟨i, hi, rfl, _⟩ | h
            · omega
            · have := ih _ x y h; omega
      exact c (this _ 1 d' d hd)
  constructor
  · intro h0
    by_cases c : m.β 2 d = 0
    · exact c
    · exfalso
      have hx := inUse_b2 hE.wf hdu c
      obtain ⟨e', he'⟩ := b4 _ hx
      have := (adj d' d e' _ hd he').2 rfl
      rw [h0] at this
      have := dartOf_ge _ _ _ _ he'
      omega
  · intro h0
    by_cases c : m'.β 2 d' = 0
    · exact c
    · exfalso
      have hr := hwf'.range 2 (by omega) d' hd'lt
      obtain ⟨e, he⟩ := b1 (m'.β 2 d') (by omega) (by rw [← hn']; exact hr)
      have := (adj d' d _ e hd he).1 rfl
      rw [h0] at this
      exact (b3 _ _ he).1 this.symm

theorem vid_eq_vid2 {m : Map Val} (hwf : WF 3 m) {d : Nat} (hd : Valid m d) : vid m d = vid2 m d := by
  unfold vid2
  rw [(C03_vertexId2_min hwf hd.1 hd.2).1]
  rfl

/-! ## (d1) the plain grid -/

section Grid2
open GridVertex HC.C12

variable (ox oy lx ly : Rat) {nx ny : Nat}

theorem grid2_valid_isDart (hnx : 0 < nx) (hny : 0 < ny) {d : Nat} (hd : Valid (buildGrid2 ox oy nx ny lx ly) d) :
    IsDart nx ny d := by
  have hn := grid2_n ox oy lx ly nx ny
  exact isDart_of_range hnx hny (by have := hd.1; omega) (by have := hd.2; omega)

theorem grid2_isDart_valid {d : Nat} (hd : IsDart nx ny d) : Valid (buildGrid2 ox oy nx ny lx ly) d := by
  obtain ⟨a, b, k, ha, hb, hk, rfl⟩ := hd
  have hn := grid2_n ox oy lx ly nx ny
  have := D_lt ha hb hk
  refine ⟨?_, by omega⟩
  unfold D dartOf; omega

theorem grid2_pt_uniq {a b k a' b' k' : Nat} (hk : k < 4) (hk' : k' < 4)
    (h1 : (a + cdx k, b + cdy k) = (a' + cdx k', b' + cdy k'))
    (h2 : (a + cdx ((k + 1) % 4), b + cdy ((k + 1) % 4)) = (a' + cdx ((k' + 1) % 4), b' + cdy ((k' + 1) % 4))) :
    a = a' ∧ b = b' ∧ k = k' := by
  have k4 : k = 0 ∨ k = 1 ∨ k = 2 ∨ k = 3 := by omega
  have k4' : k' = 0 ∨ k' = 1 ∨ k' = 2 ∨ k' = 3 := by omega
  rcases k4 with rfl | rfl | rfl | rfl <;> rcases k4' with rfl | rfl | rfl | rfl <;>
    simp [cdx, cdy, Prod.ext_iff] at h1 h2 <;> omega

theorem grid2_pt_opp {a b k a' b' k' : Nat} (hk : k < 4) (hk' : k' < 4)
    (h1 : (a + cdx k, b + cdy k) = (a' + cdx ((k' + 1) % 4), b' + cdy ((k' + 1) % 4)))
    (h2 : (a + cdx ((k + 1) % 4), b + cdy ((k + 1) % 4)) = (a' + cdx k', b' + cdy k')) :
    (k = 0 ∧ k' = 2 ∧ a' = a ∧ b' + 1 = b) ∨ (k = 2 ∧ k' = 0 ∧ a' = a ∧ b' = b + 1) ∨
    (k = 1 ∧ k' = 3 ∧ a' = a + 1 ∧ b' = b) ∨ (k = 3 ∧ k' = 1 ∧ a' + 1 = a ∧ b' = b) := by
  have k4 : k = 0 ∨ k = 1 ∨ k = 2 ∨ k = 3 := by omega
  have k4' : k' = 0 ∨ k' = 1 ∨ k' = 2 ∨ k' = 3 := by omega
  rcases k4 with rfl | rfl | rfl | rfl <;> rcases k4' with rfl | rfl | rfl | rfl <;>
    simp [cdx, cdy, Prod.ext_iff] at h1 h2 <;> omega

theorem grid2_D_ne {a b k k' : Nat} (h : k ≠ k') : D nx ny a b k ≠ D nx ny a b k' := by
  unfold D dartOf; omega

theorem C11_grid2_exportable (hnx : 0 < nx) (hny : 0 < ny) (hlx : lx ≠ 0) (hly : ly ≠ 0) :
    Exportable (buildGrid2 ox oy nx ny lx ly) := by
  have hwf := C12_grid2_WF ox oy lx ly hnx hny
  have hV := C12_grid2_vertices ox oy lx ly hnx hny
  have toD := fun d hd => grid2_valid_isDart ox oy lx ly hnx hny (d := d) hd
  have b1 : ∀ a b k, a < nx → b < ny → k < 4 →
      (buildGrid2 ox oy nx ny lx ly).β 1 (D nx ny a b k) = D nx ny a b ((k + 1) % 4) :=
    fun a b k ha hb hk => grid2_β1 ox oy lx ly ha hb hk
  refine exportable_of_lattice hwf (pt nx) (ox := ox) (oy := oy) hlx hly ?_ ?_ ?_ ?_ ?_ ?_
  · intro d e hd he h
    rw [vid_eq_vid2 hwf hd, vid_eq_vid2 hwf he] at h
    exact (hV.1 d e (toD d hd) (toD e he)).1 h
  · intro d hd
    rw [vid_eq_vid2 hwf hd]
    exact grid2_att ox oy lx ly hnx hny (toD d hd)
  · intro d hd
    obtain ⟨a, b, k, ha, hb, hk, rfl⟩ := toD d hd
    rw [b1 a b k ha hb hk]
    unfold D dartOf; omega
  · intro d hd
    obtain ⟨a, b, k, ha, hb, hk, rfl⟩ := toD d hd
    have hk1 : (k + 1) % 4 < 4 := Nat.mod_lt _ (by decide)
    rw [b1 a b k ha hb hk, b1 a b _ ha hb hk1]
    exact ⟨grid2_D_ne (by omega), grid2_D_ne (by omega), grid2_D_ne (by omega)⟩
  · intro d e hd he h1 h2
    obtain ⟨a, b, k, ha, hb, hk, rfl⟩ := toD d hd
    obtain ⟨a', b', k', ha', hb', hk', rfl⟩ := toD e he
    have hk1 : (k + 1) % 4 < 4 := Nat.mod_lt _ (by decide)
    have hk1' : (k' + 1) % 4 < 4 := Nat.mod_lt _ (by decide)
    rw [b1 a b k ha hb hk, b1 a' b' k' ha' hb' hk', pt_D ha hk1, pt_D ha' hk1'] at h2
    rw [pt_D ha hk, pt_D ha' hk'] at h1
    obtain ⟨rfl, rfl, rfl⟩ := grid2_pt_uniq hk hk' h1 h2
    rfl
  · intro d hd h
    obtain ⟨a, b, k, ha, hb, hk, rfl⟩ := toD d hd
    have hk1 : (k + 1) % 4 < 4 := Nat.mod_lt _ (by decide)
    rw [b1 a b k ha hb hk, pt_D ha hk, pt_D ha hk1] at h
    have k4 : k = 0 ∨ k = 1 ∨ k = 2 ∨ k = 3 := by omega
    rcases k4 with rfl | rfl | rfl | rfl <;> simp [cdx, cdy, Prod.ext_iff] at h

theorem C11_grid2_noCrack (hnx : 0 < nx) (hny : 0 < ny) : NoCrack (buildGrid2 ox oy nx ny lx ly) := by
  have hwf := C12_grid2_WF ox oy lx ly hnx hny
  have hV := C12_grid2_vertices ox oy lx ly hnx hny
  have toD := fun d hd => grid2_valid_isDart ox oy lx ly hnx hny (d := d) hd
  have b1 : ∀ a b k, a < nx → b < ny → k < 4 →
      (buildGrid2 ox oy nx ny lx ly).β 1 (D nx ny a b k) = D nx ny a b ((k + 1) % 4) :=
    fun a b k ha hb hk => grid2_β1 ox oy lx ly ha hb hk
  have Dpos : ∀ a b k, D nx ny a b k ≠ 0 := by intro a b k; unfold D dartOf; omega
  refine noCrack_of_lattice hwf (pt nx) ?_ ?_ ?_
  · intro d e hd he h
    rw [vid_eq_vid2 hwf hd, vid_eq_vid2 hwf he] at h
    exact (hV.1 d e (toD d hd) (toD e he)).1 h
  · intro d hd
    obtain ⟨a, b, k, ha, hb, hk, rfl⟩ := toD d hd
    rw [b1 a b k ha hb hk]
    exact Dpos _ _ _
  · intro d e hd he c1 c2 h1 h2
    obtain ⟨a, b, k, ha, hb, hk, rfl⟩ := toD d hd
    obtain ⟨a', b', k', ha', hb', hk', rfl⟩ := toD e he
    have hk1 : (k + 1) % 4 < 4 := Nat.mod_lt _ (by decide)
    have hk1' : (k' + 1) % 4 < 4 := Nat.mod_lt _ (by decide)
    rw [b1 a' b' k' ha' hb' hk', pt_D ha hk, pt_D ha' hk1'] at h1
    rw [b1 a b k ha hb hk, pt_D ha hk1, pt_D ha' hk'] at h2
    obtain ⟨g0, g1, g2, g3⟩ := C12_grid2_beta2 ox oy lx ly ha hb
    rcases grid2_pt_opp hk hk' h1 h2 with ⟨rfl, rfl, rfl, e⟩ | ⟨rfl, rfl, rfl, e⟩ | ⟨rfl, rfl, e, rfl⟩ |
      ⟨rfl, rfl, e, rfl⟩
    · have : (buildGrid2 ox oy nx ny lx ly).β 2 (D nx ny a' b 0) = _ := g0
      rw [c1, if_neg (by omega)] at this
      exact Dpos _ _ _ this.symm
    · have : (buildGrid2 ox oy nx ny lx ly).β 2 (D nx ny a' b 2) = _ := g2
      rw [c1, if_neg (by omega)] at this
      exact Dpos _ _ _ this.symm
    · have : (buildGrid2 ox oy nx ny lx ly).β 2 (D nx ny a b' 1) = _ := g1
      rw [c1, if_neg (by omega)] at this
      exact Dpos _ _ _ this.symm
    · have : (buildGrid2 ox oy nx ny lx ly).β 2 (D nx ny a b' 3) = _ := g3
      rw [c1, if_neg (by omega)] at this
      exact Dpos _ _ _ this.symm

/-- **C11 (d1)**: for all `nx, ny ≥ 1` and non-zero cell lengths, the grid of `build_2d_grid`, exported to VTK
    and imported again, is a well-formed map isomorphic to the grid: the same faces (one β1 cycle of four
    darts per cell), the same adjacency and boundary (β2), the same vertex coordinates -/
theorem C11_grid_round_trip (hnx : 0 < nx) (hny : 0 < ny) (hlx : lx ≠ 0) (hly : ly ≠ 0) :
    ∃ m', roundTrip (buildGrid2 ox oy nx ny lx ly) = .ok m' ∧ IsoCopy (buildGrid2 ox oy nx ny lx ly) m' :=
  C11_roundTrip_iso (C11_grid2_exportable ox oy lx ly hnx hny hlx hly) (C11_grid2_noCrack ox oy lx ly hnx hny)

example : ∃ m', roundTrip (buildGrid2 0 0 3 2 1 (1/2)) = .ok m' ∧ IsoCopy (buildGrid2 0 0 3 2 1 (1/2)) m' :=
  C11_grid_round_trip 0 0 1 (1/2) (by decide) (by decide) (by decide) (by decide +kernel)

end Grid2

/-! ## (d2) the split grid -/

section Split2
open GridVertexSplit HC.C12

variable (ox oy lx ly : Rat) {nx ny : Nat}

/-- successor of a local dart in its triangle -/
def tsucc (k : Nat) : Nat := 3 * (k / 3) + (k + 1) % 3

theorem split2_valid_isDart (hnx : 0 < nx) (hny : 0 < ny) {d : Nat}
    (hd : Valid (buildSplit2 ox oy nx ny lx ly) d) : IsDart nx ny d := by
  have hn := split2_n ox oy lx ly nx ny
  exact isDart_of_range hnx hny (by have := hd.1; omega) (by have := hd.2; omega)

theorem split2_pt_uniq {a b k a' b' k' : Nat} (hk : k < 6) (hk' : k' < 6)
    (h1 : (a + cdx k, b + cdy k) = (a' + cdx k', b' + cdy k'))
    (h2 : (a + cdx (tsucc k), b + cdy (tsucc k)) = (a' + cdx (tsucc k'), b' + cdy (tsucc k'))) :
    a = a' ∧ b = b' ∧ k = k' := by
  have k6 : k = 0 ∨ k = 1 ∨ k = 2 ∨ k = 3 ∨ k = 4 ∨ k = 5 := by omega
  have k6' : k' = 0 ∨ k' = 1 ∨ k' = 2 ∨ k' = 3 ∨ k' = 4 ∨ k' = 5 := by omega
  rcases k6 with rfl | rfl | rfl | rfl | rfl | rfl <;> rcases k6' with rfl | rfl | rfl | rfl | rfl | rfl <;>
    simp [cdx, cdy, tsucc, Prod.ext_iff] at h1 h2 <;> omega

theorem split2_pt_opp {a b k a' b' k' : Nat} (hk : k < 6) (hk' : k' < 6)
    (h1 : (a + cdx k, b + cdy k) = (a' + cdx (tsucc k'), b' + cdy (tsucc k')))
    (h2 : (a + cdx (tsucc k), b + cdy (tsucc k)) = (a' + cdx k', b' + cdy k')) :
    (k = 0 ∧ k' = 5 ∧ a' = a ∧ b' + 1 = b) ∨ (k = 5 ∧ k' = 0 ∧ a' = a ∧ b' = b + 1) ∨
    (k = 2 ∧ k' = 4 ∧ a' + 1 = a ∧ b' = b) ∨ (k = 4 ∧ k' = 2 ∧ a' = a + 1 ∧ b' = b) ∨
    (k = 1 ∧ k' = 3 ∧ a' = a ∧ b' = b) ∨ (k = 3 ∧ k' = 1 ∧ a' = a ∧ b' = b) := by
  have k6 : k = 0 ∨ k = 1 ∨ k = 2 ∨ k = 3 ∨ k = 4 ∨ k = 5 := by omega
  have k6' : k' = 0 ∨ k' = 1 ∨ k' = 2 ∨ k' = 3 ∨ k' = 4 ∨ k' = 5 := by omega
  rcases k6 with rfl | rfl | rfl | rfl | rfl | rfl <;> rcases k6' with rfl | rfl | rfl | rfl | rfl | rfl <;>
    simp [cdx, cdy, tsucc, Prod.ext_iff] at h1 h2 <;> omega

theorem split2_D_ne {a b k k' : Nat} (h : k ≠ k') : D nx ny a b k ≠ D nx ny a b k' := by
  unfold D dartOf; omega

theorem split2_b1 {a b k : Nat} (ha : a < nx) (hb : b < ny) (hk : k < 6) :
    (buildSplit2 ox oy nx ny lx ly).β 1 (D nx ny a b k) = D nx ny a b (tsucc k) :=
  ((C12_split2_faces ox oy lx ly ha hb).1 k hk).1

theorem tsucc_lt {k : Nat} (hk : k < 6) : tsucc k < 6 := by unfold tsucc; omega

theorem C11_split2_exportable (hnx : 0 < nx) (hny : 0 < ny) (hlx : lx ≠ 0) (hly : ly ≠ 0) :
    Exportable (buildSplit2 ox oy nx ny lx ly) := by
  have hwf := C12_split2_WF ox oy lx ly hnx hny
  have hV := C12_split2_vertices ox oy lx ly hnx hny
  have toD := fun d hd => split2_valid_isDart ox oy lx ly hnx hny (d := d) hd
  refine exportable_of_lattice hwf (pt nx) (ox := ox) (oy := oy) hlx hly ?_ ?_ ?_ ?_ ?_ ?_
  · intro d e hd he h
    rw [vid_eq_vid2 hwf hd, vid_eq_vid2 hwf he] at h
    exact (hV.1 d e (toD d hd) (toD e he)).1 h
  · intro d hd
    rw [vid_eq_vid2 hwf hd]
    exact grid2_att ox oy lx ly hnx hny (toD d hd)
  · intro d hd
    obtain ⟨a, b, k, ha, hb, hk, rfl⟩ := toD d hd
    rw [split2_b1 ox oy lx ly ha hb hk]
    have := D_pos (nx := nx) (ny := ny) (a := a) (b := b) (k := tsucc k); omega
  · intro d hd
    obtain ⟨a, b, k, ha, hb, hk, rfl⟩ := toD d hd
    rw [split2_b1 ox oy lx ly ha hb hk, split2_b1 ox oy lx ly ha hb (tsucc_lt hk)]
    have k6 : k = 0 ∨ k = 1 ∨ k = 2 ∨ k = 3 ∨ k = 4 ∨ k = 5 := by omega
    rcases k6 with rfl | rfl | rfl | rfl | rfl | rfl <;>
      exact ⟨split2_D_ne (by decide), split2_D_ne (by decide), split2_D_ne (by decide)⟩
  · intro d e hd he h1 h2
    obtain ⟨a, b, k, ha, hb, hk, rfl⟩ := toD d hd
    obtain ⟨a', b', k', ha', hb', hk', rfl⟩ := toD e he
    rw [split2_b1 ox oy lx ly ha hb hk, split2_b1 ox oy lx ly ha' hb' hk', pt_D ha (tsucc_lt hk),
      pt_D ha' (tsucc_lt hk')] at h2
    rw [pt_D ha hk, pt_D ha' hk'] at h1
    obtain ⟨rfl, rfl, rfl⟩ := split2_pt_uniq hk hk' h1 h2
    rfl
  · intro d hd h
    obtain ⟨a, b, k, ha, hb, hk, rfl⟩ := toD d hd
    rw [split2_b1 ox oy lx ly ha hb hk, pt_D ha hk, pt_D ha (tsucc_lt hk)] at h
    have k6 : k = 0 ∨ k = 1 ∨ k = 2 ∨ k = 3 ∨ k = 4 ∨ k = 5 := by omega
    rcases k6 with rfl | rfl | rfl | rfl | rfl | rfl <;> simp [cdx, cdy, tsucc, Prod.ext_iff] at h

theorem C11_split2_noCrack (hnx : 0 < nx) (hny : 0 < ny) : NoCrack (buildSplit2 ox oy nx ny lx ly) := by
  have hwf := C12_split2_WF ox oy lx ly hnx hny
  have hV := C12_split2_vertices ox oy lx ly hnx hny
  have toD := fun d hd => split2_valid_isDart ox oy lx ly hnx hny (d := d) hd
  have Dpos : ∀ a b k, D nx ny a b k ≠ 0 := by
    intro a b k; have := D_pos (nx := nx) (ny := ny) (a := a) (b := b) (k := k); omega
  refine noCrack_of_lattice hwf (pt nx) ?_ ?_ ?_
  · intro d e hd he h
    rw [vid_eq_vid2 hwf hd, vid_eq_vid2 hwf he] at h
    exact (hV.1 d e (toD d hd) (toD e he)).1 h
  · intro d hd
    obtain ⟨a, b, k, ha, hb, hk, rfl⟩ := toD d hd
    rw [split2_b1 ox oy lx ly ha hb hk]
    exact Dpos _ _ _
  · intro d e hd he c1 c2 h1 h2
    obtain ⟨a, b, k, ha, hb, hk, rfl⟩ := toD d hd
    obtain ⟨a', b', k', ha', hb', hk', rfl⟩ := toD e he
    rw [split2_b1 ox oy lx ly ha' hb' hk', pt_D ha hk, pt_D ha' (tsucc_lt hk')] at h1
    rw [split2_b1 ox oy lx ly ha hb hk, pt_D ha (tsucc_lt hk), pt_D ha' hk'] at h2
    obtain ⟨_, g13, g31, g0, g2, g4, g5⟩ := C12_split2_faces ox oy lx ly ha hb
    rcases split2_pt_opp hk hk' h1 h2 with ⟨rfl, rfl, rfl, e⟩ | ⟨rfl, rfl, rfl, e⟩ | ⟨rfl, rfl, e, rfl⟩ |
      ⟨rfl, rfl, e, rfl⟩ | ⟨rfl, rfl, rfl, rfl⟩ | ⟨rfl, rfl, rfl, rfl⟩
    · have : (buildSplit2 ox oy nx ny lx ly).β 2 (D nx ny a' b 0) = _ := g0
      rw [c1, if_neg (by omega)] at this
      exact Dpos _ _ _ this.symm
    · have : (buildSplit2 ox oy nx ny lx ly).β 2 (D nx ny a' b 5) = _ := g5
      rw [c1, if_neg (by omega)] at this
      exact Dpos _ _ _ this.symm
    · have : (buildSplit2 ox oy nx ny lx ly).β 2 (D nx ny a b' 2) = _ := g2
      rw [c1, if_neg (by omega)] at this
      exact Dpos _ _ _ this.symm
    · have : (buildSplit2 ox oy nx ny lx ly).β 2 (D nx ny a b' 4) = _ := g4
      rw [c1, if_neg (by omega)] at this
      exact Dpos _ _ _ this.symm
    · have : (buildSplit2 ox oy nx ny lx ly).β 2 (D nx ny a' b' 1) = _ := g13
      rw [c1] at this
      exact Dpos _ _ _ this.symm
    · have : (buildSplit2 ox oy nx ny lx ly).β 2 (D nx ny a' b' 3) = _ := g31
      rw [c1] at this
      exact Dpos _ _ _ this.symm

/-- **C11 (d2)**: the same for `build_2d_splitgrid` (two triangles per cell) -/
theorem C11_split_round_trip (hnx : 0 < nx) (hny : 0 < ny) (hlx : lx ≠ 0) (hly : ly ≠ 0) :
    ∃ m', roundTrip (buildSplit2 ox oy nx ny lx ly) = .ok m' ∧ IsoCopy (buildSplit2 ox oy nx ny lx ly) m' :=
  C11_roundTrip_iso (C11_split2_exportable ox oy lx ly hnx hny hlx hly) (C11_split2_noCrack ox oy lx ly hnx hny)

example : ∃ m', roundTrip (buildSplit2 (-1) 2 2 5 3 1) = .ok m' ∧ IsoCopy (buildSplit2 (-1) 2 2 5 3 1) m' :=
  C11_split_round_trip (-1) 2 3 1 (by decide) (by decide) (by decide) (by decide)

end Split2

end HC.C11
