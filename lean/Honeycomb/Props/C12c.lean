/-
  C12, third part — the descriptor form `len_per_cell + lens` in binary64.

  The code computes `(lx / lpx).ceil().to_usize().unwrap()` where `lx`, `lpx` are ALREADY floats: the
  division is ONE rounding of the exact quotient of two floats, `ceil` and the conversion are exact.
  With `rnd 53` of `Lemmas/Rounding.lean` (round to nearest even, 53 bits, unbounded exponent: IEEE
  binary64 division as long as the quotient neither overflows nor is subnormal) the count is
  `⌈rnd 53 (L / l)⌉`.

    C12_ceil_count_f64        for positive floats with `⌈L/l⌉ ≤ 2^53`: the count is ⌈L/l⌉ or ⌈L/l⌉ − 1; it is
                              ⌈L/l⌉ iff `rnd 53 (L/l) > ⌈L/l⌉ − 1`, and ⌈L/l⌉ − 1 iff `rnd 53 (L/l) = ⌈L/l⌉ − 1`
    C12_ceil_count_f64_exact  it is exact whenever `L/l` is itself a binary64 number
    C12_ceil_count_f64_one_short   such floats exist: `l = 1 + 2⁻⁵²`, `L = 3 + 2⁻⁵⁰` give `L/l = 3 + ε`,
                              `0 < ε < 2⁻⁵²` (half an ulp of 3): the quotient rounds to 3, the count is 3, ⌈L/l⌉ = 4.
                              The real builder does build 3 cells on this input (reproduced through the
                              harness: `grid 2 0 0 lpl 0 0 4503599627370497/4503599627370496 1
                              3377699720527873/1125899906842624 1` → 12 darts).
-/
import Honeycomb.Props.C12b
import Honeycomb.Lemmas.Rounding

namespace HC.C12
open HC HC.Geo HC.Rounding

/-- binary64, counts up to `2^53`: the computed count `⌈rnd 53 (L/l)⌉` is `⌈L/l⌉` or one less; it is
    `⌈L/l⌉` iff the rounded quotient stays above `⌈L/l⌉ − 1`, and one less iff the quotient rounds down
    onto the integer `⌈L/l⌉ − 1` (then `L/l` exceeds that integer by at most half an ulp of it). -/
theorem C12_ceil_count_f64 {L l : ℚ} (hL : 0 < L) (hl : 0 < l) (hn : (L / l).ceil ≤ 2 ^ 53) :
    ((rnd 53 (L / l)).ceil = (L / l).ceil ∨ (rnd 53 (L / l)).ceil = (L / l).ceil - 1) ∧
    ((rnd 53 (L / l)).ceil = (L / l).ceil ↔ (((L / l).ceil - 1 : ℤ) : ℚ) < rnd 53 (L / l)) ∧
    ((rnd 53 (L / l)).ceil = (L / l).ceil - 1 ↔ rnd 53 (L / l) = (((L / l).ceil - 1 : ℤ) : ℚ)) := by
  have hq : 0 < L / l := div_pos hL hl
  have hc : 1 ≤ (L / l).ceil := by
    have : ((0 : ℤ) : ℚ) < L / l := by simpa using hq
    have := (Rat.lt_ceil_iff (x := L / l) (y := 0)).mpr this
    omega
  have h1 : (L / l).ceil.natAbs ≤ 2 ^ 53 := by omega
  have h2 : ((L / l).ceil - 1).natAbs ≤ 2 ^ 53 := by omega
  obtain ⟨lo, hi⟩ := rnd_ceil_bounds (p := 53) (by norm_num) (L / l) h1 h2
  exact C12_ceil_count_of_bounds _ _ lo hi

/-- the count is exact whenever the quotient is a binary64 number (cell length a power of two, total
    length an exact multiple of the cell length with a representable factor, …) -/
theorem C12_ceil_count_f64_exact {L l : ℚ} (h : Representable 53 (L / l)) :
    (rnd 53 (L / l)).ceil.toNat = ceilCount L l := by
  unfold ceilCount
  rw [rnd_of_representable (by norm_num) h]

/-- `n · l / l` for a count `n ≤ 2^53`: the three descriptor forms agree in binary64 too, as soon as
    the total length `n · l` is what is passed (whatever its own representability) -/
theorem C12_ceil_count_f64_multiple {n : ℕ} {l : ℚ} (hl : 0 < l) (hn : n ≤ 2 ^ 53) :
    (rnd 53 ((n : ℚ) * l / l)).ceil.toNat = n := by
  have e : (n : ℚ) * l / l = ((n : ℤ) : ℚ) := by
    rw [mul_div_assoc, div_self (ne_of_gt hl), mul_one]; simp
  rw [e, rnd_fixes_small_integers (by norm_num) (by simpa using hn), Rat.ceil_intCast]
  simp

/-- the two floats of the one-short example -/
def shortL : ℚ := 3377699720527873 / 1125899906842624   -- 3 + 2⁻⁵⁰
def shortl : ℚ := 4503599627370497 / 4503599627370496   -- 1 + 2⁻⁵²

/-- Floats for which the count is one short exist well below `2^53`: `l = 1 + 2⁻⁵²`, `L = 3 + 2⁻⁵⁰`
    are binary64 numbers, `L / l = 3 + 2⁻⁵²/(1 + 2⁻⁵²)` lies strictly between 3 and 3 + half an ulp of 3, the
    division returns 3, the computed count is 3 while `⌈L/l⌉ = 4`: three cells of length `l` cover
    `3 + 3·2⁻⁵²`, short of `L` by `2⁻⁵²`. -/
theorem C12_ceil_count_f64_one_short :
    Representable 53 shortL ∧ Representable 53 shortl ∧ 0 < shortl ∧
    rnd 53 (shortL / shortl) = 3 ∧ (rnd 53 (shortL / shortl)).ceil = 3 ∧ (shortL / shortl).ceil = 4 ∧
    (rnd 53 (shortL / shortl)).ceil = (shortL / shortl).ceil - 1 := by
  have hr : rnd 53 (shortL / shortl) = 3 := by decide +kernel
  have hc : (shortL / shortl).ceil = 4 := by decide +kernel
  refine ⟨⟨3377699720527873, -50, by decide +kernel, ?_⟩, ⟨4503599627370497, -52, by decide +kernel, ?_⟩,
    by decide +kernel, hr, ?_, hc, ?_⟩
  · unfold shortL; norm_num
  · unfold shortl; norm_num
  · rw [hr]; rfl
  · rw [hr, hc]; rfl

/-- an exact instance: `L = 7/2`, `l = 1/2` (quotient 7, representable) -/
example : (rnd 53 ((7 / 2 : ℚ) / (1 / 2))).ceil.toNat = ceilCount (7 / 2) (1 / 2) :=
  C12_ceil_count_f64_exact ⟨7, 0, by decide +kernel, by norm_num⟩

example : (rnd 53 ((5 : ℚ) / 2)).ceil = ((5 : ℚ) / 2).ceil ∨ (rnd 53 ((5 : ℚ) / 2)).ceil = ((5 : ℚ) / 2).ceil - 1 :=
  (C12_ceil_count_f64 (L := 5) (l := 2) (by norm_num) (by norm_num) (by decide +kernel)).1

end HC.C12
