/-
  C03 (3-D part) — orbits, cell identifiers and cell iterators of `CMap3` agree with the orbit
  definition.  Model: Model/Ops3.lean (`gen3`, `orbit3`, `vertexId3`, `edgeId3`, `faceId3`, `volumeId3`,
  `iter*3`), mirroring /repo/honeycomb-core/src/cmap/dim3/{orbits.rs,basic_ops.rs} after the two repairs
  (sixth vertex image `β2∘β3`; `face_id_transac` takes the minimum with the darts its backward walk
  starts from).

  For every 3-map `m` with `WF 4 m` and every non-null existing dart `d`:

  * `C03_orbit3_spec`               every policy (Vertex, VertexLinear, Edge, Face, FaceLinear, Volume, VolumeLinear,
                                    every `Custom` slice with indices `< 4`): the orbit starts with the dart, has no
                                    duplicate, never the null dart, is exactly the set reachable through the images
  * `C03_images3_inverse_closed`,
    `C03_orbit3_is_cell`            Vertex, Edge, Face, Volume: images closed under inverse on EVERY well-formed
                                    3-map (no closed/mirrored hypothesis), so the orbit is the equivalence class
  * `C03_vertexId3_min`, `C03_edgeId3_min`, `C03_volumeId3_min`
                                    the "mark on pop" traversals terminate within their fuel and return the
                                    minimum of the cell — every well-formed 3-map
  * `C03_faceId3_min`               the two-sided lock-step walk returns the minimum of the face cell on maps whose
                                    3-glued faces are mirrored and 3-linked as a whole (`FaceScope`) — closed or OPEN:
                                    more than the property claims ("glued faces closed and mirrored"); faces that
                                    are not 3-linked are unrestricted
  * `C03_same_id3_iff_same_cell`    equal identifiers ⇔ same cell
  * `C03_iter3_sorted`, `C03_iterVertices3_mem`, `C03_iterEdges3_mem`, `C03_iterVolumes3_mem`,
    `C03_iterFaces3_mem`            iterators: strictly increasing, exactly the identifiers of the in-use darts
  * `C03_linear3_closed`            VertexLinear / FaceLinear / VolumeLinear give the whole cell on closed cells
  * `C03_transactional3_eq_plain`   transactional variants = plain ones (read-only programs; T1 for the log)
-/
import Honeycomb.Lemmas.Bfs3
import Honeycomb.Lemmas.Link3
import Honeycomb.Lemmas.MapLawful
import Honeycomb.Props.C20b

set_option linter.unusedSimpArgs false
set_option linter.unusedVariables false

namespace HC.C03
open HC
variable {X : Type}

/-! ## the images of a dart under a 3-D policy, as a pure function of the map -/

/-- images examined for dart `x`, same order as `gen3` (i.e. as `CMap3::orbit_transac`) -/
def g3 (m : Map X) : Policy → Nat → List Nat
  | .vertex, x => [m.β 3 (m.β 2 x), m.β 1 (m.β 3 x), m.β 1 (m.β 2 x), m.β 3 (m.β 0 x), m.β 2 (m.β 0 x),
      m.β 2 (m.β 3 x)]
  | .vertexLinear, x => [m.β 3 (m.β 2 x), m.β 1 (m.β 3 x), m.β 1 (m.β 2 x)]
  | .edge, x => [m.β 2 x, m.β 3 x]
  | .face, x => [m.β 1 x, m.β 0 x, m.β 3 x]
  | .faceLinear, x => [m.β 1 x, m.β 3 x]
  | .volume, x => [m.β 1 x, m.β 0 x, m.β 2 x]
  | .volumeLinear, x => [m.β 1 x, m.β 2 x]
  | .custom bs, x => bs.map (fun i => m.β i x)

/-- policies a 3-map accepts: all named ones, custom β indices below 4 -/
def Pol3OK : Policy → Prop
  | .custom bs => ∀ b, b ∈ bs → b < 4
  | _ => True

instance : (pol : Policy) → Decidable (Pol3OK pol)
  | .custom bs => inferInstanceAs (Decidable (∀ b, b ∈ bs → b < 4))
  | .vertex => isTrue trivial
  | .vertexLinear => isTrue trivial
  | .edge => isTrue trivial
  | .face => isTrue trivial
  | .faceLinear => isTrue trivial
  | .volume => isTrue trivial
  | .volumeLinear => isTrue trivial

/-- the cell policies: images closed under inverse -/
def Sym3 : Policy → Prop
  | .vertex => True
  | .edge => True
  | .face => True
  | .volume => True
  | _ => False

theorem Sym3.ok {pol : Policy} (h : Sym3 pol) : Pol3OK pol := by
  cases pol <;> trivial

/-- the orbit as a pure function -/
def orb3 (m : Map X) (pol : Policy) (d : Nat) : List Nat := orbG (g3 m pol) m.n d

/-- the cell identifier as a pure function: the minimum of the orbit -/
def cellId3 (m : Map X) (pol : Policy) (d : Nat) : Nat := cidG (g3 m pol) m.n d

/-! ## `gen3` computes `g3` -/

theorem okb4 {m : Map X} (h : WF 4 m) {i x : Nat} (hi : i < 4) (hx : x < m.n) : m.okβ i x = true :=
  (h.toSized.okβ i x).2 ⟨hi, hx⟩

theorem run_gen3_go {m : Map X} (h : WF 4 m) {x : Nat} (hx : x < m.n) :
    ∀ (bs acc : List Nat), (∀ b, b ∈ bs → b < 4) →
      run (gen3.go (X := X) x bs acc) m = (.ok (acc ++ bs.map (fun i => m.β i x)), m) := by
  intro bs
  induction bs with
  | nil => intro acc _; simp [gen3.go]
  | cons i is ih =>
      intro acc hb
      have hi : i < 4 := hb i List.mem_cons_self
      unfold gen3.go
      simp only [hi, if_true, Prog.bind_eq, run_rB, okb4 h hi hx]
      rw [ih _ fun b hb' => hb b (List.mem_cons_of_mem _ hb')]
      simp

theorem run_gen3 {m : Map X} (h : WF 4 m) {pol : Policy} (hp : Pol3OK pol) {x : Nat} (hx : x < m.n) :
    run (gen3 (X := X) pol x) m = (.ok (g3 m pol x), m) := by
  have r : ∀ i, i < 4 → ∀ y, y < m.n → m.β i y < m.n := fun i hi y hy => h.range i hi y hy
  have o : ∀ i, i < 4 → ∀ y, y < m.n → m.okβ i y = true := fun i hi y hy => okb4 h hi hy
  cases pol with
  | vertex =>
      simp only [gen3, g3, Prog.bind_eq, Prog.pure_eq, run_rB, run_ret, o 0 (by omega) x hx,
        o 2 (by omega) x hx, o 3 (by omega) x hx, o 3 (by omega) _ (r 2 (by omega) x hx),
        o 1 (by omega) _ (r 3 (by omega) x hx), o 1 (by omega) _ (r 2 (by omega) x hx),
        o 3 (by omega) _ (r 0 (by omega) x hx), o 2 (by omega) _ (r 0 (by omega) x hx),
        o 2 (by omega) _ (r 3 (by omega) x hx), if_true]
  | vertexLinear =>
      simp only [gen3, g3, Prog.bind_eq, Prog.pure_eq, run_rB, run_ret,
        o 2 (by omega) x hx, o 3 (by omega) x hx, o 3 (by omega) _ (r 2 (by omega) x hx),
        o 1 (by omega) _ (r 3 (by omega) x hx), o 1 (by omega) _ (r 2 (by omega) x hx), if_true]
  | edge =>
      simp only [gen3, g3, Prog.bind_eq, Prog.pure_eq, run_rB, run_ret, o 2 (by omega) x hx,
        o 3 (by omega) x hx, if_true]
  | face =>
      simp only [gen3, g3, Prog.bind_eq, Prog.pure_eq, run_rB, run_ret, o 1 (by omega) x hx,
        o 0 (by omega) x hx, o 3 (by omega) x hx, if_true]
  | faceLinear =>
      simp only [gen3, g3, Prog.bind_eq, Prog.pure_eq, run_rB, run_ret, o 1 (by omega) x hx,
        o 3 (by omega) x hx, if_true]
  | volume =>
      simp only [gen3, g3, Prog.bind_eq, Prog.pure_eq, run_rB, run_ret, o 1 (by omega) x hx,
        o 0 (by omega) x hx, o 2 (by omega) x hx, if_true]
  | volumeLinear =>
      simp only [gen3, g3, Prog.bind_eq, Prog.pure_eq, run_rB, run_ret, o 1 (by omega) x hx,
        o 2 (by omega) x hx, if_true]
  | custom bs =>
      have := run_gen3_go h hx bs [] hp
      simpa [gen3, g3] using this

/-! ## facts about `g3` on well-formed maps -/

/-- every image is a β-image of `x` or a β-image of a β-image of `x` -/
theorem g3_form {m : Map X} {pol : Policy} (hp : Pol3OK pol) {x y : Nat} (hy : y ∈ g3 m pol x) :
    (∃ i, i < 4 ∧ y = m.β i x) ∨ ∃ i j, i < 4 ∧ j < 4 ∧ y = m.β i (m.β j x) := by
  cases pol with
  | vertex =>
      simp only [g3, List.mem_cons, List.not_mem_nil, or_false] at hy
      rcases hy with rfl | rfl | rfl | rfl | rfl | rfl
      · exact Or.inr ⟨3, 2, by omega, by omega, rfl⟩
      · exact Or.inr ⟨1, 3, by omega, by omega, rfl⟩
      · exact Or.inr ⟨1, 2, by omega, by omega, rfl⟩
      · exact Or.inr ⟨3, 0, by omega, by omega, rfl⟩
      · exact Or.inr ⟨2, 0, by omega, by omega, rfl⟩
      · exact Or.inr ⟨2, 3, by omega, by omega, rfl⟩
  | vertexLinear =>
      simp only [g3, List.mem_cons, List.not_mem_nil, or_false] at hy
      rcases hy with rfl | rfl | rfl
      · exact Or.inr ⟨3, 2, by omega, by omega, rfl⟩
      · exact Or.inr ⟨1, 3, by omega, by omega, rfl⟩
      · exact Or.inr ⟨1, 2, by omega, by omega, rfl⟩
  | edge =>
      simp only [g3, List.mem_cons, List.not_mem_nil, or_false] at hy
      rcases hy with rfl | rfl
      · exact Or.inl ⟨2, by omega, rfl⟩
      · exact Or.inl ⟨3, by omega, rfl⟩
  | face =>
      simp only [g3, List.mem_cons, List.not_mem_nil, or_false] at hy
      rcases hy with rfl | rfl | rfl
      · exact Or.inl ⟨1, by omega, rfl⟩
      · exact Or.inl ⟨0, by omega, rfl⟩
      · exact Or.inl ⟨3, by omega, rfl⟩
  | faceLinear =>
      simp only [g3, List.mem_cons, List.not_mem_nil, or_false] at hy
      rcases hy with rfl | rfl
      · exact Or.inl ⟨1, by omega, rfl⟩
      · exact Or.inl ⟨3, by omega, rfl⟩
  | volume =>
      simp only [g3, List.mem_cons, List.not_mem_nil, or_false] at hy
      rcases hy with rfl | rfl | rfl
      · exact Or.inl ⟨1, by omega, rfl⟩
      · exact Or.inl ⟨0, by omega, rfl⟩
      · exact Or.inl ⟨2, by omega, rfl⟩
  | volumeLinear =>
      simp only [g3, List.mem_cons, List.not_mem_nil, or_false] at hy
      rcases hy with rfl | rfl
      · exact Or.inl ⟨1, by omega, rfl⟩
      · exact Or.inl ⟨2, by omega, rfl⟩
  | custom bs =>
      simp only [g3, List.mem_map] at hy
      obtain ⟨i, hi, e⟩ := hy
      exact Or.inl ⟨i, hp i hi, e.symm⟩

theorem g3_ok {m : Map X} (h : WF 4 m) (pol : Policy) (hp : Pol3OK pol) : GenOK (g3 m pol) m.n where
  null := by
    intro y hy
    rcases g3_form hp hy with ⟨i, hi, rfl⟩ | ⟨i, j, hi, hj, rfl⟩
    · exact h.null i hi
    · rw [h.null j hj]; exact h.null i hi
  range := by
    intro a ha y hy
    rcases g3_form hp hy with ⟨i, hi, rfl⟩ | ⟨i, j, hi, hj, rfl⟩
    · exact h.range i hi a ha
    · exact h.range i hi _ (h.range j hj a ha)

theorem g3_len {m : Map X} {pol : Policy} (hs : Sym3 pol) (x : Nat) : (g3 m pol x).length ≤ 6 := by
  cases pol <;> first | exact hs.elim | simp [g3]

/-- a non-null image of an existing dart is an in-use dart -/
theorem g3_image_inUse {m : Map X} (h : WF 4 m) {pol : Policy} (hp : Pol3OK pol) {b x : Nat} (hb : b < m.n)
    (hx : x ∈ g3 m pol b) (hx0 : x ≠ 0) : m.unused x = false := by
  rcases g3_form hp hx with ⟨i, hi, rfl⟩ | ⟨i, j, hi, hj, rfl⟩
  · exact (h.image_inUse hi hb hx0).2
  · exact (h.image_inUse hi (h.range j hj b hb) hx0).2

/-! ## orbits -/

/-- **C03 (3-D), orbits**: on a well-formed 3-map, for every policy (Vertex, VertexLinear, Edge, Face,
    FaceLinear, Volume, VolumeLinear, every `Custom` slice of indices `< 4`) and every non-null
    existing dart `d`, `orbit_transac` succeeds, leaves the map unchanged and yields `d` first, then
    every non-null dart reachable through the policy's images exactly once; all yielded darts exist -/
theorem C03_orbit3_spec {m : Map X} (h : WF 4 m) {pol : Policy} (hp : Pol3OK pol) {d : Nat}
    (hd0 : d ≠ 0) (hd : d < m.n) :
    run (orbit3 (X := X) m.n pol d) m = (.ok (orb3 m pol d), m) ∧
    (orb3 m pol d).head? = some d ∧ (orb3 m pol d).Nodup ∧ 0 ∉ orb3 m pol d ∧
    (∀ x, x ∈ orb3 m pol d ↔ (x ≠ 0 ∧ Reach (g3 m pol) d x)) ∧
    ∀ x, x ∈ orb3 m pol d → x < m.n :=
  ⟨run_orbitWith (fun _ hx => run_gen3 h hp hx) (g3_ok h pol hp).range hd0 hd,
   orbG_spec (g3_ok h pol hp) hd0 hd⟩

theorem mem_orb3 {m : Map X} (h : WF 4 m) {pol : Policy} (hp : Pol3OK pol) {d : Nat}
    (hd0 : d ≠ 0) (hd : d < m.n) (x : Nat) :
    x ∈ orb3 m pol d ↔ (x ≠ 0 ∧ Reach (g3 m pol) d x) := mem_orbG (g3_ok h pol hp) hd0 hd x

theorem run_gen3_go_bad {m : Map X} (h : WF 4 m) {x : Nat} (hx : x < m.n) :
    ∀ (bs acc : List Nat), (∃ b, b ∈ bs ∧ 4 ≤ b) →
      run (gen3.go (X := X) x bs acc) m = (.panic, m) := by
  intro bs
  induction bs with
  | nil => intro acc hb; obtain ⟨b, hb, _⟩ := hb; simp at hb
  | cons i is ih =>
      intro acc hb
      unfold gen3.go
      by_cases hi : i < 4
      · simp only [hi, if_true, Prog.bind_eq, run_rB, okb4 h hi hx]
        apply ih
        obtain ⟨b, hb1, hb2⟩ := hb
        rcases List.mem_cons.1 hb1 with rfl | hb1
        · omega
        · exact ⟨b, hb1, hb2⟩
      · simp only [hi, if_false, run_panic]

/-- a `Custom` policy naming a β index `≥ 4` is refused (`assert!(i < 4)` of `beta_rt_transac`) -/
theorem C03_orbit3_custom_bad_panics {m : Map X} (h : WF 4 m) {bs : List Nat}
    (hb : ∃ b, b ∈ bs ∧ 4 ≤ b) {d : Nat} (hd : d < m.n) :
    run (orbit3 (X := X) m.n (.custom bs) d) m = (.panic, m) := by
  unfold orbit3 orbitWith bfs
  show run ((gen3 (.custom bs) d).bind _) m = _
  rw [run_bind]
  have : run (gen3 (X := X) (.custom bs) d) m = (.panic, m) := by
    simpa [gen3] using run_gen3_go_bad h hd bs [] hb
  rw [this]

/-! ## Vertex / Edge / Face / Volume: images closed under inverse, the orbit is the cell -/

theorem g3_vertex_mem (m : Map X) (x y : Nat) : y ∈ g3 m .vertex x ↔ y ∈ Cell3.g3v m x := by
  simp only [g3, Cell3.g3v, List.mem_cons, List.not_mem_nil, or_false]
  constructor
  · rintro (h | h | h | h | h | h)
    · exact Or.inr (Or.inl h)
    · exact Or.inl h
    · exact Or.inr (Or.inr (Or.inl h))
    · exact Or.inr (Or.inr (Or.inr (Or.inl h)))
    · exact Or.inr (Or.inr (Or.inr (Or.inr (Or.inl h))))
    · exact Or.inr (Or.inr (Or.inr (Or.inr (Or.inr h))))
  · rintro (h | h | h | h | h | h)
    · exact Or.inr (Or.inl h)
    · exact Or.inl h
    · exact Or.inr (Or.inr (Or.inl h))
    · exact Or.inr (Or.inr (Or.inr (Or.inl h)))
    · exact Or.inr (Or.inr (Or.inr (Or.inr (Or.inl h))))
    · exact Or.inr (Or.inr (Or.inr (Or.inr (Or.inr h))))

/-- **C03 (3-D), inverse-closedness**: under the Vertex, Edge, Face and Volume policies every non-null
    image `y` of an existing dart `x` has `x` among its own images — on EVERY well-formed 3-map
    (Vertex: thanks to the sixth image `β2∘β3`, `Cell3.g3v_invClosed`; no closed/mirrored hypothesis) -/
theorem C03_images3_inverse_closed {m : Map X} (h : WF 4 m) {pol : Policy} (hs : Sym3 pol) :
    InvClosed (g3 m pol) m.n := by
  have i01 := h.inv01
  have i10 := h.inv10
  have iv : ∀ i, i < 4 → 2 ≤ i → ∀ d, d < m.n → m.β i d ≠ 0 → m.β i (m.β i d) = d :=
    fun i hi h2 d hd hne => (h.invol i hi h2 d hd hne).1
  intro x hx y hy hy0
  cases pol with
  | vertex =>
      rw [g3_vertex_mem] at hy ⊢
      exact Cell3.g3v_invClosed h x hx y hy hy0
  | edge =>
      simp only [g3, List.mem_cons, List.not_mem_nil, or_false] at hy ⊢
      rcases hy with hy | hy
      · left; rw [hy, iv 2 (by omega) (by omega) x hx (by rw [← hy]; exact hy0)]
      · right; rw [hy, iv 3 (by omega) (by omega) x hx (by rw [← hy]; exact hy0)]
  | face =>
      simp only [g3, List.mem_cons, List.not_mem_nil, or_false] at hy ⊢
      rcases hy with hy | hy | hy
      · right; left; rw [hy, i01 x hx (by rw [← hy]; exact hy0)]
      · left; rw [hy, i10 x hx (by rw [← hy]; exact hy0)]
      · right; right; rw [hy, iv 3 (by omega) (by omega) x hx (by rw [← hy]; exact hy0)]
  | volume =>
      simp only [g3, List.mem_cons, List.not_mem_nil, or_false] at hy ⊢
      rcases hy with hy | hy | hy
      · right; left; rw [hy, i01 x hx (by rw [← hy]; exact hy0)]
      · left; rw [hy, i10 x hx (by rw [← hy]; exact hy0)]
      · right; right; rw [hy, iv 2 (by omega) (by omega) x hx (by rw [← hy]; exact hy0)]
  | vertexLinear => exact hs.elim
  | faceLinear => exact hs.elim
  | volumeLinear => exact hs.elim
  | custom bs => exact hs.elim

/-- **C03 (3-D), the orbit is the cell**: under Vertex / Edge / Face / Volume the orbit of `d` is
    exactly the equivalence class of `d` under "images and their inverses" -/
theorem C03_orbit3_is_cell {m : Map X} (h : WF 4 m) {pol : Policy} (hs : Sym3 pol) {d : Nat}
    (hd0 : d ≠ 0) (hd : d < m.n) (x : Nat) :
    x ∈ orb3 m pol d ↔ SameCell (g3 m pol) m.n d x :=
  mem_orbG_iff_sameCell (g3_ok h pol hs.ok) (C03_images3_inverse_closed h hs) hd0 hd x

/-- the orbit of an in-use dart contains no removed dart -/
theorem C03_orbit3_of_in_use_is_in_use {m : Map X} (h : WF 4 m) {pol : Policy} (hp : Pol3OK pol) {d : Nat}
    (hd0 : d ≠ 0) (hd : d < m.n) (hu : m.unused d = false) :
    ∀ x, x ∈ orb3 m pol d → m.unused x = false := by
  intro x hx
  obtain ⟨hx0, hr⟩ := (mem_orb3 h hp hd0 hd x).1 hx
  rcases hr.cases_tail with e | ⟨b, hb, hxb⟩
  · rw [e]; exact hu
  · exact g3_image_inUse h hp (hb.lt (g3_ok h pol hp).range hd) hxb hx0

/-! ## identifiers: vertex, edge, volume (every well-formed 3-map) -/

/-- `cellId3` is the minimum of the orbit -/
theorem cellId3_spec {m : Map X} (h : WF 4 m) {pol : Policy} (hp : Pol3OK pol) {d : Nat}
    (hd0 : d ≠ 0) (hd : d < m.n) :
    cellId3 m pol d ∈ orb3 m pol d ∧ ∀ x, x ∈ orb3 m pol d → cellId3 m pol d ≤ x :=
  cidG_spec (g3_ok h pol hp) hd0 hd

/-- a generator made of reads only returns what it returns without touching the map, and panics on a
    dart that does not exist (so a successful run was on an existing dart) -/
theorem gen_ok_of_total {m : Map X} {gen : Nat → P X (List Nat)} {g : Nat → List Nat}
    (hro : ∀ x, ReadOnly (gen x))
    (htot : ∀ x, x < m.n → run (gen x) m = (.ok (g x), m))
    (hoob : ∀ x, m.n ≤ x → (run (gen x) m).1 = .panic) :
    ∀ x ims m', run (gen x) m = (.ok ims, m') → m' = m ∧ ims = g x := by
  intro x ims m' hr
  by_cases hx : x < m.n
  · rw [htot x hx] at hr
    simp only [Prod.mk.injEq, Out.ok.injEq] at hr
    exact ⟨hr.2.symm, hr.1.symm⟩
  · have := hoob x (by omega)
    rw [hr] at this; simp at this

theorem okb4_false {m : Map X} (h : WF 4 m) {i x : Nat} (hx : m.n ≤ x) : m.okβ i x = false := by
  cases hk : m.okβ i x with
  | false => rfl
  | true => have := ((h.toSized.okβ i x).1 hk).2; omega

/-- the vertex cell of Lemmas/Cell3.lean (`g3v`, the push order of `vertex_id_transac`) and the vertex
    orbit (`g3 m .vertex`, the order of `orbit_transac`) have the same minimum -/
theorem cid_g3v_eq {m : Map X} (h : WF 4 m) {d : Nat} (hd0 : d ≠ 0) (hd : d < m.n) :
    cidG (Cell3.g3v m) m.n d = cellId3 m .vertex d := by
  have H1 : GenOK (Cell3.g3v m) m.n := ⟨Cell3.g3v_null h, Cell3.g3v_range h⟩
  have H2 := g3_ok h .vertex trivial
  refine min_unique (cidG_spec H1 hd0 hd) (cidG_spec H2 hd0 hd) ?_
  intro x
  rw [mem_orbG H1 hd0 hd, mem_orbG H2 hd0 hd]
  constructor
  · rintro ⟨a, b⟩; exact ⟨a, b.mono fun x y hy => (g3_vertex_mem m x y).2 hy⟩
  · rintro ⟨a, b⟩; exact ⟨a, b.mono fun x y hy => (g3_vertex_mem m x y).1 hy⟩

/-- **C03 (3-D), vertex id**: on every well-formed 3-map `vertex_id_transac` terminates within its
    fuel, leaves the map alone and returns the smallest dart of the vertex cell (= of the Vertex orbit) -/
theorem C03_vertexId3_min {m : Map X} (h : WF 4 m) {d : Nat} (hd0 : d ≠ 0) (hd : d < m.n) :
    run (vertexId3 (X := X) m.n d) m = (.ok (cellId3 m .vertex d), m) ∧
    cellId3 m .vertex d ∈ orb3 m .vertex d ∧ ∀ x, x ∈ orb3 m .vertex d → cellId3 m .vertex d ≤ x := by
  refine ⟨?_, cellId3_spec h (pol := .vertex) trivial hd0 hd⟩
  have H1 : GenOK (Cell3.g3v m) m.n := ⟨Cell3.g3v_null h, Cell3.g3v_range h⟩
  have r : ∀ i, i < 4 → ∀ y, y < m.n → m.β i y < m.n := fun i hi y hy => h.range i hi y hy
  have o : ∀ i, i < 4 → ∀ y, y < m.n → m.okβ i y = true := fun i hi y hy => okb4 h hi hy
  have htot : ∀ x, x < m.n → run (genVid3 (X := X) x) m = (.ok (Cell3.g3v m x), m) := by
    intro x hx
    simp only [genVid3, Cell3.g3v, Prog.bind_eq, Prog.pure_eq, run_rB, run_ret, o 0 (by omega) x hx,
      o 2 (by omega) x hx, o 3 (by omega) x hx, o 3 (by omega) _ (r 2 (by omega) x hx),
      o 1 (by omega) _ (r 3 (by omega) x hx), o 1 (by omega) _ (r 2 (by omega) x hx),
      o 3 (by omega) _ (r 0 (by omega) x hx), o 2 (by omega) _ (r 0 (by omega) x hx),
      o 2 (by omega) _ (r 3 (by omega) x hx), if_true]
  have := run_popLoop_min (gen := genVid3 (X := X)) H1 htot (fun x ims m' hr => Cell3.run_genVid3 hr)
    (fun x => by simp [Cell3.g3v]) hd0 hd
  unfold vertexId3
  rw [this, cid_g3v_eq h hd0 hd]

/-- **C03 (3-D), edge id**: `edge_id_transac` (traversal over `β2, β3`) returns the smallest dart of
    the edge cell, on every well-formed 3-map -/
theorem C03_edgeId3_min {m : Map X} (h : WF 4 m) {d : Nat} (hd0 : d ≠ 0) (hd : d < m.n) :
    run (edgeId3 (X := X) m.n d) m = (.ok (cellId3 m .edge d), m) ∧
    cellId3 m .edge d ∈ orb3 m .edge d ∧ ∀ x, x ∈ orb3 m .edge d → cellId3 m .edge d ≤ x := by
  refine ⟨?_, cellId3_spec h (pol := .edge) trivial hd0 hd⟩
  have hro : ∀ x, ReadOnly ((do let i1 ← rB 2 x; let i2 ← rB 3 x; pure [i1, i2]) : P X (List Nat)) :=
    fun x => ReadOnly.bind (ReadOnly.rB _ _) fun _ => ReadOnly.bind (ReadOnly.rB _ _) fun _ => ReadOnly.pure _
  have htot : ∀ x, x < m.n →
      run ((do let i1 ← rB 2 x; let i2 ← rB 3 x; pure [i1, i2]) : P X (List Nat)) m
        = (.ok (g3 m .edge x), m) := by
    intro x hx
    simp only [g3, Prog.bind_eq, Prog.pure_eq, run_rB, run_ret, okb4 h (by omega : 2 < 4) hx,
      okb4 h (by omega : 3 < 4) hx, if_true]
  have hoob : ∀ x, m.n ≤ x →
      (run ((do let i1 ← rB 2 x; let i2 ← rB 3 x; pure [i1, i2]) : P X (List Nat)) m).1 = .panic := by
    intro x hx
    simp only [Prog.bind_eq, Prog.pure_eq, run_rB, okb4_false h hx, Bool.false_eq_true, if_false]
  exact run_popLoop_min (g3_ok h .edge trivial) htot (gen_ok_of_total hro htot hoob)
    (g3_len (pol := .edge) trivial) hd0 hd

/-- **C03 (3-D), volume id**: `volume_id_transac` (traversal over `β1, β0, β2`) returns the smallest
    dart of the volume cell, on every well-formed 3-map (open faces included) -/
theorem C03_volumeId3_min {m : Map X} (h : WF 4 m) {d : Nat} (hd0 : d ≠ 0) (hd : d < m.n) :
    run (volumeId3 (X := X) m.n d) m = (.ok (cellId3 m .volume d), m) ∧
    cellId3 m .volume d ∈ orb3 m .volume d ∧ ∀ x, x ∈ orb3 m .volume d → cellId3 m .volume d ≤ x := by
  refine ⟨?_, cellId3_spec h (pol := .volume) trivial hd0 hd⟩
  have hro : ∀ x, ReadOnly ((do let i1 ← rB 1 x; let i2 ← rB 0 x; let i3 ← rB 2 x; pure [i1, i2, i3]) :
      P X (List Nat)) :=
    fun x => ReadOnly.bind (ReadOnly.rB _ _) fun _ => ReadOnly.bind (ReadOnly.rB _ _) fun _ =>
      ReadOnly.bind (ReadOnly.rB _ _) fun _ => ReadOnly.pure _
  have htot : ∀ x, x < m.n →
      run ((do let i1 ← rB 1 x; let i2 ← rB 0 x; let i3 ← rB 2 x; pure [i1, i2, i3]) : P X (List Nat)) m
        = (.ok (g3 m .volume x), m) := by
    intro x hx
    simp only [g3, Prog.bind_eq, Prog.pure_eq, run_rB, run_ret, okb4 h (by omega : 1 < 4) hx,
      okb4 h (by omega : 0 < 4) hx, okb4 h (by omega : 2 < 4) hx, if_true]
  have hoob : ∀ x, m.n ≤ x →
      (run ((do let i1 ← rB 1 x; let i2 ← rB 0 x; let i3 ← rB 2 x; pure [i1, i2, i3]) : P X (List Nat)) m).1
        = .panic := by
    intro x hx
    simp only [Prog.bind_eq, Prog.pure_eq, run_rB, okb4_false h hx, Bool.false_eq_true, if_false]
  exact run_popLoop_min (g3_ok h .volume trivial) htot (gen_ok_of_total hro htot hoob)
    (g3_len (pol := .volume) trivial) hd0 hd

/-- **C03 (3-D), equal ids ⇔ same cell** (Vertex, Edge, Face, Volume; every well-formed 3-map): two
    non-null existing darts have the same cell minimum exactly when one is reachable from the other,
    i.e. when they lie in the same cell.  (The minimum is what `vertex_id` / `edge_id` / `volume_id`
    return — `C03_*Id3_min` — and what `face_id` returns in the scope of `C03_faceId3_min`.) -/
theorem C03_same_id3_iff_same_cell {m : Map X} (h : WF 4 m) {pol : Policy} (hs : Sym3 pol) {d e : Nat}
    (hd0 : d ≠ 0) (hd : d < m.n) (he0 : e ≠ 0) (he : e < m.n) :
    (cellId3 m pol d = cellId3 m pol e ↔ Reach (g3 m pol) d e) ∧
    (cellId3 m pol d = cellId3 m pol e ↔ SameCell (g3 m pol) m.n d e) :=
  cidG_eq_iff (g3_ok h pol hs.ok) (C03_images3_inverse_closed h hs) hd0 hd he0 he

/-! ## iterators: vertices, edges, volumes (every well-formed 3-map) -/

theorem mem_iterCells3 {m : Map X} (h : WF 4 m) {pol : Policy} (hs : Sym3 pol) {idf : Nat → P X Nat}
    (hid : ∀ d, d ≠ 0 → d < m.n → m.unused d = false → run (idf d) m = (.ok (cellId3 m pol d), m))
    (x : Nat) :
    x ∈ iterCells m idf ↔ ∃ d, d ≠ 0 ∧ d < m.n ∧ m.unused d = false ∧ cellId3 m pol d = x :=
  mem_iterCells_gen (g3_ok h pol hs.ok) (C03_images3_inverse_closed h hs) hid
    (fun d hd0 hd hu => C03_orbit3_of_in_use_is_in_use h hs.ok hd0 hd hu) x

/-- **C03 (3-D), iterators are strictly increasing** (hence duplicate-free) -/
theorem C03_iter3_sorted (m : Map X) :
    (iterVertices3 m).Pairwise (fun a b => a < b) ∧ (iterEdges3 m).Pairwise (fun a b => a < b) ∧
    (iterFaces3 m).Pairwise (fun a b => a < b) ∧ (iterVolumes3 m).Pairwise (fun a b => a < b) :=
  ⟨iterCells_sorted _ _, iterCells_sorted _ _, iterCells_sorted _ _, iterCells_sorted _ _⟩

/-- **C03 (3-D), `iter_vertices`** yields exactly the vertex identifiers of the in-use darts -/
theorem C03_iterVertices3_mem {m : Map X} (h : WF 4 m) (x : Nat) :
    x ∈ iterVertices3 m ↔ ∃ d, d ≠ 0 ∧ d < m.n ∧ m.unused d = false ∧ cellId3 m .vertex d = x :=
  mem_iterCells3 h (pol := .vertex) trivial (fun _ hd0 hd _ => (C03_vertexId3_min h hd0 hd).1) x

/-- **C03 (3-D), `iter_edges`** yields exactly the edge identifiers of the in-use darts -/
theorem C03_iterEdges3_mem {m : Map X} (h : WF 4 m) (x : Nat) :
    x ∈ iterEdges3 m ↔ ∃ d, d ≠ 0 ∧ d < m.n ∧ m.unused d = false ∧ cellId3 m .edge d = x :=
  mem_iterCells3 h (pol := .edge) trivial (fun _ hd0 hd _ => (C03_edgeId3_min h hd0 hd).1) x

/-- **C03 (3-D), `iter_volumes`** yields exactly the volume identifiers of the in-use darts -/
theorem C03_iterVolumes3_mem {m : Map X} (h : WF 4 m) (x : Nat) :
    x ∈ iterVolumes3 m ↔ ∃ d, d ≠ 0 ∧ d < m.n ∧ m.unused d = false ∧ cellId3 m .volume d = x :=
  mem_iterCells3 h (pol := .volume) trivial (fun _ hd0 hd _ => (C03_volumeId3_min h hd0 hd).1) x

/-! ## one-directional policies on closed cells -/

/-- the full policy of a one-directional one -/
def fullOf : Policy → Policy
  | .vertexLinear => .vertex
  | .faceLinear => .face
  | .volumeLinear => .volume
  | p => p

/-- the one-directional generators of a linear policy (those whose inverse the policy leaves out;
    `β2` and `β3` alone are their own inverses) -/
def oneWay (m : Map X) : Policy → List (Nat → Nat)
  | .vertexLinear => [fun x => m.β 3 (m.β 2 x), fun x => m.β 1 (m.β 3 x), fun x => m.β 1 (m.β 2 x)]
  | .faceLinear => [m.β 1]
  | .volumeLinear => [m.β 1]
  | _ => []

/-- the cell is closed for the linear policy: each one-directional generator is defined on every
    dart of the (full) cell, or on none -/
def LinClosed (m : Map X) (pol : Policy) (d : Nat) : Prop :=
  ∀ f, f ∈ oneWay m pol →
    (∀ x, x ∈ orb3 m (fullOf pol) d → f x ≠ 0) ∨ (∀ x, x ∈ orb3 m (fullOf pol) d → f x = 0)

instance (m : Map X) (pol : Policy) (d : Nat) : Decidable (LinClosed m pol d) := by
  unfold LinClosed; exact inferInstance

def Lin3 : Policy → Prop
  | .vertexLinear => True
  | .faceLinear => True
  | .volumeLinear => True
  | _ => False

/-- **C03 (3-D), linear policies on closed cells**: for VertexLinear, FaceLinear and VolumeLinear, if
    every one-directional generator (`β3∘β2, β1∘β3, β1∘β2` resp. `β1`) is defined on all darts of the
    cell or on none (e.g. `β1` on a closed face; `β1∘β3` on a vertex without any 3-link), the orbit has
    the same darts as the orbit of the full policy — the cell -/
theorem C03_linear3_closed {m : Map X} (h : WF 4 m) {pol : Policy} (hl : Lin3 pol) {d : Nat}
    (hd0 : d ≠ 0) (hd : d < m.n) (hcl : LinClosed m pol d) (x : Nat) :
    x ∈ orb3 m pol d ↔ x ∈ orb3 m (fullOf pol) d := by
  have r : ∀ i, i < 4 → ∀ y, y < m.n → m.β i y < m.n := fun i hi y hy => h.range i hi y hy
  have bij := fun {i j a b : Nat} (hi2 : 2 ≤ i) (hi : i < 4) (hj2 : 2 ≤ j) (hj : j < 4) =>
    Cell3.back_ij (m := m) h (i := i) (j := j) (a := a) (b := b) hi2 hi hj2 hj
  cases pol with
  | vertex => exact hl.elim
  | edge => exact hl.elim
  | face => exact hl.elim
  | volume => exact hl.elim
  | custom bs => exact hl.elim
  | faceLinear =>
      rw [mem_orb3 h (pol := .faceLinear) trivial hd0 hd]
      show _ ↔ x ∈ orb3 m .face d
      rw [mem_orb3 h (pol := .face) trivial hd0 hd]
      have key := linear_reach_iff_gen (gl := g3 m .faceLinear) (gf := g3 m .face)
        (P := [(m.β 1, m.β 0)]) (g3_ok h .faceLinear trivial) (g3_ok h .face trivial)
        (by intro a b hb; simp only [g3, List.mem_cons, List.not_mem_nil, or_false] at hb ⊢
            rcases hb with hb | hb
            · exact Or.inl hb
            · exact Or.inr (Or.inr hb))
        (by intro p hp a; simp only [List.mem_singleton] at hp; subst hp; simp [g3])
        (by intro a b hb; simp only [g3, List.mem_cons, List.not_mem_nil, or_false] at hb ⊢
            rcases hb with hb | hb | hb
            · exact Or.inl (Or.inl hb)
            · exact Or.inr ⟨(m.β 1, m.β 0), rfl, hb⟩
            · exact Or.inl (Or.inr hb))
        (by intro p hp a ha hne; simp only [List.mem_singleton] at hp; subst hp; exact h.inv01 a ha hne)
        (by intro p hp a ha hne; simp only [List.mem_singleton] at hp; subst hp; exact h.inv10 a ha hne)
        hd0 hd
        (by intro p hp; simp only [List.mem_singleton] at hp; subst hp
            rcases hcl (m.β 1) (by simp [oneWay]) with hh | hh
            · exact Or.inl fun y hy0 hy => hh y ((mem_orb3 h (pol := .face) trivial hd0 hd y).2 ⟨hy0, hy⟩)
            · exact Or.inr fun y hy0 hy => hh y ((mem_orb3 h (pol := .face) trivial hd0 hd y).2 ⟨hy0, hy⟩))
      constructor
      · rintro ⟨hx0, hx⟩; exact ⟨hx0, (key x hx0).2 hx⟩
      · rintro ⟨hx0, hx⟩; exact ⟨hx0, (key x hx0).1 hx⟩
  | volumeLinear =>
      rw [mem_orb3 h (pol := .volumeLinear) trivial hd0 hd]
      show _ ↔ x ∈ orb3 m .volume d
      rw [mem_orb3 h (pol := .volume) trivial hd0 hd]
      have key := linear_reach_iff_gen (gl := g3 m .volumeLinear) (gf := g3 m .volume)
        (P := [(m.β 1, m.β 0)]) (g3_ok h .volumeLinear trivial) (g3_ok h .volume trivial)
        (by intro a b hb; simp only [g3, List.mem_cons, List.not_mem_nil, or_false] at hb ⊢
            rcases hb with hb | hb
            · exact Or.inl hb
            · exact Or.inr (Or.inr hb))
        (by intro p hp a; simp only [List.mem_singleton] at hp; subst hp; simp [g3])
        (by intro a b hb; simp only [g3, List.mem_cons, List.not_mem_nil, or_false] at hb ⊢
            rcases hb with hb | hb | hb
            · exact Or.inl (Or.inl hb)
            · exact Or.inr ⟨(m.β 1, m.β 0), rfl, hb⟩
            · exact Or.inl (Or.inr hb))
        (by intro p hp a ha hne; simp only [List.mem_singleton] at hp; subst hp; exact h.inv01 a ha hne)
        (by intro p hp a ha hne; simp only [List.mem_singleton] at hp; subst hp; exact h.inv10 a ha hne)
        hd0 hd
        (by intro p hp; simp only [List.mem_singleton] at hp; subst hp
            rcases hcl (m.β 1) (by simp [oneWay]) with hh | hh
            · exact Or.inl fun y hy0 hy => hh y ((mem_orb3 h (pol := .volume) trivial hd0 hd y).2 ⟨hy0, hy⟩)
            · exact Or.inr fun y hy0 hy => hh y ((mem_orb3 h (pol := .volume) trivial hd0 hd y).2 ⟨hy0, hy⟩))
      constructor
      · rintro ⟨hx0, hx⟩; exact ⟨hx0, (key x hx0).2 hx⟩
      · rintro ⟨hx0, hx⟩; exact ⟨hx0, (key x hx0).1 hx⟩
  | vertexLinear =>
      rw [mem_orb3 h (pol := .vertexLinear) trivial hd0 hd]
      show _ ↔ x ∈ orb3 m .vertex d
      rw [mem_orb3 h (pol := .vertex) trivial hd0 hd]
      have key := linear_reach_iff_gen (gl := g3 m .vertexLinear) (gf := g3 m .vertex)
        (P := [(fun x => m.β 3 (m.β 2 x), fun x => m.β 2 (m.β 3 x)),
               (fun x => m.β 1 (m.β 3 x), fun x => m.β 3 (m.β 0 x)),
               (fun x => m.β 1 (m.β 2 x), fun x => m.β 2 (m.β 0 x))])
        (g3_ok h .vertexLinear trivial) (g3_ok h .vertex trivial)
        (by intro a b hb; simp only [g3, List.mem_cons, List.not_mem_nil, or_false] at hb ⊢
            rcases hb with hb | hb | hb
            · exact Or.inl hb
            · exact Or.inr (Or.inl hb)
            · exact Or.inr (Or.inr (Or.inl hb)))
        (by intro p hp a
            simp only [List.mem_cons, List.not_mem_nil, or_false] at hp
            rcases hp with rfl | rfl | rfl <;> simp [g3])
        (by intro a b hb; simp only [g3, List.mem_cons, List.not_mem_nil, or_false] at hb
            rcases hb with hb | hb | hb | hb | hb | hb
            · exact Or.inl (by simp [g3, hb])
            · exact Or.inl (by simp [g3, hb])
            · exact Or.inl (by simp [g3, hb])
            · exact Or.inr ⟨_, List.mem_cons_of_mem _ List.mem_cons_self, hb⟩
            · exact Or.inr ⟨_, List.mem_cons_of_mem _ (List.mem_cons_of_mem _ List.mem_cons_self), hb⟩
            · exact Or.inr ⟨_, List.mem_cons_self, hb⟩)
        (by intro p hp a ha hne
            simp only [List.mem_cons, List.not_mem_nil, or_false] at hp
            rcases hp with rfl | rfl | rfl
            · exact (Cell3.back_ij h (by omega) (by omega) (by omega) (by omega) ha hne rfl).symm
            · exact (Cell3.back_1i h (by omega) (by omega) ha hne rfl).symm
            · exact (Cell3.back_1i h (by omega) (by omega) ha hne rfl).symm)
        (by intro p hp a ha hne
            simp only [List.mem_cons, List.not_mem_nil, or_false] at hp
            rcases hp with rfl | rfl | rfl
            · exact (Cell3.back_ij h (by omega) (by omega) (by omega) (by omega) ha hne rfl).symm
            · exact (Cell3.back_i0 h (by omega) (by omega) ha hne rfl).symm
            · exact (Cell3.back_i0 h (by omega) (by omega) ha hne rfl).symm)
        hd0 hd
        (by intro p hp
            simp only [List.mem_cons, List.not_mem_nil, or_false] at hp
            have hmem : p.1 ∈ oneWay m .vertexLinear := by
              rcases hp with rfl | rfl | rfl <;> simp [oneWay]
            rcases hcl p.1 hmem with hh | hh
            · exact Or.inl fun y hy0 hy => hh y ((mem_orb3 h (pol := .vertex) trivial hd0 hd y).2 ⟨hy0, hy⟩)
            · exact Or.inr fun y hy0 hy => hh y ((mem_orb3 h (pol := .vertex) trivial hd0 hd y).2 ⟨hy0, hy⟩))
      constructor
      · rintro ⟨hx0, hx⟩; exact ⟨hx0, (key x hx0).2 hx⟩
      · rintro ⟨hx0, hx⟩; exact ⟨hx0, (key x hx0).1 hx⟩

/-! ## transactional variants = plain variants

  As in 2-D: `vertex_id(d)` is `atomically(|t| self.vertex_id_transac(t, d))` (same for the other
  identifiers) and `orbit` re-implements `orbit_transac` on committed values; in the model both are
  the same `P X` program.  The programs are read-only, so running them as their own transaction
  (sequentially or through the transaction log, T1) gives what the closure gives inside a transaction
  and publishes nothing.  (That the Rust `orbit` iterator computes what `orbit_transac` computes is a
  fact about the code, checked by the correspondence run.) -/

theorem readOnly_gen3 (pol : Policy) (d : Nat) : ReadOnly (gen3 (X := X) pol d) := by
  cases pol with
  | custom bs => exact readOnly_gen3_custom bs d
  | vertex =>
      unfold gen3
      exact ReadOnly.bind (ReadOnly.rB _ _) fun _ => ReadOnly.bind (ReadOnly.rB _ _) fun _ =>
        ReadOnly.bind (ReadOnly.rB _ _) fun _ => ReadOnly.bind (ReadOnly.rB _ _) fun _ =>
        ReadOnly.bind (ReadOnly.rB _ _) fun _ => ReadOnly.bind (ReadOnly.rB _ _) fun _ =>
        ReadOnly.bind (ReadOnly.rB _ _) fun _ => ReadOnly.bind (ReadOnly.rB _ _) fun _ =>
        ReadOnly.bind (ReadOnly.rB _ _) fun _ => ReadOnly.pure _
  | vertexLinear =>
      unfold gen3
      exact ReadOnly.bind (ReadOnly.rB _ _) fun _ => ReadOnly.bind (ReadOnly.rB _ _) fun _ =>
        ReadOnly.bind (ReadOnly.rB _ _) fun _ => ReadOnly.bind (ReadOnly.rB _ _) fun _ =>
        ReadOnly.bind (ReadOnly.rB _ _) fun _ => ReadOnly.pure _
  | edge =>
      unfold gen3
      exact ReadOnly.bind (ReadOnly.rB _ _) fun _ => ReadOnly.bind (ReadOnly.rB _ _) fun _ => ReadOnly.pure _
  | face =>
      unfold gen3
      exact ReadOnly.bind (ReadOnly.rB _ _) fun _ => ReadOnly.bind (ReadOnly.rB _ _) fun _ =>
        ReadOnly.bind (ReadOnly.rB _ _) fun _ => ReadOnly.pure _
  | faceLinear =>
      unfold gen3
      exact ReadOnly.bind (ReadOnly.rB _ _) fun _ => ReadOnly.bind (ReadOnly.rB _ _) fun _ => ReadOnly.pure _
  | volume =>
      unfold gen3
      exact ReadOnly.bind (ReadOnly.rB _ _) fun _ => ReadOnly.bind (ReadOnly.rB _ _) fun _ =>
        ReadOnly.bind (ReadOnly.rB _ _) fun _ => ReadOnly.pure _
  | volumeLinear =>
      unfold gen3
      exact ReadOnly.bind (ReadOnly.rB _ _) fun _ => ReadOnly.bind (ReadOnly.rB _ _) fun _ => ReadOnly.pure _

theorem readOnly_orbit3 (n : Nat) (pol : Policy) (d : Nat) : ReadOnly (orbit3 (X := X) n pol d) :=
  readOnly_bfs _ (readOnly_gen3 pol) _ _ _ _

theorem readOnly_faceWalk3 (i j : Nat) : ∀ fuel lb rb marked mn,
    ReadOnly (faceWalk3 (X := X) i j fuel lb rb marked mn) := by
  intro fuel
  induction fuel with
  | zero => intro lb rb mk mn; unfold faceWalk3; exact ReadOnly.panic
  | succ f ih =>
      intro lb rb mk mn
      unfold faceWalk3
      simp only []
      refine ReadOnly.ite ?_ (ReadOnly.ite ?_ (ReadOnly.pure _))
      · exact ReadOnly.bind (ReadOnly.rB _ _) fun _ => ReadOnly.bind (ReadOnly.rB _ _) fun _ => ih _ _ _ _
      · exact ReadOnly.bind (ReadOnly.rB _ _) fun _ => ReadOnly.bind (ReadOnly.rB _ _) fun _ => ih _ _ _ _

theorem readOnly_faceId3 (n d : Nat) : ReadOnly (faceId3 (X := X) n d) := by
  unfold faceId3
  refine ReadOnly.bind (ReadOnly.rB _ _) fun b3 => ?_
  refine ReadOnly.bind (readOnly_faceWalk3 _ _ _ _ _ _ _) fun r => ?_
  obtain ⟨lb, rb, mk, mn⟩ := r
  refine ReadOnly.ite ?_ (ReadOnly.pure _)
  refine ReadOnly.bind (ReadOnly.rB _ _) fun _ => ReadOnly.bind (ReadOnly.rB _ _) fun _ => ?_
  refine ReadOnly.bind (readOnly_faceWalk3 _ _ _ _ _ _ _) fun r2 => ?_
  obtain ⟨_, _, _, mn'⟩ := r2
  exact ReadOnly.pure _

theorem plain_eq {α : Type} {p : P X α} (hp : ReadOnly p) (m : Map X) :
    atomically p m = run p m ∧ atomicallyLog p m = run p m :=
  ⟨atomically_readOnly hp m, by rw [T1_atomicallyLog_eq]; exact atomically_readOnly hp m⟩

/-- **C03 (3-D), transactional = plain** (model-level content, see the comment above) -/
theorem C03_transactional3_eq_plain (m : Map X) (pol : Policy) (d : Nat) :
    (atomically (orbit3 (X := X) m.n pol d) m = run (orbit3 (X := X) m.n pol d) m ∧
     atomicallyLog (orbit3 (X := X) m.n pol d) m = run (orbit3 (X := X) m.n pol d) m) ∧
    (atomically (vertexId3 (X := X) m.n d) m = run (vertexId3 (X := X) m.n d) m ∧
     atomicallyLog (vertexId3 (X := X) m.n d) m = run (vertexId3 (X := X) m.n d) m) ∧
    (atomically (edgeId3 (X := X) m.n d) m = run (edgeId3 (X := X) m.n d) m ∧
     atomicallyLog (edgeId3 (X := X) m.n d) m = run (edgeId3 (X := X) m.n d) m) ∧
    (atomically (faceId3 (X := X) m.n d) m = run (faceId3 (X := X) m.n d) m ∧
     atomicallyLog (faceId3 (X := X) m.n d) m = run (faceId3 (X := X) m.n d) m) ∧
    (atomically (volumeId3 (X := X) m.n d) m = run (volumeId3 (X := X) m.n d) m ∧
     atomicallyLog (volumeId3 (X := X) m.n d) m = run (volumeId3 (X := X) m.n d) m) :=
  ⟨plain_eq (readOnly_orbit3 _ _ _) m, plain_eq (readOnly_vertexId3 _ _) m,
   plain_eq (readOnly_edgeId3 _ _) m, plain_eq (readOnly_faceId3 _ _) m,
   plain_eq (readOnly_volumeId3 _ _) m⟩

/-- … in particular on well-formed 3-maps the plain identifiers are the cell minima, too -/
theorem C03_plain_ids3 {m : Map X} (h : WF 4 m) {d : Nat} (hd0 : d ≠ 0) (hd : d < m.n) :
    atomicallyLog (vertexId3 (X := X) m.n d) m = (.ok (cellId3 m .vertex d), m) ∧
    atomicallyLog (edgeId3 (X := X) m.n d) m = (.ok (cellId3 m .edge d), m) ∧
    atomicallyLog (volumeId3 (X := X) m.n d) m = (.ok (cellId3 m .volume d), m) := by
  obtain ⟨_, ⟨_, hv⟩, ⟨_, he⟩, _, ⟨_, hvol⟩⟩ := C03_transactional3_eq_plain m .vertex d
  rw [hv, he, hvol]
  exact ⟨(C03_vertexId3_min h hd0 hd).1, (C03_edgeId3_min h hd0 hd).1, (C03_volumeId3_min h hd0 hd).1⟩

/-! ## face identifier: the two-sided lock-step walk

  Scope, as two decidable conditions on the map (`FaceScope`):
  * `mirror` — `Mirror m` of Model/WF.lean: across a 3-link, `β1` on one side is `β0` on the other;
  * `sided`  — a face is 3-linked as a whole: along `β1`, a dart is 3-free iff its successor is.
  The property claims the face clauses on maps whose glued faces are CLOSED and mirrored; closedness turns
  out not to be needed (since the repair of the backward replay in /repo): on an open mirrored face both
  sides of the forward walk end together (`mirror_fwd`), the replay starts from `β0 d` and `β1 (β3 d)`,
  which are β3-images of each other (`mirror_bwd`), and covers the rest.  Faces that are NOT 3-linked are
  unrestricted, open or closed (`faceId3_free`).
  `mirror` and `sided` cannot be dropped; smallest counterexamples on the real code (4 darts):
  * not `sided`:  chains `3→1`, `4→2`, 3-link `3—4` only: `face_id(2) = 2`, the cell is `{1,2,3,4}`;
  * not `mirror`: 1-gons `1→1`, `2→2`, 2-gon `3→4→3`, 3-links `1—3`, `2—4`: `face_id(2) = 2`, cell `{1,2,3,4}`. -/

/-- the scope of the face-identifier clauses -/
structure FaceScope (m : Map X) : Prop where
  mirror : Mirror m
  sided : ∀ d, d < m.n → m.β 1 d ≠ 0 → (m.β 3 d = 0 ↔ m.β 3 (m.β 1 d) = 0)

instance (m : Map X) : Decidable (FaceScope m) :=
  decidable_of_iff (Mirror m ∧ (∀ d, d < m.n → m.β 1 d ≠ 0 → (m.β 3 d = 0 ↔ m.β 3 (m.β 1 d) = 0)))
    ⟨fun ⟨a, b⟩ => ⟨a, b⟩, fun ⟨a, b⟩ => ⟨a, b⟩⟩

/-- the hypotheses of Props/C20b.lean (all faces closed, mirrored, 3-linked as a whole) are a special case -/
theorem FaceScope.of_closedFaces {m : Map X} (hM : Mirror m) (hs : C20.Sided m) : FaceScope m := ⟨hM, hs⟩

theorem face_b1 (m : Map X) (y : Nat) : m.β 1 y ∈ g3 m .face y := by simp [g3]
theorem face_b0 (m : Map X) (y : Nat) : m.β 0 y ∈ g3 m .face y := by simp [g3]
theorem face_b3 (m : Map X) (y : Nat) : m.β 3 y ∈ g3 m .face y := by simp [g3]

/-- a 3-free dart: the forward walk, then the backward replay, cover the whole (3-free) face -/
theorem faceId3_free {m : Map X} (h : WF 4 m) (hS : FaceScope m) {d : Nat} (hd0 : d ≠ 0) (hd : d < m.n)
    (h3 : m.β 3 d = 0) :
    ∃ v, run (faceId3 (X := X) m.n d) m = (.ok v, m) ∧ (v ≠ 0 ∧ Reach (g3 m .face) d v) ∧
      ∀ x, x ≠ 0 → Reach (g3 m .face) d x → v ≤ x := by
  have r1 : ∀ x, x < m.n → m.β 1 x < m.n := h.range 1 (by omega)
  have r0 : ∀ x, x < m.n → m.β 0 x < m.n := h.range 0 (by omega)
  have r3 : ∀ x, x < m.n → m.β 3 x < m.n := h.range 3 (by omega)
  have z1 : m.β 1 0 = 0 := h.null 1 (by omega)
  have z0 : m.β 0 0 = 0 := h.null 0 (by omega)
  have hQ1 : ∀ x, x < m.n → m.β 3 x = 0 → m.β 1 x ≠ 0 → m.β 3 (m.β 1 x) = 0 :=
    fun x hx q hne => (hS.sided x hx hne).1 q
  have hQ0 : ∀ x, x < m.n → m.β 3 x = 0 → m.β 0 x ≠ 0 → m.β 3 (m.β 0 x) = 0 := by
    intro x hx q hne
    have e := h.inv10 x hx hne
    have hx0 : x ≠ 0 := fun k => hne (by rw [k]; exact z0)
    exact (hS.sided (m.β 0 x) (r0 x hx) (by rw [e]; exact hx0)).2 (by rw [e]; exact q)
  -- the forward walk
  obtain ⟨⟨lbF, rbF, mkF, mnF⟩, hr1⟩ := Face3.fw_terminates r1 r0 (m.n + 1) d (m.β 3 d) [0]
    (if m.β 3 d = 0 then d else min d (m.β 3 d)) hd (r3 d hd)
    (by have := Face3.phi_le (n := m.n) (marked := [0]) h.npos (by simp); omega)
  have hr1' := hr1
  rw [if_pos h3, h3] at hr1'
  have I0 : Face3.OneInv (m.β 1) (m.β 0) (fun x => m.β 3 x = 0) m.n d d d [0] d :=
    ⟨by simp, fun x hx hx0 => absurd (by simpa using hx) hx0,
      fun x hx hx0 => absurd (by simpa using hx) hx0, Or.inl rfl,
      fun x hx hx0 => absurd (by simpa using hx) hx0, ⟨hd, fun _ => ⟨Nat.le_refl _, h3⟩⟩, Or.inr rfl⟩
  obtain ⟨IF, hlbF, hrbF⟩ := Face3.fw_oneSided (f0 := m.β 0) z0 r1 (fun x hx hne => h.inv01 x hx hne)
    hQ1 I0 hr1'
  have hdF : d ∈ mkF := by
    rcases IF.wm with k | k
    · exact k
    · rw [← k]; exact hlbF
  -- the backward replay
  have e13 : m.β 1 (m.β 3 d) = 0 := by rw [h3, z1]
  obtain ⟨⟨a, b, c, mn2⟩, hr2⟩ := Face3.fw_terminates (f1 := m.β 0) (f0 := m.β 1) r0 r1 (m.n + 1)
    (m.β 0 d) (m.β 1 (m.β 3 d)) mkF (Face3.upd mnF (m.β 0 d) (m.β 1 (m.β 3 d))) (r0 d hd)
    (r1 _ (r3 d hd))
    (by have := Face3.phi_le (n := m.n) (marked := mkF) h.npos IF.m0; omega)
  have hr2' := hr2
  rw [e13] at hr2'
  have hu := Face3.upd_le mnF (m.β 0 d) 0
  have IB0 : Face3.OneInv (m.β 0) (m.β 1) (fun x => m.β 3 x = 0) m.n 0 0 (m.β 0 d) mkF
      (Face3.upd mnF (m.β 0 d) 0) := by
    refine ⟨IF.m0, ?_, ?_, ?_, ?_, ⟨r0 d hd, ?_⟩, Or.inl IF.m0⟩
    · intro x hx hx0
      rcases IF.bwd x hx hx0 with k | k
      · exact Or.inr (by rw [k])
      · exact Or.inl k
    · intro x hx hx0
      right
      rcases IF.fwd x hx hx0 with k | k
      · exact k
      · rw [k]; exact hlbF
    · by_cases e : m.β 0 d = 0
      · exact Or.inl e
      · right; right; rw [h.inv10 d hd e]; exact hdF
    · intro x hx hx0
      obtain ⟨p, q, r⟩ := IF.mkd x hx hx0
      exact ⟨Nat.le_trans hu.1 p, q, r⟩
    · intro e; exact ⟨hu.2.1 e, hQ0 d hd h3 e⟩
  obtain ⟨IB, haB, hbB⟩ := Face3.fw_oneSided (f0 := m.β 1) z1 r0 (fun x hx hne => h.inv10 x hx hne)
    hQ0 IB0 hr2'
  have hrun := ((C20.run_faceId3 h hd hr1).2 (Or.inr hrbF)) a b c mn2 hr2
  -- the marked set is closed under β1, β0, β3 and contains `d`
  have hdc : d ∈ c := (Face3.fw_facts _ _ _ _ _ _ _ _ _ hr2').2.2.1 d hdF
  have hall : ∀ x, Reach (g3 m .face) d x → x ≠ 0 → x ∈ c := by
    intro x hx
    induction hx with
    | refl => intro _; exact hdc
    | tail hab hc ih =>
        rename_i b' c'
        intro hc0
        have hb0 : b' ≠ 0 := Reach.pred_ne_zero (g3_ok h .face trivial).null hc hc0
        have hbc := ih hb0
        simp only [g3, List.mem_cons, List.not_mem_nil, or_false] at hc
        rcases hc with e | e | e
        · rw [e]
          rcases IB.bwd b' hbc hb0 with k | k
          · exact absurd k hb0
          · exact k
        · rw [e]
          rcases IB.fwd b' hbc hb0 with k | k
          · exact k
          · rw [k]; exact haB
        · exfalso; exact hc0 (by rw [e]; exact (IB.mkd b' hbc hb0).2.1)
  refine ⟨mn2, hrun, ?_, fun x hx0 hx => (IB.mkd x (hall x hx hx0) hx0).1⟩
  -- the result is a dart of the face
  have memF : mnF ≠ 0 ∧ Reach (g3 m .face) d mnF := by
    rcases (Face3.fw_facts _ _ _ _ _ _ _ _ _ hr1').2.1 with e | ⟨e0, ⟨s, e⟩ | ⟨s, e⟩⟩
    · rw [e]; exact ⟨hd0, .refl _⟩
    · exact ⟨e0, by rw [e]; exact reach_iter (face_b1 m) d s⟩
    · rw [C20.iterate_fix0 z0] at e; exact absurd e e0
  have memU : Face3.upd mnF (m.β 0 d) 0 ≠ 0 ∧ Reach (g3 m .face) d (Face3.upd mnF (m.β 0 d) 0) := by
    rcases Face3.upd_mem mnF (m.β 0 d) 0 with e | ⟨e0, e⟩ | ⟨e0, _⟩
    · rw [e]; exact memF
    · rw [e]; exact ⟨e0, Reach.single (face_b0 m d)⟩
    · exact absurd rfl e0
  rcases (Face3.fw_facts _ _ _ _ _ _ _ _ _ hr2').2.1 with e | ⟨e0, ⟨s, e⟩ | ⟨s, e⟩⟩
  · rw [e]; exact memU
  · exact ⟨e0, by rw [e]; exact (Reach.single (face_b0 m d)).trans (reach_iter (face_b0 m) _ s)⟩
  · rw [C20.iterate_fix0 z1] at e; exact absurd e e0

theorem fw_mem {g : Nat → List Nat} {f1 f0 : Nat → Nat} (hg0 : ∀ y, y ∈ g 0 → y = 0)
    (hf1 : ∀ y, f1 y ∈ g y) (hf0 : ∀ y, f0 y ∈ g y) {d fuel lb rb : Nat} {marked : List Nat}
    {mn lbF rbF : Nat} {mkF : List Nat} {mnF : Nat}
    (hlb : lb ≠ 0 → Reach g d lb) (hrb : rb ≠ 0 → Reach g d rb)
    (h : Face3.fw f1 f0 fuel lb rb marked mn = some (lbF, rbF, mkF, mnF))
    (hmn : mn ≠ 0 ∧ Reach g d mn) : mnF ≠ 0 ∧ Reach g d mnF := by
  rcases (Face3.fw_facts _ _ _ _ _ _ _ _ _ h).2.1 with e | ⟨e0, ⟨s, e⟩ | ⟨s, e⟩⟩
  · rw [e]; exact hmn
  · refine ⟨e0, ?_⟩
    have hl0 : lb ≠ 0 := by
      intro k; rw [k, C20.iterate_fix0 (hg0 _ (hf1 0))] at e; exact e0 e
    rw [e]; exact (hlb hl0).trans (reach_iter hf1 lb s)
  · refine ⟨e0, ?_⟩
    have hr0 : rb ≠ 0 := by
      intro k; rw [k, C20.iterate_fix0 (hg0 _ (hf0 0))] at e; exact e0 e
    rw [e]; exact (hrb hr0).trans (reach_iter hf0 rb s)

/-- across a 3-link of a face in scope, `β0` on the other side follows `β1` on this side — also at the
    open end of a face: both sides end together -/
theorem mirror_fwd {m : Map X} (h : WF 4 m) (hS : FaceScope m) {x : Nat} (hx : x < m.n)
    (h3 : m.β 3 x ≠ 0) :
    m.β 0 (m.β 3 x) = m.β 3 (m.β 1 x) ∧ (m.β 1 x ≠ 0 → m.β 3 (m.β 1 x) ≠ 0) := by
  have z3 : m.β 3 0 = 0 := h.null 3 (by omega)
  have hx0 : x ≠ 0 := fun e => h3 (by rw [e]; exact z3)
  have hen : m.β 3 x < m.n := h.range 3 (by omega) x hx
  have hinv : m.β 3 (m.β 3 x) = x := (h.invol 3 (by omega) (by omega) x hx h3).1
  by_cases h1 : m.β 1 x = 0
  · refine ⟨?_, fun k => absurd h1 k⟩
    rw [h1, z3]
    by_contra ht
    have htn : m.β 0 (m.β 3 x) < m.n := h.range 0 (by omega) _ hen
    have e1 : m.β 1 (m.β 0 (m.β 3 x)) = m.β 3 x := h.inv10 _ hen ht
    have h3t : m.β 3 (m.β 0 (m.β 3 x)) ≠ 0 := by
      intro k
      have := (hS.sided _ htn (by rw [e1]; exact h3)).1 k
      rw [e1, hinv] at this; exact hx0 this
    have hM := hS.mirror _ htn (by rw [e1]; exact h3) h3t (by rw [e1, hinv]; exact hx0)
    rw [e1, hinv, h1] at hM
    exact h3t hM.symm
  · have h1n := h.range 1 (by omega) x hx
    have h31 : m.β 3 (m.β 1 x) ≠ 0 := fun e => h3 ((hS.sided x hx h1).2 e)
    have hM := hS.mirror x hx h1 h3 h31
    have := h.inv01 (m.β 3 (m.β 1 x)) (h.range 3 (by omega) _ h1n) (by rw [hM]; exact h3)
    rw [hM] at this
    exact ⟨this, fun _ => h31⟩

/-- … and `β1` on the other side follows `β0` on this side -/
theorem mirror_bwd {m : Map X} (h : WF 4 m) (hS : FaceScope m) {x : Nat} (hx : x < m.n)
    (h3 : m.β 3 x ≠ 0) :
    m.β 1 (m.β 3 x) = m.β 3 (m.β 0 x) ∧ (m.β 0 x ≠ 0 → m.β 3 (m.β 0 x) ≠ 0) := by
  have z3 : m.β 3 0 = 0 := h.null 3 (by omega)
  have hx0 : x ≠ 0 := fun e => h3 (by rw [e]; exact z3)
  have hen : m.β 3 x < m.n := h.range 3 (by omega) x hx
  have hinv : m.β 3 (m.β 3 x) = x := (h.invol 3 (by omega) (by omega) x hx h3).1
  by_cases h0 : m.β 0 x = 0
  · refine ⟨?_, fun k => absurd h0 k⟩
    rw [h0, z3]
    by_contra ht
    have htn : m.β 1 (m.β 3 x) < m.n := h.range 1 (by omega) _ hen
    have h3t : m.β 3 (m.β 1 (m.β 3 x)) ≠ 0 := by
      intro k
      have := (hS.sided _ hen ht).2 k
      rw [hinv] at this; exact hx0 this
    have hM := hS.mirror _ hen ht (by rw [hinv]; exact hx0) h3t
    rw [hinv] at hM
    have := h.inv01 _ (h.range 3 (by omega) _ htn) (by rw [hM]; exact hx0)
    rw [hM, h0] at this
    exact h3t this.symm
  · have hyn := h.range 0 (by omega) x hx
    have e1 : m.β 1 (m.β 0 x) = x := h.inv10 x hx h0
    have h3y : m.β 3 (m.β 0 x) ≠ 0 := by
      intro k
      have := (hS.sided _ hyn (by rw [e1]; exact hx0)).1 k
      rw [e1] at this; exact h3 this
    have hM := hS.mirror _ hyn (by rw [e1]; exact hx0) h3y (by rw [e1]; exact h3)
    rw [e1] at hM
    exact ⟨hM, fun _ => h3y⟩

/-- invariant of phase 1 of the forward two-sided walk on a 3-linked face -/
structure TInv (m : Map X) (d lb rb : Nat) (marked : List Nat) (mn : Nat) : Prop where
  m0 : 0 ∈ marked
  nd : marked.Nodup
  el : ∀ x, x ∈ marked → x ≠ 0 →
    ((m.β 1 x ∈ marked ∧ m.β 1 x ≠ 0) ∨ m.β 1 x = lb) ∧ (x = d ∨ (m.β 0 x ∈ marked ∧ m.β 0 x ≠ 0)) ∧
    x < m.n ∧ m.β 3 x ≠ 0 ∧ mn ≤ x ∧ mn ≤ m.β 3 x
  lbn : lb < m.n
  rbe : rb = m.β 3 lb
  lbp : lb ≠ 0 → m.β 3 lb ≠ 0 ∧ mn ≤ lb ∧ mn ≤ rb ∧ (lb = d ∨ (m.β 0 lb ∈ marked ∧ m.β 0 lb ≠ 0))
  dm : d ∈ marked ∨ lb = d

theorem TInv.step {m : Map X} (h : WF 4 m) (hS : FaceScope m) {d lb rb : Nat} {marked : List Nat}
    {mn : Nat} (I : TInv m d lb rb marked mn) (hnew : marked.contains lb = false) :
    TInv m d (m.β 1 lb) (m.β 0 rb) (marked ++ [lb]) (Face3.upd mn (m.β 1 lb) (m.β 0 rb)) := by
  have hlb : lb ∉ marked := by simpa using hnew
  have hlb0 : lb ≠ 0 := fun e => hlb (e ▸ I.m0)
  obtain ⟨hlb3, hmlb, hmrb, hpred⟩ := I.lbp hlb0
  obtain ⟨hmir, hmir2⟩ := mirror_fwd h hS I.lbn hlb3
  have hrb' : m.β 0 rb = m.β 3 (m.β 1 lb) := by rw [I.rbe]; exact hmir
  have hu := Face3.upd_le mn (m.β 1 lb) (m.β 0 rb)
  have hself : lb ∈ marked ++ [lb] := List.mem_append_right _ (List.mem_singleton.2 rfl)
  refine ⟨List.mem_append_left _ I.m0, ?_, ?_, h.range 1 (by omega) lb I.lbn, hrb', ?_, ?_⟩
  · exact List.nodup_append.2 ⟨I.nd, List.nodup_singleton _, fun a ha b hb e => hlb (by
      rw [List.mem_singleton.1 hb] at e; rw [← e]; exact ha)⟩
  · intro x hx hx0
    rcases List.mem_append.1 hx with hx | hx
    · obtain ⟨a, b, c, e, f, g⟩ := I.el x hx hx0
      refine ⟨?_, ?_, c, e, Nat.le_trans hu.1 f, Nat.le_trans hu.1 g⟩
      · rcases a with ⟨k, k0⟩ | k
        · exact Or.inl ⟨List.mem_append_left _ k, k0⟩
        · exact Or.inl ⟨by rw [k]; exact hself, by rw [k]; exact hlb0⟩
      · rcases b with k | ⟨k, k0⟩
        · exact Or.inl k
        · exact Or.inr ⟨List.mem_append_left _ k, k0⟩
    · rw [List.mem_singleton.1 hx]
      refine ⟨Or.inr rfl, ?_, I.lbn, hlb3, Nat.le_trans hu.1 hmlb, by rw [← I.rbe]; exact Nat.le_trans hu.1 hmrb⟩
      rcases hpred with k | ⟨k, k0⟩
      · exact Or.inl k
      · exact Or.inr ⟨List.mem_append_left _ k, k0⟩
  · intro h1
    refine ⟨hmir2 h1, hu.2.1 h1, hu.2.2 (by rw [hrb']; exact hmir2 h1), Or.inr ?_⟩
    rw [h.inv01 lb I.lbn h1]
    exact ⟨hself, hlb0⟩
  · rcases I.dm with k | k
    · exact Or.inl (List.mem_append_left _ k)
    · exact Or.inl (by rw [← k]; exact hself)

/-- the closure argument shared by the closed and the open case: a set `marked` of 3-linked darts,
    closed under `β1` and `β0` (null images allowed), containing `d`, covers with its β3-images the
    whole face of `d` -/
theorem face_cover {m : Map X} (h : WF 4 m) (hS : FaceScope m) {d : Nat} {marked : List Nat}
    (hdM : d ∈ marked) (h0 : 0 ∈ marked)
    (hcl : ∀ x, x ∈ marked → x ≠ 0 → m.β 1 x ∈ marked ∧ m.β 0 x ∈ marked ∧ x < m.n ∧ m.β 3 x ≠ 0) :
    ∀ x, Reach (g3 m .face) d x → x ≠ 0 →
      x ∈ marked ∨ ∃ y, y ∈ marked ∧ y ≠ 0 ∧ x = m.β 3 y := by
  have z3 : m.β 3 0 = 0 := h.null 3 (by omega)
  intro x hx
  induction hx with
  | refl => intro _; exact Or.inl hdM
  | tail hab hc ih =>
      rename_i b' c'
      intro hc0
      have hbz : b' ≠ 0 := Reach.pred_ne_zero (g3_ok h .face trivial).null hc hc0
      simp only [g3, List.mem_cons, List.not_mem_nil, or_false] at hc
      rcases ih hbz with hb | ⟨y, hy, hy0, e⟩
      · obtain ⟨a1, a0, _, _⟩ := hcl b' hb hbz
        rcases hc with k | k | k
        · rw [k]; exact Or.inl a1
        · rw [k]; exact Or.inl a0
        · exact Or.inr ⟨b', hb, hbz, k⟩
      · obtain ⟨a1, a0, yn, y3⟩ := hcl y hy hy0
        rcases hc with k | k | k
        · -- β1 (β3 y) = β3 (β0 y)
          have e2 : c' = m.β 3 (m.β 0 y) := by rw [k, e]; exact (mirror_bwd h hS yn y3).1
          have : m.β 0 y ≠ 0 := fun z => hc0 (by rw [e2, z]; exact z3)
          exact Or.inr ⟨m.β 0 y, a0, this, e2⟩
        · -- β0 (β3 y) = β3 (β1 y)
          have e2 : c' = m.β 3 (m.β 1 y) := by rw [k, e]; exact (mirror_fwd h hS yn y3).1
          have : m.β 1 y ≠ 0 := fun z => hc0 (by rw [e2, z]; exact z3)
          exact Or.inr ⟨m.β 1 y, a1, this, e2⟩
        · left
          rw [k, e, (h.invol 3 (by omega) (by omega) y yn y3).1]; exact hy

/-- phase 1 ended on a non-null left dart: the marked darts are a closed β1-cycle and, with their
    β3-images, the whole face -/
theorem TInv.bound {m : Map X} (h : WF 4 m) (hS : FaceScope m) {d lb rb : Nat} {marked : List Nat}
    {mn : Nat} (I : TInv m d lb rb marked mn) (hlb : lb ∈ marked) (hlb0 : lb ≠ 0) :
    (∀ x, x ≠ 0 → Reach (g3 m .face) d x → mn ≤ x) ∧
    ∀ s, (m.β 1)^[s] d ∈ marked ∧ ((m.β 1)^[s] d ≠ 0 ∨ d = 0) := by
  have memM : ∀ x, x ∈ marked.filter (fun x => decide (x ≠ 0)) ↔ x ∈ marked ∧ x ≠ 0 := by
    intro x; rw [List.mem_filter]; simp
  have hnd : (marked.filter (fun x => decide (x ≠ 0))).Nodup := I.nd.filter _
  have hstep : ∀ x, x ∈ marked → x ≠ 0 → m.β 1 x ∈ marked ∧ m.β 1 x ≠ 0 := by
    intro x hx hx0
    rcases (I.el x hx hx0).1 with k | k
    · exact k
    · rw [k]; exact ⟨hlb, hlb0⟩
  have hmap : ∀ x, x ∈ marked.filter (fun x => decide (x ≠ 0)) →
      m.β 1 x ∈ marked.filter (fun x => decide (x ≠ 0)) := by
    intro x hx
    obtain ⟨hx1, hx0⟩ := (memM x).1 hx
    exact (memM _).2 (hstep x hx1 hx0)
  have hinj : ∀ a b, a ∈ marked.filter (fun x => decide (x ≠ 0)) →
      b ∈ marked.filter (fun x => decide (x ≠ 0)) → m.β 1 a = m.β 1 b → a = b := by
    intro a b ha hb e
    obtain ⟨ha1, ha0⟩ := (memM a).1 ha
    obtain ⟨hb1, hb0⟩ := (memM b).1 hb
    have k1 := h.inv01 a (I.el a ha1 ha0).2.2.1 (hstep a ha1 ha0).2
    have k2 := h.inv01 b (I.el b hb1 hb0).2.2.1 (hstep b hb1 hb0).2
    rw [← k1, ← k2, e]
  have hsurj := surj_of_inj_on_list hnd hmap hinj
  have hb0 : ∀ x, x ∈ marked → x ≠ 0 → m.β 0 x ∈ marked := by
    intro x hx hx0
    obtain ⟨y, hy, e⟩ := hsurj x ((memM x).2 ⟨hx, hx0⟩)
    obtain ⟨hy1, hy0⟩ := (memM y).1 hy
    have : m.β 0 x = y := by rw [← e]; exact h.inv01 y (I.el y hy1 hy0).2.2.1 (by rw [e]; exact hx0)
    rw [this]; exact hy1
  have hdM : d ∈ marked := by
    rcases I.dm with k | k
    · exact k
    · rw [← k]; exact hlb
  constructor
  · have hall := face_cover h hS hdM I.m0 (fun x hx hx0 =>
      ⟨(hstep x hx hx0).1, hb0 x hx hx0, (I.el x hx hx0).2.2.1, (I.el x hx hx0).2.2.2.1⟩)
    intro x hx0 hx
    rcases hall x hx hx0 with hm | ⟨y, hy, hy0, e⟩
    · exact (I.el x hm hx0).2.2.2.2.1
    · rw [e]; exact (I.el y hy hy0).2.2.2.2.2
  · intro s
    by_cases hd0 : d = 0
    · refine ⟨?_, Or.inr hd0⟩
      rw [hd0, C20.iterate_fix0 (h.null 1 (by omega))]; exact I.m0
    · induction s with
      | zero => exact ⟨hdM, Or.inl hd0⟩
      | succ s ih =>
          rw [Function.iterate_succ_apply']
          rcases ih.2 with k | k
          · exact ⟨(hstep _ ih.1 k).1, Or.inl (hstep _ ih.1 k).2⟩
          · exact absurd k hd0

/-- invariant of phase 1 of the backward two-sided walk on an open 3-linked face -/
structure BInv (m : Map X) (d lb rb : Nat) (marked : List Nat) (mn : Nat) : Prop where
  m0 : 0 ∈ marked
  dmem : d ∈ marked
  el : ∀ x, x ∈ marked → x ≠ 0 →
    (m.β 0 x ∈ marked ∨ m.β 0 x = lb) ∧ m.β 1 x ∈ marked ∧ x < m.n ∧ m.β 3 x ≠ 0 ∧ mn ≤ x ∧ mn ≤ m.β 3 x
  lbn : lb < m.n
  rbe : rb = m.β 3 lb
  lbp : lb ≠ 0 → m.β 3 lb ≠ 0 ∧ mn ≤ lb ∧ mn ≤ rb ∧ m.β 1 lb ∈ marked

theorem BInv.step {m : Map X} (h : WF 4 m) (hS : FaceScope m) {d lb rb : Nat} {marked : List Nat}
    {mn : Nat} (I : BInv m d lb rb marked mn) (hnew : marked.contains lb = false) :
    BInv m d (m.β 0 lb) (m.β 1 rb) (marked ++ [lb]) (Face3.upd mn (m.β 0 lb) (m.β 1 rb)) := by
  have hlb : lb ∉ marked := by simpa using hnew
  have hlb0 : lb ≠ 0 := fun e => hlb (e ▸ I.m0)
  obtain ⟨hlb3, hmlb, hmrb, hsucc⟩ := I.lbp hlb0
  obtain ⟨hmir, hmir2⟩ := mirror_bwd h hS I.lbn hlb3
  have hrb' : m.β 1 rb = m.β 3 (m.β 0 lb) := by rw [I.rbe]; exact hmir
  have hu := Face3.upd_le mn (m.β 0 lb) (m.β 1 rb)
  have hself : lb ∈ marked ++ [lb] := List.mem_append_right _ (List.mem_singleton.2 rfl)
  refine ⟨List.mem_append_left _ I.m0, List.mem_append_left _ I.dmem, ?_,
    h.range 0 (by omega) lb I.lbn, hrb', ?_⟩
  · intro x hx hx0
    rcases List.mem_append.1 hx with hx | hx
    · obtain ⟨a, b, c, e, f, g⟩ := I.el x hx hx0
      refine ⟨?_, List.mem_append_left _ b, c, e, Nat.le_trans hu.1 f, Nat.le_trans hu.1 g⟩
      rcases a with k | k
      · exact Or.inl (List.mem_append_left _ k)
      · exact Or.inl (by rw [k]; exact hself)
    · rw [List.mem_singleton.1 hx]
      exact ⟨Or.inr rfl, List.mem_append_left _ hsucc, I.lbn, hlb3, Nat.le_trans hu.1 hmlb,
        by rw [← I.rbe]; exact Nat.le_trans hu.1 hmrb⟩
  · intro h0
    refine ⟨hmir2 h0, hu.2.1 h0, hu.2.2 (by rw [hrb']; exact hmir2 h0), ?_⟩
    rw [h.inv10 lb I.lbn h0]
    exact hself

/-- the backward phase ended: the marked darts are the whole open β1-chain and, with their β3-images,
    the whole face -/
theorem BInv.bound {m : Map X} (h : WF 4 m) (hS : FaceScope m) {d lb rb : Nat} {marked : List Nat}
    {mn : Nat} (I : BInv m d lb rb marked mn) (hlb : lb ∈ marked) :
    ∀ x, x ≠ 0 → Reach (g3 m .face) d x → mn ≤ x := by
  have hall := face_cover h hS I.dmem I.m0 (fun x hx hx0 => by
    obtain ⟨a, b, c, e, _, _⟩ := I.el x hx hx0
    refine ⟨b, ?_, c, e⟩
    rcases a with k | k
    · exact k
    · rw [k]; exact hlb)
  intro x hx0 hx
  rcases hall x hx hx0 with hm | ⟨y, hy, hy0, e⟩
  · exact (I.el x hm hx0).2.2.2.2.1
  · rw [e]; exact (I.el y hy hy0).2.2.2.2.2

/-- a 3-linked dart of a face in scope: the forward walk covers both sides of a closed face; on an open
    face both sides end together and the backward replay covers the rest -/
theorem faceId3_glued {m : Map X} (h : WF 4 m) (hS : FaceScope m) {d : Nat} (hd0 : d ≠ 0) (hd : d < m.n)
    (h3 : m.β 3 d ≠ 0) :
    ∃ v, run (faceId3 (X := X) m.n d) m = (.ok v, m) ∧ (v ≠ 0 ∧ Reach (g3 m .face) d v) ∧
      ∀ x, x ≠ 0 → Reach (g3 m .face) d x → v ≤ x := by
  have r1 : ∀ x, x < m.n → m.β 1 x < m.n := h.range 1 (by omega)
  have r0 : ∀ x, x < m.n → m.β 0 x < m.n := h.range 0 (by omega)
  have r3 : ∀ x, x < m.n → m.β 3 x < m.n := h.range 3 (by omega)
  have z3 : m.β 3 0 = 0 := h.null 3 (by omega)
  have g0 := (g3_ok h .face trivial).null
  have he : Reach (g3 m .face) d (m.β 3 d) := Reach.single (face_b3 m d)
  obtain ⟨⟨lbF, rbF, mkF, mnF⟩, hr1⟩ := Face3.fw_terminates r1 r0 (m.n + 1) d (m.β 3 d) [0]
    (if m.β 3 d = 0 then d else min d (m.β 3 d)) hd (r3 d hd)
    (by have := Face3.phi_le (n := m.n) (marked := [0]) h.npos (by simp); omega)
  have hr1' := hr1
  rw [if_neg h3] at hr1'
  have I0 : TInv m d d (m.β 3 d) [0] (min d (m.β 3 d)) :=
    ⟨by simp, by simp, fun x hx hx0 => absurd (by simpa using hx) hx0, hd, rfl,
      fun _ => ⟨h3, Nat.min_le_left _ _, Nat.min_le_right _ _, Or.inl rfl⟩, Or.inr rfl⟩
  obtain ⟨lb', rb', mk', mn', I', hmem, hle, hfin⟩ := Face3.fw_phase1_inv (f1 := m.β 1) (f0 := m.β 0)
    (fun lb rb marked mn => TInv m d lb rb marked mn) (fun lb rb marked mn I hnew => I.step h hS hnew)
    _ _ _ _ _ _ _ _ _ I0 hr1'
  have memF : mnF ≠ 0 ∧ Reach (g3 m .face) d mnF := by
    refine fw_mem g0 (face_b1 m) (face_b0 m) (fun _ => .refl _) (fun _ => he) hr1' ?_
    rcases Nat.le_total d (m.β 3 d) with k | k
    · rw [Nat.min_eq_left k]; exact ⟨hd0, .refl _⟩
    · rw [Nat.min_eq_right k]; exact ⟨h3, he⟩
  by_cases hl : lb' = 0
  · -- open face: both sides ended; backward replay
    have hrb' : rb' = 0 := by rw [I'.rbe, hl]; exact z3
    obtain ⟨rfl, rfl, rfl, rfl⟩ := hfin (by rw [hrb']; exact I'.m0)
    have hdM : d ∈ mkF := by
      rcases I'.dm with k | k
      · exact k
      · exact absurd (k.symm.trans hl) hd0
    obtain ⟨mb1, mb2⟩ := mirror_bwd h hS hd h3
    obtain ⟨⟨a, b, c, mn2⟩, hr2⟩ := Face3.fw_terminates (f1 := m.β 0) (f0 := m.β 1) r0 r1 (m.n + 1)
      (m.β 0 d) (m.β 1 (m.β 3 d)) mkF (Face3.upd mnF (m.β 0 d) (m.β 1 (m.β 3 d))) (r0 d hd)
      (r1 _ (r3 d hd))
      (by have := Face3.phi_le (n := m.n) (marked := mkF) h.npos I'.m0; omega)
    have hu := Face3.upd_le mnF (m.β 0 d) (m.β 1 (m.β 3 d))
    have IB0 : BInv m d (m.β 0 d) (m.β 1 (m.β 3 d)) mkF (Face3.upd mnF (m.β 0 d) (m.β 1 (m.β 3 d))) := by
      refine ⟨I'.m0, hdM, ?_, r0 d hd, mb1, ?_⟩
      · intro x hx hx0
        obtain ⟨p, q, r, s, t, u⟩ := I'.el x hx hx0
        refine ⟨?_, ?_, r, s, Nat.le_trans hu.1 t, Nat.le_trans hu.1 u⟩
        · rcases q with k | ⟨k, _⟩
          · exact Or.inr (by rw [k])
          · exact Or.inl k
        · rcases p with ⟨k, _⟩ | k
          · exact k
          · rw [k, hl]; exact I'.m0
      · intro k0
        refine ⟨mb2 k0, hu.2.1 k0, hu.2.2 (by rw [mb1]; exact mb2 k0), ?_⟩
        rw [h.inv10 d hd k0]; exact hdM
    obtain ⟨lb2, rb2, mk2, mn2', I2, hmem2, hle2, _⟩ := Face3.fw_phase1_inv (f1 := m.β 0) (f0 := m.β 1)
      (fun lb rb marked mn => BInv m d lb rb marked mn) (fun lb rb marked mn I hnew => I.step h hS hnew)
      _ _ _ _ _ _ _ _ _ IB0 hr2
    have hrun := ((C20.run_faceId3 h hd hr1).2 (Or.inl hl)) a b c mn2 hr2
    refine ⟨mn2, hrun, ?_, fun x hx0 hx => Nat.le_trans hle2 (I2.bound h hS hmem2 x hx0 hx)⟩
    refine fw_mem g0 (face_b0 m) (face_b1 m) (fun _ => Reach.single (face_b0 m d))
      (fun _ => he.tail (face_b1 m _)) hr2 ?_
    rcases Face3.upd_mem mnF (m.β 0 d) (m.β 1 (m.β 3 d)) with e | ⟨e0, e⟩ | ⟨e0, e⟩
    · rw [e]; exact memF
    · rw [e]; exact ⟨e0, Reach.single (face_b0 m d)⟩
    · rw [e]; exact ⟨e0, he.tail (face_b1 m _)⟩
  · -- closed face
    obtain ⟨hbound, hiter⟩ := I'.bound h hS hmem hl
    obtain ⟨_, _, _, T, g4, g5⟩ := Face3.fw_facts _ _ _ _ _ _ _ _ _ hr1'
    -- the right-hand sequence is the β3-image of the left-hand one
    have hright : ∀ s, (m.β 0)^[s] (m.β 3 d) = m.β 3 ((m.β 1)^[s] d) := by
      intro s
      induction s with
      | zero => rfl
      | succ s ih =>
          have hs := hiter s
          have hs0 : (m.β 1)^[s] d ≠ 0 := by
            rcases hs.2 with k | k
            · exact k
            · exact absurd k hd0
          obtain ⟨_, _, xn, x3, _, _⟩ := I'.el _ hs.1 hs0
          rw [Function.iterate_succ_apply', Function.iterate_succ_apply', ih]
          exact (mirror_fwd h hS xn x3).1
    have hT0 : (m.β 1)^[T] d ≠ 0 := by
      rcases (hiter T).2 with k | k
      · exact k
      · exact absurd k hd0
    have hlbF : lbF ≠ 0 := by rw [g4]; exact hT0
    have hrbF : rbF ≠ 0 := by
      rw [g5, hright T]; exact (I'.el _ (hiter T).1 hT0).2.2.2.1
    have hrun := (C20.run_faceId3 h hd hr1).1 (by rintro (k | k); exact hlbF k; exact hrbF k)
    exact ⟨mnF, hrun, memF, fun x hx0 hx => Nat.le_trans hle (hbound x hx0 hx)⟩

/-- **C03 (3-D), face id**: on a well-formed 3-map whose 3-linked faces are 3-linked as a whole and
    mirrored (`FaceScope`; this contains the property's scope "glued faces closed and mirrored", open
    glued faces and faces that are not 3-linked are covered too), `face_id_transac` terminates
    within its fuel, leaves the map alone and returns the smallest dart of the face cell (the closure of
    the dart under `β1, β0, β3`) — for every non-null existing dart -/
theorem C03_faceId3_min {m : Map X} (h : WF 4 m) (hS : FaceScope m) {d : Nat} (hd0 : d ≠ 0) (hd : d < m.n) :
    run (faceId3 (X := X) m.n d) m = (.ok (cellId3 m .face d), m) ∧
    cellId3 m .face d ∈ orb3 m .face d ∧ ∀ x, x ∈ orb3 m .face d → cellId3 m .face d ≤ x := by
  have sp := cellId3_spec h (pol := .face) trivial hd0 hd
  refine ⟨?_, sp⟩
  have key : ∃ v, run (faceId3 (X := X) m.n d) m = (.ok v, m) ∧ (v ≠ 0 ∧ Reach (g3 m .face) d v) ∧
      ∀ x, x ≠ 0 → Reach (g3 m .face) d x → v ≤ x := by
    by_cases h3 : m.β 3 d = 0
    · exact faceId3_free h hS hd0 hd h3
    · exact faceId3_glued h hS hd0 hd h3
  obtain ⟨v, hv, hv1, hv2⟩ := key
  have : v = cellId3 m .face d :=
    min_unique (l := orb3 m .face d) ⟨(mem_orb3 h (pol := .face) trivial hd0 hd v).2 hv1, fun x hx =>
      hv2 x ((mem_orb3 h (pol := .face) trivial hd0 hd x).1 hx).1
        ((mem_orb3 h (pol := .face) trivial hd0 hd x).1 hx).2⟩ sp (fun _ => Iff.rfl)
  rw [hv, this]

/-- **C03 (3-D), `iter_faces`** yields exactly the face identifiers of the in-use darts (maps in the
    scope of `C03_faceId3_min`) -/
theorem C03_iterFaces3_mem {m : Map X} (h : WF 4 m) (hS : FaceScope m) (x : Nat) :
    x ∈ iterFaces3 m ↔ ∃ d, d ≠ 0 ∧ d < m.n ∧ m.unused d = false ∧ cellId3 m .face d = x :=
  mem_iterCells3 h (pol := .face) trivial (fun _ hd0 hd _ => (C03_faceId3_min h hS hd0 hd).1) x

/-! ## non-vacuity: the hypotheses are satisfiable and the conclusions are not trivial -/

/-- triangles 1-2-3 and 4-5-6 3-linked face to face (mirrored), triangle 7-8-9 2-linked to dart 1,
    an open 3-free face 10→11, a free dart 12, dart 13 removed -/
def ex3 : Map Val :=
  { n := 14
    b := #[#[0, 3, 1, 2, 6, 4, 5, 9, 7, 8, 0, 10, 0, 0], #[0, 2, 3, 1, 5, 6, 4, 8, 9, 7, 11, 0, 0, 0],
           #[0, 7, 0, 0, 0, 0, 0, 1, 0, 0, 0, 0, 0, 0], #[0, 4, 6, 5, 1, 3, 2, 0, 0, 0, 0, 0, 0, 0]]
    u := #[false, false, false, false, false, false, false, false, false, false, false, false, false, true]
    a := #[] }

theorem ex3_wf : WF 4 ex3 := by decide
theorem ex3_scope : FaceScope ex3 := by decide

-- orbits: every policy; the boundary vertex {1, 5, 8} is found from 8 only through inverse images
example : run (orbit3 ex3.n .vertex 8) ex3 = (.ok (orb3 ex3 .vertex 8), ex3) :=
  (C03_orbit3_spec ex3_wf (pol := .vertex) trivial (by decide) (by decide)).1
example : orb3 ex3 .vertex 8 = [8, 1, 5] := by decide +kernel
example : orb3 ex3 .vertexLinear 8 = [8] := by decide +kernel
example : orb3 ex3 .vertexLinear 1 = [1, 5, 8] := by decide +kernel
example : orb3 ex3 .edge 1 = [1, 7, 4] := by decide +kernel
example : orb3 ex3 .face 4 = [4, 5, 6, 1, 3, 2] := by decide +kernel
example : orb3 ex3 .faceLinear 4 = [4, 5, 1, 6, 3, 2] := by decide +kernel
example : orb3 ex3 .face 11 = [11, 10] := by decide +kernel
example : orb3 ex3 .faceLinear 11 = [11] := by decide +kernel
example : orb3 ex3 .volume 7 = [7, 8, 9, 1, 2, 3] := by decide +kernel
example : orb3 ex3 .volumeLinear 7 = [7, 8, 1, 9, 2, 3] := by decide +kernel
example : orb3 ex3 (.custom [3, 2, 1]) 9 = [9, 7, 1, 8, 4, 2, 5, 6, 3] := by decide +kernel
example : Pol3OK (.custom [3, 2, 1]) := by decide
example : run (orbit3 ex3.n (.custom [3, 2, 1]) 9) ex3 = (.ok (orb3 ex3 (.custom [3, 2, 1]) 9), ex3) :=
  (C03_orbit3_spec ex3_wf (pol := .custom [3, 2, 1]) (by decide) (by decide) (by decide)).1
example : run (orbit3 ex3.n (.custom [4]) 1) ex3 = (.panic, ex3) :=
  C03_orbit3_custom_bad_panics ex3_wf ⟨4, by decide, by decide⟩ (by decide)

-- the orbit is the cell
example : SameCell (g3 ex3 .vertex) ex3.n 8 5 :=
  (C03_orbit3_is_cell ex3_wf (pol := .vertex) trivial (by decide) (by decide) 5).1 (by decide +kernel)
example : InvClosed (g3 ex3 .volume) ex3.n := C03_images3_inverse_closed ex3_wf (pol := .volume) trivial

-- identifiers
example : cellId3 ex3 .vertex 8 = 1 := by decide +kernel
example : cellId3 ex3 .edge 7 = 1 := by decide +kernel
example : cellId3 ex3 .face 6 = 1 := by decide +kernel
example : cellId3 ex3 .face 11 = 10 := by decide +kernel
example : cellId3 ex3 .volume 9 = 1 := by decide +kernel
example : run (vertexId3 ex3.n 8) ex3 = (.ok (cellId3 ex3 .vertex 8), ex3) :=
  (C03_vertexId3_min ex3_wf (by decide) (by decide)).1
example : run (edgeId3 ex3.n 7) ex3 = (.ok (cellId3 ex3 .edge 7), ex3) :=
  (C03_edgeId3_min ex3_wf (by decide) (by decide)).1
example : run (volumeId3 ex3.n 9) ex3 = (.ok (cellId3 ex3 .volume 9), ex3) :=
  (C03_volumeId3_min ex3_wf (by decide) (by decide)).1
-- a 3-linked closed mirrored face, and an open face that is not 3-linked (backward replay: 11 finds 10)
example : run (faceId3 ex3.n 6) ex3 = (.ok (cellId3 ex3 .face 6), ex3) :=
  (C03_faceId3_min ex3_wf ex3_scope (by decide) (by decide)).1
example : run (faceId3 ex3.n 11) ex3 = (.ok (cellId3 ex3 .face 11), ex3) :=
  (C03_faceId3_min ex3_wf ex3_scope (by decide) (by decide)).1
example : Reach (g3 ex3 .vertex) 8 5 :=
  (C03_same_id3_iff_same_cell ex3_wf (pol := .vertex) trivial (by decide) (by decide) (by decide)
    (by decide)).1.1 (by decide +kernel)
example : ¬ Reach (g3 ex3 .volume) 1 4 := fun hr =>
  absurd ((C03_same_id3_iff_same_cell ex3_wf (pol := .volume) trivial (by decide) (by decide) (by decide)
    (by decide)).1.2 hr) (by decide +kernel)

-- iterators (dart 13 is removed, dart 12 is a free in-use dart)
example : iterVertices3 ex3 = [1, 2, 3, 9, 10, 11, 12] := by decide +kernel
example : iterEdges3 ex3 = [1, 2, 3, 8, 9, 10, 11, 12] := by decide +kernel
example : iterFaces3 ex3 = [1, 7, 10, 12] := by decide +kernel
example : iterVolumes3 ex3 = [1, 4, 10, 12] := by decide +kernel
example : ∃ d, d ≠ 0 ∧ d < ex3.n ∧ ex3.unused d = false ∧ cellId3 ex3 .face d = 10 :=
  (C03_iterFaces3_mem ex3_wf ex3_scope 10).1 (by decide +kernel)
example : 1 ∈ iterVolumes3 ex3 :=
  (C03_iterVolumes3_mem ex3_wf 1).2 ⟨9, by decide, by decide, by decide, by decide +kernel⟩
example : ∀ x, x ∈ orb3 ex3 .volume 12 → ex3.unused x = false :=
  C03_orbit3_of_in_use_is_in_use ex3_wf (pol := .volume) trivial (by decide) (by decide) (by decide)

-- linear policies on closed cells; the open face {10, 11} and the boundary vertex {1, 5, 8} show that
-- the closedness hypothesis cannot be dropped
example : ∀ x, x ∈ orb3 ex3 .faceLinear 4 ↔ x ∈ orb3 ex3 .face 4 :=
  C03_linear3_closed ex3_wf (pol := .faceLinear) trivial (by decide) (by decide) (by decide +kernel)
example : ∀ x, x ∈ orb3 ex3 .vertexLinear 6 ↔ x ∈ orb3 ex3 .vertex 6 :=
  C03_linear3_closed ex3_wf (pol := .vertexLinear) trivial (by decide) (by decide) (by decide +kernel)
example : ∀ x, x ∈ orb3 ex3 .volumeLinear 7 ↔ x ∈ orb3 ex3 .volume 7 :=
  C03_linear3_closed ex3_wf (pol := .volumeLinear) trivial (by decide) (by decide) (by decide +kernel)
example : orb3 ex3 .vertex 6 = [6, 3] := by decide +kernel
example : ¬ LinClosed ex3 .faceLinear 11 := by decide +kernel
example : 10 ∈ orb3 ex3 .face 11 ∧ 10 ∉ orb3 ex3 .faceLinear 11 := by decide +kernel

-- transactional = plain
example : atomicallyLog (volumeId3 ex3.n 9) ex3 = (.ok (cellId3 ex3 .volume 9), ex3) :=
  (C03_plain_ids3 ex3_wf (by decide) (by decide)).2.2

-- an OPEN mirrored 3-linked face (chains 1→2→3 and 6→5→4, 3-links 1—4, 2—5, 3—6): from the middle dart the
-- forward walk ends on the null dart on both sides and the backward replay finds dart 1
def exOpen : Map Val :=
  { n := 7
    b := #[#[0, 0, 1, 2, 5, 6, 0], #[0, 2, 3, 0, 0, 4, 5], #[0, 0, 0, 0, 0, 0, 0], #[0, 4, 5, 6, 1, 2, 3]]
    u := #[false, false, false, false, false, false, false]
    a := #[] }
theorem exOpen_wf : WF 4 exOpen := by decide
theorem exOpen_scope : FaceScope exOpen := by decide
example : ¬ C20.ClosedFaces exOpen := by decide
example : run (faceId3 exOpen.n 5) exOpen = (.ok (cellId3 exOpen .face 5), exOpen) :=
  (C03_faceId3_min exOpen_wf exOpen_scope (by decide) (by decide)).1
example : cellId3 exOpen .face 5 = 1 := by decide +kernel
example : orb3 exOpen .face 5 = [5, 4, 6, 2, 1, 3] := by decide +kernel

-- the scope of C20b is a special case
example : FaceScope C20.exP :=
  FaceScope.of_closedFaces C20.exP_mirror C20.exP_sided

end HC.C03
