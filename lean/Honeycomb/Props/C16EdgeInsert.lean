/-
  C16 / C17 — step 5 of grisubal, `insert_edges_in_map` (`Model/GrisubalInsert.lean`: `buildBaseEdge`, `replaceInter`,
  `markBoundary`, `insertOneEdge`, `insertEdgesFrom`, `stepFive`; Rust: `routines/insert_new_edges.rs`).

  * `C16_buildBaseEdge_spec`     on a well-formed map, with `start`, `end` in use and the two new darts live, free and
                                 distinct: a successful `build_base_edge` gives a well-formed map with
                                 `start → d_new → end`, `β0(end) → b2_d_new → β1(start)` (old images), `d_new ↔ b2_d_new`,
                                 every other β2 image, the dart count, the removal flags and ALL attributes unchanged
  * `C16_markBoundary_spec`      `mark_boundary` writes only `Boundary` values (`Left` / `Right`), no β, and keeps the pairing
                                 invariant below
  * `PairInv`                    "the two sides of a tagged edge carry opposite tags": for every 2-linked dart `d`,
                                 `tag d = Left ↔ tag (β2 d) = Right` (hence also `Right ↔ Left`)
  * `C16_insertOneEdge_inv`      one iteration of the loop keeps: well-formedness, dart count, flags, "tags are Left / Right /
                                 absent", `PairInv`, and "the darts not yet handed out are live, free and untagged"
  * `C16_insert_edges_inv`       … hence the whole `insert_edges_in_map`, from a well-formed map without tags
  * `C16_insertOneEdge_shape`    the SHAPE of one inserted edge `e` with block `next, next+1, next+2, …`: the β1 chain
                                 `e.start → next → next+2 → … → next+1+k → e.stop` (from the dart of the start crossing to the
                                 dart of the end crossing), `next` 2-linked; the `j`-th point of interest is the coordinate of
                                 the vertex of the `j`-th intermediate dart — every retained point of interest of the edge is a
                                 vertex, in the order of the geometry — and with the anchor storages (capture, C17) that vertex
                                 is anchored `Node(i)`, `i` the index of the edge; every dart of the chain (the side running
                                 WITH the geometry) is tagged `Left`, its β2 image `Right`
  * `C16_pipeline_clip_hyps`     so the hypotheses `htags` / `hpair` of `C16_clip_WF` hold for the output of step 5, for
                                 `clip_left` AND `clip_right`: they are established for pipeline outputs, not assumed
  * `C16_pipeline_clip_WF`       composition: `clip_left` / `clip_right` after step 5 return a well-formed map whose remaining
                                 boundary darts are 2-free

  Tie: `gins` (hook `verif::insert_edges`) — `wf` and the full snapshot (β, flags, coordinates, anchors, Boundary tags) as
  identical text on the real pipeline data (tools/props/c16.py: pipeline5_tie).
-/
import Honeycomb.Model.GrisubalInsert
import Honeycomb.Lemmas.RemeshBeta
import Honeycomb.Props.C14b
import Honeycomb.Props.C16Clip

set_option linter.unusedSimpArgs false
set_option linter.unusedVariables false

namespace HC.C16
open HC

/-! ## `build_base_edge` -/

theorem att_of_step_link1 {l r : Nat} {m m' : Map Val} {a : Unit} (h : run (oneLinkCore (X := Val) l r) m = (.ok a, m')) :
    m'.att = m.att ∧ m'.a.size = m.a.size := by
  obtain ⟨_, _, _, _, rfl⟩ := oneLinkCore_ok h; exact ⟨rfl, rfl⟩

theorem att_of_step_link2 {l r : Nat} {m m' : Map Val} {a : Unit} (h : run (iLinkCore (X := Val) 2 l r) m = (.ok a, m')) :
    m'.att = m.att ∧ m'.a.size = m.a.size := by
  obtain ⟨_, _, _, _, rfl⟩ := iLinkCore_ok h; exact ⟨rfl, rfl⟩

theorem att_of_step_unlink1 {l : Nat} {m m' : Map Val} {a : Unit} (h : run (oneUnlinkCore (X := Val) l) m = (.ok a, m')) :
    m'.att = m.att ∧ m'.a.size = m.a.size := by
  obtain ⟨_, _, _, rfl⟩ := oneUnlinkCore_ok h; exact ⟨rfl, rfl⟩

theorem inUse_of_step {m m' : Map Val} {g : Nat → Nat → Nat} (s : Step m m' g) {d : Nat} (h : C01.InUse m d) :
    C01.InUse m' d := by
  refine ⟨h.1, by rw [s.n]; exact h.2.1, ?_⟩
  unfold Map.unused; rw [s.u]; exact h.2.2

/-- the image of an in-use dart, when not null, is in use -/
theorem inUse_image {m : Map Val} (h : WF 3 m) {i d : Nat} (hi : i < 3) (hd : d < m.n) (hne : m.β i d ≠ 0) :
    C01.InUse m (m.β i d) := by
  refine ⟨hne, h.range i hi d hd, ?_⟩
  cases hu : m.unused (m.β i d) with
  | false => rfl
  | true => exact absurd (C01.C01_unused_is_nobodys_image h i hi d hd hu) hne

/-- **C16, step 5 — `build_base_edge`** -/
theorem C16_buildBaseEdge_spec {m m' : Map Val} {start stop dNew b2dNew : Nat} (hwf : WF 3 m)
    (hs : C01.InUse m start) (he : C01.InUse m stop) (hd1 : C01.InUse m dNew) (hd2 : C01.InUse m b2dNew)
    (hf1 : ∀ i, i < 3 → m.β i dNew = 0) (hf2 : ∀ i, i < 3 → m.β i b2dNew = 0) (hne : dNew ≠ b2dNew)
    (hr : run (buildBaseEdge start stop dNew b2dNew) m = (.ok (), m')) :
    WF 3 m' ∧ m'.n = m.n ∧ m'.u = m.u ∧ m'.att = m.att ∧ m'.a.size = m.a.size ∧
    m.β 1 start ≠ 0 ∧ m.β 0 stop ≠ 0 ∧
    m'.β 1 start = dNew ∧ m'.β 1 dNew = stop ∧ m'.β 1 (m.β 0 stop) = b2dNew ∧ m'.β 1 b2dNew = m.β 1 start ∧
    (∀ d, m'.β 2 d = if d = dNew then b2dNew else if d = b2dNew then dNew else m.β 2 d) ∧
    (∀ d, d ≠ start → d ≠ m.β 0 stop → d ≠ dNew → d ≠ b2dNew → m'.β 1 d = m.β 1 d) ∧
    (∀ d, d ≠ stop → d ≠ m.β 1 start → d ≠ dNew → d ≠ b2dNew → m'.β 0 d = m.β 0 d) := by
  unfold buildBaseEdge at hr
  simp only [Prog.bind_eq] at hr
  obtain ⟨_, hr⟩ := C14.rB_bind_ok hr
  obtain ⟨_, hr⟩ := C14.rB_bind_ok hr
  obtain ⟨_, m1, h1, hr⟩ := run_bind_ok hr
  obtain ⟨_, m2, h2, hr⟩ := run_bind_ok hr
  obtain ⟨_, m3, h3, hr⟩ := run_bind_ok hr
  obtain ⟨_, m4, h4, hr⟩ := run_bind_ok hr
  obtain ⟨_, m5, h5, hr⟩ := run_bind_ok hr
  obtain ⟨_, m6, h6, h7⟩ := run_bind_ok hr
  obtain ⟨n1, s1⟩ := step_oneUnlinkCore h1
  obtain ⟨n2, s2⟩ := step_oneUnlinkCore h2
  obtain ⟨_, _, s3⟩ := step_twoLinkCore h3
  obtain ⟨_, _, s4⟩ := step_oneLinkCore h4
  obtain ⟨_, _, s5⟩ := step_oneLinkCore h5
  obtain ⟨_, _, s6⟩ := step_oneLinkCore h6
  obtain ⟨_, _, s7⟩ := step_oneLinkCore h7
  -- abbreviations
  set b1s := m.β 1 start with hb1s
  set b0e := m.β 0 stop with hb0e
  -- in-use facts
  have ib1s : C01.InUse m b1s := inUse_image hwf (by omega) hs.2.1 n1
  have hb0e_ne : b0e ≠ 0 := by
    intro e0
    rw [s1.β] at n2
    have : unl1 m.β start 1 b0e = 0 := by
      rw [e0]; simp only [unl1, upd_apply]
      have := hwf.null 1 (by omega)
      split <;> [rfl; (split <;> [rfl; exact this])]
    exact n2 this
  have ib0e : C01.InUse m b0e := inUse_image hwf (by omega) he.2.1 hb0e_ne
  -- distinctness
  have hsd1 : start ≠ dNew := fun e => n1 (by rw [hb1s, e]; exact hf1 1 (by omega))
  have hsd2 : start ≠ b2dNew := fun e => n1 (by rw [hb1s, e]; exact hf2 1 (by omega))
  have hb1 : m.β 1 b0e = stop := hwf.inv10 stop he.2.1 hb0e_ne
  have hbd1 : b0e ≠ dNew := fun e => he.1 (by rw [← hb1, e]; exact hf1 1 (by omega))
  have hbd2 : b0e ≠ b2dNew := fun e => he.1 (by rw [← hb1, e]; exact hf2 1 (by omega))
  have hsb : start ≠ b0e := by
    intro e
    rw [s1.β] at n2
    apply n2
    rw [← e]; simp [unl1, upd_apply]
  have hb0s : m.β 0 b1s = start := hwf.inv01 start hs.2.1 n1
  have hstop1 : stop ≠ dNew := fun e => hb0e_ne (by rw [hb0e, e]; exact hf1 0 (by omega))
  have hstop2 : stop ≠ b2dNew := fun e => hb0e_ne (by rw [hb0e, e]; exact hf2 0 (by omega))
  have hb1s1 : b1s ≠ dNew := fun e => hs.1 (by rw [← hb0s, e]; exact hf1 0 (by omega))
  have hb1s2 : b1s ≠ b2dNew := fun e => hs.1 (by rw [← hb0s, e]; exact hf2 0 (by omega))
  -- well-formedness along the chain
  have w1 := C01.safe_oneUnlinkCore (X := Val) start m m1 _ hwf hs h1
  have w2 := C01.safe_oneUnlinkCore (X := Val) b0e m1 m2 _ w1 (inUse_of_step s1 ib0e) h2
  have i2 : ∀ {d}, C01.InUse m d → C01.InUse m2 d := fun h => inUse_of_step s2 (inUse_of_step s1 h)
  have w3 := C01.safe_twoLinkCore (X := Val) dNew b2dNew m2 m3 _ w2 ⟨i2 hd1, i2 hd2, hne⟩ h3
  have i3 : ∀ {d}, C01.InUse m d → C01.InUse m3 d := fun h => inUse_of_step s3 (i2 h)
  have w4 := C01.safe_oneLinkCore (X := Val) start dNew m3 m4 _ w3 ⟨i3 hs, i3 hd1⟩ h4
  have i4 : ∀ {d}, C01.InUse m d → C01.InUse m4 d := fun h => inUse_of_step s4 (i3 h)
  have w5 := C01.safe_oneLinkCore (X := Val) b2dNew b1s m4 m5 _ w4 ⟨i4 hd2, i4 ib1s⟩ h5
  have i5 : ∀ {d}, C01.InUse m d → C01.InUse m5 d := fun h => inUse_of_step s5 (i4 h)
  have w6 := C01.safe_oneLinkCore (X := Val) dNew stop m5 m6 _ w5 ⟨i5 hd1, i5 he⟩ h6
  have i6 : ∀ {d}, C01.InUse m d → C01.InUse m6 d := fun h => inUse_of_step s6 (i5 h)
  have w7 := C01.safe_oneLinkCore (X := Val) b0e b2dNew m6 m' _ w6 ⟨i6 ib0e, i6 hd2⟩ h7
  -- the β function of the result
  have hβ : m'.β = lnk1 (lnk1 (lnk1 (lnk1 (lnk2 (unl1 (unl1 m.β start) b0e) dNew b2dNew) start dNew) b2dNew b1s) dNew stop)
      b0e b2dNew := by
    rw [s7.β, s6.β, s5.β, s4.β, s3.β, s2.β, s1.β]
  have a1 := att_of_step_unlink1 h1
  have a2 := att_of_step_unlink1 h2
  have a3 := att_of_step_link2 h3
  have a4 := att_of_step_link1 h4
  have a5 := att_of_step_link1 h5
  have a6 := att_of_step_link1 h6
  have a7 := att_of_step_link1 h7
  refine ⟨w7, ?_, ?_, ?_, ?_, n1, hb0e_ne, ?_, ?_, ?_, ?_, ?_, ?_, ?_⟩
  · rw [s7.n, s6.n, s5.n, s4.n, s3.n, s2.n, s1.n]
  · rw [s7.u, s6.u, s5.u, s4.u, s3.u, s2.u, s1.u]
  · rw [a7.1, a6.1, a5.1, a4.1, a3.1, a2.1, a1.1]
  · rw [a7.2, a6.2, a5.2, a4.2, a3.2, a2.2, a1.2]
  · rw [hβ]; simp [lnk1, lnk2, unl1, upd_apply, hsb, hsb.symm, hsd1, hsd1.symm, hsd2, hsd2.symm, hbd1, hbd1.symm, hbd2, hbd2.symm, hne, hne.symm]
  · rw [hβ]; simp [lnk1, lnk2, unl1, upd_apply, hsb, hsb.symm, hsd1, hsd1.symm, hsd2, hsd2.symm, hbd1, hbd1.symm, hbd2, hbd2.symm, hne, hne.symm]
  · rw [hβ]; simp [lnk1, lnk2, unl1, upd_apply, hsb, hsb.symm, hsd1, hsd1.symm, hsd2, hsd2.symm, hbd1, hbd1.symm, hbd2, hbd2.symm, hne, hne.symm]
  · rw [hβ]; simp [lnk1, lnk2, unl1, upd_apply, hsb, hsb.symm, hsd1, hsd1.symm, hsd2, hsd2.symm, hbd1, hbd1.symm, hbd2, hbd2.symm, hne, hne.symm]
  · intro d
    rw [hβ]
    simp only [lnk1, lnk2, unl1, upd_apply]
    by_cases e1 : d = dNew
    · subst e1; simp [hne, hne.symm]
    · by_cases e2 : d = b2dNew
      · subst e2; simp [hne, hne.symm]
      · simp [e1, e2, Ne.symm e1, Ne.symm e2]
  · intro d h1' h2' h3' h4'
    rw [hβ]
    simp [lnk1, lnk2, unl1, upd_apply, h1', h2', h3', h4', Ne.symm h1', Ne.symm h2', Ne.symm h3', Ne.symm h4']
  · intro d h1' h2' h3' h4'
    rw [hβ]
    have e1 : unl1 m.β start 1 b0e = stop := by
      simp only [unl1, upd_apply]
      rw [if_neg (by simp), if_neg (fun hh => hsb hh.2)]; exact hb1
    simp only [lnk1, lnk2, unl1, upd_apply, e1]
    simp [h1', h2', h3', h4', Ne.symm h1', Ne.symm h2', Ne.symm h3', Ne.symm h4', hsb, hb1]
    intro hh; exact absurd hh.symm h2'

/-! ## the tags -/

/-- every `Boundary` value is `Left`, `Right` or absent -/
def TagsLR (m : Map Val) : Prop := ∀ d, tagOf m d = none ∨ tagOf m d = some bdLeft ∨ tagOf m d = some bdRight

/-- the two sides of an edge carry opposite tags: for a 2-linked dart, `Left` iff its β2 image is `Right` -/
def PairInv (m : Map Val) : Prop :=
  ∀ d, d ≠ 0 → d < m.n → m.β 2 d ≠ 0 → (tagOf m d = some bdLeft ↔ tagOf m (m.β 2 d) = some bdRight)

theorem PairInv.symm {m : Map Val} (hwf : WF 3 m) (h : PairInv m) {d : Nat} (hd0 : d ≠ 0) (hd : d < m.n)
    (h2 : m.β 2 d ≠ 0) : tagOf m d = some bdRight ↔ tagOf m (m.β 2 d) = some bdLeft := by
  have hi := hwf.invol 2 (by omega) (by omega) d hd h2
  have := h (m.β 2 d) h2 (hwf.range 2 (by omega) d hd) (by rw [hi.1]; exact hd0)
  rw [hi.1] at this
  exact this.symm

/-- β2 changes only inside a set of untagged darts: the pairing survives -/
theorem PairInv.of_local {m m' : Map Val} (hwf : WF 3 m) (hwf' : WF 3 m') (hn : m'.n = m.n)
    (htag : ∀ d, tagOf m' d = tagOf m d) (S : Nat → Prop) (hS : ∀ d, ¬ S d → m'.β 2 d = m.β 2 d)
    (hu : ∀ d, S d → tagOf m d = none) (h : PairInv m) : PairInv m' := by
  intro d hd0 hd h2
  rw [htag, htag]
  by_cases hs : S d
  · have t1 := hu d hs
    rw [t1]
    simp only [reduceCtorEq, false_iff]
    by_cases hs' : S (m'.β 2 d)
    · rw [hu _ hs']; simp
    · -- the new partner is outside: it was the partner before
      have hi := hwf'.invol 2 (by omega) (by omega) d hd h2
      have hy := hwf'.range 2 (by omega) d hd
      have e := hS _ hs'
      rw [hi.1] at e
      rw [hn] at hy hd
      have hi2 := hwf.invol 2 (by omega) (by omega) (m'.β 2 d) hy (by rw [← e]; exact hd0)
      rw [← e] at hi2
      have := h d hd0 hd (by rw [hi2.1]; exact h2)
      rw [hi2.1, t1] at this
      intro hh; exact absurd (this.2 hh) (by simp)
  · rw [hS d hs] at h2 ⊢
    exact h d hd0 (by rw [← hn]; exact hd) h2

/-! ## `mark_boundary` -/

/-- **C16, step 5 — `mark_boundary`**: only `Boundary` values are written (`Left` on the darts walked, `Right` on their β2
    images); on a well-formed map the pairing of the tags survives, whatever darts the walk meets -/
theorem C16_markBoundary_spec (stop : Nat) : ∀ (fuel d : Nat) (m m' : Map Val), WF 3 m → TagsLR m → PairInv m →
    run (markBoundary stop fuel d) m = (.ok (), m') →
    SameTopo m m' ∧ (∀ s x, s ≠ sBd → m'.att s x = m.att s x) ∧ TagsLR m' ∧ PairInv m' ∧
    (∀ x, tagOf m' x ≠ tagOf m x → x = d ∨ x = 0 ∨ ∃ i, i < 3 ∧ m.β i x ≠ 0) := by
  intro fuel
  induction fuel with
  | zero => intro d m m' _ _ _ h; simp [markBoundary, run] at h
  | succ f ih =>
      intro d m m' hwf ht hp h
      unfold markBoundary at h
      by_cases hds : d = stop
      · rw [if_pos hds] at h
        simp only [Prog.pure_eq, run_ret, Prod.mk.injEq] at h
        rw [← h.2]
        exact ⟨SameTopo.refl m, fun _ _ _ => rfl, ht, hp, fun x hx => absurd rfl hx⟩
      · rw [if_neg hds] at h
        simp only [Prog.bind_eq] at h
        have h := C14.rA_bind_ok h
        rw [run_wA] at h
        by_cases ok1 : m.okA sBd d = true
        · simp only [ok1, if_true] at h
          obtain ⟨okb, h⟩ := C14.rB_bind_ok h
          have h := C14.rA_bind_ok h
          rw [run_wA] at h
          simp only [Map.β_setA] at h okb
          by_cases ok2 : (m.setA sBd d (some bdLeft)).okA sBd (m.β 2 d) = true
          · simp only [ok2, if_true] at h
            obtain ⟨_, h⟩ := C14.rB_bind_ok h
            simp only [Map.β_setA] at h
            -- the map after the two writes
            set m1 := (m.setA sBd d (some bdLeft)).setA sBd (m.β 2 d) (some bdRight) with hm1
            have hd : d < m.n := ((hwf.toSized.okβ 2 d).1 (by simpa [Map.okβ_setA] using okb)).2
            have tag1 : ∀ y, tagOf m1 y = if m.β 2 d = y then some bdRight else if d = y then some bdLeft else tagOf m y := by
              intro y
              show m1.att sBd y = _
              rw [hm1, Map.att_setA, Map.att_setA]
              simp only [ok1, ok2, true_and, and_true]
            have st1 : SameTopo m m1 := (SameTopo.setA _ _ _ _).trans (SameTopo.setA _ _ _ _)
            have wf1 : WF 3 m1 := hwf.sameTopo st1
            have t1 : TagsLR m1 := by
              intro y; rw [tag1]
              split
              · right; right; rfl
              · split
                · right; left; rfl
                · exact ht y
            have p1 : PairInv m1 := by
              intro x hx0 hx hx2
              have hx2' : m.β 2 x ≠ 0 := hx2
              have hxn : x < m.n := hx
              show tagOf m1 x = some bdLeft ↔ tagOf m1 (m.β 2 x) = some bdRight
              rw [tag1, tag1]
              have hix := hwf.invol 2 (by omega) (by omega) x hxn hx2'
              by_cases hd2 : m.β 2 d = 0
              · -- a 2-free dart is walked: nobody's partner is touched
                have e1 : m.β 2 d ≠ x := by rw [hd2]; exact Ne.symm hx0
                have e2 : d ≠ x := fun e => hx2' (by rw [← e]; exact hd2)
                have e3 : m.β 2 d ≠ m.β 2 x := by rw [hd2]; exact Ne.symm hx2'
                have e4 : d ≠ m.β 2 x := fun e => hx0 (by rw [← hix.1, ← e, hd2])
                rw [if_neg e1, if_neg e2, if_neg e3, if_neg e4]
                exact hp x hx0 hxn hx2'
              · have hid := hwf.invol 2 (by omega) (by omega) d hd hd2
                by_cases ex : x = d
                · subst ex
                  rw [if_neg hid.2, if_pos rfl, if_pos rfl]
                  simp
                · by_cases ex2 : x = m.β 2 d
                  · rw [ex2, hid.1, if_pos rfl, if_neg hid.2, if_pos rfl]
                    simp [bdLeft, bdRight]
                  · have e1 : m.β 2 d ≠ x := Ne.symm ex2
                    have e2 : d ≠ x := Ne.symm ex
                    have e3 : m.β 2 d ≠ m.β 2 x := fun e => ex (by rw [← hix.1, ← e, hid.1])
                    have e4 : d ≠ m.β 2 x := fun e => ex2 (by rw [e, hix.1])
                    rw [if_neg e1, if_neg e2, if_neg e3, if_neg e4]
                    exact hp x hx0 hxn hx2'
            obtain ⟨a, b, c, e, loc⟩ := ih _ m1 m' wf1 t1 p1 h
            refine ⟨?_, ?_, c, e, ?_⟩
            · exact st1.trans a
            · intro s x hs
              rw [b s x hs, hm1, Map.att_setA, Map.att_setA]
              rw [if_neg (fun hh => hs hh.1.symm), if_neg (fun hh => hs hh.1.symm)]
            · intro x hx
              by_cases hx1 : tagOf m' x = tagOf m1 x
              · -- changed by the two writes of this iteration
                rw [hx1, tag1] at hx
                by_cases e1 : m.β 2 d = x
                · by_cases e0 : x = 0
                  · exact Or.inr (Or.inl e0)
                  · right; right
                    have hd2 : m.β 2 d ≠ 0 := by rw [e1]; exact e0
                    have hid := hwf.invol 2 (by omega) (by omega) d hd hd2
                    refine ⟨2, by omega, ?_⟩
                    rw [← e1, hid.1]
                    intro ed0; apply hd2; rw [ed0]; exact hwf.null 2 (by omega)
                · rw [if_neg e1] at hx
                  by_cases e2 : d = x
                  · exact Or.inl e2.symm
                  · rw [if_neg e2] at hx; exact absurd rfl hx
              · rcases loc x hx1 with hh | hh | ⟨i, hi, hh⟩
                · -- the next dart of the walk: a β1 image
                  by_cases e0 : x = 0
                  · exact Or.inr (Or.inl e0)
                  · right; right
                    have hb : m.β 1 d ≠ 0 := by
                      have : m1.β 1 d = m.β 1 d := rfl
                      rw [hh] at e0; exact e0
                    refine ⟨0, by omega, ?_⟩
                    have : x = m.β 1 d := hh
                    rw [this, hwf.inv01 d hd hb]
                    intro ed0; apply hb; rw [ed0]; exact hwf.null 1 (by omega)
                · exact Or.inr (Or.inl hh)
                · exact Or.inr (Or.inr ⟨i, hi, hh⟩)
          · simp [ok2] at h
        · simp [ok1] at h

/-! ## the placeholder vertices -/

theorem replaceInter_eff (n : Nat) (ha : Bool) (i : Nat) : ∀ (l : List Pt) (d : Nat) (m m' : Map Val),
    run (replaceInter n ha i d l) m = (.ok (), m') →
    SameTopo m m' ∧ ∀ s x, s ≠ 0 → s ≠ sVA → m'.att s x = m.att s x := by
  intro l
  induction l with
  | nil =>
      intro d m m' h
      simp only [replaceInter, Prog.pure_eq, run_ret, Prod.mk.injEq] at h
      rw [← h.2]; exact ⟨SameTopo.refl m, fun _ _ _ _ => rfl⟩
  | cons v vs ih =>
      intro d m m' h
      unfold replaceInter at h
      simp only [Prog.bind_eq] at h
      obtain ⟨vid, _, h⟩ := ro_bind_ok (readOnly_vertexId2 (X := Val) n d) h
      unfold writeVtx at h
      simp only [Prog.bind_eq, Prog.pure_eq, Prog.bind_assoc] at h
      have h := C14.rA_bind_ok h
      rw [run_wA] at h
      by_cases ok0 : m.okA 0 vid = true
      · simp only [ok0, if_true] at h
        simp only [Prog.bind_eq, Prog.ret_bind] at h
        cases ha with
        | false =>
            simp only [Bool.false_eq_true, if_false, Prog.pure_eq, Prog.ret_bind] at h
            obtain ⟨_, h⟩ := C14.rB_bind_ok h
            obtain ⟨a, b⟩ := ih _ _ _ h
            refine ⟨(SameTopo.setA _ _ _ _).trans a, ?_⟩
            intro s x hs0 hsv
            rw [b s x hs0 hsv, Map.att_setA, if_neg (fun hh => hs0 hh.1.symm)]
        | true =>
            simp only [if_true, Prog.bind_eq, Prog.bind_assoc] at h
            have h := C14.rA_bind_ok h
            rw [run_wA] at h
            by_cases ok1 : (m.setA 0 vid (some (Val.pt v.1 v.2 0))).okA sVA vid = true
            · simp only [ok1, if_true] at h
              obtain ⟨_, h⟩ := C14.rB_bind_ok h
              obtain ⟨a, b⟩ := ih _ _ _ h
              refine ⟨((SameTopo.setA _ _ _ _).trans (SameTopo.setA _ _ _ _)).trans a, ?_⟩
              intro s x hs0 hsv
              rw [b s x hs0 hsv, Map.att_setA, if_neg (fun hh => hsv hh.1.symm), Map.att_setA,
                if_neg (fun hh => hs0 hh.1.symm)]
            · simp [ok1] at h
      · simp [ok0] at h

/-! ## one iteration of the loop -/

/-- the invariant of the loop of `insert_edges_in_map`; `next` is the first dart not handed out yet -/
structure EInv (m : Map Val) (next : Nat) : Prop where
  wf : WF 3 m
  tags : TagsLR m
  pair : PairInv m
  pos : 0 < next
  fresh : ∀ d, next ≤ d → d < m.n → m.unused d = false ∧ (∀ i, i < 3 → m.β i d = 0) ∧ tagOf m d = none

theorem rg' {a n i : Nat} (h : i < n) : (List.range' a n).getD i 0 = a + i := by
  rw [List.getD_eq_getElem?_getD, List.getElem?_range' h]; simp

theorem edgeId2_val {m m' : Map Val} {d x : Nat} (h : run (edgeId2 (X := Val) d) m = (.ok x, m')) :
    x = d ∨ (x = m.β 2 d ∧ m.β 2 d ≠ 0) := by
  unfold edgeId2 at h
  simp only [Prog.bind_eq] at h
  obtain ⟨_, h⟩ := C14.rB_bind_ok h
  by_cases h0 : m.β 2 d = 0
  · rw [if_pos h0] at h; simp only [Prog.pure_eq, run_ret, Prod.mk.injEq, Out.ok.injEq] at h; exact Or.inl h.1.symm
  · rw [if_neg h0] at h
    simp only [Prog.pure_eq, run_ret, Prod.mk.injEq, Out.ok.injEq] at h
    rcases Nat.le_total (m.β 2 d) d with hle | hle
    · right; exact ⟨by rw [← h.1, Nat.min_eq_left hle], h0⟩
    · left; rw [← h.1, Nat.min_eq_right hle]

/-- what holds between the start of an iteration and its `mark_boundary` -/
structure Mid (m m3 : Map Val) (next' : Nat) : Prop where
  wf : WF 3 m3
  n : m3.n = m.n
  u : m3.u = m.u
  tag : ∀ x, tagOf m3 x = tagOf m x
  pair : PairInv m3
  free : ∀ d, next' ≤ d → d < m.n → ∀ i, i < 3 → m3.β i d = 0

/-- **C16, step 5 — one iteration keeps the invariant**: well-formedness, dart count, removal flags, tags in
    {`Left`, `Right`, absent}, opposite tags on the two sides of every tagged 2-linked dart, and the darts not handed out yet
    stay live, free and untagged -/
theorem C16_insertOneEdge_inv {m m' : Map Val} {next i : Nat} {ha : Bool} {e : MEdge} (I : EInv m next)
    (hs : C01.InUse m e.start) (he : C01.InUse m e.stop) (hroom : next + (2 + 2 * e.inter.length) ≤ m.n)
    (hr : run (insertOneEdge m.n ha i e (List.range' next (2 + 2 * e.inter.length))) m = (.ok (), m')) :
    EInv m' (next + (2 + 2 * e.inter.length)) ∧ m'.n = m.n ∧ m'.u = m.u := by
  have hwf := I.wf
  set k := e.inter.length with hk
  unfold insertOneEdge at hr
  simp only [Prog.bind_eq] at hr
  rw [rg' (by omega : 0 < 2 + 2 * k), rg' (by omega : 1 < 2 + 2 * k), Nat.add_zero] at hr
  obtain ⟨_, m1, h1, hr⟩ := run_bind_ok hr
  -- the two darts of the base edge
  obtain ⟨u0, f0, t0⟩ := I.fresh next (Nat.le_refl _) (by omega)
  obtain ⟨u1, f1, t1⟩ := I.fresh (next + 1) (by omega) (by omega)
  have id0 : C01.InUse m next := ⟨by have := I.pos; omega, by omega, u0⟩
  have id1 : C01.InUse m (next + 1) := ⟨by omega, by omega, u1⟩
  obtain ⟨w1, n1, uu1, a1, _, hb1s, hb0e, e1, e2, e3, e4, e5, e6, e7⟩ :=
    C16_buildBaseEdge_spec hwf hs he id0 id1 f0 f1 (by omega) h1
  -- nothing with a non-null image is fresh
  have notFresh : ∀ d, d < m.n → (∃ j, j < 3 ∧ m.β j d ≠ 0) → d < next := by
    intro d hd ⟨j, hj, hne⟩
    rcases Nat.lt_or_ge d next with h' | h'
    · exact h'
    · exact absurd ((I.fresh d h' hd).2.1 j hj) hne
  have hstart : e.start < next := notFresh _ hs.2.1 ⟨1, by omega, hb1s⟩
  have hstop : e.stop < next := notFresh _ he.2.1 ⟨0, by omega, hb0e⟩
  have hb1s_lt : m.β 1 e.start < m.n := hwf.range 1 (by omega) _ hs.2.1
  have hb0e_lt : m.β 0 e.stop < m.n := hwf.range 0 (by omega) _ he.2.1
  have hb1s' : m.β 1 e.start < next := notFresh _ hb1s_lt ⟨0, by omega, by rw [hwf.inv01 _ hs.2.1 hb1s]; exact hs.1⟩
  have hb0e' : m.β 0 e.stop < next := notFresh _ hb0e_lt ⟨1, by omega, by rw [hwf.inv10 _ he.2.1 hb0e]; exact he.1⟩
  have tg1 : ∀ x, tagOf m1 x = tagOf m x := fun x => by show m1.att sBd x = m.att sBd x; rw [a1]
  -- after `build_base_edge`
  have M1 : Mid m m1 (next + 2) := by
    refine ⟨w1, n1, uu1, tg1, ?_, ?_⟩
    · refine PairInv.of_local hwf w1 n1 tg1 (fun d => d = next ∨ d = next + 1) ?_ ?_ I.pair
      · intro d hd
        rw [e5 d, if_neg (fun h => hd (Or.inl h)), if_neg (fun h => hd (Or.inr h))]
      · rintro d (rfl | rfl)
        · exact t0
        · exact t1
    · intro d hd hdn j hj
      have hf := (I.fresh d (by omega) hdn).2.1
      rcases (by omega : j = 0 ∨ j = 1 ∨ j = 2) with rfl | rfl | rfl
      · rw [e7 d (by omega) (by omega) (by omega) (by omega)]; exact hf 0 (by omega)
      · rw [e6 d (by omega) (by omega) (by omega) (by omega)]; exact hf 1 (by omega)
      · rw [e5 d, if_neg (by omega), if_neg (by omega)]; exact hf 2 (by omega)
  -- the intermediate vertices
  obtain ⟨_, m3, h3, hr⟩ := run_bind_ok hr
  have M3 : Mid m m3 (next + (2 + 2 * k)) := by
    by_cases hemp : e.inter.isEmpty = true
    · rw [if_pos hemp] at h3
      simp only [Prog.pure_eq, run_ret, Prod.mk.injEq] at h3
      have hk0 : k = 0 := by rw [hk]; simpa using hemp
      rw [← h3.2, hk0]
      exact M1
    · rw [if_neg hemp] at h3
      have hkpos : 0 < k := by
        rw [hk]; cases hi : e.inter with
        | nil => rw [hi] at hemp; simp at hemp
        | cons _ _ => simp
      obtain ⟨eid, heid, h3⟩ := ro_bind_ok (readOnly_edgeId2 (X := Val) next) h3
      obtain ⟨_, m2, h2, h3⟩ := run_bind_ok h3
      obtain ⟨_, h3⟩ := C14.rB_bind_ok h3
      -- the edge that is subdivided: one of the two new darts, its β2 image the other one
      have b2n : m1.β 2 next = next + 1 := by rw [e5, if_pos rfl]
      have b2n1 : m1.β 2 (next + 1) = next := by rw [e5, if_neg (by omega), if_pos rfl]
      have heid' : (eid = next ∧ m1.β 2 eid = next + 1) ∨ (eid = next + 1 ∧ m1.β 2 eid = next) := by
        rcases edgeId2_val heid with h | ⟨h, _⟩
        · left; rw [h]; exact ⟨rfl, b2n⟩
        · right; rw [h, b2n]; exact ⟨rfl, b2n1⟩
      have ieid : C01.InUse m1 eid := by
        have i0 : C01.InUse m1 next := ⟨id0.1, by rw [n1]; exact id0.2.1, by unfold Map.unused; rw [uu1]; exact id0.2.2⟩
        have i1 : C01.InUse m1 (next + 1) := ⟨id1.1, by rw [n1]; exact id1.2.1, by unfold Map.unused; rw [uu1]; exact id1.2.2⟩
        rcases heid' with ⟨h, _⟩ | ⟨h, _⟩ <;> rw [h] <;> assumption
      have hb2e : m1.β 2 eid ≠ 0 := by rcases heid' with ⟨_, h⟩ | ⟨_, h⟩ <;> rw [h] <;> omega
      -- the block of new darts
      have hslice : (List.range' next (2 + 2 * k)).drop 2 = List.range' (next + 2) (2 * k) := by
        rw [List.drop_range']; congr 1 <;> omega
      rw [hslice, ← n1] at h2
      have hmem : ∀ d, d ∈ List.range' (next + 2) (2 * k) → next + 2 ≤ d ∧ d < next + 2 + 2 * k := by
        intro d hd; rw [List.mem_range'_1] at hd; exact hd
      have hlive : ∀ d, d ∈ List.range' (next + 2) (2 * k) → m1.unused d = false := by
        intro d hd
        obtain ⟨a, b⟩ := hmem d hd
        unfold Map.unused; rw [uu1]
        exact (I.fresh d (by omega) (by omega)).1
      have hlen : (e.inter.map fun _ => (1 / 2 : Rat)).length = k := by rw [List.length_map]
      have hfhnd : ((List.range' (next + 2) (2 * k)).take (e.inter.map fun _ => (1 / 2 : Rat)).length).Nodup :=
        (List.nodup_range').sublist (List.take_sublist _ _)
      obtain ⟨w2, hres⟩ := C14.C14_insertVertices_beta_structure m1 m2 eid _ _ w1 ieid hlive hfhnd
        (fun _ => List.nodup_range') h2
      have inv2 := C14.insertVertices_inv m1 m2 eid _ _ w1 ieid hlive (fun _ => List.nodup_range') h2
      obtain ⟨_, _, _, _, _, _, _, _, _, hatt⟩ := C14.C14_new_vertex_position_full m1 m2 eid _ _ w1 ieid hlive hfhnd
        (fun _ => List.nodup_range') h2
      set fh := (List.range' (next + 2) (2 * k)).take (e.inter.map fun _ => (1 / 2 : Rat)).length with hfh
      set sh := (List.range' (next + 2) (2 * k)).drop (e.inter.map fun _ => (1 / 2 : Rat)).length with hsh
      have hfhm : ∀ d, d ∈ fh → next + 2 ≤ d ∧ d < next + 2 + 2 * k := fun d hd => hmem d (List.mem_of_mem_take hd)
      have hshm : ∀ d, d ∈ sh → next + 2 ≤ d ∧ d < next + 2 + 2 * k := fun d hd => hmem d (List.mem_of_mem_drop hd)
      have heidlt : eid = next ∨ eid = next + 1 := by rcases heid' with ⟨h, _⟩ | ⟨h, _⟩ <;> simp [h]
      have hb2lt : m1.β 2 eid = next ∨ m1.β 2 eid = next + 1 := by rcases heid' with ⟨_, h⟩ | ⟨_, h⟩ <;> simp [h]
      -- membership in the darts the insertion touches means: a new dart of this iteration
      have inS : ∀ d, (d ∈ eid :: fh ∨ d ∈ m1.β 2 eid :: sh) → next ≤ d ∧ d < next + (2 + 2 * k) := by
        intro d hd
        rcases hd with hd | hd <;> rcases List.mem_cons.1 hd with h | h
        · rcases heidlt with h' | h' <;> omega
        · have := hfhm d h; omega
        · rcases hb2lt with h' | h' <;> omega
        · have := hshm d h; omega
      have tg2 : ∀ x, tagOf m2 x = tagOf m1 x := fun x => hatt sBd x (Or.inl (by decide))
      -- the second map of this iteration
      have st3 := replaceInter_eff m.n ha i _ _ _ _ h3
      have M2 : Mid m m2 (next + (2 + 2 * k)) := by
        refine ⟨w2, by rw [inv2.n_eq, n1], by rw [inv2.u_eq, uu1], fun x => by rw [tg2, tg1], ?_, ?_⟩
        · refine PairInv.of_local w1 w2 inv2.n_eq tg2 (fun d => d ∈ eid :: fh ∨ d ∈ m1.β 2 eid :: sh) ?_ ?_ M1.pair
          · intro d hd
            exact hres.frame2 d (fun _ => ⟨fun h => hd (Or.inl h), fun h => hd (Or.inr h)⟩)
          · intro d hd
            obtain ⟨a, b⟩ := inS d hd
            rw [tg1]; exact (I.fresh d a (by omega)).2.2
        · intro d hd hdn j hj
          have out1 : d ∉ eid :: fh := fun h => by have := inS d (Or.inl h); omega
          have out2 : d ∉ m1.β 2 eid :: sh := fun h => by have := inS d (Or.inr h); omega
          have hf := (I.fresh d (by omega) hdn).2.1
          have hm1 := M1.free d (by omega) hdn
          rcases (by omega : j = 0 ∨ j = 1 ∨ j = 2) with rfl | rfl | rfl
          · rw [hres.frame0 d (fun h => out1 (List.mem_cons_of_mem _ h)) ?_ (fun _ => ⟨fun h => out2 (List.mem_cons_of_mem _ h), ?_⟩)]
            · exact hm1 0 (by omega)
            · -- d is not the old successor of the subdivided dart
              rcases heid' with ⟨h, _⟩ | ⟨h, _⟩
              · rw [h, e2]; omega
              · rw [h, e4]; omega
            · rcases heid' with ⟨_, h⟩ | ⟨_, h⟩
              · rw [h, e4]; omega
              · rw [h, e2]; omega
          · rw [hres.frame1 d out1 (fun _ => out2)]; exact hm1 1 (by omega)
          · rw [hres.frame2 d (fun _ => ⟨out1, out2⟩)]; exact hm1 2 (by omega)
      -- `replaceInter` only writes coordinates and anchors
      refine ⟨M2.wf.sameTopo st3.1, by rw [st3.1.n, M2.n], by rw [st3.1.u, M2.u], ?_, ?_, ?_⟩
      · intro x; show m3.att sBd x = _; rw [st3.2 sBd x (by decide) (by decide)]; exact M2.tag x
      · intro d hd0 hd hd2
        have hβ : m3.β = m2.β := β_of_sameTopo st3.1
        show m3.att sBd d = _ ↔ m3.att sBd (m3.β 2 d) = _
        rw [st3.2 sBd _ (by decide) (by decide), st3.2 sBd _ (by decide) (by decide), hβ]
        rw [hβ] at hd2
        exact M2.pair d hd0 (by rw [← st3.1.n]; exact hd) hd2
      · intro d hd hdn j hj
        rw [β_of_sameTopo st3.1]; exact M2.free d hd hdn j hj
  -- `mark_boundary`
  obtain ⟨okb, hr⟩ := C14.rB_bind_ok hr
  rw [← M3.n] at hr
  have T3 : TagsLR m3 := fun x => by rw [M3.tag]; exact I.tags x
  obtain ⟨st, _, T', P', loc⟩ := C16_markBoundary_spec e.stop _ _ m3 m' M3.wf T3 M3.pair hr
  refine ⟨⟨M3.wf.sameTopo st, T', P', by have := I.pos; omega, ?_⟩, by rw [st.n, M3.n], by rw [st.u, M3.u]⟩
  intro d hd hdn
  rw [st.n, M3.n] at hdn
  have hβ : m'.β = m3.β := β_of_sameTopo st
  refine ⟨by unfold Map.unused; rw [st.u, M3.u]; exact (I.fresh d (by omega) hdn).1,
    fun j hj => by rw [hβ]; exact M3.free d hd hdn j hj, ?_⟩
  -- a dart that is still free cannot have been met by the walk
  by_cases hch : tagOf m' d = tagOf m3 d
  · rw [hch, M3.tag]; exact (I.fresh d (by omega) hdn).2.2
  · rcases loc d hch with h | h | ⟨j, hj, h⟩
    · -- the first dart of the walk is the β1 image of the start dart
      exfalso
      have hb := M3.free d hd hdn 0 (by omega)
      have hs3 : e.start < m3.n := by rw [M3.n]; exact hs.2.1
      by_cases hz : m3.β 1 e.start = 0
      · rw [h, hz] at hd; have := I.pos; omega
      · have := M3.wf.inv01 e.start hs3 hz
        rw [← h, hb] at this
        exact hs.1 this.symm
    · have := I.pos; omega
    · exact absurd (M3.free d hd hdn j hj) h

/-! ## the whole `insert_edges_in_map` -/

theorem C16_insertEdgesFrom_inv (ha : Bool) : ∀ (edges : List MEdge) (m m' : Map Val) (next i : Nat), EInv m next →
    (∀ e, e ∈ edges → C01.InUse m e.start ∧ C01.InUse m e.stop) →
    next + (edges.map fun e => 2 + 2 * e.inter.length).sum ≤ m.n →
    run (insertEdgesFrom m.n ha i (edges.zip (edgeSlices next edges))) m = (.ok (), m') →
    EInv m' (next + (edges.map fun e => 2 + 2 * e.inter.length).sum) ∧ m'.n = m.n ∧ m'.u = m.u := by
  intro edges
  induction edges with
  | nil =>
      intro m m' next i I _ _ h
      simp only [edgeSlices, List.zip_nil_right, insertEdgesFrom, Prog.pure_eq, run_ret, Prod.mk.injEq] at h
      rw [← h.2]; simpa using I
  | cons e es ih =>
      intro m m' next i I hio hroom h
      simp only [edgeSlices, List.zip_cons_cons, insertEdgesFrom, Prog.bind_eq] at h
      obtain ⟨_, m1, h1, h2⟩ := run_bind_ok h
      simp only [List.map_cons, List.sum_cons] at hroom ⊢
      obtain ⟨hs, he⟩ := hio e List.mem_cons_self
      obtain ⟨I1, n1, u1⟩ := C16_insertOneEdge_inv I hs he (by omega) h1
      rw [← n1] at h2
      have hio' : ∀ e', e' ∈ es → C01.InUse m1 e'.start ∧ C01.InUse m1 e'.stop := by
        intro e' he'
        obtain ⟨a, b⟩ := hio e' (List.mem_cons_of_mem _ he')
        exact ⟨⟨a.1, by rw [n1]; exact a.2.1, by unfold Map.unused; rw [u1]; exact a.2.2⟩,
          ⟨b.1, by rw [n1]; exact b.2.1, by unfold Map.unused; rw [u1]; exact b.2.2⟩⟩
      obtain ⟨I2, n2, u2⟩ := ih m1 m' _ (i + 1) I1 hio' (by rw [n1]; omega) h2
      exact ⟨by rw [Nat.add_assoc] at I2; exact I2, by rw [n2, n1], by rw [u2, u1]⟩

theorem addFreeDarts_att_none {m : Map Val} (s : Nat) (h : ∀ d, m.att s d = none) (k : Nat) :
    ∀ d, (m.addFreeDarts k).2.att s d = none := by
  intro d
  unfold Map.addFreeDarts Map.att
  simp only
  by_cases hs : s < m.a.size
  · rw [rd_map _ _ _ hs]
    by_cases hd : d < (rd m.a s).size
    · rw [rd_ext_lt _ _ _ _ hd]; exact h d
    · by_cases hd2 : d < (rd m.a s).size + k
      · exact rd_ext_ge _ _ _ _ (by omega) hd2
      · rw [rd_oob]; rfl; rw [size_ext]; omega
  · rw [rd_oob (a := m.a.map _) (i := s) (by simpa using Nat.le_of_not_lt hs)]
    rw [rd_oob]; rfl; exact Nat.zero_le _

/-- **C16, step 5 — `insert_edges_in_map` from an untagged map**: on a well-formed map without any `Boundary` value, with
    the start and end darts of the edges in use, a successful run gives a well-formed map with the same flags, `n_tot` more
    darts, every tag `Left` / `Right` / absent and opposite tags on the two sides of every tagged 2-linked dart -/
theorem C16_insert_edges_inv {m m' : Map Val} {ha : Bool} {edges : List MEdge} (hwf : WF 3 m)
    (hnotag : ∀ d, m.att sBd d = none)
    (hio : ∀ e, e ∈ edges → C01.InUse m e.start ∧ C01.InUse m e.stop)
    (hr : stepFive m ha edges = (.ok (), m')) :
    WF 3 m' ∧ m'.n = m.n + (edges.map fun e => 2 + 2 * e.inter.length).sum ∧ TagsLR m' ∧ PairInv m' := by
  unfold stepFive at hr
  simp only at hr
  set k := (edges.map fun e => 2 + 2 * e.inter.length).sum with hk
  have hs := hwf.toSized
  have w1 : WF 3 (m.addFreeDarts k).2 := hwf.addFreeDarts (by omega) k
  have hn1 : (m.addFreeDarts k).2.n = m.n + k := rfl
  have t1 := addFreeDarts_att_none sBd hnotag k
  have I1 : EInv (m.addFreeDarts k).2 m.n := by
    refine ⟨w1, fun d => Or.inl (t1 d), ?_, hs.npos, ?_⟩
    · intro d _ _ _
      show (m.addFreeDarts k).2.att sBd d = _ ↔ (m.addFreeDarts k).2.att sBd _ = _
      rw [t1, t1]; simp
    · intro d hd hdn
      refine ⟨?_, ?_, t1 d⟩
      · rw [addFreeDarts_unused hs, if_neg (by omega)]
      · intro i hi; rw [addFreeDarts_β hs k i d hi, if_neg (by omega)]
  have hio' : ∀ e, e ∈ edges → C01.InUse (m.addFreeDarts k).2 e.start ∧ C01.InUse (m.addFreeDarts k).2 e.stop := by
    intro e he
    obtain ⟨a, b⟩ := hio e he
    refine ⟨⟨a.1, by rw [hn1]; have := a.2.1; omega, ?_⟩, ⟨b.1, by rw [hn1]; have := b.2.1; omega, ?_⟩⟩
    · rw [addFreeDarts_unused hs, if_pos a.2.1]; exact a.2.2
    · rw [addFreeDarts_unused hs, if_pos b.2.1]; exact b.2.2
  have hfst : (m.addFreeDarts k).1 = m.n := rfl
  rw [hfst] at hr
  obtain ⟨I2, n2, _⟩ := C16_insertEdgesFrom_inv ha edges _ m' m.n 0 I1 hio' (by rw [hn1]) hr
  exact ⟨I2.wf, by rw [n2, hn1], I2.tags, I2.pair⟩

/-- **C16 — the hypotheses of `C16_clip_WF` hold for pipeline outputs**, for both clips: every tag is one of
    `None` / `mark` / `other` (or absent), and every 2-linked dart tagged `other` faces a dart tagged `mark` -/
theorem C16_pipeline_clip_hyps {m : Map Val} (hwf : WF 3 m) (ht : TagsLR m) (hp : PairInv m) :
    (∀ x, x ≠ 0 → x < m.n → tagOf m x = none ∨ tagOf m x = some bdNone ∨ tagOf m x = some bdLeft ∨
      tagOf m x = some bdRight) ∧
    (∀ e, e ≠ 0 → e < m.n → tagOf m e = some bdRight → m.β 2 e ≠ 0 → tagOf m (m.β 2 e) = some bdLeft) ∧
    (∀ e, e ≠ 0 → e < m.n → tagOf m e = some bdLeft → m.β 2 e ≠ 0 → tagOf m (m.β 2 e) = some bdRight) := by
  refine ⟨?_, ?_, ?_⟩
  · intro x _ _
    rcases ht x with h | h | h
    · exact Or.inl h
    · exact Or.inr (Or.inr (Or.inl h))
    · exact Or.inr (Or.inr (Or.inr h))
  · intro e h0 hlt htag h2
    exact (hp.symm hwf h0 hlt h2).1 htag
  · intro e h0 hlt htag h2
    exact (hp e h0 hlt h2).1 htag

/-- **C16 — steps 5 + clip**: after `insert_edges_in_map` on an untagged well-formed map, `clip_left` and `clip_right`
    (for every iteration order of their `HashSet`) return a well-formed map in which every remaining dart tagged with the
    kept side is 2-free — `C16_clip_WF` with its hypotheses discharged -/
theorem C16_pipeline_clip_WF {m m1 m' : Map Val} {ha hb : Bool} {edges : List MEdge} (hwf : WF 3 m) (hst : 9 < m.a.size)
    (hnotag : ∀ d, m.att sBd d = none)
    (hio : ∀ e, e ∈ edges → C01.InUse m e.start ∧ C01.InUse m e.stop)
    (h5 : stepFive m ha edges = (.ok (), m1)) (left : Bool)
    (perm : List Nat → List Nat) (hperm : ∀ l, l.Nodup → (perm l).Nodup ∧ ∀ f, f ∈ perm l ↔ f ∈ l)
    (hst1 : 9 < m1.a.size)
    (hc : run (clipWith m1.n (if left then bdLeft else bdRight) (if left then bdRight else bdLeft) hb perm) m1 = (.ok (), m')) :
    WF 3 m' ∧ ∀ x, x ≠ 0 → x < m1.n → m'.unused x = false →
      tagOf m' x = some (if left then bdRight else bdLeft) → m'.β 2 x = 0 := by
  obtain ⟨w1, _, t1, p1⟩ := C16_insert_edges_inv hwf hnotag hio h5
  obtain ⟨c1, c2, c3⟩ := C16_pipeline_clip_hyps w1 t1 p1
  cases left with
  | true =>
      simp only [if_true] at hc ⊢
      exact C16_clip_WF w1 hst1 bdLeft bdRight hb perm hperm c1 c2 hc
  | false =>
      simp only [Bool.false_eq_true, if_false] at hc ⊢
      refine C16_clip_WF w1 hst1 bdRight bdLeft hb perm hperm ?_ c3 hc
      intro x h0 hlt
      rcases c1 x h0 hlt with h | h | h | h
      · exact Or.inl h
      · exact Or.inr (Or.inl h)
      · exact Or.inr (Or.inr (Or.inr h))
      · exact Or.inr (Or.inr (Or.inl h))

/-! ## orientation: `Left` on the new edge in the direction of the geometry, `Right` on the other side -/

theorem b1chain_congr {m m1 : Map Val} (hb : m1.b = m.b) : ∀ (l : List Nat) (d : Nat), B1Chain m d l → B1Chain m1 d l := by
  intro l
  induction l with
  | nil => intro _ _; trivial
  | cons x rest ih =>
      intro d h
      exact ⟨by have : m1.β 1 d = m.β 1 d := by unfold Map.β; rw [hb]
                rw [this]; exact h.1, ih x h.2⟩

/-- `mark_boundary` along a known β1 chain `d → l … → stop` whose darts are 2-linked and are nobody's β2 image inside
    the chain: every dart of the chain ends `Left`, its β2 image `Right`, and nothing else changes its tag -/
theorem markBoundary_chain (stop : Nat) : ∀ (l : List Nat) (d : Nat) (m m' : Map Val) (fuel : Nat), WF 3 m →
    B1Chain m d l → m.β 1 (l.getLastD d) = stop → stop ∉ d :: l → (d :: l).Nodup →
    (∀ x, x ∈ d :: l → x < m.n ∧ m.β 2 x ≠ 0) →
    (∀ x, x ∈ d :: l → ∀ y, y ∈ d :: l → m.β 2 y ≠ x) →
    run (markBoundary stop fuel d) m = (.ok (), m') →
    m'.b = m.b ∧
    (∀ x, x ∈ d :: l → tagOf m' x = some bdLeft ∧ tagOf m' (m.β 2 x) = some bdRight) ∧
    (∀ z, z ∉ d :: l → (∀ y, y ∈ d :: l → m.β 2 y ≠ z) → tagOf m' z = tagOf m z) := by
  intro l
  induction l with
  | nil =>
      intro d m m' fuel hwf _ hlast hstop _ hlt hdis h
      simp only [List.getLastD_nil] at hlast
      cases fuel with
      | zero => simp [markBoundary, run] at h
      | succ f =>
          unfold markBoundary at h
          have hds : d ≠ stop := fun e => hstop (by rw [e]; exact List.mem_cons_self)
          rw [if_neg hds] at h
          simp only [Prog.bind_eq] at h
          have h := C14.rA_bind_ok h
          rw [run_wA] at h
          by_cases ok1 : m.okA sBd d = true
          · simp only [ok1, if_true] at h
            obtain ⟨_, h⟩ := C14.rB_bind_ok h
            have h := C14.rA_bind_ok h
            rw [run_wA] at h
            simp only [Map.β_setA] at h
            by_cases ok2 : (m.setA sBd d (some bdLeft)).okA sBd (m.β 2 d) = true
            · simp only [ok2, if_true] at h
              obtain ⟨_, h⟩ := C14.rB_bind_ok h
              simp only [Map.β_setA, hlast] at h
              -- the walk stops
              have hm' : m' = (m.setA sBd d (some bdLeft)).setA sBd (m.β 2 d) (some bdRight) := by
                cases f with
                | zero => simp [markBoundary, run] at h
                | succ f' =>
                    unfold markBoundary at h
                    rw [if_pos rfl] at h
                    simp only [Prog.pure_eq, run_ret, Prod.mk.injEq] at h
                    exact h.2.symm
              have tag1 : ∀ y, tagOf m' y = if m.β 2 d = y then some bdRight else if d = y then some bdLeft else tagOf m y := by
                intro y
                show m'.att sBd y = _
                rw [hm', Map.att_setA, Map.att_setA]
                simp only [ok1, ok2, true_and, and_true]
              have hne : m.β 2 d ≠ d := hdis d List.mem_cons_self d List.mem_cons_self
              refine ⟨by rw [hm']; rfl, ?_, ?_⟩
              · intro x hx
                have : x = d := by simpa using hx
                subst this
                exact ⟨by rw [tag1, if_neg hne, if_pos rfl], by rw [tag1, if_pos rfl]⟩
              · intro z hz hz2
                rw [tag1, if_neg (hz2 d List.mem_cons_self), if_neg (fun e => hz (by rw [← e]; exact List.mem_cons_self))]
            · simp [ok2] at h
          · simp [ok1] at h
  | cons x rest ih =>
      intro d m m' fuel hwf hch hlast hstop hnd hlt hdis h
      obtain ⟨hb1, hch'⟩ := hch
      cases fuel with
      | zero => simp [markBoundary, run] at h
      | succ f =>
          unfold markBoundary at h
          have hds : d ≠ stop := fun e => hstop (by rw [e]; exact List.mem_cons_self)
          rw [if_neg hds] at h
          simp only [Prog.bind_eq] at h
          have h := C14.rA_bind_ok h
          rw [run_wA] at h
          by_cases ok1 : m.okA sBd d = true
          · simp only [ok1, if_true] at h
            obtain ⟨_, h⟩ := C14.rB_bind_ok h
            have h := C14.rA_bind_ok h
            rw [run_wA] at h
            simp only [Map.β_setA] at h
            by_cases ok2 : (m.setA sBd d (some bdLeft)).okA sBd (m.β 2 d) = true
            · simp only [ok2, if_true] at h
              obtain ⟨_, h⟩ := C14.rB_bind_ok h
              simp only [Map.β_setA, hb1] at h
              set m1 := (m.setA sBd d (some bdLeft)).setA sBd (m.β 2 d) (some bdRight) with hm1
              have hb : m1.b = m.b := rfl
              have hβ : ∀ a b, m1.β a b = m.β a b := fun _ _ => rfl
              have tag1 : ∀ y, tagOf m1 y = if m.β 2 d = y then some bdRight else if d = y then some bdLeft else tagOf m y := by
                intro y
                show m1.att sBd y = _
                rw [hm1, Map.att_setA, Map.att_setA]
                simp only [ok1, ok2, true_and, and_true]
              have st1 : SameTopo m m1 := (SameTopo.setA _ _ _ _).trans (SameTopo.setA _ _ _ _)
              have hnd2 : (x :: rest).Nodup := (List.nodup_cons.1 hnd).2
              have hnd1 : d ∉ x :: rest := (List.nodup_cons.1 hnd).1
              have hsub : ∀ y, y ∈ x :: rest → y ∈ d :: x :: rest := fun y hy => List.mem_cons_of_mem _ hy
              obtain ⟨i0, i1, i2⟩ := ih x m1 m' f (hwf.sameTopo st1) (b1chain_congr hb rest x hch')
                (by rw [hβ, ← hlast, List.getLastD_cons])
                (fun hh => hstop (hsub _ hh)) hnd2
                (fun y hy => by rw [hβ]; exact hlt y (hsub y hy))
                (fun a ha b hb' => by rw [hβ]; exact hdis a (hsub a ha) b (hsub b hb')) h
              simp only [hβ] at i1 i2
              have hdd : d ∈ d :: x :: rest := List.mem_cons_self
              have hne : m.β 2 d ≠ d := hdis d hdd d hdd
              refine ⟨i0.trans hb, ?_, ?_⟩
              · intro y hy
                rcases List.mem_cons.1 hy with rfl | hy
                · -- the first dart: written now, not overwritten later
                  have h1 := i2 y hnd1 (fun b hb' => hdis y hdd b (hsub b hb'))
                  have h2 : tagOf m' (m.β 2 y) = tagOf m1 (m.β 2 y) := by
                    apply i2
                    · intro hh; exact hdis _ (hsub _ hh) y hdd rfl
                    · intro b hb' e
                      -- β2 is injective on 2-linked darts
                      have hb2 := hlt b (hsub b hb')
                      have hy2 := hlt y hdd
                      have := (hwf.invol 2 (by omega) (by omega) b hb2.1 hb2.2).1
                      rw [e, (hwf.invol 2 (by omega) (by omega) y hy2.1 hy2.2).1] at this
                      exact hnd1 (by rw [this]; exact hb')
                  exact ⟨by rw [h1, tag1, if_neg hne, if_pos rfl], by rw [h2, tag1, if_pos rfl]⟩
                · exact i1 y hy
              · intro z hz hz2
                have hz' : z ∉ x :: rest := fun hh => hz (hsub z hh)
                rw [i2 z hz' (fun b hb' => hz2 b (hsub b hb')), tag1, if_neg (hz2 d hdd),
                  if_neg (fun e => hz (by rw [← e]; exact hdd))]
            · simp [ok2] at h
          · simp [ok1] at h

/-! ## the shape of one inserted edge: chain, points of interest, node anchors -/

/-- the darts `replaceInter` walks: `d, β1 d, β1 (β1 d), …` -/
def walkB1 (m : Map Val) : Nat → Nat → List Nat
  | _, 0 => []
  | d, k + 1 => d :: walkB1 m (m.β 1 d) k

theorem walkB1_congr {m m1 : Map Val} (hb : m1.b = m.b) : ∀ (k d : Nat), walkB1 m1 d k = walkB1 m d k := by
  intro k
  induction k with
  | zero => intro d; rfl
  | succ k ih =>
      intro d
      have : m1.β 1 d = m.β 1 d := by unfold Map.β; rw [hb]
      simp only [walkB1, this, ih]

/-- the loop that replaces the placeholder vertices: the `j`-th point goes to the slot of the vertex identifier of the
    `j`-th dart walked (and, with anchors, `Node(i)` to the same slot of the anchor storage); nothing else is written -/
theorem replaceInter_att (n : Nat) (ha : Bool) (i : Nat) : ∀ (l : List Pt) (d : Nat) (m m' : Map Val),
    run (replaceInter n ha i d l) m = (.ok (), m') →
    ((walkB1 m d l.length).map (fun x => (run (vertexId2 n x) m).1)).Nodup →
      m'.b = m.b ∧
      (∀ x ∈ (walkB1 m d l.length).zip l, ∀ vid, (run (vertexId2 n x.1) m).1 = .ok vid →
        m'.att 0 vid = some (.pt x.2.1 x.2.2 0) ∧ (ha = true → m'.att sVA vid = some (.tm (.leaf (4 * i))))) ∧
      (∀ s y, ((s ≠ 0 ∧ s ≠ sVA) ∨ ∀ x ∈ walkB1 m d l.length, (run (vertexId2 n x) m).1 ≠ .ok y) →
        m'.att s y = m.att s y) := by
  intro l
  induction l with
  | nil =>
      intro d m m' h _
      simp only [replaceInter, Prog.pure_eq, run_ret, Prod.mk.injEq] at h
      rw [← h.2]
      exact ⟨rfl, by simp [walkB1], fun _ _ _ => rfl⟩
  | cons v vs ih =>
      intro d m m' h hnd
      unfold replaceInter at h
      simp only [Prog.bind_eq] at h
      obtain ⟨vid0, hv0, h⟩ := ro_bind_ok (readOnly_vertexId2 (X := Val) n d) h
      unfold writeVtx at h
      simp only [Prog.bind_eq, Prog.pure_eq, Prog.bind_assoc] at h
      have h := C14.rA_bind_ok h
      rw [run_wA] at h
      have hv0' : (run (vertexId2 n d) m).1 = .ok vid0 := by rw [hv0]
      simp only [List.length_cons, walkB1, List.map_cons, List.nodup_cons, List.mem_map, not_exists, not_and] at hnd
      obtain ⟨hhead, hrest⟩ := hnd
      by_cases ok0 : m.okA 0 vid0 = true
      · simp only [ok0, if_true] at h
        simp only [Prog.bind_eq, Prog.ret_bind] at h
        -- the map after the writes of this iteration
        have key : ∀ (m1 : Map Val), m1.b = m.b → m1.att 0 vid0 = some (.pt v.1 v.2 0) →
            (ha = true → m1.att sVA vid0 = some (.tm (.leaf (4 * i)))) →
            (∀ s y, ((s ≠ 0 ∧ s ≠ sVA) ∨ y ≠ vid0) → m1.att s y = m.att s y) →
            run (replaceInter n ha i (m.β 1 d) vs) m1 = (.ok (), m') →
            m'.b = m.b ∧
            (∀ x ∈ (d :: walkB1 m (m.β 1 d) vs.length).zip (v :: vs), ∀ vid, (run (vertexId2 n x.1) m).1 = .ok vid →
              m'.att 0 vid = some (.pt x.2.1 x.2.2 0) ∧ (ha = true → m'.att sVA vid = some (.tm (.leaf (4 * i))))) ∧
            (∀ s y, ((s ≠ 0 ∧ s ≠ sVA) ∨ ∀ x ∈ d :: walkB1 m (m.β 1 d) vs.length, (run (vertexId2 n x) m).1 ≠ .ok y) →
              m'.att s y = m.att s y) := by
          intro m1 hb1 hp1 ha1 hfr1 hrun
          have hout : ∀ x, (run (vertexId2 n x) m1).1 = (run (vertexId2 n x) m).1 :=
            fun x => (C14.bOnly_vertexId2 n x).2 _ _ hb1
          have hw : walkB1 m1 (m.β 1 d) vs.length = walkB1 m (m.β 1 d) vs.length := walkB1_congr hb1 _ _
          have hnd1 : ((walkB1 m1 (m.β 1 d) vs.length).map (fun x => (run (vertexId2 n x) m1).1)).Nodup := by
            rw [hw]; simp only [hout]; exact hrest
          obtain ⟨i0, i1, i2⟩ := ih _ m1 m' hrun hnd1
          rw [hw] at i1 i2
          simp only [hout] at i1 i2
          refine ⟨i0.trans hb1, ?_, ?_⟩
          · intro x hx vid hvid
            simp only [List.zip_cons_cons, List.mem_cons] at hx
            rcases hx with rfl | hx
            · simp only at hvid
              rw [hv0'] at hvid
              simp only [Out.ok.injEq] at hvid
              subst hvid
              have hno : ∀ z ∈ walkB1 m (m.β 1 d) vs.length, (run (vertexId2 n z) m).1 ≠ .ok vid0 :=
                fun z hz hh => hhead z hz (by rw [hh, hv0'])
              refine ⟨by rw [i2 0 vid0 (Or.inr hno)]; exact hp1, fun hat => by rw [i2 sVA vid0 (Or.inr hno)]; exact ha1 hat⟩
            · exact i1 x hx vid hvid
          · intro s y hsy
            have c1 : (s ≠ 0 ∧ s ≠ sVA) ∨ ∀ x ∈ walkB1 m (m.β 1 d) vs.length, (run (vertexId2 n x) m).1 ≠ .ok y := by
              rcases hsy with hs | hd
              · exact Or.inl hs
              · exact Or.inr fun z hz => hd z (List.mem_cons_of_mem _ hz)
            rw [i2 s y c1]
            apply hfr1
            rcases hsy with hs | hd
            · exact Or.inl hs
            · right; intro e; exact hd d List.mem_cons_self (by rw [e]; exact hv0')
        cases ha with
        | false =>
            simp only [Bool.false_eq_true, if_false, Prog.pure_eq, Prog.ret_bind] at h
            obtain ⟨_, h⟩ := C14.rB_bind_ok h
            simp only [Map.β_setA] at h
            refine key (m.setA 0 vid0 (some (Val.pt v.1 v.2 0))) rfl (by rw [Map.att_setA]; simp [ok0]) (fun hh => by cases hh) ?_ h
            intro s y hsy
            rw [Map.att_setA]
            have : ¬ (0 = s ∧ vid0 = y ∧ m.okA 0 vid0 = true) := by
              rintro ⟨rfl, rfl, _⟩
              rcases hsy with hs | hd
              · exact hs.1 rfl
              · exact hd rfl
            simp [this]
        | true =>
            simp only [if_true, Prog.bind_eq, Prog.bind_assoc] at h
            have h := C14.rA_bind_ok h
            rw [run_wA] at h
            by_cases ok1 : (m.setA 0 vid0 (some (Val.pt v.1 v.2 0))).okA sVA vid0 = true
            · simp only [ok1, if_true] at h
              obtain ⟨_, h⟩ := C14.rB_bind_ok h
              simp only [Map.β_setA] at h
              refine key ((m.setA 0 vid0 (some (Val.pt v.1 v.2 0))).setA sVA vid0 (some (Val.tm (Term.leaf (4 * i))))) rfl ?_
                (fun _ => by rw [Map.att_setA]; simp [ok1]) ?_ h
              · rw [Map.att_setA, if_neg (fun hh => by have := hh.1; simp [sVA] at this), Map.att_setA]; simp [ok0]
              · intro s y hsy
                rw [Map.att_setA, Map.att_setA]
                have n1 : ¬ (sVA = s ∧ vid0 = y ∧ (m.setA 0 vid0 (some (Val.pt v.1 v.2 0))).okA sVA vid0 = true) := by
                  rintro ⟨rfl, rfl, _⟩
                  rcases hsy with hs | hd
                  · exact hs.2 rfl
                  · exact hd rfl
                have n0 : ¬ (0 = s ∧ vid0 = y ∧ m.okA 0 vid0 = true) := by
                  rintro ⟨rfl, rfl, _⟩
                  rcases hsy with hs | hd
                  · exact hs.1 rfl
                  · exact hd rfl
                simp [n1, n0]
            · simp [ok1] at h
      · simp [ok0] at h

theorem walk_of_chain {m : Map Val} : ∀ (l : List Nat) (d : Nat), B1Chain m d l → walkB1 m (m.β 1 d) l.length = l := by
  intro l
  induction l with
  | nil => intro d _; rfl
  | cons x rest ih =>
      intro d h
      obtain ⟨h1, h2⟩ := h
      simp only [List.length_cons, walkB1, h1]
      rw [ih x h2]

theorem edgeId2_min {m m' : Map Val} {d x : Nat} (h : run (edgeId2 (X := Val) d) m = (.ok x, m')) :
    x = if m.β 2 d = 0 then d else min (m.β 2 d) d := by
  unfold edgeId2 at h
  simp only [Prog.bind_eq] at h
  obtain ⟨_, h⟩ := C14.rB_bind_ok h
  by_cases h0 : m.β 2 d = 0
  · rw [if_pos h0] at h ⊢; simp only [Prog.pure_eq, run_ret, Prod.mk.injEq, Out.ok.injEq] at h; exact h.1.symm
  · rw [if_neg h0] at h ⊢; simp only [Prog.pure_eq, run_ret, Prod.mk.injEq, Out.ok.injEq] at h; exact h.1.symm

/-- **C16 / C17, step 5 — the shape of one inserted edge**: after a successful iteration for the edge `e` (block of new
    darts `next, next + 1, next + 2, …`) the new edge is the β1 chain `e.start → next → next+2 → … → next+1+k → e.stop`
    (`k` points of interest), `next` is 2-linked, the `j`-th point of interest is the coordinate of the vertex of the
    `j`-th intermediate dart `next + 2 + j` — the points of interest are vertices of the map, in the order of the geometry —
    and, when the map carries the anchor storages (capture), that vertex is anchored to `Node(i)`, `i` the index of the edge -/
theorem C16_insertOneEdge_shape {m m' : Map Val} {next i : Nat} {ha : Bool} {e : MEdge} (I : EInv m next)
    (hs : C01.InUse m e.start) (he : C01.InUse m e.stop) (hroom : next + (2 + 2 * e.inter.length) ≤ m.n)
    (hr : run (insertOneEdge m.n ha i e (List.range' next (2 + 2 * e.inter.length))) m = (.ok (), m')) :
    B1Chain m' e.start (next :: List.range' (next + 2) e.inter.length) ∧
    m'.β 1 ((List.range' (next + 2) e.inter.length).getLastD next) = e.stop ∧ m'.β 2 next ≠ 0 ∧
    (∀ (j : Nat) (pt : Pt), e.inter[j]? = some pt → ∀ vid, (run (vertexId2 m.n (next + 2 + j)) m').1 = .ok vid →
      m'.att 0 vid = some (.pt pt.1 pt.2 0) ∧ (ha = true → m'.att sVA vid = some (.tm (.leaf (4 * i))))) ∧
    (∀ x, x ∈ next :: List.range' (next + 2) e.inter.length →
      tagOf m' x = some bdLeft ∧ tagOf m' (m'.β 2 x) = some bdRight) := by
  have hwf := I.wf
  set k := e.inter.length with hk
  unfold insertOneEdge at hr
  simp only [Prog.bind_eq] at hr
  rw [rg' (by omega : 0 < 2 + 2 * k), rg' (by omega : 1 < 2 + 2 * k), Nat.add_zero] at hr
  obtain ⟨_, m1, h1, hrA⟩ := run_bind_ok hr
  clear hr
  obtain ⟨u0, f0, t0⟩ := I.fresh next (Nat.le_refl _) (by omega)
  obtain ⟨u1, f1, t1⟩ := I.fresh (next + 1) (by omega) (by omega)
  have id0 : C01.InUse m next := ⟨by have := I.pos; omega, by omega, u0⟩
  have id1 : C01.InUse m (next + 1) := ⟨by omega, by omega, u1⟩
  obtain ⟨w1, n1, uu1, a1, _, hb1s, hb0e, e1, e2, e3, e4, e5, e6, e7⟩ :=
    C16_buildBaseEdge_spec hwf hs he id0 id1 f0 f1 (by omega) h1
  have notFresh : ∀ d, d < m.n → (∃ j, j < 3 ∧ m.β j d ≠ 0) → d < next := by
    intro d hd ⟨j, hj, hne⟩
    rcases Nat.lt_or_ge d next with h' | h'
    · exact h'
    · exact absurd ((I.fresh d h' hd).2.1 j hj) hne
  have hstart : e.start < next := notFresh _ hs.2.1 ⟨1, by omega, hb1s⟩
  obtain ⟨_, m3, h3, hrB⟩ := run_bind_ok hrA
  obtain ⟨_, hmark⟩ := C14.rB_bind_ok hrB
  clear hrA hrB
  -- `mark_boundary` changes no β and no coordinate / anchor
  have mark : ∀ (hw3 : WF 3 m3) (ht3 : TagsLR m3) (hp3 : PairInv m3), m'.b = m3.b ∧ ∀ s x, s ≠ sBd → m'.att s x = m3.att s x := by
    intro hw3 ht3 hp3
    obtain ⟨st, hatt, _⟩ := C16_markBoundary_spec e.stop _ _ m3 m' hw3 ht3 hp3 hmark
    exact ⟨st.b, hatt⟩
  have M1pair : PairInv m1 := by
    refine PairInv.of_local hwf w1 n1 (fun x => by show m1.att sBd x = m.att sBd x; rw [a1])
      (fun d => d = next ∨ d = next + 1) ?_ ?_ I.pair
    · intro d hd
      rw [e5 d, if_neg (fun h => hd (Or.inl h)), if_neg (fun h => hd (Or.inr h))]
    · rintro d (rfl | rfl)
      · exact t0
      · exact t1
  have T1 : TagsLR m1 := fun x => by
    have e : tagOf m1 x = tagOf m x := by show m1.att sBd x = m.att sBd x; rw [a1]
    rw [e]; exact I.tags x
  by_cases hemp : e.inter.isEmpty = true
  · -- no point of interest
    rw [if_pos hemp] at h3
    simp only [Prog.pure_eq, run_ret, Prod.mk.injEq] at h3
    have hk0 : k = 0 := by rw [hk]; simpa using hemp
    rw [← h3.2] at hmark mark
    obtain ⟨hb, _⟩ := mark w1 T1 M1pair
    have hβ : ∀ a b, m'.β a b = m1.β a b := fun a b => by unfold Map.β; rw [hb]
    rw [hk0]
    simp only [List.range'_zero, List.getLastD_nil]
    have hstop : e.stop < next := notFresh _ he.2.1 ⟨0, by omega, hb0e⟩
    have b2n : m1.β 2 next = next + 1 := by rw [e5, if_pos rfl]
    rw [e1] at hmark
    have c1 : ∀ x, x ∈ [next] → x < m1.n ∧ m1.β 2 x ≠ 0 := by
      intro x hx
      have hx' : x = next := by simpa using hx
      rw [hx', b2n, n1]; exact ⟨by omega, by omega⟩
    have c2 : ∀ x, x ∈ [next] → ∀ y, y ∈ [next] → m1.β 2 y ≠ x := by
      intro x hx y hy
      have hx' : x = next := by simpa using hx
      have hy' : y = next := by simpa using hy
      rw [hx', hy', b2n]; omega
    have c3 : e.stop ∉ [next] := by
      intro hx
      have : e.stop = next := by simpa using hx
      omega
    obtain ⟨_, ctag, _⟩ := markBoundary_chain e.stop [] next m1 m' _ w1 trivial (by simpa using e2)
      c3 (by simp) c1 c2 hmark
    refine ⟨⟨by rw [hβ]; exact e1, trivial⟩, by rw [hβ]; exact e2, by rw [hβ, e5, if_pos rfl]; omega, ?_, ?_⟩
    · intro j pt hj
      have : e.inter = [] := by simpa using hemp
      rw [this] at hj; simp at hj
    · intro x hx
      rw [hβ]; exact ctag x hx
  · rw [if_neg hemp] at h3
    have hkpos : 0 < k := by
      rw [hk]; cases hi : e.inter with
      | nil => rw [hi] at hemp; simp at hemp
      | cons _ _ => simp
    obtain ⟨eid, heid, h3a⟩ := ro_bind_ok (readOnly_edgeId2 (X := Val) next) h3
    obtain ⟨_, m2, h2, h3b⟩ := run_bind_ok h3a
    obtain ⟨_, h3c⟩ := C14.rB_bind_ok h3b
    clear h3 h3a h3b
    have b2n : m1.β 2 next = next + 1 := by rw [e5, if_pos rfl]
    have heq : eid = next := by
      rw [edgeId2_min heid, b2n, if_neg (by omega)]; exact Nat.min_eq_right (by omega)
    subst heq
    have ieid : C01.InUse m1 eid := ⟨id0.1, by rw [n1]; exact id0.2.1, by unfold Map.unused; rw [uu1]; exact id0.2.2⟩
    have hslice : (List.range' eid (2 + 2 * k)).drop 2 = List.range' (eid + 2) (2 * k) := by
      rw [List.drop_range']; congr 1 <;> omega
    rw [hslice, ← n1] at h2
    have hmem : ∀ d, d ∈ List.range' (eid + 2) (2 * k) → eid + 2 ≤ d ∧ d < eid + 2 + 2 * k := by
      intro d hd; rw [List.mem_range'_1] at hd; exact hd
    have hlive : ∀ d, d ∈ List.range' (eid + 2) (2 * k) → m1.unused d = false := by
      intro d hd
      obtain ⟨a, b⟩ := hmem d hd
      unfold Map.unused; rw [uu1]
      exact (I.fresh d (by omega) (by omega)).1
    have hlen : (e.inter.map fun _ => (1 / 2 : Rat)).length = k := by rw [List.length_map]
    have hsplit : List.range' (eid + 2) (2 * k) = List.range' (eid + 2) k ++ List.range' (eid + 2 + k) k := by
      rw [show 2 * k = k + k by omega, ← List.range'_append, Nat.one_mul]
    have htake : (List.range' (eid + 2) (2 * k)).take (e.inter.map fun _ => (1 / 2 : Rat)).length = List.range' (eid + 2) k := by
      rw [hlen, hsplit, List.take_left' (by rw [List.length_range'])]
    have hdrop : (List.range' (eid + 2) (2 * k)).drop (e.inter.map fun _ => (1 / 2 : Rat)).length = List.range' (eid + 2 + k) k := by
      rw [hlen, hsplit, List.drop_left' (by rw [List.length_range'])]
    have hfhnd : ((List.range' (eid + 2) (2 * k)).take (e.inter.map fun _ => (1 / 2 : Rat)).length).Nodup := by
      rw [htake]; exact List.nodup_range'
    obtain ⟨w2, hres⟩ := C14.C14_insertVertices_beta_structure m1 m2 eid _ _ w1 ieid hlive hfhnd
      (fun _ => List.nodup_range') h2
    have inv2 := C14.insertVertices_inv m1 m2 eid _ _ w1 ieid hlive (fun _ => List.nodup_range') h2
    have hdist := C14.C14_new_darts_distinct_vertices m1 m2 eid _ _ w1 ieid hlive hfhnd (fun _ => List.nodup_range') h2
    obtain ⟨_, _, _, _, _, _, _, _, _, hatt⟩ := C14.C14_new_vertex_position_full m1 m2 eid _ _ w1 ieid hlive hfhnd
      (fun _ => List.nodup_range') h2
    rw [htake] at hres hdist
    rw [hdrop] at hres
    set fh := List.range' (eid + 2) k with hfh
    set sh := List.range' (eid + 2 + k) k with hsh
    obtain ⟨hch, hlast⟩ := hres.side1
    -- the walk of `replaceInter` follows the new chain
    have hwalk : walkB1 m2 (m2.β 1 eid) e.inter.length = fh := by
      have := walk_of_chain fh eid hch
      rw [hfh, List.length_range'] at this
      rw [← hk]; exact this
    have hnd2 : ((walkB1 m2 (m2.β 1 eid) e.inter.length).map (fun x => (run (vertexId2 m.n x) m2).1)).Nodup := by
      rw [hwalk]
      have hz : ((e.inter.map fun _ => (1 / 2 : Rat)).zip fh).map (fun x => (run (vertexId2 m1.n x.2) m2).1) =
          fh.map (fun x => (run (vertexId2 m1.n x) m2).1) := by
        have : (fun x : Rat × Nat => (run (vertexId2 m1.n x.2) m2).1) =
            (fun x : Nat => (run (vertexId2 m1.n x) m2).1) ∘ Prod.snd := rfl
        rw [this, ← List.map_map, List.map_snd_zip (by rw [hlen, hfh, List.length_range'])]
      rw [hz, n1] at hdist
      exact hdist
    obtain ⟨hb3, hpts, _⟩ := replaceInter_att m.n ha i _ _ m2 m3 h3c hnd2
    rw [hwalk] at hpts
    -- tags and pairing, to run `mark_boundary`'s lemma
    have tg2 : ∀ x, tagOf m2 x = tagOf m1 x := fun x => hatt sBd x (Or.inl (by decide))
    have st3 := replaceInter_eff m.n ha i _ _ _ _ h3c
    have inS : ∀ d, (d ∈ eid :: fh ∨ d ∈ m1.β 2 eid :: sh) → eid ≤ d ∧ d < eid + (2 + 2 * k) := by
      intro d hd
      rcases hd with hd | hd <;> rcases List.mem_cons.1 hd with h | h
      · omega
      · rw [hfh, List.mem_range'_1] at h; omega
      · rw [b2n] at h; omega
      · rw [hsh, List.mem_range'_1] at h; omega
    have P2 : PairInv m2 := by
      refine PairInv.of_local w1 w2 inv2.n_eq tg2 (fun d => d ∈ eid :: fh ∨ d ∈ m1.β 2 eid :: sh) ?_ ?_ M1pair
      · intro d hd
        exact hres.frame2 d (fun _ => ⟨fun h => hd (Or.inl h), fun h => hd (Or.inr h)⟩)
      · intro d hd
        obtain ⟨a, b⟩ := inS d hd
        show m1.att sBd d = none
        rw [a1]; exact (I.fresh d a (by omega)).2.2
    have T3 : TagsLR m3 := by
      intro x
      have e : tagOf m3 x = tagOf m1 x := by
        show m3.att sBd x = _
        rw [st3.2 sBd x (by decide) (by decide)]; exact tg2 x
      rw [e]; exact T1 x
    have P3 : PairInv m3 := by
      intro d hd0 hd hd2
      have hβ : m3.β = m2.β := β_of_sameTopo st3.1
      show m3.att sBd d = _ ↔ m3.att sBd (m3.β 2 d) = _
      rw [st3.2 sBd _ (by decide) (by decide), st3.2 sBd _ (by decide) (by decide), hβ]
      rw [hβ] at hd2
      exact P2 d hd0 (by rw [← st3.1.n]; exact hd) hd2
    obtain ⟨hb', hatt'⟩ := mark (w2.sameTopo st3.1) T3 P3
    have hβ' : ∀ a b, m'.β a b = m2.β a b := fun a b => by unfold Map.β; rw [hb', hb3]
    have hstart_out : e.start ∉ eid :: fh := by
      intro h
      rcases List.mem_cons.1 h with h | h
      · omega
      · rw [hfh, List.mem_range'_1] at h; omega
    have hstart_out2 : e.start ∉ m1.β 2 eid :: sh := by
      intro h
      rcases List.mem_cons.1 h with h | h
      · rw [b2n] at h; omega
      · rw [hsh, List.mem_range'_1] at h; omega
    -- the β2 image of every dart of the new chain lies on the other side: `eid + 1` or a dart of the second half
    have hstop : e.stop < eid := notFresh _ he.2.1 ⟨0, by omega, hb0e⟩
    obtain ⟨hpz, _, hp2⟩ := hres.pairs (by rw [b2n]; omega)
    have hb2e : m2.β 2 eid = eid + 2 + k + (k - 1) := by
      rw [hp2]
      have hl := C14.getLastD_index sh (m1.β 2 eid)
      rw [hl, hsh, List.length_range']
      have : k = (k - 1) + 1 := by omega
      rw [this, List.getD_cons_succ, rg' (by omega)]
      omega
    have hb2f : ∀ j, j < k → m2.β 2 (eid + 2 + j) = eid + 1 ∨
        (eid + 2 + k ≤ m2.β 2 (eid + 2 + j) ∧ m2.β 2 (eid + 2 + j) < eid + 2 + 2 * k) := by
      intro j hj
      have := C14.zip_index (Q := fun p => m2.β 2 p.1 = p.2 ∧ m2.β 2 p.2 = p.1) hpz (k - 1 - j)
        (by simp only [List.length_cons, hsh, List.length_range']; omega)
        (by simp only [List.length_reverse, hfh, List.length_range']; omega)
      have e2' : fh.reverse.getD (k - 1 - j) 0 = eid + 2 + j := by
        rw [List.getD_eq_getElem?_getD,
          List.getElem?_eq_getElem (by simp only [List.length_reverse, hfh, List.length_range']; omega), List.getElem_reverse]
        simp only [hfh, List.length_range', List.getElem_range', Option.getD_some]
        omega
      rw [e2'] at this
      rw [this.2]
      by_cases hz : k - 1 - j = 0
      · left; rw [hz]; simp [b2n]
      · right
        have : k - 1 - j = (k - 1 - j - 1) + 1 := by omega
        rw [this, List.getD_cons_succ, hsh, rg' (by omega)]
        omega
    have hβ3 : ∀ a b, m3.β a b = m2.β a b := fun a b => by unfold Map.β; rw [hb3]
    have hchain3 : B1Chain m3 eid fh := b1chain_congr hb3 fh eid hch
    have hstart3 : m3.β 1 e.start = eid := by
      rw [hβ3, hres.frame1 _ hstart_out (fun _ => hstart_out2)]; exact e1
    rw [hstart3] at hmark
    have hmemc : ∀ x, x ∈ eid :: fh → x = eid ∨ (∃ j, j < k ∧ x = eid + 2 + j) := by
      intro x hx
      rcases List.mem_cons.1 hx with h | h
      · exact Or.inl h
      · right; rw [hfh, List.mem_range'_1] at h; exact ⟨x - (eid + 2), by omega, by omega⟩
    have hb2c : ∀ x, x ∈ eid :: fh → m3.β 2 x = eid + 1 ∨ (eid + 2 + k ≤ m3.β 2 x ∧ m3.β 2 x < eid + 2 + 2 * k) := by
      intro x hx
      rw [hβ3]
      rcases hmemc x hx with rfl | ⟨j, hj, rfl⟩
      · right; rw [hb2e]; omega
      · exact hb2f j hj
    obtain ⟨_, ctag, _⟩ := markBoundary_chain e.stop fh eid m3 m' _ (w2.sameTopo st3.1) hchain3
      (by rw [hβ3, hlast]; exact e2)
      (by intro hx; rcases hmemc _ hx with h | ⟨j, _, h⟩ <;> omega)
      (by rw [List.nodup_cons]; refine ⟨?_, by rw [hfh]; exact List.nodup_range'⟩
          intro hx; rw [hfh, List.mem_range'_1] at hx; omega)
      (by intro x hx
          refine ⟨?_, ?_⟩
          · rw [st3.1.n, inv2.n_eq, n1]; rcases hmemc x hx with h | ⟨j, hj, h⟩ <;> omega
          · rcases hb2c x hx with h | h <;> omega)
      (by intro x hx y hy
          rcases hmemc x hx with h | ⟨j, hj, h⟩ <;> rcases hb2c y hy with h' | h' <;> omega) hmark
    refine ⟨⟨?_, ?_⟩, ?_, ?_, ?_, ?_⟩
    · rw [hβ', hres.frame1 _ hstart_out (fun _ => hstart_out2)]; exact e1
    · -- the chain, read on the final map
      have : ∀ (l : List Nat) (d : Nat), B1Chain m2 d l → B1Chain m' d l := by
        intro l
        induction l with
        | nil => intro _ _; trivial
        | cons x rest ih => intro d h; exact ⟨by rw [hβ']; exact h.1, ih x h.2⟩
      exact this fh eid hch
    · rw [hβ', hlast]; exact e2
    · rw [hβ']
      obtain ⟨_, _, hp2⟩ := hres.pairs (by rw [b2n]; omega)
      rw [hp2]
      have hl := C14.getLastD_index sh (m1.β 2 eid)
      rw [hl, hsh, List.length_range']
      have : k = (k - 1) + 1 := by omega
      rw [this, List.getD_cons_succ, rg' (by omega)]
      omega
    · intro j pt hj vid hvid
      have hjk : j < k := by
        rcases Nat.lt_or_ge j k with h | h
        · exact h
        · rw [List.getElem?_eq_none (by rw [← hk]; exact h)] at hj; cases hj
      have hmemz : (eid + 2 + j, pt) ∈ fh.zip e.inter := by
        have : (fh.zip e.inter)[j]? = some (eid + 2 + j, pt) := by
          rw [List.getElem?_zip_eq_some]
          exact ⟨by rw [hfh, List.getElem?_range' hjk]; simp, hj⟩
        exact List.mem_of_getElem? this
      have hv2 : (run (vertexId2 m.n (eid + 2 + j)) m2).1 = .ok vid := by
        rw [← (C14.bOnly_vertexId2 m.n (eid + 2 + j)).2 m2 m' (by rw [hb', hb3])]; exact hvid
      obtain ⟨p0, pa⟩ := hpts _ hmemz vid hv2
      refine ⟨by rw [hatt' 0 vid (by decide)]; exact p0, fun hat => by rw [hatt' sVA vid (by decide)]; exact pa hat⟩
    · intro x hx
      have := ctag x hx
      rw [hβ3, ← hβ'] at this
      exact this

/-! ## examples -/

/-- one grid cell (darts 1 … 4, corners (0,0) (1,0) (1,1) (0,1)) with ten storages, no tag -/
def exCell : Map Val :=
  (((({ (Map.empty 3 10 5 : Map Val) with
    b := #[#[0, 4, 1, 2, 3], #[0, 2, 3, 4, 1], #[0, 0, 0, 0, 0]] }).setA 0 1 (some (.pt 0 0 0))).setA 0 2
      (some (.pt 1 0 0))).setA 0 3 (some (.pt 1 1 0))).setA 0 4 (some (.pt 0 1 0))

/-- an edge from dart 1 to dart 3 (across the cell) through the point of interest (3/4, 1/4) -/
def exEdge : MEdge := { start := 1, inter := [(3/4, 1/4)], stop := 3 }

theorem exCell_wf : WF 3 exCell := by decide +kernel
theorem exCell_notag : ∀ d, exCell.att sBd d = none := by
  intro d
  by_cases h : d < 6
  · have : ∀ x, x < 6 → exCell.att sBd x = none := by decide +kernel
    exact this d h
  · unfold Map.att
    rw [rd_oob _ d (by have : (rd exCell.a sBd).size = 6 := by decide +kernel
                       omega)]
    rfl

example : (stepFive exCell true [exEdge]).1 = .ok () := by decide +kernel
-- 1 → 5 → 7 → 3 on the left of the new edge, 2 → 6 → 8 → 2 on its right; Left on 5 7, Right on their β2 images 8 6;
-- the point of interest under the vertex of dart 7, anchored Node(0) (edge number 0)
example : let m' := (stepFive exCell true [exEdge]).2
    ([1, 5, 7, 2, 6, 8].map (m'.β 1), [5, 7].map (m'.β 2), [5, 6, 7, 8].map (tagOf m'), m'.att 0 7, m'.att sVA 7) =
      ([5, 7, 3, 6, 8, 2], [8, 6], [some bdLeft, some bdRight, some bdLeft, some bdRight], some (.pt (3/4) (1/4) 0),
        some (.tm (.leaf 0))) := by decide +kernel
example := C16_insert_edges_inv (ha := true) (edges := [exEdge]) exCell_wf exCell_notag (by decide +kernel)
  (C14.ok_of_fst (by decide +kernel))

theorem exI : EInv (exCell.addFreeDarts 4).2 5 := by
  have t := addFreeDarts_att_none sBd exCell_notag 4
  refine ⟨by decide +kernel, fun d => Or.inl (t d), ?_, by decide, ?_⟩
  · intro d _ _ _
    show (exCell.addFreeDarts 4).2.att sBd d = _ ↔ (exCell.addFreeDarts 4).2.att sBd _ = _
    rw [t, t]; simp
  · intro d h1 h2
    have hn : (exCell.addFreeDarts 4).2.n = 9 := by decide +kernel
    have key : ∀ x, x < 9 → 5 ≤ x → (exCell.addFreeDarts 4).2.unused x = false ∧
        ∀ i, i < 3 → (exCell.addFreeDarts 4).2.β i x = 0 := by decide +kernel
    rw [hn] at h2
    exact ⟨(key d h2 h1).1, (key d h2 h1).2, t d⟩

-- every hypothesis of the shape theorem holds on the cell: 1 → 5 → 7 → 3, the point of interest at the vertex of 7
example := C16_insertOneEdge_shape (i := 0) (ha := true) (e := exEdge) exI (by decide +kernel) (by decide +kernel)
  (by decide +kernel) (C14.ok_of_fst (by decide +kernel))

end HC.C16
