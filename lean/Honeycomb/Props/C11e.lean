/-
  C11, fifth part — the hypotheses of the round-trip theorems after a triangulation / a vertex insertion.

  (e0) `exportable_of_pos`, `noCrack_of_pos`: `Exportable` / `NoCrack` follow from LOCAL face conditions
       (`LocalFaces`: every in-use dart has a successor and lies on no 1- or 2-cycle of β1) and conditions on
       the POSITIONS `pos d = att 0 (vertex_id d)` only: all defined, no two darts with the same ordered pair of
       positions, different positions at the two ends of a side, no two 2-free darts with opposite pairs.
  (e1) `C11_fan_local_faces`, `C11_fan_boundary`: after a successful fan (`C13b.FanResult`) of a closed face of a
       map whose other darts satisfy `LocalFaces`, EVERY in-use dart of the result satisfies `LocalFaces`
       (closed faces with at least three sides), and the 2-free darts are exactly the 2-free darts of the
       source outside the spare darts (same boundary).
  (e2) `C11_fan_exportable`: with C13d's coordinates (old vertices keep their positions), the result is
       exportable without crack PROVIDED the position conditions of (e0) hold in the result; what this needs
       beyond the source's own conditions is stated in the theorem: the new diagonals (apex ↔ the non-adjacent
       corners) must not repeat an ordered pair of positions — a geometric fact (convexity / embedding) that is
       NOT proved here.
  (e3) `C11_insert_vertex_local_faces`, `C11_insert_vertex_boundary`: after `insert_vertex_on_edge`
       (`C14b.InsertResult` with one new dart per side) every in-use dart still has a successor and lies on no
       1- or 2-cycle (closed faces, one more side), and β2 changes only at `e, nd1, β2 e, nd2` (same boundary; on
       a boundary edge nothing changes and `nd1` is the new boundary dart).  For `Exportable` / `NoCrack` of the
       result use `exportable_of_pos` / `noCrack_of_pos` with C14c (`C14_old_vertices_keep_coordinates_single`; the
       new point lies strictly between the end points of the edge): what is needed is that the new point is not
       the position of another vertex — geometry, NOT proved.  The k-vertex kernel `insert_vertices_on_edge`
       (general `InsertResult`) is not treated.
-/
import Honeycomb.Props.C11d
import Honeycomb.Props.C13d
import Honeycomb.Props.C14c
import Mathlib.Data.List.Perm.Basic

set_option linter.unusedSimpArgs false
set_option linter.unusedVariables false

namespace HC.C11
open HC HC.Vtk HC.C03 HC.CellCalc

/-! ## (e0) local and positional criteria -/

/-- position of the vertex of a dart -/
def posOf (m : Map Val) (d : Nat) : Option Val := m.att 0 (vid m d)

/-- every dart of `D` has a successor and lies on no β1 cycle of length 1 or 2 -/
def LocalFaces (D : Nat → Prop) (m : Map Val) : Prop :=
  ∀ d, D d → m.β 1 d ≠ 0 ∧ m.β 1 d ≠ d ∧ m.β 1 (m.β 1 d) ≠ d

theorem big_of_local {m : Map Val} (hwf : WF 3 m) (hl : LocalFaces (C01.InUse m) m) :
    ∀ f, f ∈ iterFaces2 m → 3 ≤ (walkOf m f).length := by
  intro f hf
  have hu := inUse_of_iterFaces hf
  have hp : PolOK (.custom [1]) := by intro b hb; simp at hb; omega
  obtain ⟨_, _, hnd, _, hmem, _⟩ := C03_orbit2_spec hwf hp hu.1 hu.2.1
  have g : g2 m (.custom [1]) = fun x => [m.β 1 x] := by funext x; simp [g2]
  obtain ⟨c0, c1, c2⟩ := hl f hu
  have hu1 := inUse_b1 hwf hu c0
  obtain ⟨d0, d1, _⟩ := hl _ hu1
  have r1 : Reach (g2 m (.custom [1])) f (m.β 1 f) := Reach.single (by rw [g]; simp)
  have r2 : Reach (g2 m (.custom [1])) f (m.β 1 (m.β 1 f)) := .tail r1 (by rw [g]; simp)
  exact three_le_of_mem hnd ((hmem f).2 ⟨hu.1, .refl _⟩) ((hmem _).2 ⟨c0, r1⟩) ((hmem _).2 ⟨d0, r2⟩)
    (fun e => c1 e.symm) (fun e => c2 e.symm) (fun e => d1 e.symm)

theorem exportable_of_pos {m : Map Val} (hwf : WF 3 m) (hl : LocalFaces (C01.InUse m) m)
    (hpt : ∀ d, C01.InUse m d → ∃ x y z, posOf m d = some (.pt x y z))
    (huniq : ∀ d e, C01.InUse m d → C01.InUse m e → posOf m d = posOf m e →
      posOf m (m.β 1 d) = posOf m (m.β 1 e) → d = e)
    (hends : ∀ d, C01.InUse m d → ∀ x y z x' y' z', posOf m d = some (.pt x y z) →
      posOf m (m.β 1 d) = some (.pt x' y' z') → x ≠ x' ∨ y ≠ y') : Exportable m := by
  refine ⟨hwf, fun d hd => (hl d hd).1, big_of_local hwf hl, ?_, ?_, hends⟩
  · intro v hv
    obtain ⟨d, hd0, hd, hu, rfl⟩ := (C03_iterVertices2_mem hwf v).1 hv
    exact hpt d ⟨hd0, hd, hu⟩
  · intro d e hd he h1 h2
    exact huniq d e hd he (by unfold posOf; rw [h1]) (by unfold posOf; rw [h2])

theorem noCrack_of_pos {m : Map Val}
    (hc : ∀ d e, C01.InUse m d → C01.InUse m e → m.β 2 d = 0 → m.β 2 e = 0 →
      posOf m d = posOf m (m.β 1 e) → posOf m (m.β 1 d) = posOf m e → False) : NoCrack m :=
  fun d e hd he c1 c2 v1 v2 => hc d e hd he c1 c2 (by unfold posOf; rw [v1]) (by unfold posOf; rw [v2])

/-! ## (e1) after a fan -/

section Fan
open HC.C13

/-- the darts of a list of triangles -/
def comps (T : List (Nat × Nat × Nat)) : List Nat := T.flatMap (fun t => [t.1, t.2.1, t.2.2])

theorem comps_fan : ∀ (cs : List (Nat × Nat)) (d0 : Nat) (L : List Nat) (x1 x2 : Nat),
    L.drop cs.length = [x1, x2] →
    (comps (loopTris d0 L cs ++ [(loopEnd d0 cs, x1, x2)])).Perm (d0 :: L ++ sparesOf cs) := by
  intro cs
  induction cs with
  | nil =>
      intro d0 L x1 x2 h
      simp only [List.length_nil, List.drop_zero] at h
      subst h
      simp [comps, loopTris, loopEnd, sparesOf]
  | cons c cs ih =>
      intro d0 L x1 x2 h
      obtain ⟨d1, d2⟩ := c
      cases L with
      | nil => simp at h
      | cons y L' =>
          simp only [List.length_cons, List.drop_succ_cons] at h
          have := ih d2 L' x1 x2 h
          simp only [loopTris, loopEnd, sparesOf_cons, List.cons_append, comps, List.flatMap_cons] at this ⊢
          refine List.Perm.cons _ (List.Perm.cons _ ?_)
          refine (List.Perm.cons _ this).trans ?_
          -- d1 :: d2 :: (L' ++ S) ~ L' ++ d1 :: d2 :: S
          refine List.Perm.trans ?_ (List.perm_middle (l₁ := L') (a := d1) (l₂ := d2 :: sparesOf cs)).symm
          exact List.Perm.cons _ (List.perm_middle (l₁ := L') (a := d2) (l₂ := sparesOf cs)).symm

/-- in a closed face every dart is the successor of a dart of the face -/
theorem b1chain_pred {m : Map Val} : ∀ (l : List Nat) (d z : Nat), B1Chain m d l → z ∈ l →
    ∃ p, p ∈ d :: l ∧ m.β 1 p = z := by
  intro l
  induction l with
  | nil => intro d z _ h; simp at h
  | cons x l ih =>
      intro d z hc hz
      rcases List.mem_cons.1 hz with rfl | hz
      · exact ⟨d, by simp, hc.1⟩
      · obtain ⟨p, hp, e⟩ := ih x z hc.2 hz
        exact ⟨p, List.mem_cons_of_mem _ hp, e⟩

theorem closedFace_pred {m : Map Val} (hwf : WF 3 m) {a : Nat} {rest : List Nat} (hc : ClosedFace m a rest)
    {y : Nat} (hy : y < m.n) (h : m.β 1 y ∈ a :: rest) : y ∈ a :: rest := by
  have hz0 : m.β 1 y ≠ 0 := hc.nz _ h
  have hz : m.β 1 y ∈ rest ++ [a] := by
    rw [List.mem_append]; rcases List.mem_cons.1 h with e | e
    · exact Or.inr (by simp [e])
    · exact Or.inl e
  obtain ⟨p, hp, e⟩ := b1chain_pred _ a _ hc.chain hz
  have hpm : p ∈ a :: rest := by
    simp only [List.mem_cons, List.mem_append, List.not_mem_nil, or_false] at hp ⊢
    rcases hp with h1 | h1 | h1
    · exact Or.inl h1
    · exact Or.inr h1
    · exact Or.inl h1
  have hpn : p < m.n := hc.lt hwf hpm
  have i1 := hwf.inv01 y hy hz0
  have i2 := hwf.inv01 p hpn (by rw [e]; exact hz0)
  rw [← i1, ← e, i2]
  exact hpm

/-- **C11 (e1), faces after a fan**: a successful fan of the closed face `s :: L` with fresh spare darts leaves a
    map in which every in-use dart has a successor and lies on no 1- or 2-cycle — provided this held in the source
    for the darts that are not spare darts -/
theorem C11_fan_local_faces {m m' : Map Val} {s : Nat} {L : List Nat} {cs : List (Nat × Nat)}
    (hwf : WF 3 m) (hn : m'.n = m.n) (hu : m'.u = m.u) (hc : ClosedFace m s L)
    (hnd : (sparesOf cs).Nodup) (hsp : ∀ x, x ∈ sparesOf cs → x ≠ 0 ∧ x ∉ s :: L ∧ m.β 0 x = 0)
    (hr : FanResult m m' s L cs)
    (hl : LocalFaces (fun d => C01.InUse m d ∧ d ∉ sparesOf cs) m) :
    LocalFaces (C01.InUse m') m' := by
  obtain ⟨⟨x1, x2, hdrop, htri⟩, _, _, _, hframe⟩ := hr
  have hperm := comps_fan cs s L x1 x2 hdrop
  have hall : (s :: L ++ sparesOf cs).Nodup := by
    have : (s :: L ++ sparesOf cs) = (s :: L) ++ sparesOf cs := rfl
    rw [this, List.nodup_append]
    exact ⟨hc.nodup, hnd, fun a ha b hb e => (hsp b hb).2.1 (e ▸ ha)⟩
  have hcn : (comps (loopTris s L cs ++ [(loopEnd s cs, x1, x2)])).Nodup := hperm.nodup_iff.2 hall
  have hnz : ∀ y, y ∈ comps (loopTris s L cs ++ [(loopEnd s cs, x1, x2)]) → y ≠ 0 := by
    intro y hy
    have := hperm.subset hy
    have e : (s :: L ++ sparesOf cs) = (s :: L) ++ sparesOf cs := rfl
    rw [e, List.mem_append] at this
    rcases this with h | h
    · exact hc.nz y h
    · exact (hsp y h).1
  intro y hy
  have hyu : C01.InUse m y := ⟨hy.1, by rw [← hn]; exact hy.2.1, by
    have := hy.2.2; unfold Map.unused at this ⊢; rw [← hu]; exact this⟩
  by_cases hin : y ∈ s :: L ++ sparesOf cs
  · -- a dart of one of the new triangles
    have hyc := hperm.symm.subset hin
    unfold comps at hyc hcn hnz
    obtain ⟨t, ht, hyt⟩ := List.mem_flatMap.1 hyc
    have htn : [t.1, t.2.1, t.2.2].Nodup := (List.nodup_flatMap.1 hcn).1 t ht
    have hz : ∀ z, z ∈ [t.1, t.2.1, t.2.2] → z ≠ 0 := fun z hz => hnz z (List.mem_flatMap.2 ⟨t, ht, hz⟩)
    obtain ⟨t1, t2, t3⟩ := htri t ht
    simp only [List.nodup_cons, List.mem_cons, List.not_mem_nil, or_false, not_or, not_false_eq_true,
      List.nodup_nil, and_true] at htn
    simp only [List.mem_cons, List.not_mem_nil, or_false] at hyt
    rcases hyt with rfl | rfl | rfl
    · rw [t1, t2]
      exact ⟨hz _ (by simp), fun e => htn.1.1 e.symm, fun e => htn.1.2 e.symm⟩
    · rw [t2, t3]
      exact ⟨hz _ (by simp), fun e => htn.2 e.symm, fun e => htn.1.1 e⟩
    · rw [t3, t1]
      exact ⟨hz _ (by simp), fun e => htn.1.2 e, fun e => htn.2 e⟩
  · -- a dart of an untouched face
    have e : (s :: L ++ sparesOf cs) = (s :: L) ++ sparesOf cs := rfl
    rw [e, List.mem_append, not_or] at hin
    obtain ⟨c0, c1, c2⟩ := hl y ⟨hyu, hin.2⟩
    have hz : m.β 1 y ∉ s :: L := fun h => hin.1 (closedFace_pred hwf hc hyu.2.1 h)
    have hz' : m.β 1 y ∉ sparesOf cs := by
      intro h
      have := hwf.inv01 y hyu.2.1 c0
      rw [(hsp _ h).2.2] at this
      exact hyu.1 this.symm
    rw [hframe 1 y (by omega) hin.1 hin.2, hframe 1 _ (by omega) hz hz']
    exact ⟨c0, c1, c2⟩

/-- **C11 (e1), boundary after a fan**: the 2-free darts are the 2-free darts of the source outside the spare
    darts (the spare darts are 2-linked pair by pair; nothing else changes) -/
theorem C11_fan_boundary {m m' : Map Val} {s : Nat} {L : List Nat} {cs : List (Nat × Nat)}
    (hsp : ∀ c, c ∈ cs → c.1 ≠ 0 ∧ c.2 ≠ 0) (hr : FanResult m m' s L cs) (y : Nat) :
    m'.β 2 y = 0 ↔ (y ∉ sparesOf cs ∧ m.β 2 y = 0) := by
  obtain ⟨_, _, hpairs, hb2, _⟩ := hr
  constructor
  · intro h
    by_cases c : y ∈ sparesOf cs
    · exfalso
      unfold sparesOf at c
      obtain ⟨p, hp, hy⟩ := List.mem_flatMap.1 c
      simp only [List.mem_cons, List.not_mem_nil, or_false] at hy
      obtain ⟨q1, q2⟩ := hpairs p hp
      rcases hy with rfl | rfl
      · rw [q1] at h; exact (hsp p hp).2 h
      · rw [q2] at h; exact (hsp p hp).1 h
    · exact ⟨c, by rw [← hb2 y c]; exact h⟩
  · rintro ⟨c, h⟩
    rw [hb2 y c]; exact h

/-- **C11 (e2)**: the map left by a successful fan (`fan_cell` / `fan_convex_cell` end in `fanFrom` from the apex
    dart `s` of the closed face `s :: L`) of a map whose other faces are closed with at least three sides is
    EXPORTABLE, hence round-trips (`C11_roundTrip_faces`), as soon as the positions in the result satisfy the
    three conditions of `exportable_of_pos`.  By C13d (`C13_fan_old_vertices_keep_coordinates`,
    `C13_fan_triangles_carry_list_coordinates`) the old darts keep their positions and the spare darts run
    between the apex and the corners `c₂ … c₍ₙ₋₂₎`: beyond the source's own conditions, what is needed is that no
    diagonal apex ↔ cᵢ repeats an ordered pair of positions — true for a star-shaped polygon of an embedded
    mesh, NOT proved here (geometry). -/
theorem C11_fan_exportable (cfg : Cfg Val) {m m' : Map Val} {s : Nat} {L nds : List Nat}
    (hwf : WF 3 m) (hc : ClosedFace m s L) (hlen : L.length = (chunks2 nds).length + 2)
    (hsp : ∀ d, d ∈ nds → C01.InUse m d ∧ d ∉ s :: L) (hnd : nds.Nodup)
    (hfresh : ∀ d, d ∈ nds → ∀ i, i < 3 → m.β i d = 0)
    (h : run (fanFrom cfg m.n s nds) m = (.ok (), m'))
    (hl : LocalFaces (fun d => C01.InUse m d ∧ d ∉ sparesOf (chunks2 nds)) m)
    (hpt : ∀ d, C01.InUse m' d → ∃ x y z, posOf m' d = some (.pt x y z))
    (huniq : ∀ d e, C01.InUse m' d → C01.InUse m' e → posOf m' d = posOf m' e →
      posOf m' (m'.β 1 d) = posOf m' (m'.β 1 e) → d = e)
    (hends : ∀ d, C01.InUse m' d → ∀ x y z x' y' z', posOf m' d = some (.pt x y z) →
      posOf m' (m'.β 1 d) = some (.pt x' y' z') → x ≠ x' ∨ y ≠ y') :
    Exportable m' ∧ LocalFaces (C01.InUse m') m' ∧
      (∀ y, m'.β 2 y = 0 ↔ (y ∉ sparesOf (chunks2 nds) ∧ m.β 2 y = 0)) := by
  have hsub := sparesOf_chunks2_sublist nds
  have hi : HC.Inv m.n m.u m := HC.Inv.of_wf hwf
  obtain ⟨i1, r⟩ := C13_fan_structure (n := m.n) (u := m.u) cfg m.n s nds L m m' hi hc hlen (hnd.sublist hsub)
    (fun x hx => ⟨⟨(hsp x (hsub.subset hx)).1.1, (hsp x (hsub.subset hx)).1.2.1, (hsp x (hsub.subset hx)).1.2.2⟩,
      (hsp x (hsub.subset hx)).2⟩) h
  have hloc := C11_fan_local_faces hwf i1.n_eq i1.u_eq hc (hnd.sublist hsub)
    (fun x hx => ⟨(hsp x (hsub.subset hx)).1.1, (hsp x (hsub.subset hx)).2,
      hfresh x (hsub.subset hx) 0 (by omega)⟩) r hl
  refine ⟨exportable_of_pos i1.wf hloc hpt huniq hends, hloc, fun y => C11_fan_boundary ?_ r y⟩
  intro c hcm
  have m1 : c.1 ∈ sparesOf (chunks2 nds) := by unfold sparesOf; exact List.mem_flatMap.2 ⟨c, hcm, by simp⟩
  have m2 : c.2 ∈ sparesOf (chunks2 nds) := by unfold sparesOf; exact List.mem_flatMap.2 ⟨c, hcm, by simp⟩
  exact ⟨(hsp _ (hsub.subset m1)).1.1, (hsp _ (hsub.subset m2)).1.1⟩

/-! non-vacuity: the pentagon of C13 fanned from dart 1 with the spare darts 6, 7, 8, 9 -/
def fanEx : Map Val := (run (fanConvexCell (stdCfg 3 0) d7Map.n 1 [6, 7, 8, 9]) d7Map).2
theorem fanEx_result : FanResult d7Map fanEx 1 [2, 3, 4, 5] [(6, 7), (8, 9)] :=
  (C13_fan_convex_structure _ d7Map _ 1 [6, 7, 8, 9] [2, 3, 4, 5] d7_wf d7_closed (by decide +kernel) (by decide)
    (ok_of_fst (by decide +kernel))).2
theorem d7_local : LocalFaces (fun d => C01.InUse d7Map d ∧ d ∉ sparesOf [(6, 7), (8, 9)]) d7Map := by
  have h : ∀ d, d < d7Map.n → (C01.InUse d7Map d ∧ d ∉ sparesOf [(6, 7), (8, 9)]) →
      d7Map.β 1 d ≠ 0 ∧ d7Map.β 1 d ≠ d ∧ d7Map.β 1 (d7Map.β 1 d) ≠ d := by decide +kernel
  exact fun d hd => h d hd.1.2.1 hd
example : LocalFaces (C01.InUse fanEx) fanEx :=
  C11_fan_local_faces d7_wf (by decide +kernel) (by decide +kernel) d7_closed (by decide) (by decide +kernel)
    fanEx_result d7_local
example : fanEx.β 2 6 = 7 ∧ (fanEx.β 2 2 = 0 ↔ (2 ∉ sparesOf [(6, 7), (8, 9)] ∧ d7Map.β 2 2 = 0)) :=
  ⟨by decide +kernel, C11_fan_boundary (by decide) fanEx_result 2⟩
/-- the fanned pentagon is exportable without crack, hence round-trips isomorphically -/
example : Exportable fanEx ∧ NoCrack fanEx := ⟨exportable_of_B (by decide +kernel), noCrack_of_B (by decide +kernel)⟩

/-- `C11_fan_exportable` on the pentagon (the position conditions are decided on the concrete result) -/
def fanEx2 : Map Val := (run (fanFrom (stdCfg 3 0) d7Map.n 1 [6, 7, 8, 9]) d7Map).2
set_option synthInstance.maxSize 4096 in
set_option synthInstance.maxHeartbeats 400000 in
example : Exportable fanEx2 := by
  have hpt : ∀ d, d < fanEx2.n → C01.InUse fanEx2 d → isPt (posOf fanEx2 d) = true := by decide +kernel
  have huq : ∀ d, d < fanEx2.n → ∀ e, e < fanEx2.n → C01.InUse fanEx2 d → C01.InUse fanEx2 e →
      posOf fanEx2 d = posOf fanEx2 e → posOf fanEx2 (fanEx2.β 1 d) = posOf fanEx2 (fanEx2.β 1 e) → d = e := by
    decide +kernel
  have hen : ∀ d, d < fanEx2.n → C01.InUse fanEx2 d →
      endsOK (posOf fanEx2 d) (posOf fanEx2 (fanEx2.β 1 d)) = true := by decide +kernel
  refine (C11_fan_exportable (stdCfg 3 0) (m' := fanEx2) d7_wf d7_closed (by decide) (by decide +kernel) (by decide)
    (by decide +kernel) (ok_of_fst (by decide +kernel)) d7_local ?_ ?_ ?_).1
  · intro d hd
    have := hpt d hd.2.1 hd
    match hm : posOf fanEx2 d with
    | some (.pt x y z) => exact ⟨x, y, z, rfl⟩
    | some (.tm _) => rw [hm] at this; simp [isPt] at this
    | none => rw [hm] at this; simp [isPt] at this
  · exact fun d e hd he => huq d hd.2.1 e he.2.1 hd he
  · intro d hd x y z x' y' z' e1 e2
    have := hen d hd.2.1 hd
    rw [e1, e2] at this
    simpa [endsOK] using this

end Fan

/-! ## (e3) after `insert_vertex_on_edge` -/

section Insert
open HC.C14

theorem not_image {m : Map Val} (hwf : WF 3 m) {nd x : Nat} (h0 : m.β 0 nd = 0) (hx : x < m.n)
    (h1 : m.β 1 x ≠ 0) : m.β 1 x ≠ nd := by
  intro e
  have := hwf.inv01 x hx h1
  rw [e, h0] at this
  rw [← this, hwf.null 1 (by omega)] at h1
  exact h1 rfl

/-- **C11 (e3), faces after a vertex insertion**: `insert_vertex_on_edge(e, (nd1, nd2))` (`C14b.InsertResult` with
    one new dart per side) keeps every face closed and adds one side to the face(s) of the edge: if the darts of
    the source other than the consumed spare darts have a successor and lie on no 1- or 2-cycle, so does every
    in-use dart of the result (`nd2` excepted when the edge has a single dart: it is not consumed) -/
theorem C11_insert_vertex_local_faces {m m' : Map Val} {e nd1 nd2 : Nat} (hwf : WF 3 m)
    (hn : m'.n = m.n) (hu : m'.u = m.u) (he : C01.InUse m e) (hb1e : m.β 1 e ≠ 0)
    (hb1e2 : m.β 2 e ≠ 0 → m.β 1 (m.β 2 e) ≠ 0)
    (hf1 : ∀ i, i < 3 → m.β i nd1 = 0) (h10 : nd1 ≠ 0)
    (hf2 : m.β 2 e ≠ 0 → (∀ i, i < 3 → m.β i nd2 = 0) ∧ nd2 ≠ 0 ∧ nd1 ≠ nd2)
    (hr : InsertResult m m' e [nd1] [nd2])
    (hl : LocalFaces (fun d => C01.InUse m d ∧ d ≠ nd1 ∧ (m.β 2 e ≠ 0 → d ≠ nd2)) m) :
    ∀ d, C01.InUse m' d → (m.β 2 e = 0 → d = nd2 → d = nd1) →
      m'.β 1 d ≠ 0 ∧ m'.β 1 d ≠ d ∧ m'.β 1 (m'.β 1 d) ≠ d := by
  have s1 := hr.side1
  simp only [B1Chain, and_true, List.getLastD_cons, List.getLastD_nil] at s1
  obtain ⟨be, bn1⟩ := s1
  have inU : ∀ d, C01.InUse m' d → C01.InUse m d := fun d hd =>
    ⟨hd.1, by rw [← hn]; exact hd.2.1, by have := hd.2.2; unfold Map.unused at this ⊢; rw [← hu]; exact this⟩
  have hen1 : e ≠ nd1 := by rintro rfl; exact hb1e (hf1 1 (by omega))
  have ni1 : ∀ x, x < m.n → m.β 1 x ≠ 0 → m.β 1 x ≠ nd1 := fun x hx h => not_image hwf (hf1 0 (by omega)) hx h
  have o1n : m.β 1 e ≠ nd1 := ni1 e he.2.1 hb1e
  have o1lt : m.β 1 e < m.n := hwf.range 1 (by omega) e he.2.1
  -- β1 of an old dart is never a spare dart; if null it is not a spare dart either
  have im1 : ∀ x, x < m.n → m.β 1 x ≠ nd1 := fun x hx => by
    by_cases c : m.β 1 x = 0
    · rw [c]; exact fun h => h10 h.symm
    · exact ni1 x hx c
  intro d hd hex
  have hdm := inU d hd
  by_cases hb : m.β 2 e = 0
  · -- one-dart edge
    have fr : ∀ y, y ≠ e → y ≠ nd1 → m'.β 1 y = m.β 1 y := fun y h1 h2 =>
      hr.frame1 y (by simp [h1, h2]) (fun h => absurd hb h)
    have le : m.β 1 e ≠ e := (hl e ⟨he, hen1, fun h => absurd hb h⟩).2.1
    by_cases c1 : d = e
    · subst c1
      rw [be, bn1]
      exact ⟨h10, fun h => hen1 h.symm, le⟩
    · by_cases c2 : d = nd1
      · subst c2
        rw [bn1]
        refine ⟨hb1e, o1n, ?_⟩
        rw [fr _ le o1n]
        exact im1 _ o1lt
      · have hd2 : d ≠ nd2 := fun h => c2 (hex hb h)
        obtain ⟨c0, c1', c2'⟩ := hl d ⟨hdm, c2, fun h => absurd hb h⟩
        rw [fr d c1 c2]
        refine ⟨c0, c1', ?_⟩
        by_cases c3 : m.β 1 d = e
        · rw [c3, be]; exact fun h => c2 h.symm
        · rw [fr _ c3 (ni1 d hdm.2.1 c0)]; exact c2'
  · -- two-dart edge
    obtain ⟨f2, h20, h12⟩ := hf2 hb
    obtain ⟨s2a, bn2⟩ := hr.side2 hb
    simp only [B1Chain, and_true, List.getLastD_cons, List.getLastD_nil] at s2a bn2
    have he2 := inUse_b2 hwf he hb
    have hinv := hwf.invol 2 (by omega) (by omega) e he.2.1 hb
    have hen2 : e ≠ nd2 := by rintro rfl; exact hb1e (f2 1 (by omega))
    have h2n1 : m.β 2 e ≠ nd1 := by intro h; exact hb1e2 hb (by rw [h]; exact hf1 1 (by omega))
    have h2n2 : m.β 2 e ≠ nd2 := by intro h; exact hb1e2 hb (by rw [h]; exact f2 1 (by omega))
    have ni2 : ∀ x, x < m.n → m.β 1 x ≠ 0 → m.β 1 x ≠ nd2 := fun x hx h => not_image hwf (f2 0 (by omega)) hx h
    have im2 : ∀ x, x < m.n → m.β 1 x ≠ nd2 := fun x hx => by
      by_cases c : m.β 1 x = 0
      · rw [c]; exact fun h => h20 h.symm
      · exact ni2 x hx c
    have fr : ∀ y, y ≠ e → y ≠ nd1 → y ≠ m.β 2 e → y ≠ nd2 → m'.β 1 y = m.β 1 y := fun y h1 h2 h3 h4 =>
      hr.frame1 y (by simp [h1, h2]) (fun _ => by simp [h3, h4])
    have le : m.β 1 e ≠ e := (hl e ⟨he, hen1, fun _ => hen2⟩).2.1
    have le2 : m.β 1 (m.β 2 e) ≠ m.β 2 e := (hl _ ⟨he2, h2n1, fun _ => h2n2⟩).2.1
    have o2lt : m.β 1 (m.β 2 e) < m.n := hwf.range 1 (by omega) _ he2.2.1
    -- β1' of an old dart `z` (not a spare) is never the given old non-spare dart `d` unless β1 z = d
    have step : ∀ z w, z < m.n → z ≠ nd1 → z ≠ nd2 → w ≠ nd1 → w ≠ nd2 → m.β 1 z ≠ w → m'.β 1 z ≠ w := by
      intro z w hz z1 z2 w1 w2 hzw
      by_cases a : z = e
      · rw [a, be]; exact fun h => w1 h.symm
      · by_cases b : z = m.β 2 e
        · rw [b, s2a]; exact fun h => w2 h.symm
        · rw [fr z a z1 b z2]; exact hzw
    by_cases c1 : d = e
    · subst c1
      rw [be, bn1]
      exact ⟨h10, fun h => hen1 h.symm, le⟩
    · by_cases c2 : d = nd1
      · subst c2
        rw [bn1]
        refine ⟨hb1e, o1n, ?_⟩
        by_cases a : m.β 1 e = m.β 2 e
        · rw [a, s2a]; exact fun h => h12 h.symm
        · rw [fr _ le o1n a (im2 e he.2.1)]
          exact im1 _ o1lt
      · by_cases c3 : d = m.β 2 e
        · subst c3
          rw [s2a, bn2]
          exact ⟨h20, fun h => h2n2 h.symm, le2⟩
        · by_cases c4 : d = nd2
          · subst c4
            rw [bn2]
            refine ⟨hb1e2 hb, im2 _ he2.2.1, ?_⟩
            by_cases a : m.β 1 (m.β 2 e) = e
            · rw [a, be]; exact h12
            · rw [fr _ a (im1 _ he2.2.1) le2 (im2 _ he2.2.1)]
              exact im2 _ o2lt
          · obtain ⟨c0, c1', c2'⟩ := hl d ⟨hdm, c2, fun _ => c4⟩
            rw [fr d c1 c2 c3 c4]
            refine ⟨c0, c1', ?_⟩
            exact step _ d (hwf.range 1 (by omega) d hdm.2.1) (im1 d hdm.2.1) (im2 d hdm.2.1) c2 c4 c2'

/-- **C11 (e3), boundary after a vertex insertion**: on a one-dart (boundary) edge nothing changes for β2 — the new
    dart `nd1` is a new boundary dart; on a two-dart edge the four darts `e, nd1, β2 e, nd2` are 2-linked and
    nothing else changes: the boundary is the same -/
theorem C11_insert_vertex_boundary {m m' : Map Val} {e nd1 nd2 : Nat} (hr : InsertResult m m' e [nd1] [nd2]) :
    (m.β 2 e = 0 → ∀ y, m'.β 2 y = m.β 2 y) ∧
    (m.β 2 e ≠ 0 → ∀ y, y ≠ e → y ≠ nd1 → y ≠ m.β 2 e → y ≠ nd2 → m'.β 2 y = m.β 2 y) :=
  ⟨fun hb y => hr.frame2 y (fun h => absurd hb h),
   fun hb y h1 h2 h3 h4 => hr.frame2 y (fun _ => ⟨by simp [h1, h2], by simp [h3, h4]⟩)⟩

/-! non-vacuity: a vertex inserted on the common edge 3 ↔ 4 of the two triangles of `twoTri`, spare darts 7, 8 -/
def insSrc : Map Val := (twoTri.addFreeDarts 2).2
def insEx : Map Val := (run (insertVertexOnEdge insSrc.n 3 7 8 none) insSrc).2
theorem insSrc_wf : WF 3 insSrc := by decide +kernel
theorem insEx_result : InsertResult insSrc insEx 3 [7] [8] :=
  (C14_insertVertex_beta_structure insSrc _ 3 7 8 none insSrc_wf (by decide +kernel) (by decide +kernel)
    (by decide +kernel) (by decide +kernel) (HC.C13.ok_of_fst (by decide +kernel))).2
set_option synthInstance.maxSize 4096 in
example : ∀ d, C01.InUse insEx d → insEx.β 1 d ≠ 0 ∧ insEx.β 1 d ≠ d ∧ insEx.β 1 (insEx.β 1 d) ≠ d := by
  have hl : LocalFaces (fun d => C01.InUse insSrc d ∧ d ≠ 7 ∧ (insSrc.β 2 3 ≠ 0 → d ≠ 8)) insSrc := by
    have h : ∀ d, d < insSrc.n → (C01.InUse insSrc d ∧ d ≠ 7 ∧ (insSrc.β 2 3 ≠ 0 → d ≠ 8)) →
        insSrc.β 1 d ≠ 0 ∧ insSrc.β 1 d ≠ d ∧ insSrc.β 1 (insSrc.β 1 d) ≠ d := by decide +kernel
    exact fun d hd => h d hd.1.2.1 hd
  intro d hd
  exact C11_insert_vertex_local_faces insSrc_wf (by decide +kernel) (by decide +kernel) (by decide +kernel)
    (by decide +kernel) (by decide +kernel) (by decide +kernel) (by decide) (by decide +kernel) insEx_result hl d hd
    (fun h => absurd h (by decide +kernel))
example : insEx.β 2 1 = insSrc.β 2 1 :=
  (C11_insert_vertex_boundary insEx_result).2 (by decide +kernel) 1 (by decide) (by decide) (by decide +kernel)
    (by decide)
/-- the two quadrilaterals (triangles with a vertex on the common side) are exportable without crack -/
example : Exportable insEx ∧ NoCrack insEx := ⟨exportable_of_B (by decide +kernel), noCrack_of_B (by decide +kernel)⟩

end Insert

end HC.C11
