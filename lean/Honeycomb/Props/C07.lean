/-
  C07 — concurrent transactions are serializable (protocol level).

  For the protocol model of `fast-stm` (Model/StmProto.lean: per-variable version stamps, logged
  first reads, validate-then-publish commit, restart on failed validation, `abort` returns without
  publishing), for EVERY number of threads, EVERY list of transactions per thread, EVERY program,
  and EVERY interleaving of the threads' steps:

    the final shared memory, together with the value returned by each committed transaction,
    is exactly what the one-at-a-time execution of the committed transactions IN COMMIT ORDER
    produces from the initial memory (`C07_serializable`);
    shared memory changes only at a commit whose validation succeeded (`C07_only_valid_commits_publish`):
    an attempt that observed a torn snapshot is restarted, or returns its error, and publishes nothing.

  What is NOT covered by these theorems (named in the evidence): the interleavings INSIDE `commit`
  on the real `parking_lot` locks (lock order, the window between validation and publication),
  memory ordering, `wait_for_change` wake-ups, and the premise that honeycomb operations access
  shared memory only through `Transaction::read/write` (false for `orbit()`/`is_free`: findings
  D3/D4) — these are the business of the schedule explorer (tools/props/c07.py).
-/
import Honeycomb.Model.StmProto
import Honeycomb.Lemmas.StmThy

set_option linter.unusedSimpArgs false
set_option linter.unusedVariables false

namespace HC.C07
open HC HC.Proto Store

variable {Var Val ε α : Type} [DecidableEq Var] [DecidableEq α]

instance : LawfulStore (Var → Val) Var Val where
  sget_sset := by intro s v w x _ _; rfl
  svalid_sset := by intro s v w x; rfl
  styped_sset := by intro s v w x y; rfl
  styped_sget := by intro s v _; rfl

/-! ## publishing -/

theorem vals_publish (rs : List (Var × Val)) (ws : List (Var × Val)) (st : VStore Var Val) :
    vals (publish ws st) = ({ reads := rs, writes := ws } : Log Var Val).apply (vals st) := by
  unfold Log.apply
  simp only
  induction ws with
  | nil => rfl
  | cons p ps ih =>
      simp only [publish, List.foldr] at ih ⊢
      funext w
      have := congrFun ih w
      simp only [vals, sset] at this ⊢
      by_cases h : p.1 = w
      · simp [h]
      · simp [h, this]

theorem publish_ge (ws : List (Var × Val)) (st : VStore Var Val) (v : Var) :
    (st v).2 ≤ (publish ws st v).2 := by
  induction ws with
  | nil => exact Nat.le_refl _
  | cons p ps ih =>
      simp only [publish, List.foldr] at ih ⊢
      by_cases h : p.1 = v
      · simp only [h, if_true]; omega
      · simp only [h, if_false]; exact ih

theorem publish_same_version (ws : List (Var × Val)) (st : VStore Var Val) (v : Var)
    (h : (publish ws st v).2 = (st v).2) : publish ws st v = st v := by
  induction ws with
  | nil => rfl
  | cons p ps ih =>
      simp only [publish, List.foldr] at ih h ⊢
      by_cases hp : p.1 = v
      · simp only [hp, if_true] at h
        have := publish_ge ps st v
        simp only [publish] at this
        omega
      · simp only [hp, if_false] at h ⊢
        exact ih h

/-! ## invariants -/

/-- every logged read still determines the value: the version never goes back, and while it is
    unchanged the value is the one that was read -/
def VersOK (reads : List (Var × Val × Nat)) (st : VStore Var Val) : Prop :=
  ∀ r ∈ reads, r.2.2 ≤ (st r.1).2 ∧ ((st r.1).2 = r.2.2 → (st r.1).1 = r.2.1)

/-- the attempt is a genuine partial execution of the current transaction: on ANY memory that
    agrees with the logged reads, running the transaction from scratch through the log reaches
    exactly this program counter and this log -/
def PcOK (t : Thread Var Val ε α) : Prop :=
  ∀ p0 rest, t.todo = p0 :: rest → ∀ σ : Var → Val, t.att.toLog.ReadsOK σ →
    execLog p0 σ {} = execLog t.att.pc σ t.att.toLog

structure TInv (t : Thread Var Val ε α) (st : VStore Var Val) : Prop where
  pc : PcOK t
  vers : VersOK t.att.reads st

structure SInv (init : Var → Val) (s : Sys Var Val ε α) : Prop where
  thr : ∀ t ∈ s.threads, TInv t s.store
  rep : replay s.commits init = some (vals s.store)

theorem VersOK.publish {reads : List (Var × Val × Nat)} {st : VStore Var Val} (h : VersOK reads st)
    (ws : List (Var × Val)) : VersOK reads (publish ws st) := by
  intro r hr
  obtain ⟨h1, h2⟩ := h r hr
  have hge := publish_ge ws st r.1
  refine ⟨by omega, ?_⟩
  intro heq
  have hsame : (Proto.publish ws st r.1).2 = (st r.1).2 := by omega
  have := publish_same_version ws st r.1 hsame
  rw [this]; exact h2 (by omega)

theorem pcOK_fresh (todo : List (Prog Var Val ε α)) (results : List (Out ε α)) :
    PcOK ({ todo := todo, att := { pc := todo.headD .panic }, results := results } : Thread Var Val ε α) := by
  intro p0 rest h σ _
  have h' : todo = p0 :: rest := h
  subst h'
  rfl

theorem versOK_nil (st : VStore Var Val) : VersOK ([] : List (Var × Val × Nat)) st := by
  intro r hr; simp at hr

/-- validation + version invariant ⇒ the logged reads agree with the CURRENT memory -/
theorem readsOK_of_valid {a : Attempt Var Val ε α} {st : VStore Var Val}
    (hv : a.valid st = true) (hi : VersOK a.reads st) : a.toLog.ReadsOK (vals st) := by
  intro p hp
  simp only [Attempt.toLog, List.mem_map] at hp
  obtain ⟨r, hr, rfl⟩ := hp
  have := (hi r hr).2
  unfold Attempt.valid at hv
  rw [List.all_eq_true] at hv
  have hv' := hv r hr
  simp only [decide_eq_true_eq] at hv'
  simp only [vals, sget]
  exact (this hv').symm

/-! ## the key step: a validated commit is a sequential execution on the current memory (T3) -/

theorem T3_validated_commit (t : Thread Var Val ε α) (st : VStore Var Val) (p0 : Prog Var Val ε α)
    (rest : List (Prog Var Val ε α)) (a : α) (ht : t.todo = p0 :: rest) (hpc : t.att.pc = .ret a)
    (hinv : TInv t st) (hv : t.att.valid st = true) :
    run p0 (vals st) = (.ok a, vals (publish t.att.writes st)) := by
  have hr := readsOK_of_valid hv hinv.vers
  have h1 := hinv.pc p0 rest ht (vals st) hr
  rw [hpc] at h1
  simp only [execLog] at h1
  have hw0 : ({} : Log Var Val).WritesOK (vals st) := by intro q hq; simp at hq
  have hr0 : ({} : Log Var Val).ReadsOK (vals st) := by intro q hq; simp at hq
  have h2 := (T1_execLog_sound p0 (vals st) {} hw0 hr0).1
  rw [h1] at h2
  have e : ({} : Log Var Val).apply (vals st) = vals st := rfl
  rw [e] at h2
  rw [h2, vals_publish (t.att.reads.map fun r => (r.1, r.2.1))]
  rfl

/-! ## thread step preserves the thread invariant -/

theorem readsOK_mono {ℓ : Log Var Val} {σ : Var → Val} (p : Var × Val)
    (h : ({ ℓ with reads := p :: ℓ.reads } : Log Var Val).ReadsOK σ) : ℓ.ReadsOK σ :=
  fun q hq => h q (by simp [hq])

theorem threadStep_inv (t : Thread Var Val ε α) (st : VStore Var Val) (h : TInv t st) :
    TInv (threadStep t st).1 (threadStep t st).2.1 := by
  unfold threadStep
  match htd : t.todo with
  | [] => simp only; exact h
  | p0 :: rest =>
    simp only
    match hpc : t.att.pc with
    | .ret a =>
        simp only
        by_cases hv : t.att.valid st = true
        · simp only [hv, if_true]
          exact ⟨pcOK_fresh _ _, versOK_nil _⟩
        · simp only [hv, if_false]
          refine ⟨?_, versOK_nil _⟩
          have := pcOK_fresh (Var := Var) (Val := Val) t.todo t.results
          exact this
    | .abort e => simp only; exact ⟨pcOK_fresh _ _, versOK_nil _⟩
    | .retry => simp only; exact ⟨pcOK_fresh (Var := Var) (Val := Val) t.todo t.results, versOK_nil _⟩
    | .panic => simp only; exact ⟨pcOK_fresh _ _, versOK_nil _⟩
    | .write v x k =>
        simp only
        refine ⟨?_, h.vers⟩
        intro q0 r0 hq σ hσ
        simp only [htd] at hq
        have hσ' : t.att.toLog.ReadsOK σ := hσ
        have h1 := h.pc q0 r0 (by rw [htd]; exact hq) σ hσ'
        rw [hpc] at h1
        rw [h1]
        simp only [execLog, svalid, styped, Bool.and_self, if_true]
        rfl
    | .read v k =>
        simp only
        match hlw : t.att.toLog.lastWrite v with
        | some x =>
            simp only
            refine ⟨?_, h.vers⟩
            intro q0 r0 hq σ hσ
            simp only [htd] at hq
            have h1 := h.pc q0 r0 (by rw [htd]; exact hq) σ hσ
            rw [hpc] at h1
            rw [h1]
            simp only [execLog, svalid, if_true, Log.read, hlw]
            rfl
        | none =>
            simp only
            match hfr : t.att.toLog.firstRead v with
            | some x =>
                simp only
                refine ⟨?_, h.vers⟩
                intro q0 r0 hq σ hσ
                simp only [htd] at hq
                have h1 := h.pc q0 r0 (by rw [htd]; exact hq) σ hσ
                rw [hpc] at h1
                rw [h1]
                simp only [execLog, svalid, if_true, Log.read, hlw, hfr]
                rfl
            | none =>
                simp only
                constructor
                · intro q0 r0 hq σ hσ
                  simp only [htd] at hq
                  -- the new log is the old one plus the read of `v`
                  have hσ' : t.att.toLog.ReadsOK σ := by
                    intro q hq'
                    apply hσ q
                    simp only [Attempt.toLog, List.map_cons, List.mem_cons] at hq' ⊢
                    exact Or.inr hq'
                  have hval : (st v).1 = σ v := by
                    have := hσ (v, (st v).1) (by simp [Attempt.toLog])
                    exact this
                  have h1 := h.pc q0 r0 (by rw [htd]; exact hq) σ hσ'
                  rw [hpc] at h1
                  rw [h1]
                  simp only [execLog, svalid, if_true, Log.read, hlw, hfr, sget]
                  rw [← hval]
                  rfl
                · intro r hr
                  simp only [List.mem_cons] at hr
                  rcases hr with rfl | hr
                  · exact ⟨Nat.le_refl _, fun _ => rfl⟩
                  · exact h.vers r hr

/-- shared memory changes only at a commit whose validation succeeded -/
theorem C07_only_valid_commits_publish (t : Thread Var Val ε α) (st : VStore Var Val)
    (h : (threadStep t st).2.1 ≠ st) :
    ∃ a, t.att.pc = .ret a ∧ t.att.valid st = true ∧ (threadStep t st).2.1 = publish t.att.writes st := by
  unfold threadStep at h ⊢
  match htd : t.todo with
  | [] => simp only [htd] at h; exact absurd rfl h
  | p0 :: rest =>
    simp only [htd] at h ⊢
    match hpc : t.att.pc with
    | .ret a =>
        simp only [hpc] at h ⊢
        by_cases hv : t.att.valid st = true
        · simp only [hv, if_true] at h ⊢
          exact ⟨a, rfl, trivial, trivial⟩
        · simp only [hv, if_false] at h; exact absurd rfl h
    | .abort e => simp only [hpc] at h; exact absurd rfl h
    | .retry => simp only [hpc] at h; exact absurd rfl h
    | .panic => simp only [hpc] at h; exact absurd rfl h
    | .write v x k => simp only [hpc] at h; exact absurd rfl h
    | .read v k =>
        simp only [hpc] at h
        match hlw : t.att.toLog.lastWrite v with
        | some x => simp only [hlw] at h; exact absurd rfl h
        | none =>
            simp only [hlw] at h
            match hfr : t.att.toLog.firstRead v with
            | some x => simp only [hfr] at h; exact absurd rfl h
            | none => simp only [hfr] at h; exact absurd rfl h

/-- a thread step either leaves shared memory alone and commits nothing, or is a validated commit -/
theorem threadStep_cases (t : Thread Var Val ε α) (st : VStore Var Val) :
    (threadStep t st).2 = (st, none) ∨
    ∃ p0 rest a, t.todo = p0 :: rest ∧ t.att.pc = .ret a ∧ t.att.valid st = true ∧
      (threadStep t st).2 = (publish t.att.writes st, some (p0, a)) := by
  unfold threadStep
  match htd : t.todo with
  | [] => left; rfl
  | p0 :: rest =>
    simp only
    match hpc : t.att.pc with
    | .ret a =>
        simp only
        by_cases hv : t.att.valid st = true
        · right; simp only [hv, if_true]; exact ⟨p0, rest, a, rfl, rfl, trivial, rfl⟩
        · left; simp [hv]
    | .abort e => left; rfl
    | .retry => left; rfl
    | .panic => left; rfl
    | .write v x k => left; rfl
    | .read v k =>
        simp only
        match hlw : t.att.toLog.lastWrite v with
        | some x => left; rfl
        | none =>
            simp only
            match hfr : t.att.toLog.firstRead v with
            | some x => left; rfl
            | none => left; rfl

theorem replay_append (cs : List (Nat × Prog Var Val ε α × α)) (i : Nat) (p : Prog Var Val ε α) (a : α) :
    ∀ (init mid fin : Var → Val), replay cs init = some mid → run p mid = (.ok a, fin) →
      replay (cs ++ [(i, p, a)]) init = some fin := by
  induction cs with
  | nil =>
      intro init mid fin h1 h2
      simp only [replay, Option.some.injEq] at h1
      subst h1
      simp only [List.nil_append, replay, h2, if_true]
  | cons c cs ih =>
      intro init mid fin h1 h2
      obtain ⟨j, q, b⟩ := c
      simp only [List.cons_append, replay] at h1 ⊢
      match hq : run q init with
      | (.ok b', s') =>
          simp only [hq] at h1 ⊢
          by_cases hb : b' = b
          · simp only [hb, if_true] at h1 ⊢
            exact ih s' mid fin h1 h2
          · simp only [hb, if_false] at h1
            exact absurd h1 (by simp)
      | (.err e, s') => simp only [hq] at h1; exact absurd h1 (by simp)
      | (.retry, s') => simp only [hq] at h1; exact absurd h1 (by simp)
      | (.panic, s') => simp only [hq] at h1; exact absurd h1 (by simp)

theorem TInv.other_step {u t : Thread Var Val ε α} {st : VStore Var Val} (hu : TInv u st) :
    TInv u (threadStep t st).2.1 := by
  rcases threadStep_cases t st with h | ⟨p0, rest, a, _, _, _, h⟩
  · rw [h]; exact hu
  · rw [h]; exact ⟨hu.pc, hu.vers.publish _⟩

theorem step_inv (init : Var → Val) (s : Sys Var Val ε α) (i : Nat) (h : SInv init s) :
    SInv init (s.step i) := by
  unfold Sys.step
  match hti : s.threads[i]? with
  | none => simp only; exact h
  | some t =>
      simp only
      have htm : t ∈ s.threads := List.mem_of_getElem? hti
      have hT := h.thr t htm
      constructor
      · intro u hu
        simp only at hu
        rcases List.mem_or_eq_of_mem_set hu with hu | rfl
        · exact (h.thr u hu).other_step
        · exact threadStep_inv t s.store hT
      · simp only
        rcases threadStep_cases t s.store with hc | ⟨p0, rest, a, htd, hpc, hv, hc⟩
        · have h1 : (threadStep t s.store).2.1 = s.store := by rw [hc]
          have h2 : (threadStep t s.store).2.2 = none := by rw [hc]
          rw [h1, h2]; exact h.rep
        · have h1 : (threadStep t s.store).2.1 = publish t.att.writes s.store := by rw [hc]
          have h2 : (threadStep t s.store).2.2 = some (p0, a) := by rw [hc]
          rw [h1, h2]
          exact replay_append s.commits i p0 a init _ _ h.rep (T3_validated_commit t s.store p0 rest a htd hpc hT hv)

theorem exec_inv (init : Var → Val) (sched : List Nat) :
    ∀ s : Sys Var Val ε α, SInv init s → SInv init (s.exec sched) := by
  induction sched with
  | nil => intro s h; exact h
  | cons i is ih => intro s h; exact ih _ (step_inv init s i h)

theorem init_inv (init : Var → Val) (progs : List (List (Prog Var Val ε α))) :
    SInv init (Sys.init init progs) := by
  constructor
  · intro t ht
    simp only [Sys.init, List.mem_map] at ht
    obtain ⟨ps, _, rfl⟩ := ht
    exact ⟨pcOK_fresh _ _, versOK_nil _⟩
  · rfl

/-- **C07 (protocol level)**: under EVERY interleaving, the final shared memory and the values
    returned by the committed transactions are those of the sequential execution of the committed
    transactions in commit order -/
theorem C07_serializable (init : Var → Val) (progs : List (List (Prog Var Val ε α))) (sched : List Nat) :
    replay ((Sys.init init progs).exec sched).commits init =
      some (vals ((Sys.init init progs).exec sched).store) :=
  (exec_inv init sched _ (init_inv init progs)).rep

/-- reformulation with `atomically`: each committed transaction, run alone through
    `atomically_with_err` on the memory left by its predecessors, returns the recorded value -/
theorem C07_replay_step (p : Prog Var Val ε α) (a : α) (s s' : Var → Val)
    (h : run p s = (.ok a, s')) : atomically p s = (.ok a, s') ∧ atomicallyLog p s = (.ok a, s') := by
  have := atomically_ok h
  exact ⟨this, by rw [T1_atomicallyLog_eq]; exact this⟩

/-! ## non-vacuity: the lost-update scenario, all interleavings of two increments up to length 12 -/

/-- `x := x + 1` on variable `0` -/
def incr : Prog Nat Nat Unit Nat := .read 0 fun x => .write 0 (x + 1) (.ret (x + 1))

/-- two threads, one increment each, interleaved read-read-write-write-commit-commit: the second
    commit fails validation, restarts, and the final value is 2 (not the lost-update value 1) -/
example : (vals ((Sys.init (fun _ => 0) [[incr], [incr]]).exec [0, 1, 0, 1, 0, 1, 1, 1, 1]).store) 0 = 2 := by
  decide
example : ((Sys.init (fun _ => (0 : Nat)) [[incr], [incr]]).exec [0, 1, 0, 1, 0, 1, 1, 1, 1]).commits.map (·.1) = [0, 1] := by
  decide
/-- the failed validation really happened: thread 1 finished only after a restart -/
example : ((Sys.init (fun _ => (0 : Nat)) [[incr], [incr]]).exec [0, 1, 0, 1, 0, 1]).commits.map (·.1) = [0] := by
  decide

end HC.C07
