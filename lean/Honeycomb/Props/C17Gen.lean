/-
  C16 / C17 — `detect_overlaps` and the sizing part of `compute_overlapping_grid` (grisubal/routines/pre_processing.rs):
  the data of Gen/PreProc.lean (regenerated from the source by tools/gen_pre.py) given its meaning and proved equal to
  the hand-written model of Model/Grisubal.lean (`onLine`, `detectOverlaps`, `badReflection`'s guard, `gridOrigin`, `gridCells`).
-/
import Honeycomb.Gen.PreProc
import Honeycomb.Model.Grisubal

namespace HC.GenTie
open HC HC.Gen

def ppAx : PpAx → Rat → Rat → Rat
  | .x, a, _ => a
  | .y, _, b => b

def ppCell : PpCell → Rat → Rat → Rat
  | .cx, a, _ => a
  | .cy, _, b => b

def ppOp : PpOp → Bool → Bool → Bool
  | .and, a, b => a && b
  | .or, a, b => a || b

/-- `((v.COORD() - origin.ORG()) % CELL).is_zero()` -/
def ppLine (l : PpLine) (cx cy ox oy : Rat) (v : Rat × Rat) : Bool :=
  match l.test with
  | .isZero => onLine (ppAx l.org ox oy) (ppCell l.cell cx cy) (ppAx l.coord v.1 v.2)

/-- the `on_grid` chain: `.map(|v| if overlap_only_corners { x OP y } else { x OP' y }).any(|a| a)` -/
def ppOnGrid (verts : List (Rat × Rat)) (cx cy ox oy : Rat) (onlyCorners : Bool) : Bool :=
  verts.any fun v =>
    if onlyCorners then ppOp ppOnGridCorner (ppLine ppOnGridX cx cy ox oy v) (ppLine ppOnGridY cx cy ox oy v)
    else ppOp ppOnGridLine (ppLine ppOnGridX cx cy ox oy v) (ppLine ppOnGridY cx cy ox oy v)

/-- the guard of the `filter_map` of the `bad_reflection` chain -/
def ppRefl (cx cy ox oy : Rat) (v : Rat × Rat) : Bool :=
  ppOp ppReflOp (ppLine ppReflX cx cy ox oy v) (ppLine ppReflY cx cy ox oy v)

/-- the x test reads v.x, origin.x and cx, the y test v.y, origin.y and cy, both `.is_zero()`; `&&` for corners, `||` for lines -/
theorem C17_gen_on_grid_axes :
    ppOnGridX = ⟨.x, .x, .cx, .isZero⟩ ∧ ppOnGridY = ⟨.y, .y, .cy, .isZero⟩ ∧ ppOnGridCorner = .and ∧ ppOnGridLine = .or ∧
    ppReflX = ⟨.x, .x, .cx, .isZero⟩ ∧ ppReflY = ⟨.y, .y, .cy, .isZero⟩ ∧ ppReflOp = .or := by decide

/-- the translated `on_grid` is the first component of the model's `detectOverlaps` -/
theorem C17_gen_on_grid (verts : List (Rat × Rat)) (segs : List (Nat × Nat)) (cx cy ox oy : Rat) (only : Bool) :
    (detectOverlaps verts segs cx cy ox oy only).map (·.1) =
      (detectOverlaps verts segs cx cy ox oy only).map fun _ => ppOnGrid verts cx cy ox oy only := by
  unfold detectOverlaps
  cases badReflection verts segs ox oy cx cy verts.zipIdx <;> rfl

theorem C17_gen_on_grid_eq (verts : List (Rat × Rat)) (cx cy ox oy : Rat) (only : Bool) :
    ppOnGrid verts cx cy ox oy only =
      verts.any fun v => if only then onLine ox cx v.1 && onLine oy cy v.2 else onLine ox cx v.1 || onLine oy cy v.2 := rfl

/-- the translated guard of `bad_reflection` is the one of the model's `badReflection` -/
theorem C17_gen_refl_guard (cx cy ox oy : Rat) (v : Rat × Rat) :
    ppRefl cx cy ox oy v = (onLine ox cx v.1 || onLine oy cy v.2) := rfl

/-! ### `compute_overlapping_grid`: bounding box, origin, cell counts -/

def ppVar : PpVar → (mnx mxx mny mxy : Rat) → Rat
  | .minX, a, _, _, _ => a
  | .maxX, _, b, _, _ => b
  | .minY, _, _, c, _ => c
  | .maxY, _, _, _, d => d

/-- `og = BOUND - CELL * (num/den)`, then shifted by `CELL' * shift` -/
def ppOrigin (a : PpAxis) (mnx mxx mny mxy cx cy shift : Rat) : Rat :=
  ppVar a.ogBound mnx mxx mny mxy - ppCell a.ogCell cx cy * ((a.ogNum : Rat) / (a.ogDen : Rat)) + ppCell a.shCell cx cy * shift

/-- `n_cells = ((BOUND - og) / CELL).ceil().to_usize().unwrap() + PLUS` -/
def ppCells (a : PpAxis) (mnx mxx mny mxy cx cy ogx ogy : Rat) : Nat :=
  ((ppVar a.ncBound mnx mxx mny mxy - ppAx a.ncOg ogx ogy) / ppCell a.ncCell cx cy).ceil.toNat + a.ncPlus

theorem C16_gen_grid_data :
    ppBounds = [⟨.minX, .x, .min, .x⟩, ⟨.maxX, .x, .max, .x⟩, ⟨.minY, .y, .min, .y⟩, ⟨.maxY, .y, .max, .y⟩] ∧
    ppGuards = [(.maxX, .minX), (.maxY, .minY)] ∧
    ppAxisX = ⟨.minX, .cx, 3, 2, .cx, .maxX, .x, .cx, 1⟩ ∧ ppAxisY = ⟨.minY, .cy, 3, 2, .cy, .maxY, .y, .cy, 1⟩ := by decide

theorem C16_gen_grid_origin (mnx mxx mny mxy cx cy shift : Rat) :
    ppOrigin ppAxisX mnx mxx mny mxy cx cy shift = gridOrigin mnx cx shift ∧
    ppOrigin ppAxisY mnx mxx mny mxy cx cy shift = gridOrigin mny cy shift := by
  constructor <;> simp [ppOrigin, ppAxisX, ppAxisY, ppVar, ppCell, gridOrigin]

theorem C16_gen_grid_cells (mnx mxx mny mxy cx cy shift : Rat) :
    ppCells ppAxisX mnx mxx mny mxy cx cy (gridOrigin mnx cx shift) (gridOrigin mny cy shift) = gridCells mnx mxx cx shift ∧
    ppCells ppAxisY mnx mxx mny mxy cx cy (gridOrigin mnx cx shift) (gridOrigin mny cy shift) = gridCells mny mxy cy shift :=
  ⟨rfl, rfl⟩

end HC.GenTie
