/-
  C05, 3-sew on OPEN faces: the data clause under the cell-level proviso alone
  (`C05_threeSew3_vertices_far_open`): when the vertex unions of the code (`codePairs`, in the order
  of the zipped face walks) are pairwise `Far`, the kept collected identifier pairs share no
  identifier (`Disj`), hence `C05_threeSew3_vertices` applies: every kept pair ends with `merge*` of
  the two values held before the call at the smaller identifier, nothing at the other one, and
  identifiers in no kept pair keep their value.
-/
import Honeycomb.Props.C05Cells3

set_option linter.unusedSimpArgs false
set_option linter.unusedVariables false

namespace HC.C05
open HC HC.CellCalc HC.Cell3
open HC.C04 (vStores eStores)
variable {X : Type}

/-- two collected pairs share no identifier, provided both are kept by the merge loop -/
def KeptDisj (p q : Nat × Nat) : Prop := keepPair p = true → keepPair q = true → Disj p q

theorem codePairs_cons (m : Map X) (lr : Nat × Nat) (rest : List (Nat × Nat)) :
    codePairs m (lr :: rest) = codePairs m [lr] ++ codePairs m rest := by
  unfold codePairs; simp [List.flatMap_cons]

theorem keepPair_iff (p : Nat × Nat) : keepPair p = true ↔ p.1 ≠ p.2 ∧ p.1 ≠ 0 ∧ p.2 ≠ 0 := by
  unfold keepPair; simp

theorem vidOr0_ne {m : Map X} {d v : Nat} (h : VidOr0 m d v) (hv : v ≠ 0) : d ≠ 0 ∧ IsVid3 m d v := by
  rcases h with k | ⟨_, k⟩
  · exact k
  · exact absurd k hv

/-- a kept collected pair is the identifier pair of one of the vertex unions of the code -/
theorem kept_code {m : Map X} (hwf : WF 4 m) {zs es vs : List (Nat × Nat)} (hC : Collected m.n m zs es vs)
    (hz : ∀ lr, lr ∈ zs → lr.1 ≠ 0 ∧ lr.1 < m.n ∧ lr.2 ≠ 0 ∧ lr.2 < m.n) {p : Nat × Nat} (hp : p ∈ vs)
    (hk : keepPair p = true) : ∃ x, x ∈ codePairs m zs ∧ IsVid3 m x.1 p.1 ∧ IsVid3 m x.2 p.2 := by
  obtain ⟨_, _, c3, _⟩ := collected_ids_gen hwf hC hz
  obtain ⟨lr, hm, k⟩ := c3 p hp
  obtain ⟨_, p10, p20⟩ := (keepPair_iff p).1 hk
  rcases k with ⟨a, b⟩ | ⟨c0, a, b⟩
  · obtain ⟨h0, hv⟩ := vidOr0_ne a p10
    exact ⟨(headG m lr.1, lr.2), (mem_codePairs _).2 ⟨lr, hm, Or.inl ⟨h0, rfl⟩⟩, hv, b⟩
  · obtain ⟨h0, hv⟩ := vidOr0_ne b p20
    exact ⟨(lr.1, headG m lr.2), (mem_codePairs _).2 ⟨lr, hm, Or.inr ⟨c0, h0, rfl⟩⟩, a, hv⟩

/-- **the cell-level proviso implies the identifier-level one**, on any faces -/
theorem collected_keptDisj {m : Map X} (hwf : WF 4 m) :
    ∀ {zs es vs : List (Nat × Nat)}, Collected m.n m zs es vs →
      (∀ lr, lr ∈ zs → lr.1 ≠ 0 ∧ lr.1 < m.n ∧ lr.2 ≠ 0 ∧ lr.2 < m.n) →
      (codePairs m zs).Pairwise (Far (SameCell (g3v m) m.n)) → vs.Pairwise KeptDisj := by
  intro zs es vs hC
  induction hC with
  | nil => intro _ _; exact List.Pairwise.nil
  | @cons l r rest es vs es' vs' hP hC' ih =>
      intro hz hfar
      rw [codePairs_cons] at hfar
      obtain ⟨hA, hB, hX⟩ := List.pairwise_append.1 hfar
      have hz' := fun lr hm => hz lr (List.mem_cons_of_mem _ hm)
      have hz1 : ∀ lr, lr ∈ [(l, r)] → lr.1 ≠ 0 ∧ lr.1 < m.n ∧ lr.2 ≠ 0 ∧ lr.2 < m.n :=
        fun lr hm => hz lr (by rw [List.mem_singleton.1 hm]; simp)
      have single : Collected m.n m [(l, r)] es vs := by
        have := Collected.cons hP (Collected.nil (n := m.n) (m := m))
        simpa using this
      refine List.pairwise_append.2 ⟨?_, ih hz' hB, ?_⟩
      · -- the (at most two) pairs of one step
        obtain ⟨hl0, hln, hr0, hrn⟩ := hz (l, r) (by simp)
        simp only at hl0 hln hr0 hrn
        obtain ⟨el, er, v1, v2, hel, her, hv1, hv2, hes, hvs⟩ := hP
        rcases hvs with ⟨c, rfl⟩ | ⟨c, v3, v4, hv3, hv4, rfl⟩
        · exact List.pairwise_singleton _ _
        · refine List.pairwise_cons.2 ⟨fun b hb ka kb => ?_, List.pairwise_singleton _ _⟩
          have : b = (v3, v4) := by simpa using hb
          subst this
          rw [head_code_eq] at hv1 hv4
          obtain ⟨_, a10, a20⟩ := (keepPair_iff _).1 ka
          obtain ⟨_, b10, b20⟩ := (keepPair_iff _).1 kb
          simp only at a10 a20 b10 b20
          obtain ⟨hh1, s1⟩ := vidOr0_ne (vidOr0_spec hwf (headG_lt hwf hln) hv1) a10
          have s2 := (vertexId3_spec hwf hr0 hrn hv2).2
          have s3 := (vertexId3_spec hwf hl0 hln hv3).2
          obtain ⟨hh2, s4⟩ := vidOr0_ne (vidOr0_spec hwf (headG_lt hwf hrn) hv4) b20
          have cpeq : codePairs m [(l, r)] = [(headG m l, r), (l, headG m r)] := by
            unfold codePairs; simp [hh1, hh2, c]
          rw [cpeq] at hA
          have hF := (List.pairwise_cons.1 hA).1 (l, headG m r) (by simp)
          exact far_to_disj (p := (v1, v2)) (p' := (v3, v4)) hF s1 s2 s3 s4
      · intro a ha b hb ka kb
        obtain ⟨x, hx, x1, x2⟩ := kept_code hwf single hz1 ha ka
        obtain ⟨y, hy, y1, y2⟩ := kept_code hwf hC' hz' hb kb
        exact far_to_disj (p := a) (p' := b) (hX x hx y hy) x1 x2 y1 y2

/-- **C05 (3-sew on open faces, vertices) under the cell-level proviso alone**: the vertex unions of
    the code, in the order of its zipped face walks, are pairwise `Far` — then the kept collected
    pairs share no identifier and every kept pair ends with `merge*` of the two values held before
    the call at the smaller identifier (which is the smallest dart of the united cell:
    `C05_threeSew3_cells_open`), nothing at the other one; identifiers in no kept pair keep their
    value -/
theorem C05_threeSew3_vertices_far_open (cfg : Cfg X) (m m' : Map X) (ld rd : Nat) (u : Unit)
    (hwf : WF 4 m) (hl : C02.InUse m ld) (hr : C02.InUse m rd) (hne : ld ≠ rd) (hfc : m.fc = 0)
    (hopen : ∃ t, it m 1 t ld = 0)
    (h : run (threeSew3 cfg m.n ld rd) m = (.ok u, m')) :
    ∃ F B lo ro es vs,
      OpenPair m ld rd F B ∧ run (faceOrbits3 m.n ld rd) m = (.ok (lo, ro), m) ∧
      (∀ pq, pq ∈ lo.zip ro ↔ pq ∈ openPairs m ld rd F B) ∧ Collected m.n m (lo.zip ro) es vs ∧
      ((codePairs m (lo.zip ro)).Pairwise (Far (SameCell (g3v m) m.n)) →
        (vs.filter keepPair).Pairwise Disj ∧
        (∀ p, p ∈ vs.filter keepPair → ∀ t, t ∈ vStores cfg →
          ∃ v, mergeVal (cfg.law t) (m.att t p.1) (m.att t p.2) = .ok v ∧
            m'.att t (min p.1 p.2) = some v ∧ m'.att t (max p.1 p.2) = none) ∧
        (∀ t e, t ∈ vStores cfg → (∀ p, p ∈ vs.filter keepPair → e ≠ p.1 ∧ e ≠ p.2) →
          m'.att t e = m.att t e)) := by
  obtain ⟨F, B, m1, lo, ro, es, vs, mf, me, O, hlink, hw1, htopo, hL, hfo, hzip, _, _, _, _, _, _, hC, _⟩ :=
    C05_threeSew3_cells_open cfg m m' ld rd u hwf hl hr hne hfc hopen h
  obtain ⟨lo', ro', es', vs', hfo', hC', hdata⟩ := C05_threeSew3_vertices cfg m.n ld rd m m' u hfc h
  have e := run_ok_inj' hfo hfo'
  simp only [Prod.mk.injEq] at e
  obtain ⟨rfl, rfl⟩ := e
  obtain ⟨rfl, rfl⟩ := collected_det hC hC'
  refine ⟨F, B, lo, ro, es, vs, O, hfo, hzip, hC, fun hfar => ?_⟩
  have hz : ∀ lr, lr ∈ lo.zip ro → lr.1 ≠ 0 ∧ lr.1 < m.n ∧ lr.2 ≠ 0 ∧ lr.2 < m.n := by
    intro lr hm
    obtain ⟨_, _, _, _, a5, a6, a7, a8⟩ := hL.pairs lr ((hzip lr).1 hm)
    exact ⟨a5, a7, a6, a8⟩
  have hK := (collected_keptDisj hwf hC hz hfar).filter keepPair
  have hD : (vs.filter keepPair).Pairwise Disj :=
    List.Pairwise.imp_of_mem (fun {a b} ha hb hab => hab (List.mem_filter.1 ha).2 (List.mem_filter.1 hb).2) hK
  obtain ⟨d1, d2⟩ := hdata hD
  exact ⟨hD, d1, d2⟩


/-! ## non-vacuity -/

/-- the two open chains of `exChains`, 3-sewn along `(2, 5)`: the code visits `(2, 5), (3, 4), (1, 6)`
    and unites the vertices `3 — 5` and `2 — 6`, four different vertices -/
example := C05_threeSew3_vertices_far_open plainCfg exChains (run (threeSew3 plainCfg exChains.n 2 5) exChains).2 2 5 ()
  (by decide +kernel) (by decide +kernel) (by decide +kernel) (by decide) rfl ⟨2, by decide +kernel⟩
  (run_of_fst (by decide +kernel))
example : codePairs exChains ((bfsPure (gIJ exChains 1 0) (exChains.n + 1) [2] [0, 2] []).zip
    (bfsPure (gIJ exChains 0 1) (exChains.n + 1) [5] [0, 5] [])) = [(3, 5), (2, 6)] := by decide +kernel
example : [((3 : Nat), (5 : Nat)), (2, 6)].Pairwise (Far (SameCell (g3v exChains) exChains.n)) :=
  pairwise_far_of_cellId3 (by decide +kernel) rfl (by decide +kernel) (by decide +kernel)

/-- the open glued faces of the cut tetrahedra, sewn again from the middle dart -/
example := C05_threeSew3_vertices_far_open plainCfg exTetsCutOpen
  (run (threeSew3 plainCfg exTetsCutOpen.n 2 13) exTetsCutOpen).2 2 13 ()
  (by decide +kernel) (by decide +kernel) (by decide +kernel) (by decide) (by decide +kernel) ⟨2, by decide +kernel⟩
  (run_of_fst (by decide +kernel))
/-- (there the proviso does NOT hold: the head of the last dart 3 and the first dart 1 are the same
    vertex of the tetrahedron, which takes part in two unions — the data clause is not claimed) -/
example : C03.cellId3 exTetsCutOpen .vertex 4 = C03.cellId3 exTetsCutOpen .vertex 1 := by decide +kernel

end HC.C05
