/-
  C11, third part — export followed by import on meshes without cracks.

  For a well-formed map whose in-use faces are closed with at least three sides, whose vertices all have
  coordinates, in which no two darts run between the same ordered pair of vertices and the two ends of every
  side have different coordinates (`Exportable`):
  (c1) `C11_export_ok`: the export does not panic and its piece is given in closed form (points of the
       `iter_vertices` ids; one `Line` per 2-free edge id; one cell per face id listing the points of the
       β1 walk from the face id);
  (c2) `C11_roundTrip_faces`: export followed by import returns `Ok m'`; `m'` is well formed and consists of
       one β1 cycle on consecutive darts per face of `m`, dart `sⱼ + i` of `m'` being the COPY of the i-th dart
       of the walk of the j-th face id: its successor is the copy of the successor, and its vertex carries
       the coordinates (z dropped) of that dart's vertex in `m`  (per-face statement);
  (c3) `C11_roundTrip_adjacency`: if moreover `m` has no crack (`NoCrack`: no two 2-free darts run between
       the same two vertices in opposite directions), the copies of `d` and `e` are 2-sewn in `m'` EXACTLY
       when `β2 d = e` in `m`  (adjacency statement; with the known finding C11-crack this hypothesis is
       necessary).
  (c4) `C11_roundTrip_bijection`: "is the copy of" is a bijection between the darts of `m'` and the in-use
       darts of `m`.
  Together: `d ↦ copy of d` is an isomorphism from the in-use part of `m` onto `m'` for β1, β2 and the
  vertex coordinates.
-/
import Honeycomb.Props.C11b
import Mathlib.Data.List.Nodup

set_option linter.unusedSimpArgs false
set_option linter.unusedVariables false

namespace HC.C11
open HC HC.Vtk HC.C03 HC.CellCalc

/-! ## the legacy encoding is read back as the same cells -/

theorem compLoop_cell (vs rest : List Nat) : ∀ (c : List Nat) (acc : List (List Nat)),
    compLoop (vs ++ rest) vs.length (c :: acc) = compLoop rest 0 ((vs.reverse ++ c) :: acc) := by
  induction vs with
  | nil => intro c acc; simp
  | cons v vs ih =>
      intro c acc
      simp only [List.cons_append, List.length_cons]
      conv => lhs; unfold compLoop
      rw [ih]
      simp

theorem compLoop_cells : ∀ (cells : List VCell) (acc : List (List Nat)),
    compLoop ((cells.map (fun c => c.vids.length :: c.vids)).flatten) 0 acc =
      (acc.map List.reverse).reverse ++ cells.map (·.vids) := by
  intro cells
  induction cells with
  | nil => intro acc; simp [compLoop]
  | cons c cs ih =>
      intro acc
      simp only [List.map_cons, List.flatten_cons, List.cons_append]
      conv => lhs; unfold compLoop
      rw [compLoop_cell, ih]
      simp

theorem zip_rebuild : ∀ (cells : List VCell),
    ((cells.map (·.ty)).zip (cells.map (·.vids))).map (fun tc => (⟨tc.1, tc.2⟩ : VCell)) = cells := by
  intro cells
  induction cells with
  | nil => rfl
  | cons c cs ih => simp only [List.map_cons, List.zip_cons_cons, ih]

theorem importLegacy_toLegacy (pts : List Val) (cells : List VCell) (mask : Nat) :
    importLegacy pts (toLegacy cells).1 (toLegacy cells).2.1 (toLegacy cells).2.2 mask =
      importCells pts cells mask := by
  unfold importLegacy toLegacy
  simp only [List.length_map, ne_eq, not_true_eq_false, if_false]
  rw [compLoop_cells]
  simp only [List.map_nil, List.reverse_nil, List.nil_append, List.length_map, not_true_eq_false, if_false]
  rw [zip_rebuild]

/-! ## the export in closed form -/

/-- vertex identifier (C03: the smallest dart of the vertex orbit) -/
abbrev vid (m : Map Val) (d : Nat) : Nat := cellId m .vertex d
/-- the point index the exporter gives to the vertex of dart `d` -/
def ptD (m : Map Val) (d : Nat) : Nat := (pointOf m (iterVertices2 m) d).getD 0
/-- the darts listed for the face identifier `f`: the β1 walk from `f` -/
def walkOf (m : Map Val) (f : Nat) : List Nat := orb m (.custom [1]) f
def ptsE (m : Map Val) : List Val := (iterVertices2 m).map (fun v => flat ((m.att 0 v).getD default))
def lineE (m : Map Val) (e : Nat) : VCell := ⟨3, [ptD m e, ptD m (m.β 1 e)]⟩
def faceE (m : Map Val) (f : Nat) : VCell := ⟨cellTypeOfCount (walkOf m f).length, (walkOf m f).map (ptD m)⟩

/-- the meshes of the composition theorem -/
structure Exportable (m : Map Val) : Prop where
  wf : WF 3 m
  /-- every in-use face is closed … -/
  closed : ∀ d, C01.InUse m d → m.β 1 d ≠ 0
  /-- … with at least three sides -/
  big : ∀ f, f ∈ iterFaces2 m → 3 ≤ (walkOf m f).length
  /-- every vertex has coordinates -/
  vals : ∀ v, v ∈ iterVertices2 m → ∃ x y z, m.att 0 v = some (.pt x y z)
  /-- no two darts run between the same ordered pair of vertices -/
  uniq : ∀ d e, C01.InUse m d → C01.InUse m e → vid m d = vid m e →
    vid m (m.β 1 d) = vid m (m.β 1 e) → d = e
  /-- the two ends of a side have different coordinates in the plane -/
  ends : ∀ d, C01.InUse m d → ∀ x y z x' y' z', m.att 0 (vid m d) = some (.pt x y z) →
    m.att 0 (vid m (m.β 1 d)) = some (.pt x' y' z') → x ≠ x' ∨ y ≠ y'

theorem pointOf_inUse {m : Map Val} (hwf : WF 3 m) {d : Nat} (hd : C01.InUse m d) :
    pointOf m (iterVertices2 m) d = some (ptD m d) ∧ (iterVertices2 m)[ptD m d]? = some (vid m d) := by
  obtain ⟨k, hk, hk'⟩ := C11_export_pointOf hwf hd.1 hd.2.1 hd.2.2
  have : ptD m d = k := by unfold ptD; rw [hk]; rfl
  rw [this]; exact ⟨hk, hk'⟩

theorem inUse_b1 {m : Map Val} (hwf : WF 3 m) {d : Nat} (hd : C01.InUse m d) (h1 : m.β 1 d ≠ 0) :
    C01.InUse m (m.β 1 d) := by
  refine ⟨h1, hwf.range 1 (by omega) d hd.2.1, ?_⟩
  cases hu : m.unused (m.β 1 d) with
  | false => rfl
  | true => exact absurd (C01.C01_unused_is_nobodys_image hwf 1 (by omega) d hd.2.1 hu) h1

theorem inUse_of_iterFaces {m : Map Val} {f : Nat} (h : f ∈ iterFaces2 m) : C01.InUse m f := by
  have := (mem_iterCells m (faceId2 m.n) f).1 h
  exact ⟨this.2.1, this.1, this.2.2.1⟩

theorem inUse_of_boundary {m : Map Val} {e : Nat} (h : e ∈ boundaryEdges m) : C01.InUse m e ∧ m.β 2 e = 0 := by
  unfold boundaryEdges at h
  rw [List.mem_filter] at h
  have := (mem_iterCells m edgeId2 e).1 h.1
  exact ⟨⟨this.2.1, this.1, this.2.2.1⟩, by simpa using h.2⟩

/-- the β1 walk from a face identifier of an exportable map -/
theorem walk_facts {m : Map Val} (hE : Exportable m) {f : Nat} (hf : f ∈ iterFaces2 m) :
    walk1 m f = some (walkOf m f) ∧ (walkOf m f).head? = some f ∧ (walkOf m f).Nodup ∧
    Walk (m.β 1) (walkOf m f) ∧ (∀ x, x ∈ walkOf m f → C01.InUse m x) ∧
    ∃ hne : walkOf m f ≠ [], m.β 1 ((walkOf m f).getLast hne) = f := by
  have hu := inUse_of_iterFaces hf
  have hp : PolOK (.custom [1]) := by intro b hb; simp at hb; omega
  obtain ⟨o, ho, hhead, hnd, hwalk, hmem⟩ := C11_export_walk hE.wf hu.1 hu.2.1
  have hoeq : o = walkOf m f := by
    have := (C03_orbit2_spec hE.wf hp hu.1 hu.2.1).1
    unfold walk1 at ho
    rw [this] at ho
    unfold walkOf
    simpa using ho.symm
  subst hoeq
  have hin : ∀ x, x ∈ walkOf m f → C01.InUse m x := fun x hx =>
    ⟨(hmem x hx).1, (hmem x hx).2.1, C03_orbit_of_in_use_is_in_use hE.wf hp hu.1 hu.2.1 hu.2.2 x hx⟩
  exact ⟨ho, hhead, hnd, hwalk, hin,
    C11_export_walk_closed hE.wf hu.1 hu.2.1 ho (fun x hx => hE.closed x (hin x hx))⟩

theorem optAll_map_some {α : Type} : ∀ (l : List α), optAll (l.map some) = some l := by
  intro l
  induction l with
  | nil => rfl
  | cons a l ih => simp only [List.map_cons, optAll, ih]

/-- **C11 (c1)**: the export of an exportable map does not panic, and its piece is: the coordinates
    (z = 0) of the `iter_vertices` identifiers; one `Line` per 2-free edge identifier; one cell per
    face identifier listing the points of the darts of its β1 walk -/
theorem C11_export_ok {m : Map Val} (hE : Exportable m) :
    exportPiece m = .ok (ptsE m, (boundaryEdges m).map (lineE m) ++ (iterFaces2 m).map (faceE m)) := by
  have hwf := hE.wf
  have h1 : (iterVertices2 m).map (fun v => m.att 0 v) =
      ((iterVertices2 m).map (fun v => (m.att 0 v).getD default)).map some := by
    rw [List.map_map]
    apply List.map_congr_left
    intro v hv
    obtain ⟨x, y, z, e⟩ := hE.vals v hv
    simp [e]
  have h2 : (boundaryEdges m).map (lineCell m (iterVertices2 m)) = ((boundaryEdges m).map (lineE m)).map some := by
    rw [List.map_map]
    apply List.map_congr_left
    intro e he
    obtain ⟨hu, _⟩ := inUse_of_boundary he
    have hu1 := inUse_b1 hwf hu (hE.closed e hu)
    unfold lineCell
    rw [(pointOf_inUse hwf hu).1, (pointOf_inUse hwf hu1).1]
    rfl
  have h3 : (iterFaces2 m).map (faceCell m (iterVertices2 m)) =
      ((iterFaces2 m).map (fun f => some (faceE m f))).map some := by
    rw [List.map_map]
    apply List.map_congr_left
    intro f hf
    obtain ⟨hw, _, _, _, hin, _⟩ := walk_facts hE hf
    have hpts : (walkOf m f).map (pointOf m (iterVertices2 m)) = ((walkOf m f).map (ptD m)).map some := by
      rw [List.map_map]
      apply List.map_congr_left
      intro x hx
      exact (pointOf_inUse hwf (hin x hx)).1
    have hbig := hE.big f hf
    unfold faceCell
    rw [hw]
    simp only
    rw [hpts, optAll_map_some]
    simp only [List.length_map]
    rw [if_neg (by omega)]
    rfl
  unfold exportPiece
  simp only
  rw [h1, optAll_map_some, h2, optAll_map_some, h3, optAll_map_some]
  simp only [ptsE, List.map_map]
  congr 2
  rw [List.filterMap_map]
  simp

/-! ## the exported piece is a conforming list -/

def cellsE (m : Map Val) : List VCell := (boundaryEdges m).map (lineE m) ++ (iterFaces2 m).map (faceE m)
/-- the walks of the face identifiers, in export order -/
def walks (m : Map Val) : List (List Nat) := (iterFaces2 m).map (walkOf m)
/-- the pair of point indices of the side leaving dart `d` -/
def sideD (m : Map Val) (d : Nat) : Nat × Nat := (ptD m d, ptD m (m.β 1 d))

theorem cellType_mem (k : Nat) : cellTypeOfCount k = 5 ∨ cellTypeOfCount k = 7 ∨ cellTypeOfCount k = 9 := by
  unfold cellTypeOfCount
  split
  · exact Or.inl rfl
  · split
    · exact Or.inr (Or.inr rfl)
    · exact Or.inr (Or.inl rfl)

theorem goodCell_cellsE {m : Map Val} (hE : Exportable m) : ∀ c, c ∈ cellsE m → GoodCell c := by
  intro c hc
  unfold cellsE at hc
  rcases List.mem_append.1 hc with h | h
  · obtain ⟨e, _, rfl⟩ := List.mem_map.1 h
    exact Or.inr (Or.inl ⟨rfl, rfl⟩)
  · obtain ⟨f, hf, rfl⟩ := List.mem_map.1 h
    have hb := hE.big f hf
    unfold GoodCell faceE cellTypeOfCount
    simp only [List.length_map]
    by_cases c3 : (walkOf m f).length = 3
    · simp [c3]
    · by_cases c4 : (walkOf m f).length = 4
      · simp [c4]
      · simp [c3, c4]

theorem faceLists_cellsE (m : Map Val) : faceLists (cellsE m) = (walks m).map (fun o => o.map (ptD m)) := by
  unfold faceLists cellsE walks
  rw [List.filterMap_append]
  have h1 : (List.map (lineE m) (boundaryEdges m)).filterMap
      (fun c => if c.ty = 5 ∨ c.ty = 7 ∨ c.ty = 9 then some c.vids else none) = [] := by
    rw [List.filterMap_map]
    apply List.filterMap_eq_nil_iff.2
    intro e _
    simp [lineE]
  rw [h1, List.nil_append, List.filterMap_map, List.map_map]
  rw [← List.filterMap_eq_map]
  apply List.filterMap_congr
  intro f _
  have := cellType_mem (walkOf m f).length
  simp [faceE, this]

theorem walk_getD {f : Nat → Nat} : ∀ (l : List Nat), Walk f l → ∀ i, i + 1 < l.length →
    l.getD (i + 1) 0 = f (l.getD i 0) := by
  intro l
  induction l with
  | nil => intro _ i hi; simp at hi
  | cons a l ih =>
      intro h i hi
      cases l with
      | nil => simp at hi
      | cons b l =>
          cases i with
          | zero => simp [h.1]
          | succ i =>
              have := ih h.2 i (by simpa using hi)
              simpa using this

/-- in a closed walk the cyclic successor is the β1 image -/
theorem walk_cyclic {m : Map Val} {o : List Nat} {f0 : Nat} (hw : Walk (m.β 1) o) (hh : o.head? = some f0)
    (hcl : ∃ hne : o ≠ [], m.β 1 (o.getLast hne) = f0) :
    ∀ i, i < o.length → o.getD ((i + 1) % o.length) 0 = m.β 1 (o.getD i 0) := by
  intro i hi
  obtain ⟨hne, hl⟩ := hcl
  by_cases c : i + 1 < o.length
  · rw [Nat.mod_eq_of_lt c]; exact walk_getD o hw i c
  · have e : i + 1 = o.length := by omega
    rw [e, Nat.mod_self]
    have h0 : o.getD 0 0 = f0 := by
      rw [List.head?_eq_getElem?] at hh
      rw [List.getD_eq_getElem?_getD, hh]; rfl
    have hlast : o.getLast hne = o.getD i 0 := by
      rw [List.getLast_eq_getElem, List.getD_eq_getElem?_getD]
      have : o.length - 1 = i := by omega
      simp [this, hi]
    rw [h0, ← hl, hlast]

theorem sidesOf_walk {m : Map Val} {o : List Nat} {f0 : Nat} (hw : Walk (m.β 1) o) (hh : o.head? = some f0)
    (hcl : ∃ hne : o ≠ [], m.β 1 (o.getLast hne) = f0) :
    sidesOf (o.map (ptD m)) = o.map (sideD m) := by
  have hc := walk_cyclic hw hh hcl
  apply List.ext_getElem
  · simp [sidesOf]
  · intro i h1 h2
    have hi : i < o.length := by simpa using h2
    have hmod : (i + 1) % o.length < o.length := Nat.mod_lt _ (by omega)
    have g : ∀ j, j < o.length → (o.map (ptD m)).getD j 0 = ptD m (o.getD j 0) := by
      intro j hj
      rw [List.getD_eq_getElem?_getD, List.getD_eq_getElem?_getD, List.getElem?_map]
      simp [hj]
    simp only [sidesOf, List.getElem_map, List.getElem_range, List.length_map]
    rw [g i hi, g _ hmod, hc i hi]
    unfold sideD
    have : o[i] = o.getD i 0 := by
      rw [List.getD_eq_getElem?_getD]; simp [hi]
    rw [this]

theorem allSides_cellsE {m : Map Val} (hE : Exportable m) :
    allSides (faceLists (cellsE m)) = ((walks m).flatten).map (sideD m) := by
  rw [faceLists_cellsE, List.map_flatten]
  unfold allSides
  rw [List.map_map]
  congr 1
  unfold walks
  rw [List.map_map, List.map_map]
  apply List.map_congr_left
  intro f hf
  obtain ⟨_, hh, _, hw, _, hcl⟩ := walk_facts hE hf
  exact sidesOf_walk hw hh hcl

theorem g2_custom1_eq (m : Map Val) : g2 m (.custom [1]) = g2 m .faceLinear := by
  funext x; simp [g2]

theorem walkOf_eq (m : Map Val) (f : Nat) : walkOf m f = orb m .faceLinear f := by
  unfold walkOf orb; rw [g2_custom1_eq]

theorem faceId_of_iterFaces {m : Map Val} (hwf : WF 3 m) {f : Nat} (hf : f ∈ iterFaces2 m) :
    cellId m .face f = f := by
  have := (mem_iterCells m (faceId2 m.n) f).1 hf
  have e := this.2.2.2
  rw [(C03_faceId2_min hwf this.2.1 this.1).1, okVal_ok] at e
  exact e

/-- a dart of the walk of the face identifier `f` has face identifier `f` -/
theorem mem_walk_face {m : Map Val} (hE : Exportable m) {f x : Nat} (hf : f ∈ iterFaces2 m)
    (hx : x ∈ walkOf m f) : cellId m .face x = f := by
  have hwf := hE.wf
  have hu := inUse_of_iterFaces hf
  have hin : ∀ y, y ∈ orb m .face f → C01.InUse m y := fun y hy =>
    ⟨((mem_orb hwf (pol := .face) trivial hu.1 hu.2.1 y).1 hy).1,
     (C03_orbit2_spec hwf (pol := .face) trivial hu.1 hu.2.1).2.2.2.2.2 y hy,
     C03_orbit_of_in_use_is_in_use hwf (pol := .face) trivial hu.1 hu.2.1 hu.2.2 y hy⟩
  rw [walkOf_eq] at hx
  have hxf := (C03_faceLinear_closed hwf hu.1 hu.2.1 (fun y hy => hE.closed y (hin y hy)) x).1 hx
  have hxu := hin x hxf
  have hr := ((mem_orb hwf (pol := .face) trivial hu.1 hu.2.1 x).1 hxf).2
  have := ((C03_same_id_iff_same_cell hwf (pol := .face) trivial hu.1 hu.2.1 hxu.1 hxu.2.1).1).2 hr
  rw [← this, faceId_of_iterFaces hwf hf]

theorem mem_walks {m : Map Val} {x : Nat} (h : x ∈ (walks m).flatten) :
    ∃ f, f ∈ iterFaces2 m ∧ x ∈ walkOf m f := by
  rw [List.mem_flatten] at h
  obtain ⟨o, ho, hx⟩ := h
  unfold walks at ho
  obtain ⟨f, hf, rfl⟩ := List.mem_map.1 ho
  exact ⟨f, hf, hx⟩

theorem inUse_of_walks {m : Map Val} (hE : Exportable m) {x : Nat} (h : x ∈ (walks m).flatten) :
    C01.InUse m x := by
  obtain ⟨f, hf, hx⟩ := mem_walks h
  exact (walk_facts hE hf).2.2.2.2.1 x hx

/-- every in-use dart is listed exactly once -/
theorem walks_nodup {m : Map Val} (hE : Exportable m) : ((walks m).flatten).Nodup := by
  rw [List.nodup_flatten]
  constructor
  · intro o ho
    unfold walks at ho
    obtain ⟨f, hf, rfl⟩ := List.mem_map.1 ho
    exact (walk_facts hE hf).2.2.1
  · unfold walks
    rw [List.pairwise_map]
    refine List.Pairwise.imp_of_mem ?_ (C03_iter_sorted m).2.2
    intro f g hf hg hlt x hx1 hx2
    have e1 := mem_walk_face hE hf hx1
    have e2 := mem_walk_face hE hg hx2
    omega

/-- the point index determines the vertex -/
theorem ptD_inj {m : Map Val} (hwf : WF 3 m) {d e : Nat} (hd : C01.InUse m d) (he : C01.InUse m e)
    (h : ptD m d = ptD m e) : vid m d = vid m e := by
  have a := (pointOf_inUse hwf hd).2
  have b := (pointOf_inUse hwf he).2
  rw [h, b] at a
  simpa using a.symm

theorem sideD_inj {m : Map Val} (hE : Exportable m) {d e : Nat} (hd : C01.InUse m d) (he : C01.InUse m e)
    (h : sideD m d = sideD m e) : d = e := by
  unfold sideD at h
  simp only [Prod.mk.injEq] at h
  have hd1 := inUse_b1 hE.wf hd (hE.closed d hd)
  have he1 := inUse_b1 hE.wf he (hE.closed e he)
  exact hE.uniq d e hd he (ptD_inj hE.wf hd he h.1) (ptD_inj hE.wf hd1 he1 h.2)

theorem nodup_sides_cellsE {m : Map Val} (hE : Exportable m) : (allSides (faceLists (cellsE m))).Nodup := by
  rw [allSides_cellsE hE]
  exact List.Nodup.map_on (fun x hx y hy h => sideD_inj hE (inUse_of_walks hE hx) (inUse_of_walks hE hy) h)
    (walks_nodup hE)

/-- the exported coordinates of the vertex of an in-use dart -/
theorem ptsE_at {m : Map Val} (hE : Exportable m) {d : Nat} (hd : C01.InUse m d) :
    ∃ x y z, m.att 0 (vid m d) = some (.pt x y z) ∧ ((ptsE m).map flat)[ptD m d]? = some (.pt x y 0) := by
  have hwf := hE.wf
  have hmem : vid m d ∈ iterVertices2 m := (C03_iterVertices2_mem hwf _).2 ⟨d, hd.1, hd.2.1, hd.2.2, rfl⟩
  obtain ⟨x, y, z, hv⟩ := hE.vals _ hmem
  refine ⟨x, y, z, hv, ?_⟩
  unfold ptsE
  rw [List.map_map, List.getElem?_map, (pointOf_inUse hwf hd).2]
  simp [hv, flat]

theorem sidesDistinct_cellsE {m : Map Val} (hE : Exportable m) :
    SidesDistinct ((ptsE m).map flat) (allSides (faceLists (cellsE m))) := by
  intro k hk
  rw [allSides_cellsE hE] at hk
  obtain ⟨d, hd, rfl⟩ := List.mem_map.1 hk
  have hu := inUse_of_walks hE hd
  have hu1 := inUse_b1 hE.wf hu (hE.closed d hu)
  obtain ⟨x, y, z, hv, hp⟩ := ptsE_at hE hu
  obtain ⟨x', y', z', hv', hp'⟩ := ptsE_at hE hu1
  exact ⟨x, y, x', y', hp, hp', hE.ends d hu x y z x' y' z' hv hv'⟩

/-! ## (c2) the per-face statement -/

/-- from dart `s` on, `m'` consists of copies of the walks: dart `s + i` is the copy of the i-th dart of
    the walk `o`: β1 of the copy is the copy of β1 (cyclically), and the vertex of the copy carries the
    coordinates of the vertex of the original, z dropped -/
def FaceCopied (m m' : Map Val) : Nat → List (List Nat) → Prop
  | _, [] => True
  | s, o :: os =>
      (∀ i, i < o.length → m'.β 1 (s + i) = s + (i + 1) % o.length ∧
        m.β 1 (o.getD i 0) = o.getD ((i + 1) % o.length) 0 ∧
        m'.att 0 (vid m' (s + i)) = (m.att 0 (vid m (o.getD i 0))).map flat) ∧
      FaceCopied m m' (s + o.length) os

theorem getD_map_ptD (m : Map Val) (o : List Nat) {j : Nat} (hj : j < o.length) :
    (o.map (ptD m)).getD j 0 = ptD m (o.getD j 0) := by
  rw [List.getD_eq_getElem?_getD, List.getD_eq_getElem?_getD, List.getElem?_map]
  simp [hj]

theorem getD_mem {o : List Nat} {j : Nat} (hj : j < o.length) : o.getD j 0 ∈ o := by
  rw [List.getD_eq_getElem?_getD]
  simp [hj]

theorem faceCopied_of {m : Map Val} (hE : Exportable m) (m' : Map Val) :
    ∀ (ws : List (List Nat)) (s : Nat), (∀ o, o ∈ ws → ∃ f, f ∈ iterFaces2 m ∧ o = walkOf m f) →
      CornersAt ((ptsE m).map flat) m' s (ws.map (fun o => o.map (ptD m))) → FaceCopied m m' s ws := by
  intro ws
  induction ws with
  | nil => intro _ _ _; trivial
  | cons o os ih =>
      intro s hw hc
      obtain ⟨f, hf, rfl⟩ := hw _ List.mem_cons_self
      obtain ⟨_, hh, _, hwalk, hin, hcl⟩ := walk_facts hE hf
      simp only [List.map_cons] at hc
      refine ⟨fun i hi => ?_, ?_⟩
      · obtain ⟨hb, p, hp, ha⟩ := hc.1 i (by simpa using hi)
        simp only [List.length_map] at hb
        rw [getD_map_ptD m _ hi] at hp
        obtain ⟨x, y, z, hv, hq⟩ := ptsE_at hE (hin _ (getD_mem hi))
        rw [hq] at hp
        refine ⟨hb, (walk_cyclic hwalk hh hcl i hi).symm, ?_⟩
        rw [ha, hv, ← hp]
        rfl
      · have := hc.2
        simp only [List.length_map] at this
        exact ih _ (fun o' ho' => hw o' (List.mem_cons_of_mem _ ho')) this

/-- **C11 (c2), per-face statement of the composition**: for an exportable map, export followed by
    import returns `Ok m'`; `m'` is well formed, has one dart per in-use dart of `m`, and consists of one
    β1 cycle on consecutive darts per face identifier of `m` (in `iter_faces` order), copying the β1 walk
    from that identifier dart by dart together with the coordinates of the vertices -/
theorem C11_roundTrip_faces {m : Map Val} (hE : Exportable m) :
    ∃ m', roundTrip m = .ok m' ∧ WF 3 m' ∧ m'.n = 1 + ((walks m).map List.length).sum ∧
      FaceCopied m m' 1 (walks m) := by
  obtain ⟨m', himp, hwf', hn', hc⟩ := C11_import_conforming_ok (ptsE m) (cellsE m) 0 (goodCell_cellsE hE)
    (nodup_sides_cellsE hE) (sidesDistinct_cellsE hE)
  refine ⟨m', ?_, hwf', ?_, ?_⟩
  · unfold roundTrip
    rw [C11_export_ok hE]
    simp only
    exact (importLegacy_toLegacy _ _ 0).trans himp
  · rw [hn', faceLists_cellsE, List.map_map]
    congr 2
    apply List.map_congr_left
    intro o _
    simp
  · rw [faceLists_cellsE] at hc
    exact faceCopied_of hE m' _ 1 (fun o ho => by
      unfold walks at ho
      obtain ⟨f, hf, rfl⟩ := List.mem_map.1 ho
      exact ⟨f, hf, rfl⟩) hc

/-! ## (c3) the adjacency statement -/

/-- `d'` (a dart of the re-imported map) is the copy of `d` (a dart of the source map) -/
def DartOf : Nat → List (List Nat) → Nat → Nat → Prop
  | _, [], _, _ => False
  | s, o :: os, d', d => (∃ i, i < o.length ∧ d' = s + i ∧ d = o.getD i 0) ∨ DartOf (s + o.length) os d' d

/-- no crack: no two 2-free darts run between the same two vertices in opposite directions -/
def NoCrack (m : Map Val) : Prop :=
  ∀ d e, C01.InUse m d → C01.InUse m e → m.β 2 d = 0 → m.β 2 e = 0 →
    vid m d = vid m (m.β 1 e) → vid m (m.β 1 d) = vid m e → False

theorem dartOf_ge : ∀ (ws : List (List Nat)) (s d' d : Nat), DartOf s ws d' d → s ≤ d' := by
  intro ws
  induction ws with
  | nil => intro s d' d h; exact h.elim
  | cons o os ih =>
      intro s d' d h
      rcases h with ⟨i, _, rfl, _⟩ | h
      · omega
      · have := ih _ d' d h; omega

theorem dartOf_fun : ∀ (ws : List (List Nat)) (s d' d1 d2 : Nat), DartOf s ws d' d1 → DartOf s ws d' d2 →
    d1 = d2 := by
  intro ws
  induction ws with
  | nil => intro s d' d1 d2 h; exact h.elim
  | cons o os ih =>
      intro s d' d1 d2 h1 h2
      rcases h1 with ⟨i, hi, e1, rfl⟩ | h1
      · rcases h2 with ⟨j, hj, e2, rfl⟩ | h2
        · have : i = j := by omega
          rw [this]
        · have := dartOf_ge _ _ _ _ h2; omega
      · rcases h2 with ⟨j, hj, e2, rfl⟩ | h2
        · have := dartOf_ge _ _ _ _ h1; omega
        · exact ih _ d' d1 d2 h1 h2

theorem dartOf_mem : ∀ (ws : List (List Nat)) (s d' d : Nat), DartOf s ws d' d → d ∈ ws.flatten := by
  intro ws
  induction ws with
  | nil => intro s d' d h; exact h.elim
  | cons o os ih =>
      intro s d' d h
      rw [List.flatten_cons, List.mem_append]
      rcases h with ⟨i, hi, _, rfl⟩ | h
      · exact Or.inl (getD_mem hi)
      · exact Or.inr (ih _ d' d h)

theorem side_at {m : Map Val} (hE : Exportable m) {f : Nat} (hf : f ∈ iterFaces2 m) {i : Nat}
    (hi : i < (walkOf m f).length) :
    (((walkOf m f).map (ptD m)).getD i 0,
      ((walkOf m f).map (ptD m)).getD ((i + 1) % ((walkOf m f).map (ptD m)).length) 0) =
      sideD m ((walkOf m f).getD i 0) := by
  obtain ⟨_, hh, _, hwalk, _, hcl⟩ := walk_facts hE hf
  have hmod : (i + 1) % (walkOf m f).length < (walkOf m f).length := Nat.mod_lt _ (by omega)
  simp only [List.length_map]
  rw [getD_map_ptD m _ hi, getD_map_ptD m _ hmod, walk_cyclic hwalk hh hcl i hi]
  rfl

theorem dartOf_sideOf {m : Map Val} (hE : Exportable m) :
    ∀ (ws : List (List Nat)) (s d' d : Nat), (∀ o, o ∈ ws → ∃ f, f ∈ iterFaces2 m ∧ o = walkOf m f) →
      DartOf s ws d' d → SideOf s (ws.map (fun o => o.map (ptD m))) d' (sideD m d) := by
  intro ws
  induction ws with
  | nil => intro s d' d _ h; exact h.elim
  | cons o os ih =>
      intro s d' d hw h
      obtain ⟨f, hf, rfl⟩ := hw _ List.mem_cons_self
      simp only [List.map_cons]
      rcases h with ⟨i, hi, rfl, rfl⟩ | h
      · exact Or.inl ⟨i, by simpa using hi, rfl, (side_at hE hf hi).symm⟩
      · refine Or.inr ?_
        simp only [List.length_map]
        exact ih _ d' d (fun o' ho' => hw o' (List.mem_cons_of_mem _ ho')) h

theorem sideOf_dartOf {m : Map Val} (hE : Exportable m) :
    ∀ (ws : List (List Nat)) (s d' : Nat) (k : Nat × Nat),
      (∀ o, o ∈ ws → ∃ f, f ∈ iterFaces2 m ∧ o = walkOf m f) →
      SideOf s (ws.map (fun o => o.map (ptD m))) d' k → ∃ d, DartOf s ws d' d ∧ k = sideD m d := by
  intro ws
  induction ws with
  | nil => intro s d' k _ h; exact h.elim
  | cons o os ih =>
      intro s d' k hw h
      obtain ⟨f, hf, rfl⟩ := hw _ List.mem_cons_self
      simp only [List.map_cons] at h
      rcases h with ⟨i, hi, rfl, rfl⟩ | h
      · have hi' : i < (walkOf m f).length := by simpa using hi
        exact ⟨_, Or.inl ⟨i, hi', rfl, rfl⟩, side_at hE hf hi'⟩
      · simp only [List.length_map] at h
        obtain ⟨d, hd, hk⟩ := ih _ d' k (fun o' ho' => hw o' (List.mem_cons_of_mem _ ho')) h
        exact ⟨d, Or.inr hd, hk⟩

theorem walks_good (m : Map Val) : ∀ o, o ∈ walks m → ∃ f, f ∈ iterFaces2 m ∧ o = walkOf m f := by
  intro o ho
  unfold walks at ho
  obtain ⟨f, hf, rfl⟩ := List.mem_map.1 ho
  exact ⟨f, hf, rfl⟩

theorem pointOf_eq {m : Map Val} (hwf : WF 3 m) {d : Nat} (hd : C01.InUse m d) :
    pointOf m (iterVertices2 m) d = indexIn (iterVertices2 m) (vid m d) := by
  unfold pointOf vidNT
  rw [(C03_vertexId2_min hwf hd.1 hd.2.1).1]

theorem ptD_of_vid {m : Map Val} (hwf : WF 3 m) {d e : Nat} (hd : C01.InUse m d) (he : C01.InUse m e)
    (h : vid m d = vid m e) : ptD m d = ptD m e := by
  unfold ptD
  rw [pointOf_eq hwf hd, pointOf_eq hwf he, h]

/-- the vertices at the two ends of a 2-sewn pair of darts -/
theorem vid_beta2 {m : Map Val} (hwf : WF 3 m) {d : Nat} (hd : C01.InUse m d) (h2 : m.β 2 d ≠ 0)
    (h1 : m.β 1 (m.β 2 d) ≠ 0) : vid m d = vid m (m.β 1 (m.β 2 d)) := by
  have hx : m.β 2 d < m.n := hwf.range 2 (by omega) d hd.2.1
  have hy : m.β 1 (m.β 2 d) < m.n := hwf.range 1 (by omega) _ hx
  refine ((C03_same_id_iff_same_cell hwf (pol := .vertex) trivial hd.1 hd.2.1 h1 hy).1).2 ?_
  exact Reach.single (by simp [g2])

theorem inUse_b2 {m : Map Val} (hwf : WF 3 m) {d : Nat} (hd : C01.InUse m d) (h2 : m.β 2 d ≠ 0) :
    C01.InUse m (m.β 2 d) := by
  refine ⟨h2, hwf.range 2 (by omega) d hd.2.1, ?_⟩
  cases hu : m.unused (m.β 2 d) with
  | false => rfl
  | true => exact absurd (C01.C01_unused_is_nobodys_image hwf 2 (by omega) d hd.2.1 hu) h2

/-- the two darts of a 2-sewn pair run between the same two vertices in opposite directions -/
theorem opposite_of_beta2 {m : Map Val} (hE : Exportable m) {d : Nat} (hd : C01.InUse m d) (h2 : m.β 2 d ≠ 0) :
    vid m d = vid m (m.β 1 (m.β 2 d)) ∧ vid m (m.β 1 d) = vid m (m.β 2 d) := by
  have hwf := hE.wf
  have hx := inUse_b2 hwf hd h2
  have hinv := (hwf.invol 2 (by omega) (by omega) d hd.2.1 h2).1
  refine ⟨vid_beta2 hwf hd h2 (hE.closed _ hx), ?_⟩
  have := vid_beta2 hwf hx (by rw [hinv]; exact hd.1) (by rw [hinv]; exact hE.closed d hd)
  rw [hinv] at this
  exact this.symm

theorem ptD_ends_ne {m : Map Val} (hE : Exportable m) {d : Nat} (hd : C01.InUse m d) :
    ptD m d ≠ ptD m (m.β 1 d) := by
  intro h
  have hd1 := inUse_b1 hE.wf hd (hE.closed d hd)
  have e := ptD_inj hE.wf hd hd1 h
  obtain ⟨x, y, z, hv, _⟩ := ptsE_at hE hd
  have := hE.ends d hd x y z x y z hv (by rw [← e]; exact hv)
  rcases this with h1 | h1 <;> exact h1 rfl

/-- **C11 (c3), adjacency statement of the composition**: on an exportable map WITHOUT CRACK, export
    followed by import glues the copies of two darts exactly when the darts were 2-sewn.  (Without the
    hypothesis the statement is false: `C11_crack_is_sewn`.) -/
theorem C11_roundTrip_adjacency {m : Map Val} (hE : Exportable m) (hnc : NoCrack m) {m' : Map Val}
    (h : roundTrip m = .ok m') {d' d e' e : Nat} (hd : DartOf 1 (walks m) d' d)
    (he : DartOf 1 (walks m) e' e) : m'.β 2 d' = e' ↔ m.β 2 d = e := by
  have hwf := hE.wf
  have himp : importCells (ptsE m) (cellsE m) 0 = .ok m' := by
    unfold roundTrip at h
    rw [C11_export_ok hE] at h
    simp only at h
    rw [← importLegacy_toLegacy]; exact h
  have hdu := inUse_of_walks hE (dartOf_mem _ _ _ _ hd)
  have heu := inUse_of_walks hE (dartOf_mem _ _ _ _ he)
  have hd1 := inUse_b1 hwf hdu (hE.closed d hdu)
  have he1 := inUse_b1 hwf heu (hE.closed e heu)
  have sd := dartOf_sideOf hE _ 1 d' d (walks_good m) hd
  have se := dartOf_sideOf hE _ 1 e' e (walks_good m) he
  rw [← faceLists_cellsE] at sd se
  constructor
  · intro hb
    have he'0 : e' ≠ 0 := by have := dartOf_ge _ _ _ _ he; omega
    obtain ⟨_, _, _, _, _, hsound⟩ := C11_import_faces_and_gluing _ _ _ _ himp
    obtain ⟨a, b, s1, s2⟩ := hsound d' (by rw [hb]; exact he'0)
    rw [hb] at s2
    rw [faceLists_cellsE] at s1 s2
    obtain ⟨d1, hd1', k1⟩ := sideOf_dartOf hE _ 1 d' _ (walks_good m) s1
    obtain ⟨e1, he1', k2⟩ := sideOf_dartOf hE _ 1 e' _ (walks_good m) s2
    have := dartOf_fun _ _ _ _ _ hd1' hd
    subst this
    have := dartOf_fun _ _ _ _ _ he1' he
    subst this
    unfold sideD at k1 k2
    simp only [Prod.mk.injEq] at k1 k2
    -- d1 runs a → b, e1 runs b → a
    have v1 : vid m d1 = vid m (m.β 1 e1) := ptD_inj hwf hdu he1 (by rw [← k1.1, ← k2.2])
    have v2 : vid m (m.β 1 d1) = vid m e1 := ptD_inj hwf hd1 heu (by rw [← k1.2, ← k2.1])
    by_cases c : m.β 2 d1 = 0
    · exfalso
      by_cases c' : m.β 2 e1 = 0
      · exact hnc d1 e1 hdu heu c c' v1 v2
      · have hy := inUse_b2 hwf heu c'
        obtain ⟨o1, o2⟩ := opposite_of_beta2 hE heu c'
        have : m.β 2 e1 = d1 := hE.uniq _ _ hy hdu (o2.symm.trans v1.symm) (o1.symm.trans v2.symm)
        have hinv := (hwf.invol 2 (by omega) (by omega) e1 heu.2.1 c').1
        rw [this] at hinv
        rw [hinv] at c
        exact heu.1 c
    · have hx := inUse_b2 hwf hdu c
      obtain ⟨o1, o2⟩ := opposite_of_beta2 hE hdu c
      exact hE.uniq _ _ hx heu (o2.symm.trans v2) (o1.symm.trans v1)
  · intro hb
    have c : m.β 2 d ≠ 0 := by rw [hb]; exact heu.1
    obtain ⟨o1, o2⟩ := opposite_of_beta2 hE hdu c
    rw [hb] at o1 o2
    have hswap : sideD m e = ((sideD m d).2, (sideD m d).1) := by
      unfold sideD
      simp only [Prod.mk.injEq]
      exact ⟨ptD_of_vid hwf heu hd1 o2.symm, ptD_of_vid hwf he1 hdu o1.symm⟩
    rw [hswap] at se
    exact C11_import_gluing_complete _ _ _ _ himp (nodup_sides_cellsE hE) (a := (sideD m d).1)
      (b := (sideD m d).2) sd se (ptD_ends_ne hE hdu)

/-! ## the copy is a bijection between the in-use darts of `m` and the darts of `m'` -/

theorem dartOf_total : ∀ (ws : List (List Nat)) (s d' : Nat), s ≤ d' → d' < s + (ws.map List.length).sum →
    ∃ d, DartOf s ws d' d := by
  intro ws
  induction ws with
  | nil => intro s d' h1 h2; simp at h2; omega
  | cons o os ih =>
      intro s d' h1 h2
      simp only [List.map_cons, List.sum_cons] at h2
      by_cases c : d' < s + o.length
      · exact ⟨_, Or.inl ⟨d' - s, by omega, by omega, rfl⟩⟩
      · obtain ⟨d, hd⟩ := ih (s + o.length) d' (by omega) (by omega)
        exact ⟨d, Or.inr hd⟩

theorem dartOf_of_mem : ∀ (ws : List (List Nat)) (s d : Nat), d ∈ ws.flatten → ∃ d', DartOf s ws d' d := by
  intro ws
  induction ws with
  | nil => intro s d h; simp at h
  | cons o os ih =>
      intro s d h
      rw [List.flatten_cons, List.mem_append] at h
      rcases h with h | h
      · obtain ⟨i, hi, rfl⟩ := List.mem_iff_getElem.1 h
        refine ⟨s + i, Or.inl ⟨i, hi, rfl, ?_⟩⟩
        rw [List.getD_eq_getElem?_getD]; simp [hi]
      · obtain ⟨d', hd'⟩ := ih (s + o.length) d h
        exact ⟨d', Or.inr hd'⟩

theorem dartOf_inj : ∀ (ws : List (List Nat)) (s d1 d2 d : Nat), ws.flatten.Nodup → DartOf s ws d1 d →
    DartOf s ws d2 d → d1 = d2 := by
  intro ws
  induction ws with
  | nil => intro s d1 d2 d _ h; exact h.elim
  | cons o os ih =>
      intro s d1 d2 d hnd h1 h2
      rw [List.flatten_cons] at hnd
      obtain ⟨n1, n2, nx⟩ := List.nodup_append.1 hnd
      rcases h1 with ⟨i, hi, rfl, e1⟩ | h1
      · rcases h2 with ⟨j, hj, rfl, e2⟩ | h2
        · have gi : o.getD i 0 = o[i] := by rw [List.getD_eq_getElem?_getD]; simp [hi]
          have gj : o.getD j 0 = o[j] := by rw [List.getD_eq_getElem?_getD]; simp [hj]
          have : i = j := (List.getElem_inj (h₀ := hi) (h₁ := hj) n1).1 (by rw [← gi, ← gj, ← e1, ← e2])
          rw [this]
        · exact absurd rfl (nx _ (e1 ▸ getD_mem hi) _ (dartOf_mem _ _ _ _ h2))
      · rcases h2 with ⟨j, hj, rfl, e2⟩ | h2
        · exact absurd rfl (nx _ (e2 ▸ getD_mem hj) _ (dartOf_mem _ _ _ _ h1))
        · exact ih _ d1 d2 d n2 h1 h2

/-- every in-use dart lies in the walk of its face identifier -/
theorem mem_walks_of_inUse {m : Map Val} (hE : Exportable m) {d : Nat} (hd : C01.InUse m d) :
    d ∈ (walks m).flatten := by
  have hwf := hE.wf
  have hfid : cellId m .face d ∈ iterFaces2 m := (C03_iterFaces2_mem hwf _).2 ⟨d, hd.1, hd.2.1, hd.2.2, rfl⟩
  have hu := inUse_of_iterFaces hfid
  rw [List.mem_flatten]
  refine ⟨walkOf m (cellId m .face d), List.mem_map_of_mem hfid, ?_⟩
  have hin : ∀ y, y ∈ orb m .face (cellId m .face d) → C01.InUse m y := fun y hy =>
    ⟨((mem_orb hwf (pol := .face) trivial hu.1 hu.2.1 y).1 hy).1,
     (C03_orbit2_spec hwf (pol := .face) trivial hu.1 hu.2.1).2.2.2.2.2 y hy,
     C03_orbit_of_in_use_is_in_use hwf (pol := .face) trivial hu.1 hu.2.1 hu.2.2 y hy⟩
  rw [walkOf_eq]
  refine (C03_faceLinear_closed hwf hu.1 hu.2.1 (fun y hy => hE.closed y (hin y hy)) d).2 ?_
  -- the identifier is in the face of `d`, hence `d` in the face of the identifier
  have h1 := (cellId_spec hwf (pol := .face) trivial hd.1 hd.2.1).1
  have hr := ((mem_orb hwf (pol := .face) trivial hd.1 hd.2.1 _).1 h1).2
  exact (mem_orb hwf (pol := .face) trivial hu.1 hu.2.1 d).2 ⟨hd.1, reach_symm hwf (pol := .face) trivial hd.2.1 hu.1 hr⟩

/-- **C11 (c4)**: "is the copy of" is a bijection between the darts `1 … n' - 1` of the re-imported map
    and the in-use darts of the source map.  With (c2) and (c3): an isomorphism for β1, β2 and the vertex
    coordinates. -/
theorem C11_roundTrip_bijection {m : Map Val} (hE : Exportable m) :
    (∀ d', 1 ≤ d' → d' < 1 + ((walks m).map List.length).sum → ∃ d, DartOf 1 (walks m) d' d) ∧
    (∀ d' d1 d2, DartOf 1 (walks m) d' d1 → DartOf 1 (walks m) d' d2 → d1 = d2) ∧
    (∀ d' d, DartOf 1 (walks m) d' d → C01.InUse m d) ∧
    (∀ d, C01.InUse m d → ∃ d', DartOf 1 (walks m) d' d) ∧
    (∀ d1 d2 d, DartOf 1 (walks m) d1 d → DartOf 1 (walks m) d2 d → d1 = d2) :=
  ⟨fun d' h1 h2 => dartOf_total _ 1 d' h1 h2,
   fun d' d1 d2 => dartOf_fun _ 1 d' d1 d2,
   fun d' d h => inUse_of_walks hE (dartOf_mem _ _ _ _ h),
   fun d hd => dartOf_of_mem _ 1 d (mem_walks_of_inUse hE hd),
   fun d1 d2 d => dartOf_inj _ 1 d1 d2 d (walks_nodup hE)⟩

/-! ## non-vacuity: a decidable sufficient condition, and the mesh `exMap` -/

def isPt : Option Val → Bool
  | some (.pt _ _ _) => true
  | _ => false

def endsOK : Option Val → Option Val → Bool
  | some (.pt x y _), some (.pt x' y' _) => decide (x ≠ x' ∨ y ≠ y')
  | _, _ => true

def ClosedB (m : Map Val) : Prop := ∀ d, d < m.n → C01.InUse m d → m.β 1 d ≠ 0
def BigB (m : Map Val) : Prop := ∀ f, f ∈ iterFaces2 m → 3 ≤ (walkOf m f).length
def ValsB (m : Map Val) : Prop := ∀ v, v ∈ iterVertices2 m → isPt (m.att 0 v) = true
def UniqB (m : Map Val) : Prop :=
  ∀ d, d < m.n → ∀ e, e < m.n → C01.InUse m d → C01.InUse m e → vid m d = vid m e →
    vid m (m.β 1 d) = vid m (m.β 1 e) → d = e
def EndsB (m : Map Val) : Prop :=
  ∀ d, d < m.n → C01.InUse m d → endsOK (m.att 0 (vid m d)) (m.att 0 (vid m (m.β 1 d))) = true

instance (m : Map Val) : Decidable (ClosedB m) := by unfold ClosedB; exact inferInstance
instance (m : Map Val) : Decidable (BigB m) := by unfold BigB; exact inferInstance
instance (m : Map Val) : Decidable (ValsB m) := by unfold ValsB; exact inferInstance
set_option synthInstance.maxSize 4096 in
set_option synthInstance.maxHeartbeats 400000 in
instance (m : Map Val) : Decidable (UniqB m) := by unfold UniqB; exact inferInstance
instance (m : Map Val) : Decidable (EndsB m) := by unfold EndsB; exact inferInstance

/-- the hypotheses of the composition theorem with bounded quantifiers -/
def ExportableB (m : Map Val) : Prop :=
  WF 3 m ∧ ClosedB m ∧ BigB m ∧ ValsB m ∧ UniqB m ∧ EndsB m

instance (m : Map Val) : Decidable (ExportableB m) := by unfold ExportableB; exact inferInstance

theorem exportable_of_B {m : Map Val} (h : ExportableB m) : Exportable m := by
  obtain ⟨h1, h2, h3, h4, h5, h6⟩ := h
  refine ⟨h1, fun d hd => h2 d hd.2.1 hd, h3, ?_, fun d e hd he => h5 d hd.2.1 e he.2.1 hd he, ?_⟩
  · intro v hv
    have := h4 v hv
    match hm : m.att 0 v with
    | some (.pt x y z) => exact ⟨x, y, z, rfl⟩
    | some (.tm _) => rw [hm] at this; simp [isPt] at this
    | none => rw [hm] at this; simp [isPt] at this
  · intro d hd x y z x' y' z' e1 e2
    have := h6 d hd.2.1 hd
    rw [e1, e2] at this
    simpa [endsOK] using this

def NoCrackB (m : Map Val) : Prop :=
  ∀ d, d < m.n → ∀ e, e < m.n → C01.InUse m d → C01.InUse m e → m.β 2 d = 0 → m.β 2 e = 0 →
    vid m d = vid m (m.β 1 e) → vid m (m.β 1 d) = vid m e → False

set_option synthInstance.maxSize 4096 in
set_option synthInstance.maxHeartbeats 400000 in
instance (m : Map Val) : Decidable (NoCrackB m) := by unfold NoCrackB; exact inferInstance

theorem noCrack_of_B {m : Map Val} (h : NoCrackB m) : NoCrack m :=
  fun d e hd he => h d hd.2.1 e he.2.1 hd he

/-- two triangles glued along a side: an exportable mesh without crack … -/
def twoTri : Map Val := okGet (importCells exPts [⟨5, [0, 1, 2]⟩, ⟨5, [0, 2, 3]⟩] 0)
theorem twoTri_exportable : Exportable twoTri := exportable_of_B (by decide +kernel)
theorem twoTri_noCrack : NoCrack twoTri := noCrack_of_B (by decide +kernel)
example : walks twoTri = [[1, 2, 3], [4, 5, 6]] := by decide +kernel
example : twoTri.β 2 3 = 4 := by decide +kernel
example : roundTrip twoTri = .ok (okGet (roundTrip twoTri)) := eq_ok_of_isOk (by decide +kernel)
/-- … its darts 3 and 4 are copied to darts 3 and 4, which are glued again -/
example : (okGet (roundTrip twoTri)).β 2 3 = 4 :=
  (C11_roundTrip_adjacency twoTri_exportable twoTri_noCrack (eq_ok_of_isOk (by decide +kernel))
    (d' := 3) (d := 3) (e' := 4) (e := 4)
    (by rw [show walks twoTri = [[1, 2, 3], [4, 5, 6]] by decide +kernel]; exact Or.inl ⟨2, by decide, rfl, rfl⟩)
    (by rw [show walks twoTri = [[1, 2, 3], [4, 5, 6]] by decide +kernel]
        exact Or.inr (Or.inl ⟨0, by decide, rfl, rfl⟩))).2 (by decide +kernel)
/-- the cracked mesh of the known finding is exportable but HAS a crack -/
example : ¬ NoCrackB crackMap := by decide +kernel

end HC.C11
