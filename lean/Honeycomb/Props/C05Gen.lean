/-
  C05 / C02 — `CMap3::one_sew` / `one_unsew` (dim3/sews/one.rs) and `two_sew` / `two_unsew` (dim3/sews/two.rs),
  TRANSLATED from the source on every run (`Gen/Sews3.lean`, written by tools/gen_lean.py), interpreted in the
  model's transaction monad, are EQUAL as programs to the hand-written `oneSew3` / `oneUnsew3` / `twoSew3` /
  `twoUnsew3` of Model/Ops3.lean, which the C05 theorems are proved about.  The functions they call are tied
  separately: the link cores in Props/C01Gen.lean, `CMap3::one_link` / `one_unlink` in Props/C02Gen.lean,
  `AttrSparseVec::merge` / `split` in Props/C04Gen.lean, the images pushed by `vertex_id_transac` /
  `edge_id_transac` in Props/C03Gen.lean; `merge_attributes` / `split_attributes` (a loop over the registered
  storages) and the traversal itself stay hand-written.
-/
import Honeycomb.Gen.Sews3
import Honeycomb.Model.Ops3
import Honeycomb.Props.C05

namespace HC.GenTie
open HC HC.C05
variable {X : Type}

/-- operand of a generated instruction: parameters, the null dart, bound variables -/
def sew3Arg (l r : Nat) (env : List Nat) : Nat → Nat
  | 0 => l
  | 1 => r
  | 2 => 0
  | n => env.getD (n - 20) 0

/-- the `*_core` function of a call instruction (codes of Gen/Links3.lean) -/
def sew3Core : Nat → Nat → Nat → Option (P X Unit)
  | 0, a, b => some (oneLinkCore a b)
  | 1, a, b => some (iLinkCore 2 a b)
  | 2, a, b => some (iLinkCore 3 a b)
  | 3, a, _ => some (oneUnlinkCore a)
  | 4, a, _ => some (iUnlinkCore 2 a)
  | 5, a, _ => some (iUnlinkCore 3 a)
  | _, _, _ => none

/-- the meaning of a generated instruction list (see the header of Gen/Sews3.lean); the fuel only makes the
    recursion structural -/
def interpSew3 (cfg : Cfg X) (n l r : Nat) : Nat → List Nat → List (Nat × List Nat) → P X Unit
  | 0, _, _ => Prog.panic
  | _ + 1, _, [] => pure ()
  | f + 1, env, (0, [c, a, b]) :: rest =>
      match sew3Core c (sew3Arg l r env a) (sew3Arg l r env b) with
      | some p => do p; interpSew3 cfg n l r f env rest
      | none => Prog.panic
  | f + 1, env, (1, [i, a]) :: rest => do
      let v ← rB i (sew3Arg l r env a)
      interpSew3 cfg n l r f (env ++ [v]) rest
  | f + 1, env, (5, [a]) :: rest => do
      let v ← vertexId3 n (sew3Arg l r env a)
      interpSew3 cfg n l r f (env ++ [v]) rest
  | f + 1, env, (6, [0, o, a, b]) :: rest => do
      mergeS cfg 0 (sew3Arg l r env o) (sew3Arg l r env a) (sew3Arg l r env b)
      interpSew3 cfg n l r f env rest
  | f + 1, env, (6, [1, o, a, b]) :: rest => do
      splitS cfg 0 (sew3Arg l r env o) (sew3Arg l r env a) (sew3Arg l r env b)
      interpSew3 cfg n l r f env rest
  | f + 1, env, (7, [0, p, o, a, b]) :: rest => do
      mergeAttrs cfg p (sew3Arg l r env o) (sew3Arg l r env a) (sew3Arg l r env b)
      interpSew3 cfg n l r f env rest
  | f + 1, env, (7, [1, p, o, a, b]) :: rest => do
      splitAttrs cfg p (sew3Arg l r env o) (sew3Arg l r env a) (sew3Arg l r env b)
      interpSew3 cfg n l r f env rest
  | f + 1, env, (9, [a, b, k1, k2, k3, k4]) :: rest =>
      let tail := rest.drop (k1 + k2 + k3 + k4)
      if sew3Arg l r env a = 0 ∧ sew3Arg l r env b = 0 then interpSew3 cfg n l r f env (rest.take k1 ++ tail)
      else if sew3Arg l r env a = 0 then interpSew3 cfg n l r f env ((rest.drop k1).take k2 ++ tail)
      else if sew3Arg l r env b = 0 then interpSew3 cfg n l r f env ((rest.drop (k1 + k2)).take k3 ++ tail)
      else interpSew3 cfg n l r f env ((rest.drop (k1 + k2 + k3)).take k4 ++ tail)
  | f + 1, env, (10, [a]) :: rest => do
      let v ← edgeId3 n (sew3Arg l r env a)
      interpSew3 cfg n l r f (env ++ [v]) rest
  | f + 1, env, (11, [vl, vb1r, vb1l, vr, i, a, b]) :: rest => do
      let pl ← rA 0 (sew3Arg l r env vl)
      let pb1r ← rA 0 (sew3Arg l r env vb1r)
      let pb1l ← rA 0 (sew3Arg l r env vb1l)
      let pr ← rA 0 (sew3Arg l r env vr)
      if badPair cfg pl pb1r pb1l pr then abort (errBadGeometry i (sew3Arg l r env a) (sew3Arg l r env b)) else
      interpSew3 cfg n l r f env rest
  | f + 1, env, (12, [a, b]) :: rest => do
      let v ← if sew3Arg l r env a ≠ 0 then vertexId3 n (sew3Arg l r env a)
              else if sew3Arg l r env b ≠ 0 then vertexId3 n (sew3Arg l r env b)
              else pure 0
      interpSew3 cfg n l r f (env ++ [v]) rest
  | f + 1, env, (13, [0, a, b]) :: rest => do
      oneLink3 (sew3Arg l r env a) (sew3Arg l r env b)
      interpSew3 cfg n l r f env rest
  | f + 1, env, (13, [1, a, _]) :: rest => do
      oneUnlink3 (sew3Arg l r env a)
      interpSew3 cfg n l r f env rest
  | f + 1, env, (14, [a, k]) :: rest =>
      if sew3Arg l r env a ≠ 0 then interpSew3 cfg n l r f env rest
      else interpSew3 cfg n l r f env (rest.drop k)
  | f + 1, env, (15, [a, b]) :: rest =>
      interpSew3 cfg n l r f (env ++ [min (sew3Arg l r env a) (sew3Arg l r env b)]) rest
  | f + 1, env, (16, [a, b]) :: rest =>
      if sew3Arg l r env a = 0 ∧ sew3Arg l r env b = 0 then pure () else do
      let v ← vertexId3 n (if sew3Arg l r env a ≠ 0 then sew3Arg l r env a else sew3Arg l r env b)
      interpSew3 cfg n l r f (env ++ [v]) rest
  | f + 1, env, (17, [a, b, k]) :: rest =>
      if sew3Arg l r env a ≠ sew3Arg l r env b then interpSew3 cfg n l r f env rest
      else interpSew3 cfg n l r f env (rest.drop k)
  | _, _, _ => Prog.panic

theorem bind_unit3 (p : P X Unit) : p.bind (fun _ => Prog.ret ()) = p := Prog.bind_ret p

/-- the inline orientation test of the 3-D model is the `badPair` of the 2-D one -/
theorem badPair_eq (cfg : Cfg X) (pl pb1r pb1l pr : Option X) :
    (match pl, pb1r, pb1l, pr with
      | some a, some b, some c, some d => cfg.badOrient a b c d
      | _, _, _, _ => false) = badPair cfg pl pb1r pb1l pr := by
  unfold badPair; rfl

/-- **tie of `CMap3::one_sew`** -/
theorem C05_gen_oneSew3 (cfg : Cfg X) (n l r : Nat) :
    interpSew3 cfg n l r 16 [] Gen.oneSew3 = oneSew3 cfg n l r := by
  simp only [Gen.oneSew3, interpSew3, sew3Core, sew3Arg, oneSew3, List.drop, List.take, List.getD, List.nil_append,
    List.cons_append, List.append_nil, Prog.bind_eq, Prog.pure_eq, bind_unit3]
  rfl

/-- **tie of `CMap3::one_unsew`** -/
theorem C05_gen_oneUnsew3 (cfg : Cfg X) (n l : Nat) :
    interpSew3 cfg n l 0 16 [] Gen.oneUnsew3 = oneUnsew3 cfg n l := by
  simp only [Gen.oneUnsew3, interpSew3, sew3Core, sew3Arg, oneUnsew3, List.drop, List.take, List.getD, List.nil_append,
    List.cons_append, List.append_nil, Prog.bind_eq, Prog.pure_eq, bind_unit3]
  rfl

/-- **tie of `CMap3::two_sew`** (all four arms, the orientation test included) -/
theorem C05_gen_twoSew3 (cfg : Cfg X) (n l r : Nat) :
    interpSew3 cfg n l r 64 [] Gen.twoSew3 = twoSew3 cfg n l r := by
  simp only [Gen.twoSew3, interpSew3, sew3Core, sew3Arg, twoSew3, badPair_eq, List.drop, List.take, List.getD,
    List.nil_append, List.cons_append, List.append_nil, Prog.bind_eq, Prog.pure_eq, bind_unit3]
  rfl

/-- **tie of `CMap3::two_unsew`** (all four arms) -/
theorem C05_gen_twoUnsew3 (cfg : Cfg X) (n l : Nat) :
    interpSew3 cfg n l 0 64 [] Gen.twoUnsew3 = twoUnsew3 cfg n l := by
  simp only [Gen.twoUnsew3, interpSew3, sew3Core, sew3Arg, twoUnsew3, List.drop, List.take, List.getD, List.nil_append,
    List.cons_append, List.append_nil, Prog.bind_eq, Prog.pure_eq, bind_unit3]
  rfl

/-- **C05 (a) stated on the translated code**: a successful run of the translated `CMap3::one_sew` / `two_sew`
    leaves exactly the topology of the corresponding link -/
theorem C05_gen_sews_topology (cfg : Cfg X) (n l r : Nat) (m m' : Map X) (u : Unit) :
    (run (interpSew3 cfg n l r 16 [] Gen.oneSew3) m = (.ok u, m') →
      ∃ m1, run (oneLink3 (X := X) l r) m = (.ok (), m1) ∧ SameTopo m1 m') ∧
    (run (interpSew3 cfg n l r 64 [] Gen.twoSew3) m = (.ok u, m') →
      ∃ m1, run (iLinkCore (X := X) 2 l r) m = (.ok (), m1) ∧ SameTopo m1 m') := by
  rw [C05_gen_oneSew3, C05_gen_twoSew3]
  exact ⟨C05_oneSew3_topology cfg n l r m m' u, C05_twoSew3_topology cfg n l r m m' u⟩

/-- the same for the translated `CMap3::one_unsew` / `two_unsew` -/
theorem C05_gen_unsews_topology (cfg : Cfg X) (n l : Nat) (m m' : Map X) (u : Unit) :
    (run (interpSew3 cfg n l 0 16 [] Gen.oneUnsew3) m = (.ok u, m') →
      ∃ m1, run (oneUnlink3 (X := X) l) m = (.ok (), m1) ∧ SameTopo m1 m') ∧
    (run (interpSew3 cfg n l 0 64 [] Gen.twoUnsew3) m = (.ok u, m') →
      ∃ m1, run (iUnlinkCore (X := X) 2 l) m = (.ok (), m1) ∧ SameTopo m1 m') := by
  rw [C05_gen_oneUnsew3, C05_gen_twoUnsew3]
  exact ⟨C05_oneUnsew3_topology cfg n l m m' u, C05_twoUnsew3_topology cfg n l m m' u⟩

/-- a list the interpreter does not understand is a panic, not a silent success -/
example (cfg : Cfg X) (n l r : Nat) : interpSew3 cfg n l r 4 [] [(9, [])] = Prog.panic := rfl

end HC.GenTie
