/-
  C01 / C04 — the PUBLIC (un)link / (un)sew API of `CMap2`, end to end on translated code (the 2-D twin of
  Props/C02GenApi.lean).  `Gen/Dispatch2.lean` (tools/gen_lean.py `dispatch2`) holds, for `link::<I>`, `unlink::<I>`,
  `sew::<I>`, `unsew::<I>` of dim2/links/mod.rs and dim2/sews/mod.rs and their `force_` forms, the two assertions on
  `I` and the internal function each arm finally runs (the wrappers `one_link` → `self.betas.one_link_core` of
  dim2/links/one.rs, two.rs followed).  `C01_gen_api`: the transactional closure `C01.prog` — what
  `C01_history_preserves_WF` quantifies over — IS the translated dispatch into the translated bodies
  (Gen/LinkCores, Gen/Sews2), for every `I`.
-/
import Honeycomb.Gen.Dispatch2
import Honeycomb.Props.C01Gen
import Honeycomb.Props.C01Gen2

namespace HC.GenTie
open HC HC.C01
variable {X : Type}

/-- the translated body of the internal function with the given code -/
def apiFn2 (cfg : Cfg X) (n : Nat) (l r : Nat) : Nat → Option (P X Unit)
  | 0 => some (interpCore l r 0 Gen.oneLinkCore)
  | 1 => some (interpCore l r 0 Gen.twoLinkCore)
  | 3 => some (interpCore l 0 0 Gen.oneUnlinkCore)
  | 4 => some (interpCore l 0 0 Gen.twoUnlinkCore)
  | 20 => some (interpSew cfg n l r 16 [] Gen.oneSew2)
  | 21 => some (interpSew cfg n l 0 16 [] Gen.oneUnsew2)
  | 22 => some (interpSew cfg n l r 64 [] Gen.twoSew2)
  | 23 => some (interpSew cfg n l 0 64 [] Gen.twoUnsew2)
  | _ => none

/-- a public call as translated: `assert!(I < bound); assert_ne!(I, excluded); match I { … }` -/
def apiCall2 (cfg : Cfg X) (n : Nat) (t : Nat × Nat × List (Nat × Nat)) (i l r : Nat) : P X Unit :=
  if i < t.1 ∧ i ≠ t.2.1 then
    match t.2.2.lookup i with
    | some c => (apiFn2 cfg n l r c).getD Prog.panic
    | none => Prog.panic
  else Prog.panic

/-- **the 2-D API runs the translated code** (transactional forms) -/
theorem C01_gen_api (cfg : Cfg X) (n i l r : Nat) :
    prog cfg n (.link i l r) = apiCall2 cfg n Gen.Dispatch2.link2 i l r ∧
    prog cfg n (.unlink i l) = apiCall2 cfg n Gen.Dispatch2.unlink2 i l 0 ∧
    prog cfg n (.sew i l r) = apiCall2 cfg n Gen.Dispatch2.sew2 i l r ∧
    prog cfg n (.unsew i l) = apiCall2 cfg n Gen.Dispatch2.unsew2 i l 0 := by
  have h3 : ∀ k : Nat, (k + 3 < 3) = False := fun k => by simp
  refine ⟨?_, ?_, ?_, ?_⟩ <;>
  · match i with
    | 0 => rfl
    | 1 => first
      | exact (C01_gen_oneLinkCore l r).symm
      | exact (C01_gen_oneUnlinkCore l).symm
      | exact (C01_gen_oneSew2 cfg n l r).symm
      | exact (C01_gen_oneUnsew2 cfg n l).symm
    | 2 => first
      | exact (C01_gen_twoLinkCore l r).symm
      | exact (C01_gen_twoUnlinkCore l).symm
      | exact (C01_gen_twoSew2 cfg n l r).symm
      | exact (C01_gen_twoUnsew2 cfg n l).symm
    | k + 3 =>
      simp only [apiCall2, Gen.Dispatch2.link2, Gen.Dispatch2.unlink2, Gen.Dispatch2.sew2, Gen.Dispatch2.unsew2, h3,
        false_and, if_false]
      rfl

/-- the `force_` forms run the same internal function (inside one `atomically_with_err`, checked by the translator) -/
theorem C01_gen_force_tables :
    Gen.Dispatch2.forceLink2 = Gen.Dispatch2.link2 ∧ Gen.Dispatch2.forceUnlink2 = Gen.Dispatch2.unlink2 ∧
    Gen.Dispatch2.forceSew2 = Gen.Dispatch2.sew2 ∧ Gen.Dispatch2.forceUnsew2 = Gen.Dispatch2.unsew2 := by decide

/-- **C01 on the translated API**: one public sew of the 2-D API, run as translated, on a well-formed 2-map with
    admissible arguments leaves a well-formed map -/
theorem C01_gen_api_step_preserves_WF (cfg : Cfg X) {m : Map X} (h : WF 3 m) (i l r : Nat)
    (ha : ArgsOK m (.sew i l r)) :
    WF 3 (atomically (apiCall2 cfg m.n Gen.Dispatch2.sew2 i l r) m).2 := by
  rw [← (C01_gen_api cfg m.n i l r).2.2.1]
  exact C01_step_preserves_WF cfg m (.sew i l r) h ha

end HC.GenTie
