/-
  C10b — building from cmap TEXT (characters) yields a well-formed map or an error.

  `loadChars` is the character-level mirror of `from_cmap_file(..).build()`: `str::lines`, and
  for every line `trim`, comment / header detection (`starts_with`, `contains`,
  `trim_matches(['[', ']'])`, `to_lowercase`), `split('#')`, then `split_whitespace` and
  `parse::<u32 / usize>` where the builder uses them.  `parseFileC_eq` proves that it is the
  token-level reader applied to the tokenised text, so the token-level theorem transfers:

  * `C10_chars_load_wf_or_error`: for EVERY character string whose section layout is accepted,
    the result is a `BuilderError`, or a well-formed 2-map that agrees with the text;
  * `C10_chars_never_panics`: for EVERY character string the loader does not panic.

  Outside the model: invalid UTF-8 (`read_to_string(..).expect(..)` panics before the text exists),
  the decimal grammar of `f64` beyond the finite forms of `parseCoord`, memory exhaustion on a huge
  dart count.
-/
import Honeycomb.Lemmas.CmapChars
import Honeycomb.Props.C10

namespace HC.C10
open HC HC.CmapText

theorem C10_chars_load_wf_or_error (ns : Nat) (hns : 0 < ns) (cs : List Char) (cf : CFile)
    (hp : parseFileC cs = .ok cf) :
    (∃ e, loadChars ns cs = .err e) ∨ (∃ m, loadChars ns cs = .ok m ∧ WF 3 m ∧ Agrees cf m) := by
  rw [loadChars_eq]
  rw [parseFileC_eq] at hp
  exact C10_load_wf_or_error ns hns (tokenise cs) cf hp

theorem C10_chars_never_panics (ns : Nat) (hns : 0 < ns) (cs : List Char) :
    loadChars ns cs ≠ .panic := by
  rw [loadChars_eq]
  exact C10_load_never_panics ns hns (tokenise cs)

/-! ## non-vacuity: concrete character strings -/

/-- CRLF line ends, tabs, a no-break space, `+` and leading zeros, comments, mixed-case headers,
    a repeated vertex id: accepted -/
def textGood : String :=
  "# example\r\n[Meta]\r\n0.8.1\t2\u00a05 # darts\r\n\r\n[BETAS]\r\n0 0 1 0 0 0\r\n0 +2 0 0 0 0\r\n 0 0 0 04 3 0#x\r\n[VERTICES]\r\n1 0.25 -2\r\n3 1e1 -5/8\r\n1 7 7\r\n[UNUSED]\r\n5\r\n"

example : ((okMap (loadChars 1 textGood.toList)).map fun m =>
    (m.n, m.β 1 1, m.β 0 2, m.β 2 3, m.β 2 4, m.unused 5)) = some (6, 2, 1, 4, 3, true) := by
  decide +kernel

example : ((okMap (loadChars 1 textGood.toList)).map fun m => (m.att 0 1, m.att 0 2)) =
    some (some (.pt 7 7 0), none) := by decide +kernel

example : ∃ cf m, parseFileC textGood.toList = .ok cf ∧ loadChars 1 textGood.toList = .ok m ∧
    WF 3 m ∧ Agrees cf m := by
  have hl : (match parseFileC textGood.toList with | .ok _ => true | .error _ => false) = true := by
    decide +kernel
  have hok : (okMap (loadChars 1 textGood.toList)).isSome = true := by decide +kernel
  cases hp : parseFileC textGood.toList with
  | error e => rw [hp] at hl; cases hl
  | ok cf =>
    rcases C10_chars_load_wf_or_error 1 (by decide) textGood.toList cf hp with ⟨e, he⟩ | ⟨m, hm, hw, ha⟩
    · rw [he] at hok; cases hok
    · exact ⟨cf, m, rfl, hm, hw, ha⟩

/-- malformed characters: every one is an error (never a panic, never a map) -/
example : errOf (loadChars 1 "[META]\n0.8.1 2 1\n[BETAS]\n0 0\n0 -1\n0 0\n".toList) = some (errBadValue 1) := by
  decide +kernel
example : errOf (loadChars 1 "[META]\n0.8.1 2 1\n[BETAS]\n0 0\n0 4294967296\n0 0\n".toList) = some (errBadValue 1) := by
  decide +kernel
example : errOf (loadChars 1 "[META]\n0.8.1 2 1\n[BETAS]\n0 0\n0 1_0\n0 0\n".toList) = some (errBadValue 1) := by
  decide +kernel
example : errOf (loadChars 1 "[META]\n0.8.1 2 1\n[BETAS]\n0 0\n0 7\n0 0\n".toList) = some (errInconsistent 5) := by
  decide +kernel
example : errOf (loadChars 1 "[META]\n0.8.1 2 1\n".toList) = some (errMissing 1) := by decide +kernel
example : errOf (loadChars 1 "[META] x\n0.8.1 2 1\n".toList) = some errUnknownHeader := by decide +kernel
example : errOf (loadChars 1 "".toList) = some (errMissing 0) := by decide +kernel

end HC.C10
