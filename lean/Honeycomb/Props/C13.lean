/-
  C13 — triangulation kernels (`honeycomb-kernels/src/triangulation/{mod,fan,ear_clipping}.rs`,
  model `Honeycomb/Model/Kernels/{Geom2,Fan,EarClip}.lean`).

  PROVED (every polygon size, every vertex list over ℚ; no bound)
  (a) `check_requirements`: `C13_check_requirements_ok_iff` (`Ok ↔ n ≥ 4 ∧ n_darts = 2(n-3)`) and the error kinds
      `_small`, `_triangle`, `_not_enough`, `_too_many` with their payloads.
  (b) shoelace: `C13_shoelace_step` (A6, a `ring` identity), `cyc_append_comm` (rotation invariance),
      `cyc_eraseIdx` (removing the vertex of index `j` changes the cyclic sum by the three pairs around it).
  (c) ear test: `C13_ear_test_sound` (an accepted index has the announced orientation and every other vertex —
      compared by value, as the code does — is strictly outside the candidate triangle).
  (d) areas / orientation on the vertex-list computations shared with the kernel programs:
      `C13_earclip_area_sum` (Σ signed areas of the k+1 triangles = area of the (k+3)-gon, by induction on the
      loop), `C13_earclip_ears_oriented` (every cut ear passed the test of the announced orientation),
      `C13_fan_area_sum` (fan from ANY apex: areas add up).
      Tie to the programs: `C13_earclip_kernel_triangles`, `C13_fan_kernel_star` — a successful run of
      `earclip_cell_*` / `fan_cell` read an n-gon (n ≥ 4), had 2(n-3) spare darts, and performed exactly the
      vertex-list computation (`earclipLoop_ok`).
  (e) fan (since /repo 00af791 the search examines every side, the closing one included, minus the two incident to
      the candidate): `C13_fan_star_sees_every_side` — if the star test accepts apex k then
      cross(v_k, v_i, v_{(i+1) mod n}) has one sign for EVERY side not incident to v_k, strictly (magnitude ≥ ε) for
      all of them except the first examined side (smallest index), which the code only sign-tests: weak sign there;
      `C13_fan_apex_sees_all` — with no side collinear with the apex, all fan triangles have one strict
      orientation: the apex sees the whole polygon; `fanTest_true` states exactly what the search establishes;
      `C13_fan_accepts_convex_ccw` — positively oriented triangles of magnitude ≥ ε from apex 0 ⇒ apex 0 is returned
      (no `NonFannable` on such convex polygons).  The pentagon of the former finding D7 is no longer fanned from apex 0 but from its reflex vertex, a genuine
      star point (`example`s); a simple hexagon without star vertex is refused with `NonFannable`.

  NOT PROVED (validated on every case by the oracle of tools/props/c13.py)
  * "ear clipping succeeds on every simple polygon in general position" (two-ears theorem; not in Mathlib);
  * (now proved elsewhere: WF and exact face structure in C13b.lean / C13c.lean; for the two FAN kernels, that the
    triangles of the result map carry the coordinates of `fanTriangles` and that all other coordinates are unchanged,
    in C13d.lean; the same for ear clipping (`earclipTriangles`) in C13e.lean.);
  * the orientation of the LAST triangle left by ear clipping (the code does not test it);
  * (the clockwise twin of `C13_fan_accepts_convex_ccw` is `C13_fan_accepts_convex_cw`, in C13e.lean.)
-/
import Honeycomb.Model.Kernels.EarClip
import Honeycomb.Lemmas.KernelWF
import Mathlib.Tactic.Ring
import Mathlib.Tactic.Linarith

set_option linter.unusedSimpArgs false
set_option linter.unusedVariables false

namespace HC.C13
open HC
/-! ## (a) `check_requirements` -/

theorem C13_check_requirements_ok_iff (nf na : Nat) :
    checkRequirements nf na = .ok () ↔ 4 ≤ nf ∧ na = 2 * (nf - 3) := by
  unfold checkRequirements
  constructor
  · intro h
    split at h
    · simp at h
    · split at h
      · simp at h
      · simp only at h
        split at h
        · simp at h
        · split at h
          · rename_i h1 h2 h3 h4; omega
          · simp at h
  · intro ⟨h1, h2⟩
    rw [if_neg (by omega), if_neg (by omega)]
    simp only
    rw [if_neg (by omega), if_pos (by omega)]

theorem C13_check_requirements_small (nf na : Nat) (h : nf = 1 ∨ nf = 2) :
    checkRequirements nf na = .error (errUndefinedFace "less-than-3-vertices") := by
  unfold checkRequirements; rw [if_pos h]

theorem C13_check_requirements_triangle (na : Nat) :
    checkRequirements 3 na = .error errAlreadyTriangulated := by
  unfold checkRequirements; simp

theorem C13_check_requirements_not_enough (nf na : Nat) (h : 4 ≤ nf) (h2 : na < 2 * (nf - 3)) :
    checkRequirements nf na = .error (errNotEnoughDarts (2 * (nf - 3) - na)) := by
  unfold checkRequirements
  rw [if_neg (by omega), if_neg (by omega)]
  simp only
  rw [if_pos (by omega)]
  congr 2
  omega

theorem C13_check_requirements_too_many (nf na : Nat) (h : 4 ≤ nf) (h2 : 2 * (nf - 3) < na) :
    checkRequirements nf na = .error (errTooManyDarts (na - 2 * (nf - 3))) := by
  unfold checkRequirements
  rw [if_neg (by omega), if_neg (by omega)]
  simp only
  rw [if_neg (by omega), if_neg (by omega)]
  congr 2
  omega

/-! ## (b) shoelace -/

/-- `x₁y₂ − x₂y₁` -/
def det2 (p q : P2) : Rat := p.x * q.y - q.x * p.y

/-- **A6, the shoelace step**: the cross product tested by the kernels is the signed area (×2) that removing
    `B` from `… A, B, C …` takes away -/
theorem C13_shoelace_step (A B C : P2) : cross A B C = det2 A B + det2 B C - det2 A C := by
  unfold cross det2; ring

/-- sum of `f` over the consecutive pairs of an open path -/
def pathSum (f : P2 → P2 → Rat) : List P2 → Rat
  | [] => 0
  | [_] => 0
  | a :: b :: l => f a b + pathSum f (b :: l)

/-- the closing pair (last, first) -/
def closing (f : P2 → P2 → Rat) (l : List P2) : Rat :=
  match l.getLast?, l.head? with
  | some z, some a => f z a
  | _, _ => 0

/-- sum of `f` over the cyclically consecutive pairs -/
def cyc (f : P2 → P2 → Rat) (l : List P2) : Rat := pathSum f l + closing f l

/-- twice the signed area of the polygon with vertex list `vs` (shoelace formula) -/
def area2 (vs : List P2) : Rat := cyc det2 vs

theorem pathSum_cons_cons (f : P2 → P2 → Rat) (a b : P2) (l : List P2) :
    pathSum f (a :: b :: l) = f a b + pathSum f (b :: l) := rfl

theorem pathSum_append (f : P2 → P2 → Rat) : ∀ (l1 l2 : List P2) (a b : P2),
    pathSum f ((l1 ++ [a]) ++ (b :: l2)) = pathSum f (l1 ++ [a]) + f a b + pathSum f (b :: l2) := by
  intro l1
  induction l1 with
  | nil => intro l2 a b; simp [pathSum]
  | cons x rest ih =>
      intro l2 a b
      cases rest with
      | nil => simp [pathSum]; ring
      | cons y rest' =>
          have := ih l2 a b
          simp only [List.cons_append] at this ⊢
          rw [pathSum_cons_cons, pathSum_cons_cons, this]; ring

theorem getLast?_snoc (l : List P2) (a : P2) : (l ++ [a]).getLast? = some a := by simp
theorem getLast?_cons_snoc (l : List P2) (z1 z2 : P2) : (z1 :: (l ++ [z2])).getLast? = some z2 := by
  have : z1 :: (l ++ [z2]) = (z1 :: l) ++ [z2] := rfl
  rw [this, List.getLast?_append]; simp
theorem head?_cons' (l : List P2) (a : P2) : (a :: l).head? = some a := rfl

/-- a nonempty list is `l ++ [z]` -/
theorem exists_snoc {l : List P2} (h : l ≠ []) : ∃ l' z, l = l' ++ [z] :=
  ⟨l.dropLast, l.getLast h, (List.dropLast_concat_getLast h).symm⟩

/-- rotation invariance of cyclic sums -/
theorem cyc_append_comm (f : P2 → P2 → Rat) (l1 l2 : List P2) : cyc f (l1 ++ l2) = cyc f (l2 ++ l1) := by
  by_cases h1 : l1 = []
  · subst h1; simp
  by_cases h2 : l2 = []
  · subst h2; simp
  obtain ⟨p1, z1, rfl⟩ := exists_snoc h1
  obtain ⟨p2, z2, rfl⟩ := exists_snoc h2
  -- heads
  cases hp1 : p1 ++ [z1] with
  | nil => simp at hp1
  | cons a1 t1 =>
    cases hp2 : p2 ++ [z2] with
    | nil => simp at hp2
    | cons a2 t2 =>
      have e1 : cyc f ((p1 ++ [z1]) ++ (a2 :: t2)) =
          pathSum f (p1 ++ [z1]) + f z1 a2 + pathSum f (a2 :: t2) + f z2 a1 := by
        unfold cyc closing
        rw [pathSum_append]
        have : ((p1 ++ [z1]) ++ (a2 :: t2)).getLast? = some z2 := by
          rw [← hp2, ← List.append_assoc]; simp [getLast?_cons_snoc]
        rw [this]
        have : ((p1 ++ [z1]) ++ (a2 :: t2)).head? = some a1 := by rw [hp1]; rfl
        rw [this]
      have e2 : cyc f ((p2 ++ [z2]) ++ (a1 :: t1)) =
          pathSum f (p2 ++ [z2]) + f z2 a1 + pathSum f (a1 :: t1) + f z1 a2 := by
        unfold cyc closing
        rw [pathSum_append]
        have : ((p2 ++ [z2]) ++ (a1 :: t1)).getLast? = some z1 := by
          rw [← hp1, ← List.append_assoc]; simp [getLast?_cons_snoc]
        rw [this]
        have : ((p2 ++ [z2]) ++ (a2 :: t2) = (p2 ++ [z2]) ++ (a2 :: t2)) := rfl
        have : ((p2 ++ [z2]) ++ (a1 :: t1)).head? = some a2 := by rw [hp2]; rfl
        rw [this]
      rw [← hp2] at e1
      rw [← hp1] at e2
      rw [hp1, hp2] at *
      rw [e1, e2]; ring

/-- cyclic sum with an explicit head: `f a b₁ + … + f b_m a` -/
theorem cyc_cons (f : P2 → P2 → Rat) (B : P2) (l : List P2) (hl : l ≠ []) :
    cyc f (B :: l) = f B (l.head hl) + pathSum f l + f (l.getLast hl) B := by
  unfold cyc closing
  cases l with
  | nil => exact absurd rfl hl
  | cons c l' =>
      rw [pathSum_cons_cons]
      have : (B :: c :: l').getLast? = some ((c :: l').getLast hl) := by
        rw [List.getLast?_cons_cons, List.getLast?_eq_some_getLast hl]
      rw [this]
      simp only [List.head?_cons, List.head_cons]

/-- removing one vertex `B` from a cyclic list: only the three pairs around it change.
    `P`, `N` are its cyclic predecessor and successor (last and first of the rest, read from `B` on). -/
theorem cyc_remove (f : P2 → P2 → Rat) (L R : List P2) (B : P2) (h : R ++ L ≠ []) :
    cyc f (L ++ B :: R) = cyc f (L ++ R) + f ((R ++ L).getLast h) B + f B ((R ++ L).head h)
      - f ((R ++ L).getLast h) ((R ++ L).head h) := by
  have e1 : cyc f (L ++ B :: R) = cyc f (B :: (R ++ L)) := by
    rw [cyc_append_comm]; rfl
  rw [e1, cyc_append_comm f L R, cyc_cons f B (R ++ L) h]
  unfold cyc closing
  rw [List.getLast?_eq_some_getLast h, List.head?_eq_some_head h]
  ring

/-- cyclic neighbours of position `j`, in index form -/
theorem cyclic_neighbours (vs : List P2) (j : Nat) (hj : j < vs.length) (hn : 2 ≤ vs.length) :
    (vs.drop (j + 1) ++ vs.take j).head? = some (vs.getD ((j + 1) % vs.length) default) ∧
    (vs.drop (j + 1) ++ vs.take j).getLast? = some (vs.getD ((j + vs.length - 1) % vs.length) default) := by
  constructor
  · rw [List.head?_append, List.head?_drop, List.head?_take, List.getD_eq_getElem?_getD]
    by_cases h1 : j + 1 < vs.length
    · rw [Nat.mod_eq_of_lt h1]
      rw [List.getElem?_eq_getElem h1]; simp
    · have h2 : j + 1 = vs.length := by omega
      rw [h2, Nat.mod_self]
      have : vs[vs.length]? = none := by simp
      rw [this]
      have hj0 : j ≠ 0 := by omega
      simp only [hj0, if_false, Option.none_or]
      rw [List.head?_eq_getElem?, List.getElem?_eq_getElem (by omega)]; simp
  · rw [List.getLast?_append, List.getLast?_take, List.getLast?_drop, List.getD_eq_getElem?_getD]
    by_cases h0 : j = 0
    · subst h0
      simp only [if_true, Option.or_none, Nat.zero_add]
      rw [if_neg (by omega)]
      rw [Nat.mod_eq_of_lt (by omega), List.getLast?_eq_getElem?, List.getElem?_eq_getElem (by omega)]
      simp
    · simp only [h0, if_false]
      have : (j + vs.length - 1) % vs.length = j - 1 := by
        have : j + vs.length - 1 = (j - 1) + vs.length := by omega
        rw [this, Nat.add_mod_right, Nat.mod_eq_of_lt (by omega)]
      rw [this, List.getElem?_eq_getElem (by omega : j - 1 < vs.length)]
      simp

/-- removing the vertex at index `j` of a polygon with at least two vertices, in index form -/
theorem cyc_eraseIdx (f : P2 → P2 → Rat) (vs : List P2) (j : Nat) (hj : j < vs.length) (hn : 2 ≤ vs.length) :
    cyc f vs = cyc f (vs.eraseIdx j)
      + f (vs.getD ((j + vs.length - 1) % vs.length) default) (vs.getD j default)
      + f (vs.getD j default) (vs.getD ((j + 1) % vs.length) default)
      - f (vs.getD ((j + vs.length - 1) % vs.length) default) (vs.getD ((j + 1) % vs.length) default) := by
  have hne : vs.drop (j + 1) ++ vs.take j ≠ [] := by
    intro h
    have := congrArg List.length h
    rw [List.length_append, List.length_drop, List.length_take, List.length_nil] at this
    omega
  obtain ⟨h1, h2⟩ := cyclic_neighbours vs j hj hn
  rw [List.head?_eq_some_head hne] at h1
  rw [List.getLast?_eq_some_getLast hne] at h2
  simp only [Option.some.injEq] at h1 h2
  have hdec : vs = vs.take j ++ vs[j] :: vs.drop (j + 1) := by
    rw [List.getElem_cons_drop]; exact (List.take_append_drop j vs).symm
  have hB : vs.getD j default = vs[j] := by
    rw [List.getD_eq_getElem?_getD, List.getElem?_eq_getElem hj]; rfl
  have := cyc_remove f (vs.take j) (vs.drop (j + 1)) vs[j] hne
  rw [← hdec, h1, h2, ← List.eraseIdx_eq_take_drop_succ] at this
  rw [hB]; exact this

/-! ## ear clipping on the vertex list -/

abbrev Tri := P2 × P2 × P2

/-- twice the signed area of a triangle, as the kernels compute it -/
def tri2 (t : Tri) : Rat := cross t.1 t.2.1 t.2.2

/-- the triangles cut by the ear-clipping loop, computed on the vertex list alone: the same ear search
    (`findEar`), the same index arithmetic (`(ear+1) % n`, `(ear+2) % n`) and the same list surgery
    (`vertices.remove((ear + 1) % n)`) as `earclipLoop`; `k` = number of spare dart pairs; after the loop the
    `assert_eq!(n, 3)` leaves the last triangle -/
def earclipTriangles (inside : P2 → P2 → P2 → Bool) : Nat → List P2 → Option (List Tri)
  | 0, vs =>
      match vs with
      | [a, b, c] => some [(a, b, c)]
      | _ => none
  | k + 1, vs =>
      match findEar inside vs with
      | none => none
      | some ear =>
          match earclipTriangles inside k (vs.eraseIdx ((ear + 1) % vs.length)) with
          | none => none
          | some r =>
              some ((vs.getD ear default, vs.getD ((ear + 1) % vs.length) default,
                     vs.getD ((ear + 2) % vs.length) default) :: r)

theorem findEar_spec {inside : P2 → P2 → P2 → Bool} {vs : List P2} {ear : Nat} (h : findEar inside vs = some ear) :
    ear < vs.length ∧ earTest inside vs ear = true := by
  unfold findEar at h
  have h1 := List.find?_some h
  have h2 := List.mem_of_find?_eq_some h
  exact ⟨by simpa using h2, h1⟩

theorem area2_triangle (a b c : P2) : area2 [a, b, c] = cross a b c := by
  unfold area2 cyc closing pathSum pathSum pathSum
  simp only [List.getLast?, List.head?, List.getLast]
  unfold cross det2; ring

/-- **C13 (d), area**: for every successful run of the ear-clipping loop on an `n = k + 3`-gon, the signed areas
    of the `k + 1` triangles add up to the signed area of the polygon -/
theorem C13_earclip_area_sum (inside : P2 → P2 → P2 → Bool) : ∀ (k : Nat) (vs : List P2) (tris : List Tri),
    vs.length = k + 3 → earclipTriangles inside k vs = some tris → (tris.map tri2).sum = area2 vs := by
  intro k
  induction k with
  | zero =>
      intro vs tris hlen h
      unfold earclipTriangles at h
      match vs, hlen with
      | [a, b, c], _ =>
          simp only [Option.some.injEq] at h
          subst h
          simp [tri2, area2_triangle]
  | succ k ih =>
      intro vs tris hlen h
      unfold earclipTriangles at h
      cases hf : findEar inside vs with
      | none => simp [hf] at h
      | some ear =>
          obtain ⟨hear, _⟩ := findEar_spec hf
          simp only [hf] at h
          cases hr : earclipTriangles inside k (vs.eraseIdx ((ear + 1) % vs.length)) with
          | none => simp [hr] at h
          | some r =>
              simp only [hr, Option.some.injEq] at h
              subst h
              have hj : (ear + 1) % vs.length < vs.length := Nat.mod_lt _ (by omega)
              have hlen' : (vs.eraseIdx ((ear + 1) % vs.length)).length = k + 3 := by
                rw [List.length_eraseIdx, if_pos hj]; omega
              have := ih _ r hlen' hr
              simp only [List.map_cons, List.sum_cons, this]
              have hstep := cyc_eraseIdx det2 vs ((ear + 1) % vs.length) hj (by omega)
              have e1 : ((ear + 1) % vs.length + vs.length - 1) % vs.length = ear := by
                by_cases hc : ear + 1 < vs.length
                · rw [Nat.mod_eq_of_lt hc]
                  have : ear + 1 + vs.length - 1 = ear + vs.length := by omega
                  rw [this, Nat.add_mod_right, Nat.mod_eq_of_lt hear]
                · have : ear + 1 = vs.length := by omega
                  rw [this, Nat.mod_self, Nat.zero_add, Nat.mod_eq_of_lt (by omega)]; omega
              have e2 : ((ear + 1) % vs.length + 1) % vs.length = (ear + 2) % vs.length := by
                rw [Nat.add_mod, Nat.mod_mod, ← Nat.add_mod]
              rw [e1, e2] at hstep
              unfold area2
              rw [hstep]
              unfold tri2
              simp only
              rw [C13_shoelace_step]
              ring

/-- **C13 (c)/(d), orientation**: every ear cut by the loop passed the orientation test of the announced
    orientation (all triangles but the last remaining one, which the code does not test) -/
theorem C13_earclip_ears_oriented (inside : P2 → P2 → P2 → Bool) : ∀ (k : Nat) (vs : List P2) (tris : List Tri),
    earclipTriangles inside k vs = some tris → ∀ t ∈ tris.dropLast, inside t.1 t.2.1 t.2.2 = true := by
  intro k
  induction k with
  | zero =>
      intro vs tris h
      unfold earclipTriangles at h
      split at h
      · simp only [Option.some.injEq] at h; subst h; simp
      · simp at h
  | succ k ih =>
      intro vs tris h
      unfold earclipTriangles at h
      cases hf : findEar inside vs with
      | none => simp [hf] at h
      | some ear =>
          obtain ⟨hear, htest⟩ := findEar_spec hf
          simp only [hf] at h
          cases hr : earclipTriangles inside k (vs.eraseIdx ((ear + 1) % vs.length)) with
          | none => simp [hr] at h
          | some r =>
              simp only [hr, Option.some.injEq] at h
              subst h
              intro t ht
              have hrne : r ≠ [] := by
                intro h0; subst h0
                cases k with
                | zero => unfold earclipTriangles at hr; split at hr <;> simp at hr
                | succ k' =>
                    unfold earclipTriangles at hr
                    split at hr
                    · simp at hr
                    · split at hr <;> simp at hr
              rw [List.dropLast_cons_of_ne_nil hrne] at ht
              simp only [List.mem_cons] at ht
              rcases ht with rfl | ht
              · unfold earTest at htest
                simp only [Bool.and_eq_true] at htest
                exact htest.1
              · exact ih _ r hr t ht

/-- **C13 (c), ear test soundness**: an index accepted by the ear test has the announced orientation and every
    vertex of the polygon other than the three corners (compared by value, as the code does) is strictly outside
    the candidate triangle -/
theorem C13_ear_test_sound (inside : P2 → P2 → P2 → Bool) (vs : List P2) (idx : Nat)
    (h : earTest inside vs idx = true) :
    inside (vs.getD idx default) (vs.getD ((idx + 1) % vs.length) default) (vs.getD ((idx + 2) % vs.length) default) = true ∧
    ∀ v ∈ vs, v ≠ vs.getD idx default → v ≠ vs.getD ((idx + 1) % vs.length) default →
      v ≠ vs.getD ((idx + 2) % vs.length) default →
      strictlyOutside (vs.getD idx default) (vs.getD ((idx + 1) % vs.length) default)
        (vs.getD ((idx + 2) % vs.length) default) v = true := by
  unfold earTest at h
  simp only [Bool.and_eq_true, List.all_eq_true, List.mem_filter, bne_iff_ne, ne_eq, decide_eq_true_eq,
    decide_not, Bool.not_eq_true', decide_eq_false_iff_not, and_imp] at h
  exact ⟨h.1, fun v hv h1 h2 h3 => h.2 v hv h1 h2 h3⟩

/-- strictly outside means: not in the closed triangle — some edge function is positive and some negative -/
theorem strictlyOutside_iff (a b c v : P2) :
    strictlyOutside a b c v = true ↔
      (cross a b v > 0 ∨ cross b c v > 0 ∨ cross c a v > 0) ∧ (cross a b v < 0 ∨ cross b c v < 0 ∨ cross c a v < 0) := by
  unfold strictlyOutside
  simp only [Bool.and_eq_true, Bool.or_eq_true, decide_eq_true_eq, or_assoc]

/-! ## tie between the kernel programs and the vertex-list computations -/

/-- a successful run of the kernel's loop performed exactly the vertex-list computation `earclipTriangles` -/
theorem earclipLoop_ok (cfg : Cfg Val) (nn : Nat) (inside : P2 → P2 → P2 → Bool) :
    ∀ (chunks : List (Nat × Nat)) (darts : List Nat) (vs : List P2) (m m' : Map Val),
      run (earclipLoop cfg nn inside chunks darts vs) m = (.ok (), m') →
      ∃ tris, earclipTriangles inside chunks.length vs = some tris := by
  intro chunks
  induction chunks with
  | nil =>
      intro darts vs m m' h
      unfold earclipLoop at h
      by_cases h3 : vs.length = 3
      · match vs, h3 with
        | [a, b, c], _ => exact ⟨[(a, b, c)], rfl⟩
      · simp [h3] at h
  | cons x rest ih =>
      intro darts vs m m' h
      obtain ⟨nd1, nd2⟩ := x
      unfold earclipLoop at h
      cases hf : findEar inside vs with
      | none => simp [hf] at h
      | some ear =>
          simp only [hf] at h
          obtain ⟨_, _, _, h⟩ := run_bind_ok h
          obtain ⟨_, _, _, h⟩ := run_bind_ok h
          obtain ⟨_, _, _, h⟩ := run_bind_ok h
          obtain ⟨_, _, _, h⟩ := run_bind_ok h
          obtain ⟨_, _, _, h⟩ := run_bind_ok h
          obtain ⟨_, _, _, h⟩ := run_bind_ok h
          obtain ⟨_, _, _, h⟩ := run_bind_ok h
          obtain ⟨_, _, _, h⟩ := run_bind_ok h
          obtain ⟨_, _, _, h⟩ := run_bind_ok h
          obtain ⟨r, hr⟩ := ih _ _ _ _ h
          refine ⟨(vs.getD ear default, vs.getD ((ear + 1) % vs.length) default,
                     vs.getD ((ear + 2) % vs.length) default) :: r, ?_⟩
          simp only [List.length_cons]
          unfold earclipTriangles
          simp only [hf, hr]

theorem chunks2_length : ∀ (l : List Nat), 2 * (chunks2 l).length + l.length % 2 = l.length
  | [] => rfl
  | [_] => rfl
  | a :: b :: rest => by
      have := chunks2_length rest
      simp only [chunks2, List.length_cons]
      omega

/-- the vertex list read by the kernels has one entry per face dart -/
theorem faceVertices_length (n : Nat) : ∀ (ds : List Nat) (m m' : Map Val) (vs : List Val),
    run (faceVertices n ds) m = (.ok vs, m') → vs.length = ds.length ∧ m' = m := by
  intro ds
  induction ds with
  | nil => intro m m' vs h; simp [faceVertices] at h; obtain ⟨rfl, rfl⟩ := h; exact ⟨rfl, rfl⟩
  | cons d rest ih =>
      intro m m' vs h
      unfold faceVertices at h
      obtain ⟨vid, h1, h⟩ := ro_bind_ok (readOnly_vertexId2 n d) h
      obtain ⟨v, hv, h⟩ := ro_bind_ok (ReadOnly.rA 0 vid) h
      cases v with
      | none => simp at h
      | some v =>
          simp only at h
          obtain ⟨r, m2, h2, h⟩ := run_bind_ok h
          obtain ⟨e1, e2⟩ := ih _ _ _ h2
          simp at h
          obtain ⟨rfl, rfl⟩ := h
          exact ⟨by simp [e1], e2⟩

/-- **C13, tie for ear clipping**: every successful run of `earclip_cell_*` read an `n`-gon (`n ≥ 4`, one vertex
    per face dart), was given `2(n-3)` spare darts, and its triangles are those of `earclipTriangles`; hence
    (`C13_earclip_area_sum`, `C13_earclip_ears_oriented`) their areas add up to the polygon's and every cut ear
    has the announced orientation -/
theorem C13_earclip_kernel_triangles (cfg : Cfg Val) (n : Nat) (inside : P2 → P2 → P2 → Bool) (face : Nat)
    (nds : List Nat) (m m' : Map Val) (h : run (earclipCell cfg n inside face nds) m = (.ok (), m')) :
    ∃ (darts : List Nat) (vals : List Val) (tris : List Tri),
      run (orbit2 n .faceLinear face) m = (.ok darts, m) ∧
      run (faceVertices n darts) m = (.ok vals, m) ∧
      4 ≤ darts.length ∧ nds.length = 2 * (darts.length - 3) ∧
      earclipTriangles inside (darts.length - 3) (vals.map Val.p2) = some tris ∧
      (tris.map tri2).sum = area2 (vals.map Val.p2) ∧
      (∀ t ∈ tris.dropLast, inside t.1 t.2.1 t.2.2 = true) := by
  unfold earclipCell at h
  obtain ⟨darts, h1, h3⟩ := ro_bind_ok (readOnly_orbit2 n .faceLinear face) h
  obtain ⟨vals, m2, h2, h4⟩ := run_bind_ok h3
  obtain ⟨hvl, hm2⟩ := faceVertices_length n _ _ _ _ h2
  subst hm2
  clear h h3
  cases hc : checkRequirements darts.length nds.length with
  | error e => simp [hc] at h4
  | ok u =>
      simp only [hc] at h4
      have hreq : 4 ≤ darts.length ∧ nds.length = 2 * (darts.length - 3) := by
        cases u
        have := hc
        unfold checkRequirements at this
        split at this
        · simp at this
        · split at this
          · simp at this
          · simp only at this
            split at this
            · simp at this
            · split at this
              · omega
              · simp at this
      obtain ⟨tris, ht⟩ := earclipLoop_ok cfg n inside _ _ _ _ _ h4
      have hk : (chunks2 nds).length = darts.length - 3 := by
        have := chunks2_length nds
        omega
      rw [hk] at ht
      refine ⟨darts, vals, tris, h1, h2, hreq.1, hreq.2, ht, ?_, ?_⟩
      · exact C13_earclip_area_sum inside _ _ _ (by simp [hvl]; omega) ht
      · exact C13_earclip_ears_oriented inside _ _ _ ht

/-! ## fan -/

/-- the face's vertex list read from the apex on -/
def rotL (vs : List P2) (id : Nat) : List P2 := vs.drop id ++ vs.take id

/-- the triangles of the fan from the vertex of index `id`: `(apex, w_i, w_{i+1})` over the consecutive vertices
    `w_1 … w_{n-1}` that follow the apex in face order (what `fanFrom` builds by walking β1 from the apex dart) -/
def fanTriangles (vs : List P2) (id : Nat) : List Tri :=
  match rotL vs id with
  | [] => []
  | a :: rest => (rest.zip rest.tail).map (fun bc => (a, bc.1, bc.2))

theorem fan_sum (a : P2) : ∀ (b : P2) (l : List P2),
    ((((b :: l).zip l).map (fun bc => ((a, bc.1, bc.2) : Tri))).map tri2).sum
      = det2 a b + pathSum det2 (b :: l) + det2 ((b :: l).getLast (by simp)) a := by
  intro b l
  induction l generalizing b with
  | nil => simp [pathSum, det2]
  | cons c l' ih =>
      have := ih c
      simp only [List.zip_cons_cons, List.map_cons, List.sum_cons, this, pathSum_cons_cons, tri2,
        C13_shoelace_step, List.getLast_cons_cons]
      ring

/-- **C13 (d), area for the fan**: the signed areas of the fan triangles from ANY apex add up to the signed area
    of the polygon (whether or not the apex sees the polygon) -/
theorem C13_fan_area_sum (vs : List P2) (id : Nat) : ((fanTriangles vs id).map tri2).sum = area2 vs := by
  have hrot : area2 vs = area2 (rotL vs id) := by
    unfold area2 rotL
    rw [← cyc_append_comm, List.take_append_drop]
  rw [hrot]
  unfold fanTriangles
  cases hr : rotL vs id with
  | nil => simp [area2, cyc, pathSum, closing]
  | cons a rest =>
      cases rest with
      | nil => simp [area2, cyc, pathSum, closing, det2]
      | cons b l =>
          simp only [List.tail_cons]
          rw [fan_sum]
          unfold area2
          rw [cyc_cons det2 a (b :: l) (by simp)]
          simp

/-! ### what the star search establishes -/

theorem signumF_cases (c : Rat) (z : Bool) : signumF c z = 1 ∨ signumF c z = -1 := by
  unfold signumF; split
  · exact Or.inl rfl
  · split
    · exact Or.inr rfl
    · split
      · exact Or.inr rfl
      · exact Or.inl rfl

theorem eps_pos : (0 : Rat) < eps := by unfold eps; norm_num

/-- `signum` alone gives the weak sign (a vanishing cross product has `signum = ±1` by the sign of its zero) -/
theorem weak_of_signum (c : Rat) (z : Bool) : (signumF c z = 1 → 0 ≤ c) ∧ (signumF c z = -1 → c ≤ 0) := by
  unfold signumF
  constructor
  · intro h
    by_cases h1 : c > 0
    · exact le_of_lt h1
    · rw [if_neg h1] at h
      by_cases h2 : c < 0
      · rw [if_pos h2] at h; simp at h
      · exact not_lt.1 h2
  · intro h
    by_cases h1 : c > 0
    · rw [if_pos h1] at h; simp at h
    · exact not_lt.1 h1

/-- a cross product with `signum = s` that passed the `abs < epsilon` test has the strict sign `s` -/
theorem strict_of_signum {c : Rat} {z : Bool} (habs : ¬ ratAbs c < eps) :
    (signumF c z = 1 → 0 < c) ∧ (signumF c z = -1 → c < 0) := by
  have hne : c ≠ 0 := by
    intro h0; apply habs; subst h0; unfold ratAbs; simp; exact eps_pos
  obtain ⟨w1, w2⟩ := weak_of_signum c z
  exact ⟨fun h => lt_of_le_of_ne (w1 h) (Ne.symm hne), fun h => lt_of_le_of_ne (w2 h) hne⟩

/-- the cross product the search computes for candidate apex `id` and side `i = (v_i, v_{(i+1) % n})` -/
def sideCross (vs : List P2) (id i : Nat) : Rat :=
  cross (vs.getD id default) (vs.getD i default) (vs.getD ((i + 1) % vs.length) default)

/-- its `signum` (sign bit of the f64 value) -/
def sideSignum (vs : List P2) (id i : Nat) : Int :=
  signumF (sideCross vs id i)
    (crossNegZero (vs.getD id default) (vs.getD i default) (vs.getD ((i + 1) % vs.length) default))

/-- the sides examined for candidate `id`: exactly the sides of the polygon that are not incident to `v_id` -/
theorem mem_fanSegs {n id i : Nat} : i ∈ fanSegs n id ↔ i < n ∧ i ≠ id ∧ (i + 1) % n ≠ id := by
  unfold fanSegs
  rw [List.mem_filter, List.mem_range]
  simp only [Bool.not_eq_true', Bool.or_eq_false_iff, decide_eq_false_iff_not, ne_eq]

/-- the content of an accepted star test: all examined sides but the first have the first one's `signum` and a
    cross product of magnitude `≥ ε`; the first examined side is the one of smallest index -/
theorem fanTest_true {vs : List P2} {id : Nat} (h : fanTest vs id = some true) :
    ∃ i0 rest, fanSegs vs.length id = i0 :: rest ∧ (∀ i ∈ rest, i0 < i) ∧
      ∀ i ∈ rest, sideSignum vs id i = sideSignum vs id i0 ∧ ¬ ratAbs (sideCross vs id i) < eps := by
  unfold fanTest at h
  simp only at h
  cases hs : fanSegs vs.length id with
  | nil => simp [hs] at h
  | cons i0 rest =>
      refine ⟨i0, rest, rfl, ?_, ?_⟩
      · have hp : (fanSegs vs.length id).Pairwise (· < ·) := by
          unfold fanSegs
          exact List.Pairwise.sublist List.filter_sublist List.pairwise_lt_range
        rw [hs, List.pairwise_cons] at hp
        exact hp.1
      · simp only [hs, List.map_cons, Option.some.injEq, List.all_eq_true, List.mem_map, Bool.and_eq_true,
          decide_eq_true_eq, Bool.not_eq_true', decide_eq_false_iff_not, forall_exists_index, and_imp] at h
        intro i hi
        have := h _ i hi rfl
        exact ⟨this.1, this.2⟩

/-- **C13 (e)**: if the star test accepts apex `k`, then `cross(v_k, v_i, v_{(i+1) mod n})` has one sign for EVERY
    side `i` of the polygon not incident to `v_k` (the closing side included; /repo 00af791 — before, side `k+1` was
    never examined: finding D7).  Exactly as the code tests it: the sign is STRICT (magnitude `≥ ε`) for every such
    side except the first examined one `i0` (the non-incident side of smallest index), for which the code only takes
    `signum` — its cross product has the common sign weakly (it may vanish). -/
theorem C13_fan_star_sees_every_side {vs : List P2} {k : Nat} (h : fanTest vs k = some true) :
    ∃ i0, (i0 < vs.length ∧ i0 ≠ k ∧ (i0 + 1) % vs.length ≠ k) ∧
      (∀ i, i < vs.length → i ≠ k → (i + 1) % vs.length ≠ k → i0 ≤ i) ∧
      (((∀ i, i < vs.length → i ≠ k → (i + 1) % vs.length ≠ k → i ≠ i0 → eps ≤ sideCross vs k i) ∧
          0 ≤ sideCross vs k i0) ∨
       ((∀ i, i < vs.length → i ≠ k → (i + 1) % vs.length ≠ k → i ≠ i0 → sideCross vs k i ≤ -eps) ∧
          sideCross vs k i0 ≤ 0)) := by
  obtain ⟨i0, rest, hsegs, hlt, hall⟩ := fanTest_true h
  have hmem : ∀ i, i < vs.length → i ≠ k → (i + 1) % vs.length ≠ k → i = i0 ∨ i ∈ rest := by
    intro i h1 h2 h3
    have : i ∈ fanSegs vs.length k := mem_fanSegs.2 ⟨h1, h2, h3⟩
    rw [hsegs] at this
    simpa using this
  have hi0 : i0 ∈ fanSegs vs.length k := by rw [hsegs]; simp
  refine ⟨i0, mem_fanSegs.1 hi0, ?_, ?_⟩
  · intro i h1 h2 h3
    rcases hmem i h1 h2 h3 with rfl | hr
    · exact le_refl _
    · exact le_of_lt (hlt i hr)
  · have habs : ∀ c : Rat, ¬ ratAbs c < eps → (0 < c → eps ≤ c) ∧ (c < 0 → c ≤ -eps) := by
      intro c hc
      unfold ratAbs at hc
      constructor
      · intro hp; rw [if_neg (by linarith)] at hc; exact not_lt.1 hc
      · intro hn; rw [if_pos hn] at hc; linarith [not_lt.1 hc]
    rcases signumF_cases (sideCross vs k i0) (crossNegZero (vs.getD k default) (vs.getD i0 default)
        (vs.getD ((i0 + 1) % vs.length) default)) with hs | hs
    · left
      refine ⟨fun i h1 h2 h3 h4 => ?_, (weak_of_signum _ _).1 hs⟩
      rcases hmem i h1 h2 h3 with rfl | hr
      · exact absurd rfl h4
      · obtain ⟨a, b⟩ := hall i hr
        have : 0 < sideCross vs k i := (strict_of_signum b).1 (by unfold sideSignum at a; rw [a]; exact hs)
        exact (habs _ b).1 this
    · right
      refine ⟨fun i h1 h2 h3 h4 => ?_, (weak_of_signum _ _).2 hs⟩
      rcases hmem i h1 h2 h3 with rfl | hr
      · exact absurd rfl h4
      · obtain ⟨a, b⟩ := hall i hr
        have : sideCross vs k i < 0 := (strict_of_signum b).2 (by unfold sideSignum at a; rw [a]; exact hs)
        exact (habs _ b).2 this

theorem fanStarFrom_some (vs : List P2) : ∀ (ids : List Nat) (k : Nat),
    fanStarFrom vs ids = some (some k) → k ∈ ids ∧ fanTest vs k = some true := by
  intro ids
  induction ids with
  | nil => intro k h; simp [fanStarFrom] at h
  | cons id rest ih =>
      intro k h
      unfold fanStarFrom at h
      cases ht : fanTest vs id with
      | none => simp [ht] at h
      | some b =>
          cases b with
          | true =>
              simp only [ht, Option.some.injEq] at h
              subst h
              exact ⟨by simp, ht⟩
          | false =>
              simp only [ht] at h
              obtain ⟨a, b⟩ := ih k h
              exact ⟨by simp [a], b⟩

/-- **C13 (e), "whenever the fan kernel succeeds the chosen apex sees the whole polygon"**: if the star search
    returns apex `k` and no side is collinear with the apex (general position; this is what makes the first
    examined side, which the code only sign-tests, strict as well), then every triangle
    `(v_k, v_i, v_{(i+1) mod n})` over the sides not incident to `v_k` has the same strict orientation. -/
theorem C13_fan_apex_sees_all (vs : List P2) (k : Nat) (h : fanStar vs = some (some k))
    (hgp : ∀ i, i < vs.length → i ≠ k → (i + 1) % vs.length ≠ k → sideCross vs k i ≠ 0) :
    k < vs.length ∧
    ((∀ i, i < vs.length → i ≠ k → (i + 1) % vs.length ≠ k → 0 < sideCross vs k i) ∨
     (∀ i, i < vs.length → i ≠ k → (i + 1) % vs.length ≠ k → sideCross vs k i < 0)) := by
  obtain ⟨hk, ht⟩ := fanStarFrom_some vs _ k h
  refine ⟨by simpa using hk, ?_⟩
  obtain ⟨i0, hi0, _, hsign⟩ := C13_fan_star_sees_every_side ht
  have hne0 := hgp i0 hi0.1 hi0.2.1 hi0.2.2
  rcases hsign with ⟨a, b⟩ | ⟨a, b⟩
  · left
    intro i h1 h2 h3
    by_cases e : i = i0
    · subst e; exact lt_of_le_of_ne b (Ne.symm hne0)
    · exact lt_of_lt_of_le eps_pos (a i h1 h2 h3 e)
  · right
    intro i h1 h2 h3
    by_cases e : i = i0
    · subst e; exact lt_of_le_of_ne b hne0
    · linarith [a i h1 h2 h3 e, eps_pos]

/-! ### strictly convex polygons are accepted, and the tie for the fan kernel -/

/-- **C13, fan on convex polygons**: if every triangle `(v0, v_i, v_{i+1})`, `1 ≤ i ≤ n-2`, is positively oriented
    with cross product `≥ ε` (in particular on a strictly convex counter-clockwise polygon with coordinates on a
    lattice coarser than `√ε`), the star search returns apex 0: the kernel does not answer `NonFannable` -/
theorem C13_fan_accepts_convex_ccw (vs : List P2) (hn : 3 ≤ vs.length)
    (hpos : ∀ i, i < vs.length → i ≠ 0 → (i + 1) % vs.length ≠ 0 → eps ≤ sideCross vs 0 i) :
    fanStar vs = some (some 0) := by
  have hsig : ∀ i, i ∈ fanSegs vs.length 0 → sideSignum vs 0 i = 1 ∧ ¬ ratAbs (sideCross vs 0 i) < eps := by
    intro i hi
    obtain ⟨h1, h2, h3⟩ := mem_fanSegs.1 hi
    have := hpos i h1 h2 h3
    have hp : 0 < sideCross vs 0 i := lt_of_lt_of_le eps_pos this
    constructor
    · unfold sideSignum signumF; rw [if_pos hp]
    · unfold ratAbs; rw [if_neg (by linarith)]; linarith
  have h1mem : 1 ∈ fanSegs vs.length 0 :=
    mem_fanSegs.2 ⟨by omega, by omega, by rw [Nat.mod_eq_of_lt (by omega)]; omega⟩
  have htest : fanTest vs 0 = some true := by
    unfold fanTest
    simp only
    cases hs : fanSegs vs.length 0 with
    | nil => rw [hs] at h1mem; simp at h1mem
    | cons i0 rest =>
        simp only [List.map_cons, Option.some.injEq, List.all_eq_true, List.mem_map, Bool.and_eq_true,
          decide_eq_true_eq, Bool.not_eq_true', decide_eq_false_iff_not, forall_exists_index, and_imp]
        intro cz i hi hcz
        subst hcz
        obtain ⟨s1, s2⟩ := hsig i (by rw [hs]; simp [hi])
        obtain ⟨t1, _⟩ := hsig i0 (by rw [hs]; simp)
        unfold sideSignum sideCross at s1 t1
        unfold sideCross at s2
        exact ⟨by rw [s1, t1], s2⟩
  unfold fanStar
  have : List.range vs.length = 0 :: List.range' 1 (vs.length - 1) := by
    rw [List.range_eq_range']
    have : vs.length = (vs.length - 1) + 1 := by omega
    rw [this, List.range'_succ]; simp
  rw [this]
  unfold fanStarFrom
  rw [htest]

/-- **C13, tie for the fan kernel**: a successful `fan_cell` read an `n ≥ 4`-gon with `2(n-3)` spare darts and
    its star search accepted the index `id` from whose dart the fan is built; the fan triangles' signed areas add
    up to the polygon's (`C13_fan_area_sum`) -/
theorem C13_fan_kernel_star (cfg : Cfg Val) (n : Nat) (face : Nat) (nds : List Nat) (m m' : Map Val)
    (h : run (fanCell cfg n face nds) m = (.ok (), m')) :
    ∃ (darts : List Nat) (vals : List Val) (id : Nat),
      run (orbit2 n .faceLinear face) m = (.ok darts, m) ∧
      run (faceVertices n darts) m = (.ok vals, m) ∧
      4 ≤ darts.length ∧ nds.length = 2 * (darts.length - 3) ∧
      fanStar (vals.map Val.p2) = some (some id) ∧
      run (fanFrom cfg n (darts.getD id 0) nds) m = (.ok (), m') ∧
      ((fanTriangles (vals.map Val.p2) id).map tri2).sum = area2 (vals.map Val.p2) := by
  unfold fanCell at h
  obtain ⟨darts, h1, h3⟩ := ro_bind_ok (readOnly_orbit2 n .faceLinear face) h
  obtain ⟨vals, m2, h2, h4⟩ := run_bind_ok h3
  obtain ⟨hvl, hm2⟩ := faceVertices_length n _ _ _ _ h2
  subst hm2
  clear h h3
  cases hc : checkRequirements darts.length nds.length with
  | error e => simp [hc] at h4
  | ok u =>
      simp only [hc] at h4
      cases u
      have hreq := (C13_check_requirements_ok_iff _ _).1 hc
      cases hs : fanStar (vals.map Val.p2) with
      | none => simp [hs] at h4
      | some o =>
          cases o with
          | none => simp [hs] at h4
          | some id =>
              simp only [hs] at h4
              exact ⟨darts, vals, id, h1, h2, hreq.1, hreq.2, hs, h4, C13_fan_area_sum _ _⟩

/-! ## non-vacuity -/

/-- the CCW pentagon of the design round (reflex vertex at index 1), witness of the former finding D7 -/
def d7Pentagon : List P2 := [⟨0, 0⟩, ⟨2, 1⟩, ⟨4, 0⟩, ⟨4, 4⟩, ⟨0, 4⟩]

/-- the pentagon as an isolated face (darts 1–5) with four spare darts -/
def d7Map : Map Val :=
  { (Map.empty 3 6 10 : Map Val) with
    b := #[#[0, 5, 1, 2, 3, 4, 0, 0, 0, 0], #[0, 2, 3, 4, 5, 1, 0, 0, 0, 0], #[0, 0, 0, 0, 0, 0, 0, 0, 0, 0]]
    a := #[#[none, some (.pt 0 0 0), some (.pt 2 1 0), some (.pt 4 0 0), some (.pt 4 4 0), some (.pt 0 4 0),
             none, none, none, none],
           Array.replicate 11 none, Array.replicate 11 none, Array.replicate 11 none,
           Array.replicate 11 none, Array.replicate 11 none] }

/-- the pentagon is no longer fanned from apex 0 (which fails on side (v1, v2), the side the old search never
    examined): the search now finds apex 1 — the reflex vertex (2,1), a genuine star point, unreachable before —
    and the fan from it is a correct triangulation (cross products 8 + 12 + 8 = 28 = 2 × 14, all positive) -/
example : fanTest d7Pentagon 0 = some false := by decide +kernel
example : fanStar d7Pentagon = some (some 1) := by decide +kernel
example : (run (fanCell (stdCfg 3 0) 10 1 [6, 7, 8, 9]) d7Map).1 = .ok () := by decide +kernel
example : ((fanTriangles d7Pentagon 1).map tri2) = [8, 12, 8] := by decide +kernel
/-- the fan from apex 0, which the old search accepted, contains a clockwise triangle -/
example : ((fanTriangles d7Pentagon 0).map tri2) = [-4, 16, 16] := by decide +kernel
/-- ear clipping triangulates it as well (cross products 8 + 4 + 16 = 28) -/
example : (run (earclipCellCCW (stdCfg 3 0) 10 1 [6, 7, 8, 9]) d7Map).1 = .ok () := by decide +kernel
example : (earclipTriangles insideCCW 2 d7Pentagon).map (fun l => l.map tri2) = some [8, 4, 16] := by decide +kernel
example : area2 d7Pentagon = 28 := by decide +kernel

/-- a simple counter-clockwise hexagon without any star vertex is refused: `NonFannable` -/
def noStarHexagon : List P2 := [⟨-4, 2⟩, ⟨-5, -2⟩, ⟨5, -5⟩, ⟨-2, -2⟩, ⟨-4, 1⟩, ⟨0, 0⟩]

def noStarMap : Map Val :=
  { (Map.empty 3 6 13 : Map Val) with
    b := #[#[0, 6, 1, 2, 3, 4, 5, 0, 0, 0, 0, 0, 0], #[0, 2, 3, 4, 5, 6, 1, 0, 0, 0, 0, 0, 0],
           #[0, 0, 0, 0, 0, 0, 0, 0, 0, 0, 0, 0, 0]]
    a := #[#[none, some (.pt (-4) 2 0), some (.pt (-5) (-2) 0), some (.pt 5 (-5) 0), some (.pt (-2) (-2) 0),
             some (.pt (-4) 1 0), some (.pt 0 0 0), none, none, none, none, none, none],
           Array.replicate 14 none, Array.replicate 14 none, Array.replicate 14 none,
           Array.replicate 14 none, Array.replicate 14 none] }

example : 0 < area2 noStarHexagon := by decide +kernel
example : fanStar noStarHexagon = some none := by decide +kernel
example : (run (fanCell (stdCfg 3 0) 13 1 [7, 8, 9, 10, 11, 12]) noStarMap).1 = .err errNonFannable := by
  decide +kernel

/-- hypotheses of the star theorems are satisfiable: a convex pentagon, and a star-shaped hexagon whose only star
    vertex is at index 3 (apexes ≥ 2 were unreachable before /repo 00af791) -/
def convexPentagon : List P2 := [⟨0, 0⟩, ⟨4, 0⟩, ⟨6, 3⟩, ⟨3, 6⟩, ⟨0, 4⟩]

example : fanStar convexPentagon = some (some 0) :=
  C13_fan_accepts_convex_ccw convexPentagon (by decide) (by decide +kernel)

example : 0 < convexPentagon.length ∧
    ((∀ i, i < convexPentagon.length → i ≠ 0 → (i + 1) % convexPentagon.length ≠ 0 → 0 < sideCross convexPentagon 0 i) ∨
     (∀ i, i < convexPentagon.length → i ≠ 0 → (i + 1) % convexPentagon.length ≠ 0 → sideCross convexPentagon 0 i < 0)) :=
  C13_fan_apex_sees_all convexPentagon 0 (by decide +kernel) (by decide +kernel)

def starAt3 : List P2 := [⟨4, 0⟩, ⟨2, 1⟩, ⟨4, 4⟩, ⟨0, 0⟩, ⟨4, -4⟩, ⟨2, -1⟩]

example : fanStar starAt3 = some (some 3) := by decide +kernel
example : fanTest starAt3 3 = some true := by decide +kernel

example : checkRequirements 5 4 = .ok () := (C13_check_requirements_ok_iff 5 4).2 (by omega)
example : checkRequirements 5 3 = .error (errNotEnoughDarts 1) := C13_check_requirements_not_enough 5 3 (by omega) (by omega)
example : checkRequirements 5 7 = .error (errTooManyDarts 3) := C13_check_requirements_too_many 5 7 (by omega) (by omega)

end HC.C13
