/-
  C03 (2-D part) — orbits, cell identifiers and cell iterators agree with the orbit definition.

  For every 2-map `m` with `WF 3 m` and every non-null existing dart `d`:

  * `C03_orbit2_spec`            `orbit_transac` under every 2-D policy (incl. every `Custom` β list) returns,
                                 without touching the map, the dart first, then exactly the non-null darts
                                 reachable through the policy's images, each once; volume policies panic
  * `C03_images_inverse_closed`, `C03_orbit2_is_cell`
                                 for Vertex / Edge / Face the images are closed under inverse, so the orbit is
                                 the equivalence class under "images and their inverses" (`SameCell`)
  * `C03_vertexId2_min`, `C03_edgeId2_min`, `C03_faceId2_min`
                                 the identifiers are the minimum of the cell (the edge shortcut included)
  * `C03_same_id_iff_same_cell`  equal identifiers ⇔ same cell
  * `C03_iter*_sorted`, `C03_iter*_mem`
                                 the iterators are strictly increasing and yield exactly the identifiers of the
                                 in-use darts
  * `C03_faceLinear_closed`, `C03_vertexLinear_closed`
                                 one-directional policies give the whole cell on closed cells
  * `C03_transactional_eq_plain` the transactional variant (through `atomically`, and through the transaction
                                 log `atomicallyLog`) returns what the direct run returns and publishes nothing

  The 3-D clauses of C03 are not covered here.
-/
import Honeycomb.Lemmas.Bfs
import Honeycomb.Lemmas.WFLink
import Honeycomb.Lemmas.MapLawful
import Honeycomb.Model.Val
import Honeycomb.Props.C01

set_option linter.unusedSimpArgs false

namespace HC.C03
open HC
variable {X : Type}

/-! ## the images of a dart under a 2-D policy, as a pure function of the map -/

/-- images examined for dart `x` (same order as `gen2`, i.e. as `orbit_transac`) -/
def g2 (m : Map X) : Policy → Nat → List Nat
  | .vertex, x => [m.β 1 (m.β 2 x), m.β 2 (m.β 0 x)]
  | .vertexLinear, x => [m.β 1 (m.β 2 x)]
  | .edge, x => [m.β 2 x]
  | .face, x => [m.β 1 x, m.β 0 x]
  | .faceLinear, x => [m.β 1 x]
  | .custom bs, x => bs.map (fun i => m.β i x)
  | .volume, _ => []
  | .volumeLinear, _ => []

/-- policies a 2-map accepts: no volume policy, custom β indices below 3 -/
def PolOK : Policy → Prop
  | .volume => False
  | .volumeLinear => False
  | .custom bs => ∀ b, b ∈ bs → b < 3
  | _ => True

instance : (pol : Policy) → Decidable (PolOK pol)
  | .volume => isFalse id
  | .volumeLinear => isFalse id
  | .custom bs => inferInstanceAs (Decidable (∀ b, b ∈ bs → b < 3))
  | .vertex => isTrue trivial
  | .vertexLinear => isTrue trivial
  | .edge => isTrue trivial
  | .face => isTrue trivial
  | .faceLinear => isTrue trivial

/-- the policies whose images are closed under inverse -/
def Sym : Policy → Prop
  | .vertex => True
  | .edge => True
  | .face => True
  | _ => False

theorem Sym.ok {pol : Policy} (h : Sym pol) : PolOK pol := by
  cases pol <;> first | trivial | exact h.elim

/-- the orbit as a pure function: the BFS of `Lemmas/Bfs.lean` over `g2` -/
def orb (m : Map X) (pol : Policy) (d : Nat) : List Nat :=
  bfsPure (g2 m pol) (m.n + 1) [d] [0, d] []

/-- the cell identifier as a pure function -/
def cellId (m : Map X) (pol : Policy) (d : Nat) : Nat := listMin (orb m pol d) d

/-! ## `gen2` computes `g2` -/

theorem okb {m : Map X} (h : WF 3 m) {i x : Nat} (hi : i < 3) (hx : x < m.n) : m.okβ i x = true :=
  (h.toSized.okβ i x).2 ⟨hi, hx⟩

theorem run_gen2_go {m : Map X} (h : WF 3 m) {x : Nat} (hx : x < m.n) :
    ∀ (bs acc : List Nat), (∀ b, b ∈ bs → b < 3) →
      run (gen2.go (X := X) x bs acc) m = (.ok (acc ++ bs.map (fun i => m.β i x)), m) := by
  intro bs
  induction bs with
  | nil => intro acc _; simp [gen2.go]
  | cons i is ih =>
      intro acc hb
      have hi : i < 3 := hb i List.mem_cons_self
      unfold gen2.go
      simp only [hi, if_true, Prog.bind_eq, run_rB, okb h hi hx]
      rw [ih _ fun b hb' => hb b (List.mem_cons_of_mem _ hb')]
      simp

theorem run_gen2 {m : Map X} (h : WF 3 m) {pol : Policy} (hp : PolOK pol) {x : Nat} (hx : x < m.n) :
    run (gen2 (X := X) pol x) m = (.ok (g2 m pol x), m) := by
  have r : ∀ i, i < 3 → ∀ y, y < m.n → m.β i y < m.n := fun i hi y hy => h.range i hi y hy
  cases pol with
  | vertex =>
      simp only [gen2, g2, Prog.bind_eq, Prog.pure_eq, run_rB, run_ret, okb h (by omega : 2 < 3) hx,
        okb h (by omega : 0 < 3) hx, okb h (by omega : 1 < 3) (r 2 (by omega) x hx),
        okb h (by omega : 2 < 3) (r 0 (by omega) x hx), if_true]
  | vertexLinear =>
      simp only [gen2, g2, Prog.bind_eq, Prog.pure_eq, run_rB, run_ret, okb h (by omega : 2 < 3) hx,
        okb h (by omega : 1 < 3) (r 2 (by omega) x hx), if_true]
  | edge =>
      simp only [gen2, g2, Prog.bind_eq, Prog.pure_eq, run_rB, run_ret, okb h (by omega : 2 < 3) hx, if_true]
  | face =>
      simp only [gen2, g2, Prog.bind_eq, Prog.pure_eq, run_rB, run_ret, okb h (by omega : 1 < 3) hx,
        okb h (by omega : 0 < 3) hx, if_true]
  | faceLinear =>
      simp only [gen2, g2, Prog.bind_eq, Prog.pure_eq, run_rB, run_ret, okb h (by omega : 1 < 3) hx, if_true]
  | volume => exact hp.elim
  | volumeLinear => exact hp.elim
  | custom bs =>
      have := run_gen2_go h hx bs [] hp
      simpa [gen2, g2] using this

/-! ## facts about `g2` on well-formed maps -/

theorem g2_null {m : Map X} (h : WF 3 m) (pol : Policy) (hp : PolOK pol) :
    ∀ y, y ∈ g2 m pol 0 → y = 0 := by
  have z : ∀ i, i < 3 → m.β i 0 = 0 := h.null
  intro y hy
  cases pol with
  | vertex => simp only [g2, z 2 (by omega), z 0 (by omega), z 1 (by omega), List.mem_cons, List.not_mem_nil, or_false, or_self] at hy; exact hy
  | vertexLinear => simp only [g2, z 2 (by omega), z 1 (by omega), List.mem_singleton] at hy; exact hy
  | edge => simp only [g2, z 2 (by omega), List.mem_singleton] at hy; exact hy
  | face => simp only [g2, z 0 (by omega), z 1 (by omega), List.mem_cons, List.not_mem_nil, or_false, or_self] at hy; exact hy
  | faceLinear => simp only [g2, z 1 (by omega), List.mem_singleton] at hy; exact hy
  | volume => exact hp.elim
  | volumeLinear => exact hp.elim
  | custom bs =>
      simp only [g2, List.mem_map] at hy
      obtain ⟨i, hi, e⟩ := hy
      rw [← e]; exact z i (hp i hi)

theorem g2_range {m : Map X} (h : WF 3 m) (pol : Policy) (hp : PolOK pol) :
    ∀ a, a < m.n → ∀ y, y ∈ g2 m pol a → y < m.n := by
  have r : ∀ i, i < 3 → ∀ y, y < m.n → m.β i y < m.n := fun i hi y hy => h.range i hi y hy
  intro a ha y hy
  cases pol with
  | vertex =>
      simp only [g2, List.mem_cons, List.not_mem_nil, or_false] at hy
      rcases hy with rfl | rfl
      · exact r 1 (by omega) _ (r 2 (by omega) a ha)
      · exact r 2 (by omega) _ (r 0 (by omega) a ha)
  | vertexLinear =>
      simp only [g2, List.mem_singleton] at hy; subst hy
      exact r 1 (by omega) _ (r 2 (by omega) a ha)
  | edge => simp only [g2, List.mem_singleton] at hy; subst hy; exact r 2 (by omega) a ha
  | face =>
      simp only [g2, List.mem_cons, List.not_mem_nil, or_false] at hy
      rcases hy with rfl | rfl
      · exact r 1 (by omega) a ha
      · exact r 0 (by omega) a ha
  | faceLinear => simp only [g2, List.mem_singleton] at hy; subst hy; exact r 1 (by omega) a ha
  | volume => exact hp.elim
  | volumeLinear => exact hp.elim
  | custom bs =>
      simp only [g2, List.mem_map] at hy
      obtain ⟨i, hi, e⟩ := hy
      rw [← e]; exact r i (hp i hi) a ha

/-! ## orbits -/

/-- **C03, the generic BFS lemma** (DESIGN.md A2), restated from `Lemmas/Bfs.lean`: for *any* image
    generator `gen` that returns `g x` on every dart `x < n` without changing the map, with images
    `< n` and an inert null dart, `orbitWith n gen d` (the BFS shared by `orbit_transac`,
    `vertex_id_transac`, `face_id_transac`, with fuel `n + 1`) returns from a non-null start `d < n`:
    `d` first, no duplicates, never 0, exactly the non-null darts reachable from `d`, all `< n` -/
theorem C03_generic_bfs {g : Nat → List Nat} {n d : Nat} {gen : Nat → P X (List Nat)} {m : Map X}
    (hgen : ∀ x, x < n → run (gen x) m = (.ok (g x), m))
    (h0 : ∀ y, y ∈ g 0 → y = 0) (hr : ∀ a, a < n → ∀ y, y ∈ g a → y < n)
    (hd0 : d ≠ 0) (hd : d < n) :
    ∃ out, run (orbitWith n gen d) m = (.ok out, m) ∧
      out.head? = some d ∧ out.Nodup ∧ 0 ∉ out ∧ (∀ x, x ∈ out ↔ (x ≠ 0 ∧ Reach g d x)) ∧
      ∀ x, x ∈ out → x < n :=
  ⟨_, run_orbitWith hgen hr hd0 hd, bfsPure_spec h0 hr hd0 hd⟩

/-- **C03, orbits**: on a well-formed 2-map, for every admissible policy and every non-null existing
    dart `d`, `orbit_transac` succeeds, leaves the map unchanged and yields `d` first, then every
    non-null dart reachable through the policy's images exactly once; all yielded darts exist -/
theorem C03_orbit2_spec {m : Map X} (h : WF 3 m) {pol : Policy} (hp : PolOK pol) {d : Nat}
    (hd0 : d ≠ 0) (hd : d < m.n) :
    run (orbit2 (X := X) m.n pol d) m = (.ok (orb m pol d), m) ∧
    (orb m pol d).head? = some d ∧ (orb m pol d).Nodup ∧ 0 ∉ orb m pol d ∧
    (∀ x, x ∈ orb m pol d ↔ (x ≠ 0 ∧ Reach (g2 m pol) d x)) ∧
    ∀ x, x ∈ orb m pol d → x < m.n :=
  ⟨run_orbitWith (fun _ hx => run_gen2 h hp hx) (g2_range h pol hp) hd0 hd,
   bfsPure_spec (g2_null h pol hp) (g2_range h pol hp) hd0 hd⟩

theorem mem_orb {m : Map X} (h : WF 3 m) {pol : Policy} (hp : PolOK pol) {d : Nat}
    (hd0 : d ≠ 0) (hd : d < m.n) (x : Nat) :
    x ∈ orb m pol d ↔ (x ≠ 0 ∧ Reach (g2 m pol) d x) :=
  (C03_orbit2_spec h hp hd0 hd).2.2.2.2.1 x

theorem self_mem_orb {m : Map X} (h : WF 3 m) {pol : Policy} (hp : PolOK pol) {d : Nat}
    (hd0 : d ≠ 0) (hd : d < m.n) : d ∈ orb m pol d :=
  (mem_orb h hp hd0 hd d).2 ⟨hd0, .refl _⟩

/-- the volume policies are refused by a 2-map (`unreachable!`/panic), whatever the dart -/
theorem C03_orbit2_volume_panics (m : Map X) (d : Nat) :
    run (orbit2 (X := X) m.n .volume d) m = (.panic, m) ∧
    run (orbit2 (X := X) m.n .volumeLinear d) m = (.panic, m) := by
  constructor <;> rfl

theorem run_gen2_go_bad {m : Map X} (h : WF 3 m) {x : Nat} (hx : x < m.n) :
    ∀ (bs acc : List Nat), (∃ b, b ∈ bs ∧ 3 ≤ b) →
      run (gen2.go (X := X) x bs acc) m = (.panic, m) := by
  intro bs
  induction bs with
  | nil => intro acc hb; obtain ⟨b, hb, _⟩ := hb; simp at hb
  | cons i is ih =>
      intro acc hb
      unfold gen2.go
      by_cases hi : i < 3
      · simp only [hi, if_true, Prog.bind_eq, run_rB, okb h hi hx]
        apply ih
        obtain ⟨b, hb1, hb2⟩ := hb
        rcases List.mem_cons.1 hb1 with rfl | hb1
        · omega
        · exact ⟨b, hb1, hb2⟩
      · simp only [hi, if_false, run_panic]

/-- a `Custom` policy naming a β index `≥ 3` is refused as well -/
theorem C03_orbit2_custom_bad_panics {m : Map X} (h : WF 3 m) {bs : List Nat}
    (hb : ∃ b, b ∈ bs ∧ 3 ≤ b) {d : Nat} (hd : d < m.n) :
    run (orbit2 (X := X) m.n (.custom bs) d) m = (.panic, m) := by
  unfold orbit2 orbitWith bfs
  show run ((gen2 (.custom bs) d).bind _) m = _
  rw [run_bind]
  have : run (gen2 (X := X) (.custom bs) d) m = (.panic, m) := by
    simpa [gen2] using run_gen2_go_bad h hd bs [] hb
  rw [this]

/-! ## Vertex / Edge / Face: images closed under inverse, the orbit is the cell -/

/-- **C03, inverse-closedness**: under the Vertex, Edge and Face policies every non-null image `y`
    of an existing dart `x` has `x` among its own images -/
theorem C03_images_inverse_closed {m : Map X} (h : WF 3 m) {pol : Policy} (hs : Sym pol) :
    InvClosed (g2 m pol) m.n := by
  have z : ∀ i, i < 3 → m.β i 0 = 0 := h.null
  have r : ∀ i, i < 3 → ∀ y, y < m.n → m.β i y < m.n := fun i hi y hy => h.range i hi y hy
  have i01 := h.inv01
  have i10 := h.inv10
  have i2 : ∀ d, d < m.n → m.β 2 d ≠ 0 → m.β 2 (m.β 2 d) = d :=
    fun d hd hne => (h.invol 2 (by omega) (by omega) d hd hne).1
  intro x hx y hy hy0
  cases pol with
  | vertex =>
      simp only [g2, List.mem_cons, List.not_mem_nil, or_false] at hy ⊢
      rcases hy with hy | hy
      · -- y = β1 (β2 x)
        have hz0 : m.β 2 x ≠ 0 := by
          intro e; rw [e, z 1 (by omega)] at hy; exact hy0 hy
        have hz : m.β 2 x < m.n := r 2 (by omega) x hx
        have e1 : m.β 0 y = m.β 2 x := by
          rw [hy]; exact i01 _ hz (by rw [← hy]; exact hy0)
        right
        rw [e1, i2 x hx hz0]
      · -- y = β2 (β0 x)
        have hz0 : m.β 0 x ≠ 0 := by
          intro e; rw [e, z 2 (by omega)] at hy; exact hy0 hy
        have hz : m.β 0 x < m.n := r 0 (by omega) x hx
        have e1 : m.β 2 y = m.β 0 x := by
          rw [hy]; exact i2 _ hz (by rw [← hy]; exact hy0)
        left
        rw [e1, i10 x hx hz0]
  | edge =>
      simp only [g2, List.mem_singleton] at hy ⊢
      rw [hy, i2 x hx (by rw [← hy]; exact hy0)]
  | face =>
      simp only [g2, List.mem_cons, List.not_mem_nil, or_false] at hy ⊢
      rcases hy with hy | hy
      · right; rw [hy, i01 x hx (by rw [← hy]; exact hy0)]
      · left; rw [hy, i10 x hx (by rw [← hy]; exact hy0)]
  | vertexLinear => exact hs.elim
  | faceLinear => exact hs.elim
  | volume => exact hs.elim
  | volumeLinear => exact hs.elim
  | custom bs => exact hs.elim

/-- reachability between non-null darts is symmetric under Vertex / Edge / Face -/
theorem reach_symm {m : Map X} (h : WF 3 m) {pol : Policy} (hs : Sym pol) {d e : Nat}
    (hd : d < m.n) (he0 : e ≠ 0) (hr : Reach (g2 m pol) d e) : Reach (g2 m pol) e d :=
  Reach.symm_of_invClosed (g2_null h pol hs.ok) (g2_range h pol hs.ok)
    (C03_images_inverse_closed h hs) hd he0 hr

/-- **C03, the orbit is the cell**: under Vertex / Edge / Face the orbit of `d` is exactly the
    equivalence class of `d` under "images and their inverses" (`SameCell` = equivalence closure of
    the image steps between non-null darts) -/
theorem C03_orbit2_is_cell {m : Map X} (h : WF 3 m) {pol : Policy} (hs : Sym pol) {d : Nat}
    (hd0 : d ≠ 0) (hd : d < m.n) (x : Nat) :
    x ∈ orb m pol d ↔ SameCell (g2 m pol) m.n d x := by
  rw [mem_orb h hs.ok hd0 hd,
    sameCell_iff_reach (g2_null h pol hs.ok) (g2_range h pol hs.ok) (C03_images_inverse_closed h hs) hd0 hd]

/-- darts of the same cell have the same orbit (as sets) -/
theorem orb_congr {m : Map X} (h : WF 3 m) {pol : Policy} (hs : Sym pol) {d e : Nat}
    (hd0 : d ≠ 0) (hd : d < m.n) (he0 : e ≠ 0) (he : e < m.n) (hr : Reach (g2 m pol) d e) (x : Nat) :
    x ∈ orb m pol d ↔ x ∈ orb m pol e := by
  rw [mem_orb h hs.ok hd0 hd, mem_orb h hs.ok he0 he]
  constructor
  · rintro ⟨hx0, hx⟩; exact ⟨hx0, (reach_symm h hs hd he0 hr).trans hx⟩
  · rintro ⟨hx0, hx⟩; exact ⟨hx0, hr.trans hx⟩

/-! ## identifiers -/

/-- `cellId` is the minimum of the orbit -/
theorem cellId_spec {m : Map X} (h : WF 3 m) {pol : Policy} (hp : PolOK pol) {d : Nat}
    (hd0 : d ≠ 0) (hd : d < m.n) :
    cellId m pol d ∈ orb m pol d ∧ ∀ x, x ∈ orb m pol d → cellId m pol d ≤ x :=
  listMin_spec (self_mem_orb h hp hd0 hd)

theorem run_idWith {m : Map X} (h : WF 3 m) {pol : Policy} (hp : PolOK pol) {d : Nat}
    (hd0 : d ≠ 0) (hd : d < m.n) :
    run ((orbitWith m.n (gen2 (X := X) pol) d).bind fun o => pure (listMin o d)) m
      = (.ok (cellId m pol d), m) := by
  rw [run_bind]
  have := (C03_orbit2_spec h hp hd0 hd).1
  unfold orbit2 at this
  rw [this]; rfl

/-- **C03, vertex id**: `vertex_id_transac` returns the smallest dart of the vertex orbit -/
theorem C03_vertexId2_min {m : Map X} (h : WF 3 m) {d : Nat} (hd0 : d ≠ 0) (hd : d < m.n) :
    run (vertexId2 (X := X) m.n d) m = (.ok (cellId m .vertex d), m) ∧
    cellId m .vertex d ∈ orb m .vertex d ∧ ∀ x, x ∈ orb m .vertex d → cellId m .vertex d ≤ x :=
  ⟨run_idWith h (pol := .vertex) trivial hd0 hd, cellId_spec h (pol := .vertex) trivial hd0 hd⟩

/-- **C03, face id**: `face_id_transac` returns the smallest dart of the face orbit -/
theorem C03_faceId2_min {m : Map X} (h : WF 3 m) {d : Nat} (hd0 : d ≠ 0) (hd : d < m.n) :
    run (faceId2 (X := X) m.n d) m = (.ok (cellId m .face d), m) ∧
    cellId m .face d ∈ orb m .face d ∧ ∀ x, x ∈ orb m .face d → cellId m .face d ≤ x :=
  ⟨run_idWith h (pol := .face) trivial hd0 hd, cellId_spec h (pol := .face) trivial hd0 hd⟩

/-- the edge orbit of `d` is `{d}` or `{d, β2 d}` -/
theorem mem_orb_edge {m : Map X} (h : WF 3 m) {d : Nat} (hd0 : d ≠ 0) (hd : d < m.n) (x : Nat) :
    x ∈ orb m .edge d ↔ (x = d ∨ (x = m.β 2 d ∧ m.β 2 d ≠ 0)) := by
  rw [mem_orb h (pol := .edge) trivial hd0 hd]
  constructor
  · rintro ⟨hx0, hx⟩
    have key : x = d ∨ x = m.β 2 d := by
      clear hx0
      induction hx with
      | refl => exact Or.inl rfl
      | tail _ hc ih =>
          rename_i b c
          simp only [g2, List.mem_singleton] at hc
          rcases ih with ih | ih
          · right; rw [hc, ih]
          · by_cases h2 : m.β 2 d = 0
            · right; rw [hc, ih, h2, h.null 2 (by omega)]
            · left; rw [hc, ih]; exact (h.invol 2 (by omega) (by omega) d hd h2).1
    rcases key with k | k
    · exact Or.inl k
    · exact Or.inr ⟨k, by rw [← k]; exact hx0⟩
  · rintro (hx | ⟨hx, hne⟩)
    · subst hx; exact ⟨hd0, .refl _⟩
    · exact ⟨by rw [hx]; exact hne, Reach.single (by simp only [g2, List.mem_singleton]; exact hx)⟩

/-- **C03, edge id**: the shortcut `min d (β2 d)` of `edge_id_transac` is the smallest dart of the
    edge orbit (`{d}` or `{d, β2 d}`) -/
theorem C03_edgeId2_min {m : Map X} (h : WF 3 m) {d : Nat} (hd0 : d ≠ 0) (hd : d < m.n) :
    run (edgeId2 (X := X) d) m = (.ok (cellId m .edge d), m) ∧
    cellId m .edge d ∈ orb m .edge d ∧ (∀ x, x ∈ orb m .edge d → cellId m .edge d ≤ x) ∧
    cellId m .edge d = (if m.β 2 d = 0 then d else min (m.β 2 d) d) := by
  have sp := cellId_spec h (pol := .edge) trivial hd0 hd
  have key : cellId m .edge d = (if m.β 2 d = 0 then d else min (m.β 2 d) d) := by
    apply min_unique sp (l' := orb m .edge d) _ (fun _ => Iff.rfl)
    by_cases h2 : m.β 2 d = 0
    · simp only [h2, if_true]
      refine ⟨(mem_orb_edge h hd0 hd d).2 (Or.inl rfl), ?_⟩
      intro x hx
      rcases (mem_orb_edge h hd0 hd x).1 hx with e | ⟨_, e⟩
      · omega
      · exact absurd h2 e
    · simp only [h2, if_false]
      constructor
      · rcases Nat.le_total (m.β 2 d) d with hle | hle
        · rw [Nat.min_eq_left hle]; exact (mem_orb_edge h hd0 hd _).2 (Or.inr ⟨rfl, h2⟩)
        · rw [Nat.min_eq_right hle]; exact (mem_orb_edge h hd0 hd _).2 (Or.inl rfl)
      · intro x hx
        rcases (mem_orb_edge h hd0 hd x).1 hx with e | ⟨e, _⟩
        · rw [e]; exact Nat.min_le_right _ _
        · rw [e]; exact Nat.min_le_left _ _
  refine ⟨?_, sp.1, sp.2, key⟩
  rw [key]
  unfold edgeId2
  simp only [Prog.bind_eq, Prog.pure_eq, run_rB, okb h (by omega : 2 < 3) hd, if_true]
  by_cases h2 : m.β 2 d = 0
  · simp only [h2, if_true, run_ret]
  · simp only [h2, if_false, run_ret]

/-- **C03, equal ids ⇔ same cell** (Vertex, Edge, Face): two non-null existing darts have the same
    identifier exactly when one is reachable from the other, i.e. when they lie in the same cell -/
theorem C03_same_id_iff_same_cell {m : Map X} (h : WF 3 m) {pol : Policy} (hs : Sym pol) {d e : Nat}
    (hd0 : d ≠ 0) (hd : d < m.n) (he0 : e ≠ 0) (he : e < m.n) :
    (cellId m pol d = cellId m pol e ↔ Reach (g2 m pol) d e) ∧
    (cellId m pol d = cellId m pol e ↔ SameCell (g2 m pol) m.n d e) := by
  have spd := cellId_spec h hs.ok hd0 hd
  have spe := cellId_spec h hs.ok he0 he
  have main : cellId m pol d = cellId m pol e ↔ Reach (g2 m pol) d e := by
    constructor
    · intro e1
      have h1 := (mem_orb h hs.ok hd0 hd _).1 spd.1
      have h2 := (mem_orb h hs.ok he0 he _).1 spe.1
      rw [← e1] at h2
      exact h1.2.trans (reach_symm h hs he h1.1 h2.2)
    · intro hr
      exact min_unique spd spe (orb_congr h hs hd0 hd he0 he hr)
  refine ⟨main, ?_⟩
  rw [main, sameCell_iff_reach (g2_null h pol hs.ok) (g2_range h pol hs.ok)
    (C03_images_inverse_closed h hs) hd0 hd]
  exact ⟨fun hr => ⟨he0, hr⟩, fun hr => hr.2⟩

/-- the identifier of a dart is a dart of its cell, so it is its own identifier -/
theorem cellId_idem {m : Map X} (h : WF 3 m) {pol : Policy} (hs : Sym pol) {d : Nat}
    (hd0 : d ≠ 0) (hd : d < m.n) :
    cellId m pol d ≠ 0 ∧ cellId m pol d < m.n ∧ cellId m pol (cellId m pol d) = cellId m pol d := by
  have spd := cellId_spec h hs.ok hd0 hd
  have h1 := (mem_orb h hs.ok hd0 hd _).1 spd.1
  have hlt := (C03_orbit2_spec h hs.ok hd0 hd).2.2.2.2.2 _ spd.1
  refine ⟨h1.1, hlt, ?_⟩
  exact ((C03_same_id_iff_same_cell h hs h1.1 hlt hd0 hd).1.2 (reach_symm h hs hd h1.1 h1.2))

/-! ## iterators -/

/-- every image under an admissible policy is a β-image of an existing dart -/
theorem g2_image {m : Map X} (h : WF 3 m) {pol : Policy} (hp : PolOK pol) {b x : Nat} (hb : b < m.n)
    (hx : x ∈ g2 m pol b) : ∃ i e, i < 3 ∧ e < m.n ∧ x = m.β i e := by
  have r : ∀ i, i < 3 → ∀ y, y < m.n → m.β i y < m.n := fun i hi y hy => h.range i hi y hy
  cases pol with
  | vertex =>
      simp only [g2, List.mem_cons, List.not_mem_nil, or_false] at hx
      rcases hx with hx | hx
      · exact ⟨1, _, by omega, r 2 (by omega) b hb, hx⟩
      · exact ⟨2, _, by omega, r 0 (by omega) b hb, hx⟩
  | vertexLinear =>
      simp only [g2, List.mem_singleton] at hx
      exact ⟨1, _, by omega, r 2 (by omega) b hb, hx⟩
  | edge => simp only [g2, List.mem_singleton] at hx; exact ⟨2, b, by omega, hb, hx⟩
  | face =>
      simp only [g2, List.mem_cons, List.not_mem_nil, or_false] at hx
      rcases hx with hx | hx
      · exact ⟨1, b, by omega, hb, hx⟩
      · exact ⟨0, b, by omega, hb, hx⟩
  | faceLinear => simp only [g2, List.mem_singleton] at hx; exact ⟨1, b, by omega, hb, hx⟩
  | volume => exact hp.elim
  | volumeLinear => exact hp.elim
  | custom bs =>
      simp only [g2, List.mem_map] at hx
      obtain ⟨i, hi, e⟩ := hx
      exact ⟨i, b, hp i hi, hb, e.symm⟩

/-- the orbit of an in-use dart contains no removed dart (a removed dart is free and nobody's image) -/
theorem C03_orbit_of_in_use_is_in_use {m : Map X} (h : WF 3 m) {pol : Policy} (hp : PolOK pol) {d : Nat}
    (hd0 : d ≠ 0) (hd : d < m.n) (hu : m.unused d = false) :
    ∀ x, x ∈ orb m pol d → m.unused x = false := by
  intro x hx
  obtain ⟨hx0, hr⟩ := (mem_orb h hp hd0 hd x).1 hx
  rcases hr.cases_tail with e | ⟨b, hb, hxb⟩
  · rw [e]; exact hu
  · have hbn : b < m.n := hb.lt (g2_range h pol hp) hd
    obtain ⟨i, e, hi, he, hxe⟩ := g2_image h hp hbn hxb
    cases hux : m.unused x with
    | false => rfl
    | true =>
        exfalso
        have := C01.C01_unused_is_nobodys_image h i hi e he (by rw [← hxe]; exact hux)
        exact hx0 (by rw [hxe]; exact this)

theorem okVal_ok {α : Type} (a dflt : α) (m : Map X) : okVal ((Out.ok a : Out Err α), m) dflt = a := rfl

theorem mem_iterCells (m : Map X) (idf : Nat → P X Nat) (x : Nat) :
    x ∈ iterCells m idf ↔
      (x < m.n ∧ x ≠ 0 ∧ m.unused x = false ∧ okVal (run (idf x) m) 0 = x) := by
  unfold iterCells
  rw [List.mem_filter, List.mem_range]
  simp only [decide_eq_true_eq, Bool.not_eq_true', ne_eq]

/-- generic iterator lemma: if `idf` computes the identifier of the (Vertex / Edge / Face) cell, the
    iterator yields exactly the identifiers of the in-use darts -/
theorem mem_iterCells_sym {m : Map X} (h : WF 3 m) {pol : Policy} (hs : Sym pol) {idf : Nat → P X Nat}
    (hid : ∀ d, d ≠ 0 → d < m.n → run (idf d) m = (.ok (cellId m pol d), m)) (x : Nat) :
    x ∈ iterCells m idf ↔ ∃ d, d ≠ 0 ∧ d < m.n ∧ m.unused d = false ∧ cellId m pol d = x := by
  rw [mem_iterCells]
  constructor
  · rintro ⟨hx, hx0, hu, e⟩
    rw [hid x hx0 hx, okVal_ok] at e
    exact ⟨x, hx0, hx, hu, e⟩
  · rintro ⟨d, hd0, hd, hu, e⟩
    obtain ⟨k0, klt, kid⟩ := cellId_idem h hs hd0 hd
    have ku := C03_orbit_of_in_use_is_in_use h hs.ok hd0 hd hu _ (cellId_spec h hs.ok hd0 hd).1
    rw [e] at k0 klt kid ku
    refine ⟨klt, k0, ku, ?_⟩
    rw [hid x k0 klt, okVal_ok]; exact kid

theorem iterCells_sorted (m : Map X) (idf : Nat → P X Nat) :
    (iterCells m idf).Pairwise (fun a b => a < b) :=
  List.Pairwise.filter _ List.pairwise_lt_range

/-- **C03, iterators are strictly increasing** (hence duplicate-free) -/
theorem C03_iter_sorted (m : Map X) :
    (iterVertices2 m).Pairwise (fun a b => a < b) ∧ (iterEdges2 m).Pairwise (fun a b => a < b) ∧
    (iterFaces2 m).Pairwise (fun a b => a < b) :=
  ⟨iterCells_sorted _ _, iterCells_sorted _ _, iterCells_sorted _ _⟩

/-- **C03, `iter_vertices`** yields exactly the vertex identifiers of the in-use darts -/
theorem C03_iterVertices2_mem {m : Map X} (h : WF 3 m) (x : Nat) :
    x ∈ iterVertices2 m ↔ ∃ d, d ≠ 0 ∧ d < m.n ∧ m.unused d = false ∧ cellId m .vertex d = x :=
  mem_iterCells_sym h (pol := .vertex) trivial (fun _ hd0 hd => (C03_vertexId2_min h hd0 hd).1) x

/-- **C03, `iter_edges`** yields exactly the edge identifiers of the in-use darts -/
theorem C03_iterEdges2_mem {m : Map X} (h : WF 3 m) (x : Nat) :
    x ∈ iterEdges2 m ↔ ∃ d, d ≠ 0 ∧ d < m.n ∧ m.unused d = false ∧ cellId m .edge d = x :=
  mem_iterCells_sym h (pol := .edge) trivial (fun _ hd0 hd => (C03_edgeId2_min h hd0 hd).1) x

/-- **C03, `iter_faces`** yields exactly the face identifiers of the in-use darts -/
theorem C03_iterFaces2_mem {m : Map X} (h : WF 3 m) (x : Nat) :
    x ∈ iterFaces2 m ↔ ∃ d, d ≠ 0 ∧ d < m.n ∧ m.unused d = false ∧ cellId m .face d = x :=
  mem_iterCells_sym h (pol := .face) trivial (fun _ hd0 hd => (C03_faceId2_min h hd0 hd).1) x

/-! ## one-directional policies on closed cells -/

/-- **C03, FaceLinear on closed faces**: if no dart of the face of `d` is 1-free, the β1-only orbit
    has the same darts as the face orbit -/
theorem C03_faceLinear_closed {m : Map X} (h : WF 3 m) {d : Nat} (hd0 : d ≠ 0) (hd : d < m.n)
    (hcl : ∀ x, x ∈ orb m .face d → m.β 1 x ≠ 0) (x : Nat) :
    x ∈ orb m .faceLinear d ↔ x ∈ orb m .face d := by
  rw [mem_orb h (pol := .faceLinear) trivial hd0 hd, mem_orb h (pol := .face) trivial hd0 hd]
  constructor
  · rintro ⟨hx0, hx⟩
    refine ⟨hx0, ?_⟩
    exact (linear_reach_iff (f := m.β 1) (f' := m.β 0) (h.null 1 (by omega)) (h.null 0 (by omega))
      (h.range 1 (by omega)) h.inv01 hd0 hd
      (fun y hy0 hy => hcl y ((mem_orb h (pol := .face) trivial hd0 hd y).2 ⟨hy0, hy⟩)) x hx0).2 hx
  · rintro ⟨hx0, hx⟩
    refine ⟨hx0, ?_⟩
    exact (linear_reach_iff (f := m.β 1) (f' := m.β 0) (h.null 1 (by omega)) (h.null 0 (by omega))
      (h.range 1 (by omega)) h.inv01 hd0 hd
      (fun y hy0 hy => hcl y ((mem_orb h (pol := .face) trivial hd0 hd y).2 ⟨hy0, hy⟩)) x hx0).1 hx

/-- **C03, VertexLinear on closed vertices**: if `β1 ∘ β2` has no null image on the vertex of `d`
    (the vertex is interior), the one-directional orbit has the same darts as the vertex orbit -/
theorem C03_vertexLinear_closed {m : Map X} (h : WF 3 m) {d : Nat} (hd0 : d ≠ 0) (hd : d < m.n)
    (hcl : ∀ x, x ∈ orb m .vertex d → m.β 1 (m.β 2 x) ≠ 0) (x : Nat) :
    x ∈ orb m .vertexLinear d ↔ x ∈ orb m .vertex d := by
  have z : ∀ i, i < 3 → m.β i 0 = 0 := h.null
  have r : ∀ i, i < 3 → ∀ y, y < m.n → m.β i y < m.n := fun i hi y hy => h.range i hi y hy
  have hinv : ∀ y, y < m.n → m.β 1 (m.β 2 y) ≠ 0 → m.β 2 (m.β 0 (m.β 1 (m.β 2 y))) = y := by
    intro y hy hne
    have hz0 : m.β 2 y ≠ 0 := by intro e; rw [e, z 1 (by omega)] at hne; exact hne rfl
    rw [h.inv01 _ (r 2 (by omega) y hy) hne]
    exact (h.invol 2 (by omega) (by omega) y hy hz0).1
  have key := linear_reach_iff (f := fun y => m.β 1 (m.β 2 y)) (f' := fun y => m.β 2 (m.β 0 y))
    (n := m.n) (d := d)
    (by show m.β 1 (m.β 2 0) = 0; rw [z 2 (by omega), z 1 (by omega)])
    (by show m.β 2 (m.β 0 0) = 0; rw [z 0 (by omega), z 2 (by omega)])
    (fun y hy => r 1 (by omega) _ (r 2 (by omega) y hy)) hinv hd0 hd
    (fun y hy0 hy => hcl y ((mem_orb h (pol := .vertex) trivial hd0 hd y).2 ⟨hy0, hy⟩))
  rw [mem_orb h (pol := .vertexLinear) trivial hd0 hd, mem_orb h (pol := .vertex) trivial hd0 hd]
  constructor
  · rintro ⟨hx0, hx⟩; exact ⟨hx0, (key x hx0).2 hx⟩
  · rintro ⟨hx0, hx⟩; exact ⟨hx0, (key x hx0).1 hx⟩

/-! ## transactional variants = plain variants

  In the Rust code `vertex_id(d)` is `atomically(|t| self.vertex_id_transac(t, d))` (same for the other
  identifiers), and `orbit` re-implements `orbit_transac` on committed values.  In the model both are
  the same `P X` program: the transactional one is run inside a caller's transaction (`run`), the plain
  one through `atomically` — by T1 (`T1_atomicallyLog_eq`) also through the transaction log.  The
  programs are read-only, so all three give the same answer and publish nothing.  (That the Rust
  `orbit` iterator really computes what `orbit_transac` computes is a fact about the code: it is
  checked by the correspondence run on `orbit` / `orbitnt` lines.) -/

theorem atomically_readOnly {α : Type} {p : P X α} (hp : ReadOnly p) (m : Map X) :
    atomically p m = run p m := by
  have h2 := hp m
  unfold atomically
  match hr : run p m with
  | (.ok a, m') => rfl
  | (.err e, m') => rw [hr] at h2; simp only at h2; rw [h2]
  | (.retry, m') => rw [hr] at h2; simp only at h2; rw [h2]
  | (.panic, m') => rw [hr] at h2; simp only at h2; rw [h2]

/-- **C03, transactional = plain** (model-level content, see the comment above): running an orbit or
    identifier query as its own transaction — sequentially or through the transaction log — returns
    exactly what the closure returns inside a transaction, and never changes the map -/
theorem C03_transactional_eq_plain (m : Map X) (pol : Policy) (d : Nat) :
    (atomically (orbit2 (X := X) m.n pol d) m = run (orbit2 (X := X) m.n pol d) m ∧
     atomicallyLog (orbit2 (X := X) m.n pol d) m = run (orbit2 (X := X) m.n pol d) m) ∧
    (atomically (vertexId2 (X := X) m.n d) m = run (vertexId2 (X := X) m.n d) m ∧
     atomicallyLog (vertexId2 (X := X) m.n d) m = run (vertexId2 (X := X) m.n d) m) ∧
    (atomically (edgeId2 (X := X) d) m = run (edgeId2 (X := X) d) m ∧
     atomicallyLog (edgeId2 (X := X) d) m = run (edgeId2 (X := X) d) m) ∧
    (atomically (faceId2 (X := X) m.n d) m = run (faceId2 (X := X) m.n d) m ∧
     atomicallyLog (faceId2 (X := X) m.n d) m = run (faceId2 (X := X) m.n d) m) := by
  refine ⟨⟨?_, ?_⟩, ⟨?_, ?_⟩, ⟨?_, ?_⟩, ⟨?_, ?_⟩⟩
  · exact atomically_readOnly (readOnly_orbit2 _ _ _) m
  · rw [T1_atomicallyLog_eq]; exact atomically_readOnly (readOnly_orbit2 _ _ _) m
  · exact atomically_readOnly (readOnly_vertexId2 _ _) m
  · rw [T1_atomicallyLog_eq]; exact atomically_readOnly (readOnly_vertexId2 _ _) m
  · exact atomically_readOnly (readOnly_edgeId2 _) m
  · rw [T1_atomicallyLog_eq]; exact atomically_readOnly (readOnly_edgeId2 _) m
  · exact atomically_readOnly (readOnly_faceId2 _ _) m
  · rw [T1_atomicallyLog_eq]; exact atomically_readOnly (readOnly_faceId2 _ _) m

/-- … in particular on well-formed maps the plain identifiers are the cell minima, too -/
theorem C03_plain_ids {m : Map X} (h : WF 3 m) {d : Nat} (hd0 : d ≠ 0) (hd : d < m.n) :
    atomicallyLog (vertexId2 (X := X) m.n d) m = (.ok (cellId m .vertex d), m) ∧
    atomicallyLog (edgeId2 (X := X) d) m = (.ok (cellId m .edge d), m) ∧
    atomicallyLog (faceId2 (X := X) m.n d) m = (.ok (cellId m .face d), m) := by
  obtain ⟨_, ⟨_, hv⟩, ⟨_, he⟩, ⟨_, hf⟩⟩ := C03_transactional_eq_plain m .vertex d
  rw [hv, he, hf]
  exact ⟨(C03_vertexId2_min h hd0 hd).1, (C03_edgeId2_min h hd0 hd).1, (C03_faceId2_min h hd0 hd).1⟩

/-! ## non-vacuity: the hypotheses are satisfiable and the conclusions are not trivial -/

/-- two triangles 1-2-3 and 4-5-6 glued along the edge 2|4; dart 7 free, dart 8 removed -/
def exM : Map Val :=
  { C01.exMap with
    b := #[#[0, 3, 1, 2, 6, 4, 5, 0, 0], #[0, 2, 3, 1, 5, 6, 4, 0, 0], #[0, 0, 4, 0, 2, 0, 0, 0, 0]] }

/-- a sphere made of two 1-gons (β1 loops) glued along their edge: one interior vertex -/
def exS : Map Val :=
  { (Map.empty 3 1 3 : Map Val) with b := #[#[0, 1, 2], #[0, 1, 2], #[0, 2, 1]] }

theorem exM_wf : WF 3 exM := by decide
theorem exS_wf : WF 3 exS := by decide

-- orbits: the start first, inverse images found (5 reaches 2 only through β2∘β0), open cells handled
example : run (orbit2 exM.n .vertex 5) exM = (.ok (orb exM .vertex 5), exM) :=
  (C03_orbit2_spec exM_wf (pol := .vertex) trivial (by decide) (by decide)).1
example : orb exM .vertex 5 = [5, 2] := by decide +kernel
example : orb exM .vertex 1 = [1] := by decide +kernel
example : orb exM .edge 4 = [4, 2] := by decide +kernel
example : orb exM .face 5 = [5, 6, 4] := by decide +kernel
example : orb exM .faceLinear 5 = [5, 6, 4] := by decide +kernel
example : orb exM .vertexLinear 2 = [2, 5] := by decide +kernel
example : orb exM .vertexLinear 5 = [5] := by decide +kernel
example : orb exM (.custom [1, 2]) 1 = [1, 2, 3, 4, 5, 6] := by decide +kernel
example : orb exM (.custom []) 3 = [3] := by decide +kernel
example : PolOK (.custom [2, 1]) := by decide
example : run (orbit2 exM.n (.custom [2, 1]) 1) exM = (.ok (orb exM (.custom [2, 1]) 1), exM) :=
  (C03_orbit2_spec exM_wf (pol := .custom [2, 1]) (by decide) (by decide) (by decide)).1
example : run (orbit2 exM.n (.custom [3]) 1) exM = (.panic, exM) :=
  C03_orbit2_custom_bad_panics exM_wf ⟨3, by decide, by decide⟩ (by decide)

-- the orbit is the cell; reachability is symmetric
example : SameCell (g2 exM .vertex) exM.n 5 2 :=
  (C03_orbit2_is_cell exM_wf (pol := .vertex) trivial (by decide) (by decide) 2).1 (by decide +kernel)
example : InvClosed (g2 exM .face) exM.n := C03_images_inverse_closed exM_wf (pol := .face) trivial

-- identifiers
example : cellId exM .vertex 5 = 2 := by decide +kernel
example : cellId exM .edge 4 = 2 := by decide +kernel
example : cellId exM .face 6 = 4 := by decide +kernel
example : run (vertexId2 exM.n 5) exM = (.ok (cellId exM .vertex 5), exM) :=
  (C03_vertexId2_min exM_wf (by decide) (by decide)).1
example : run (edgeId2 4) exM = (.ok (cellId exM .edge 4), exM) :=
  (C03_edgeId2_min exM_wf (by decide) (by decide)).1
example : run (faceId2 exM.n 6) exM = (.ok (cellId exM .face 6), exM) :=
  (C03_faceId2_min exM_wf (by decide) (by decide)).1
example : Reach (g2 exM .vertex) 5 2 :=
  (C03_same_id_iff_same_cell exM_wf (pol := .vertex) trivial (by decide) (by decide) (by decide)
    (by decide)).1.1 (by decide +kernel)
example : ¬ Reach (g2 exM .vertex) 5 3 := fun hr =>
  absurd ((C03_same_id_iff_same_cell exM_wf (pol := .vertex) trivial (by decide) (by decide) (by decide)
    (by decide)).1.2 hr) (by decide +kernel)

-- iterators (dart 8 is removed, dart 7 is a free in-use dart)
example : iterVertices2 exM = [1, 2, 3, 6, 7] := by decide +kernel
example : iterEdges2 exM = [1, 2, 3, 5, 6, 7] := by decide +kernel
example : iterFaces2 exM = [1, 4, 7] := by decide +kernel
example : ∃ d, d ≠ 0 ∧ d < exM.n ∧ exM.unused d = false ∧ cellId exM .vertex d = 2 :=
  (C03_iterVertices2_mem exM_wf 2).1 (by decide +kernel)
example : 4 ∈ iterFaces2 exM :=
  (C03_iterFaces2_mem exM_wf 4).2 ⟨6, by decide, by decide, by decide, by decide +kernel⟩
example : ∀ x, x ∈ orb exM .face 7 → exM.unused x = false :=
  C03_orbit_of_in_use_is_in_use exM_wf (pol := .face) trivial (by decide) (by decide) (by decide)

-- linear policies on closed cells (the triangles are closed faces; `exS` has an interior vertex);
-- the boundary vertex {2, 5} of `exM` shows that the closedness hypothesis cannot be dropped
example : ∀ x, x ∈ orb exM .faceLinear 5 ↔ x ∈ orb exM .face 5 :=
  C03_faceLinear_closed exM_wf (by decide) (by decide) (by decide +kernel)
example : ∀ x, x ∈ orb exS .vertexLinear 1 ↔ x ∈ orb exS .vertex 1 :=
  C03_vertexLinear_closed exS_wf (by decide) (by decide) (by decide +kernel)
example : orb exS .vertex 1 = [1, 2] := by decide +kernel
example : 2 ∈ orb exM .vertex 5 ∧ 2 ∉ orb exM .vertexLinear 5 := by decide +kernel

-- transactional = plain
example : atomicallyLog (vertexId2 exM.n 5) exM = (.ok (cellId exM .vertex 5), exM) :=
  (C03_plain_ids exM_wf (by decide) (by decide)).1

end HC.C03
