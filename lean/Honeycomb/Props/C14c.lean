/-
  C14, third part — the vertices of the OLD darts after `insert_vertex(es)_on_edge`: "the end vertices, every other
  vertex … are preserved".

  PROVED (every well-formed map, every edge shape, every `k`)
  * `InsHyp.old_images`     — for every dart `y` that existed before the call (every dart other than the spare darts
                              that were used), the two vertex images `β1(β2 y)` and `β2(β0 y)` are the same darts
                              before and after the call (around the edge the new chains and the reversed β2 pairing
                              compose to exactly the old images).
  * `C14_old_vertices_unchanged(_single)` — hence the vertex orbit of every old dart is the same dart set as before, and
                              `vertex_id_transac` returns the same identifier; in particular for the two end points.
                              With `C14_new_darts_distinct_vertices` (the new darts form k vertices of their own) this
                              describes every vertex of the result.
  * `C14_old_vertices_keep_coordinates(_single)` — the slot of that identifier holds the same value in every storage:
                              the end points (and every other vertex) are where they were.
  * `run_n`                 — no transactional program changes the dart count.
-/
import Honeycomb.Props.C14b

set_option linter.unusedSimpArgs false
set_option linter.unusedVariables false

namespace HC.C14
open HC

/-- the facts about a successful insertion used below (all consequences of the hypotheses of
    `C14_insertVertices_beta_structure` / `C14_insertVertex_beta_structure`) -/
structure InsHyp (m m' : Map Val) (e : Nat) (fh sh : List Nat) : Prop where
  wf : WF 3 m
  wf' : WF 3 m'
  n_eq : m'.n = m.n
  e0 : e ≠ 0
  elt : e < m.n
  fhlt : ∀ x ∈ fh, x < m.n ∧ x ≠ 0
  fhfree : ∀ x ∈ fh, ∀ i, i < 3 → m.β i x = 0
  two : m.β 2 e ≠ 0 → fh.length = sh.length ∧ (∀ x ∈ sh, x < m.n ∧ x ≠ 0) ∧ (∀ x ∈ sh, ∀ i, i < 3 → m.β i x = 0)
  res : InsertResult m m' e fh sh

/-- a dart that existed before the call: not one of the spare darts that were used -/
def OldDart (m : Map Val) (e : Nat) (fh sh : List Nat) (y : Nat) : Prop := y ∉ fh ∧ (m.β 2 e ≠ 0 → y ∉ sh)

instance (m : Map Val) (e : Nat) (fh sh : List Nat) (y : Nat) : Decidable (OldDart m e fh sh y) := by
  unfold OldDart; exact inferInstance

/-- a non-null β image on a well-formed map is not a free dart -/
theorem image_not_free {m : Map Val} (hwf : WF 3 m) {i y z : Nat} (hi : i < 3) (hz : z = m.β i y) (hz0 : z ≠ 0) :
    ∃ j, j < 3 ∧ m.β j z ≠ 0 := by
  have hy : y < m.n := hwf.toSized.lt_of_β_ne hi (by rw [← hz]; exact hz0)
  have hy0 : y ≠ 0 := by rintro rfl; rw [hwf.null i hi] at hz; exact hz0 hz
  have : i = 0 ∨ i = 1 ∨ i = 2 := by omega
  rcases this with rfl | rfl | rfl
  · exact ⟨1, by omega, by rw [hz, hwf.inv10 y hy (by rw [← hz]; exact hz0)]; exact hy0⟩
  · exact ⟨0, by omega, by rw [hz, hwf.inv01 y hy (by rw [← hz]; exact hz0)]; exact hy0⟩
  · exact ⟨2, by omega, by rw [hz, (hwf.invol 2 (by omega) (by omega) y hy (by rw [← hz]; exact hz0)).1]; exact hy0⟩

variable {m m' : Map Val} {e : Nat} {fh sh : List Nat}

theorem InsHyp.image_old (H : InsHyp m m' e fh sh) {i y : Nat} (hi : i < 3) : OldDart m e fh sh (m.β i y) := by
  have key : ∀ l : List Nat, (∀ x ∈ l, x ≠ 0 ∧ ∀ j, j < 3 → m.β j x = 0) → m.β i y ∉ l := by
    intro l hl hh
    obtain ⟨h0, hf⟩ := hl _ hh
    obtain ⟨j, hj, hne⟩ := image_not_free H.wf hi rfl h0
    exact hne (hf j hj)
  exact ⟨key fh (fun x hx => ⟨(H.fhlt x hx).2, H.fhfree x hx⟩),
    fun h2 => key sh (fun x hx => ⟨((H.two h2).2.1 x hx).2, (H.two h2).2.2 x hx⟩)⟩

theorem InsHyp.zero_old (H : InsHyp m m' e fh sh) : OldDart m e fh sh 0 :=
  ⟨fun hh => (H.fhlt 0 hh).2 rfl, fun h2 hh => ((H.two h2).2.1 0 hh).2 rfl⟩

/-- β2 pairs the two sides in reverse order, in index form: `S2[j] ↔ S1[k-j]` -/
theorem InsHyp.pairs_index (H : InsHyp m m' e fh sh) (he2 : m.β 2 e ≠ 0) (j : Nat) (hj : j ≤ fh.length) :
    m'.β 2 ((m.β 2 e :: sh).getD j 0) = (e :: fh).getD (fh.length - j) 0 ∧
    m'.β 2 ((e :: fh).getD (fh.length - j) 0) = (m.β 2 e :: sh).getD j 0 := by
  obtain ⟨hlen, _, _⟩ := H.two he2
  obtain ⟨hpz, hpl1, hpl2⟩ := H.res.pairs he2
  by_cases hjk : j = fh.length
  · subst hjk
    rw [Nat.sub_self, hlen, ← getLastD_index]
    exact ⟨hpl1, hpl2⟩
  · have hj' : j < fh.length := by omega
    have := zip_index (Q := fun p => m'.β 2 p.1 = p.2 ∧ m'.β 2 p.2 = p.1) hpz j
      (by simp; omega) (by simp; omega)
    have hrev : fh.reverse.getD j 0 = (e :: fh).getD (fh.length - j) 0 := by
      rw [List.getD_eq_getElem?_getD, List.getElem?_eq_getElem (by simp; omega), List.getElem_reverse]
      have : fh.length - j = (fh.length - 1 - j) + 1 := by omega
      rw [this]
      simp [List.getD_eq_getElem?_getD, List.getElem?_eq_getElem (show fh.length - 1 - j < fh.length by omega)]
    rw [hrev] at this
    exact this

theorem InsHyp.lastF_lt (H : InsHyp m m' e fh sh) : fh.getLastD e < m.n := by
  have := getLastD_mem fh e
  simp only [List.mem_cons] at this
  rcases this with c | c
  · rw [c]; exact H.elt
  · exact (H.fhlt _ c).1

/-- β2 of the last dart of the first side before the call -/
theorem InsHyp.lastF_b2 (H : InsHyp m m' e fh sh) (he2 : m.β 2 e = 0) : m.β 2 (fh.getLastD e) = 0 := by
  have := getLastD_mem fh e
  simp only [List.mem_cons] at this
  rcases this with c | c
  · rw [c]; exact he2
  · exact H.fhfree _ c 2 (by omega)

/-- **the vertex images of an old dart are the same before and after the call** -/
theorem InsHyp.old_images (H : InsHyp m m' e fh sh) {y : Nat} (hy : OldDart m e fh sh y) :
    m'.β 1 (m'.β 2 y) = m.β 1 (m.β 2 y) ∧ m'.β 2 (m'.β 0 y) = m.β 2 (m.β 0 y) := by
  have hnull := H.wf.null
  have hnull' := H.wf'.null
  have hres := H.res
  by_cases he2 : m.β 2 e = 0
  · -- one-dart edge: β2 is unchanged everywhere
    have hb2 : ∀ z, m'.β 2 z = m.β 2 z := fun z => hres.frame2 z (fun hh => absurd he2 hh)
    constructor
    · rw [hb2]
      refine hres.frame1 _ ?_ (fun hh => absurd he2 hh)
      intro hmem
      simp only [List.mem_cons] at hmem
      rcases hmem with c | c
      · -- β2 y = e would give β2 e = y ≠ 0
        have hz0 : m.β 2 y ≠ 0 := by rw [c]; exact H.e0
        have hylt := H.wf.toSized.lt_of_β_ne (i := 2) (by omega) hz0
        have := (H.wf.invol 2 (by omega) (by omega) y hylt hz0).1
        rw [c, he2] at this
        rw [← this, hnull 2 (by omega)] at c
        exact H.e0 c.symm
      · exact (H.image_old (i := 2) (y := y) (by omega)).1 c
    · by_cases hy0 : y = 0
      · subst hy0; rw [hnull' 0 (by omega), hnull 0 (by omega), hb2]
      · rw [hb2]
        by_cases ho1 : y = m.β 1 e
        · -- y is the old successor of e: its β0 is now the last dart of the first side
          have ho0 : m.β 1 e ≠ 0 := by rw [← ho1]; exact hy0
          have h1 := H.wf'.inv01 (fh.getLastD e) (by rw [H.n_eq]; exact H.lastF_lt)
            (by rw [hres.side1.2]; exact ho0)
          rw [hres.side1.2] at h1
          have h2 := H.wf.inv01 e H.elt ho0
          rw [ho1, h1, h2, H.lastF_b2 he2, he2]
        · rw [hres.frame0 y hy.1 ho1 (fun hh => absurd he2 hh)]
  · obtain ⟨hlen, hshlt, hshfree⟩ := H.two he2
    have hinv := H.wf.invol 2 (by omega) (by omega) e H.elt he2
    have he2lt : m.β 2 e < m.n := H.wf.range 2 (by omega) e H.elt
    have p0 := H.pairs_index he2 0 (by omega)
    simp only [Nat.sub_zero, List.getD_cons_zero] at p0
    rw [← getLastD_index] at p0
    have hyS := hy.2 he2
    constructor
    · by_cases c1 : y = e
      · rw [c1, (hres.pairs he2).2.2, (hres.side2 he2).2]
      · by_cases c2 : y = m.β 2 e
        · rw [c2, p0.1, hres.side1.2, hinv.1]
        · have hf2 : m'.β 2 y = m.β 2 y := hres.frame2 y (fun _ => ⟨by
              simp only [List.mem_cons, not_or]; exact ⟨c1, hy.1⟩, by
              simp only [List.mem_cons, not_or]; exact ⟨c2, hyS⟩⟩)
          rw [hf2]
          have hold := H.image_old (i := 2) (y := y) (by omega)
          -- β2 y is neither e nor β2 e
          have hz1 : m.β 2 y ≠ e := by
            intro c
            have hz0 : m.β 2 y ≠ 0 := by rw [c]; exact H.e0
            have hylt := H.wf.toSized.lt_of_β_ne (i := 2) (by omega) hz0
            have := (H.wf.invol 2 (by omega) (by omega) y hylt hz0).1
            rw [c] at this; exact c2 this.symm
          have hz2 : m.β 2 y ≠ m.β 2 e := by
            intro c
            have hz0 : m.β 2 y ≠ 0 := by rw [c]; exact he2
            have hylt := H.wf.toSized.lt_of_β_ne (i := 2) (by omega) hz0
            have := (H.wf.invol 2 (by omega) (by omega) y hylt hz0).1
            rw [c, hinv.1] at this; exact c1 this.symm
          exact hres.frame1 _ (by simp only [List.mem_cons, not_or]; exact ⟨hz1, hold.1⟩)
            (fun _ => by simp only [List.mem_cons, not_or]; exact ⟨hz2, hold.2 he2⟩)
    · by_cases hy0 : y = 0
      · subst hy0; rw [hnull' 0 (by omega), hnull 0 (by omega), hnull' 2 (by omega), hnull 2 (by omega)]
      · by_cases ho1 : y = m.β 1 e
        · have ho0 : m.β 1 e ≠ 0 := by rw [← ho1]; exact hy0
          have h1 := H.wf'.inv01 (fh.getLastD e) (by rw [H.n_eq]; exact H.lastF_lt)
            (by rw [hres.side1.2]; exact ho0)
          rw [hres.side1.2] at h1
          have h2 := H.wf.inv01 e H.elt ho0
          rw [ho1, h1, h2, p0.2]
        · by_cases ho2 : y = m.β 1 (m.β 2 e)
          · have ho0 : m.β 1 (m.β 2 e) ≠ 0 := by rw [← ho2]; exact hy0
            have hl2lt : sh.getLastD (m.β 2 e) < m'.n := by
              rw [H.n_eq]
              have := getLastD_mem sh (m.β 2 e)
              simp only [List.mem_cons] at this
              rcases this with c | c
              · rw [c]; exact he2lt
              · exact (hshlt _ c).1
            have h1 := H.wf'.inv01 _ hl2lt (by rw [(hres.side2 he2).2]; exact ho0)
            rw [(hres.side2 he2).2] at h1
            have h2 := H.wf.inv01 (m.β 2 e) he2lt ho0
            rw [ho2, h1, h2, (hres.pairs he2).2.1, hinv.1]
          · rw [hres.frame0 y hy.1 ho1 (fun _ => ⟨hyS, ho2⟩)]
            -- w = β0 y is neither on the first nor on the second side
            have hold := H.image_old (i := 0) (y := y) (by omega)
            by_cases hw0 : m.β 0 y = 0
            · rw [hw0, hnull' 2 (by omega), hnull 2 (by omega)]
            · have hylt := H.wf.toSized.lt_of_β_ne (i := 0) (by omega) hw0
              have hb := H.wf.inv10 y hylt hw0
              have hw1 : m.β 0 y ≠ e := fun c => ho1 (by rw [← hb, c])
              have hw2 : m.β 0 y ≠ m.β 2 e := fun c => ho2 (by rw [← hb, c])
              exact hres.frame2 _ (fun _ => ⟨by
                simp only [List.mem_cons, not_or]; exact ⟨hw1, hold.1⟩, by
                simp only [List.mem_cons, not_or]; exact ⟨hw2, hold.2 he2⟩⟩)

/-- **the vertex of an old dart is the same dart set before and after the call** -/
theorem InsHyp.old_vertex (H : InsHyp m m' e fh sh) {y : Nat} (hy : OldDart m e fh sh y) (x : Nat) :
    Reach (C03.g2 m' .vertex) y x ↔ Reach (C03.g2 m .vertex) y x := by
  constructor
  · intro hr
    have : Reach (C03.g2 m .vertex) y x ∧ OldDart m e fh sh x := by
      induction hr with
      | refl => exact ⟨.refl _, hy⟩
      | tail _ hc ih =>
          obtain ⟨ih1, ih2⟩ := ih
          obtain ⟨a, b⟩ := H.old_images ih2
          simp only [C03.g2, List.mem_cons, List.not_mem_nil, or_false] at hc
          rcases hc with rfl | rfl
          · rw [a]; exact ⟨.tail ih1 (by simp [C03.g2]), H.image_old (by omega)⟩
          · rw [b]; exact ⟨.tail ih1 (by simp [C03.g2]), H.image_old (by omega)⟩
    exact this.1
  · intro hr
    have : Reach (C03.g2 m' .vertex) y x ∧ OldDart m e fh sh x := by
      induction hr with
      | refl => exact ⟨.refl _, hy⟩
      | tail _ hc ih =>
          obtain ⟨ih1, ih2⟩ := ih
          obtain ⟨a, b⟩ := H.old_images ih2
          simp only [C03.g2, List.mem_cons, List.not_mem_nil, or_false] at hc
          rcases hc with rfl | rfl
          · exact ⟨.tail ih1 (by simp [C03.g2, a]), H.image_old (by omega)⟩
          · exact ⟨.tail ih1 (by simp [C03.g2, b]), H.image_old (by omega)⟩
    exact this.1

/-- hence its identifier is the same -/
theorem InsHyp.old_vertex_id (H : InsHyp m m' e fh sh) {y : Nat} (hy : OldDart m e fh sh y) (hy0 : y ≠ 0) (hylt : y < m.n) :
    C03.cellId m' .vertex y = C03.cellId m .vertex y := by
  have hylt' : y < m'.n := by rw [H.n_eq]; exact hylt
  have s' := C03.cellId_spec H.wf' (pol := .vertex) trivial hy0 hylt'
  have s := C03.cellId_spec H.wf (pol := .vertex) trivial hy0 hylt
  have same : ∀ x, x ∈ C03.orb m' .vertex y ↔ x ∈ C03.orb m .vertex y := by
    intro x
    rw [C03.mem_orb H.wf' (pol := .vertex) trivial hy0 hylt', C03.mem_orb H.wf (pol := .vertex) trivial hy0 hylt,
      H.old_vertex hy x]
  exact Nat.le_antisymm (s'.2 _ ((same _).2 s.1)) (s.2 _ ((same _).1 s'.1))


/-- no transactional program changes the dart count -/
theorem sset_n (m : Map Val) (v : MVar) (x : MVal Val) : (Store.sset m v x).n = m.n := by
  cases v <;> cases x <;> rfl

theorem run_n {α : Type} (p : P Val α) : ∀ m : Map Val, (run p m).2.n = m.n := by
  induction p with
  | ret a => intro m; rfl
  | read v k ih =>
      intro m
      simp only [run]
      split
      · exact ih _ m
      · rfl
  | write v x k ih =>
      intro m
      simp only [run]
      split
      · rw [ih, sset_n]
      · rfl
  | abort e => intro m; rfl
  | retry => intro m; rfl
  | panic => intro m; rfl

/-! ## the theorems -/

/-- the hypotheses of `C14_insertVertices_beta_structure` give `InsHyp` -/
theorem insHyp_insertVertices (m m' : Map Val) (e : Nat) (nds : List Nat) (ts : List Rat)
    (hwf : WF 3 m) (he : C01.InUse m e)
    (hlive : ∀ d ∈ nds, m.unused d = false)
    (hfhnd : (nds.take ts.length).Nodup) (hnodup : m.β 2 e ≠ 0 → nds.Nodup)
    (h : run (insertVerticesOnEdge m.n e nds ts) m = (.ok (), m')) :
    InsHyp m m' e (nds.take ts.length) (nds.drop ts.length) := by
  obtain ⟨hwf', hres⟩ := C14_insertVertices_beta_structure m m' e nds ts hwf he hlive hfhnd hnodup h
  obtain ⟨hc, hfree, _, hfh0, hsh0, _, _, _⟩ := insertVertices_ok_elim h
  have hn : m'.n = m.n := by have := run_n (insertVerticesOnEdge m.n e nds ts) m; rw [h] at this; exact this
  have hlt : ∀ x ∈ nds, x < m.n := fun x hx => ((hwf.toSized.okβ 0 x).1 (hfree x hx).1).2
  refine ⟨hwf, hwf', hn, he.1, he.2.1, fun x hx => ⟨hlt x (List.mem_of_mem_take hx), hfh0 x hx⟩,
    fun x hx i hi => free_β (hfree x (List.mem_of_mem_take hx)).2 i hi, fun h2 => ⟨?_, ?_, ?_⟩, hres⟩
  · rw [List.length_take, List.length_drop]; omega
  · exact fun x hx => ⟨hlt x (List.mem_of_mem_drop hx), hsh0 h2 x hx⟩
  · exact fun x hx i hi => free_β (hfree x (List.mem_of_mem_drop hx)).2 i hi

/-- the hypotheses of `C14_insertVertex_beta_structure` give `InsHyp` -/
theorem insHyp_insertVertex (m m' : Map Val) (e nd1 nd2 : Nat) (t : Option Rat)
    (hwf : WF 3 m) (he : C01.InUse m e)
    (hl1 : m.unused nd1 = false) (hl2 : m.β 2 e ≠ 0 → m.unused nd2 = false ∧ nd1 ≠ nd2)
    (hend : m.β 1 e ≠ 0 ∨ m.β 2 e ≠ 0)
    (h : run (insertVertexOnEdge m.n e nd1 nd2 t) m = (.ok (), m')) :
    InsHyp m m' e [nd1] [nd2] := by
  obtain ⟨hwf', hres⟩ := C14_insertVertex_beta_structure m m' e nd1 nd2 t hwf he hl1 hl2 hend h
  obtain ⟨_, _, hnd1, hnd2, _⟩ := insertVertex_ok_elim h
  have hn : m'.n = m.n := by have := run_n (insertVertexOnEdge m.n e nd1 nd2 t) m; rw [h] at this; exact this
  refine ⟨hwf, hwf', hn, he.1, he.2.1, ?_, ?_, fun h2 => ⟨rfl, ?_, ?_⟩, hres⟩
  · intro x hx; simp only [List.mem_singleton] at hx; subst hx
    exact ⟨((hwf.toSized.okβ 0 _).1 hnd1.2.1).2, hnd1.1⟩
  · intro x hx i hi; simp only [List.mem_singleton] at hx; subst hx; exact free_β hnd1.2.2 i hi
  · intro x hx; simp only [List.mem_singleton] at hx; subst hx
    exact ⟨((hwf.toSized.okβ 0 _).1 (hnd2 h2).2.1).2, (hnd2 h2).1⟩
  · intro x hx i hi; simp only [List.mem_singleton] at hx; subst hx; exact free_β (hnd2 h2).2.2 i hi

/-- the edge dart and the dart of the second end point are old darts -/
theorem ends_old {m m' : Map Val} {e : Nat} {fh sh : List Nat} (H : InsHyp m m' e fh sh)
    (hend : m.β 1 e ≠ 0 ∨ m.β 2 e ≠ 0) :
    OldDart m e fh sh e ∧ OldDart m e fh sh (m.β 1 e) ∧ OldDart m e fh sh (m.β 2 e) := by
  refine ⟨⟨?_, ?_⟩, H.image_old (by omega), H.image_old (by omega)⟩
  · intro hh
    rcases hend with c | c
    · exact c (H.fhfree e hh 1 (by omega))
    · exact c (H.fhfree e hh 2 (by omega))
  · intro h2 hh
    exact h2 ((H.two h2).2.2 e hh 2 (by omega))

/-- **C14, untouched vertices keep their cells** (`insert_vertices_on_edge`): after a successful call the vertex
    orbit of every dart that existed before — every dart other than the spare darts that were used — is the same dart
    set as before, and `vertex_id_transac` returns the same identifier for it; in particular for the two end points of
    the edge.  Together with `C14_new_darts_distinct_vertices` (the new darts form `k` new vertices of their own) this
    describes every vertex of the result. -/
theorem C14_old_vertices_unchanged (m m' : Map Val) (e : Nat) (nds : List Nat) (ts : List Rat)
    (hwf : WF 3 m) (he : C01.InUse m e)
    (hlive : ∀ d ∈ nds, m.unused d = false)
    (hfhnd : (nds.take ts.length).Nodup) (hnodup : m.β 2 e ≠ 0 → nds.Nodup)
    (h : run (insertVerticesOnEdge m.n e nds ts) m = (.ok (), m'))
    (y : Nat) (hy : OldDart m e (nds.take ts.length) (nds.drop ts.length) y) :
    (∀ x, Reach (C03.g2 m' .vertex) y x ↔ Reach (C03.g2 m .vertex) y x) ∧
    (y ≠ 0 → y < m.n → ∃ vid, run (vertexId2 m.n y) m = (.ok vid, m) ∧ run (vertexId2 m.n y) m' = (.ok vid, m')) := by
  have H := insHyp_insertVertices m m' e nds ts hwf he hlive hfhnd hnodup h
  refine ⟨H.old_vertex hy, fun hy0 hylt => ⟨C03.cellId m .vertex y, (C03.C03_vertexId2_min hwf hy0 hylt).1, ?_⟩⟩
  have := (C03.C03_vertexId2_min H.wf' hy0 (by rw [H.n_eq]; exact hylt)).1
  rw [H.n_eq, H.old_vertex_id hy hy0 hylt] at this
  exact this

/-- the same for `insert_vertex_on_edge` -/
theorem C14_old_vertices_unchanged_single (m m' : Map Val) (e nd1 nd2 : Nat) (t : Option Rat)
    (hwf : WF 3 m) (he : C01.InUse m e)
    (hl1 : m.unused nd1 = false) (hl2 : m.β 2 e ≠ 0 → m.unused nd2 = false ∧ nd1 ≠ nd2)
    (hend : m.β 1 e ≠ 0 ∨ m.β 2 e ≠ 0)
    (h : run (insertVertexOnEdge m.n e nd1 nd2 t) m = (.ok (), m'))
    (y : Nat) (hy : OldDart m e [nd1] [nd2] y) :
    (∀ x, Reach (C03.g2 m' .vertex) y x ↔ Reach (C03.g2 m .vertex) y x) ∧
    (y ≠ 0 → y < m.n → ∃ vid, run (vertexId2 m.n y) m = (.ok vid, m) ∧ run (vertexId2 m.n y) m' = (.ok vid, m')) := by
  have H := insHyp_insertVertex m m' e nd1 nd2 t hwf he hl1 hl2 hend h
  refine ⟨H.old_vertex hy, fun hy0 hylt => ⟨C03.cellId m .vertex y, (C03.C03_vertexId2_min hwf hy0 hylt).1, ?_⟩⟩
  have := (C03.C03_vertexId2_min H.wf' hy0 (by rw [H.n_eq]; exact hylt)).1
  rw [H.n_eq, H.old_vertex_id hy hy0 hylt] at this
  exact this

/-- **C14, the old vertices keep their coordinates**: after a successful `insert_vertices_on_edge`, for every dart
    `y` that existed before, the slot of its vertex identifier (the same identifier as before) holds the same value in
    every storage; in particular the two end points of the edge are where they were -/
theorem C14_old_vertices_keep_coordinates (m m' : Map Val) (e : Nat) (nds : List Nat) (ts : List Rat)
    (hwf : WF 3 m) (he : C01.InUse m e)
    (hlive : ∀ d ∈ nds, m.unused d = false)
    (hfhnd : (nds.take ts.length).Nodup) (hnodup : m.β 2 e ≠ 0 → nds.Nodup)
    (h : run (insertVerticesOnEdge m.n e nds ts) m = (.ok (), m'))
    (y : Nat) (hy : OldDart m e (nds.take ts.length) (nds.drop ts.length) y) (hy0 : y ≠ 0) (hylt : y < m.n) (s : Nat) :
    m'.att s (C03.cellId m' .vertex y) = m.att s (C03.cellId m .vertex y) := by
  have H := insHyp_insertVertices m m' e nds ts hwf he hlive hfhnd hnodup h
  obtain ⟨_, _, _, _, _, _, _, _, _, hframe⟩ :=
    C14_new_vertex_position_full m m' e nds ts hwf he hlive hfhnd hnodup h
  rw [H.old_vertex_id hy hy0 hylt]
  refine hframe s _ (Or.inr ?_)
  intro x hx hrun
  -- the identifier of a new dart is a new dart, the identifier of an old dart is an old dart
  have hxF : x.2 ∈ nds.take ts.length := mem_zip_snd hx
  obtain ⟨xlt, x0⟩ := H.fhlt _ hxF
  have hylt' : y < m'.n := by rw [H.n_eq]; exact hylt
  have rx := (C03.C03_vertexId2_min H.wf' x0 (by rw [H.n_eq]; exact xlt)).1
  rw [H.n_eq] at rx
  rw [rx] at hrun
  simp only [Out.ok.injEq] at hrun
  rw [← H.old_vertex_id hy hy0 hylt] at hrun
  have hreach := (C03.C03_same_id_iff_same_cell H.wf' (pol := .vertex) trivial x0 (by rw [H.n_eq]; exact xlt) hy0
    hylt').1.1 hrun
  obtain ⟨t, ht, hxt⟩ := List.getElem_of_mem hxF
  have hgd : (nds.take ts.length).getD t 0 = x.2 := by
    rw [List.getD_eq_getElem?_getD, List.getElem?_eq_getElem ht, hxt]; rfl
  rw [← hgd] at hreach
  rcases new_vertex_darts m m' e _ _ H.wf H.wf' H.n_eq H.elt H.fhlt H.fhfree
      (fun h2 => ⟨(H.two h2).1, H.wf.range 2 (by omega) e H.elt, (H.two h2).2.1⟩) H.res t ht y hreach with c | c | ⟨he2, c⟩
  · exact hy.1 (by rw [c]; exact getD_mem_of_lt ht)
  · exact hy0 c
  · have hl := (H.two he2).1
    have hj : (nds.take ts.length).length - t = ((nds.take ts.length).length - t - 1) + 1 := by omega
    rw [hj] at c
    simp only [List.getD_cons_succ] at c
    exact hy.2 he2 (by rw [c]; exact getD_mem_of_lt (by omega))

/-- the single write of `insert_vertex_on_edge`: the slot of the vertex identifier of the new dart -/
theorem vid_write_att (k nd : Nat) (v : Val) {m m' : Map Val} {a : Unit}
    (h : run (do let vnew ← vertexId2 k nd; let _ ← writeVtx vnew v; pure ()) m = (.ok a, m')) :
    ∃ vnew, (run (vertexId2 k nd) m').1 = .ok vnew ∧ ∀ s d, (s ≠ 0 ∨ d ≠ vnew) → m'.att s d = m.att s d := by
  obtain ⟨vnew, hv, h1⟩ := ro_bind_ok (readOnly_vertexId2 k nd) h
  obtain ⟨_, m1, h2, h3⟩ := run_bind_ok h1
  simp at h3
  subst h3
  unfold writeVtx at h2
  simp only [Prog.bind_eq, bind] at h2
  rw [run_rA] at h2
  by_cases hok : m.okA 0 vnew = true
  · simp only [hok, if_true, run_wA, Prog.ret_bind, Prog.pure_eq, run_ret, Prod.mk.injEq] at h2
    obtain ⟨_, rfl⟩ := h2
    refine ⟨vnew, ?_, fun s d hsd => ?_⟩
    · rw [(bOnly_vertexId2 k nd).2 m (m.setA 0 vnew (some v)) rfl, hv]
    · rw [Map.att_setA]
      have : ¬ (0 = s ∧ vnew = d ∧ m.okA 0 vnew = true) := by
        rintro ⟨rfl, rfl, _⟩
        rcases hsd with c | c
        · exact c rfl
        · exact c rfl
      simp [this]
  · simp [hok] at h2

theorem insertVertex_att {n : Nat} {m m' : Map Val} {e nd1 nd2 : Nat} {t : Option Rat}
    (h : run (insertVertexOnEdge n e nd1 nd2 t) m = (.ok (), m')) :
    ∃ vnew, (run (vertexId2 n nd1) m').1 = .ok vnew ∧ ∀ s d, (s ≠ 0 ∨ d ≠ vnew) → m'.att s d = m.att s d := by
  obtain ⟨_, _, _, _, vid1, vid2, v1, v2, _, _, _, _, hB1, hB2⟩ := insertVertex_ok_elim h
  by_cases b2 : m.β 2 e = 0
  · have hb := hB1 b2
    unfold insertVertexBody1 at hb
    obtain ⟨_, ma, ha, k1⟩ := run_bind_ok hb
    have ea := (keepsAtt_whenP (keepsAtt_oneUnlinkCore e)).att ha
    obtain ⟨_, mb, hb', k2⟩ := run_bind_ok k1
    have eb := (keepsAtt_oneLinkCore e nd1).att hb'
    obtain ⟨_, mc, hc, k3⟩ := run_bind_ok k2
    have ec := (keepsAtt_oneLinkCore nd1 (m.β 1 e)).att hc
    obtain ⟨vnew, hv, hf⟩ := vid_write_att n nd1 _ k3
    exact ⟨vnew, hv, fun s d hsd => by rw [hf s d hsd, ec, eb, ea]⟩
  · have hb := hB2 b2
    unfold insertVertexBody2 at hb
    obtain ⟨_, m1, h1, k1⟩ := run_bind_ok hb
    have e1 := (keepsAtt_whenP (keepsAtt_oneUnlinkCore e)).att h1
    obtain ⟨_, m2, h2, k2⟩ := run_bind_ok k1
    have e2 := (keepsAtt_whenP (keepsAtt_oneUnlinkCore (m.β 2 e))).att h2
    obtain ⟨_, m3, h3, k3⟩ := run_bind_ok k2
    have e3 := (keepsAtt_iUnlinkCore 2 e).att h3
    obtain ⟨_, m4, h4, k4⟩ := run_bind_ok k3
    have e4 := (keepsAtt_oneLinkCore e nd1).att h4
    obtain ⟨_, m5, h5, k5⟩ := run_bind_ok k4
    have e5 := (keepsAtt_whenP (keepsAtt_oneLinkCore nd1 (m.β 1 e))).att h5
    obtain ⟨_, m6, h6, k6⟩ := run_bind_ok k5
    have e6 := (keepsAtt_oneLinkCore (m.β 2 e) nd2).att h6
    obtain ⟨_, m7, h7, k7⟩ := run_bind_ok k6
    have e7 := (keepsAtt_whenP (keepsAtt_oneLinkCore nd2 (m.β 1 (m.β 2 e)))).att h7
    obtain ⟨_, m8, h8, k8⟩ := run_bind_ok k7
    have e8 := (keepsAtt_iLinkCore 2 e nd2).att h8
    obtain ⟨_, m9, h9, k9⟩ := run_bind_ok k8
    have e9 := (keepsAtt_iLinkCore 2 (m.β 2 e) nd1).att h9
    obtain ⟨vnew, hv, hf⟩ := vid_write_att n nd1 _ k9
    exact ⟨vnew, hv, fun s d hsd => by rw [hf s d hsd, e9, e8, e7, e6, e5, e4, e3, e2, e1]⟩

/-- the same for `insert_vertex_on_edge` -/
theorem C14_old_vertices_keep_coordinates_single (m m' : Map Val) (e nd1 nd2 : Nat) (t : Option Rat)
    (hwf : WF 3 m) (he : C01.InUse m e)
    (hl1 : m.unused nd1 = false) (hl2 : m.β 2 e ≠ 0 → m.unused nd2 = false ∧ nd1 ≠ nd2)
    (hend : m.β 1 e ≠ 0 ∨ m.β 2 e ≠ 0)
    (h : run (insertVertexOnEdge m.n e nd1 nd2 t) m = (.ok (), m'))
    (y : Nat) (hy : OldDart m e [nd1] [nd2] y) (hy0 : y ≠ 0) (hylt : y < m.n) (s : Nat) :
    m'.att s (C03.cellId m' .vertex y) = m.att s (C03.cellId m .vertex y) := by
  have H := insHyp_insertVertex m m' e nd1 nd2 t hwf he hl1 hl2 hend h
  obtain ⟨vnew, hv, hframe⟩ := insertVertex_att h
  rw [H.old_vertex_id hy hy0 hylt]
  refine hframe s _ (Or.inr ?_)
  intro hEq
  obtain ⟨xlt, x0⟩ := H.fhlt nd1 (by simp)
  have hylt' : y < m'.n := by rw [H.n_eq]; exact hylt
  have rx := (C03.C03_vertexId2_min H.wf' x0 (by rw [H.n_eq]; exact xlt)).1
  rw [H.n_eq] at rx
  rw [rx] at hv
  simp only [Out.ok.injEq] at hv
  rw [← hEq, ← H.old_vertex_id hy hy0 hylt] at hv
  have hreach := (C03.C03_same_id_iff_same_cell H.wf' (pol := .vertex) trivial x0 (by rw [H.n_eq]; exact xlt) hy0
    hylt').1.1 hv
  rcases new_vertex_darts m m' e [nd1] [nd2] H.wf H.wf' H.n_eq H.elt H.fhlt H.fhfree
      (fun h2 => ⟨(H.two h2).1, H.wf.range 2 (by omega) e H.elt, (H.two h2).2.1⟩) H.res 0 (by simp) y hreach
    with c | c | ⟨he2, c⟩
  · exact hy.1 (by rw [c]; simp)
  · exact hy0 c
  · simp at c
    exact hy.2 he2 (by rw [c]; simp)

/-! ## non-vacuity -/

/-- on `exMap2` (edge 1 ↔ 4, two new vertices): the end points are the vertices of darts 1 and 2; their orbits, ids and
    coordinates are unchanged -/
example : OldDart exMap2 1 [5, 6] [7, 8] 1 ∧ OldDart exMap2 1 [5, 6] [7, 8] 2 := by decide +kernel

example : ∃ vid, run (vertexId2 exMap2.n 2) exMap2 = (.ok vid, exMap2) ∧
    run (vertexId2 exMap2.n 2) exRes2 = (.ok vid, exRes2) :=
  (C14_old_vertices_unchanged exMap2 _ 1 [5, 6, 7, 8] [1/4, 1/2] (by decide +kernel) (by decide +kernel)
    (by decide +kernel) (by decide) (by decide +kernel) (ok_of_fst (by decide +kernel)) 2 (by decide +kernel)).2
    (by decide) (by decide)

example : exRes2.att 0 (C03.cellId exRes2 .vertex 2) = exMap2.att 0 (C03.cellId exMap2 .vertex 2) :=
  C14_old_vertices_keep_coordinates exMap2 _ 1 [5, 6, 7, 8] [1/4, 1/2] (by decide +kernel) (by decide +kernel)
    (by decide +kernel) (by decide) (by decide +kernel) (ok_of_fst (by decide +kernel)) 2 (by decide +kernel)
    (by decide) (by decide) 0

example : (C03.cellId exRes2 .vertex 2, exRes2.att 0 2, C03.cellId exRes2 .vertex 1, exRes2.att 0 1)
    = (2, some (.pt 4 0 0), 1, some (.pt 0 0 0)) := by decide +kernel

end HC.C14
