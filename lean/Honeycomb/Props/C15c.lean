/-
  C15, third part (all on ARBITRARY well-formed 2-maps, hypotheses listed at each theorem; every theorem is applied to a
  concrete call at the end of the file).

  (1) counts through the iterators (`iter_vertices` / `iter_edges` / `iter_faces`, C03):
      swap 0/0/0 (`C15_swap_counts`, `C15_swap_face_count`, `C15_swap_edge_count`, vertices in `C15_swap_cells`);
      outer cut: `C15_cutOuter_face_count` (+2 triangles for 1 triangle + 3 spare darts: `len' + 2 = len`),
      `C15_cutOuter_edge_count`, `C15_cutOuter_vertex_count` / `C15_cutOuter_vertices`;
      inner cut: `C15_cutInner_face_count` / `C15_cutInner_faces`, `C15_cutInner_edge_count`, `C15_cutInner_vertex_count` /
      `C15_cutInner_vertices`; interior midpoint collapse: `C15_collapse_midpoint_face_count`, `C15_collapse_midpoint_edge_count`.
      (A spare dart is a vertex, an edge and a face of its own for the iterators: `len' + k = len` with `k` spare cells
      absorbed; the MESH changes by +1 V, +2 E, +1 F / +1 V, +3 E, +2 F / −2 F.)
      Generic tools: `iterFaces_count`, `iterEdges_count` (darts touched by an edit listed in `M`), `iterVertices_count`
      (a projection `π` relating the two vertex graphs, `reach_equiv_of_projection`), `vertex_steps_of_pairs`.
  (2) cut_inner_edge: `C15_cutInner_cells` (the four new faces with identifiers, the new vertex `{n1,n3,n4,n6}` with
      identifier `min`, every other face and the vertex partition of the old darts unchanged) and
      `C15_cutInner_midpoint_in_final_map` (the new vertex holds the average of the end points in the FINAL map).
  (3) swap: `C15_swap_cells` (who shares a vertex with whom afterwards) and `C15_swap_moves_corners` (finding D9 as a
      theorem: the end points keep their values, the two opposite corners become `(C + A)/2` or `((C + A)/2 + C)/2`).
      Both value theorems follow the vertex values at DART level through the sews (Lemmas/RemeshValues.lean).
  (4) `C15_collapse_endpoint_interior` (`Collapsible::Left`) and `C15_collapse_endpoint_interior_right` (`Right`): the
      anchor-driven collapse on an interior configuration: well-formedness, the six flagged darts, the re-gluing, the
      frame — unconditionally (`TrJ` of Props/C15b.lean, `collapse_base_core`).
  (5) `C15_six_distinct`: the six darts around an interior edge are pairwise distinct as soon as the two faces are
      different closed triangles that are not loops.
-/
import Honeycomb.Props.C15b
import Honeycomb.Lemmas.RemeshValues

set_option linter.unusedSimpArgs false
set_option linter.unusedVariables false

namespace HC.C15
open HC HC.C03

/-! ## (5) the six darts around an interior edge are pairwise distinct -/

/-- on a well-formed 2-map, two closed β1-triangles `e → a → b → e`, `r → c → d → r` (`r = β2 e`) are made of six
    pairwise distinct darts as soon as they are not loops (`β1 e ≠ e`, `β1 r ≠ r`) and `r` is not a dart of the first -/
theorem C15_six_distinct {X : Type} {m : Map X} (hwf : WF 3 m) {e : Nat} (he : e < m.n) (hr0 : m.β 2 e ≠ 0)
    (gl : m.β 1 (m.β 1 e) = m.β 0 e) (hb : m.β 0 e ≠ 0)
    (gr : m.β 1 (m.β 1 (m.β 2 e)) = m.β 0 (m.β 2 e)) (hd : m.β 0 (m.β 2 e) ≠ 0)
    (l1 : m.β 1 e ≠ e) (l2 : m.β 1 (m.β 2 e) ≠ m.β 2 e) (f1 : m.β 2 e ≠ m.β 1 e) (f2 : m.β 2 e ≠ m.β 0 e) :
    [e, m.β 2 e, m.β 1 e, m.β 0 e, m.β 1 (m.β 2 e), m.β 0 (m.β 2 e)].Nodup := by
  have hr : m.β 2 e < m.n := hwf.range 2 (by omega) e he
  have a0 : m.β 1 e ≠ 0 := fun hh => hb (by rw [← gl, hh]; exact hwf.null 1 (by omega))
  have c0 : m.β 1 (m.β 2 e) ≠ 0 := fun hh => hd (by rw [← gr, hh]; exact hwf.null 1 (by omega))
  have ha : m.β 1 e < m.n := hwf.range 1 (by omega) e he
  have hc : m.β 1 (m.β 2 e) < m.n := hwf.range 1 (by omega) _ hr
  have hbn : m.β 0 e < m.n := hwf.range 0 (by omega) e he
  have hdn : m.β 0 (m.β 2 e) < m.n := hwf.range 0 (by omega) _ hr
  -- β1 and β0 images around the two triangles
  have p3 : m.β 1 (m.β 0 e) = e := hwf.inv10 e he hb
  have q3 : m.β 1 (m.β 0 (m.β 2 e)) = m.β 2 e := hwf.inv10 _ hr hd
  have i1 : m.β 0 (m.β 1 e) = e := hwf.inv01 e he a0
  have i4 : m.β 0 (m.β 1 (m.β 2 e)) = m.β 2 e := hwf.inv01 _ hr c0
  have i2 : m.β 0 (m.β 0 e) = m.β 1 e := by
    have := hwf.inv01 _ ha (by rw [gl]; exact hb); rw [gl] at this; exact this
  have i5 : m.β 0 (m.β 0 (m.β 2 e)) = m.β 1 (m.β 2 e) := by
    have := hwf.inv01 _ hc (by rw [gr]; exact hd); rw [gr] at this; exact this
  have ner : e ≠ m.β 2 e := fun hh => (hwf.invol 2 (by omega) (by omega) e he hr0).2 hh.symm
  generalize hR : m.β 2 e = r at *
  generalize hA : m.β 1 e = a at *
  generalize hB : m.β 0 e = b at *
  generalize hC : m.β 1 r = c at *
  generalize hD : m.β 0 r = d at *
  -- every coincidence propagates around the triangles to one of the excluded ones
  have eb : e ≠ b := fun hh => l1 (by have := p3; rw [← hh, hA] at this; exact this)
  have rd : r ≠ d := fun hh => l2 (by have := q3; rw [← hh, hC] at this; exact this)
  have ab : a ≠ b := fun hh => by
    have : m.β 0 a = m.β 0 b := by rw [hh]
    rw [i1, i2] at this; exact l1 this.symm
  have cd : c ≠ d := fun hh => by
    have : m.β 0 c = m.β 0 d := by rw [hh]
    rw [i4, i5] at this; exact l2 this.symm
  have ec : e ≠ c := fun hh => by
    have : m.β 0 e = m.β 0 c := by rw [hh]
    rw [hB, i4] at this; exact f2 this.symm
  have ed : e ≠ d := fun hh => by
    have : m.β 1 e = m.β 1 d := by rw [hh]
    rw [hA, q3] at this; exact f1 this.symm
  have ac : a ≠ c := fun hh => by
    have : m.β 0 a = m.β 0 c := by rw [hh]
    rw [i1, i4] at this; exact ner this
  have ad : a ≠ d := fun hh => by
    have : m.β 1 a = m.β 1 d := by rw [hh]
    rw [gl, q3] at this; exact f2 this.symm
  have bc : b ≠ c := fun hh => by
    have : m.β 0 b = m.β 0 c := by rw [hh]
    rw [i2, i4] at this; exact f1 this.symm
  have bd : b ≠ d := fun hh => by
    have : m.β 1 b = m.β 1 d := by rw [hh]
    rw [p3, q3] at this; exact ner this
  simp [ner, l1.symm, eb, ec, ed, f1, f2, l2.symm, rd, ab, ac, ad, bc, bd, cd]

/-! ## (1) counting cells through the iterators -/

/-- two duplicate-free lists that agree outside `M` and whose parts inside `M` are the duplicate-free lists `S`, `S'` -/
theorem length_of_parts {L L' S S' M : List Nat} (hL : L.Nodup) (hL' : L'.Nodup) (hS : S.Nodup) (hS' : S'.Nodup)
    (hout : ∀ x, x ∉ M → (x ∈ L' ↔ x ∈ L))
    (hin : ∀ x, x ∈ M → (x ∈ L ↔ x ∈ S)) (hin' : ∀ x, x ∈ M → (x ∈ L' ↔ x ∈ S'))
    (hSM : ∀ x, x ∈ S → x ∈ M) (hSM' : ∀ x, x ∈ S' → x ∈ M) :
    L'.length + S.length = L.length + S'.length := by
  have key : ∀ (K T : List Nat), K.Nodup → T.Nodup → (∀ x, x ∈ M → (x ∈ K ↔ x ∈ T)) → (∀ x, x ∈ T → x ∈ M) →
      (K.filter (fun x => decide (x ∈ M))).length = T.length := by
    intro K T hK hT h1 h2
    apply List.Perm.length_eq
    rw [List.perm_ext_iff_of_nodup (hK.sublist List.filter_sublist) hT]
    intro x
    simp only [List.mem_filter, decide_eq_true_eq]
    constructor
    · intro ⟨a, b⟩; exact (h1 x b).1 a
    · intro hx; exact ⟨(h1 x (h2 x hx)).2 hx, h2 x hx⟩
  have out : (L'.filter (fun x => !decide (x ∈ M))).length = (L.filter (fun x => !decide (x ∈ M))).length := by
    apply List.Perm.length_eq
    rw [List.perm_ext_iff_of_nodup (hL'.sublist List.filter_sublist) (hL.sublist List.filter_sublist)]
    intro x
    simp only [List.mem_filter, Bool.not_eq_true', decide_eq_false_iff_not]
    constructor
    · intro ⟨a, b⟩; exact ⟨(hout x b).1 a, b⟩
    · intro ⟨a, b⟩; exact ⟨(hout x b).2 a, b⟩
  have e1 := (List.filter_append_perm (fun x => decide (x ∈ M)) L).length_eq
  have e2 := (List.filter_append_perm (fun x => decide (x ∈ M)) L').length_eq
  rw [List.length_append] at e1 e2
  have k1 := key L S hL hS hin hSM
  have k2 := key L' S' hL' hS' hin' hSM'
  omega

/-- **face count, generic**: `M` lists the darts touched by an edit which keeps `n`, keeps β0/β1 and the flags outside `M`,
    and in both maps keeps the faces of the darts of `M` inside `M`.  If `S` (`S'`) lists without repetition the face
    identifiers of the in-use darts of `M` before (after), then `#iter_faces' + #S = #iter_faces + #S'`. -/
theorem iterFaces_count {m m' : Map Val} (h : WF 3 m) (h' : WF 3 m') (hn : m'.n = m.n) (M S S' : List Nat)
    (hu : ∀ d, d ∉ M → m'.unused d = m.unused d)
    (hfr : ∀ y, y ∉ M → m'.β 1 y = m.β 1 y ∧ m'.β 0 y = m.β 0 y)
    (hcl : ∀ y, y ∈ M → ∀ x, x ∈ g2 m .face y → x = 0 ∨ x ∈ M)
    (hcl' : ∀ y, y ∈ M → ∀ x, x ∈ g2 m' .face y → x = 0 ∨ x ∈ M)
    (hS : S.Nodup) (hS' : S'.Nodup)
    (hin : ∀ x, x ∈ S ↔ ∃ d, d ∈ M ∧ d ≠ 0 ∧ d < m.n ∧ m.unused d = false ∧ cellId m .face d = x)
    (hin' : ∀ x, x ∈ S' ↔ ∃ d, d ∈ M ∧ d ≠ 0 ∧ d < m.n ∧ m'.unused d = false ∧ cellId m' .face d = x) :
    (iterFaces2 m').length + S.length = (iterFaces2 m).length + S'.length := by
  have nodup : ∀ mm : Map Val, (iterFaces2 mm).Nodup := fun mm =>
    ((C03_iter_sorted mm).2.2).imp (fun hab => Nat.ne_of_lt hab)
  -- the identifier of a dart lies in `M` iff the dart does
  have idM : ∀ (mm : Map Val) (hw : WF 3 mm), (∀ y, y ∈ M → ∀ x, x ∈ g2 mm .face y → x = 0 ∨ x ∈ M) →
      ∀ d, d ≠ 0 → d < mm.n → (cellId mm .face d ∈ M ↔ d ∈ M) := by
    intro mm hw hc d hd0 hd
    have sp := cellId_spec hw (pol := .face) trivial hd0 hd
    obtain ⟨c0, hr⟩ := (mem_orb hw (pol := .face) trivial hd0 hd _).1 sp.1
    constructor
    · intro hc'
      have back := Reach.symm_of_invClosed (g2_null hw .face trivial) (g2_range hw .face trivial)
        (C03_images_inverse_closed hw (pol := .face) trivial) hd c0 hr
      have : d = 0 ∨ d ∈ M := by
        refine reach_closed (S := fun z => z = 0 ∨ z ∈ M) ?_ (Or.inr hc') back
        intro y hy v hv
        rcases hy with rfl | hy
        · exact Or.inl (g2_null hw .face trivial v hv)
        · exact hc y hy v hv
      rcases this with h0 | hM
      · exact absurd h0 hd0
      · exact hM
    · intro hdM
      have : cellId mm .face d = 0 ∨ cellId mm .face d ∈ M := by
        refine reach_closed (S := fun z => z = 0 ∨ z ∈ M) ?_ (Or.inr hdM) hr
        intro y hy v hv
        rcases hy with rfl | hy
        · exact Or.inl (g2_null hw .face trivial v hv)
        · exact hc y hy v hv
      rcases this with h0 | hM
      · exact absurd h0 c0
      · exact hM
  have frame : ∀ d, d ≠ 0 → d < m.n → d ∉ M → cellId m' .face d = cellId m .face d := fun d hd0 hd hdM =>
    (cellId_frame h h' hn (pol := .face) trivial M
      (by intro y hy; simp only [g2]; rw [(hfr y hy).1, (hfr y hy).2]) hcl hcl' hd0 hd hdM).2
  refine length_of_parts (M := M) (nodup m) (nodup m') hS hS' ?_ ?_ ?_ ?_ ?_
  · intro x hx
    rw [C03_iterFaces2_mem h' x, C03_iterFaces2_mem h x]
    constructor
    · rintro ⟨d, hd0, hd, hdu, rfl⟩
      rw [hn] at hd
      have hdM : d ∉ M := fun hh => hx ((idM m' h' hcl' d hd0 (by rw [hn]; exact hd)).2 hh)
      exact ⟨d, hd0, hd, by rw [← hu d hdM]; exact hdu, (frame d hd0 hd hdM).symm⟩
    · rintro ⟨d, hd0, hd, hdu, rfl⟩
      have hdM : d ∉ M := fun hh => hx ((idM m h hcl d hd0 hd).2 hh)
      exact ⟨d, hd0, by rw [hn]; exact hd, by rw [hu d hdM]; exact hdu, frame d hd0 hd hdM⟩
  · intro x hx
    rw [C03_iterFaces2_mem h x, hin]
    constructor
    · rintro ⟨d, hd0, hd, hdu, rfl⟩
      exact ⟨d, (idM m h hcl d hd0 hd).1 hx, hd0, hd, hdu, rfl⟩
    · rintro ⟨d, _, hd0, hd, hdu, rfl⟩
      exact ⟨d, hd0, hd, hdu, rfl⟩
  · intro x hx
    rw [C03_iterFaces2_mem h' x, hin']
    constructor
    · rintro ⟨d, hd0, hd, hdu, rfl⟩
      exact ⟨d, (idM m' h' hcl' d hd0 hd).1 hx, hd0, by rw [← hn]; exact hd, hdu, rfl⟩
    · rintro ⟨d, _, hd0, hd, hdu, rfl⟩
      exact ⟨d, hd0, by rw [hn]; exact hd, hdu, rfl⟩
  · intro x hx
    obtain ⟨d, hdM, hd0, hd, _, rfl⟩ := (hin x).1 hx
    exact (idM m h hcl d hd0 hd).2 hdM
  · intro x hx
    obtain ⟨d, hdM, hd0, hd, _, rfl⟩ := (hin' x).1 hx
    exact (idM m' h' hcl' d hd0 (by rw [hn]; exact hd)).2 hdM

/-- **edge count, generic**: the same with β2 and edge identifiers -/
theorem iterEdges_count {m m' : Map Val} (h : WF 3 m) (h' : WF 3 m') (hn : m'.n = m.n) (M S S' : List Nat)
    (hu : ∀ d, d ∉ M → m'.unused d = m.unused d)
    (hfr : ∀ y, y ∉ M → m'.β 2 y = m.β 2 y)
    (hcl : ∀ y, y ∈ M → ∀ x, x ∈ g2 m .edge y → x = 0 ∨ x ∈ M)
    (hcl' : ∀ y, y ∈ M → ∀ x, x ∈ g2 m' .edge y → x = 0 ∨ x ∈ M)
    (hS : S.Nodup) (hS' : S'.Nodup)
    (hin : ∀ x, x ∈ S ↔ ∃ d, d ∈ M ∧ d ≠ 0 ∧ d < m.n ∧ m.unused d = false ∧ cellId m .edge d = x)
    (hin' : ∀ x, x ∈ S' ↔ ∃ d, d ∈ M ∧ d ≠ 0 ∧ d < m.n ∧ m'.unused d = false ∧ cellId m' .edge d = x) :
    (iterEdges2 m').length + S.length = (iterEdges2 m).length + S'.length := by
  have nodup : ∀ mm : Map Val, (iterEdges2 mm).Nodup := fun mm =>
    ((C03_iter_sorted mm).2.1).imp (fun hab => Nat.ne_of_lt hab)
  -- the identifier of a dart lies in `M` iff the dart does
  have idM : ∀ (mm : Map Val) (hw : WF 3 mm), (∀ y, y ∈ M → ∀ x, x ∈ g2 mm .edge y → x = 0 ∨ x ∈ M) →
      ∀ d, d ≠ 0 → d < mm.n → (cellId mm .edge d ∈ M ↔ d ∈ M) := by
    intro mm hw hc d hd0 hd
    have sp := cellId_spec hw (pol := .edge) trivial hd0 hd
    obtain ⟨c0, hr⟩ := (mem_orb hw (pol := .edge) trivial hd0 hd _).1 sp.1
    constructor
    · intro hc'
      have back := Reach.symm_of_invClosed (g2_null hw .edge trivial) (g2_range hw .edge trivial)
        (C03_images_inverse_closed hw (pol := .edge) trivial) hd c0 hr
      have : d = 0 ∨ d ∈ M := by
        refine reach_closed (S := fun z => z = 0 ∨ z ∈ M) ?_ (Or.inr hc') back
        intro y hy v hv
        rcases hy with rfl | hy
        · exact Or.inl (g2_null hw .edge trivial v hv)
        · exact hc y hy v hv
      rcases this with h0 | hM
      · exact absurd h0 hd0
      · exact hM
    · intro hdM
      have : cellId mm .edge d = 0 ∨ cellId mm .edge d ∈ M := by
        refine reach_closed (S := fun z => z = 0 ∨ z ∈ M) ?_ (Or.inr hdM) hr
        intro y hy v hv
        rcases hy with rfl | hy
        · exact Or.inl (g2_null hw .edge trivial v hv)
        · exact hc y hy v hv
      rcases this with h0 | hM
      · exact absurd h0 c0
      · exact hM
  have frame : ∀ d, d ≠ 0 → d < m.n → d ∉ M → cellId m' .edge d = cellId m .edge d := fun d hd0 hd hdM =>
    (cellId_frame h h' hn (pol := .edge) trivial M
      (by intro y hy; simp only [g2]; rw [hfr y hy]) hcl hcl' hd0 hd hdM).2
  refine length_of_parts (M := M) (nodup m) (nodup m') hS hS' ?_ ?_ ?_ ?_ ?_
  · intro x hx
    rw [C03_iterEdges2_mem h' x, C03_iterEdges2_mem h x]
    constructor
    · rintro ⟨d, hd0, hd, hdu, rfl⟩
      rw [hn] at hd
      have hdM : d ∉ M := fun hh => hx ((idM m' h' hcl' d hd0 (by rw [hn]; exact hd)).2 hh)
      exact ⟨d, hd0, hd, by rw [← hu d hdM]; exact hdu, (frame d hd0 hd hdM).symm⟩
    · rintro ⟨d, hd0, hd, hdu, rfl⟩
      have hdM : d ∉ M := fun hh => hx ((idM m h hcl d hd0 hd).2 hh)
      exact ⟨d, hd0, by rw [hn]; exact hd, by rw [hu d hdM]; exact hdu, frame d hd0 hd hdM⟩
  · intro x hx
    rw [C03_iterEdges2_mem h x, hin]
    constructor
    · rintro ⟨d, hd0, hd, hdu, rfl⟩
      exact ⟨d, (idM m h hcl d hd0 hd).1 hx, hd0, hd, hdu, rfl⟩
    · rintro ⟨d, _, hd0, hd, hdu, rfl⟩
      exact ⟨d, hd0, hd, hdu, rfl⟩
  · intro x hx
    rw [C03_iterEdges2_mem h' x, hin']
    constructor
    · rintro ⟨d, hd0, hd, hdu, rfl⟩
      exact ⟨d, (idM m' h' hcl' d hd0 hd).1 hx, hd0, by rw [← hn]; exact hd, hdu, rfl⟩
    · rintro ⟨d, _, hd0, hd, hdu, rfl⟩
      exact ⟨d, hd0, by rw [hn]; exact hd, hdu, rfl⟩
  · intro x hx
    obtain ⟨d, hdM, hd0, hd, _, rfl⟩ := (hin x).1 hx
    exact (idM m h hcl d hd0 hd).2 hdM
  · intro x hx
    obtain ⟨d, hdM, hd0, hd, _, rfl⟩ := (hin' x).1 hx
    exact (idM m' h' hcl' d hd0 (by rw [hn]; exact hd)).2 hdM

/-- the three darts of a closed β1-triangle have the same face identifier, the smallest of the three -/
theorem faceIds_triangle {m : Map Val} (h : WF 3 m) {x y z : Nat} (hx0 : x ≠ 0) (hx : x < m.n) (hy0 : y ≠ 0) (hz0 : z ≠ 0)
    (h1 : m.β 1 x = y) (h2 : m.β 1 y = z) (h3 : m.β 1 z = x) :
    cellId m .face x = min x (min y z) ∧ cellId m .face y = min x (min y z) ∧ cellId m .face z = min x (min y z) := by
  have hy : y < m.n := by rw [← h1]; exact h.range 1 (by omega) x hx
  have hz : z < m.n := by rw [← h2]; exact h.range 1 (by omega) y hy
  refine ⟨faceId_triangle h hx0 hx hy0 hz0 h1 h2 h3, ?_, ?_⟩
  · rw [faceId_triangle h hy0 hy hz0 hx0 h2 h3 h1]; omega
  · rw [faceId_triangle h hz0 hz hx0 hy0 h3 h1 h2]; omega

/-- a free in-use dart is a face of its own -/
theorem faceId_spare {m : Map Val} (h : WF 3 m) {x : Nat} (sx : Spare m x) : cellId m .face x = x := by
  obtain ⟨_, hin, _⟩ := cell_of_list h (pol := .face) trivial sx.1.1 sx.1.2.1 [x] (by simp [sx.1.1])
    (by intro y hy; simp at hy; subst hy; exact .refl _) (by simp)
    (by intro y hy v hv; simp at hy; subst hy; simp [g2, sx.β 1 (by omega), sx.β 0 (by omega)] at hv; exact Or.inl hv)
  simpa using hin

theorem min3_ne {x y z u v w : Nat} (h1 : x ≠ u) (h2 : x ≠ v) (h3 : x ≠ w) (h4 : y ≠ u) (h5 : y ≠ v) (h6 : y ≠ w)
    (h7 : z ≠ u) (h8 : z ≠ v) (h9 : z ≠ w) : min x (min y z) ≠ min u (min v w) := by omega

theorem min3_ne1 {x y z u : Nat} (h1 : x ≠ u) (h2 : y ≠ u) (h3 : z ≠ u) : min x (min y z) ≠ u := by omega

theorem nodup_pair {a b : Nat} (h : a ≠ b) : [a, b].Nodup := by simp [h]

/-- **C15 (1), faces, swap**: `swap_edge` keeps the number of faces (`iter_faces` has the same length) -/
theorem C15_swap_face_count (cfg : Cfg Val) (m m' : Map Val) (e : Nat) (hwf : WF 3 m) (he : C01.InUse m e)
    (h : run (swapEdge cfg m.n e) m = (.ok (), m'))
    (hb : m.β 0 e ≠ 0) (hd : m.β 0 (m.β 2 e) ≠ 0)
    (hnd : [e, m.β 2 e, m.β 1 e, m.β 0 e, m.β 1 (m.β 2 e), m.β 0 (m.β 2 e)].Nodup) :
    (iterFaces2 m').length = (iterFaces2 m).length := by
  have hn := he.2.1
  obtain ⟨⟨p1, p2, p3⟩, ⟨q1, q2, q3⟩, ⟨r1, r2, r3⟩, ⟨t1, t2, t3⟩, b2, fr, hn', hu⟩ :=
    C15_swap_topology cfg m m' e hwf hn h hb hd hnd
  -- the guards hold (the call succeeded)
  have g := h
  rw [C15_swap_guards cfg m.n e m (fun i d hi hd => (hwf.toSized.okβ i d).2 ⟨hi, hd⟩)
    (fun i d hi hd => hwf.range i hi d hd) hn] at g
  simp only [he.1, if_false] at g
  have r0 : m.β 2 e ≠ 0 := by intro hh; simp [hh] at g
  simp only [r0, if_false] at g
  have gg : ¬ (m.β 1 (m.β 1 e) ≠ m.β 0 e ∨ m.β 1 (m.β 1 (m.β 2 e)) ≠ m.β 0 (m.β 2 e)) := by
    intro hh; simp [hh] at g
  have gl : m.β 1 (m.β 1 e) = m.β 0 e := by
    by_cases hh : m.β 1 (m.β 1 e) = m.β 0 e
    · exact hh
    · exact absurd (Or.inl hh) gg
  have gr : m.β 1 (m.β 1 (m.β 2 e)) = m.β 0 (m.β 2 e) := by
    by_cases hh : m.β 1 (m.β 1 (m.β 2 e)) = m.β 0 (m.β 2 e)
    · exact hh
    · exact absurd (Or.inr hh) gg
  have hr : m.β 2 e < m.n := hwf.range 2 (by omega) e hn
  have a0 : m.β 1 e ≠ 0 := fun hh => hb (by rw [← gl, hh]; exact hwf.null 1 (by omega))
  have c0 : m.β 1 (m.β 2 e) ≠ 0 := fun hh => hd (by rw [← gr, hh]; exact hwf.null 1 (by omega))
  have ha : m.β 1 e < m.n := hwf.range 1 (by omega) e hn
  have hc : m.β 1 (m.β 2 e) < m.n := hwf.range 1 (by omega) _ hr
  have hbn : m.β 0 e < m.n := hwf.range 0 (by omega) e hn
  have hdn : m.β 0 (m.β 2 e) < m.n := hwf.range 0 (by omega) _ hr
  have Lr := live_image hwf (by omega : 2 < 3) hn r0
  have La := live_image hwf (by omega : 1 < 3) hn a0
  have Lb := live_image hwf (by omega : 0 < 3) hn hb
  have Lc := live_image hwf (by omega : 1 < 3) hr c0
  have Ld := live_image hwf (by omega : 0 < 3) hr hd
  have hw' : WF 3 m' := wf_of_run_ok h (C15_swap_preserves_WF cfg m e hwf he ⟨a0, hb⟩ (fun _ => ⟨c0, hd⟩))
  have p3' := hwf.inv10 e hn hb
  have q3' := hwf.inv10 _ hr hd
  have i1 := hwf.inv01 e hn a0
  have i4 := hwf.inv01 _ hr c0
  have i2 : m.β 0 (m.β 0 e) = m.β 1 e := by
    have := hwf.inv01 _ ha (by rw [gl]; exact hb); rw [gl] at this; exact this
  have i5 : m.β 0 (m.β 0 (m.β 2 e)) = m.β 1 (m.β 2 e) := by
    have := hwf.inv01 _ hc (by rw [gr]; exact hd); rw [gr] at this; exact this
  -- identifiers before and after
  obtain ⟨o1, o2, o3⟩ := faceIds_triangle hwf he.1 hn a0 hb rfl gl p3'
  obtain ⟨o4, o5, o6⟩ := faceIds_triangle hwf r0 hr c0 hd rfl gr q3'
  obtain ⟨n1, n2, n3⟩ := faceIds_triangle hw' he.1 (by rw [hn']; exact hn) hd a0 p1 p2 p3
  obtain ⟨n4, n5, n6⟩ := faceIds_triangle hw' r0 (by rw [hn']; exact hr) hb c0 q1 q2 q3
  have hu' : ∀ d, m'.unused d = m.unused d := fun d => by unfold Map.unused; rw [hu]
  have hnd' := hnd
  simp only [List.nodup_cons, List.mem_cons, List.mem_nil_iff, not_or, or_false, List.nodup_nil, and_true] at hnd'
  obtain ⟨⟨d1, d2, d3, d4, d5⟩, ⟨d6, d7, d8, d9⟩, ⟨d10, d11, d12⟩, ⟨d13, d14⟩, d15, _⟩ := hnd'
  have cnt := iterFaces_count hwf hw' hn' [e, m.β 2 e, m.β 1 e, m.β 0 e, m.β 1 (m.β 2 e), m.β 0 (m.β 2 e)]
    [min e (min (m.β 1 e) (m.β 0 e)), min (m.β 2 e) (min (m.β 1 (m.β 2 e)) (m.β 0 (m.β 2 e)))]
    [min e (min (m.β 0 (m.β 2 e)) (m.β 1 e)), min (m.β 2 e) (min (m.β 0 e) (m.β 1 (m.β 2 e)))]
    (fun d _ => hu' d) (fun y hy => ⟨fr 1 y hy, fr 0 y hy⟩) ?_ ?_ ?_ ?_ ?_ ?_
  · simpa using cnt
  · intro y hy v hv
    simp only [List.mem_cons, List.mem_nil_iff, or_false] at hy
    simp only [g2, List.mem_cons, List.mem_nil_iff, or_false] at hv
    rcases hy with rfl | rfl | rfl | rfl | rfl | rfl <;> rcases hv with rfl | rfl <;>
      simp [gl, gr, p3', q3', i1, i2, i4, i5]
  · intro y hy v hv
    simp only [List.mem_cons, List.mem_nil_iff, or_false] at hy
    simp only [g2, List.mem_cons, List.mem_nil_iff, or_false] at hv
    rcases hy with rfl | rfl | rfl | rfl | rfl | rfl <;> rcases hv with rfl | rfl <;>
      simp [p1, p2, p3, q1, q2, q3, r1, r2, r3, t1, t2, t3]
  · exact nodup_pair (min3_ne d1 d4 d5 (Ne.symm d6) d11 d12 (Ne.symm d7) d13 d14)
  · exact nodup_pair (min3_ne d1 d3 d4 (Ne.symm d9) (Ne.symm d14) (Ne.symm d15) (Ne.symm d6) d10 d11)
  · intro x
    simp only [List.mem_cons, List.mem_nil_iff, or_false]
    constructor
    · rintro (rfl | rfl)
      · exact ⟨e, Or.inl rfl, he.1, hn, he.2.2, o1⟩
      · exact ⟨m.β 2 e, Or.inr (Or.inl rfl), r0, hr, Lr.2.2, o4⟩
    · rintro ⟨d, hdM, _, _, _, rfl⟩
      rcases hdM with rfl | rfl | rfl | rfl | rfl | rfl
      · exact Or.inl o1
      · exact Or.inr o4
      · exact Or.inl o2
      · exact Or.inl o3
      · exact Or.inr o5
      · exact Or.inr o6
  · intro x
    simp only [List.mem_cons, List.mem_nil_iff, or_false]
    constructor
    · rintro (rfl | rfl)
      · exact ⟨e, Or.inl rfl, he.1, hn, by rw [hu']; exact he.2.2, n1⟩
      · exact ⟨m.β 2 e, Or.inr (Or.inl rfl), r0, hr, by rw [hu']; exact Lr.2.2, n4⟩
    · rintro ⟨d, hdM, _, _, _, rfl⟩
      rcases hdM with rfl | rfl | rfl | rfl | rfl | rfl
      · exact Or.inl n1
      · exact Or.inr n4
      · exact Or.inl n3
      · exact Or.inr n5
      · exact Or.inr n6
      · exact Or.inl n2

/-- **C15 (1), faces, outer cut**: before the call `iter_faces` counts the triangle and the three spare darts (free darts
    are faces of their own), after it the two new triangles: `#faces' + 2 = #faces`, i.e. the MESH gains one face -/
theorem C15_cutOuter_face_count (cfg : Cfg Val) (m m' : Map Val) (e nd1 nd2 nd3 : Nat) (hwf : WF 3 m) (he : C01.InUse m e)
    (h : run (cutOuterEdge cfg m.n e nd1 nd2 nd3) m = (.ok (), m'))
    (htri : m.β 1 (m.β 1 e) = m.β 0 e) (hb : m.β 0 e ≠ 0)
    (s1 : Spare m nd1) (s2 : Spare m nd2) (s3 : Spare m nd3)
    (hnd : [e, m.β 1 e, m.β 0 e, nd1, nd2, nd3].Nodup) :
    (iterFaces2 m').length + 2 = (iterFaces2 m).length := by
  have hn := he.2.1
  have a0 : m.β 1 e ≠ 0 := fun hh => hb (by rw [← htri, hh]; exact hwf.null 1 (by omega))
  have hnd' := hnd
  simp only [List.nodup_cons, List.mem_cons, List.mem_nil_iff, not_or, or_false, List.nodup_nil, and_true] at hnd'
  obtain ⟨⟨d1, d2, d3, d4, d5⟩, ⟨d6, d7, d8, d9⟩, ⟨d10, d11, d12⟩, ⟨d13, d14⟩, d15, _⟩ := hnd'
  obtain ⟨hw', _⟩ := C15_cutOuter_cells cfg m m' e nd1 nd2 nd3 hwf he h htri hb s1 s2 s3 hnd
  obtain ⟨⟨p1, p2, p3⟩, ⟨q1, q2, q3⟩, ⟨r1, r2, r3⟩, ⟨t1, t2, t3⟩, _, fr, hn', hu⟩ :=
    C15_cutOuter_topology cfg m m' e nd1 nd2 nd3 hwf hn h htri hb hnd
  have ha : m.β 1 e < m.n := hwf.range 1 (by omega) e hn
  have La := live_image hwf (by omega : 1 < 3) hn a0
  have Lb := live_image hwf (by omega : 0 < 3) hn hb
  have p3' := hwf.inv10 e hn hb
  have i1 := hwf.inv01 e hn a0
  have i2 : m.β 0 (m.β 0 e) = m.β 1 e := by
    have := hwf.inv01 _ ha (by rw [htri]; exact hb); rw [htri] at this; exact this
  obtain ⟨o1, o2, o3⟩ := faceIds_triangle hwf he.1 hn a0 hb rfl htri p3'
  obtain ⟨n1, n2, n3⟩ := faceIds_triangle hw' he.1 (by rw [hn']; exact hn) s1.1.1 hb p1 p2 p3
  obtain ⟨n4, n5, n6⟩ := faceIds_triangle hw' s3.1.1 (by rw [hn']; exact s3.1.2.1) a0 s2.1.1 q1 q2 q3
  have hu' : ∀ d, m'.unused d = m.unused d := fun d => by unfold Map.unused; rw [hu]
  have cnt := iterFaces_count hwf hw' hn' [e, m.β 1 e, m.β 0 e, nd1, nd2, nd3]
    [min e (min (m.β 1 e) (m.β 0 e)), nd1, nd2, nd3]
    [min e (min nd1 (m.β 0 e)), min nd3 (min (m.β 1 e) nd2)]
    (fun d _ => hu' d) (fun y hy => ⟨fr 1 y hy, fr 0 y hy⟩) ?_ ?_ ?_ ?_ ?_ ?_
  · simp at cnt; omega
  · intro y hy v hv
    simp only [List.mem_cons, List.mem_nil_iff, or_false] at hy
    simp only [g2, List.mem_cons, List.mem_nil_iff, or_false] at hv
    rcases hy with rfl | rfl | rfl | rfl | rfl | rfl <;> rcases hv with rfl | rfl <;>
      simp [htri, i1, i2, p3', s1.β 1 (by omega), s1.β 0 (by omega), s2.β 1 (by omega), s2.β 0 (by omega),
        s3.β 1 (by omega), s3.β 0 (by omega)]
  · intro y hy v hv
    simp only [List.mem_cons, List.mem_nil_iff, or_false] at hy
    simp only [g2, List.mem_cons, List.mem_nil_iff, or_false] at hv
    rcases hy with rfl | rfl | rfl | rfl | rfl | rfl <;> rcases hv with rfl | rfl <;>
      simp [p1, p2, p3, q1, q2, q3, r1, r2, r3, t1, t2, t3]
  · have k1 := min3_ne1 d3 d7 d10
    have k2 := min3_ne1 d4 d8 d11
    have k3 := min3_ne1 d5 d9 d12
    simp [k1, k2, k3, d13, d14, d15]
  · exact nodup_pair (min3_ne d5 d1 d4 d14 (Ne.symm d7) d13 d12 (Ne.symm d6) d11)
  · intro x
    simp only [List.mem_cons, List.mem_nil_iff, or_false]
    constructor
    · rintro (rfl | rfl | rfl | rfl)
      · exact ⟨e, Or.inl rfl, he.1, hn, he.2.2, o1⟩
      · exact ⟨_, by simp, s1.1.1, s1.1.2.1, s1.1.2.2, faceId_spare hwf s1⟩
      · exact ⟨_, by simp, s2.1.1, s2.1.2.1, s2.1.2.2, faceId_spare hwf s2⟩
      · exact ⟨_, by simp, s3.1.1, s3.1.2.1, s3.1.2.2, faceId_spare hwf s3⟩
    · rintro ⟨d, hdM, _, _, _, rfl⟩
      rcases hdM with rfl | rfl | rfl | rfl | rfl | rfl
      · exact Or.inl o1
      · exact Or.inl o2
      · exact Or.inl o3
      · exact Or.inr (Or.inl (faceId_spare hwf s1))
      · exact Or.inr (Or.inr (Or.inl (faceId_spare hwf s2)))
      · exact Or.inr (Or.inr (Or.inr (faceId_spare hwf s3)))
  · intro x
    simp only [List.mem_cons, List.mem_nil_iff, or_false]
    constructor
    · rintro (rfl | rfl)
      · exact ⟨e, Or.inl rfl, he.1, hn, by rw [hu']; exact he.2.2, n1⟩
      · exact ⟨nd3, by simp, s3.1.1, s3.1.2.1, by rw [hu']; exact s3.1.2.2, n4⟩
    · rintro ⟨d, hdM, _, _, _, rfl⟩
      rcases hdM with rfl | rfl | rfl | rfl | rfl | rfl
      · exact Or.inl n1
      · exact Or.inr n5
      · exact Or.inl n3
      · exact Or.inl n2
      · exact Or.inr n6
      · exact Or.inr n4

/-- **C15 (1), faces, interior midpoint collapse**: the two triangles disappear, `#faces' + 2 = #faces` -/
theorem C15_collapse_midpoint_face_count (cfg : Cfg Val) (m m' : Map Val) (e v : Nat) (hwf : WF 3 m) (he : C01.InUse m e)
    (hreg : regd cfg stVA = false)
    (h : run (collapseEdge cfg m.n e) m = (.ok v, m'))
    (hr0 : m.β 2 e ≠ 0) (hb : m.β 0 e ≠ 0) (hd : m.β 0 (m.β 2 e) ≠ 0)
    (hx : m.β 2 (m.β 1 e) ≠ 0 ∧ m.β 2 (m.β 0 e) ≠ 0 ∧ m.β 2 (m.β 1 (m.β 2 e)) ≠ 0 ∧ m.β 2 (m.β 0 (m.β 2 e)) ≠ 0)
    (hnd : [e, m.β 2 e, m.β 1 e, m.β 0 e, m.β 1 (m.β 2 e), m.β 0 (m.β 2 e), m.β 2 (m.β 1 e), m.β 2 (m.β 0 e),
      m.β 2 (m.β 1 (m.β 2 e)), m.β 2 (m.β 0 (m.β 2 e))].Nodup) :
    (iterFaces2 m').length + 2 = (iterFaces2 m).length := by
  have hn := he.2.1
  obtain ⟨hw', fl, _, _, _, f01, hn', hu⟩ := C15_collapse_midpoint_interior cfg m m' e v hwf he hreg h hr0 hb hd hx hnd
  -- the guards hold
  have g := h
  rw [C15_collapse_guards cfg m.n e m (fun i d hi hd => (hwf.toSized.okβ i d).2 ⟨hi, hd⟩)
    (fun i d hi hd => hwf.range i hi d hd) hn] at g
  simp only [he.1, if_false] at g
  have gl : m.β 1 (m.β 1 e) = m.β 0 e := by
    by_cases hh : m.β 1 (m.β 1 e) = m.β 0 e
    · exact hh
    · simp [hh] at g
  simp only [gl, ne_eq, not_true_eq_false, if_false] at g
  have gr : m.β 1 (m.β 1 (m.β 2 e)) = m.β 0 (m.β 2 e) := by
    by_cases hh : m.β 1 (m.β 1 (m.β 2 e)) = m.β 0 (m.β 2 e)
    · exact hh
    · simp [hh, hr0] at g
  have hr : m.β 2 e < m.n := hwf.range 2 (by omega) e hn
  have a0 : m.β 1 e ≠ 0 := fun hh => hb (by rw [← gl, hh]; exact hwf.null 1 (by omega))
  have c0 : m.β 1 (m.β 2 e) ≠ 0 := fun hh => hd (by rw [← gr, hh]; exact hwf.null 1 (by omega))
  have ha : m.β 1 e < m.n := hwf.range 1 (by omega) e hn
  have hc : m.β 1 (m.β 2 e) < m.n := hwf.range 1 (by omega) _ hr
  have Lr := live_image hwf (by omega : 2 < 3) hn hr0
  have p3' := hwf.inv10 e hn hb
  have q3' := hwf.inv10 _ hr hd
  have i1 := hwf.inv01 e hn a0
  have i4 := hwf.inv01 _ hr c0
  have i2 : m.β 0 (m.β 0 e) = m.β 1 e := by
    have := hwf.inv01 _ ha (by rw [gl]; exact hb); rw [gl] at this; exact this
  have i5 : m.β 0 (m.β 0 (m.β 2 e)) = m.β 1 (m.β 2 e) := by
    have := hwf.inv01 _ hc (by rw [gr]; exact hd); rw [gr] at this; exact this
  obtain ⟨o1, o2, o3⟩ := faceIds_triangle hwf he.1 hn a0 hb rfl gl p3'
  obtain ⟨o4, o5, o6⟩ := faceIds_triangle hwf hr0 hr c0 hd rfl gr q3'
  have hnd6 : [e, m.β 2 e, m.β 1 e, m.β 0 e, m.β 1 (m.β 2 e), m.β 0 (m.β 2 e)].Nodup := by
    have := hnd
    simp only [List.nodup_cons, List.mem_cons, List.mem_nil_iff, not_or, or_false, List.nodup_nil, and_true] at this ⊢
    obtain ⟨⟨a1, a2, a3, a4, a5, _⟩, ⟨b1, b2, b3, b4, _⟩, ⟨c1, c2, c3, _⟩, ⟨e1, e2, _⟩, ⟨f1, _⟩, _⟩ := this
    exact ⟨⟨a1, a2, a3, a4, a5⟩, ⟨b1, b2, b3, b4⟩, ⟨c1, c2, c3⟩, ⟨e1, e2⟩, f1, by simp⟩
  have hnd' := hnd6
  simp only [List.nodup_cons, List.mem_cons, List.mem_nil_iff, not_or, or_false, List.nodup_nil, and_true] at hnd'
  obtain ⟨⟨d1, d2, d3, d4, d5⟩, ⟨d6, d7, d8, d9⟩, ⟨d10, d11, d12⟩, ⟨d13, d14⟩, d15, _⟩ := hnd'
  have cnt := iterFaces_count hwf hw' hn' [e, m.β 2 e, m.β 1 e, m.β 0 e, m.β 1 (m.β 2 e), m.β 0 (m.β 2 e)]
    [min e (min (m.β 1 e) (m.β 0 e)), min (m.β 2 e) (min (m.β 1 (m.β 2 e)) (m.β 0 (m.β 2 e)))] []
    hu (fun y hy => ⟨(f01 y hy).2, (f01 y hy).1⟩) ?_ ?_ ?_ ?_ ?_ ?_
  · simpa using cnt
  · intro y hy v hv
    simp only [List.mem_cons, List.mem_nil_iff, or_false] at hy
    simp only [g2, List.mem_cons, List.mem_nil_iff, or_false] at hv
    rcases hy with rfl | rfl | rfl | rfl | rfl | rfl <;> rcases hv with rfl | rfl <;>
      simp [gl, gr, p3', q3', i1, i2, i4, i5]
  · intro y hy v hv
    simp only [g2, List.mem_cons, List.mem_nil_iff, or_false] at hv
    have z := (fl y hy).2
    rcases hv with rfl | rfl
    · exact Or.inl (z 1 (by omega))
    · exact Or.inl (z 0 (by omega))
  · exact nodup_pair (min3_ne d1 d4 d5 (Ne.symm d6) d11 d12 (Ne.symm d7) d13 d14)
  · simp
  · intro x
    simp only [List.mem_cons, List.mem_nil_iff, or_false]
    constructor
    · rintro (rfl | rfl)
      · exact ⟨e, Or.inl rfl, he.1, hn, he.2.2, o1⟩
      · exact ⟨m.β 2 e, Or.inr (Or.inl rfl), hr0, hr, Lr.2.2, o4⟩
    · rintro ⟨d, hdM, _, _, _, rfl⟩
      rcases hdM with rfl | rfl | rfl | rfl | rfl | rfl
      · exact Or.inl o1
      · exact Or.inr o4
      · exact Or.inl o2
      · exact Or.inl o3
      · exact Or.inr o5
      · exact Or.inr o6
  · intro x
    simp only [List.not_mem_nil, false_iff, not_exists, not_and]
    intro d hdM _ _ hdu
    have := (fl d hdM).1
    rw [this] at hdu
    exact absurd hdu (by simp)

/-- **C15 (2), inner cut, the faces**: the result is well formed; the four new triangles `e → n1 → b`, `n3 → a → n2`,
    `r → n4 → d`, `n6 → c → n5` are faces with the smallest of their three darts as identifier; every dart outside the
    twelve keeps its face (same darts, same identifier); before the call `iter_faces` counts the two triangles and the six
    spare darts, after it the four new triangles: `#faces' + 4 = #faces`, i.e. the MESH gains two faces -/
theorem C15_cutInner_faces (cfg : Cfg Val) (m m' : Map Val) (e n1 n2 n3 n4 n5 n6 : Nat) (hwf : WF 3 m)
    (he : C01.InUse m e)
    (h : run (cutInnerEdge cfg m.n e n1 n2 n3 n4 n5 n6) m = (.ok (), m'))
    (hr0 : m.β 2 e ≠ 0)
    (htl : m.β 1 (m.β 1 e) = m.β 0 e) (hb : m.β 0 e ≠ 0)
    (htr : m.β 1 (m.β 1 (m.β 2 e)) = m.β 0 (m.β 2 e)) (hd : m.β 0 (m.β 2 e) ≠ 0)
    (hs : ∀ x, x ∈ [n1, n2, n3, n4, n5, n6] → Spare m x)
    (hnd : [e, m.β 2 e, m.β 1 e, m.β 0 e, m.β 1 (m.β 2 e), m.β 0 (m.β 2 e), n1, n2, n3, n4, n5, n6].Nodup) :
    WF 3 m' ∧
    (cellId m' .face e = min e (min n1 (m.β 0 e)) ∧ cellId m' .face n3 = min n3 (min (m.β 1 e) n2) ∧
      cellId m' .face (m.β 2 e) = min (m.β 2 e) (min n4 (m.β 0 (m.β 2 e))) ∧
      cellId m' .face n6 = min n6 (min (m.β 1 (m.β 2 e)) n5)) ∧
    (cellId m' .face n1 = cellId m' .face e ∧ cellId m' .face (m.β 0 e) = cellId m' .face e ∧
      cellId m' .face (m.β 1 e) = cellId m' .face n3 ∧ cellId m' .face n2 = cellId m' .face n3 ∧
      cellId m' .face n4 = cellId m' .face (m.β 2 e) ∧ cellId m' .face (m.β 0 (m.β 2 e)) = cellId m' .face (m.β 2 e) ∧
      cellId m' .face (m.β 1 (m.β 2 e)) = cellId m' .face n6 ∧ cellId m' .face n5 = cellId m' .face n6) ∧
    (∀ d, d ≠ 0 → d < m.n →
      d ∉ [e, m.β 2 e, m.β 1 e, m.β 0 e, m.β 1 (m.β 2 e), m.β 0 (m.β 2 e), n1, n2, n3, n4, n5, n6] →
      (∀ x, x ∈ orb m' .face d ↔ x ∈ orb m .face d) ∧ cellId m' .face d = cellId m .face d) ∧
    (iterFaces2 m').length + 4 = (iterFaces2 m).length := by
  have hn := he.2.1
  have hr : m.β 2 e < m.n := hwf.range 2 (by omega) e hn
  have a0 : m.β 1 e ≠ 0 := fun hh => hb (by rw [← htl, hh]; exact hwf.null 1 (by omega))
  have c0 : m.β 1 (m.β 2 e) ≠ 0 := fun hh => hd (by rw [← htr, hh]; exact hwf.null 1 (by omega))
  have ha : m.β 1 e < m.n := hwf.range 1 (by omega) e hn
  have hc : m.β 1 (m.β 2 e) < m.n := hwf.range 1 (by omega) _ hr
  have Lr := live_image hwf (by omega : 2 < 3) hn hr0
  have hnd' := hnd
  simp only [List.nodup_cons, List.mem_cons, List.mem_nil_iff, not_or, or_false, List.nodup_nil, and_true] at hnd'
  obtain ⟨⟨q1, q2, q3, q4, q5, q6, q7, q8, q9, q10, q11⟩, ⟨q12, q13, q14, q15, q16, q17, q18, q19, q20, q21⟩, ⟨q22, q23, q24, q25, q26, q27, q28, q29, q30⟩, ⟨q31, q32, q33, q34, q35, q36, q37, q38⟩, ⟨q39, q40, q41, q42, q43, q44, q45⟩, ⟨q46, q47, q48, q49, q50, q51⟩, ⟨q52, q53, q54, q55, q56⟩, ⟨q57, q58, q59, q60⟩, ⟨q61, q62, q63⟩, ⟨q64, q65⟩, q66, _⟩ := hnd'
  have s1 := hs n1 (by simp); have s2 := hs n2 (by simp); have s3 := hs n3 (by simp)
  have s4 := hs n4 (by simp); have s5 := hs n5 (by simp); have s6 := hs n6 (by simp)
  have hw' : WF 3 m' := wf_of_run_ok h
    (C15_cutInner_preserves_WF cfg m e n1 n2 n3 n4 n5 n6 hwf he hr0 ⟨a0, hb⟩ ⟨c0, hd⟩ hs q52 q64)
  obtain ⟨⟨⟨p1, p2, p3⟩, ⟨p4, p5, p6⟩, ⟨p7, p8, p9⟩, ⟨p10, p11, p12⟩⟩,
    ⟨⟨r1, r2, r3⟩, ⟨r4, r5, r6⟩, ⟨r7, r8, r9⟩, ⟨r10, r11, r12⟩⟩, _, fr, hn', hu⟩ :=
    C15_cutInner_topology cfg m m' e n1 n2 n3 n4 n5 n6 hwf hn h hr0 htl hb htr hd hnd
  have p3' := hwf.inv10 e hn hb
  have q3' := hwf.inv10 _ hr hd
  have i1 := hwf.inv01 e hn a0
  have i4 := hwf.inv01 _ hr c0
  have i2 : m.β 0 (m.β 0 e) = m.β 1 e := by
    have := hwf.inv01 _ ha (by rw [htl]; exact hb); rw [htl] at this; exact this
  have i5 : m.β 0 (m.β 0 (m.β 2 e)) = m.β 1 (m.β 2 e) := by
    have := hwf.inv01 _ hc (by rw [htr]; exact hd); rw [htr] at this; exact this
  obtain ⟨o1, o2, o3⟩ := faceIds_triangle hwf he.1 hn a0 hb rfl htl p3'
  obtain ⟨o4, o5, o6⟩ := faceIds_triangle hwf hr0 hr c0 hd rfl htr q3'
  obtain ⟨w1, w2, w3⟩ := faceIds_triangle hw' he.1 (by rw [hn']; exact hn) s1.1.1 hb p1 p2 p3
  obtain ⟨w4, w5, w6⟩ := faceIds_triangle hw' s3.1.1 (by rw [hn']; exact s3.1.2.1) a0 s2.1.1 p4 p5 p6
  obtain ⟨w7, w8, w9⟩ := faceIds_triangle hw' hr0 (by rw [hn']; exact hr) s4.1.1 hd p7 p8 p9
  obtain ⟨w10, w11, w12⟩ := faceIds_triangle hw' s6.1.1 (by rw [hn']; exact s6.1.2.1) c0 s5.1.1 p10 p11 p12
  have hu' : ∀ d, m'.unused d = m.unused d := fun d => by unfold Map.unused; rw [hu]
  have hcl : ∀ y, y ∈ [e, m.β 2 e, m.β 1 e, m.β 0 e, m.β 1 (m.β 2 e), m.β 0 (m.β 2 e), n1, n2, n3, n4, n5, n6] →
      ∀ x, x ∈ g2 m .face y →
        x = 0 ∨ x ∈ [e, m.β 2 e, m.β 1 e, m.β 0 e, m.β 1 (m.β 2 e), m.β 0 (m.β 2 e), n1, n2, n3, n4, n5, n6] := by
    intro y hy v hv
    simp only [List.mem_cons, List.mem_nil_iff, or_false] at hy
    simp only [g2, List.mem_cons, List.mem_nil_iff, or_false] at hv
    rcases hy with rfl | rfl | rfl | rfl | rfl | rfl | rfl | rfl | rfl | rfl | rfl | rfl <;> rcases hv with rfl | rfl <;>
      simp [htl, htr, p3', q3', i1, i2, i4, i5, s1.β 1 (by omega), s1.β 0 (by omega), s2.β 1 (by omega), s2.β 0 (by omega),
        s3.β 1 (by omega), s3.β 0 (by omega), s4.β 1 (by omega), s4.β 0 (by omega), s5.β 1 (by omega), s5.β 0 (by omega),
        s6.β 1 (by omega), s6.β 0 (by omega)]
  have hcl' : ∀ y, y ∈ [e, m.β 2 e, m.β 1 e, m.β 0 e, m.β 1 (m.β 2 e), m.β 0 (m.β 2 e), n1, n2, n3, n4, n5, n6] →
      ∀ x, x ∈ g2 m' .face y →
        x = 0 ∨ x ∈ [e, m.β 2 e, m.β 1 e, m.β 0 e, m.β 1 (m.β 2 e), m.β 0 (m.β 2 e), n1, n2, n3, n4, n5, n6] := by
    intro y hy v hv
    simp only [List.mem_cons, List.mem_nil_iff, or_false] at hy
    simp only [g2, List.mem_cons, List.mem_nil_iff, or_false] at hv
    rcases hy with rfl | rfl | rfl | rfl | rfl | rfl | rfl | rfl | rfl | rfl | rfl | rfl <;> rcases hv with rfl | rfl <;>
      simp [p1, p2, p3, p4, p5, p6, p7, p8, p9, p10, p11, p12, r1, r2, r3, r4, r5, r6, r7, r8, r9, r10, r11, r12]
  have cnt := iterFaces_count hwf hw' hn' [e, m.β 2 e, m.β 1 e, m.β 0 e, m.β 1 (m.β 2 e), m.β 0 (m.β 2 e), n1, n2, n3, n4, n5, n6]
    [min (e) (min (m.β 1 e) (m.β 0 e)), min (m.β 2 e) (min (m.β 1 (m.β 2 e)) (m.β 0 (m.β 2 e))), n1, n2, n3, n4, n5, n6]
    [min (e) (min (n1) (m.β 0 e)), min (n3) (min (m.β 1 e) (n2)), min (m.β 2 e) (min (n4) (m.β 0 (m.β 2 e))), min (n6) (min (m.β 1 (m.β 2 e)) (n5))]
    (fun d _ => hu' d) (fun y hy => ⟨fr 1 y hy, fr 0 y hy⟩) hcl hcl' ?_ ?_ ?_ ?_
  · refine ⟨hw', ⟨w1, w4, w7, w10⟩, ⟨w2.trans w1.symm, w3.trans w1.symm, w5.trans w4.symm, w6.trans w4.symm,
      w8.trans w7.symm, w9.trans w7.symm, w11.trans w10.symm, w12.trans w10.symm⟩, ?_, ?_⟩
    · intro d hd0 hdn hdM
      exact cellId_frame hwf hw' hn' (pol := .face) trivial _
        (by intro y hy; simp only [g2]; rw [fr 1 y hy, fr 0 y hy]) hcl hcl' hd0 hdn hdM
    · simp at cnt; omega
  · have a1 := min3_ne q1 q4 q5 (Ne.symm q12) q23 q24 (Ne.symm q13) q31 q32
    have a2 := min3_ne1 q6 q25 q33
    have a3 := min3_ne1 q16 q40 q46
    have a4 := min3_ne1 q7 q26 q34
    have a5 := min3_ne1 q17 q41 q47
    have a6 := min3_ne1 q8 q27 q35
    have a7 := min3_ne1 q18 q42 q48
    have a8 := min3_ne1 q9 q28 q36
    have a9 := min3_ne1 q19 q43 q49
    have a10 := min3_ne1 q10 q29 q37
    have a11 := min3_ne1 q20 q44 q50
    have a12 := min3_ne1 q11 q30 q38
    have a13 := min3_ne1 q21 q45 q51
    simp [a1, a2, a3, a4, a5, a6, a7, a8, a9, a10, a11, a12, a13, q52, q53, q54, q55, q56, q57, q58, q59, q60, q61, q62, q63, q64, q65, q66]
  · have b1 := min3_ne q8 q2 q7 q53 (Ne.symm q25) q52 q35 (Ne.symm q22) q34
    have b2 := min3_ne q1 q9 q5 (Ne.symm q16) q54 (Ne.symm q46) (Ne.symm q13) q36 q32
    have b3 := min3_ne q11 q4 q10 q56 (Ne.symm q40) q55 q38 q31 q37
    have b4 := min3_ne (Ne.symm q18) q61 (Ne.symm q48) (Ne.symm q12) q28 q24 (Ne.symm q17) q58 (Ne.symm q47)
    have b5 := min3_ne q63 (Ne.symm q42) q62 q30 q23 q29 q60 (Ne.symm q41) q59
    have b6 := min3_ne q21 q14 q20 q65 (Ne.symm q43) q64 q51 (Ne.symm q39) q50
    simp [b1, b2, b3, b4, b5, b6]
  · intro x
    simp only [List.mem_cons, List.mem_nil_iff, or_false]
    constructor
    · rintro (rfl | rfl | rfl | rfl | rfl | rfl | rfl | rfl)
      · exact ⟨e, by simp, he.1, hn, he.2.2, o1⟩
      · exact ⟨m.β 2 e, by simp, hr0, hr, Lr.2.2, o4⟩
      · exact ⟨_, by simp, s1.1.1, s1.1.2.1, s1.1.2.2, faceId_spare hwf s1⟩
      · exact ⟨_, by simp, s2.1.1, s2.1.2.1, s2.1.2.2, faceId_spare hwf s2⟩
      · exact ⟨_, by simp, s3.1.1, s3.1.2.1, s3.1.2.2, faceId_spare hwf s3⟩
      · exact ⟨_, by simp, s4.1.1, s4.1.2.1, s4.1.2.2, faceId_spare hwf s4⟩
      · exact ⟨_, by simp, s5.1.1, s5.1.2.1, s5.1.2.2, faceId_spare hwf s5⟩
      · exact ⟨_, by simp, s6.1.1, s6.1.2.1, s6.1.2.2, faceId_spare hwf s6⟩
    · rintro ⟨d, hdM, _, _, _, rfl⟩
      rcases hdM with rfl | rfl | rfl | rfl | rfl | rfl | rfl | rfl | rfl | rfl | rfl | rfl
      · exact Or.inl o1
      · exact Or.inr (Or.inl o4)
      · exact Or.inl o2
      · exact Or.inl o3
      · exact Or.inr (Or.inl o5)
      · exact Or.inr (Or.inl o6)
      · exact Or.inr (Or.inr (Or.inl (faceId_spare hwf s1)))
      · exact Or.inr (Or.inr (Or.inr (Or.inl (faceId_spare hwf s2))))
      · exact Or.inr (Or.inr (Or.inr (Or.inr (Or.inl (faceId_spare hwf s3)))))
      · exact Or.inr (Or.inr (Or.inr (Or.inr (Or.inr (Or.inl (faceId_spare hwf s4))))))
      · exact Or.inr (Or.inr (Or.inr (Or.inr (Or.inr (Or.inr (Or.inl (faceId_spare hwf s5)))))))
      · exact Or.inr (Or.inr (Or.inr (Or.inr (Or.inr (Or.inr (Or.inr (faceId_spare hwf s6)))))))
  · intro x
    simp only [List.mem_cons, List.mem_nil_iff, or_false]
    constructor
    · rintro (rfl | rfl | rfl | rfl)
      · exact ⟨e, by simp, he.1, hn, by rw [hu']; exact he.2.2, w1⟩
      · exact ⟨n3, by simp, s3.1.1, s3.1.2.1, by rw [hu']; exact s3.1.2.2, w4⟩
      · exact ⟨m.β 2 e, by simp, hr0, hr, by rw [hu']; exact Lr.2.2, w7⟩
      · exact ⟨n6, by simp, s6.1.1, s6.1.2.1, by rw [hu']; exact s6.1.2.2, w10⟩
    · rintro ⟨d, hdM, _, _, _, rfl⟩
      rcases hdM with rfl | rfl | rfl | rfl | rfl | rfl | rfl | rfl | rfl | rfl | rfl | rfl
      · exact Or.inl w1
      · exact Or.inr (Or.inr (Or.inl w7))
      · exact Or.inr (Or.inl w5)
      · exact Or.inl w3
      · exact Or.inr (Or.inr (Or.inr w11))
      · exact Or.inr (Or.inr (Or.inl w9))
      · exact Or.inl w2
      · exact Or.inr (Or.inl w6)
      · exact Or.inr (Or.inl w4)
      · exact Or.inr (Or.inr (Or.inl w8))
      · exact Or.inr (Or.inr (Or.inr w12))
      · exact Or.inr (Or.inr (Or.inr w10))

/-- the edge identifier is `d` or `min(β2 d, d)` -/
theorem edgeId_eq {m : Map Val} (h : WF 3 m) {d : Nat} (hd0 : d ≠ 0) (hd : d < m.n) :
    cellId m .edge d = (if m.β 2 d = 0 then d else min (m.β 2 d) d) := (C03_edgeId2_min h hd0 hd).2.2.2

/-- **C15 (1), edges, swap**: same β2, same flags: `iter_edges` has the same length -/
theorem C15_swap_edge_count (cfg : Cfg Val) (m m' : Map Val) (e : Nat) (hwf : WF 3 m) (he : C01.InUse m e)
    (h : run (swapEdge cfg m.n e) m = (.ok (), m'))
    (hl : m.β 1 e ≠ 0 ∧ m.β 0 e ≠ 0) (hr : m.β 2 e ≠ 0 → m.β 1 (m.β 2 e) ≠ 0 ∧ m.β 0 (m.β 2 e) ≠ 0)
    (hb2 : ∀ x, m'.β 2 x = m.β 2 x) (hn' : m'.n = m.n) (hu : m'.u = m.u) :
    (iterEdges2 m').length = (iterEdges2 m).length := by
  have hw' : WF 3 m' := wf_of_run_ok h (C15_swap_preserves_WF cfg m e hwf he hl hr)
  have cnt := iterEdges_count hwf hw' hn' [] [] [] (fun d _ => by unfold Map.unused; rw [hu]) (fun y _ => hb2 y)
    (by simp) (by simp) (by simp) (by simp) (by simp) (by simp)
  simpa using cnt

theorem min2_ne {x y u v : Nat} (h1 : x ≠ u) (h2 : x ≠ v) (h3 : y ≠ u) (h4 : y ≠ v) : min x y ≠ min u v := by omega
theorem min2_ne1 {x y u : Nat} (h1 : x ≠ u) (h2 : y ≠ u) : min x y ≠ u := by omega

/-- **C15 (1), edges, outer cut**: before the call `iter_edges` counts the spare darts `nd1`, `nd2` as two edges, after it
    they form one; every other edge (the two halves `e`, `nd3` of the cut edge included) is counted as before:
    `#edges' + 1 = #edges` — the MESH (three spare darts = three edges before) gains two edges -/
theorem C15_cutOuter_edge_count (cfg : Cfg Val) (m m' : Map Val) (e nd1 nd2 nd3 : Nat) (hwf : WF 3 m) (he : C01.InUse m e)
    (h : run (cutOuterEdge cfg m.n e nd1 nd2 nd3) m = (.ok (), m'))
    (htri : m.β 1 (m.β 1 e) = m.β 0 e) (hb : m.β 0 e ≠ 0)
    (s1 : Spare m nd1) (s2 : Spare m nd2) (s3 : Spare m nd3)
    (hnd : [e, m.β 1 e, m.β 0 e, nd1, nd2, nd3].Nodup) :
    (iterEdges2 m').length + 1 = (iterEdges2 m).length := by
  have hn := he.2.1
  have hnd' := hnd
  simp only [List.nodup_cons, List.mem_cons, List.mem_nil_iff, not_or, or_false, List.nodup_nil, and_true] at hnd'
  obtain ⟨⟨d1, d2, d3, d4, d5⟩, ⟨d6, d7, d8, d9⟩, ⟨d10, d11, d12⟩, ⟨d13, d14⟩, d15, _⟩ := hnd'
  obtain ⟨hw', _⟩ := C15_cutOuter_cells cfg m m' e nd1 nd2 nd3 hwf he h htri hb s1 s2 s3 hnd
  obtain ⟨_, _, _, _, ⟨u1, u2, u3⟩, _, hn', hu⟩ := C15_cutOuter_topology cfg m m' e nd1 nd2 nd3 hwf hn h htri hb hnd
  have hu' : ∀ d, m'.unused d = m.unused d := fun d => by unfold Map.unused; rw [hu]
  have n1' : nd1 < m'.n := by rw [hn']; exact s1.1.2.1
  have n2' : nd2 < m'.n := by rw [hn']; exact s2.1.2.1
  have cnt := iterEdges_count hwf hw' hn' [nd1, nd2] [nd1, nd2] [min nd1 nd2] (fun d _ => hu' d)
    (fun y hy => by simp only [List.mem_cons, List.mem_nil_iff, not_or, or_false] at hy; exact u3 y hy.1 hy.2)
    ?_ ?_ (nodup_pair d13) (by simp) ?_ ?_
  · simp at cnt; omega
  · intro y hy v hv
    simp only [List.mem_cons, List.mem_nil_iff, or_false] at hy
    simp only [g2, List.mem_cons, List.mem_nil_iff, or_false] at hv
    rcases hy with rfl | rfl <;> subst hv <;> simp [s1.β 2 (by omega), s2.β 2 (by omega)]
  · intro y hy v hv
    simp only [List.mem_cons, List.mem_nil_iff, or_false] at hy
    simp only [g2, List.mem_cons, List.mem_nil_iff, or_false] at hv
    rcases hy with rfl | rfl <;> subst hv <;> simp [u1, u2]
  · intro x
    simp only [List.mem_cons, List.mem_nil_iff, or_false]
    constructor
    · rintro (rfl | rfl)
      · exact ⟨_, Or.inl rfl, s1.1.1, s1.1.2.1, s1.1.2.2, by rw [edgeId_eq hwf s1.1.1 s1.1.2.1, s1.β 2 (by omega)]; simp⟩
      · exact ⟨_, Or.inr rfl, s2.1.1, s2.1.2.1, s2.1.2.2, by rw [edgeId_eq hwf s2.1.1 s2.1.2.1, s2.β 2 (by omega)]; simp⟩
    · rintro ⟨d, hdM, _, _, _, rfl⟩
      rcases hdM with rfl | rfl
      · exact Or.inl (by rw [edgeId_eq hwf s1.1.1 s1.1.2.1, s1.β 2 (by omega)]; simp)
      · exact Or.inr (by rw [edgeId_eq hwf s2.1.1 s2.1.2.1, s2.β 2 (by omega)]; simp)
  · intro x
    simp only [List.mem_cons, List.mem_nil_iff, or_false]
    constructor
    · rintro rfl
      refine ⟨nd1, Or.inl rfl, s1.1.1, s1.1.2.1, by rw [hu']; exact s1.1.2.2, ?_⟩
      rw [edgeId_eq hw' s1.1.1 n1', u1]; simp [s2.1.1]; omega
    · rintro ⟨d, hdM, _, _, _, rfl⟩
      rcases hdM with rfl | rfl
      · rw [edgeId_eq hw' s1.1.1 n1', u1]; simp [s2.1.1]; omega
      · rw [edgeId_eq hw' s2.1.1 n2', u2]; simp [s1.1.1]

/-! ### vertices after a cut: the old vertices keep their old darts, one of them gains a spare dart, one vertex is new -/

/-- two generators related by a projection `π` (identity on the nodes of the first graph that matter): every step of the
    first is a path of the second, every step of the second projects to a path of the first.  Then reachability between
    fixed points of `π` is the same. -/
theorem reach_equiv_of_projection {g g' : Nat → List Nat} (π : Nat → Nat)
    (h0 : ∀ z, z ∈ g 0 → z = 0) (h0' : ∀ z, z ∈ g' 0 → z = 0) (hπ0 : π 0 = 0)
    (fwd : ∀ y, π y = y → ∀ z, z ∈ g y → z ≠ 0 → Reach g' y z ∧ π z = z)
    (bwd : ∀ y z, z ∈ g' y → z ≠ 0 → Reach g (π y) (π z))
    {p q : Nat} (hp : π p = p) (hq0 : q ≠ 0) :
    (Reach g p q → Reach g' p q) ∧ (Reach g' p q → Reach g p (π q)) := by
  constructor
  · intro h
    have : Reach g' p q ∧ π q = q := by
      induction h with
      | refl => exact ⟨.refl _, hp⟩
      | tail hab hc ih =>
          rename_i b c
          by_cases hb0 : b = 0
          · subst hb0; exact absurd (h0 c hc) hq0
          · obtain ⟨r1, fb⟩ := ih hb0
            obtain ⟨r2, fc⟩ := fwd b fb c hc hq0
            exact ⟨r1.trans r2, fc⟩
    exact this.1
  · intro h
    induction h with
    | refl => rw [hp]; exact .refl _
    | tail hab hc ih =>
        rename_i b c
        by_cases hb0 : b = 0
        · subst hb0; exact absurd (h0' c hc) hq0
        · exact (ih hb0).trans (bwd b c hc hq0)

/-- projection of the darts after an outer cut onto the darts before: `nd2` joins the vertex of `b`, `nd3` that of `nd1` -/
def piOuter (b nd1 nd2 nd3 : Nat) (y : Nat) : Nat := if y = nd2 then b else if y = nd3 then nd1 else y

set_option maxHeartbeats 1000000 in
/-- the two step conditions of `reach_equiv_of_projection` for the outer cut, on abstract β functions -/
theorem outer_vertex_steps (f f' : BF) (e a b nd1 nd2 nd3 : Nat)
    (z : ∀ i, f i 0 = 0) (z' : ∀ i, f' i 0 = 0)
    (hd : [e, a, b, nd1, nd2, nd3].Nodup) (n0 : e ≠ 0 ∧ a ≠ 0 ∧ b ≠ 0 ∧ nd1 ≠ 0 ∧ nd2 ≠ 0 ∧ nd3 ≠ 0)
    (fr1 : ∀ i, f i nd1 = 0) (fr2 : ∀ i, f i nd2 = 0) (fr3 : ∀ i, f i nd3 = 0)
    (img : ∀ i y, f i y ≠ nd1 ∧ f i y ≠ nd2 ∧ f i y ≠ nd3)
    (inv2 : ∀ y, f 2 y ≠ 0 → f 2 (f 2 y) = y) (e2 : f 2 e = 0)
    (h1 : f 1 e = a) (h2 : f 1 a = b) (h3 : f 1 b = e) (g1 : f 0 a = e) (g2' : f 0 b = a) (g3 : f 0 e = b)
    (p1 : f' 1 e = nd1) (p2 : f' 1 nd1 = b) (p3 : f' 1 b = e) (q1 : f' 1 nd3 = a) (q2 : f' 1 a = nd2) (q3 : f' 1 nd2 = nd3)
    (r1 : f' 0 nd1 = e) (r2 : f' 0 b = nd1) (r3 : f' 0 e = b) (t1 : f' 0 a = nd3) (t2 : f' 0 nd2 = a) (t3 : f' 0 nd3 = nd2)
    (u1 : f' 2 nd1 = nd2) (u2 : f' 2 nd2 = nd1) (u3 : ∀ x, x ≠ nd1 → x ≠ nd2 → f' 2 x = f 2 x)
    (fr : ∀ i x, x ∉ [e, a, b, nd1, nd2, nd3] → f' i x = f i x) :
    (∀ y, piOuter b nd1 nd2 nd3 y = y → ∀ w, w ∈ vg f y → w ≠ 0 →
      Reach (vg f') y w ∧ piOuter b nd1 nd2 nd3 w = w) ∧
    (∀ y w, w ∈ vg f' y → w ≠ 0 → Reach (vg f) (piOuter b nd1 nd2 nd3 y) (piOuter b nd1 nd2 nd3 w)) := by
  simp only [List.nodup_cons, List.mem_cons, List.mem_nil_iff, not_or, or_false, List.nodup_nil, and_true] at hd
  obtain ⟨⟨d1, d2, d3, d4, d5⟩, ⟨d6, d7, d8, d9⟩, ⟨d10, d11, d12⟩, ⟨d13, d14⟩, d15, _⟩ := hd
  obtain ⟨e0, a0, b0, n10, n20, n30⟩ := n0
  have pif : ∀ i y, piOuter b nd1 nd2 nd3 (f i y) = f i y := by
    intro i y; unfold piOuter; simp [(img i y).2.1, (img i y).2.2]
  have frx : ∀ i x, x ≠ e → x ≠ a → x ≠ b → x ≠ nd1 → x ≠ nd2 → x ≠ nd3 → f' i x = f i x := by
    intro i x x1 x2 x3 x4 x5 x6; exact fr i x (by simp [x1, x2, x3, x4, x5, x6])
  have single : ∀ (g : Nat → List Nat) (y w : Nat), w ∈ g y → Reach g y w := fun g y w h => Reach.single h
  constructor
  · intro y hy w hw hw0
    have y2 : y ≠ nd2 := by intro hh; subst hh; unfold piOuter at hy; simp at hy; exact d11 hy
    have y3 : y ≠ nd3 := by intro hh; subst hh; unfold piOuter at hy; simp [Ne.symm d15] at hy; exact d14 hy
    simp only [vg, List.mem_cons, List.mem_nil_iff, or_false] at hw
    rcases hw with rfl | rfl
    · -- first component: β1 (β2 y)
      refine ⟨?_, pif 1 _⟩
      have w0 : f 2 y ≠ 0 := by intro hh; rw [hh, z 1] at hw0; exact hw0 rfl
      have y1 : y ≠ nd1 := by intro hh; subst hh; exact w0 (fr1 2)
      have we : f 2 y ≠ e := by
        intro hh; have := inv2 y w0; rw [hh, e2] at this; subst this; exact w0 (z 2)
      by_cases wa : f 2 y = a
      · -- through the subdivided edge: y → nd2 → b
        rw [wa, h2]
        refine (single (vg f') y nd2 ?_).trans (single (vg f') nd2 b ?_)
        · simp [vg, u3 y y1 y2, wa, q2]
        · simp [vg, u2, p2]
      · by_cases wb : f 2 y = b
        · rw [wb, h3]
          exact single _ _ _ (by simp [vg, u3 y y1 y2, wb, p3])
        · have := frx 1 (f 2 y) we wa wb (img 2 y).1 (img 2 y).2.1 (img 2 y).2.2
          exact single _ _ _ (by simp [vg, u3 y y1 y2, this])
    · -- second component: β2 (β0 y)
      refine ⟨?_, pif 2 _⟩
      have w0 : f 0 y ≠ 0 := by intro hh; rw [hh, z 2] at hw0; exact hw0 rfl
      have y1 : y ≠ nd1 := by intro hh; subst hh; exact w0 (fr1 0)
      have wn := img 0 y
      by_cases ye : y = e
      · subst ye; exact single _ _ _ (by simp [vg, r3, g3, u3 b (Ne.symm wn.1 |> fun _ => d10) d11])
      · by_cases ya : y = a
        · subst ya; rw [g1, e2] at hw0; exact absurd rfl hw0
        · by_cases yb : y = b
          · subst yb
            rw [g2']
            refine (single (vg f') y nd2 ?_).trans (single (vg f') nd2 (f 2 a) ?_)
            · simp [vg, r2, u1]
            · simp [vg, t2, u3 a d7 d8]
          · have := frx 0 y ye ya yb y1 y2 y3
            exact single _ _ _ (by simp [vg, this, u3 (f 0 y) wn.1 wn.2.1])
  · intro y w hw hw0
    simp only [vg, List.mem_cons, List.mem_nil_iff, or_false] at hw
    by_cases y1 : y = nd1
    · subst y1
      rcases hw with rfl | rfl
      · simp [u1, q3, piOuter, d13, d14, Ne.symm d15]; exact .refl _
      · rw [r1, u3 e d3 d4, e2] at hw0; exact absurd rfl hw0
    by_cases y3 : y = nd3
    · subst y3
      rcases hw with rfl | rfl
      · rw [u3 y (Ne.symm d14) (Ne.symm d15), fr3 2, z' 1] at hw0; exact absurd rfl hw0
      · simp [t3, u2, piOuter, d13, d14, Ne.symm d15, Ne.symm d14]; exact .refl _
    by_cases y2 : y = nd2
    · subst y2
      rcases hw with rfl | rfl
      · simp [u2, p2, piOuter, d11, d12]; exact .refl _
      · simp only [t2, u3 a d7 d8]
        have : piOuter b nd1 y nd3 y = b := by simp [piOuter]
        rw [this, pif 2 a]
        exact single _ _ _ (by simp [vg, g2'])
    have py : piOuter b nd1 nd2 nd3 y = y := by simp [piOuter, y2, y3]
    rw [py]
    rcases hw with rfl | rfl
    · -- first component
      rw [u3 y y1 y2] at hw0 ⊢
      have w0 : f 2 y ≠ 0 := by intro hh; rw [hh, z' 1] at hw0; exact hw0 rfl
      have we : f 2 y ≠ e := by
        intro hh; have := inv2 y w0; rw [hh, e2] at this; subst this; exact w0 (z 2)
      by_cases wa : f 2 y = a
      · rw [wa, q2]
        have : piOuter b nd1 nd2 nd3 nd2 = b := by simp [piOuter]
        rw [this]
        exact single _ _ _ (by simp [vg, wa, h2])
      · by_cases wb : f 2 y = b
        · rw [wb, p3]
          have : piOuter b nd1 nd2 nd3 e = e := by simp [piOuter, d4, d5]
          rw [this]
          exact single _ _ _ (by simp [vg, wb, h3])
        · have := frx 1 (f 2 y) we wa wb (img 2 y).1 (img 2 y).2.1 (img 2 y).2.2
          rw [this, pif 1]
          exact single _ _ _ (by simp [vg])
    · -- second component
      by_cases ye : y = e
      · subst ye
        rw [r3, u3 b d10 d11, pif 2]
        exact single _ _ _ (by simp [vg, g3])
      · by_cases ya : y = a
        · subst ya
          rw [t1, u3 nd3 (Ne.symm d14) (Ne.symm d15), fr3 2] at hw0; exact absurd rfl hw0
        · by_cases yb : y = b
          · subst yb
            simp only [r2, u1]
            have : piOuter y nd1 nd2 nd3 nd2 = y := by simp [piOuter]
            rw [this]
            exact .refl _
          · have hy := frx 0 y ye ya yb y1 y2 y3
            have wn := img 0 y
            rw [hy, u3 (f 0 y) wn.1 wn.2.1, pif 2]
            exact single _ _ _ (by simp [vg])

/-- counting through a bijection on identifiers: `N` (`N'`) are identifiers that only exist before (after); on the others
    `ψ` is injective and onto the others after -/
theorem length_via_bijection {L L' N N' : List Nat} (hL : L.Nodup) (hL' : L'.Nodup) (ψ : Nat → Nat)
    (hN : N.Nodup) (hN' : N'.Nodup) (hNL : ∀ x, x ∈ N → x ∈ L) (hNL' : ∀ x, x ∈ N' → x ∈ L')
    (inj : ∀ a b, a ∈ L → a ∉ N → b ∈ L → b ∉ N → ψ a = ψ b → a = b)
    (img : ∀ y, (y ∈ L' ∧ y ∉ N') ↔ ∃ x, x ∈ L ∧ x ∉ N ∧ ψ x = y) :
    L'.length + N.length = L.length + N'.length := by
  have part : ∀ (K T : List Nat), K.Nodup → T.Nodup → (∀ x, x ∈ T → x ∈ K) →
      K.length = (K.filter (fun x => !decide (x ∈ T))).length + T.length := by
    intro K T hK hT hTK
    have e1 := (List.filter_append_perm (fun x => decide (x ∈ T)) K).length_eq
    rw [List.length_append] at e1
    have : (K.filter (fun x => decide (x ∈ T))).length = T.length := by
      apply List.Perm.length_eq
      rw [List.perm_ext_iff_of_nodup (hK.sublist List.filter_sublist) hT]
      intro x
      simp only [List.mem_filter, decide_eq_true_eq]
      exact ⟨fun h => h.2, fun h => ⟨hTK x h, h⟩⟩
    omega
  have e1 := part L N hL hN hNL
  have e2 := part L' N' hL' hN' hNL'
  have key : (L'.filter (fun x => !decide (x ∈ N'))).length = (L.filter (fun x => !decide (x ∈ N))).length := by
    rw [← List.length_map (as := L.filter (fun x => !decide (x ∈ N))) ψ]
    apply List.Perm.length_eq
    have nd : ((L.filter (fun x => !decide (x ∈ N))).map ψ).Nodup := by
      rw [List.nodup_iff_pairwise_ne, List.pairwise_map]
      have hp := List.nodup_iff_pairwise_ne.1 (hL.sublist (List.filter_sublist (p := fun x => !decide (x ∈ N))))
      refine List.Pairwise.imp_of_mem ?_ hp
      intro a b ha hb hab heq
      simp only [List.mem_filter, Bool.not_eq_true', decide_eq_false_iff_not] at ha hb
      exact hab (inj a b ha.1 ha.2 hb.1 hb.2 heq)
    rw [List.perm_ext_iff_of_nodup (hL'.sublist List.filter_sublist) nd]
    intro y
    simp only [List.mem_filter, Bool.not_eq_true', decide_eq_false_iff_not, List.mem_map]
    rw [img y]
    constructor
    · rintro ⟨x, a, b, c⟩; exact ⟨x, ⟨a, b⟩, c⟩
    · rintro ⟨x, ⟨a, b⟩, c⟩; exact ⟨x, a, b, c⟩
  omega

/-- a dart, its vertex identifier, and the paths between them -/
theorem vid_facts {m : Map Val} (h : WF 3 m) {d : Nat} (hd0 : d ≠ 0) (hd : d < m.n) (hu : m.unused d = false) :
    cellId m .vertex d ≠ 0 ∧ cellId m .vertex d < m.n ∧ m.unused (cellId m .vertex d) = false ∧
    Reach (g2 m .vertex) d (cellId m .vertex d) ∧ Reach (g2 m .vertex) (cellId m .vertex d) d ∧
    cellId m .vertex (cellId m .vertex d) = cellId m .vertex d := by
  obtain ⟨c0, cn, ci⟩ := cellId_idem h (pol := .vertex) trivial hd0 hd
  have sp := cellId_spec h (pol := .vertex) trivial hd0 hd
  have r := ((mem_orb h (pol := .vertex) trivial hd0 hd _).1 sp.1).2
  exact ⟨c0, cn, C03_orbit_of_in_use_is_in_use h (pol := .vertex) trivial hd0 hd hu _ sp.1, r,
    reach_symm h (pol := .vertex) trivial hd c0 r, ci⟩

/-- a spare dart is alone in its vertex -/
theorem spare_isolated {m : Map Val} (h : WF 3 m) {s : Nat} (hs : Spare m s) {x : Nat}
    (hr : Reach (g2 m .vertex) s x) : x = s ∨ x = 0 := by
  refine reach_closed (S := fun z => z = s ∨ z = 0) ?_ (Or.inl rfl) hr
  intro y hy v hv
  rcases hy with rfl | rfl
  · simp only [g2, List.mem_cons, List.mem_nil_iff, or_false] at hv
    rcases hv with rfl | rfl
    · right; rw [hs.β 2 (by omega)]; exact h.null 1 (by omega)
    · right; rw [hs.β 0 (by omega)]; exact h.null 2 (by omega)
  · exact Or.inr (g2_null h .vertex trivial v hv)

/-- **vertex count, generic**: `T` lists spare darts of `m` (each one a vertex of its own for `iter_vertices`); an edit keeps
    `n` and the flags; a projection `π` (identity outside `T`) relates the two vertex graphs as in
    `reach_equiv_of_projection`; every dart of `T` either joins the vertex of the old dart `π t` or lies in one of the new
    vertices listed (by identifier, without repetition) in `N'`.  Then `#iter_vertices' + #T = #iter_vertices + #N'`. -/
theorem iterVertices_count {m m' : Map Val} (h : WF 3 m) (h' : WF 3 m') (hn : m'.n = m.n)
    (hu : ∀ d, m'.unused d = m.unused d) (T N' : List Nat) (π : Nat → Nat)
    (hT : ∀ t, t ∈ T → Spare m t) (hTn : T.Nodup) (hN' : N'.Nodup)
    (hfix : ∀ x, x ∉ T → π x = x)
    (hreach : ∀ p q, π p = p → q ≠ 0 →
      (Reach (g2 m .vertex) p q → Reach (g2 m' .vertex) p q) ∧
      (Reach (g2 m' .vertex) p q → Reach (g2 m .vertex) p (π q)))
    (hπT : ∀ t, t ∈ T →
      (π t ∉ T ∧ π t ≠ 0 ∧ π t < m.n ∧ m.unused (π t) = false ∧ cellId m' .vertex t = cellId m' .vertex (π t)) ∨
      (π t ∈ T ∧ cellId m' .vertex t ∈ N'))
    (hNew : ∀ y, y ∈ N' → ∃ t, t ∈ T ∧ π t ∈ T ∧ y = cellId m' .vertex t) :
    (iterVertices2 m').length + T.length = (iterVertices2 m).length + N'.length := by
  have nodup : ∀ mm : Map Val, (iterVertices2 mm).Nodup := fun mm =>
    ((C03_iter_sorted mm).1).imp (fun hab => Nat.ne_of_lt hab)
  -- an old dart does not reach a spare one in `m`
  have old_ne : ∀ x s, x ∉ T → x ≠ 0 → x < m.n → s ∈ T → Reach (g2 m .vertex) x s → False := by
    intro x s hx hx0 hxn hs hr
    have sp := hT s hs
    have back := reach_symm h (pol := .vertex) trivial hxn sp.1.1 hr
    rcases spare_isolated h sp back with rfl | rfl
    · exact hx hs
    · exact hx0 rfl
  have spare_id : ∀ t, t ∈ T → cellId m .vertex t = t := by
    intro t ht
    have sp := hT t ht
    have f := vid_facts h sp.1.1 sp.1.2.1 sp.1.2.2
    rcases spare_isolated h sp f.2.2.2.1 with e | e
    · exact e
    · exact absurd e f.1
  -- the identifiers of `m` outside `T` are old in-use darts, their own identifiers
  have oldid : ∀ a, a ∈ iterVertices2 m → a ∉ T →
      a ≠ 0 ∧ a < m.n ∧ m.unused a = false ∧ cellId m .vertex a = a := by
    intro a ha _
    obtain ⟨d, hd0, hd, hdu, rfl⟩ := (C03_iterVertices2_mem h a).1 ha
    have f := vid_facts h hd0 hd hdu
    exact ⟨f.1, f.2.1, f.2.2.1, f.2.2.2.2.2⟩
  refine length_via_bijection (nodup m) (nodup m') (fun x => cellId m' .vertex x) hTn hN' ?_ ?_ ?_ ?_
  · intro t ht
    have sp := hT t ht
    exact (C03_iterVertices2_mem h t).2 ⟨t, sp.1.1, sp.1.2.1, sp.1.2.2, spare_id t ht⟩
  · intro y hy
    obtain ⟨t, ht, _, rfl⟩ := hNew y hy
    have sp := hT t ht
    exact (C03_iterVertices2_mem h' _).2 ⟨t, sp.1.1, by rw [hn]; exact sp.1.2.1, by rw [hu]; exact sp.1.2.2, rfl⟩
  · intro a b ha haT hb hbT hab
    obtain ⟨a0, an, _, ai⟩ := oldid a ha haT
    obtain ⟨b0, bn, _, bi⟩ := oldid b hb hbT
    have r' := (C03_same_id_iff_same_cell h' (pol := .vertex) trivial a0 (by rw [hn]; exact an) b0
      (by rw [hn]; exact bn)).1.1 hab
    have r := (hreach a b (hfix a haT) b0).2 r'
    rw [hfix b hbT] at r
    have := (C03_same_id_iff_same_cell h (pol := .vertex) trivial a0 an b0 bn).1.2 r
    rw [ai, bi] at this
    exact this
  · intro y
    constructor
    · rintro ⟨hy, hyN⟩
      obtain ⟨d, hd0, hd, hdu, rfl⟩ := (C03_iterVertices2_mem h' y).1 hy
      rw [hn] at hd
      rw [hu] at hdu
      -- an old dart of the same new vertex
      have : ∃ d0, d0 ∉ T ∧ d0 ≠ 0 ∧ d0 < m.n ∧ m.unused d0 = false ∧
          cellId m' .vertex d0 = cellId m' .vertex d := by
        by_cases hdT : d ∈ T
        · rcases hπT d hdT with ⟨p1, p2, p3, p4, p5⟩ | ⟨_, p2⟩
          · exact ⟨π d, p1, p2, p3, p4, p5.symm⟩
          · exact absurd p2 hyN
        · exact ⟨d, hdT, hd0, hd, hdu, rfl⟩
      obtain ⟨d0, d0T, d00, d0n, d0u, d0e⟩ := this
      have f := vid_facts h d00 d0n d0u
      have xT : cellId m .vertex d0 ∉ T := fun hh => old_ne d0 _ d0T d00 d0n hh f.2.2.2.1
      refine ⟨cellId m .vertex d0, (C03_iterVertices2_mem h _).2 ⟨d0, d00, d0n, d0u, rfl⟩, xT, ?_⟩
      rw [← d0e]
      have r' := (hreach d0 _ (hfix d0 d0T) f.1).1 f.2.2.2.1
      exact ((C03_same_id_iff_same_cell h' (pol := .vertex) trivial d00 (by rw [hn]; exact d0n) f.1
        (by rw [hn]; exact f.2.1)).1.2 r').symm
    · rintro ⟨x, hx, hxT, rfl⟩
      obtain ⟨x0, xn, xu, _⟩ := oldid x hx hxT
      refine ⟨(C03_iterVertices2_mem h' _).2 ⟨x, x0, by rw [hn]; exact xn, by rw [hu]; exact xu, rfl⟩, ?_⟩
      intro hN
      obtain ⟨t, ht, hπt, e⟩ := hNew _ hN
      have sp := hT t ht
      have r' := (C03_same_id_iff_same_cell h' (pol := .vertex) trivial x0 (by rw [hn]; exact xn) sp.1.1
        (by rw [hn]; exact sp.1.2.1)).1.1 e
      have r := (hreach x t (hfix x hxT) sp.1.1).2 r'
      exact old_ne x (π t) hxT x0 xn hπt r

theorem spare_beta {m : Map Val} (h : WF 3 m) {s : Nat} (hs : Spare m s) (i : Nat) : m.β i s = 0 := by
  by_cases hi : i < 3
  · exact hs.β i hi
  · exact beta_oob h (fun hh => hi hh.1)

/-- no dart has a spare dart as an image -/
theorem beta_ne_spare {m : Map Val} (h : WF 3 m) {s : Nat} (hs : Spare m s) (i y : Nat) : m.β i y ≠ s := by
  intro hh
  by_cases ho : i < 3 ∧ y < m.n
  · obtain ⟨hi, hy⟩ := ho
    have s0 := hs.1.1
    -- the image `s` of `y` has `y` as an image, but `s` is free
    have : i = 0 ∨ i = 1 ∨ i = 2 := by omega
    rcases this with rfl | rfl | rfl
    · have := h.inv10 y hy (by rw [hh]; exact s0); rw [hh, hs.β 1 (by omega)] at this
      subst this; rw [h.null 0 (by omega)] at hh; exact s0 hh.symm
    · have := h.inv01 y hy (by rw [hh]; exact s0); rw [hh, hs.β 0 (by omega)] at this
      subst this; rw [h.null 1 (by omega)] at hh; exact s0 hh.symm
    · have := (h.invol 2 (by omega) (by omega) y hy (by rw [hh]; exact s0)).1; rw [hh, hs.β 2 (by omega)] at this
      subst this; rw [h.null 2 (by omega)] at hh; exact s0 hh.symm
  · rw [beta_oob h ho] at hh; exact hs.1.1 hh.symm

/-- the reachability equivalence of `reach_equiv_of_projection`, read on identifiers: outside `T` two darts have the same
    vertex identifier after exactly when they had before -/
theorem partition_kept {m m' : Map Val} (h : WF 3 m) (h' : WF 3 m') (hn : m'.n = m.n) (T : List Nat) (π : Nat → Nat)
    (hfix : ∀ x, x ∉ T → π x = x)
    (hreach : ∀ p q, π p = p → q ≠ 0 →
      (Reach (g2 m .vertex) p q → Reach (g2 m' .vertex) p q) ∧
      (Reach (g2 m' .vertex) p q → Reach (g2 m .vertex) p (π q))) :
    ∀ p q, p ≠ 0 → p < m.n → q ≠ 0 → q < m.n → p ∉ T → q ∉ T →
      (cellId m' .vertex p = cellId m' .vertex q ↔ cellId m .vertex p = cellId m .vertex q) := by
  intro p q p0 pn q0 qn pT qT
  rw [(C03_same_id_iff_same_cell h' (pol := .vertex) trivial p0 (by rw [hn]; exact pn) q0 (by rw [hn]; exact qn)).1,
    (C03_same_id_iff_same_cell h (pol := .vertex) trivial p0 pn q0 qn).1]
  have := hreach p q (hfix p pT) q0
  constructor
  · intro r; have r' := this.2 r; rw [hfix q qT] at r'; exact r'
  · exact this.1

/-- **C15 (1), vertices, outer cut**: `iter_vertices` counted the three spare darts as three vertices; after the call `nd2`
    belongs to the vertex of `β0 e`, `nd1` and `nd3` form the new vertex, and two old darts share a vertex after the call
    exactly when they did before: `#vertices' + 2 = #vertices` — the MESH gains one vertex -/
theorem C15_cutOuter_vertices (cfg : Cfg Val) (m m' : Map Val) (e nd1 nd2 nd3 : Nat) (hwf : WF 3 m) (he : C01.InUse m e)
    (h : run (cutOuterEdge cfg m.n e nd1 nd2 nd3) m = (.ok (), m'))
    (htri : m.β 1 (m.β 1 e) = m.β 0 e) (hb : m.β 0 e ≠ 0) (hout : m.β 2 e = 0)
    (s1 : Spare m nd1) (s2 : Spare m nd2) (s3 : Spare m nd3)
    (hnd : [e, m.β 1 e, m.β 0 e, nd1, nd2, nd3].Nodup) :
    cellId m' .vertex nd1 = min nd1 nd3 ∧ cellId m' .vertex nd3 = cellId m' .vertex nd1 ∧
    cellId m' .vertex nd2 = cellId m' .vertex (m.β 0 e) ∧
    (∀ p q, p ≠ 0 → p < m.n → q ≠ 0 → q < m.n → p ∉ [nd1, nd2, nd3] → q ∉ [nd1, nd2, nd3] →
      (cellId m' .vertex p = cellId m' .vertex q ↔ cellId m .vertex p = cellId m .vertex q)) ∧
    (iterVertices2 m').length + 2 = (iterVertices2 m).length := by
  have hn := he.2.1
  have a0 : m.β 1 e ≠ 0 := fun hh => hb (by rw [← htri, hh]; exact hwf.null 1 (by omega))
  have ha : m.β 1 e < m.n := hwf.range 1 (by omega) e hn
  have hbn : m.β 0 e < m.n := hwf.range 0 (by omega) e hn
  have hnd' := hnd
  simp only [List.nodup_cons, List.mem_cons, List.mem_nil_iff, not_or, or_false, List.nodup_nil, and_true] at hnd'
  obtain ⟨⟨d1, d2, d3, d4, d5⟩, ⟨d6, d7, d8, d9⟩, ⟨d10, d11, d12⟩, ⟨d13, d14⟩, d15, _⟩ := hnd'
  obtain ⟨hw', _, _, _, _, _, hv⟩ := C15_cutOuter_cells cfg m m' e nd1 nd2 nd3 hwf he h htri hb s1 s2 s3 hnd
  obtain ⟨⟨p1, p2, p3⟩, ⟨q1, q2, q3⟩, ⟨r1, r2, r3⟩, ⟨t1, t2, t3⟩, ⟨u1, u2, u3⟩, fr, hn', hu⟩ :=
    C15_cutOuter_topology cfg m m' e nd1 nd2 nd3 hwf hn h htri hb hnd
  have hu' : ∀ d, m'.unused d = m.unused d := fun d => by unfold Map.unused; rw [hu]
  have steps := outer_vertex_steps m.β m'.β e (m.β 1 e) (m.β 0 e) nd1 nd2 nd3 (beta_zero hwf) (beta_zero hw') hnd
    ⟨he.1, a0, hb, s1.1.1, s2.1.1, s3.1.1⟩ (spare_beta hwf s1) (spare_beta hwf s2) (spare_beta hwf s3)
    (fun i y => ⟨beta_ne_spare hwf s1 i y, beta_ne_spare hwf s2 i y, beta_ne_spare hwf s3 i y⟩)
    (fun y hy => by
      by_cases hyn : y < m.n
      · exact (hwf.invol 2 (by omega) (by omega) y hyn hy).1
      · exact absurd (beta_oob hwf (fun hh => hyn hh.2)) hy)
    hout rfl htri (hwf.inv10 e hn hb) (hwf.inv01 e hn a0)
    (by rw [← htri]; exact hwf.inv01 _ ha (by rw [htri]; exact hb)) rfl
    p1 p2 p3 q1 q2 q3 r1 r2 r3 t1 t2 t3 u1 u2 u3 fr
  have hreach := fun p q => reach_equiv_of_projection (g := g2 m .vertex) (g' := g2 m' .vertex)
    (piOuter (m.β 0 e) nd1 nd2 nd3) (g2_null hwf .vertex trivial) (g2_null hw' .vertex trivial)
    (by unfold piOuter; simp [Ne.symm s2.1.1, Ne.symm s3.1.1]) steps.1 steps.2 (p := p) (q := q)
  have n1' : nd1 < m'.n := by rw [hn']; exact s1.1.2.1
  have n2' : nd2 < m'.n := by rw [hn']; exact s2.1.2.1
  have n3' : nd3 < m'.n := by rw [hn']; exact s3.1.2.1
  have c3 : cellId m' .vertex nd3 = cellId m' .vertex nd1 :=
    ((C03_same_id_iff_same_cell hw' (pol := .vertex) trivial s1.1.1 n1' s3.1.1 n3').1.2
      (Reach.single (by simp [g2, u1, q3]))).symm
  have c2 : cellId m' .vertex nd2 = cellId m' .vertex (m.β 0 e) :=
    (C03_same_id_iff_same_cell hw' (pol := .vertex) trivial s2.1.1 n2' hb (by rw [hn']; exact hbn)).1.2
      (Reach.single (by simp [g2, u2, p2]))
  have hfix : ∀ x, x ∉ [nd1, nd2, nd3] → piOuter (m.β 0 e) nd1 nd2 nd3 x = x := by
    intro x hx; simp only [List.mem_cons, List.mem_nil_iff, not_or, or_false] at hx; unfold piOuter; simp [hx.2.1, hx.2.2]
  have cnt := iterVertices_count hwf hw' hn' hu' [nd1, nd2, nd3] [min nd1 nd3] (piOuter (m.β 0 e) nd1 nd2 nd3)
    (by intro t ht; simp only [List.mem_cons, List.mem_nil_iff, or_false] at ht; rcases ht with rfl | rfl | rfl <;> assumption)
    (by simp [d13, d14, d15]) (by simp) hfix
    (fun p q hp hq => hreach p q hp hq) ?_ ?_
  · refine ⟨hv hout, c3, c2, partition_kept hwf hw' hn' _ _ hfix (fun p q hp hq => hreach p q hp hq), ?_⟩
    simp at cnt; omega
  · intro t ht
    simp only [List.mem_cons, List.mem_nil_iff, or_false] at ht
    rcases ht with rfl | rfl | rfl
    · right; unfold piOuter; simp [d13, d14, hv hout]
    · left; unfold piOuter
      simp only [if_true]
      exact ⟨by simp [d10, d11, d12], hb, hbn, by
        cases hx : m.unused (m.β 0 e) with
        | false => rfl
        | true => exact absurd (C01.C01_unused_is_nobodys_image hwf 0 (by omega) e hn hx) hb, c2⟩
    · right; unfold piOuter; simp [Ne.symm d15, c3, hv hout]
  · intro y hy
    simp only [List.mem_cons, List.mem_nil_iff, or_false] at hy
    subst hy
    exact ⟨nd1, by simp, by unfold piOuter; simp [d13, d14], (hv hout).symm⟩

/-! ### the vertex graph through its pairs

Every non-null step of the vertex graph joins `β2 z` and `β1 z` for some dart `z` (the two darts leaving the end of `z`),
in one direction or the other.  Comparing two maps then only needs the pairs of the darts whose images changed. -/

/-- the two step conditions of `reach_equiv_of_projection`, from the pairs -/
theorem vertex_steps_of_pairs {f f' : BF} (hf : BWF f) (hf' : BWF f') (π : Nat → Nat)
    (pif : ∀ i y, π (f i y) = f i y) (πne : ∀ y, y ≠ 0 → π y ≠ 0)
    (P1 : ∀ z, f 2 z ≠ 0 → f 1 z ≠ 0 → Reach (vg f') (f 2 z) (f 1 z))
    (P2 : ∀ z, f' 2 z ≠ 0 → f' 1 z ≠ 0 → Reach (vg f) (π (f' 2 z)) (π (f' 1 z))) :
    (∀ y, π y = y → ∀ w, w ∈ vg f y → w ≠ 0 → Reach (vg f') y w ∧ π w = w) ∧
    (∀ y w, w ∈ vg f' y → w ≠ 0 → Reach (vg f) (π y) (π w)) := by
  constructor
  · intro y _ w hw hw0
    obtain ⟨z, z2, z1, hz⟩ := step_pair hf hw hw0
    rcases hz with ⟨e2, e1⟩ | ⟨e2, e1⟩
    · rw [← e2, ← e1]; exact ⟨P1 z z2 z1, pif 1 z⟩
    · rw [← e2, ← e1]; exact ⟨vg_symm hf' (P1 z z2 z1) z1, pif 2 z⟩
  · intro y w hw hw0
    obtain ⟨z, z2, z1, hz⟩ := step_pair hf' hw hw0
    rcases hz with ⟨e2, e1⟩ | ⟨e2, e1⟩
    · rw [← e2, ← e1]; exact P2 z z2 z1
    · rw [← e2, ← e1]; exact vg_symm hf (P2 z z2 z1) (πne _ z1)

/-- where the darts of the map after an inner cut project to: `n2` to `β0 e`, `n5` to `β0 (β2 e)`, the four darts of the
    new vertex to `n1` -/
def piInner (b d n1 n2 n3 n4 n5 n6 : Nat) (y : Nat) : Nat :=
  if y = n2 then b else if y = n5 then d else if y = n3 ∨ y = n4 ∨ y = n6 then n1 else y

/-- **C15 (1), vertices, inner cut**: `iter_vertices` counted the six spare darts as six vertices; after the call `n2` belongs
    to the vertex of `β0 e`, `n5` to the vertex of `β0 (β2 e)`, the darts `n1, n3, n4, n6` form the new vertex, and two old
    darts share a vertex after the call exactly when they did before: `#vertices' + 5 = #vertices` — the MESH gains one
    vertex -/
theorem C15_cutInner_vertices (cfg : Cfg Val) (m m' : Map Val) (e n1 n2 n3 n4 n5 n6 : Nat) (hwf : WF 3 m)
    (he : C01.InUse m e)
    (h : run (cutInnerEdge cfg m.n e n1 n2 n3 n4 n5 n6) m = (.ok (), m'))
    (hr0 : m.β 2 e ≠ 0)
    (htl : m.β 1 (m.β 1 e) = m.β 0 e) (hb : m.β 0 e ≠ 0)
    (htr : m.β 1 (m.β 1 (m.β 2 e)) = m.β 0 (m.β 2 e)) (hd : m.β 0 (m.β 2 e) ≠ 0)
    (hs : ∀ x, x ∈ [n1, n2, n3, n4, n5, n6] → Spare m x)
    (hnd : [e, m.β 2 e, m.β 1 e, m.β 0 e, m.β 1 (m.β 2 e), m.β 0 (m.β 2 e), n1, n2, n3, n4, n5, n6].Nodup) :
    cellId m' .vertex n1 = min n1 (min n3 (min n4 n6)) ∧
    (cellId m' .vertex n3 = cellId m' .vertex n1 ∧ cellId m' .vertex n4 = cellId m' .vertex n1 ∧
      cellId m' .vertex n6 = cellId m' .vertex n1) ∧
    cellId m' .vertex n2 = cellId m' .vertex (m.β 0 e) ∧ cellId m' .vertex n5 = cellId m' .vertex (m.β 0 (m.β 2 e)) ∧
    (∀ p q, p ≠ 0 → p < m.n → q ≠ 0 → q < m.n → p ∉ [n1, n2, n3, n4, n5, n6] → q ∉ [n1, n2, n3, n4, n5, n6] →
      (cellId m' .vertex p = cellId m' .vertex q ↔ cellId m .vertex p = cellId m .vertex q)) ∧
    (iterVertices2 m').length + 5 = (iterVertices2 m).length ∧
    (∀ x, x ∈ orb m' .vertex n1 ↔ x ∈ [n1, n3, n4, n6]) := by
  have hn := he.2.1
  have hr : m.β 2 e < m.n := hwf.range 2 (by omega) e hn
  have a0 : m.β 1 e ≠ 0 := fun hh => hb (by rw [← htl, hh]; exact hwf.null 1 (by omega))
  have c0 : m.β 1 (m.β 2 e) ≠ 0 := fun hh => hd (by rw [← htr, hh]; exact hwf.null 1 (by omega))
  have hbn : m.β 0 e < m.n := hwf.range 0 (by omega) e hn
  have hdn : m.β 0 (m.β 2 e) < m.n := hwf.range 0 (by omega) _ hr
  have hnd' := hnd
  simp only [List.nodup_cons, List.mem_cons, List.mem_nil_iff, not_or, or_false, List.nodup_nil, and_true] at hnd'
  obtain ⟨⟨q1, q2, q3, q4, q5, q6, q7, q8, q9, q10, q11⟩, ⟨q12, q13, q14, q15, q16, q17, q18, q19, q20, q21⟩, ⟨q22, q23, q24, q25, q26, q27, q28, q29, q30⟩, ⟨q31, q32, q33, q34, q35, q36, q37, q38⟩, ⟨q39, q40, q41, q42, q43, q44, q45⟩, ⟨q46, q47, q48, q49, q50, q51⟩, ⟨q52, q53, q54, q55, q56⟩, ⟨q57, q58, q59, q60⟩, ⟨q61, q62, q63⟩, ⟨q64, q65⟩, q66, _⟩ := hnd'
  have s1 := hs n1 (by simp); have s2 := hs n2 (by simp); have s3 := hs n3 (by simp)
  have s4 := hs n4 (by simp); have s5 := hs n5 (by simp); have s6 := hs n6 (by simp)
  have hw' : WF 3 m' := wf_of_run_ok h
    (C15_cutInner_preserves_WF cfg m e n1 n2 n3 n4 n5 n6 hwf he hr0 ⟨a0, hb⟩ ⟨c0, hd⟩ hs q52 q64)
  obtain ⟨⟨⟨p1, p2, p3⟩, ⟨p4, p5, p6⟩, ⟨p7, p8, p9⟩, ⟨p10, p11, p12⟩⟩,
    ⟨⟨r1, r2, r3⟩, ⟨r4, r5, r6⟩, ⟨r7, r8, r9⟩, ⟨r10, r11, r12⟩⟩,
    ⟨⟨u1, u2⟩, ⟨u3, u4⟩, ⟨u5, u6⟩, ⟨u7, u8⟩, u9⟩, fr, hn', hu⟩ :=
    C15_cutInner_topology cfg m m' e n1 n2 n3 n4 n5 n6 hwf hn h hr0 htl hb htr hd hnd
  have hu' : ∀ d, m'.unused d = m.unused d := fun d => by unfold Map.unused; rw [hu]
  have p3' := hwf.inv10 e hn hb
  have q3' := hwf.inv10 _ hr hd
  have er := (hwf.invol 2 (by omega) (by omega) e hn hr0).1
  have hf := bwf_of_wf hwf
  have hf' := bwf_of_wf hw'
  have ua := u9 (m.β 1 e) (by simp [q1, Ne.symm q1, q2, Ne.symm q2, q3, Ne.symm q3, q4, Ne.symm q4, q5, Ne.symm q5, q6, Ne.symm q6, q7, Ne.symm q7, q8, Ne.symm q8, q9, Ne.symm q9, q10, Ne.symm q10, q11, Ne.symm q11, q12, Ne.symm q12, q13, Ne.symm q13, q14, Ne.symm q14, q15, Ne.symm q15, q16, Ne.symm q16, q17, Ne.symm q17, q18, Ne.symm q18, q19, Ne.symm q19, q20, Ne.symm q20, q21, Ne.symm q21, q22, Ne.symm q22, q23, Ne.symm q23, q24, Ne.symm q24, q25, Ne.symm q25, q26, Ne.symm q26, q27, Ne.symm q27, q28, Ne.symm q28, q29, Ne.symm q29, q30, Ne.symm q30, q31, Ne.symm q31, q32, Ne.symm q32, q33, Ne.symm q33, q34, Ne.symm q34, q35, Ne.symm q35, q36, Ne.symm q36, q37, Ne.symm q37, q38, Ne.symm q38, q39, Ne.symm q39, q40, Ne.symm q40, q41, Ne.symm q41, q42, Ne.symm q42, q43, Ne.symm q43, q44, Ne.symm q44, q45, Ne.symm q45, q46, Ne.symm q46, q47, Ne.symm q47, q48, Ne.symm q48, q49, Ne.symm q49, q50, Ne.symm q50, q51, Ne.symm q51, q52, Ne.symm q52, q53, Ne.symm q53, q54, Ne.symm q54, q55, Ne.symm q55, q56, Ne.symm q56, q57, Ne.symm q57, q58, Ne.symm q58, q59, Ne.symm q59, q60, Ne.symm q60, q61, Ne.symm q61, q62, Ne.symm q62, q63, Ne.symm q63, q64, Ne.symm q64, q65, Ne.symm q65, q66, Ne.symm q66])
  have ub := u9 (m.β 0 e) (by simp [q1, Ne.symm q1, q2, Ne.symm q2, q3, Ne.symm q3, q4, Ne.symm q4, q5, Ne.symm q5, q6, Ne.symm q6, q7, Ne.symm q7, q8, Ne.symm q8, q9, Ne.symm q9, q10, Ne.symm q10, q11, Ne.symm q11, q12, Ne.symm q12, q13, Ne.symm q13, q14, Ne.symm q14, q15, Ne.symm q15, q16, Ne.symm q16, q17, Ne.symm q17, q18, Ne.symm q18, q19, Ne.symm q19, q20, Ne.symm q20, q21, Ne.symm q21, q22, Ne.symm q22, q23, Ne.symm q23, q24, Ne.symm q24, q25, Ne.symm q25, q26, Ne.symm q26, q27, Ne.symm q27, q28, Ne.symm q28, q29, Ne.symm q29, q30, Ne.symm q30, q31, Ne.symm q31, q32, Ne.symm q32, q33, Ne.symm q33, q34, Ne.symm q34, q35, Ne.symm q35, q36, Ne.symm q36, q37, Ne.symm q37, q38, Ne.symm q38, q39, Ne.symm q39, q40, Ne.symm q40, q41, Ne.symm q41, q42, Ne.symm q42, q43, Ne.symm q43, q44, Ne.symm q44, q45, Ne.symm q45, q46, Ne.symm q46, q47, Ne.symm q47, q48, Ne.symm q48, q49, Ne.symm q49, q50, Ne.symm q50, q51, Ne.symm q51, q52, Ne.symm q52, q53, Ne.symm q53, q54, Ne.symm q54, q55, Ne.symm q55, q56, Ne.symm q56, q57, Ne.symm q57, q58, Ne.symm q58, q59, Ne.symm q59, q60, Ne.symm q60, q61, Ne.symm q61, q62, Ne.symm q62, q63, Ne.symm q63, q64, Ne.symm q64, q65, Ne.symm q65, q66, Ne.symm q66])
  have uc := u9 (m.β 1 (m.β 2 e)) (by simp [q1, Ne.symm q1, q2, Ne.symm q2, q3, Ne.symm q3, q4, Ne.symm q4, q5, Ne.symm q5, q6, Ne.symm q6, q7, Ne.symm q7, q8, Ne.symm q8, q9, Ne.symm q9, q10, Ne.symm q10, q11, Ne.symm q11, q12, Ne.symm q12, q13, Ne.symm q13, q14, Ne.symm q14, q15, Ne.symm q15, q16, Ne.symm q16, q17, Ne.symm q17, q18, Ne.symm q18, q19, Ne.symm q19, q20, Ne.symm q20, q21, Ne.symm q21, q22, Ne.symm q22, q23, Ne.symm q23, q24, Ne.symm q24, q25, Ne.symm q25, q26, Ne.symm q26, q27, Ne.symm q27, q28, Ne.symm q28, q29, Ne.symm q29, q30, Ne.symm q30, q31, Ne.symm q31, q32, Ne.symm q32, q33, Ne.symm q33, q34, Ne.symm q34, q35, Ne.symm q35, q36, Ne.symm q36, q37, Ne.symm q37, q38, Ne.symm q38, q39, Ne.symm q39, q40, Ne.symm q40, q41, Ne.symm q41, q42, Ne.symm q42, q43, Ne.symm q43, q44, Ne.symm q44, q45, Ne.symm q45, q46, Ne.symm q46, q47, Ne.symm q47, q48, Ne.symm q48, q49, Ne.symm q49, q50, Ne.symm q50, q51, Ne.symm q51, q52, Ne.symm q52, q53, Ne.symm q53, q54, Ne.symm q54, q55, Ne.symm q55, q56, Ne.symm q56, q57, Ne.symm q57, q58, Ne.symm q58, q59, Ne.symm q59, q60, Ne.symm q60, q61, Ne.symm q61, q62, Ne.symm q62, q63, Ne.symm q63, q64, Ne.symm q64, q65, Ne.symm q65, q66, Ne.symm q66])
  have ud := u9 (m.β 0 (m.β 2 e)) (by simp [q1, Ne.symm q1, q2, Ne.symm q2, q3, Ne.symm q3, q4, Ne.symm q4, q5, Ne.symm q5, q6, Ne.symm q6, q7, Ne.symm q7, q8, Ne.symm q8, q9, Ne.symm q9, q10, Ne.symm q10, q11, Ne.symm q11, q12, Ne.symm q12, q13, Ne.symm q13, q14, Ne.symm q14, q15, Ne.symm q15, q16, Ne.symm q16, q17, Ne.symm q17, q18, Ne.symm q18, q19, Ne.symm q19, q20, Ne.symm q20, q21, Ne.symm q21, q22, Ne.symm q22, q23, Ne.symm q23, q24, Ne.symm q24, q25, Ne.symm q25, q26, Ne.symm q26, q27, Ne.symm q27, q28, Ne.symm q28, q29, Ne.symm q29, q30, Ne.symm q30, q31, Ne.symm q31, q32, Ne.symm q32, q33, Ne.symm q33, q34, Ne.symm q34, q35, Ne.symm q35, q36, Ne.symm q36, q37, Ne.symm q37, q38, Ne.symm q38, q39, Ne.symm q39, q40, Ne.symm q40, q41, Ne.symm q41, q42, Ne.symm q42, q43, Ne.symm q43, q44, Ne.symm q44, q45, Ne.symm q45, q46, Ne.symm q46, q47, Ne.symm q47, q48, Ne.symm q48, q49, Ne.symm q49, q50, Ne.symm q50, q51, Ne.symm q51, q52, Ne.symm q52, q53, Ne.symm q53, q54, Ne.symm q54, q55, Ne.symm q55, q56, Ne.symm q56, q57, Ne.symm q57, q58, Ne.symm q58, q59, Ne.symm q59, q60, Ne.symm q60, q61, Ne.symm q61, q62, Ne.symm q62, q63, Ne.symm q63, q64, Ne.symm q64, q65, Ne.symm q65, q66, Ne.symm q66])
  obtain ⟨π, hπ⟩ : ∃ π, π = piInner (m.β 0 e) (m.β 0 (m.β 2 e)) n1 n2 n3 n4 n5 n6 := ⟨_, rfl⟩
  have pif : ∀ i y, π (m.β i y) = m.β i y := by
    intro i y; rw [hπ]; unfold piInner
    simp [beta_ne_spare hwf s2 i y, beta_ne_spare hwf s3 i y, beta_ne_spare hwf s4 i y, beta_ne_spare hwf s5 i y,
      beta_ne_spare hwf s6 i y]
  have πn1 : π n1 = n1 := by rw [hπ]; simp [piInner, q1, Ne.symm q1, q2, Ne.symm q2, q3, Ne.symm q3, q4, Ne.symm q4, q5, Ne.symm q5, q6, Ne.symm q6, q7, Ne.symm q7, q8, Ne.symm q8, q9, Ne.symm q9, q10, Ne.symm q10, q11, Ne.symm q11, q12, Ne.symm q12, q13, Ne.symm q13, q14, Ne.symm q14, q15, Ne.symm q15, q16, Ne.symm q16, q17, Ne.symm q17, q18, Ne.symm q18, q19, Ne.symm q19, q20, Ne.symm q20, q21, Ne.symm q21, q22, Ne.symm q22, q23, Ne.symm q23, q24, Ne.symm q24, q25, Ne.symm q25, q26, Ne.symm q26, q27, Ne.symm q27, q28, Ne.symm q28, q29, Ne.symm q29, q30, Ne.symm q30, q31, Ne.symm q31, q32, Ne.symm q32, q33, Ne.symm q33, q34, Ne.symm q34, q35, Ne.symm q35, q36, Ne.symm q36, q37, Ne.symm q37, q38, Ne.symm q38, q39, Ne.symm q39, q40, Ne.symm q40, q41, Ne.symm q41, q42, Ne.symm q42, q43, Ne.symm q43, q44, Ne.symm q44, q45, Ne.symm q45, q46, Ne.symm q46, q47, Ne.symm q47, q48, Ne.symm q48, q49, Ne.symm q49, q50, Ne.symm q50, q51, Ne.symm q51, q52, Ne.symm q52, q53, Ne.symm q53, q54, Ne.symm q54, q55, Ne.symm q55, q56, Ne.symm q56, q57, Ne.symm q57, q58, Ne.symm q58, q59, Ne.symm q59, q60, Ne.symm q60, q61, Ne.symm q61, q62, Ne.symm q62, q63, Ne.symm q63, q64, Ne.symm q64, q65, Ne.symm q65, q66, Ne.symm q66]
  have πn2 : π n2 = m.β 0 e := by rw [hπ]; simp [piInner, q1, Ne.symm q1, q2, Ne.symm q2, q3, Ne.symm q3, q4, Ne.symm q4, q5, Ne.symm q5, q6, Ne.symm q6, q7, Ne.symm q7, q8, Ne.symm q8, q9, Ne.symm q9, q10, Ne.symm q10, q11, Ne.symm q11, q12, Ne.symm q12, q13, Ne.symm q13, q14, Ne.symm q14, q15, Ne.symm q15, q16, Ne.symm q16, q17, Ne.symm q17, q18, Ne.symm q18, q19, Ne.symm q19, q20, Ne.symm q20, q21, Ne.symm q21, q22, Ne.symm q22, q23, Ne.symm q23, q24, Ne.symm q24, q25, Ne.symm q25, q26, Ne.symm q26, q27, Ne.symm q27, q28, Ne.symm q28, q29, Ne.symm q29, q30, Ne.symm q30, q31, Ne.symm q31, q32, Ne.symm q32, q33, Ne.symm q33, q34, Ne.symm q34, q35, Ne.symm q35, q36, Ne.symm q36, q37, Ne.symm q37, q38, Ne.symm q38, q39, Ne.symm q39, q40, Ne.symm q40, q41, Ne.symm q41, q42, Ne.symm q42, q43, Ne.symm q43, q44, Ne.symm q44, q45, Ne.symm q45, q46, Ne.symm q46, q47, Ne.symm q47, q48, Ne.symm q48, q49, Ne.symm q49, q50, Ne.symm q50, q51, Ne.symm q51, q52, Ne.symm q52, q53, Ne.symm q53, q54, Ne.symm q54, q55, Ne.symm q55, q56, Ne.symm q56, q57, Ne.symm q57, q58, Ne.symm q58, q59, Ne.symm q59, q60, Ne.symm q60, q61, Ne.symm q61, q62, Ne.symm q62, q63, Ne.symm q63, q64, Ne.symm q64, q65, Ne.symm q65, q66, Ne.symm q66]
  have πn3 : π n3 = n1 := by rw [hπ]; simp [piInner, q1, Ne.symm q1, q2, Ne.symm q2, q3, Ne.symm q3, q4, Ne.symm q4, q5, Ne.symm q5, q6, Ne.symm q6, q7, Ne.symm q7, q8, Ne.symm q8, q9, Ne.symm q9, q10, Ne.symm q10, q11, Ne.symm q11, q12, Ne.symm q12, q13, Ne.symm q13, q14, Ne.symm q14, q15, Ne.symm q15, q16, Ne.symm q16, q17, Ne.symm q17, q18, Ne.symm q18, q19, Ne.symm q19, q20, Ne.symm q20, q21, Ne.symm q21, q22, Ne.symm q22, q23, Ne.symm q23, q24, Ne.symm q24, q25, Ne.symm q25, q26, Ne.symm q26, q27, Ne.symm q27, q28, Ne.symm q28, q29, Ne.symm q29, q30, Ne.symm q30, q31, Ne.symm q31, q32, Ne.symm q32, q33, Ne.symm q33, q34, Ne.symm q34, q35, Ne.symm q35, q36, Ne.symm q36, q37, Ne.symm q37, q38, Ne.symm q38, q39, Ne.symm q39, q40, Ne.symm q40, q41, Ne.symm q41, q42, Ne.symm q42, q43, Ne.symm q43, q44, Ne.symm q44, q45, Ne.symm q45, q46, Ne.symm q46, q47, Ne.symm q47, q48, Ne.symm q48, q49, Ne.symm q49, q50, Ne.symm q50, q51, Ne.symm q51, q52, Ne.symm q52, q53, Ne.symm q53, q54, Ne.symm q54, q55, Ne.symm q55, q56, Ne.symm q56, q57, Ne.symm q57, q58, Ne.symm q58, q59, Ne.symm q59, q60, Ne.symm q60, q61, Ne.symm q61, q62, Ne.symm q62, q63, Ne.symm q63, q64, Ne.symm q64, q65, Ne.symm q65, q66, Ne.symm q66]
  have πn4 : π n4 = n1 := by rw [hπ]; simp [piInner, q1, Ne.symm q1, q2, Ne.symm q2, q3, Ne.symm q3, q4, Ne.symm q4, q5, Ne.symm q5, q6, Ne.symm q6, q7, Ne.symm q7, q8, Ne.symm q8, q9, Ne.symm q9, q10, Ne.symm q10, q11, Ne.symm q11, q12, Ne.symm q12, q13, Ne.symm q13, q14, Ne.symm q14, q15, Ne.symm q15, q16, Ne.symm q16, q17, Ne.symm q17, q18, Ne.symm q18, q19, Ne.symm q19, q20, Ne.symm q20, q21, Ne.symm q21, q22, Ne.symm q22, q23, Ne.symm q23, q24, Ne.symm q24, q25, Ne.symm q25, q26, Ne.symm q26, q27, Ne.symm q27, q28, Ne.symm q28, q29, Ne.symm q29, q30, Ne.symm q30, q31, Ne.symm q31, q32, Ne.symm q32, q33, Ne.symm q33, q34, Ne.symm q34, q35, Ne.symm q35, q36, Ne.symm q36, q37, Ne.symm q37, q38, Ne.symm q38, q39, Ne.symm q39, q40, Ne.symm q40, q41, Ne.symm q41, q42, Ne.symm q42, q43, Ne.symm q43, q44, Ne.symm q44, q45, Ne.symm q45, q46, Ne.symm q46, q47, Ne.symm q47, q48, Ne.symm q48, q49, Ne.symm q49, q50, Ne.symm q50, q51, Ne.symm q51, q52, Ne.symm q52, q53, Ne.symm q53, q54, Ne.symm q54, q55, Ne.symm q55, q56, Ne.symm q56, q57, Ne.symm q57, q58, Ne.symm q58, q59, Ne.symm q59, q60, Ne.symm q60, q61, Ne.symm q61, q62, Ne.symm q62, q63, Ne.symm q63, q64, Ne.symm q64, q65, Ne.symm q65, q66, Ne.symm q66]
  have πn5 : π n5 = m.β 0 (m.β 2 e) := by rw [hπ]; simp [piInner, q1, Ne.symm q1, q2, Ne.symm q2, q3, Ne.symm q3, q4, Ne.symm q4, q5, Ne.symm q5, q6, Ne.symm q6, q7, Ne.symm q7, q8, Ne.symm q8, q9, Ne.symm q9, q10, Ne.symm q10, q11, Ne.symm q11, q12, Ne.symm q12, q13, Ne.symm q13, q14, Ne.symm q14, q15, Ne.symm q15, q16, Ne.symm q16, q17, Ne.symm q17, q18, Ne.symm q18, q19, Ne.symm q19, q20, Ne.symm q20, q21, Ne.symm q21, q22, Ne.symm q22, q23, Ne.symm q23, q24, Ne.symm q24, q25, Ne.symm q25, q26, Ne.symm q26, q27, Ne.symm q27, q28, Ne.symm q28, q29, Ne.symm q29, q30, Ne.symm q30, q31, Ne.symm q31, q32, Ne.symm q32, q33, Ne.symm q33, q34, Ne.symm q34, q35, Ne.symm q35, q36, Ne.symm q36, q37, Ne.symm q37, q38, Ne.symm q38, q39, Ne.symm q39, q40, Ne.symm q40, q41, Ne.symm q41, q42, Ne.symm q42, q43, Ne.symm q43, q44, Ne.symm q44, q45, Ne.symm q45, q46, Ne.symm q46, q47, Ne.symm q47, q48, Ne.symm q48, q49, Ne.symm q49, q50, Ne.symm q50, q51, Ne.symm q51, q52, Ne.symm q52, q53, Ne.symm q53, q54, Ne.symm q54, q55, Ne.symm q55, q56, Ne.symm q56, q57, Ne.symm q57, q58, Ne.symm q58, q59, Ne.symm q59, q60, Ne.symm q60, q61, Ne.symm q61, q62, Ne.symm q62, q63, Ne.symm q63, q64, Ne.symm q64, q65, Ne.symm q65, q66, Ne.symm q66]
  have πn6 : π n6 = n1 := by rw [hπ]; simp [piInner, q1, Ne.symm q1, q2, Ne.symm q2, q3, Ne.symm q3, q4, Ne.symm q4, q5, Ne.symm q5, q6, Ne.symm q6, q7, Ne.symm q7, q8, Ne.symm q8, q9, Ne.symm q9, q10, Ne.symm q10, q11, Ne.symm q11, q12, Ne.symm q12, q13, Ne.symm q13, q14, Ne.symm q14, q15, Ne.symm q15, q16, Ne.symm q16, q17, Ne.symm q17, q18, Ne.symm q18, q19, Ne.symm q19, q20, Ne.symm q20, q21, Ne.symm q21, q22, Ne.symm q22, q23, Ne.symm q23, q24, Ne.symm q24, q25, Ne.symm q25, q26, Ne.symm q26, q27, Ne.symm q27, q28, Ne.symm q28, q29, Ne.symm q29, q30, Ne.symm q30, q31, Ne.symm q31, q32, Ne.symm q32, q33, Ne.symm q33, q34, Ne.symm q34, q35, Ne.symm q35, q36, Ne.symm q36, q37, Ne.symm q37, q38, Ne.symm q38, q39, Ne.symm q39, q40, Ne.symm q40, q41, Ne.symm q41, q42, Ne.symm q42, q43, Ne.symm q43, q44, Ne.symm q44, q45, Ne.symm q45, q46, Ne.symm q46, q47, Ne.symm q47, q48, Ne.symm q48, q49, Ne.symm q49, q50, Ne.symm q50, q51, Ne.symm q51, q52, Ne.symm q52, q53, Ne.symm q53, q54, Ne.symm q54, q55, Ne.symm q55, q56, Ne.symm q56, q57, Ne.symm q57, q58, Ne.symm q58, q59, Ne.symm q59, q60, Ne.symm q60, q61, Ne.symm q61, q62, Ne.symm q62, q63, Ne.symm q63, q64, Ne.symm q64, q65, Ne.symm q65, q66, Ne.symm q66]
  have πe : π e = e := by rw [hπ]; simp [piInner, q1, Ne.symm q1, q2, Ne.symm q2, q3, Ne.symm q3, q4, Ne.symm q4, q5, Ne.symm q5, q6, Ne.symm q6, q7, Ne.symm q7, q8, Ne.symm q8, q9, Ne.symm q9, q10, Ne.symm q10, q11, Ne.symm q11, q12, Ne.symm q12, q13, Ne.symm q13, q14, Ne.symm q14, q15, Ne.symm q15, q16, Ne.symm q16, q17, Ne.symm q17, q18, Ne.symm q18, q19, Ne.symm q19, q20, Ne.symm q20, q21, Ne.symm q21, q22, Ne.symm q22, q23, Ne.symm q23, q24, Ne.symm q24, q25, Ne.symm q25, q26, Ne.symm q26, q27, Ne.symm q27, q28, Ne.symm q28, q29, Ne.symm q29, q30, Ne.symm q30, q31, Ne.symm q31, q32, Ne.symm q32, q33, Ne.symm q33, q34, Ne.symm q34, q35, Ne.symm q35, q36, Ne.symm q36, q37, Ne.symm q37, q38, Ne.symm q38, q39, Ne.symm q39, q40, Ne.symm q40, q41, Ne.symm q41, q42, Ne.symm q42, q43, Ne.symm q43, q44, Ne.symm q44, q45, Ne.symm q45, q46, Ne.symm q46, q47, Ne.symm q47, q48, Ne.symm q48, q49, Ne.symm q49, q50, Ne.symm q50, q51, Ne.symm q51, q52, Ne.symm q52, q53, Ne.symm q53, q54, Ne.symm q54, q55, Ne.symm q55, q56, Ne.symm q56, q57, Ne.symm q57, q58, Ne.symm q58, q59, Ne.symm q59, q60, Ne.symm q60, q61, Ne.symm q61, q62, Ne.symm q62, q63, Ne.symm q63, q64, Ne.symm q64, q65, Ne.symm q65, q66, Ne.symm q66]
  have πfix : ∀ x, x ∉ [n1, n2, n3, n4, n5, n6] → π x = x := by
    intro x hx; simp only [List.mem_cons, List.mem_nil_iff, not_or, or_false] at hx
    rw [hπ]; simp [piInner, hx.2.1, hx.2.2.1, hx.2.2.2.1, hx.2.2.2.2.1, hx.2.2.2.2.2]
  have πne : ∀ y, y ≠ 0 → π y ≠ 0 := by
    intro y hy
    by_cases hyT : y ∈ [n1, n2, n3, n4, n5, n6]
    · simp only [List.mem_cons, List.mem_nil_iff, or_false] at hyT
      rcases hyT with rfl | rfl | rfl | rfl | rfl | rfl
      · rw [πn1]; exact hy
      · rw [πn2]; exact hb
      · rw [πn3]; exact s1.1.1
      · rw [πn4]; exact s1.1.1
      · rw [πn5]; exact hd
      · rw [πn6]; exact s1.1.1
    · rw [πfix y hyT]; exact hy
  have P1 : ∀ z, m.β 2 z ≠ 0 → m.β 1 z ≠ 0 → Reach (vg m'.β) (m.β 2 z) (m.β 1 z) := by
    intro z z2 z1
    by_cases hz : z ∈ [e, m.β 2 e, m.β 1 e, m.β 0 e, m.β 1 (m.β 2 e), m.β 0 (m.β 2 e), n1, n2, n3, n4, n5, n6]
    · simp only [List.mem_cons, List.mem_nil_iff, or_false] at hz
      rcases hz with hz | hz | hz | hz | hz | hz | hz | hz | hz | hz | hz | hz <;> subst hz
      · exact pair_reach hf' n3 u4 p4 hr0 a0
      · rw [er]; exact pair_reach hf' n6 u2 p10 he.1 c0
      · rw [htl]
        exact (pair_reach hf' (m.β 1 e) ua p5 z2 s2.1.1).trans (pair_reach hf' n1 u5 p2 s2.1.1 hb)
      · rw [p3']; exact pair_reach hf' (m.β 0 e) ub p3 z2 he.1
      · rw [htr]
        exact (pair_reach hf' (m.β 1 (m.β 2 e)) uc p11 z2 s5.1.1).trans (pair_reach hf' n4 u7 p8 s5.1.1 hd)
      · rw [q3']; exact pair_reach hf' (m.β 0 (m.β 2 e)) ud p9 z2 hr0
      · exact absurd (s1.β 1 (by omega)) z1
      · exact absurd (s2.β 1 (by omega)) z1
      · exact absurd (s3.β 1 (by omega)) z1
      · exact absurd (s4.β 1 (by omega)) z1
      · exact absurd (s5.β 1 (by omega)) z1
      · exact absurd (s6.β 1 (by omega)) z1
    · exact pair_reach hf' z (fr 2 z hz) (fr 1 z hz) z2 z1
  have P2 : ∀ z, m'.β 2 z ≠ 0 → m'.β 1 z ≠ 0 → Reach (vg m.β) (π (m'.β 2 z)) (π (m'.β 1 z)) := by
    intro z z2 z1
    by_cases hz : z ∈ [e, m.β 2 e, m.β 1 e, m.β 0 e, m.β 1 (m.β 2 e), m.β 0 (m.β 2 e), n1, n2, n3, n4, n5, n6]
    · simp only [List.mem_cons, List.mem_nil_iff, or_false] at hz
      rcases hz with hz | hz | hz | hz | hz | hz | hz | hz | hz | hz | hz | hz <;> subst hz
      · rw [u1, p1, πn6, πn1]; exact .refl _
      · rw [u3, p7, πn3, πn4]; exact .refl _
      · rw [ua] at z2 ⊢; rw [p5, πn2, pif 2]; exact pair_reach hf (m.β 1 e) rfl htl z2 hb
      · rw [ub] at z2 ⊢; rw [p3, pif 2, πe]; exact pair_reach hf (m.β 0 e) rfl p3' z2 he.1
      · rw [uc] at z2 ⊢; rw [p11, πn5, pif 2]; exact pair_reach hf (m.β 1 (m.β 2 e)) rfl htr z2 hd
      · rw [ud] at z2 ⊢; rw [p9, pif 2, pif 2]; exact pair_reach hf (m.β 0 (m.β 2 e)) rfl q3' z2 hr0
      · rw [u5, p2, πn2, pif 0]; exact .refl _
      · rw [u6, p6, πn1, πn3]; exact .refl _
      · rw [u4, p4, pif 2, pif 1]; exact pair_reach hf e rfl rfl hr0 a0
      · rw [u7, p8, πn5, pif 0]; exact .refl _
      · rw [u8, p12, πn4, πn6]; exact .refl _
      · rw [u2, p10, πe, pif 1]; exact pair_reach hf (m.β 2 e) er rfl he.1 c0
    · rw [fr 2 z hz] at z2 ⊢; rw [fr 1 z hz] at z1 ⊢; rw [pif, pif]; exact pair_reach hf z rfl rfl z2 z1
  have steps := vertex_steps_of_pairs hf hf' π pif πne P1 P2
  have π0 : π 0 = 0 := πfix 0 (by simp [Ne.symm s1.1.1, Ne.symm s2.1.1, Ne.symm s3.1.1, Ne.symm s4.1.1, Ne.symm s5.1.1, Ne.symm s6.1.1])
  have hreach := fun p q => reach_equiv_of_projection (g := g2 m .vertex) (g' := g2 m' .vertex)
    π (g2_null hwf .vertex trivial) (g2_null hw' .vertex trivial) π0 steps.1 steps.2 (p := p) (q := q)
  have same' : ∀ x y, Spare m x → y ≠ 0 → y < m.n → y ∈ g2 m' .vertex x →
      cellId m' .vertex x = cellId m' .vertex y := fun x y sx y0 yn hxy =>
    (C03_same_id_iff_same_cell hw' (pol := .vertex) trivial sx.1.1 (by rw [hn']; exact sx.1.2.1) y0
      (by rw [hn']; exact yn)).1.2 (Reach.single hxy)
  have c13 := same' n1 n3 s1 s3.1.1 s3.1.2.1 (by simp [g2, u5, p6])
  have c34 := same' n3 n4 s3 s4.1.1 s4.1.2.1 (by simp [g2, u4, p7])
  have c46 := same' n4 n6 s4 s6.1.1 s6.1.2.1 (by simp [g2, u7, p12])
  have c2b := same' n2 (m.β 0 e) s2 hb hbn (by simp [g2, u6, p2])
  have c5d := same' n5 (m.β 0 (m.β 2 e)) s5 hd hdn (by simp [g2, u8, p8])
  have inuse : ∀ i x, i < 3 → x < m.n → m.β i x ≠ 0 → m.unused (m.β i x) = false := by
    intro i x hi hx h0
    cases hx' : m.unused (m.β i x) with
    | false => rfl
    | true => exact absurd (C01.C01_unused_is_nobodys_image hwf i hi x hx hx') h0
  have cnt := iterVertices_count hwf hw' hn' hu' [n1, n2, n3, n4, n5, n6] [cellId m' .vertex n1] π hs
    (by simp [q1, Ne.symm q1, q2, Ne.symm q2, q3, Ne.symm q3, q4, Ne.symm q4, q5, Ne.symm q5, q6, Ne.symm q6, q7, Ne.symm q7, q8, Ne.symm q8, q9, Ne.symm q9, q10, Ne.symm q10, q11, Ne.symm q11, q12, Ne.symm q12, q13, Ne.symm q13, q14, Ne.symm q14, q15, Ne.symm q15, q16, Ne.symm q16, q17, Ne.symm q17, q18, Ne.symm q18, q19, Ne.symm q19, q20, Ne.symm q20, q21, Ne.symm q21, q22, Ne.symm q22, q23, Ne.symm q23, q24, Ne.symm q24, q25, Ne.symm q25, q26, Ne.symm q26, q27, Ne.symm q27, q28, Ne.symm q28, q29, Ne.symm q29, q30, Ne.symm q30, q31, Ne.symm q31, q32, Ne.symm q32, q33, Ne.symm q33, q34, Ne.symm q34, q35, Ne.symm q35, q36, Ne.symm q36, q37, Ne.symm q37, q38, Ne.symm q38, q39, Ne.symm q39, q40, Ne.symm q40, q41, Ne.symm q41, q42, Ne.symm q42, q43, Ne.symm q43, q44, Ne.symm q44, q45, Ne.symm q45, q46, Ne.symm q46, q47, Ne.symm q47, q48, Ne.symm q48, q49, Ne.symm q49, q50, Ne.symm q50, q51, Ne.symm q51, q52, Ne.symm q52, q53, Ne.symm q53, q54, Ne.symm q54, q55, Ne.symm q55, q56, Ne.symm q56, q57, Ne.symm q57, q58, Ne.symm q58, q59, Ne.symm q59, q60, Ne.symm q60, q61, Ne.symm q61, q62, Ne.symm q62, q63, Ne.symm q63, q64, Ne.symm q64, q65, Ne.symm q65, q66, Ne.symm q66]) (by simp) πfix (fun p q hp hq => hreach p q hp hq) ?_ ?_
  · have cid : cellId m' .vertex n1 = min n1 (min n3 (min n4 n6)) ∧
        (∀ x, x ∈ orb m' .vertex n1 ↔ x ∈ [n1, n3, n4, n6]) := by
      obtain ⟨hmem, hin, hle⟩ := cell_of_list hw' (pol := .vertex) trivial s1.1.1 (by rw [hn']; exact s1.1.2.1) [n1, n3, n4, n6]
        (by simp [s1.1.1, s3.1.1, s4.1.1, s6.1.1])
        (by
          have a13 : Reach (g2 m' .vertex) n1 n3 := Reach.single (by simp [g2, u5, p6])
          have a34 : Reach (g2 m' .vertex) n3 n4 := Reach.single (by simp [g2, u4, p7])
          have a46 : Reach (g2 m' .vertex) n4 n6 := Reach.single (by simp [g2, u7, p12])
          intro y hy; simp only [List.mem_cons, List.mem_nil_iff, or_false] at hy
          rcases hy with rfl | rfl | rfl | rfl
          · exact .refl _
          · exact a13
          · exact a13.trans a34
          · exact (a13.trans a34).trans a46)
        (by simp)
        (by
          intro y hy v hv
          simp only [List.mem_cons, List.mem_nil_iff, or_false] at hy
          simp only [g2, List.mem_cons, List.mem_nil_iff, or_false] at hv
          rcases hy with rfl | rfl | rfl | rfl <;> rcases hv with rfl | rfl <;>
            simp [u5, p6, r1, u1, u4, p7, r6, u6, u7, p12, r7, u3, u2, p1, r12, u8])
      simp at hin
      have h1 := hle n1 (by simp)
      have h2 := hle n3 (by simp)
      have h3 := hle n4 (by simp)
      have h4 := hle n6 (by simp)
      exact ⟨by omega, hmem⟩
    refine ⟨cid.1, ⟨c13.symm, (c13.trans c34).symm, ((c13.trans c34).trans c46).symm⟩, c2b, c5d,
      partition_kept hwf hw' hn' _ _ πfix (fun p q hp hq => hreach p q hp hq), ?_, cid.2⟩
    simp at cnt; omega
  · intro t ht
    simp only [List.mem_cons, List.mem_nil_iff, or_false] at ht
    rcases ht with rfl | rfl | rfl | rfl | rfl | rfl
    · right; rw [πn1]; simp
    · left; rw [πn2]; exact ⟨by simp [q1, Ne.symm q1, q2, Ne.symm q2, q3, Ne.symm q3, q4, Ne.symm q4, q5, Ne.symm q5, q6, Ne.symm q6, q7, Ne.symm q7, q8, Ne.symm q8, q9, Ne.symm q9, q10, Ne.symm q10, q11, Ne.symm q11, q12, Ne.symm q12, q13, Ne.symm q13, q14, Ne.symm q14, q15, Ne.symm q15, q16, Ne.symm q16, q17, Ne.symm q17, q18, Ne.symm q18, q19, Ne.symm q19, q20, Ne.symm q20, q21, Ne.symm q21, q22, Ne.symm q22, q23, Ne.symm q23, q24, Ne.symm q24, q25, Ne.symm q25, q26, Ne.symm q26, q27, Ne.symm q27, q28, Ne.symm q28, q29, Ne.symm q29, q30, Ne.symm q30, q31, Ne.symm q31, q32, Ne.symm q32, q33, Ne.symm q33, q34, Ne.symm q34, q35, Ne.symm q35, q36, Ne.symm q36, q37, Ne.symm q37, q38, Ne.symm q38, q39, Ne.symm q39, q40, Ne.symm q40, q41, Ne.symm q41, q42, Ne.symm q42, q43, Ne.symm q43, q44, Ne.symm q44, q45, Ne.symm q45, q46, Ne.symm q46, q47, Ne.symm q47, q48, Ne.symm q48, q49, Ne.symm q49, q50, Ne.symm q50, q51, Ne.symm q51, q52, Ne.symm q52, q53, Ne.symm q53, q54, Ne.symm q54, q55, Ne.symm q55, q56, Ne.symm q56, q57, Ne.symm q57, q58, Ne.symm q58, q59, Ne.symm q59, q60, Ne.symm q60, q61, Ne.symm q61, q62, Ne.symm q62, q63, Ne.symm q63, q64, Ne.symm q64, q65, Ne.symm q65, q66, Ne.symm q66], hb, hbn, inuse 0 e (by omega) hn hb, c2b⟩
    · right; rw [πn3]; simp [c13]
    · right; rw [πn4]; simp [c13, c34]
    · left; rw [πn5]; exact ⟨by simp [q1, Ne.symm q1, q2, Ne.symm q2, q3, Ne.symm q3, q4, Ne.symm q4, q5, Ne.symm q5, q6, Ne.symm q6, q7, Ne.symm q7, q8, Ne.symm q8, q9, Ne.symm q9, q10, Ne.symm q10, q11, Ne.symm q11, q12, Ne.symm q12, q13, Ne.symm q13, q14, Ne.symm q14, q15, Ne.symm q15, q16, Ne.symm q16, q17, Ne.symm q17, q18, Ne.symm q18, q19, Ne.symm q19, q20, Ne.symm q20, q21, Ne.symm q21, q22, Ne.symm q22, q23, Ne.symm q23, q24, Ne.symm q24, q25, Ne.symm q25, q26, Ne.symm q26, q27, Ne.symm q27, q28, Ne.symm q28, q29, Ne.symm q29, q30, Ne.symm q30, q31, Ne.symm q31, q32, Ne.symm q32, q33, Ne.symm q33, q34, Ne.symm q34, q35, Ne.symm q35, q36, Ne.symm q36, q37, Ne.symm q37, q38, Ne.symm q38, q39, Ne.symm q39, q40, Ne.symm q40, q41, Ne.symm q41, q42, Ne.symm q42, q43, Ne.symm q43, q44, Ne.symm q44, q45, Ne.symm q45, q46, Ne.symm q46, q47, Ne.symm q47, q48, Ne.symm q48, q49, Ne.symm q49, q50, Ne.symm q50, q51, Ne.symm q51, q52, Ne.symm q52, q53, Ne.symm q53, q54, Ne.symm q54, q55, Ne.symm q55, q56, Ne.symm q56, q57, Ne.symm q57, q58, Ne.symm q58, q59, Ne.symm q59, q60, Ne.symm q60, q61, Ne.symm q61, q62, Ne.symm q62, q63, Ne.symm q63, q64, Ne.symm q64, q65, Ne.symm q65, q66, Ne.symm q66], hd, hdn, inuse 0 _ (by omega) hr hd, c5d⟩
    · right; rw [πn6]; simp [c13, c34, c46]
  · intro y hy
    simp only [List.mem_cons, List.mem_nil_iff, or_false] at hy
    subst hy
    exact ⟨n1, by simp, by rw [πn1]; simp, rfl⟩

/-- **C15 (1), vertices, outer cut, the count**: `#vertices' + 2 = #vertices` where `iter_vertices` counted the three spare
    darts as three vertices before: the MESH gains one vertex -/
theorem C15_cutOuter_vertex_count (cfg : Cfg Val) (m m' : Map Val) (e nd1 nd2 nd3 : Nat) (hwf : WF 3 m) (he : C01.InUse m e)
    (h : run (cutOuterEdge cfg m.n e nd1 nd2 nd3) m = (.ok (), m'))
    (htri : m.β 1 (m.β 1 e) = m.β 0 e) (hb : m.β 0 e ≠ 0) (hout : m.β 2 e = 0)
    (s1 : Spare m nd1) (s2 : Spare m nd2) (s3 : Spare m nd3)
    (hnd : [e, m.β 1 e, m.β 0 e, nd1, nd2, nd3].Nodup) :
    (iterVertices2 m').length + 2 = (iterVertices2 m).length :=
  (C15_cutOuter_vertices cfg m m' e nd1 nd2 nd3 hwf he h htri hb hout s1 s2 s3 hnd).2.2.2.2

/-- **C15 (1), vertices, inner cut, the count**: `#vertices' + 5 = #vertices` where `iter_vertices` counted the six spare
    darts as six vertices before: the MESH gains one vertex -/
theorem C15_cutInner_vertex_count (cfg : Cfg Val) (m m' : Map Val) (e n1 n2 n3 n4 n5 n6 : Nat) (hwf : WF 3 m)
    (he : C01.InUse m e)
    (h : run (cutInnerEdge cfg m.n e n1 n2 n3 n4 n5 n6) m = (.ok (), m'))
    (hr0 : m.β 2 e ≠ 0)
    (htl : m.β 1 (m.β 1 e) = m.β 0 e) (hb : m.β 0 e ≠ 0)
    (htr : m.β 1 (m.β 1 (m.β 2 e)) = m.β 0 (m.β 2 e)) (hd : m.β 0 (m.β 2 e) ≠ 0)
    (hs : ∀ x, x ∈ [n1, n2, n3, n4, n5, n6] → Spare m x)
    (hnd : [e, m.β 2 e, m.β 1 e, m.β 0 e, m.β 1 (m.β 2 e), m.β 0 (m.β 2 e), n1, n2, n3, n4, n5, n6].Nodup) :
    (iterVertices2 m').length + 5 = (iterVertices2 m).length :=
  (C15_cutInner_vertices cfg m m' e n1 n2 n3 n4 n5 n6 hwf he h hr0 htl hb htr hd hs hnd).2.2.2.2.2.1

/-! ### vertices after a swap -/

/-- what the success of `swap_edge(e)` says about the input: the edge is interior, both faces are triangles; and the
    result is well formed -/
theorem swap_ok_facts (cfg : Cfg Val) (m m' : Map Val) (e : Nat) (hwf : WF 3 m) (he : C01.InUse m e)
    (h : run (swapEdge cfg m.n e) m = (.ok (), m'))
    (hb : m.β 0 e ≠ 0) (hd : m.β 0 (m.β 2 e) ≠ 0) :
    m.β 2 e ≠ 0 ∧ m.β 1 (m.β 1 e) = m.β 0 e ∧ m.β 1 (m.β 1 (m.β 2 e)) = m.β 0 (m.β 2 e) ∧ WF 3 m' := by
  have hn := he.2.1
  have g := h
  rw [C15_swap_guards cfg m.n e m (fun i d hi hd => (hwf.toSized.okβ i d).2 ⟨hi, hd⟩)
    (fun i d hi hd => hwf.range i hi d hd) hn] at g
  simp only [he.1, if_false] at g
  have r0 : m.β 2 e ≠ 0 := by intro hh; simp [hh] at g
  simp only [r0, if_false] at g
  have gg : ¬ (m.β 1 (m.β 1 e) ≠ m.β 0 e ∨ m.β 1 (m.β 1 (m.β 2 e)) ≠ m.β 0 (m.β 2 e)) := by
    intro hh; simp [hh] at g
  have gl : m.β 1 (m.β 1 e) = m.β 0 e := by
    by_cases hh : m.β 1 (m.β 1 e) = m.β 0 e
    · exact hh
    · exact absurd (Or.inl hh) gg
  have gr : m.β 1 (m.β 1 (m.β 2 e)) = m.β 0 (m.β 2 e) := by
    by_cases hh : m.β 1 (m.β 1 (m.β 2 e)) = m.β 0 (m.β 2 e)
    · exact hh
    · exact absurd (Or.inr hh) gg
  have a0 : m.β 1 e ≠ 0 := fun hh => hb (by rw [← gl, hh]; exact hwf.null 1 (by omega))
  have c0 : m.β 1 (m.β 2 e) ≠ 0 := fun hh => hd (by rw [← gr, hh]; exact hwf.null 1 (by omega))
  exact ⟨r0, gl, gr, wf_of_run_ok h (C15_swap_preserves_WF cfg m e hwf he ⟨a0, hb⟩ (fun _ => ⟨c0, hd⟩))⟩

/-- replace `e` by `x` and `r` by `y` -/
def piSwap (e r x y : Nat) (z : Nat) : Nat := if z = e then x else if z = r then y else z

/-- **C15 (3), swap, the vertices**: on ANY well-formed 2-map, after a successful `swap_edge(e)` (hypotheses of
    `C15_swap_topology`, `r = β2 e`)
    * `e` has left the vertex it shared with `β1 r` and now belongs to the vertex of `β0 e`; `r` has left the vertex it
      shared with `β1 e` and now belongs to the vertex of `β0 r`;
    * any two other darts share a vertex after the call exactly when they did before — so the four corners keep all their
      other darts, two of them lose one dart, the two others gain one;
    * `iter_vertices` has the same length. -/
theorem C15_swap_cells (cfg : Cfg Val) (m m' : Map Val) (e : Nat) (hwf : WF 3 m) (he : C01.InUse m e)
    (h : run (swapEdge cfg m.n e) m = (.ok (), m'))
    (hb : m.β 0 e ≠ 0) (hd : m.β 0 (m.β 2 e) ≠ 0)
    (hnd : [e, m.β 2 e, m.β 1 e, m.β 0 e, m.β 1 (m.β 2 e), m.β 0 (m.β 2 e)].Nodup) :
    (cellId m .vertex e = cellId m .vertex (m.β 1 (m.β 2 e)) ∧ cellId m .vertex (m.β 2 e) = cellId m .vertex (m.β 1 e)) ∧
    (cellId m' .vertex e = cellId m' .vertex (m.β 0 e) ∧
      cellId m' .vertex (m.β 2 e) = cellId m' .vertex (m.β 0 (m.β 2 e))) ∧
    (∀ p q, p ≠ 0 → p < m.n → q ≠ 0 → q < m.n → p ∉ [e, m.β 2 e] → q ∉ [e, m.β 2 e] →
      (cellId m' .vertex p = cellId m' .vertex q ↔ cellId m .vertex p = cellId m .vertex q)) ∧
    (iterVertices2 m').length = (iterVertices2 m).length := by
  have hn := he.2.1
  obtain ⟨⟨p1, p2, p3⟩, ⟨q1, q2, q3⟩, _, _, u, fr, hn', hu⟩ := C15_swap_topology cfg m m' e hwf hn h hb hd hnd
  obtain ⟨r0, gl, gr, hw'⟩ := swap_ok_facts cfg m m' e hwf he h hb hd
  have hu' : ∀ d, m'.unused d = m.unused d := fun d => by unfold Map.unused; rw [hu]
  have hr : m.β 2 e < m.n := hwf.range 2 (by omega) e hn
  have a0 : m.β 1 e ≠ 0 := fun hh => hb (by rw [← gl, hh]; exact hwf.null 1 (by omega))
  have c0 : m.β 1 (m.β 2 e) ≠ 0 := fun hh => hd (by rw [← gr, hh]; exact hwf.null 1 (by omega))
  have ha : m.β 1 e < m.n := hwf.range 1 (by omega) e hn
  have hc : m.β 1 (m.β 2 e) < m.n := hwf.range 1 (by omega) _ hr
  have hbn : m.β 0 e < m.n := hwf.range 0 (by omega) e hn
  have hdn : m.β 0 (m.β 2 e) < m.n := hwf.range 0 (by omega) _ hr
  have p3' := hwf.inv10 e hn hb
  have q3' := hwf.inv10 _ hr hd
  have er := (hwf.invol 2 (by omega) (by omega) e hn r0).1
  have hnd' := hnd
  simp only [List.nodup_cons, List.mem_cons, List.mem_nil_iff, not_or, or_false, List.nodup_nil, and_true] at hnd'
  obtain ⟨⟨d1, d2, d3, d4, d5⟩, ⟨d6, d7, d8, d9⟩, ⟨d10, d11, d12⟩, ⟨d13, d14⟩, d15, _⟩ := hnd'
  have hf := bwf_of_wf hwf
  have hf' := bwf_of_wf hw'
  -- images that cannot be `e` or `r`
  have b2ne : ∀ x, x ≠ e → x ≠ m.β 2 e → m.β 2 x ≠ e ∧ m.β 2 x ≠ m.β 2 e := by
    intro x xe xr
    constructor
    · intro hh
      have := hf.inv2 x (by rw [hh]; exact he.1); rw [hh] at this; exact xr this.symm
    · intro hh
      have := hf.inv2 x (by rw [hh]; exact r0); rw [hh, er] at this; exact xe this.symm
  have b1ne : ∀ z, z ≠ m.β 0 e → z ≠ m.β 0 (m.β 2 e) → m.β 1 z ≠ e ∧ m.β 1 z ≠ m.β 2 e := by
    intro z zb zd
    constructor
    · intro hh
      have := hf.inv01 z (by rw [hh]; exact he.1); rw [hh] at this; exact zb this.symm
    · intro hh
      have := hf.inv01 z (by rw [hh]; exact r0); rw [hh] at this; exact zd this.symm
  obtain ⟨π, hπ⟩ : ∃ π, π = piSwap e (m.β 2 e) (m.β 0 e) (m.β 0 (m.β 2 e)) := ⟨_, rfl⟩
  obtain ⟨ρ, hρ⟩ : ∃ ρ, ρ = piSwap e (m.β 2 e) (m.β 1 (m.β 2 e)) (m.β 1 e) := ⟨_, rfl⟩
  have πe : π e = m.β 0 e := by rw [hπ]; simp [piSwap]
  have πr : π (m.β 2 e) = m.β 0 (m.β 2 e) := by rw [hπ]; simp [piSwap, Ne.symm d1]
  have πx : ∀ x, x ≠ e → x ≠ m.β 2 e → π x = x := by intro x x1 x2; rw [hπ]; simp [piSwap, x1, x2]
  have ρe : ρ e = m.β 1 (m.β 2 e) := by rw [hρ]; simp [piSwap]
  have ρr : ρ (m.β 2 e) = m.β 1 e := by rw [hρ]; simp [piSwap, Ne.symm d1]
  have ρx : ∀ x, x ≠ e → x ≠ m.β 2 e → ρ x = x := by intro x x1 x2; rw [hρ]; simp [piSwap, x1, x2]
  have πne : ∀ y, y ≠ 0 → π y ≠ 0 := by
    intro y hy
    by_cases y1 : y = e
    · rw [y1, πe]; exact hb
    · by_cases y2 : y = m.β 2 e
      · rw [y2, πr]; exact hd
      · rw [πx y y1 y2]; exact hy
  have ρne : ∀ y, y ≠ 0 → ρ y ≠ 0 := by
    intro y hy
    by_cases y1 : y = e
    · rw [y1, ρe]; exact c0
    · by_cases y2 : y = m.β 2 e
      · rw [y2, ρr]; exact a0
      · rw [ρx y y1 y2]; exact hy
  have ua := b2ne (m.β 1 e) (Ne.symm d2) (Ne.symm d6)
  have ub := b2ne (m.β 0 e) (Ne.symm d3) (Ne.symm d7)
  have uc := b2ne (m.β 1 (m.β 2 e)) (Ne.symm d4) (Ne.symm d8)
  have ud := b2ne (m.β 0 (m.β 2 e)) (Ne.symm d5) (Ne.symm d9)
  -- old pairs, as paths of the new map
  have P1 : ∀ z, m.β 2 z ≠ 0 → m.β 1 z ≠ 0 → Reach (vg m'.β) (ρ (m.β 2 z)) (ρ (m.β 1 z)) := by
    intro z z2 z1
    by_cases hz : z ∈ [e, m.β 2 e, m.β 1 e, m.β 0 e, m.β 1 (m.β 2 e), m.β 0 (m.β 2 e)]
    · simp only [List.mem_cons, List.mem_nil_iff, or_false] at hz
      rcases hz with hz | hz | hz | hz | hz | hz <;> subst hz
      · rw [ρr, ρx _ (Ne.symm d2) (Ne.symm d6)]; exact .refl _
      · rw [er, ρe, ρx _ (Ne.symm d4) (Ne.symm d8)]; exact .refl _
      · rw [gl, ρx _ ua.1 ua.2, ρx _ (Ne.symm d3) (Ne.symm d7)]
        exact (pair_reach hf' (m.β 1 e) (u _) p3 z2 he.1).trans
          (pair_reach hf' (m.β 2 e) ((u _).trans er) q1 he.1 hb)
      · rw [p3', ρx _ ub.1 ub.2, ρe]
        exact pair_reach hf' (m.β 0 e) (u _) q2 z2 c0
      · rw [gr, ρx _ uc.1 uc.2, ρx _ (Ne.symm d5) (Ne.symm d9)]
        exact (pair_reach hf' (m.β 1 (m.β 2 e)) (u _) q3 z2 r0).trans (pair_reach hf' e (u _) p1 r0 hd)
      · rw [q3', ρx _ ud.1 ud.2, ρr]
        exact pair_reach hf' (m.β 0 (m.β 2 e)) (u _) p2 z2 a0
    · simp only [List.mem_cons, List.mem_nil_iff, not_or, or_false] at hz
      have k2 := b2ne z hz.1 hz.2.1
      have k1 := b1ne z hz.2.2.2.1 hz.2.2.2.2.2
      rw [ρx _ k2.1 k2.2, ρx _ k1.1 k1.2]
      exact pair_reach hf' z (u z) (fr 1 z (by simp [hz])) z2 z1
  -- new pairs, as paths of the old map
  have P2 : ∀ z, m'.β 2 z ≠ 0 → m'.β 1 z ≠ 0 → Reach (vg m.β) (π (m'.β 2 z)) (π (m'.β 1 z)) := by
    intro z z2 z1
    rw [u z] at z2 ⊢
    by_cases hz : z ∈ [e, m.β 2 e, m.β 1 e, m.β 0 e, m.β 1 (m.β 2 e), m.β 0 (m.β 2 e)]
    · simp only [List.mem_cons, List.mem_nil_iff, or_false] at hz
      rcases hz with hz | hz | hz | hz | hz | hz <;> subst hz
      · rw [p1, πr, πx _ (Ne.symm d5) (Ne.symm d9)]; exact .refl _
      · rw [er, q1, πe, πx _ (Ne.symm d3) (Ne.symm d7)]; exact .refl _
      · rw [p3, πe, πx _ ua.1 ua.2]; exact pair_reach hf (m.β 1 e) rfl gl z2 hb
      · rw [q2, πx _ ub.1 ub.2, πx _ (Ne.symm d4) (Ne.symm d8)]
        exact (pair_reach hf (m.β 0 e) rfl p3' z2 he.1).trans (pair_reach hf (m.β 2 e) er rfl he.1 c0)
      · rw [q3, πr, πx _ uc.1 uc.2]; exact pair_reach hf (m.β 1 (m.β 2 e)) rfl gr z2 hd
      · rw [p2, πx _ ud.1 ud.2, πx _ (Ne.symm d2) (Ne.symm d6)]
        exact (pair_reach hf (m.β 0 (m.β 2 e)) rfl q3' z2 r0).trans (pair_reach hf e rfl rfl r0 a0)
    · simp only [List.mem_cons, List.mem_nil_iff, not_or, or_false] at hz
      have e1 := fr 1 z (by simp [hz])
      rw [e1] at z1 ⊢
      have k2 := b2ne z hz.1 hz.2.1
      have k1 := b1ne z hz.2.2.2.1 hz.2.2.2.2.2
      rw [πx _ k2.1 k2.2, πx _ k1.1 k1.2]
      exact pair_reach hf z rfl rfl z2 z1
  have toOld : ∀ p q, q ≠ 0 → Reach (g2 m' .vertex) p q → Reach (g2 m .vertex) (π p) (π q) :=
    fun p q q0 r => reach_of_pairs hf hf' π πne P2 r q0
  have toNew : ∀ p q, q ≠ 0 → Reach (g2 m .vertex) p q → Reach (g2 m' .vertex) (ρ p) (ρ q) :=
    fun p q q0 r => reach_of_pairs hf' hf ρ ρne P1 r q0
  have sameN : ∀ x y, x ≠ 0 → x < m.n → y ≠ 0 → y < m.n →
      (cellId m' .vertex x = cellId m' .vertex y ↔ Reach (g2 m' .vertex) x y) := fun x y x0 xn y0 yn =>
    (C03_same_id_iff_same_cell hw' (pol := .vertex) trivial x0 (by rw [hn']; exact xn) y0 (by rw [hn']; exact yn)).1
  have sameO : ∀ x y, x ≠ 0 → x < m.n → y ≠ 0 → y < m.n →
      (cellId m .vertex x = cellId m .vertex y ↔ Reach (g2 m .vertex) x y) := fun x y x0 xn y0 yn =>
    (C03_same_id_iff_same_cell hwf (pol := .vertex) trivial x0 xn y0 yn).1
  -- the four memberships
  have oe : Reach (g2 m .vertex) e (m.β 1 (m.β 2 e)) := pair_reach hf (m.β 2 e) er rfl he.1 c0
  have or' : Reach (g2 m .vertex) (m.β 2 e) (m.β 1 e) := pair_reach hf e rfl rfl r0 a0
  have ne' : Reach (g2 m' .vertex) e (m.β 0 e) := pair_reach hf' (m.β 2 e) ((u _).trans er) q1 he.1 hb
  have nr : Reach (g2 m' .vertex) (m.β 2 e) (m.β 0 (m.β 2 e)) := pair_reach hf' e (u _) p1 r0 hd
  have part : ∀ p q, p ≠ 0 → p < m.n → q ≠ 0 → q < m.n → p ∉ [e, m.β 2 e] → q ∉ [e, m.β 2 e] →
      (Reach (g2 m' .vertex) p q ↔ Reach (g2 m .vertex) p q) := by
    intro p q p0 pn q0 qn pT qT
    simp only [List.mem_cons, List.mem_nil_iff, not_or, or_false] at pT qT
    constructor
    · intro r; have := toOld p q q0 r; rw [πx p pT.1 pT.2, πx q qT.1 qT.2] at this; exact this
    · intro r; have := toNew p q q0 r; rw [ρx p pT.1 pT.2, ρx q qT.1 qT.2] at this; exact this
  refine ⟨⟨(sameO _ _ he.1 hn c0 hc).2 oe, (sameO _ _ r0 hr a0 ha).2 or'⟩,
    ⟨(sameN _ _ he.1 hn hb hbn).2 ne', (sameN _ _ r0 hr hd hdn).2 nr⟩, ?_, ?_⟩
  · intro p q p0 pn q0 qn pT qT
    rw [sameN p q p0 pn q0 qn, sameO p q p0 pn q0 qn]
    exact part p q p0 pn q0 qn pT qT
  · -- the count
    have nodup : ∀ mm : Map Val, (iterVertices2 mm).Nodup := fun mm =>
      ((C03_iter_sorted mm).1).imp (fun hab => Nat.ne_of_lt hab)
    have inuse : ∀ i x, i < 3 → x < m.n → m.β i x ≠ 0 → m.unused (m.β i x) = false := by
      intro i x hi hx h0
      cases hx' : m.unused (m.β i x) with
      | false => rfl
      | true => exact absurd (C01.C01_unused_is_nobodys_image hwf i hi x hx hx') h0
    -- `ρ x`: a dart of the old vertex of `x` which is neither `e` nor `r`
    have ρok : ∀ x, x ≠ 0 → x < m.n → m.unused x = false →
        ρ x ≠ 0 ∧ ρ x < m.n ∧ m.unused (ρ x) = false ∧ ρ x ∉ [e, m.β 2 e] ∧ Reach (g2 m .vertex) (ρ x) x := by
      intro x x0 xn xu
      by_cases x1 : x = e
      · rw [x1, ρe]
        exact ⟨c0, hc, inuse 1 _ (by omega) hr c0, by simp [Ne.symm d4, Ne.symm d8],
          reach_symm hwf (pol := .vertex) trivial hn c0 oe⟩
      · by_cases x2 : x = m.β 2 e
        · rw [x2, ρr]
          exact ⟨a0, ha, inuse 1 _ (by omega) hn a0, by simp [Ne.symm d2, Ne.symm d6],
            reach_symm hwf (pol := .vertex) trivial hr a0 or'⟩
        · rw [ρx x x1 x2]; exact ⟨x0, xn, xu, by simp [x1, x2], .refl _⟩
    have πok : ∀ x, x ≠ 0 → x < m.n → m.unused x = false →
        π x ≠ 0 ∧ π x < m.n ∧ m.unused (π x) = false ∧ π x ∉ [e, m.β 2 e] ∧ Reach (g2 m' .vertex) x (π x) := by
      intro x x0 xn xu
      by_cases x1 : x = e
      · rw [x1, πe]
        exact ⟨hb, hbn, inuse 0 _ (by omega) hn hb, by simp [Ne.symm d3, Ne.symm d7], ne'⟩
      · by_cases x2 : x = m.β 2 e
        · rw [x2, πr]
          exact ⟨hd, hdn, inuse 0 _ (by omega) hr hd, by simp [Ne.symm d5, Ne.symm d9], nr⟩
        · rw [πx x x1 x2]; exact ⟨x0, xn, xu, by simp [x1, x2], .refl _⟩
    have oldid : ∀ a, a ∈ iterVertices2 m → a ≠ 0 ∧ a < m.n ∧ m.unused a = false ∧ cellId m .vertex a = a := by
      intro a ha
      obtain ⟨d, hd0, hd, hdu, rfl⟩ := (C03_iterVertices2_mem hwf a).1 ha
      have f := vid_facts hwf hd0 hd hdu
      exact ⟨f.1, f.2.1, f.2.2.1, f.2.2.2.2.2⟩
    have cnt := length_via_bijection (N := []) (N' := []) (nodup m) (nodup m') (fun x => cellId m' .vertex (ρ x))
      (by simp) (by simp) (by simp) (by simp) ?_ ?_
    · simpa using cnt
    · intro a b ha _ hb' _ hab
      obtain ⟨a0', an, au, ai⟩ := oldid a ha
      obtain ⟨b0', bn, bu, bi⟩ := oldid b hb'
      obtain ⟨ra0, ran, _, raT, rar⟩ := ρok a a0' an au
      obtain ⟨rb0, rbn, _, rbT, rbr⟩ := ρok b b0' bn bu
      have r' := (sameN _ _ ra0 ran rb0 rbn).1 hab
      have r := (part _ _ ra0 ran rb0 rbn raT rbT).1 r'
      have rab : Reach (g2 m .vertex) a b :=
        ((reach_symm hwf (pol := .vertex) trivial ran a0' rar).trans r).trans rbr
      have := (sameO a b a0' an b0' bn).2 rab
      rw [ai, bi] at this
      exact this
    · intro y
      simp only [List.not_mem_nil, not_false_eq_true, and_true, true_and]
      constructor
      · intro hy
        obtain ⟨d, hd0, hdn', hdu, rfl⟩ := (C03_iterVertices2_mem hw' y).1 hy
        rw [hn'] at hdn'
        rw [hu'] at hdu
        obtain ⟨pd0, pdn, pdu, pdT, pdr⟩ := πok d hd0 hdn' hdu
        have f := vid_facts hwf pd0 pdn pdu
        obtain ⟨rx0, rxn, _, rxT, rxr⟩ := ρok _ f.1 f.2.1 f.2.2.1
        refine ⟨cellId m .vertex (π d), (C03_iterVertices2_mem hwf _).2 ⟨π d, pd0, pdn, pdu, rfl⟩, ?_⟩
        have r1 : Reach (g2 m .vertex) (ρ (cellId m .vertex (π d))) (π d) := rxr.trans f.2.2.2.2.1
        have r2 := (part _ _ rx0 rxn pd0 pdn rxT pdT).2 r1
        rw [(sameN _ _ rx0 rxn pd0 pdn).2 r2]
        exact ((sameN _ _ hd0 hdn' pd0 pdn).2 pdr).symm
      · rintro ⟨x, hx, rfl⟩
        obtain ⟨x0, xn, xu, _⟩ := oldid x hx
        obtain ⟨rx0, rxn, rxu, _, _⟩ := ρok x x0 xn xu
        exact (C03_iterVertices2_mem hw' _).2 ⟨ρ x, rx0, by rw [hn']; exact rxn, by rw [hu']; exact rxu, rfl⟩

/-- **C15 (1), faces, inner cut, the count** -/
theorem C15_cutInner_face_count (cfg : Cfg Val) (m m' : Map Val) (e n1 n2 n3 n4 n5 n6 : Nat) (hwf : WF 3 m)
    (he : C01.InUse m e)
    (h : run (cutInnerEdge cfg m.n e n1 n2 n3 n4 n5 n6) m = (.ok (), m'))
    (hr0 : m.β 2 e ≠ 0)
    (htl : m.β 1 (m.β 1 e) = m.β 0 e) (hb : m.β 0 e ≠ 0)
    (htr : m.β 1 (m.β 1 (m.β 2 e)) = m.β 0 (m.β 2 e)) (hd : m.β 0 (m.β 2 e) ≠ 0)
    (hs : ∀ x, x ∈ [n1, n2, n3, n4, n5, n6] → Spare m x)
    (hnd : [e, m.β 2 e, m.β 1 e, m.β 0 e, m.β 1 (m.β 2 e), m.β 0 (m.β 2 e), n1, n2, n3, n4, n5, n6].Nodup) :
    (iterFaces2 m').length + 4 = (iterFaces2 m).length :=
  (C15_cutInner_faces cfg m m' e n1 n2 n3 n4 n5 n6 hwf he h hr0 htl hb htr hd hs hnd).2.2.2.2

/-- **C15 (2), inner cut, faces and vertices together** (`C15_cutInner_faces`, `C15_cutInner_vertices`): the four new faces
    with their identifiers, the new vertex `{n1, n3, n4, n6}` with identifier the smallest of the four, `n2` in the vertex
    of `β0 e`, `n5` in the vertex of `β0 (β2 e)`, every other face and the vertex partition of the old darts unchanged -/
theorem C15_cutInner_cells (cfg : Cfg Val) (m m' : Map Val) (e n1 n2 n3 n4 n5 n6 : Nat) (hwf : WF 3 m)
    (he : C01.InUse m e)
    (h : run (cutInnerEdge cfg m.n e n1 n2 n3 n4 n5 n6) m = (.ok (), m'))
    (hr0 : m.β 2 e ≠ 0)
    (htl : m.β 1 (m.β 1 e) = m.β 0 e) (hb : m.β 0 e ≠ 0)
    (htr : m.β 1 (m.β 1 (m.β 2 e)) = m.β 0 (m.β 2 e)) (hd : m.β 0 (m.β 2 e) ≠ 0)
    (hs : ∀ x, x ∈ [n1, n2, n3, n4, n5, n6] → Spare m x)
    (hnd : [e, m.β 2 e, m.β 1 e, m.β 0 e, m.β 1 (m.β 2 e), m.β 0 (m.β 2 e), n1, n2, n3, n4, n5, n6].Nodup) :
    WF 3 m' ∧
    (cellId m' .face e = min e (min n1 (m.β 0 e)) ∧ cellId m' .face n3 = min n3 (min (m.β 1 e) n2) ∧
      cellId m' .face (m.β 2 e) = min (m.β 2 e) (min n4 (m.β 0 (m.β 2 e))) ∧
      cellId m' .face n6 = min n6 (min (m.β 1 (m.β 2 e)) n5)) ∧
    (∀ d, d ≠ 0 → d < m.n →
      d ∉ [e, m.β 2 e, m.β 1 e, m.β 0 e, m.β 1 (m.β 2 e), m.β 0 (m.β 2 e), n1, n2, n3, n4, n5, n6] →
      (∀ x, x ∈ orb m' .face d ↔ x ∈ orb m .face d) ∧ cellId m' .face d = cellId m .face d) ∧
    cellId m' .vertex n1 = min n1 (min n3 (min n4 n6)) ∧
    (cellId m' .vertex n3 = cellId m' .vertex n1 ∧ cellId m' .vertex n4 = cellId m' .vertex n1 ∧
      cellId m' .vertex n6 = cellId m' .vertex n1) ∧
    cellId m' .vertex n2 = cellId m' .vertex (m.β 0 e) ∧ cellId m' .vertex n5 = cellId m' .vertex (m.β 0 (m.β 2 e)) ∧
    (∀ p q, p ≠ 0 → p < m.n → q ≠ 0 → q < m.n → p ∉ [n1, n2, n3, n4, n5, n6] → q ∉ [n1, n2, n3, n4, n5, n6] →
      (cellId m' .vertex p = cellId m' .vertex q ↔ cellId m .vertex p = cellId m .vertex q)) := by
  obtain ⟨a1, a2, _, a4, _⟩ := C15_cutInner_faces cfg m m' e n1 n2 n3 n4 n5 n6 hwf he h hr0 htl hb htr hd hs hnd
  obtain ⟨b1, b2, b3, b4, b5, _⟩ := C15_cutInner_vertices cfg m m' e n1 n2 n3 n4 n5 n6 hwf he h hr0 htl hb htr hd hs hnd
  exact ⟨a1, a2, a4, b1, b2, b3, b4, b5⟩

/-- **C15 (1), swap, the three counts**: `swap_edge` keeps the numbers of vertices, edges and faces the iterators yield -/
theorem C15_swap_counts (cfg : Cfg Val) (m m' : Map Val) (e : Nat) (hwf : WF 3 m) (he : C01.InUse m e)
    (h : run (swapEdge cfg m.n e) m = (.ok (), m'))
    (hb : m.β 0 e ≠ 0) (hd : m.β 0 (m.β 2 e) ≠ 0)
    (hnd : [e, m.β 2 e, m.β 1 e, m.β 0 e, m.β 1 (m.β 2 e), m.β 0 (m.β 2 e)].Nodup) :
    (iterVertices2 m').length = (iterVertices2 m).length ∧ (iterEdges2 m').length = (iterEdges2 m).length ∧
    (iterFaces2 m').length = (iterFaces2 m).length := by
  obtain ⟨_, _, _, _, u, _, hn', hu⟩ := C15_swap_topology cfg m m' e hwf he.2.1 h hb hd hnd
  obtain ⟨r0, gl, gr, _⟩ := swap_ok_facts cfg m m' e hwf he h hb hd
  have a0 : m.β 1 e ≠ 0 := fun hh => hb (by rw [← gl, hh]; exact hwf.null 1 (by omega))
  have c0 : m.β 1 (m.β 2 e) ≠ 0 := fun hh => hd (by rw [← gr, hh]; exact hwf.null 1 (by omega))
  exact ⟨(C15_swap_cells cfg m m' e hwf he h hb hd hnd).2.2.2,
    C15_swap_edge_count cfg m m' e hwf he h ⟨a0, hb⟩ (fun _ => ⟨c0, hd⟩) u hn' hu,
    C15_swap_face_count cfg m m' e hwf he h hb hd hnd⟩


/-! ## (3) swap: where the four corner values go

The values are followed at dart level (`vval`, Lemmas/RemeshValues.lean).  The six unsews change no value; each 1-sew
merges two vertices.  Which darts belong to the merged vertex is only needed up to the FINAL vertex partition
(`C15_swap_cells`): the sews only add connections, so darts of different final vertices never interact. -/

/-- a point value -/
def IsPt (v : Val) : Prop := ∃ x y z, v = .pt x y z

/-- the average the vertex law computes -/
def midV (a b : Val) : Val :=
  match a, b with
  | .pt x y z, .pt x' y' z' => .pt ((x + x') / 2) ((y + y') / 2) ((z + z') / 2)
  | a, _ => a

theorem midV_pt {a b : Val} (ha : IsPt a) (hb : IsPt b) : IsPt (midV a b) := by
  obtain ⟨x, y, z, rfl⟩ := ha; obtain ⟨x', y', z', rfl⟩ := hb; exact ⟨_, _, _, rfl⟩

theorem midV_self {a : Val} (ha : IsPt a) : midV a a = a := by
  obtain ⟨x, y, z, rfl⟩ := ha
  simp only [midV]
  congr 1 <;> ring

theorem midV_comm {a b : Val} (ha : IsPt a) (hb : IsPt b) : midV a b = midV b a := by
  obtain ⟨x, y, z, rfl⟩ := ha; obtain ⟨x', y', z', rfl⟩ := hb
  simp only [midV]
  congr 1 <;> ring

theorem merge_pts {a b : Val} (ha : IsPt a) (hb : IsPt b) : mergeVal avgLaw (some a) (some b) = .ok (midV a b) := by
  obtain ⟨x, y, z, rfl⟩ := ha; obtain ⟨x', y', z', rfl⟩ := hb; rfl

/-- one unsew of a straight-line kernel, at value level -/
theorem unsew_step (cfg : Cfg Val) (hL : cfg.law 0 = avgLaw) {n : Nat} {u : Array Bool} {l : Nat} {s s' : Map Val}
    (J : Inv n u s) (hfc : s.fc = 0) (hl : Live n u l) (hrun : run (oneUnsew2 cfg n l) s = (.ok (), s')) :
    Inv n u s' ∧ s'.fc = 0 ∧ (∀ x, s'.β 2 x = s.β 2 x) ∧ ∀ x, x ≠ 0 → x < n → vval s' x = vval s x := by
  have J' := keeps_oneUnsew2 cfg n hl s s' () J hrun
  obtain ⟨hβ, _, _, fc', vv⟩ := vval_oneUnsew2 cfg (by rw [hL]; exact copySplit_avgLaw) J.wf J'.wf J.n_eq hfc hl.2.1 hrun
  exact ⟨J', fc', fun x => by rw [hβ, unl1_two'], vv⟩

/-- one 1-sew of a straight-line kernel, at value level.  `K` is any colouring constant on the vertices of the map
    after the step (in the applications: the vertex identifier in the FINAL map). -/
theorem sew_step (cfg : Cfg Val) (hL : cfg.law 0 = avgLaw) {n : Nat} {u : Array Bool} {l r : Nat} {s s' : Map Val}
    (J : Inv n u s) (hfc : s.fc = 0) (hl : Live n u l) (hr : Live n u r)
    (hrun : run (oneSew2 cfg n l r) s = (.ok (), s')) :
    Inv n u s' ∧ s'.fc = 0 ∧ (∀ x, s'.β 2 x = s.β 2 x) ∧ (∀ x y, VC s x y → VC s' x y) ∧
    (s.β 2 l ≠ 0 → VC s' (s.β 2 l) r) ∧
    (s.β 2 l = 0 → ∀ x, x ≠ 0 → x < n → vval s' x = vval s x) ∧
    (∀ K : Nat → Nat, (∀ x y, x ≠ 0 → x < n → y ≠ 0 → y < n → VC s' x y → K x = K y) →
      ∀ x, x ≠ 0 → x < n → K x ≠ K r → vval s' x = vval s x) ∧
    (s.β 2 l ≠ 0 → ∀ pa pb, vval s (s.β 2 l) = some pa → vval s r = some pb → IsPt pa → IsPt pb →
      vval s' r = some (midV pa pb) ∧ vval s' (s.β 2 l) = some (midV pa pb) ∧
      ∀ x, x ≠ 0 → x < n → vval s' x = some (midV pa pb) ∨ vval s' x = vval s x) := by
  have J' := keeps_oneSew2 cfg n hl hr s s' () J hrun
  obtain ⟨hβ, _, _, fc', mono, nul, W⟩ := vval_oneSew2 cfg J.wf J'.wf J.n_eq hfc hr.1 hr.2.1 hrun
  have an : s.β 2 l ≠ 0 → s.β 2 l < n := fun _ => by
    have := J.wf.range 2 (by omega) l (by rw [J.n_eq]; exact hl.2.1); rw [J.n_eq] at this; exact this
  refine ⟨J', fc', fun x => by rw [hβ, lnk1_two'], mono, fun h2 => (W h2).1, nul, ?_, ?_⟩
  · intro K hK x x0 xn hx
    by_cases h2 : s.β 2 l = 0
    · exact nul h2 x x0 xn
    · obtain ⟨new, _, _, oth, _, _⟩ := W h2
      refine oth x x0 xn ?_ ?_
      · intro hc; exact hx (hK _ _ x0 xn hr.1 hr.2.1 ((mono _ _ hc).trans new))
      · intro hc; exact hx (hK _ _ x0 xn hr.1 hr.2.1 (mono _ _ hc))
  · intro h2 pa pb hpa hpb ia ib
    obtain ⟨new, Wv, inn, oth, mg, mv⟩ := W h2
    have hW : Wv = some (midV pa pb) := by
      by_cases hid : cellId s .vertex (s.β 2 l) = cellId s .vertex r
      · have e1 := mv hid
        have : vval s (s.β 2 l) = vval s r := by unfold vval; rw [hid]
        rw [hpa, hpb] at this
        simp only [Option.some.injEq] at this
        rw [e1, hpb, ← this, midV_self ia, this]
      · obtain ⟨v, hv, e1⟩ := mg hid
        rw [hpa, hpb, hL, merge_pts ia ib] at hv
        simp only [Except.ok.injEq] at hv
        rw [e1, hv]
    refine ⟨?_, ?_, ?_⟩
    · rw [inn r hr.1 hr.2.1 (Or.inr (.refl _)), hW]
    · rw [inn _ h2 (an h2) (Or.inl (.refl _)), hW]
    · intro x x0 xn
      by_cases hc : VC s x (s.β 2 l) ∨ VC s x r
      · exact Or.inl (by rw [inn x x0 xn hc, hW])
      · exact Or.inr (oth x x0 xn (fun h => hc (Or.inl h)) (fun h => hc (Or.inr h)))

/-- the empty-vertex case of a 1-sew: the vertex of `β2 l` holds nothing, the merged vertex keeps the value of `r` -/
theorem sew_step_none (cfg : Cfg Val) (hL : cfg.law 0 = avgLaw) {n : Nat} {u : Array Bool} {l r : Nat} {s s' : Map Val}
    (J : Inv n u s) (hfc : s.fc = 0) (hl : Live n u l) (hr : Live n u r)
    (hrun : run (oneSew2 cfg n l r) s = (.ok (), s')) (h2 : s.β 2 l ≠ 0) {pb : Val}
    (hpa : vval s (s.β 2 l) = none) (hpb : vval s r = some pb) :
    vval s' r = some pb ∧ vval s' (s.β 2 l) = some pb ∧
    ∀ x, x ≠ 0 → x < n → vval s' x = some pb ∨ vval s' x = vval s x := by
  have J' := keeps_oneSew2 cfg n hl hr s s' () J hrun
  obtain ⟨_, _, _, _, _, _, W⟩ := vval_oneSew2 cfg J.wf J'.wf J.n_eq hfc hr.1 hr.2.1 hrun
  have an : s.β 2 l < n := by
    have := J.wf.range 2 (by omega) l (by rw [J.n_eq]; exact hl.2.1); rw [J.n_eq] at this; exact this
  obtain ⟨_, Wv, inn, oth, mg, mv⟩ := W h2
  have hW : Wv = some pb := by
    by_cases hid : cellId s .vertex (s.β 2 l) = cellId s .vertex r
    · rw [mv hid, hpb]
    · obtain ⟨v, hv, e1⟩ := mg hid
      rw [hpa, hpb, hL] at hv
      simp only [mergeVal, avgLaw, Except.ok.injEq] at hv
      rw [e1, hv]
  refine ⟨by rw [inn r hr.1 hr.2.1 (Or.inr (.refl _)), hW], by rw [inn _ h2 an (Or.inl (.refl _)), hW], ?_⟩
  intro x x0 xn
  by_cases hc : VC s x (s.β 2 l) ∨ VC s x r
  · exact Or.inl (by rw [inn x x0 xn hc, hW])
  · exact Or.inr (oth x x0 xn (fun h => hc (Or.inl h)) (fun h => hc (Or.inr h)))

theorem sew_step_beta (cfg : Cfg Val) {n l r : Nat} {s s' : Map Val}
    (hrun : run (oneSew2 cfg n l r) s = (.ok (), s')) : s'.β = lnk1 s.β l r := (step_oneSew2 hrun).2.2.β

theorem unsew_step_beta (cfg : Cfg Val) {n l : Nat} {s s' : Map Val}
    (hrun : run (oneUnsew2 cfg n l) s = (.ok (), s')) : s'.β = unl1 s.β l := (step_oneUnsew2 hrun).2.β

/-- the 2-unsew of an interior edge between two different vertices, at value level -/
theorem twoUnsew_step (cfg : Cfg Val) (hL : cfg.law 0 = avgLaw) {n : Nat} {u : Array Bool} {l : Nat} {s s' : Map Val}
    (J : Inv n u s) (hfc : s.fc = 0) (hl : Live n u l) (h1l : s.β 1 l ≠ 0) (h1r : s.β 1 (s.β 2 l) ≠ 0)
    (hdiff : ¬ VC s l (s.β 2 l)) (hrun : run (twoUnsew2 cfg n l) s = (.ok (), s')) :
    Inv n u s' ∧ s'.fc = 0 ∧ s'.β = unl2 s.β l ∧ ∀ x, x ≠ 0 → x < n → vval s' x = vval s x := by
  have J' := keeps_twoUnsew2 cfg n hl s s' () J hrun
  obtain ⟨hβ, _, _, fc', _, vv⟩ := vval_twoUnsew2_both cfg (by rw [hL]; exact copySplit_avgLaw) J.wf J'.wf J.n_eq hfc
    hl.2.1 h1l h1r hdiff hrun
  exact ⟨J', fc', hβ, vv⟩

/-- the 2-sew of two 1-free darts, at value level -/
theorem twoSew_free_step (cfg : Cfg Val) {n : Nat} {u : Array Bool} {l r : Nat} {s s' : Map Val}
    (J : Inv n u s) (hfc : s.fc = 0) (hl : Live n u l) (hr : Live n u r) (hlr : l ≠ r) (hl0 : s.β 1 l = 0)
    (hr0 : s.β 1 r = 0) (hrun : run (twoSew2 cfg n l r) s = (.ok (), s')) :
    Inv n u s' ∧ s'.fc = 0 ∧ s'.β = lnk2 s.β l r ∧ ∀ x, x ≠ 0 → x < n → vval s' x = vval s x := by
  have J' := keeps_twoSew2 cfg n hl hr hlr s s' () J hrun
  obtain ⟨hβ, _, fc', _, vv⟩ := vval_twoSew2_free cfg J.wf J'.wf J.n_eq hfc hl0 hr0 hlr hrun
  exact ⟨J', fc', hβ, vv⟩

theorem keeps0_spreadEdgeAnchor (cfg : Cfg Val) (k : Nat) (ea : Option Val) (a : Nat) :
    Keeps0 (spreadEdgeAnchor cfg k ea a) := by
  unfold spreadEdgeAnchor
  cases ea
  · exact Keeps0.pure _
  · refine Keeps0.bind (Keeps0.ro (readOnly_vertexId2 _ _)) fun _ => ?_
    exact Keeps0.bind (keeps0_writeAttr cfg (by simp [stVA]) _ _) fun _ => Keeps0.pure _

/-- the editing part of a successful swap -/
theorem swap_body_run (cfg : Cfg Val) (m m' : Map Val) (e : Nat) (hwf : WF 3 m) (he : C01.InUse m e)
    (h : run (swapEdge cfg m.n e) m = (.ok (), m')) :
    run (swapBody cfg m.n e (m.β 2 e) (m.β 0 e) (m.β 1 e) (m.β 0 (m.β 2 e)) (m.β 1 (m.β 2 e))) m = (.ok (), m') := by
  have hn := he.2.1
  have g := h
  rw [C15_swap_guards cfg m.n e m (fun i d hi hd => (hwf.toSized.okβ i d).2 ⟨hi, hd⟩)
    (fun i d hi hd => hwf.range i hi d hd) hn] at g
  simp only [he.1, if_false] at g
  have r0 : m.β 2 e ≠ 0 := by intro hh; simp [hh] at g
  simp only [r0, if_false] at g
  have gg : ¬ (m.β 1 (m.β 1 e) ≠ m.β 0 e ∨ m.β 1 (m.β 1 (m.β 2 e)) ≠ m.β 0 (m.β 2 e)) := by
    intro hh; simp [hh] at g
  simp only [gg, if_false] at g
  exact g

/-- **C15 (3), swap, the four corner values** (finding D9 as a theorem on arbitrary meshes): let the four corners of the
    two triangles be different vertices holding the points `A` (origin of `e`), `B` (origin of `r = β2 e`), `C` (origin
    of `β0 e`), `D` (origin of `β0 r`), under the average law of `Vertex2/Vertex3` (`cfg.law 0 = avgLaw`, no fault
    injected).  After a successful `swap_edge(e)`
    * the vertices of `β1 r` and `β1 e` — the old end points, which lost `e` and `r` — still hold `A` and `B`;
    * the vertex of `β0 e` (which gained `e`) holds `(C + A)/2` or `((C + A)/2 + C)/2`, NOT `C`;
    * the vertex of `β0 r` (which gained `r`) holds `(B + D)/2` or `((B + D)/2 + D)/2`, NOT `D`.
    The second alternatives are the open-fan cases (`t = 1/4` in the finding's text).  Proof: the six unsews change no
    dart's value (copies), `e` and `r` keep copies of `A`, `B`; the sews `(e, β0 r)` and `(β1 e, e)` / `(r, β0 e)` merge
    those copies into `D` and `C`. -/
theorem C15_swap_moves_corners (cfg : Cfg Val) (hL : cfg.law 0 = avgLaw) (m m' : Map Val) (e : Nat) (hwf : WF 3 m)
    (hfc : m.fc = 0) (he : C01.InUse m e)
    (h : run (swapEdge cfg m.n e) m = (.ok (), m'))
    (hb : m.β 0 e ≠ 0) (hd : m.β 0 (m.β 2 e) ≠ 0)
    (hnd : [e, m.β 2 e, m.β 1 e, m.β 0 e, m.β 1 (m.β 2 e), m.β 0 (m.β 2 e)].Nodup)
    (hcor : [cellId m .vertex e, cellId m .vertex (m.β 2 e), cellId m .vertex (m.β 0 e),
      cellId m .vertex (m.β 0 (m.β 2 e))].Nodup)
    {A B C D : Val} (iA : IsPt A) (iB : IsPt B) (iC : IsPt C) (iD : IsPt D)
    (hA : m.att 0 (cellId m .vertex e) = some A) (hB : m.att 0 (cellId m .vertex (m.β 2 e)) = some B)
    (hC : m.att 0 (cellId m .vertex (m.β 0 e)) = some C)
    (hD : m.att 0 (cellId m .vertex (m.β 0 (m.β 2 e))) = some D) :
    m'.att 0 (cellId m' .vertex (m.β 1 (m.β 2 e))) = some A ∧
    m'.att 0 (cellId m' .vertex (m.β 1 e)) = some B ∧
    (m'.att 0 (cellId m' .vertex (m.β 0 e)) = some (midV C A) ∨
      m'.att 0 (cellId m' .vertex (m.β 0 e)) = some (midV (midV C A) C)) ∧
    (m'.att 0 (cellId m' .vertex (m.β 0 (m.β 2 e))) = some (midV B D) ∨
      m'.att 0 (cellId m' .vertex (m.β 0 (m.β 2 e))) = some (midV (midV B D) D)) := by
  have hn := he.2.1
  obtain ⟨r0, gl, gr, hw'⟩ := swap_ok_facts cfg m m' e hwf he h hb hd
  obtain ⟨⟨oAc, oBa⟩, ⟨kE, kR⟩, part, _⟩ := C15_swap_cells cfg m m' e hwf he h hb hd hnd
  obtain ⟨_, _, _, _, _, _, hn', _⟩ := C15_swap_topology cfg m m' e hwf hn h hb hd hnd
  have g := swap_body_run cfg m m' e hwf he h
  have hr : m.β 2 e < m.n := hwf.range 2 (by omega) e hn
  have a0 : m.β 1 e ≠ 0 := fun hh => hb (by rw [← gl, hh]; exact hwf.null 1 (by omega))
  have c0 : m.β 1 (m.β 2 e) ≠ 0 := fun hh => hd (by rw [← gr, hh]; exact hwf.null 1 (by omega))
  have ha : m.β 1 e < m.n := hwf.range 1 (by omega) e hn
  have hc : m.β 1 (m.β 2 e) < m.n := hwf.range 1 (by omega) _ hr
  have hbn : m.β 0 e < m.n := hwf.range 0 (by omega) e hn
  have hdn : m.β 0 (m.β 2 e) < m.n := hwf.range 0 (by omega) _ hr
  have er := (hwf.invol 2 (by omega) (by omega) e hn r0).1
  have hnd' := hnd
  simp only [List.nodup_cons, List.mem_cons, List.mem_nil_iff, not_or, or_false, List.nodup_nil, and_true] at hnd'
  obtain ⟨⟨d1, d2, d3, d4, d5⟩, ⟨d6, d7, d8, d9⟩, ⟨d10, d11, d12⟩, ⟨d13, d14⟩, d15, _⟩ := hnd'
  simp only [List.nodup_cons, List.mem_cons, List.mem_nil_iff, not_or, or_false, List.nodup_nil, and_true] at hcor
  obtain ⟨⟨c1, c2, c3⟩, ⟨c4, c5⟩, c6, _⟩ := hcor
  have Le : Live m.n m.u e := Live.of_inUse he
  have Lr := live_image hwf (by omega : 2 < 3) hn r0
  have La := live_image hwf (by omega : 1 < 3) hn a0
  have Lb := live_image hwf (by omega : 0 < 3) hn hb
  have Lc := live_image hwf (by omega : 1 < 3) hr c0
  have Ld := live_image hwf (by omega : 0 < 3) hr hd
  -- the twelve steps
  unfold swapBody at g
  obtain ⟨_, s1, r1, g⟩ := run_bind_ok g
  obtain ⟨J1, f1, b1, v1⟩ := unsew_step cfg hL (Inv.of_wf hwf) hfc Le r1
  obtain ⟨_, s2, r2, g⟩ := run_bind_ok g
  obtain ⟨J2, f2, b2, v2⟩ := unsew_step cfg hL J1 f1 Lr r2
  obtain ⟨_, s3, r3, g⟩ := run_bind_ok g
  obtain ⟨J3, f3, b3, v3⟩ := unsew_step cfg hL J2 f2 Lb r3
  obtain ⟨_, s4, r4, g⟩ := run_bind_ok g
  obtain ⟨J4, f4, b4, v4⟩ := unsew_step cfg hL J3 f3 Ld r4
  obtain ⟨_, s5, r5, g⟩ := run_bind_ok g
  obtain ⟨J5, f5, b5, v5⟩ := unsew_step cfg hL J4 f4 La r5
  obtain ⟨_, s6, r6, g⟩ := run_bind_ok g
  obtain ⟨J6, f6, b6, v6⟩ := unsew_step cfg hL J5 f5 Lc r6
  have V6 : ∀ x, x ≠ 0 → x < m.n → vval s6 x = vval m x := fun x x0 xn => by
    rw [v6 x x0 xn, v5 x x0 xn, v4 x x0 xn, v3 x x0 xn, v2 x x0 xn, v1 x x0 xn]
  have B6 : ∀ x, s6.β 2 x = m.β 2 x := fun x => by rw [b6, b5, b4, b3, b2, b1]
  obtain ⟨_, s7, r7, g⟩ := run_bind_ok g
  obtain ⟨J7, f7, b7, m7, n7, z7, k7, w7⟩ := sew_step cfg hL J6 f6 Le Ld r7
  obtain ⟨_, s8, r8, g⟩ := run_bind_ok g
  obtain ⟨J8, f8, b8, m8, n8, z8, k8, w8⟩ := sew_step cfg hL J7 f7 Ld La r8
  obtain ⟨_, s9, r9, g⟩ := run_bind_ok g
  obtain ⟨J9, f9, b9, m9, n9, z9, k9, w9⟩ := sew_step cfg hL J8 f8 La Le r9
  obtain ⟨_, s10, r10, g⟩ := run_bind_ok g
  obtain ⟨J10, f10, b10, m10, n10, z10, k10, w10⟩ := sew_step cfg hL J9 f9 Lr Lb r10
  obtain ⟨_, s11, r11, g⟩ := run_bind_ok g
  obtain ⟨J11, f11, b11, m11, n11, z11, k11, w11⟩ := sew_step cfg hL J10 f10 Lb Lc r11
  obtain ⟨J12, f12, b12, m12, n12, z12, k12, w12⟩ := sew_step cfg hL J11 f11 Lc Lr g
  -- β2 never changes
  have B7 : ∀ x, s7.β 2 x = m.β 2 x := fun x => by rw [b7, B6]
  have B8 : ∀ x, s8.β 2 x = m.β 2 x := fun x => by rw [b8, B7]
  have B9 : ∀ x, s9.β 2 x = m.β 2 x := fun x => by rw [b9, B8]
  have B10 : ∀ x, s10.β 2 x = m.β 2 x := fun x => by rw [b10, B9]
  have B11 : ∀ x, s11.β 2 x = m.β 2 x := fun x => by rw [b11, B10]
  rw [B6] at n7 z7 w7
  rw [B7] at n8 z8 w8
  rw [B8] at n9 z9 w9
  rw [B9] at n10 z10 w10
  rw [B10] at n11 z11 w11
  rw [B11] at n12 z12 w12
  -- the final colouring
  obtain ⟨K, hKdef⟩ : ∃ K : Nat → Nat, K = fun x => cellId m' .vertex x := ⟨_, rfl⟩
  have Kx : ∀ x, K x = cellId m' .vertex x := fun x => by rw [hKdef]
  have hK12 : ∀ x y, x ≠ 0 → x < m.n → y ≠ 0 → y < m.n → VC m' x y → K x = K y := by
    intro x y x0 xn y0 yn hc
    rw [Kx, Kx]
    exact (vid_of_vc hw' x0 (by rw [hn']; exact xn) y0 (by rw [hn']; exact yn)).2 hc
  have hK11 : ∀ x y, x ≠ 0 → x < m.n → y ≠ 0 → y < m.n → VC s11 x y → K x = K y :=
    fun x y x0 xn y0 yn hc => hK12 x y x0 xn y0 yn (m12 _ _ hc)
  have hK10 : ∀ x y, x ≠ 0 → x < m.n → y ≠ 0 → y < m.n → VC s10 x y → K x = K y :=
    fun x y x0 xn y0 yn hc => hK11 x y x0 xn y0 yn (m11 _ _ hc)
  have hK9 : ∀ x y, x ≠ 0 → x < m.n → y ≠ 0 → y < m.n → VC s9 x y → K x = K y :=
    fun x y x0 xn y0 yn hc => hK10 x y x0 xn y0 yn (m10 _ _ hc)
  have hK8 : ∀ x y, x ≠ 0 → x < m.n → y ≠ 0 → y < m.n → VC s8 x y → K x = K y :=
    fun x y x0 xn y0 yn hc => hK9 x y x0 xn y0 yn (m9 _ _ hc)
  have hK7 : ∀ x y, x ≠ 0 → x < m.n → y ≠ 0 → y < m.n → VC s7 x y → K x = K y :=
    fun x y x0 xn y0 yn hc => hK8 x y x0 xn y0 yn (m8 _ _ hc)
  have kE : K e = K (m.β 0 e) := by rw [Kx, Kx]; exact kE
  have kR : K (m.β 2 e) = K (m.β 0 (m.β 2 e)) := by rw [Kx, Kx]; exact kR
  have partK : ∀ p q, p ≠ 0 → p < m.n → q ≠ 0 → q < m.n → p ≠ e → p ≠ m.β 2 e → q ≠ e → q ≠ m.β 2 e →
      (K p = K q ↔ cellId m .vertex p = cellId m .vertex q) := by
    intro p q p0 pn q0 qn p1 p2 q1 q2
    rw [Kx, Kx]
    exact part p q p0 pn q0 qn (by simp [p1, p2]) (by simp [q1, q2])
  -- the four final colours are different
  have kAB : K (m.β 1 (m.β 2 e)) ≠ K (m.β 1 e) := fun hh =>
    c1 (by rw [oAc, oBa]; exact (partK _ _ c0 hc a0 ha (Ne.symm d4) (Ne.symm d8) (Ne.symm d2) (Ne.symm d6)).1 hh)
  have kAC : K (m.β 1 (m.β 2 e)) ≠ K (m.β 0 e) := fun hh =>
    c2 (by rw [oAc]; exact (partK _ _ c0 hc hb hbn (Ne.symm d4) (Ne.symm d8) (Ne.symm d3) (Ne.symm d7)).1 hh)
  have kAD : K (m.β 1 (m.β 2 e)) ≠ K (m.β 0 (m.β 2 e)) := fun hh =>
    c3 (by rw [oAc]; exact (partK _ _ c0 hc hd hdn (Ne.symm d4) (Ne.symm d8) (Ne.symm d5) (Ne.symm d9)).1 hh)
  have kBC : K (m.β 1 e) ≠ K (m.β 0 e) := fun hh =>
    c4 (by rw [oBa]; exact (partK _ _ a0 ha hb hbn (Ne.symm d2) (Ne.symm d6) (Ne.symm d3) (Ne.symm d7)).1 hh)
  have kBD : K (m.β 1 e) ≠ K (m.β 0 (m.β 2 e)) := fun hh =>
    c5 (by rw [oBa]; exact (partK _ _ a0 ha hd hdn (Ne.symm d2) (Ne.symm d6) (Ne.symm d5) (Ne.symm d9)).1 hh)
  have kCD : K (m.β 0 e) ≠ K (m.β 0 (m.β 2 e)) := fun hh =>
    c6 ((partK _ _ hb hbn hd hdn (Ne.symm d3) (Ne.symm d7) (Ne.symm d5) (Ne.symm d9)).1 hh)
  -- what the darts of each final colour saw before the call
  have clsA : ∀ x, x ≠ 0 → x < m.n → K x = K (m.β 1 (m.β 2 e)) → vval m x = some A := by
    intro x x0 xn hx
    have x1 : x ≠ e := by intro hh; rw [hh, kE] at hx; exact kAC hx.symm
    have x2 : x ≠ m.β 2 e := by intro hh; rw [hh, kR] at hx; exact kAD hx.symm
    have := (partK x _ x0 xn c0 hc x1 x2 (Ne.symm d4) (Ne.symm d8)).1 hx
    unfold vval; rw [this, ← oAc]; exact hA
  have clsB : ∀ x, x ≠ 0 → x < m.n → K x = K (m.β 1 e) → vval m x = some B := by
    intro x x0 xn hx
    have x1 : x ≠ e := by intro hh; rw [hh, kE] at hx; exact kBC hx.symm
    have x2 : x ≠ m.β 2 e := by intro hh; rw [hh, kR] at hx; exact kBD hx.symm
    have := (partK x _ x0 xn a0 ha x1 x2 (Ne.symm d2) (Ne.symm d6)).1 hx
    unfold vval; rw [this, ← oBa]; exact hB
  have clsC : ∀ x, x ≠ 0 → x < m.n → K x = K (m.β 0 e) → x ≠ e → vval m x = some C := by
    intro x x0 xn hx x1
    have x2 : x ≠ m.β 2 e := by intro hh; rw [hh, kR] at hx; exact kCD hx.symm
    have := (partK x _ x0 xn hb hbn x1 x2 (Ne.symm d3) (Ne.symm d7)).1 hx
    unfold vval; rw [this]; exact hC
  have clsD : ∀ x, x ≠ 0 → x < m.n → K x = K (m.β 0 (m.β 2 e)) → x ≠ m.β 2 e → vval m x = some D := by
    intro x x0 xn hx x2
    have x1 : x ≠ e := by intro hh; rw [hh, kE] at hx; exact kCD hx
    have := (partK x _ x0 xn hd hdn x1 x2 (Ne.symm d5) (Ne.symm d9)).1 hx
    unfold vval; rw [this]; exact hD
  have valE : vval m e = some A := hA
  have valR : vval m (m.β 2 e) = some B := hB
  -- a step of another colour changes nothing for this colour
  have keep : ∀ (col : Nat) (Q : Nat → Option Val → Prop) (s s' : Map Val) (rk : Nat),
      (∀ x, x ≠ 0 → x < m.n → K x ≠ K rk → vval s' x = vval s x) → col ≠ K rk →
      (∀ x, x ≠ 0 → x < m.n → K x = col → Q x (vval s x)) → ∀ x, x ≠ 0 → x < m.n → K x = col → Q x (vval s' x) := by
    intro col Q s s' rk hk hne P x x0 xn hx
    rw [hk x x0 xn (by rw [hx]; exact hne)]; exact P x x0 xn hx
  -- a step inside a colour whose darts all see the same point
  have same : ∀ (col : Nat) (P : Val) (s s' : Map Val) (ak rk : Nat), IsPt P → rk ≠ 0 → rk < m.n → ak < m.n →
      K rk = col → (ak ≠ 0 → K ak = col) →
      (ak = 0 → ∀ x, x ≠ 0 → x < m.n → vval s' x = vval s x) →
      (ak ≠ 0 → ∀ pa pb, vval s ak = some pa → vval s rk = some pb → IsPt pa → IsPt pb →
        vval s' rk = some (midV pa pb) ∧ vval s' ak = some (midV pa pb) ∧
        ∀ x, x ≠ 0 → x < m.n → vval s' x = some (midV pa pb) ∨ vval s' x = vval s x) →
      (∀ x, x ≠ 0 → x < m.n → K x = col → vval s x = some P) → ∀ x, x ≠ 0 → x < m.n → K x = col → vval s' x = some P := by
    intro col P s s' ak rk iP rk0 rkn akn kr ka hz hw Pre x x0 xn hx
    by_cases h2 : ak = 0
    · rw [hz h2 x x0 xn]; exact Pre x x0 xn hx
    · obtain ⟨_, _, all⟩ := hw h2 P P (Pre ak h2 akn (ka h2)) (Pre rk rk0 rkn kr) iP iP
      rw [midV_self iP] at all
      rcases all x x0 xn with hh | hh
      · exact hh
      · rw [hh]; exact Pre x x0 xn hx
  have rng2 : ∀ x, x < m.n → m.β 2 x < m.n := fun x hx => hwf.range 2 (by omega) x hx
  -- colour A
  have A6 : ∀ x, x ≠ 0 → x < m.n → K x = K (m.β 1 (m.β 2 e)) → vval s6 x = some A := fun x x0 xn hx => by
    rw [V6 x x0 xn]; exact clsA x x0 xn hx
  have A7 := keep _ (fun _ v => v = some A) s6 s7 _ (k7 K hK7) kAD A6
  have A8 := keep _ (fun _ v => v = some A) s7 s8 _ (k8 K hK8) kAB A7
  have A9 := keep _ (fun _ v => v = some A) s8 s9 _ (k9 K hK9) (by rw [kE]; exact kAC) A8
  have A10 := keep _ (fun _ v => v = some A) s9 s10 _ (k10 K hK10) kAC A9
  have A11 := same _ A s10 s11 (m.β 2 (m.β 0 e)) (m.β 1 (m.β 2 e)) iA c0 hc (rng2 _ hbn) rfl
    (fun h2 => hK11 _ _ h2 (rng2 _ hbn) c0 hc (n11 h2)) z11 w11 A10
  have A12 := keep _ (fun _ v => v = some A) s11 m' _ (k12 K hK12) (by rw [kR]; exact kAD) A11
  -- colour B
  have Bc6 : ∀ x, x ≠ 0 → x < m.n → K x = K (m.β 1 e) → vval s6 x = some B := fun x x0 xn hx => by
    rw [V6 x x0 xn]; exact clsB x x0 xn hx
  have Bc7 := keep _ (fun _ v => v = some B) s6 s7 _ (k7 K hK7) kBD Bc6
  have Bc8 := same _ B s7 s8 (m.β 2 (m.β 0 (m.β 2 e))) (m.β 1 e) iB a0 ha (rng2 _ hdn) rfl
    (fun h2 => hK8 _ _ h2 (rng2 _ hdn) a0 ha (n8 h2)) z8 w8 Bc7
  have Bc9 := keep _ (fun _ v => v = some B) s8 s9 _ (k9 K hK9) (by rw [kE]; exact kBC) Bc8
  have Bc10 := keep _ (fun _ v => v = some B) s9 s10 _ (k10 K hK10) kBC Bc9
  have Bc11 := keep _ (fun _ v => v = some B) s10 s11 _ (k11 K hK11) (Ne.symm kAB) Bc10
  have Bc12 := keep _ (fun _ v => v = some B) s11 m' _ (k12 K hK12) (by rw [kR]; exact kBD) Bc11
  -- colour D: the old vertex D and the dart `r`
  have r0' : m.β 2 e ≠ 0 := r0
  have D6 : ∀ x, x ≠ 0 → x < m.n → K x = K (m.β 0 (m.β 2 e)) → x ≠ m.β 2 e → vval s6 x = some D :=
    fun x x0 xn hx x2 => by rw [V6 x x0 xn]; exact clsD x x0 xn hx x2
  have R6 : vval s6 (m.β 2 e) = some B := by rw [V6 _ r0 hr]; exact valR
  obtain ⟨d7v, r7v, all7⟩ := w7 r0 B D R6 (D6 _ hd hdn rfl (Ne.symm d9)) iB iD
  have D7 : ∀ x, x ≠ 0 → x < m.n → K x = K (m.β 0 (m.β 2 e)) →
      (fun _ v => v = some D ∨ v = some (midV B D)) x (vval s7 x) := by
    intro x x0 xn hx
    by_cases x2 : x = m.β 2 e
    · rw [x2]; exact Or.inr r7v
    · rcases all7 x x0 xn with hh | hh
      · exact Or.inr hh
      · exact Or.inl (by rw [hh]; exact D6 x x0 xn hx x2)
  have D8 := keep _ (fun _ v => v = some D ∨ v = some (midV B D)) s7 s8 _ (k8 K hK8) (Ne.symm kBD) D7
  have D9 := keep _ (fun _ v => v = some D ∨ v = some (midV B D)) s8 s9 _ (k9 K hK9) (by rw [kE]; exact Ne.symm kCD) D8
  have D10 := keep _ (fun _ v => v = some D ∨ v = some (midV B D)) s9 s10 _ (k10 K hK10) (Ne.symm kCD) D9
  have D11 := keep _ (fun _ v => v = some D ∨ v = some (midV B D)) s10 s11 _ (k11 K hK11) (Ne.symm kAD) D10
  have one : ∀ (s s' : Map Val) (rk x : Nat), (∀ x, x ≠ 0 → x < m.n → K x ≠ K rk → vval s' x = vval s x) →
      x ≠ 0 → x < m.n → K x ≠ K rk → vval s' x = vval s x := fun s s' rk x hk x0 xn hx => hk x x0 xn hx
  have d11v : vval s11 (m.β 0 (m.β 2 e)) = some (midV B D) := by
    rw [k11 K hK11 _ hd hdn (Ne.symm kAD), k10 K hK10 _ hd hdn (Ne.symm kCD),
      k9 K hK9 _ hd hdn (by rw [kE]; exact Ne.symm kCD), k8 K hK8 _ hd hdn (Ne.symm kBD)]
    exact d7v
  have r11v : vval s11 (m.β 2 e) = some (midV B D) := by
    rw [k11 K hK11 _ r0 hr (by rw [kR]; exact Ne.symm kAD), k10 K hK10 _ r0 hr (by rw [kR]; exact Ne.symm kCD),
      k9 K hK9 _ r0 hr (by rw [kR, kE]; exact Ne.symm kCD), k8 K hK8 _ r0 hr (by rw [kR]; exact Ne.symm kBD)]
    exact r7v
  have iBD := midV_pt iB iD
  have Dfin : vval m' (m.β 0 (m.β 2 e)) = some (midV B D) ∨ vval m' (m.β 0 (m.β 2 e)) = some (midV (midV B D) D) := by
    by_cases h2 : m.β 2 (m.β 1 (m.β 2 e)) = 0
    · left; rw [z12 h2 _ hd hdn]; exact d11v
    · have kk : K (m.β 2 (m.β 1 (m.β 2 e))) = K (m.β 0 (m.β 2 e)) := by
        rw [← kR]; exact hK12 _ _ h2 (rng2 _ hc) r0 hr (n12 h2)
      rcases D11 _ h2 (rng2 _ hc) kk with pa | pa
      · obtain ⟨_, _, all⟩ := w12 h2 D (midV B D) pa r11v iD iBD
        rcases all _ hd hdn with hh | hh
        · right; rw [hh, midV_comm iD iBD]
        · left; rw [hh]; exact d11v
      · obtain ⟨_, _, all⟩ := w12 h2 (midV B D) (midV B D) pa r11v iBD iBD
        rw [midV_self iBD] at all
        rcases all _ hd hdn with hh | hh
        · left; exact hh
        · left; rw [hh]; exact d11v
  -- colour C: the old vertex C and the dart `e`
  have C6 : ∀ x, x ≠ 0 → x < m.n → K x = K (m.β 0 e) →
      (fun x v => x ≠ e → v = some C) x (vval s6 x) :=
    fun x x0 xn hx x1 => by rw [V6 x x0 xn]; exact clsC x x0 xn hx x1
  have C7 := keep _ (fun x v => x ≠ e → v = some C) s6 s7 _ (k7 K hK7) kCD C6
  have C8 := keep _ (fun x v => x ≠ e → v = some C) s7 s8 _ (k8 K hK8) (Ne.symm kBC) C7
  have E8 : vval s8 e = some A := by
    rw [k8 K hK8 _ he.1 hn (by rw [kE]; exact Ne.symm kBC), k7 K hK7 _ he.1 hn (by rw [kE]; exact kCD), V6 _ he.1 hn]
    exact valE
  have iCA := midV_pt iC iA
  have ua : m.β 2 (m.β 1 e) ≠ e := by
    intro hh
    have := (hwf.invol 2 (by omega) (by omega) _ ha (by rw [hh]; exact he.1)).1
    rw [hh] at this; exact d6 this
  have Q9 : (vval s9 e = some (midV C A) ∧ ∀ x, x ≠ 0 → x < m.n → K x = K (m.β 0 e) → x ≠ e →
        (vval s9 x = some C ∨ vval s9 x = some (midV C A))) ∨
      (vval s9 e = some A ∧ ∀ x, x ≠ 0 → x < m.n → K x = K (m.β 0 e) → x ≠ e → vval s9 x = some C) := by
    by_cases h2 : m.β 2 (m.β 1 e) = 0
    · right
      exact ⟨by rw [z9 h2 _ he.1 hn]; exact E8, fun x x0 xn hx x1 => by rw [z9 h2 x x0 xn]; exact C8 x x0 xn hx x1⟩
    · left
      have kk : K (m.β 2 (m.β 1 e)) = K (m.β 0 e) := by
        rw [← kE]; exact hK9 _ _ h2 (rng2 _ ha) he.1 hn (n9 h2)
      obtain ⟨e9, _, all⟩ := w9 h2 C A (C8 _ h2 (rng2 _ ha) kk ua) E8 iC iA
      refine ⟨e9, fun x x0 xn hx x1 => ?_⟩
      rcases all x x0 xn with hh | hh
      · exact Or.inr hh
      · exact Or.inl (by rw [hh]; exact C8 x x0 xn hx x1)
  have b10v : vval s10 (m.β 0 e) = some (midV C A) ∨ vval s10 (m.β 0 e) = some (midV (midV C A) C) := by
    have h2 : m.β 2 (m.β 2 e) ≠ 0 := by rw [er]; exact he.1
    rcases Q9 with ⟨e9, c9⟩ | ⟨e9, c9⟩
    · rcases c9 _ hb hbn rfl (Ne.symm d3) with pb | pb
      · right; exact (w10 h2 (midV C A) C (by rw [er]; exact e9) pb iCA iC).1
      · left
        have := (w10 h2 (midV C A) (midV C A) (by rw [er]; exact e9) pb iCA iCA).1
        rw [midV_self iCA] at this; exact this
    · left
      have := (w10 h2 A C (by rw [er]; exact e9) (c9 _ hb hbn rfl (Ne.symm d3)) iA iC).1
      rw [midV_comm iA iC] at this; exact this
  have Cfin : vval m' (m.β 0 e) = some (midV C A) ∨ vval m' (m.β 0 e) = some (midV (midV C A) C) := by
    rw [k12 K hK12 _ hb hbn (by rw [kR]; exact kCD), k11 K hK11 _ hb hbn (Ne.symm kAC)]
    exact b10v
  exact ⟨A12 _ c0 hc rfl, Bc12 _ a0 ha rfl, Cfin, Dfin⟩


/-! ## (2) cut_inner_edge: the midpoint in the final map -/

open HC.C04 in
/-- **C15 (2), cut_inner_edge, the midpoint in the FINAL map**: on ANY well-formed 2-map (no fault injected, the
    `Vertex2/Vertex3` law on storage 0), after a successful `cut_inner_edge(e, [n1 … n6])` on an interior edge between
    two DIFFERENT vertices whose two faces are closed triangles, with free in-use spare darts in ANY numbering that
    carry no vertex value, the new vertex `{n1, n3, n4, n6}` has the identifier `min(n1, n3, n4, n6)` in the resulting
    map and the vertex storage holds there the average of the two end points (the values at `vertex_id(e)` and
    `vertex_id(β1 e)` of the input).  Proof at dart level (Lemmas/RemeshValues.lean): the write puts the midpoint on
    `{n1, n3}`; the 2-unsew, the four 1-unsews and the two 2-sews change no dart's value; the 1-sew `(e, n1)` merges the
    empty vertex `{n4, n6}` into it (`merge_incomplete` keeps the value), `(r, n4)` merges it with itself; the six other
    1-sews join darts of other final vertices. -/
theorem C15_cutInner_midpoint_in_final_map (cfg : Cfg Val) (hL : cfg.law 0 = avgLaw) (m m' : Map Val)
    (e n1 n2 n3 n4 n5 n6 : Nat) (hwf : WF 3 m) (hfc : m.fc = 0) (he : C01.InUse m e)
    (h : run (cutInnerEdge cfg m.n e n1 n2 n3 n4 n5 n6) m = (.ok (), m'))
    (hr0 : m.β 2 e ≠ 0)
    (htl : m.β 1 (m.β 1 e) = m.β 0 e) (hb : m.β 0 e ≠ 0)
    (htr : m.β 1 (m.β 1 (m.β 2 e)) = m.β 0 (m.β 2 e)) (hd : m.β 0 (m.β 2 e) ≠ 0)
    (hs : ∀ x, x ∈ [n1, n2, n3, n4, n5, n6] → Spare m x)
    (hnone : ∀ x, x ∈ [n1, n2, n3, n4, n5, n6] → m.att 0 x = none)
    (hends : cellId m .vertex e ≠ cellId m .vertex (m.β 2 e))
    (hnd : [e, m.β 2 e, m.β 1 e, m.β 0 e, m.β 1 (m.β 2 e), m.β 0 (m.β 2 e), n1, n2, n3, n4, n5, n6].Nodup) :
    ∃ va vb : Val, m.att 0 (cellId m .vertex e) = some va ∧ m.att 0 (cellId m .vertex (m.β 1 e)) = some vb ∧
      cellId m' .vertex n1 = min n1 (min n3 (min n4 n6)) ∧
      m'.att 0 (cellId m' .vertex n1) = some (avgVal va vb) := by
  have hn := he.2.1
  have h0 := h
  have hr : m.β 2 e < m.n := hwf.range 2 (by omega) e hn
  have a0 : m.β 1 e ≠ 0 := fun hh => hb (by rw [← htl, hh]; exact hwf.null 1 (by omega))
  have c0 : m.β 1 (m.β 2 e) ≠ 0 := fun hh => hd (by rw [← htr, hh]; exact hwf.null 1 (by omega))
  have ha : m.β 1 e < m.n := hwf.range 1 (by omega) e hn
  have hc : m.β 1 (m.β 2 e) < m.n := hwf.range 1 (by omega) _ hr
  have hbn : m.β 0 e < m.n := hwf.range 0 (by omega) e hn
  have hdn : m.β 0 (m.β 2 e) < m.n := hwf.range 0 (by omega) _ hr
  have er := (hwf.invol 2 (by omega) (by omega) e hn hr0).1
  have hnd' := hnd
  simp only [List.nodup_cons, List.mem_cons, List.mem_nil_iff, not_or, or_false, List.nodup_nil, and_true] at hnd'
  obtain ⟨⟨q1, q2, q3, q4, q5, q6, q7, q8, q9, q10, q11⟩, ⟨q12, q13, q14, q15, q16, q17, q18, q19, q20, q21⟩, ⟨q22, q23, q24, q25, q26, q27, q28, q29, q30⟩, ⟨q31, q32, q33, q34, q35, q36, q37, q38⟩, ⟨q39, q40, q41, q42, q43, q44, q45⟩, ⟨q46, q47, q48, q49, q50, q51⟩, ⟨q52, q53, q54, q55, q56⟩, ⟨q57, q58, q59, q60⟩, ⟨q61, q62, q63⟩, ⟨q64, q65⟩, q66, _⟩ := hnd'
  have s1 := hs n1 (by simp); have s2 := hs n2 (by simp); have s3 := hs n3 (by simp)
  have s4 := hs n4 (by simp); have s5 := hs n5 (by simp); have s6 := hs n6 (by simp)
  have L1 : Live m.n m.u n1 := Live.of_inUse s1.1
  have L2 : Live m.n m.u n2 := Live.of_inUse s2.1
  have L3 : Live m.n m.u n3 := Live.of_inUse s3.1
  have L4 : Live m.n m.u n4 := Live.of_inUse s4.1
  have L5 : Live m.n m.u n5 := Live.of_inUse s5.1
  have L6 : Live m.n m.u n6 := Live.of_inUse s6.1
  have Le : Live m.n m.u e := Live.of_inUse he
  have Lr := live_image hwf (by omega : 2 < 3) hn hr0
  have La := live_image hwf (by omega : 1 < 3) hn a0
  have Lb := live_image hwf (by omega : 0 < 3) hn hb
  have Lc := live_image hwf (by omega : 1 < 3) hr c0
  have Ld := live_image hwf (by omega : 0 < 3) hr hd
  have z : ∀ i, m.β i 0 = 0 := beta_zero hwf
  have sb : ∀ i, m.β i n1 = 0 ∧ m.β i n2 = 0 ∧ m.β i n3 = 0 ∧ m.β i n4 = 0 ∧ m.β i n5 = 0 ∧ m.β i n6 = 0 := fun i =>
    ⟨spare_beta hwf s1 i, spare_beta hwf s2 i, spare_beta hwf s3 i, spare_beta hwf s4 i, spare_beta hwf s5 i,
      spare_beta hwf s6 i⟩
  -- the four links of the spare darts
  unfold cutInnerEdge at h
  obtain ⟨_, m1, r1, h⟩ := run_bind_ok h
  have I1 := Keeps.twoLinkCore (X := Val) L1 L2 q52 m m1 _ (Inv.of_wf hwf) r1
  obtain ⟨_, _, st1⟩ := step_twoLinkCore r1
  obtain ⟨_, m2, r2, h⟩ := run_bind_ok h
  have I2 := Keeps.oneLinkCore (X := Val) L2 L3 m1 m2 _ I1 r2
  obtain ⟨_, _, st2⟩ := step_oneLinkCore r2
  obtain ⟨_, m3, r3, h⟩ := run_bind_ok h
  have I3 := Keeps.twoLinkCore (X := Val) L4 L5 q64 m2 m3 _ I2 r3
  obtain ⟨_, _, st3⟩ := step_twoLinkCore r3
  obtain ⟨_, m4, r4, h⟩ := run_bind_ok h
  have I4 := Keeps.oneLinkCore (X := Val) L5 L6 m3 m4 _ I3 r4
  obtain ⟨_, _, st4⟩ := step_oneLinkCore r4
  have b4 : m4.β = lnk1 (lnk2 (lnk1 (lnk2 m.β n1 n2) n2 n3) n4 n5) n5 n6 := by rw [st4.β, st3.β, st2.β, st1.β]
  have fc4 : m4.fc = 0 := by rw [(link1_fc r4).1, (linkI_fc r3).1, (link1_fc r2).1, (linkI_fc r1).1]; exact hfc
  have at4 : ∀ x, m4.att 0 x = m.att 0 x := fun x => by
    rw [(link1_fc r4).2.1, (linkI_fc r3).2.1, (link1_fc r2).2.1, (linkI_fc r1).2.1]
  -- the β function after the four links
  obtain ⟨F, hF⟩ : ∃ F, F = lnk1 (lnk2 (lnk1 (lnk2 m.β n1 n2) n2 n3) n4 n5) n5 n6 := ⟨_, rfl⟩
  rw [← hF] at b4
  have n0 : n1 ≠ 0 ∧ n2 ≠ 0 ∧ n3 ≠ 0 ∧ n4 ≠ 0 ∧ n5 ≠ 0 ∧ n6 ≠ 0 := ⟨s1.1.1, s2.1.1, s3.1.1, s4.1.1, s5.1.1, s6.1.1⟩
  have Fold : ∀ i x, x ≠ n1 → x ≠ n2 → x ≠ n3 → x ≠ n4 → x ≠ n5 → x ≠ n6 → F i x = m.β i x := by
    intro i x x1 x2 x3 x4 x5 x6
    rw [hF]; simp [lnk1, lnk2, upd_apply, Ne.symm x1, Ne.symm x2, Ne.symm x3, Ne.symm x4, Ne.symm x5, Ne.symm x6]
  have F1 : F 1 n1 = 0 ∧ F 1 n2 = n3 ∧ F 1 n3 = 0 ∧ F 1 n4 = 0 ∧ F 1 n5 = n6 ∧ F 1 n6 = 0 := by
    rw [hF]; simp [lnk1, lnk2, upd_apply, sb 1, q1, Ne.symm q1, q2, Ne.symm q2, q3, Ne.symm q3, q4, Ne.symm q4, q5, Ne.symm q5, q6, Ne.symm q6, q7, Ne.symm q7, q8, Ne.symm q8, q9, Ne.symm q9, q10, Ne.symm q10, q11, Ne.symm q11, q12, Ne.symm q12, q13, Ne.symm q13, q14, Ne.symm q14, q15, Ne.symm q15, q16, Ne.symm q16, q17, Ne.symm q17, q18, Ne.symm q18, q19, Ne.symm q19, q20, Ne.symm q20, q21, Ne.symm q21, q22, Ne.symm q22, q23, Ne.symm q23, q24, Ne.symm q24, q25, Ne.symm q25, q26, Ne.symm q26, q27, Ne.symm q27, q28, Ne.symm q28, q29, Ne.symm q29, q30, Ne.symm q30, q31, Ne.symm q31, q32, Ne.symm q32, q33, Ne.symm q33, q34, Ne.symm q34, q35, Ne.symm q35, q36, Ne.symm q36, q37, Ne.symm q37, q38, Ne.symm q38, q39, Ne.symm q39, q40, Ne.symm q40, q41, Ne.symm q41, q42, Ne.symm q42, q43, Ne.symm q43, q44, Ne.symm q44, q45, Ne.symm q45, q46, Ne.symm q46, q47, Ne.symm q47, q48, Ne.symm q48, q49, Ne.symm q49, q50, Ne.symm q50, q51, Ne.symm q51, q52, Ne.symm q52, q53, Ne.symm q53, q54, Ne.symm q54, q55, Ne.symm q55, q56, Ne.symm q56, q57, Ne.symm q57, q58, Ne.symm q58, q59, Ne.symm q59, q60, Ne.symm q60, q61, Ne.symm q61, q62, Ne.symm q62, q63, Ne.symm q63, q64, Ne.symm q64, q65, Ne.symm q65, q66, Ne.symm q66]
  have F2 : F 2 n1 = n2 ∧ F 2 n2 = n1 ∧ F 2 n3 = 0 ∧ F 2 n4 = n5 ∧ F 2 n5 = n4 ∧ F 2 n6 = 0 := by
    rw [hF]; simp [lnk1, lnk2, upd_apply, sb 2, q1, Ne.symm q1, q2, Ne.symm q2, q3, Ne.symm q3, q4, Ne.symm q4, q5, Ne.symm q5, q6, Ne.symm q6, q7, Ne.symm q7, q8, Ne.symm q8, q9, Ne.symm q9, q10, Ne.symm q10, q11, Ne.symm q11, q12, Ne.symm q12, q13, Ne.symm q13, q14, Ne.symm q14, q15, Ne.symm q15, q16, Ne.symm q16, q17, Ne.symm q17, q18, Ne.symm q18, q19, Ne.symm q19, q20, Ne.symm q20, q21, Ne.symm q21, q22, Ne.symm q22, q23, Ne.symm q23, q24, Ne.symm q24, q25, Ne.symm q25, q26, Ne.symm q26, q27, Ne.symm q27, q28, Ne.symm q28, q29, Ne.symm q29, q30, Ne.symm q30, q31, Ne.symm q31, q32, Ne.symm q32, q33, Ne.symm q33, q34, Ne.symm q34, q35, Ne.symm q35, q36, Ne.symm q36, q37, Ne.symm q37, q38, Ne.symm q38, q39, Ne.symm q39, q40, Ne.symm q40, q41, Ne.symm q41, q42, Ne.symm q42, q43, Ne.symm q43, q44, Ne.symm q44, q45, Ne.symm q45, q46, Ne.symm q46, q47, Ne.symm q47, q48, Ne.symm q48, q49, Ne.symm q49, q50, Ne.symm q50, q51, Ne.symm q51, q52, Ne.symm q52, q53, Ne.symm q53, q54, Ne.symm q54, q55, Ne.symm q55, q56, Ne.symm q56, q57, Ne.symm q57, q58, Ne.symm q58, q59, Ne.symm q59, q60, Ne.symm q60, q61, Ne.symm q61, q62, Ne.symm q62, q63, Ne.symm q63, q64, Ne.symm q64, q65, Ne.symm q65, q66, Ne.symm q66]
  have Fe : ∀ i, F i e = m.β i e := fun i => Fold i e q6 q7 q8 q9 q10 q11
  have Fr : ∀ i, F i (m.β 2 e) = m.β i (m.β 2 e) := fun i => Fold i _ q16 q17 q18 q19 q20 q21
  have Fa : ∀ i, F i (m.β 1 e) = m.β i (m.β 1 e) := fun i => Fold i _ q25 q26 q27 q28 q29 q30
  have Fc : ∀ i, F i (m.β 1 (m.β 2 e)) = m.β i (m.β 1 (m.β 2 e)) := fun i => Fold i _ q40 q41 q42 q43 q44 q45
  -- its pairs: those of `m` and `(n1, n3)`, `(n4, n6)`
  have pairsF : ∀ u v, VPair F u v ↔ VPair m.β u v ∨ (u = n1 ∧ v = n3) ∨ (u = n4 ∧ v = n6) := by
    intro u v
    have P1 : ∀ u v, VPair (lnk2 m.β n1 n2) u v ↔ VPair m.β u v := by
      intro u v
      rw [vpair_lnk2 (sb 2).1 (sb 2).2.1 q52]
      constructor
      · rintro (e | ⟨_, hv, _, v0⟩ | ⟨_, hv, _, v0⟩)
        · exact e
        · rw [(sb 1).1] at hv; exact absurd hv v0
        · rw [(sb 1).2.1] at hv; exact absurd hv v0
      · exact Or.inl
    have P2 : ∀ u v, VPair (lnk1 (lnk2 m.β n1 n2) n2 n3) u v ↔ VPair m.β u v ∨ (u = n1 ∧ v = n3) := by
      intro u v
      rw [vpair_lnk1 (by simp [lnk2, upd_apply, sb 1]), P1]
      have : lnk2 m.β n1 n2 2 n2 = n1 := by simp [lnk2, upd_apply]
      rw [this]
      constructor
      · rintro (e | ⟨hu, hv, _, _⟩)
        · exact Or.inl e
        · exact Or.inr ⟨hu, hv⟩
      · rintro (e | ⟨hu, hv⟩)
        · exact Or.inl e
        · exact Or.inr ⟨hu, hv, by rw [hu]; exact n0.1, by rw [hv]; exact n0.2.2.1⟩
    have P3 : ∀ u v, VPair (lnk2 (lnk1 (lnk2 m.β n1 n2) n2 n3) n4 n5) u v ↔ VPair m.β u v ∨ (u = n1 ∧ v = n3) := by
      intro u v
      rw [vpair_lnk2 (by simp [lnk1, lnk2, upd_apply, sb 2, q1, Ne.symm q1, q2, Ne.symm q2, q3, Ne.symm q3, q4, Ne.symm q4, q5, Ne.symm q5, q6, Ne.symm q6, q7, Ne.symm q7, q8, Ne.symm q8, q9, Ne.symm q9, q10, Ne.symm q10, q11, Ne.symm q11, q12, Ne.symm q12, q13, Ne.symm q13, q14, Ne.symm q14, q15, Ne.symm q15, q16, Ne.symm q16, q17, Ne.symm q17, q18, Ne.symm q18, q19, Ne.symm q19, q20, Ne.symm q20, q21, Ne.symm q21, q22, Ne.symm q22, q23, Ne.symm q23, q24, Ne.symm q24, q25, Ne.symm q25, q26, Ne.symm q26, q27, Ne.symm q27, q28, Ne.symm q28, q29, Ne.symm q29, q30, Ne.symm q30, q31, Ne.symm q31, q32, Ne.symm q32, q33, Ne.symm q33, q34, Ne.symm q34, q35, Ne.symm q35, q36, Ne.symm q36, q37, Ne.symm q37, q38, Ne.symm q38, q39, Ne.symm q39, q40, Ne.symm q40, q41, Ne.symm q41, q42, Ne.symm q42, q43, Ne.symm q43, q44, Ne.symm q44, q45, Ne.symm q45, q46, Ne.symm q46, q47, Ne.symm q47, q48, Ne.symm q48, q49, Ne.symm q49, q50, Ne.symm q50, q51, Ne.symm q51, q52, Ne.symm q52, q53, Ne.symm q53, q54, Ne.symm q54, q55, Ne.symm q55, q56, Ne.symm q56, q57, Ne.symm q57, q58, Ne.symm q58, q59, Ne.symm q59, q60, Ne.symm q60, q61, Ne.symm q61, q62, Ne.symm q62, q63, Ne.symm q63, q64, Ne.symm q64, q65, Ne.symm q65, q66, Ne.symm q66]) (by simp [lnk1, lnk2, upd_apply, sb 2, q1, Ne.symm q1, q2, Ne.symm q2, q3, Ne.symm q3, q4, Ne.symm q4, q5, Ne.symm q5, q6, Ne.symm q6, q7, Ne.symm q7, q8, Ne.symm q8, q9, Ne.symm q9, q10, Ne.symm q10, q11, Ne.symm q11, q12, Ne.symm q12, q13, Ne.symm q13, q14, Ne.symm q14, q15, Ne.symm q15, q16, Ne.symm q16, q17, Ne.symm q17, q18, Ne.symm q18, q19, Ne.symm q19, q20, Ne.symm q20, q21, Ne.symm q21, q22, Ne.symm q22, q23, Ne.symm q23, q24, Ne.symm q24, q25, Ne.symm q25, q26, Ne.symm q26, q27, Ne.symm q27, q28, Ne.symm q28, q29, Ne.symm q29, q30, Ne.symm q30, q31, Ne.symm q31, q32, Ne.symm q32, q33, Ne.symm q33, q34, Ne.symm q34, q35, Ne.symm q35, q36, Ne.symm q36, q37, Ne.symm q37, q38, Ne.symm q38, q39, Ne.symm q39, q40, Ne.symm q40, q41, Ne.symm q41, q42, Ne.symm q42, q43, Ne.symm q43, q44, Ne.symm q44, q45, Ne.symm q45, q46, Ne.symm q46, q47, Ne.symm q47, q48, Ne.symm q48, q49, Ne.symm q49, q50, Ne.symm q50, q51, Ne.symm q51, q52, Ne.symm q52, q53, Ne.symm q53, q54, Ne.symm q54, q55, Ne.symm q55, q56, Ne.symm q56, q57, Ne.symm q57, q58, Ne.symm q58, q59, Ne.symm q59, q60, Ne.symm q60, q61, Ne.symm q61, q62, Ne.symm q62, q63, Ne.symm q63, q64, Ne.symm q64, q65, Ne.symm q65, q66, Ne.symm q66]) q64, P2]
      constructor
      · rintro (e | ⟨_, hv, _, v0⟩ | ⟨_, hv, _, v0⟩)
        · exact e
        · exfalso; apply v0; rw [hv]; simp [lnk1, lnk2, upd_apply, sb 1, q1, Ne.symm q1, q2, Ne.symm q2, q3, Ne.symm q3, q4, Ne.symm q4, q5, Ne.symm q5, q6, Ne.symm q6, q7, Ne.symm q7, q8, Ne.symm q8, q9, Ne.symm q9, q10, Ne.symm q10, q11, Ne.symm q11, q12, Ne.symm q12, q13, Ne.symm q13, q14, Ne.symm q14, q15, Ne.symm q15, q16, Ne.symm q16, q17, Ne.symm q17, q18, Ne.symm q18, q19, Ne.symm q19, q20, Ne.symm q20, q21, Ne.symm q21, q22, Ne.symm q22, q23, Ne.symm q23, q24, Ne.symm q24, q25, Ne.symm q25, q26, Ne.symm q26, q27, Ne.symm q27, q28, Ne.symm q28, q29, Ne.symm q29, q30, Ne.symm q30, q31, Ne.symm q31, q32, Ne.symm q32, q33, Ne.symm q33, q34, Ne.symm q34, q35, Ne.symm q35, q36, Ne.symm q36, q37, Ne.symm q37, q38, Ne.symm q38, q39, Ne.symm q39, q40, Ne.symm q40, q41, Ne.symm q41, q42, Ne.symm q42, q43, Ne.symm q43, q44, Ne.symm q44, q45, Ne.symm q45, q46, Ne.symm q46, q47, Ne.symm q47, q48, Ne.symm q48, q49, Ne.symm q49, q50, Ne.symm q50, q51, Ne.symm q51, q52, Ne.symm q52, q53, Ne.symm q53, q54, Ne.symm q54, q55, Ne.symm q55, q56, Ne.symm q56, q57, Ne.symm q57, q58, Ne.symm q58, q59, Ne.symm q59, q60, Ne.symm q60, q61, Ne.symm q61, q62, Ne.symm q62, q63, Ne.symm q63, q64, Ne.symm q64, q65, Ne.symm q65, q66, Ne.symm q66]
        · exfalso; apply v0; rw [hv]; simp [lnk1, lnk2, upd_apply, sb 1, q1, Ne.symm q1, q2, Ne.symm q2, q3, Ne.symm q3, q4, Ne.symm q4, q5, Ne.symm q5, q6, Ne.symm q6, q7, Ne.symm q7, q8, Ne.symm q8, q9, Ne.symm q9, q10, Ne.symm q10, q11, Ne.symm q11, q12, Ne.symm q12, q13, Ne.symm q13, q14, Ne.symm q14, q15, Ne.symm q15, q16, Ne.symm q16, q17, Ne.symm q17, q18, Ne.symm q18, q19, Ne.symm q19, q20, Ne.symm q20, q21, Ne.symm q21, q22, Ne.symm q22, q23, Ne.symm q23, q24, Ne.symm q24, q25, Ne.symm q25, q26, Ne.symm q26, q27, Ne.symm q27, q28, Ne.symm q28, q29, Ne.symm q29, q30, Ne.symm q30, q31, Ne.symm q31, q32, Ne.symm q32, q33, Ne.symm q33, q34, Ne.symm q34, q35, Ne.symm q35, q36, Ne.symm q36, q37, Ne.symm q37, q38, Ne.symm q38, q39, Ne.symm q39, q40, Ne.symm q40, q41, Ne.symm q41, q42, Ne.symm q42, q43, Ne.symm q43, q44, Ne.symm q44, q45, Ne.symm q45, q46, Ne.symm q46, q47, Ne.symm q47, q48, Ne.symm q48, q49, Ne.symm q49, q50, Ne.symm q50, q51, Ne.symm q51, q52, Ne.symm q52, q53, Ne.symm q53, q54, Ne.symm q54, q55, Ne.symm q55, q56, Ne.symm q56, q57, Ne.symm q57, q58, Ne.symm q58, q59, Ne.symm q59, q60, Ne.symm q60, q61, Ne.symm q61, q62, Ne.symm q62, q63, Ne.symm q63, q64, Ne.symm q64, q65, Ne.symm q65, q66, Ne.symm q66]
      · exact Or.inl
    rw [hF, vpair_lnk1 (by simp [lnk1, lnk2, upd_apply, sb 1, q1, Ne.symm q1, q2, Ne.symm q2, q3, Ne.symm q3, q4, Ne.symm q4, q5, Ne.symm q5, q6, Ne.symm q6, q7, Ne.symm q7, q8, Ne.symm q8, q9, Ne.symm q9, q10, Ne.symm q10, q11, Ne.symm q11, q12, Ne.symm q12, q13, Ne.symm q13, q14, Ne.symm q14, q15, Ne.symm q15, q16, Ne.symm q16, q17, Ne.symm q17, q18, Ne.symm q18, q19, Ne.symm q19, q20, Ne.symm q20, q21, Ne.symm q21, q22, Ne.symm q22, q23, Ne.symm q23, q24, Ne.symm q24, q25, Ne.symm q25, q26, Ne.symm q26, q27, Ne.symm q27, q28, Ne.symm q28, q29, Ne.symm q29, q30, Ne.symm q30, q31, Ne.symm q31, q32, Ne.symm q32, q33, Ne.symm q33, q34, Ne.symm q34, q35, Ne.symm q35, q36, Ne.symm q36, q37, Ne.symm q37, q38, Ne.symm q38, q39, Ne.symm q39, q40, Ne.symm q40, q41, Ne.symm q41, q42, Ne.symm q42, q43, Ne.symm q43, q44, Ne.symm q44, q45, Ne.symm q45, q46, Ne.symm q46, q47, Ne.symm q47, q48, Ne.symm q48, q49, Ne.symm q49, q50, Ne.symm q50, q51, Ne.symm q51, q52, Ne.symm q52, q53, Ne.symm q53, q54, Ne.symm q54, q55, Ne.symm q55, q56, Ne.symm q56, q57, Ne.symm q57, q58, Ne.symm q58, q59, Ne.symm q59, q60, Ne.symm q60, q61, Ne.symm q61, q62, Ne.symm q62, q63, Ne.symm q63, q64, Ne.symm q64, q65, Ne.symm q65, q66, Ne.symm q66]), P3]
    have : lnk2 (lnk1 (lnk2 m.β n1 n2) n2 n3) n4 n5 2 n5 = n4 := by simp [lnk1, lnk2, upd_apply]
    rw [this]
    constructor
    · rintro ((e | e) | ⟨hu, hv, _, _⟩)
      · exact Or.inl e
      · exact Or.inr (Or.inl e)
      · exact Or.inr (Or.inr ⟨hu, hv⟩)
    · rintro (e | e | ⟨hu, hv⟩)
      · exact Or.inl (Or.inl e)
      · exact Or.inl (Or.inr e)
      · exact Or.inr ⟨hu, hv, by rw [hu]; exact n0.2.2.2.1, by rw [hv]; exact n0.2.2.2.2.2⟩
  have noSpare : ∀ u v, VPair m.β u v → ∀ t, t ∈ [n1, n2, n3, n4, n5, n6] → u ≠ t ∧ v ≠ t := by
    rintro u v ⟨zz, e2, e1, _, _⟩ t ht
    rw [← e2, ← e1]
    exact ⟨beta_ne_spare hwf (hs t ht) 2 zz, beta_ne_spare hwf (hs t ht) 1 zz⟩
  -- the old darts keep their vertices
  have oldconn : ∀ x y, x ∉ [n1, n3, n4, n6] → Conn (VPair F) x y → VC m x y ∧ y ∉ [n1, n3, n4, n6] := by
    intro x y hx hc
    induction hc with
    | refl => exact ⟨.refl _, hx⟩
    | fwd _ ed ih =>
        rename_i y' y''
        rcases (pairsF _ _).1 ed with ed | ⟨hu, _⟩ | ⟨hu, _⟩
        · refine ⟨.fwd ih.1 ed, ?_⟩
          have k := noSpare _ _ ed
          simp only [List.mem_cons, List.mem_nil_iff, not_or, or_false]
          exact ⟨(k n1 (by simp)).2, (k n3 (by simp)).2, (k n4 (by simp)).2, (k n6 (by simp)).2⟩
        · exact absurd (by simp [hu]) ih.2
        · exact absurd (by simp [hu]) ih.2
    | bwd _ ed ih =>
        rename_i y' y''
        rcases (pairsF _ _).1 ed with ed | ⟨_, hv⟩ | ⟨_, hv⟩
        · refine ⟨.bwd ih.1 ed, ?_⟩
          have k := noSpare _ _ ed
          simp only [List.mem_cons, List.mem_nil_iff, not_or, or_false]
          exact ⟨(k n1 (by simp)).1, (k n3 (by simp)).1, (k n4 (by simp)).1, (k n6 (by simp)).1⟩
        · exact absurd (by simp [hv]) ih.2
        · exact absurd (by simp [hv]) ih.2
  have newconn : ∀ y, (Conn (VPair F) n1 y → y = n1 ∨ y = n3) ∧ (Conn (VPair F) n6 y → y = n4 ∨ y = n6) := by
    intro y
    constructor
    · intro hc
      induction hc with
      | refl => exact Or.inl rfl
      | fwd _ ed ih =>
          rcases (pairsF _ _).1 ed with ed | ⟨_, hv⟩ | ⟨hu, _⟩
          · have k := noSpare _ _ ed
            rcases ih with ih | ih
            · exact absurd ih (k n1 (by simp)).1
            · exact absurd ih (k n3 (by simp)).1
          · exact Or.inr hv
          · rcases ih with ih | ih
            · rw [ih] at hu; exact absurd hu q54
            · rw [ih] at hu; exact absurd hu q61
      | bwd _ ed ih =>
          rcases (pairsF _ _).1 ed with ed | ⟨hu, _⟩ | ⟨_, hv⟩
          · have k := noSpare _ _ ed
            rcases ih with ih | ih
            · exact absurd ih (k n1 (by simp)).2
            · exact absurd ih (k n3 (by simp)).2
          · exact Or.inl hu
          · rcases ih with ih | ih
            · rw [ih] at hv; exact absurd hv q56
            · rw [ih] at hv; exact absurd hv q63
    · intro hc
      induction hc with
      | refl => exact Or.inr rfl
      | fwd _ ed ih =>
          rcases (pairsF _ _).1 ed with ed | ⟨hu, _⟩ | ⟨_, hv⟩
          · have k := noSpare _ _ ed
            rcases ih with ih | ih
            · exact absurd ih (k n4 (by simp)).1
            · exact absurd ih (k n6 (by simp)).1
          · rcases ih with ih | ih
            · rw [ih] at hu; exact absurd hu (Ne.symm q54)
            · rw [ih] at hu; exact absurd hu (Ne.symm q56)
          · exact Or.inr hv
      | bwd _ ed ih =>
          rcases (pairsF _ _).1 ed with ed | ⟨_, hv⟩ | ⟨hu, _⟩
          · have k := noSpare _ _ ed
            rcases ih with ih | ih
            · exact absurd ih (k n4 (by simp)).2
            · exact absurd ih (k n6 (by simp)).2
          · rcases ih with ih | ih
            · rw [ih] at hv; exact absurd hv (Ne.symm q61)
            · rw [ih] at hv; exact absurd hv (Ne.symm q63)
          · exact Or.inl hu
  -- the reads
  obtain ⟨_, h⟩ := HC.C15.rB_ok h
  rw [b4, Fe 2] at h
  obtain ⟨lfa, m5, r5, h⟩ := run_bind_ok h
  have I5 := inv_attrOnly (ao_takeFaceAnchor cfg m.n e) I4 r5
  have b5 : m5.β = F := by rw [β_of_sameTopo (AttrOnly.run_ok (ao_takeFaceAnchor cfg m.n e) r5)]; exact b4
  obtain ⟨fc5', at5'⟩ := keeps0_takeFaceAnchor cfg m.n e m4 m5 lfa r5
  obtain ⟨rfa, m6, r6, h⟩ := run_bind_ok h
  have I6 := inv_attrOnly (ao_takeFaceAnchor cfg m.n (m.β 2 e)) I5 r6
  have b6 : m6.β = F := by rw [β_of_sameTopo (AttrOnly.run_ok (ao_takeFaceAnchor cfg m.n _) r6)]; exact b5
  obtain ⟨fc6', at6'⟩ := keeps0_takeFaceAnchor cfg m.n (m.β 2 e) m5 m6 rfa r6
  have fc6 : m6.fc = 0 := by rw [fc6', fc5']; exact fc4
  have at6 : ∀ x, m6.att 0 x = m.att 0 x := fun x => by rw [at6', at5', at4]
  obtain ⟨ea, _, h⟩ := ro_bind_ok (ro_peekEdgeAnchor cfg e) h
  obtain ⟨_, h⟩ := HC.C15.rB_ok h
  obtain ⟨_, h⟩ := HC.C15.rB_ok h
  obtain ⟨_, h⟩ := HC.C15.rB_ok h
  obtain ⟨_, h⟩ := HC.C15.rB_ok h
  rw [b6, Fe 0, Fe 1, Fr 0, Fr 1] at h
  obtain ⟨vid1, hv1, h⟩ := ro_bind_ok (readOnly_vertexId2 _ _) h
  obtain ⟨vid2, hv2, h⟩ := ro_bind_ok (readOnly_vertexId2 _ _) h
  obtain ⟨newV, hmid, h⟩ := ro_bind_ok (ro_midpointOrRetry _ _) h
  obtain ⟨vid, hvid, h⟩ := ro_bind_ok (readOnly_vertexId2 _ _) h
  obtain ⟨old, m7, r7, h⟩ := run_bind_ok h
  have n6' : m6.n = m.n := I6.n_eq
  -- the identifiers read
  have four : ∀ x, x ∈ [e, m.β 2 e, m.β 1 e, m.β 0 e, m.β 1 (m.β 2 e), m.β 0 (m.β 2 e)] → x ∉ [n1, n3, n4, n6] := by
    intro x hx
    simp only [List.mem_cons, List.mem_nil_iff, or_false] at hx
    rcases hx with rfl | rfl | rfl | rfl | rfl | rfl <;> simp [q1, Ne.symm q1, q2, Ne.symm q2, q3, Ne.symm q3, q4, Ne.symm q4, q5, Ne.symm q5, q6, Ne.symm q6, q7, Ne.symm q7, q8, Ne.symm q8, q9, Ne.symm q9, q10, Ne.symm q10, q11, Ne.symm q11, q12, Ne.symm q12, q13, Ne.symm q13, q14, Ne.symm q14, q15, Ne.symm q15, q16, Ne.symm q16, q17, Ne.symm q17, q18, Ne.symm q18, q19, Ne.symm q19, q20, Ne.symm q20, q21, Ne.symm q21, q22, Ne.symm q22, q23, Ne.symm q23, q24, Ne.symm q24, q25, Ne.symm q25, q26, Ne.symm q26, q27, Ne.symm q27, q28, Ne.symm q28, q29, Ne.symm q29, q30, Ne.symm q30, q31, Ne.symm q31, q32, Ne.symm q32, q33, Ne.symm q33, q34, Ne.symm q34, q35, Ne.symm q35, q36, Ne.symm q36, q37, Ne.symm q37, q38, Ne.symm q38, q39, Ne.symm q39, q40, Ne.symm q40, q41, Ne.symm q41, q42, Ne.symm q42, q43, Ne.symm q43, q44, Ne.symm q44, q45, Ne.symm q45, q46, Ne.symm q46, q47, Ne.symm q47, q48, Ne.symm q48, q49, Ne.symm q49, q50, Ne.symm q50, q51, Ne.symm q51, q52, Ne.symm q52, q53, Ne.symm q53, q54, Ne.symm q54, q55, Ne.symm q55, q56, Ne.symm q56, q57, Ne.symm q57, q58, Ne.symm q58, q59, Ne.symm q59, q60, Ne.symm q60, q61, Ne.symm q61, q62, Ne.symm q62, q63, Ne.symm q63, q64, Ne.symm q64, q65, Ne.symm q65, q66, Ne.symm q66]
  have oldid : ∀ x, x ≠ 0 → x < m.n → x ∉ [n1, n3, n4, n6] → cellId m6 .vertex x = cellId m .vertex x := by
    intro x x0 xn hx
    refine vid_congr hwf I6.wf n6' x0 xn (fun y _ => ?_)
    rw [show VC m6 x y = Conn (VPair F) x y by unfold VC; rw [b6]]
    exact ⟨fun hc => (oldconn x y hx hc).1,
      Conn.mono (fun u v ed => Conn.fwd (.refl _) ((pairsF u v).2 (Or.inl ed)))⟩
  have ev1 : vid1 = cellId m .vertex e := by
    have := (C03_vertexId2_min I6.wf he.1 (by rw [n6']; exact hn)).1
    rw [n6'] at this
    rw [run_inj hv1 this, oldid e he.1 hn (four e (by simp))]
  have ev2 : vid2 = cellId m .vertex (m.β 1 e) := by
    have := (C03_vertexId2_min I6.wf a0 (by rw [n6']; exact ha)).1
    rw [n6'] at this
    rw [run_inj hv2 this, oldid _ a0 ha (four _ (by simp))]
  have evid : vid = cellId m6 .vertex n1 := by
    have := (C03_vertexId2_min I6.wf n0.1 (by rw [n6']; exact s1.1.2.1)).1
    rw [n6'] at this
    exact run_inj hvid this
  have hval : ∃ va vb, m6.att 0 vid1 = some va ∧ m6.att 0 vid2 = some vb ∧ newV = avgVal va vb := by
    unfold midpointOrRetry at hmid
    obtain ⟨_, hmid⟩ := rA_ok hmid
    obtain ⟨_, hmid⟩ := rA_ok hmid
    cases ha' : m6.att 0 vid1 <;> cases hb' : m6.att 0 vid2 <;> simp [ha', hb'] at hmid
    exact ⟨_, _, rfl, rfl, hmid.symm⟩
  obtain ⟨va, vb, hva, hvb, hnv⟩ := hval
  rw [hnv] at r7
  rw [at6, ev1] at hva
  rw [at6, ev2] at hvb
  -- the write
  have I7 := inv_attrOnly (ao_writeVtx vid (avgVal va vb)) I6 r7
  have e7 : m7 = m6.setA 0 vid (some (avgVal va vb)) ∧ m6.okA 0 vid = true := by
    unfold writeVtx at r7
    obtain ⟨hok, r7⟩ := rA_ok r7
    obtain ⟨_, r7⟩ := wA_ok r7
    simp at r7
    exact ⟨r7.2.symm, hok⟩
  have b7 : m7.β = F := by rw [e7.1]; exact b6
  have fc7 : m7.fc = 0 := by rw [e7.1]; exact fc6
  have st67 : SameTopo m6 m7 := by rw [e7.1]; exact SameTopo.setA _ _ _ _
  have vc7 : ∀ x y, VC m7 x y ↔ Conn (VPair F) x y := fun x y => by unfold VC; rw [b7]
  -- the new vertex holds the midpoint, the vertex of `n6` nothing
  have v7n1 : vval m7 n1 = some (avgVal va vb) := by
    unfold vval
    rw [vid_of_sameTopo st67, ← evid, e7.1, Map.att_setA]; simp [e7.2]
  have v7n6 : vval m7 n6 = none := by
    obtain ⟨k0, kn, kc⟩ := vc_vid I6.wf n0.2.2.2.2.2 (by rw [n6']; exact s6.1.2.1)
    obtain ⟨j0, jn, jc⟩ := vc_vid I6.wf n0.1 (by rw [n6']; exact s1.1.2.1)
    have kk := (newconn _).2 (by have := kc; unfold VC at this; rw [b6] at this; exact this)
    have jj := (newconn _).1 (by have := jc; unfold VC at this; rw [b6] at this; exact this)
    have ne : cellId m6 .vertex n6 ≠ vid := by
      rw [evid]
      rcases kk with kk | kk <;> rcases jj with jj | jj <;> rw [kk, jj] <;> simp [q1, Ne.symm q1, q2, Ne.symm q2, q3, Ne.symm q3, q4, Ne.symm q4, q5, Ne.symm q5, q6, Ne.symm q6, q7, Ne.symm q7, q8, Ne.symm q8, q9, Ne.symm q9, q10, Ne.symm q10, q11, Ne.symm q11, q12, Ne.symm q12, q13, Ne.symm q13, q14, Ne.symm q14, q15, Ne.symm q15, q16, Ne.symm q16, q17, Ne.symm q17, q18, Ne.symm q18, q19, Ne.symm q19, q20, Ne.symm q20, q21, Ne.symm q21, q22, Ne.symm q22, q23, Ne.symm q23, q24, Ne.symm q24, q25, Ne.symm q25, q26, Ne.symm q26, q27, Ne.symm q27, q28, Ne.symm q28, q29, Ne.symm q29, q30, Ne.symm q30, q31, Ne.symm q31, q32, Ne.symm q32, q33, Ne.symm q33, q34, Ne.symm q34, q35, Ne.symm q35, q36, Ne.symm q36, q37, Ne.symm q37, q38, Ne.symm q38, q39, Ne.symm q39, q40, Ne.symm q40, q41, Ne.symm q41, q42, Ne.symm q42, q43, Ne.symm q43, q44, Ne.symm q44, q45, Ne.symm q45, q46, Ne.symm q46, q47, Ne.symm q47, q48, Ne.symm q48, q49, Ne.symm q49, q50, Ne.symm q50, q51, Ne.symm q51, q52, Ne.symm q52, q53, Ne.symm q53, q54, Ne.symm q54, q55, Ne.symm q55, q56, Ne.symm q56, q57, Ne.symm q57, q58, Ne.symm q58, q59, Ne.symm q59, q60, Ne.symm q60, q61, Ne.symm q61, q62, Ne.symm q62, q63, Ne.symm q63, q64, Ne.symm q64, q65, Ne.symm q65, q66, Ne.symm q66]
    unfold vval
    rw [vid_of_sameTopo st67, e7.1, Map.att_setA]
    simp only [ne, Ne.symm ne, and_false, false_and, if_false]
    rw [at6]
    rcases kk with kk | kk <;> rw [kk]
    · exact hnone n4 (by simp)
    · exact hnone n6 (by simp)
  -- the two end points of the edge are different vertices
  have hdiff : ¬ VC m7 e (m7.β 2 e) := by
    rw [b7, Fe 2, vc7]
    intro hc
    have := (oldconn _ _ (four e (by simp)) hc).1
    exact hends ((vid_of_vc hwf he.1 hn hr0 hr).2 this)
  -- the unsews and the two 2-sews: no dart sees another value
  obtain ⟨_, m8, r8, h⟩ := run_bind_ok h
  obtain ⟨I8, fc8, b8, v8⟩ := twoUnsew_step cfg hL I7 fc7 Le (by rw [b7, Fe 1]; exact a0)
    (by rw [b7, Fe 2, Fr 1]; exact c0) hdiff r8
  obtain ⟨_, m9, r9, h⟩ := run_bind_ok h
  obtain ⟨I9, fc9, _, v9⟩ := unsew_step cfg hL I8 fc8 Le r9
  have b9 := unsew_step_beta cfg r9
  obtain ⟨_, m10, r10, h⟩ := run_bind_ok h
  obtain ⟨I10, fc10, _, v10⟩ := unsew_step cfg hL I9 fc9 La r10
  have b10 := unsew_step_beta cfg r10
  obtain ⟨_, m11, r11, h⟩ := run_bind_ok h
  obtain ⟨I11, fc11, _, v11⟩ := unsew_step cfg hL I10 fc10 Lr r11
  have b11 := unsew_step_beta cfg r11
  obtain ⟨_, m12, r12, h⟩ := run_bind_ok h
  obtain ⟨I12, fc12, _, v12⟩ := unsew_step cfg hL I11 fc11 Lc r12
  have b12 := unsew_step_beta cfg r12
  have B12 : m12.β = unl1 (unl1 (unl1 (unl1 (unl2 F e) e) (m.β 1 e)) (m.β 2 e)) (m.β 1 (m.β 2 e)) := by
    rw [b12, b11, b10, b9, b8, b7]
  obtain ⟨_, m13, r13, h⟩ := run_bind_ok h
  obtain ⟨I13, fc13, b13, v13⟩ := twoSew_free_step cfg I12 fc12 Le L6 q11
    (by rw [B12]; simp [unl1_one', unl2_one', q1, Ne.symm q1, q2, Ne.symm q2, q3, Ne.symm q3, q4, Ne.symm q4, q5, Ne.symm q5, q6, Ne.symm q6, q7, Ne.symm q7, q8, Ne.symm q8, q9, Ne.symm q9, q10, Ne.symm q10, q11, Ne.symm q11, q12, Ne.symm q12, q13, Ne.symm q13, q14, Ne.symm q14, q15, Ne.symm q15, q16, Ne.symm q16, q17, Ne.symm q17, q18, Ne.symm q18, q19, Ne.symm q19, q20, Ne.symm q20, q21, Ne.symm q21, q22, Ne.symm q22, q23, Ne.symm q23, q24, Ne.symm q24, q25, Ne.symm q25, q26, Ne.symm q26, q27, Ne.symm q27, q28, Ne.symm q28, q29, Ne.symm q29, q30, Ne.symm q30, q31, Ne.symm q31, q32, Ne.symm q32, q33, Ne.symm q33, q34, Ne.symm q34, q35, Ne.symm q35, q36, Ne.symm q36, q37, Ne.symm q37, q38, Ne.symm q38, q39, Ne.symm q39, q40, Ne.symm q40, q41, Ne.symm q41, q42, Ne.symm q42, q43, Ne.symm q43, q44, Ne.symm q44, q45, Ne.symm q45, q46, Ne.symm q46, q47, Ne.symm q47, q48, Ne.symm q48, q49, Ne.symm q49, q50, Ne.symm q50, q51, Ne.symm q51, q52, Ne.symm q52, q53, Ne.symm q53, q54, Ne.symm q54, q55, Ne.symm q55, q56, Ne.symm q56, q57, Ne.symm q57, q58, Ne.symm q58, q59, Ne.symm q59, q60, Ne.symm q60, q61, Ne.symm q61, q62, Ne.symm q62, q63, Ne.symm q63, q64, Ne.symm q64, q65, Ne.symm q65, q66, Ne.symm q66])
    (by rw [B12]; simp [unl1_one', unl2_one', F1, q1, Ne.symm q1, q2, Ne.symm q2, q3, Ne.symm q3, q4, Ne.symm q4, q5, Ne.symm q5, q6, Ne.symm q6, q7, Ne.symm q7, q8, Ne.symm q8, q9, Ne.symm q9, q10, Ne.symm q10, q11, Ne.symm q11, q12, Ne.symm q12, q13, Ne.symm q13, q14, Ne.symm q14, q15, Ne.symm q15, q16, Ne.symm q16, q17, Ne.symm q17, q18, Ne.symm q18, q19, Ne.symm q19, q20, Ne.symm q20, q21, Ne.symm q21, q22, Ne.symm q22, q23, Ne.symm q23, q24, Ne.symm q24, q25, Ne.symm q25, q26, Ne.symm q26, q27, Ne.symm q27, q28, Ne.symm q28, q29, Ne.symm q29, q30, Ne.symm q30, q31, Ne.symm q31, q32, Ne.symm q32, q33, Ne.symm q33, q34, Ne.symm q34, q35, Ne.symm q35, q36, Ne.symm q36, q37, Ne.symm q37, q38, Ne.symm q38, q39, Ne.symm q39, q40, Ne.symm q40, q41, Ne.symm q41, q42, Ne.symm q42, q43, Ne.symm q43, q44, Ne.symm q44, q45, Ne.symm q45, q46, Ne.symm q46, q47, Ne.symm q47, q48, Ne.symm q48, q49, Ne.symm q49, q50, Ne.symm q50, q51, Ne.symm q51, q52, Ne.symm q52, q53, Ne.symm q53, q54, Ne.symm q54, q55, Ne.symm q55, q56, Ne.symm q56, q57, Ne.symm q57, q58, Ne.symm q58, q59, Ne.symm q59, q60, Ne.symm q60, q61, Ne.symm q61, q62, Ne.symm q62, q63, Ne.symm q63, q64, Ne.symm q64, q65, Ne.symm q65, q66, Ne.symm q66]) r13
  obtain ⟨_, m14, r14, h⟩ := run_bind_ok h
  obtain ⟨I14, fc14, b14, v14⟩ := twoSew_free_step cfg I13 fc13 Lr L3 q18
    (by rw [b13, B12]; simp [lnk2_one', unl1_one', unl2_one', q1, Ne.symm q1, q2, Ne.symm q2, q3, Ne.symm q3, q4, Ne.symm q4, q5, Ne.symm q5, q6, Ne.symm q6, q7, Ne.symm q7, q8, Ne.symm q8, q9, Ne.symm q9, q10, Ne.symm q10, q11, Ne.symm q11, q12, Ne.symm q12, q13, Ne.symm q13, q14, Ne.symm q14, q15, Ne.symm q15, q16, Ne.symm q16, q17, Ne.symm q17, q18, Ne.symm q18, q19, Ne.symm q19, q20, Ne.symm q20, q21, Ne.symm q21, q22, Ne.symm q22, q23, Ne.symm q23, q24, Ne.symm q24, q25, Ne.symm q25, q26, Ne.symm q26, q27, Ne.symm q27, q28, Ne.symm q28, q29, Ne.symm q29, q30, Ne.symm q30, q31, Ne.symm q31, q32, Ne.symm q32, q33, Ne.symm q33, q34, Ne.symm q34, q35, Ne.symm q35, q36, Ne.symm q36, q37, Ne.symm q37, q38, Ne.symm q38, q39, Ne.symm q39, q40, Ne.symm q40, q41, Ne.symm q41, q42, Ne.symm q42, q43, Ne.symm q43, q44, Ne.symm q44, q45, Ne.symm q45, q46, Ne.symm q46, q47, Ne.symm q47, q48, Ne.symm q48, q49, Ne.symm q49, q50, Ne.symm q50, q51, Ne.symm q51, q52, Ne.symm q52, q53, Ne.symm q53, q54, Ne.symm q54, q55, Ne.symm q55, q56, Ne.symm q56, q57, Ne.symm q57, q58, Ne.symm q58, q59, Ne.symm q59, q60, Ne.symm q60, q61, Ne.symm q61, q62, Ne.symm q62, q63, Ne.symm q63, q64, Ne.symm q64, q65, Ne.symm q65, q66, Ne.symm q66])
    (by rw [b13, B12]; simp [lnk2_one', unl1_one', unl2_one', F1, q1, Ne.symm q1, q2, Ne.symm q2, q3, Ne.symm q3, q4, Ne.symm q4, q5, Ne.symm q5, q6, Ne.symm q6, q7, Ne.symm q7, q8, Ne.symm q8, q9, Ne.symm q9, q10, Ne.symm q10, q11, Ne.symm q11, q12, Ne.symm q12, q13, Ne.symm q13, q14, Ne.symm q14, q15, Ne.symm q15, q16, Ne.symm q16, q17, Ne.symm q17, q18, Ne.symm q18, q19, Ne.symm q19, q20, Ne.symm q20, q21, Ne.symm q21, q22, Ne.symm q22, q23, Ne.symm q23, q24, Ne.symm q24, q25, Ne.symm q25, q26, Ne.symm q26, q27, Ne.symm q27, q28, Ne.symm q28, q29, Ne.symm q29, q30, Ne.symm q30, q31, Ne.symm q31, q32, Ne.symm q32, q33, Ne.symm q33, q34, Ne.symm q34, q35, Ne.symm q35, q36, Ne.symm q36, q37, Ne.symm q37, q38, Ne.symm q38, q39, Ne.symm q39, q40, Ne.symm q40, q41, Ne.symm q41, q42, Ne.symm q42, q43, Ne.symm q43, q44, Ne.symm q44, q45, Ne.symm q45, q46, Ne.symm q46, q47, Ne.symm q47, q48, Ne.symm q48, q49, Ne.symm q49, q50, Ne.symm q50, q51, Ne.symm q51, q52, Ne.symm q52, q53, Ne.symm q53, q54, Ne.symm q54, q55, Ne.symm q55, q56, Ne.symm q56, q57, Ne.symm q57, q58, Ne.symm q58, q59, Ne.symm q59, q60, Ne.symm q60, q61, Ne.symm q61, q62, Ne.symm q62, q63, Ne.symm q63, q64, Ne.symm q64, q65, Ne.symm q65, q66, Ne.symm q66]) r14
  have B14 : m14.β = lnk2 (lnk2 (unl1 (unl1 (unl1 (unl1 (unl2 F e) e) (m.β 1 e)) (m.β 2 e)) (m.β 1 (m.β 2 e))) e n6)
      (m.β 2 e) n3 := by rw [b14, b13, B12]
  have V14 : ∀ x, x ≠ 0 → x < m.n → vval m14 x = vval m7 x := fun x x0 xn => by
    rw [v14 x x0 xn, v13 x x0 xn, v12 x x0 xn, v11 x x0 xn, v10 x x0 xn, v9 x x0 xn, v8 x x0 xn]
  -- β2 and the two pairs of the new vertex before the eight 1-sews
  have H2 : m14.β 2 e = n6 ∧ m14.β 2 n1 = n2 ∧ m14.β 2 n3 = m.β 2 e ∧ m14.β 2 (m.β 2 e) = n3 ∧ m14.β 2 n4 = n5 ∧
      m14.β 2 n6 = e ∧ m14.β 2 n2 = n1 ∧ m14.β 2 n5 = n4 := by
    rw [B14]
    simp [lnk2_two', unl1_two', unl2_two', Fe 2, F2, q1, Ne.symm q1, q2, Ne.symm q2, q3, Ne.symm q3, q4, Ne.symm q4, q5, Ne.symm q5, q6, Ne.symm q6, q7, Ne.symm q7, q8, Ne.symm q8, q9, Ne.symm q9, q10, Ne.symm q10, q11, Ne.symm q11, q12, Ne.symm q12, q13, Ne.symm q13, q14, Ne.symm q14, q15, Ne.symm q15, q16, Ne.symm q16, q17, Ne.symm q17, q18, Ne.symm q18, q19, Ne.symm q19, q20, Ne.symm q20, q21, Ne.symm q21, q22, Ne.symm q22, q23, Ne.symm q23, q24, Ne.symm q24, q25, Ne.symm q25, q26, Ne.symm q26, q27, Ne.symm q27, q28, Ne.symm q28, q29, Ne.symm q29, q30, Ne.symm q30, q31, Ne.symm q31, q32, Ne.symm q32, q33, Ne.symm q33, q34, Ne.symm q34, q35, Ne.symm q35, q36, Ne.symm q36, q37, Ne.symm q37, q38, Ne.symm q38, q39, Ne.symm q39, q40, Ne.symm q40, q41, Ne.symm q41, q42, Ne.symm q42, q43, Ne.symm q43, q44, Ne.symm q44, q45, Ne.symm q45, q46, Ne.symm q46, q47, Ne.symm q47, q48, Ne.symm q48, q49, Ne.symm q49, q50, Ne.symm q50, q51, Ne.symm q51, q52, Ne.symm q52, q53, Ne.symm q53, q54, Ne.symm q54, q55, Ne.symm q55, q56, Ne.symm q56, q57, Ne.symm q57, q58, Ne.symm q58, q59, Ne.symm q59, q60, Ne.symm q60, q61, Ne.symm q61, q62, Ne.symm q62, q63, Ne.symm q63, q64, Ne.symm q64, q65, Ne.symm q65, q66, Ne.symm q66]
  have H1 : m14.β 1 n2 = n3 ∧ m14.β 1 n5 = n6 := by
    rw [B14]
    simp [lnk2_one', unl1_one', unl2_one', F1, q1, Ne.symm q1, q2, Ne.symm q2, q3, Ne.symm q3, q4, Ne.symm q4, q5, Ne.symm q5, q6, Ne.symm q6, q7, Ne.symm q7, q8, Ne.symm q8, q9, Ne.symm q9, q10, Ne.symm q10, q11, Ne.symm q11, q12, Ne.symm q12, q13, Ne.symm q13, q14, Ne.symm q14, q15, Ne.symm q15, q16, Ne.symm q16, q17, Ne.symm q17, q18, Ne.symm q18, q19, Ne.symm q19, q20, Ne.symm q20, q21, Ne.symm q21, q22, Ne.symm q22, q23, Ne.symm q23, q24, Ne.symm q24, q25, Ne.symm q25, q26, Ne.symm q26, q27, Ne.symm q27, q28, Ne.symm q28, q29, Ne.symm q29, q30, Ne.symm q30, q31, Ne.symm q31, q32, Ne.symm q32, q33, Ne.symm q33, q34, Ne.symm q34, q35, Ne.symm q35, q36, Ne.symm q36, q37, Ne.symm q37, q38, Ne.symm q38, q39, Ne.symm q39, q40, Ne.symm q40, q41, Ne.symm q41, q42, Ne.symm q42, q43, Ne.symm q43, q44, Ne.symm q44, q45, Ne.symm q45, q46, Ne.symm q46, q47, Ne.symm q47, q48, Ne.symm q48, q49, Ne.symm q49, q50, Ne.symm q50, q51, Ne.symm q51, q52, Ne.symm q52, q53, Ne.symm q53, q54, Ne.symm q54, q55, Ne.symm q55, q56, Ne.symm q56, q57, Ne.symm q57, q58, Ne.symm q58, q59, Ne.symm q59, q60, Ne.symm q60, q61, Ne.symm q61, q62, Ne.symm q62, q63, Ne.symm q63, q64, Ne.symm q64, q65, Ne.symm q65, q66, Ne.symm q66]
  -- the eight 1-sews
  obtain ⟨_, m15, r15, h⟩ := run_bind_ok h
  obtain ⟨I15, fc15, b15, mo15, _, _, _, _⟩ := sew_step cfg hL I14 fc14 Le L1 r15
  obtain ⟨_, m16, r16, h⟩ := run_bind_ok h
  obtain ⟨I16, fc16, b16, mo16, _, _, k16, _⟩ := sew_step cfg hL I15 fc15 L1 Lb r16
  obtain ⟨_, m17, r17, h⟩ := run_bind_ok h
  obtain ⟨I17, fc17, b17, mo17, _, _, k17, _⟩ := sew_step cfg hL I16 fc16 L3 La r17
  obtain ⟨_, m18, r18, h⟩ := run_bind_ok h
  obtain ⟨I18, fc18, b18, mo18, _, _, k18, _⟩ := sew_step cfg hL I17 fc17 La L2 r18
  obtain ⟨_, m19, r19, h⟩ := run_bind_ok h
  obtain ⟨I19, fc19, b19, mo19, _, _, _, w19⟩ := sew_step cfg hL I18 fc18 Lr L4 r19
  obtain ⟨_, m20, r20, h⟩ := run_bind_ok h
  obtain ⟨I20, fc20, b20, mo20, _, _, k20, _⟩ := sew_step cfg hL I19 fc19 L4 Ld r20
  obtain ⟨_, m21, r21, h⟩ := run_bind_ok h
  obtain ⟨I21, fc21, b21, mo21, _, _, k21, _⟩ := sew_step cfg hL I20 fc20 L6 Lc r21
  obtain ⟨_, m22, r22, h⟩ := run_bind_ok h
  obtain ⟨I22, fc22, b22, mo22, _, _, k22, _⟩ := sew_step cfg hL I21 fc21 Lc L5 r22
  -- the anchors
  obtain ⟨_, m23, r23, h⟩ := run_bind_ok h
  obtain ⟨_, m24, r24, h⟩ := run_bind_ok h
  have st23 := AttrOnly.run_ok (ao_spreadFaceAnchor cfg m.n lfa n1 n2) r23
  have st24 := AttrOnly.run_ok (ao_spreadFaceAnchor cfg m.n rfa n4 n5) r24
  have st25 := AttrOnly.run_ok (ao_spreadEdgeAnchor cfg m.n ea n1) h
  obtain ⟨_, at23⟩ := keeps0_spreadFaceAnchor cfg m.n lfa n1 n2 m22 m23 _ r23
  obtain ⟨_, at24⟩ := keeps0_spreadFaceAnchor cfg m.n rfa n4 n5 m23 m24 _ r24
  obtain ⟨_, at25⟩ := keeps0_spreadEdgeAnchor cfg m.n ea n1 m24 m' _ h
  have stF : SameTopo m22 m' := (st23.trans st24).trans st25
  have attF : ∀ x, m'.att 0 x = m22.att 0 x := fun x => by rw [at25, at24, at23]
  -- the final colouring
  obtain ⟨hcid, ⟨c3, c4, c6⟩, c2b, c5d, _, _, hmem⟩ :=
    C15_cutInner_vertices cfg m m' e n1 n2 n3 n4 n5 n6 hwf he h0 hr0 htl hb htr hd hs hnd
  have hw' : WF 3 m' := I22.wf.sameTopo stF
  have hn' : m'.n = m.n := by rw [stF.n]; exact I22.n_eq
  obtain ⟨K, hKdef⟩ : ∃ K : Nat → Nat, K = fun x => cellId m' .vertex x := ⟨_, rfl⟩
  have Kx : ∀ x, K x = cellId m' .vertex x := fun x => by rw [hKdef]
  have hK22 : ∀ x y, x ≠ 0 → x < m.n → y ≠ 0 → y < m.n → VC m22 x y → K x = K y := by
    intro x y x0 xn y0 yn hc
    rw [Kx, Kx, vid_of_sameTopo stF, vid_of_sameTopo stF]
    exact (vid_of_vc I22.wf x0 (by rw [I22.n_eq]; exact xn) y0 (by rw [I22.n_eq]; exact yn)).2 hc
  have hK21 : ∀ x y, x ≠ 0 → x < m.n → y ≠ 0 → y < m.n → VC m21 x y → K x = K y :=
    fun x y x0 xn y0 yn hc => hK22 x y x0 xn y0 yn (mo22 _ _ hc)
  have hK20 : ∀ x y, x ≠ 0 → x < m.n → y ≠ 0 → y < m.n → VC m20 x y → K x = K y :=
    fun x y x0 xn y0 yn hc => hK21 x y x0 xn y0 yn (mo21 _ _ hc)
  have hK19 : ∀ x y, x ≠ 0 → x < m.n → y ≠ 0 → y < m.n → VC m19 x y → K x = K y :=
    fun x y x0 xn y0 yn hc => hK20 x y x0 xn y0 yn (mo20 _ _ hc)
  have hK18 : ∀ x y, x ≠ 0 → x < m.n → y ≠ 0 → y < m.n → VC m18 x y → K x = K y :=
    fun x y x0 xn y0 yn hc => hK19 x y x0 xn y0 yn (mo19 _ _ hc)
  have hK17 : ∀ x y, x ≠ 0 → x < m.n → y ≠ 0 → y < m.n → VC m17 x y → K x = K y :=
    fun x y x0 xn y0 yn hc => hK18 x y x0 xn y0 yn (mo18 _ _ hc)
  have hK16 : ∀ x y, x ≠ 0 → x < m.n → y ≠ 0 → y < m.n → VC m16 x y → K x = K y :=
    fun x y x0 xn y0 yn hc => hK17 x y x0 xn y0 yn (mo17 _ _ hc)
  -- the new vertex has a colour of its own
  have notN : ∀ x, x ≠ 0 → x < m.n → x ∉ [n1, n3, n4, n6] → K n1 ≠ K x := by
    intro x x0 xn hx hh
    rw [Kx, Kx] at hh
    have r := (C03_same_id_iff_same_cell hw' (pol := .vertex) trivial n0.1 (by rw [hn']; exact s1.1.2.1) x0
      (by rw [hn']; exact xn)).1.1 hh
    exact hx ((hmem x).1 ((mem_orb hw' (pol := .vertex) trivial n0.1 (by rw [hn']; exact s1.1.2.1) x).2 ⟨x0, r⟩))
  have kb := notN _ hb hbn (four _ (by simp))
  have ka := notN _ a0 ha (four _ (by simp))
  have kd := notN _ hd hdn (four _ (by simp))
  have kc := notN _ c0 hc (four _ (by simp))
  have k2 : K n1 ≠ K n2 := by rw [Kx n2, c2b, ← Kx]; exact kb
  have k5 : K n1 ≠ K n5 := by rw [Kx n5, c5d, ← Kx]; exact kd
  have k6 : K n6 = K n1 := by rw [Kx, Kx]; exact c6
  -- the values
  have iN : IsPt (avgVal va vb) := ⟨_, _, _, rfl⟩
  have v14n1 : vval m14 n1 = some (avgVal va vb) := by rw [V14 _ n0.1 s1.1.2.1]; exact v7n1
  have v14n6 : vval m14 n6 = none := by rw [V14 _ n0.2.2.2.2.2 s6.1.2.1]; exact v7n6
  obtain ⟨v15n1, v15n6, _⟩ := sew_step_none cfg hL I14 fc14 Le L1 r15 (by rw [H2.1]; exact n0.2.2.2.2.2)
    (by rw [H2.1]; exact v14n6) v14n1
  rw [H2.1] at v15n6
  have v18n1 : vval m18 n1 = some (avgVal va vb) := by
    rw [k18 K hK18 _ n0.1 s1.1.2.1 k2, k17 K hK17 _ n0.1 s1.1.2.1 ka, k16 K hK16 _ n0.1 s1.1.2.1 kb]; exact v15n1
  have v18n6 : vval m18 n6 = some (avgVal va vb) := by
    rw [k18 K hK18 _ n0.2.2.2.2.2 s6.1.2.1 (by rw [k6]; exact k2),
      k17 K hK17 _ n0.2.2.2.2.2 s6.1.2.1 (by rw [k6]; exact ka),
      k16 K hK16 _ n0.2.2.2.2.2 s6.1.2.1 (by rw [k6]; exact kb)]
    exact v15n6
  have c13 : VC m18 n3 n1 := by
    have p : VC m14 n1 n3 := Conn.fwd (.refl _) ⟨n2, H2.2.2.2.2.2.2.1, H1.1, n0.1, n0.2.2.1⟩
    exact (mo18 _ _ (mo17 _ _ (mo16 _ _ (mo15 _ _ p)))).symm
  have c46 : VC m18 n4 n6 := by
    have p : VC m14 n4 n6 := Conn.fwd (.refl _) ⟨n5, H2.2.2.2.2.2.2.2, H1.2, n0.2.2.2.1, n0.2.2.2.2.2⟩
    exact mo18 _ _ (mo17 _ _ (mo16 _ _ (mo15 _ _ p)))
  have n18 := I18.n_eq
  have v18n3 : vval m18 n3 = some (avgVal va vb) := by
    unfold vval
    rw [(vid_of_vc I18.wf n0.2.2.1 (by rw [n18]; exact s3.1.2.1) n0.1 (by rw [n18]; exact s1.1.2.1)).2 c13]
    exact v18n1
  have v18n4 : vval m18 n4 = some (avgVal va vb) := by
    unfold vval
    rw [(vid_of_vc I18.wf n0.2.2.2.1 (by rw [n18]; exact s4.1.2.1) n0.2.2.2.2.2 (by rw [n18]; exact s6.1.2.1)).2 c46]
    exact v18n6
  have B18 : m18.β 2 (m.β 2 e) = n3 := by rw [b18, b17, b16, b15]; exact H2.2.2.2.1
  obtain ⟨_, _, all19⟩ := w19 (by rw [B18]; exact n0.2.2.1) _ _ (by rw [B18]; exact v18n3) v18n4 iN iN
  rw [midV_self iN] at all19
  have v19n1 : vval m19 n1 = some (avgVal va vb) := by
    rcases all19 _ n0.1 s1.1.2.1 with hh | hh
    · exact hh
    · rw [hh]; exact v18n1
  have v22n1 : vval m22 n1 = some (avgVal va vb) := by
    rw [k22 K hK22 _ n0.1 s1.1.2.1 k5, k21 K hK21 _ n0.1 s1.1.2.1 kc, k20 K hK20 _ n0.1 s1.1.2.1 kd]; exact v19n1
  refine ⟨va, vb, hva, hvb, hcid, ?_⟩
  rw [attF, vid_of_sameTopo stF]
  exact v22n1


/-! ## (4) collapse towards an end point (the anchor-driven variant)

`TrJ` (Props/C15b.lean) for `collapse_halfcell_to_base` and `collapse_edge_to_base`, then symbolic evaluation of the β
function on the twelve darts involved. -/

section
variable {n : Nat} {u : Array Bool} {α : Type}

theorem TrJ.ite_pos {c : Prop} [Decidable c] {p q : P Val α} {Pre : BF → Prop} {F : BF → BF}
    {U : BF → Array Bool → Array Bool} (hp : TrJ n u p Pre F U) :
    TrJ n u (if c then p else q) (fun f => c ∧ Pre f) F U := by
  intro m m' a hi hpre h
  rw [if_pos hpre.1] at h
  exact hp m m' a hi hpre.2 h

theorem TrJ.twoUnlinkCore {l : Nat} (hl : l ≠ 0 → Live n u l) :
    TrJ n u (iUnlinkCore (X := Val) 2 l) (fun _ => True) (fun f => unl2 f l) (fun _ w => w) :=
  TrJ.of (keepsJ_twoUnlink_opt hl) (Eff.twoUnlinkCore l)

/-- β function after `collapse_halfcell_to_base(dPe, dE, dNe)` when the side `dNe` is interior -/
def halfBaseF (dPe dE dNe : Nat) (f : BF) : BF :=
  lnk1 (lnk1 (unl2 (unl1 (unl1 (unl1 (unl1 (unl1 f dE) dPe) dNe) (f 2 dNe)) (f 0 (f 2 dNe))) dNe) dPe (f 1 (f 2 dNe)))
    (f 0 (f 2 dNe)) dPe
/-- the side is interior and the two 1-sews are handed non-null darts -/
def halfBasePre (dPe dE dNe : Nat) (f : BF) : Prop :=
  f 2 dNe ≠ 0 ∧ dPe ≠ 0 ∧ f 1 (f 2 dNe) ≠ 0 ∧ f 0 (f 2 dNe) ≠ 0
def halfBaseU (dPe dE dNe : Nat) (f : BF) (w : Array Bool) : Array Bool := wr (wr (wr w dE true) dNe true) (f 2 dNe) true

theorem trj_halfBase (cfg : Cfg Val) {dPe dE dNe : Nat} (hp : dPe ≠ 0 → Live n u dPe) (he : dE ≠ 0 → Live n u dE)
    (hn : dNe ≠ 0 → Live n u dNe) :
    TrJ n u (collapseHalfBase cfg n dPe dE dNe) (halfBasePre dPe dE dNe) (halfBaseF dPe dE dNe)
      (halfBaseU dPe dE dNe) := by
  unfold collapseHalfBase
  have key :=
    TrJ.rB_bind (n := n) (u := u) (i := 2) (d := dNe) fun x hx =>
    TrJ.rB_bind (n := n) (u := u) (i := 0) (d := x) fun p hp' =>
    TrJ.rB_bind (n := n) (u := u) (i := 1) (d := x) fun q hq =>
    TrJ.bind (TrJ.oneUnsew2 cfg he) fun _ =>
    TrJ.bind (TrJ.oneUnsew2 cfg hp) fun _ =>
    TrJ.bind (TrJ.oneUnsew2 cfg hn) fun _ =>
    TrJ.ite_pos (n := n) (u := u) (c := x ≠ 0) (q := (Pure.pure () : P Val Unit)) (
      TrJ.bind (TrJ.oneUnsew2 (n := n) (u := u) cfg (l := x) hx) fun _ =>
      TrJ.bind (TrJ.oneUnsew2 (n := n) (u := u) cfg (l := p) hp') fun _ =>
      TrJ.bind (TrJ.twoUnlinkCore hn) fun _ =>
      TrJ.bind (TrJ.flag (n := n) (u := u) dE) fun _ =>
      TrJ.bind (TrJ.flag (n := n) (u := u) dNe) fun _ =>
      TrJ.bind (TrJ.flag (n := n) (u := u) x) fun _ =>
      TrJ.bind (TrJ.oneSew2 (n := n) (u := u) cfg (x := dPe) (y := q) hp hq) fun _ =>
      TrJ.oneSew2 (n := n) (u := u) cfg (x := p) (y := dPe) hp' hp)
  refine key.conv ?_ (fun f => rfl) (fun f w => rfl)
  intro f hf
  unfold halfBasePre at hf
  exact ⟨trivial, trivial, trivial, hf.1, trivial, trivial, trivial, trivial, trivial, trivial, ⟨hf.2.1, hf.2.2.1⟩,
    hf.2.2.2, hf.2.1⟩

/-- β function after `collapse_edge_to_base` on an interior edge (base `l`): half cells `(c, r, d)` then `(b, l, a)` -/
def baseF (l r a b c d : Nat) (f : BF) : BF := halfBaseF b l a (halfBaseF c r d (unl2 f l))
def basePre (l r a b c d : Nat) (f : BF) : Prop :=
  halfBasePre c r d (unl2 f l) ∧ halfBasePre b l a (halfBaseF c r d (unl2 f l))
def baseU (l r a b c d : Nat) (f : BF) (w : Array Bool) : Array Bool :=
  halfBaseU b l a (halfBaseF c r d (unl2 f l)) (halfBaseU c r d (unl2 f l) w)

theorem trj_base (cfg : Cfg Val) {b0l l b1l b0r r b1r : Nat} (hr0 : r ≠ 0)
    (h0l : b0l ≠ 0 → Live n u b0l) (hl : l ≠ 0 → Live n u l) (h1l : b1l ≠ 0 → Live n u b1l)
    (h0r : b0r ≠ 0 → Live n u b0r) (hr : r ≠ 0 → Live n u r) (h1r : b1r ≠ 0 → Live n u b1r) :
    TrJ n u (collapseEdgeToBase cfg n b0l l b1l b0r r b1r) (basePre l r b1l b0l b1r b0r) (baseF l r b1l b0l b1r b0r)
      (baseU l r b1l b0l b1r b0r) := by
  unfold collapseEdgeToBase
  simp only [hr0, ne_eq, not_false_eq_true, if_true]
  have key :=
    TrJ.bind (TrJ.ro (n := n) (u := u) (readOnly_vertexId2 n l)) fun lVid =>
    TrJ.bind (TrJ.ro (n := n) (u := u) (ReadOnly.rA 0 lVid)) fun tv =>
    TrJ.bind (TrJ.attr (n := n) (u := u) (ao_readAttr cfg stVA lVid)) fun ta =>
    TrJ.bind (TrJ.twoUnsew2 cfg hl) fun _ =>
    TrJ.bind (trj_halfBase cfg h1r hr h0r) fun _ =>
    TrJ.rB_bind (n := n) (u := u) (i := 2) (d := b0l) fun x _ =>
    TrJ.bind (trj_halfBase cfg h0l hl h1l) fun _ =>
    TrJ.bind (TrJ.ro (n := n) (u := u) (ro_collapsedVid n x r b1r)) fun newVid =>
    TrJ.attr (n := n) (u := u) (ao_baseWriteBack cfg newVid tv ta)
  refine key.conv ?_ (fun f => rfl) (fun f w => rfl)
  intro f hf
  exact ⟨trivial, trivial, trivial, trivial, hf.1, hf.2, trivial, trivial⟩

end

set_option maxHeartbeats 3200000 in
/-- pure evaluation of `baseF`: two β1-triangles `l → a → b → l`, `r → c → d → r` glued along `l | r`; the sides `a`, `d`
    are glued to `xa`, `xd`, whose faces continue with `pa → xa → qa` and `pd → xd → qd` (twelve darts, pairwise
    distinct) -/
theorem collapseBase_chain_eval (f : BF) (l r a b c d xa pa qa xd pd qd : Nat)
    (hd : [l, r, a, b, c, d, xa, pa, qa, xd, pd, qd].Nodup)
    (x0 : xa ≠ 0 ∧ pa ≠ 0 ∧ qa ≠ 0 ∧ xd ≠ 0 ∧ pd ≠ 0 ∧ qd ≠ 0 ∧ b ≠ 0 ∧ c ≠ 0)
    (k1 : f 2 l = r) (k2 : f 2 r = l) (ka : f 2 a = xa) (ka' : f 2 xa = a) (kd : f 2 d = xd) (kd' : f 2 xd = d)
    (h1 : f 1 l = a) (h2 : f 1 a = b) (h3 : f 1 b = l) (h4 : f 1 r = c) (h5 : f 1 c = d) (h6 : f 1 d = r)
    (n1 : f 1 xa = qa) (n2 : f 1 pa = xa) (n3 : f 1 xd = qd) (n4 : f 1 pd = xd)
    (g1 : f 0 a = l) (g2 : f 0 b = a) (g3 : f 0 l = b) (g4 : f 0 c = r) (g5 : f 0 d = c) (g6 : f 0 r = d)
    (o1 : f 0 xa = pa) (o2 : f 0 qa = xa) (o3 : f 0 xd = pd) (o4 : f 0 qd = xd) :
    basePre l r a b c d f ∧
    ((baseF l r a b c d f 0 l = 0 ∧ baseF l r a b c d f 1 l = 0 ∧ baseF l r a b c d f 2 l = 0) ∧
     (baseF l r a b c d f 0 a = 0 ∧ baseF l r a b c d f 1 a = 0 ∧ baseF l r a b c d f 2 a = 0) ∧
     (baseF l r a b c d f 0 xa = 0 ∧ baseF l r a b c d f 1 xa = 0 ∧ baseF l r a b c d f 2 xa = 0) ∧
     (baseF l r a b c d f 0 r = 0 ∧ baseF l r a b c d f 1 r = 0 ∧ baseF l r a b c d f 2 r = 0) ∧
     (baseF l r a b c d f 0 d = 0 ∧ baseF l r a b c d f 1 d = 0 ∧ baseF l r a b c d f 2 d = 0) ∧
     (baseF l r a b c d f 0 xd = 0 ∧ baseF l r a b c d f 1 xd = 0 ∧ baseF l r a b c d f 2 xd = 0)) ∧
    (baseF l r a b c d f 1 pa = b ∧ baseF l r a b c d f 1 b = qa ∧ baseF l r a b c d f 0 b = pa ∧
      baseF l r a b c d f 0 qa = b ∧ baseF l r a b c d f 2 b = f 2 b) ∧
    (baseF l r a b c d f 1 pd = c ∧ baseF l r a b c d f 1 c = qd ∧ baseF l r a b c d f 0 c = pd ∧
      baseF l r a b c d f 0 qd = c ∧ baseF l r a b c d f 2 c = f 2 c) ∧
    (∀ i x, x ∉ [l, r, a, b, c, d, xa, pa, qa, xd, pd, qd] → baseF l r a b c d f i x = f i x) := by
  simp only [List.nodup_cons, List.mem_cons, List.mem_nil_iff, not_or, or_false, List.nodup_nil, and_true] at hd
  obtain ⟨xa0, pa0, qa0, xd0, pd0, qd0, b0, c0⟩ := x0
  refine ⟨⟨⟨?_, ?_, ?_, ?_⟩, ⟨?_, ?_, ?_, ?_⟩⟩, ⟨⟨?_, ?_, ?_⟩, ⟨?_, ?_, ?_⟩, ⟨?_, ?_, ?_⟩, ⟨?_, ?_, ?_⟩, ⟨?_, ?_, ?_⟩, ⟨?_, ?_, ?_⟩⟩,
    ⟨?_, ?_, ?_, ?_, ?_⟩, ⟨?_, ?_, ?_, ?_, ?_⟩, ?_⟩
  all_goals try (first | assumption | simp only [basePre, halfBasePre, baseF, halfBaseF, lnk1, lnk2, unl1, unl2, upd_apply, k1, k2, ka, ka', kd, kd', h1, h2, h3, h4, h5, h6, n1, n2, n3, n4, g1, g2, g3, g4, g5, g6, o1, o2, o3, o4]; simp [*, eq_comm]; done)
  · intro i x hx
    simp only [List.mem_cons, List.mem_nil_iff, not_or, or_false] at hx
    have hx' := hx
    simp only [@eq_comm _ x] at hx'
    simp only [baseF, halfBaseF, lnk1, lnk2, unl1, unl2, upd_apply, k1, k2, ka, ka', kd, kd', h1, h2, h3, h4, h5, h6, n1, n2, n3, n4, g1, g2, g3, g4, g5, g6, o1, o2, o3, o4]
    simp [*, eq_comm]


theorem ro_readAttr (cfg : Cfg Val) (s id : Nat) : ReadOnly (readAttr cfg s id) := by
  unfold readAttr
  exact ReadOnly.ite (ReadOnly.rA _ _) (ReadOnly.pure _)

/-- `is_collapsible` only reads -/
theorem ro_isCollapsible (cfg : Cfg Val) (k e : Nat) : ReadOnly (isCollapsible cfg k e) := by
  unfold isCollapsible
  refine ReadOnly.ite (ReadOnly.pure _) ?_
  refine ReadOnly.bind (ReadOnly.rB _ _) fun _ => ?_
  refine ReadOnly.bind (readOnly_vertexId2 _ _) fun _ => ?_
  refine ReadOnly.bind (readOnly_vertexId2 _ _) fun _ => ?_
  refine ReadOnly.bind (ro_readAttr _ _ _) fun a1 => ?_
  refine ReadOnly.bind (ro_readAttr _ _ _) fun a2 => ?_
  refine ReadOnly.bind (ro_readAttr _ _ _) fun a3 => ?_
  intro m
  split
  · split
    · split <;> rfl
    · rfl
  · rfl

theorem collapseBase_flags (f : BF) (l r a b c d xa xd : Nat)
    (hd : [l, r, a, d, xd].Nodup) (k1 : f 2 l = r) (ka : f 2 a = xa) (kd : f 2 d = xd) (w : Array Bool) :
    baseU l r a b c d f w = wr (wr (wr (wr (wr (wr w r true) d true) xd true) l true) a true) xa true := by
  simp only [List.nodup_cons, List.mem_cons, List.mem_nil_iff, not_or, or_false, List.nodup_nil, and_true] at hd
  obtain ⟨⟨d1, d2, d3, d4⟩, ⟨d5, d6, d7⟩, ⟨d8, d9⟩, d10, _⟩ := hd
  have e1 : unl2 f l 2 d = xd := by
    rw [unl2_two', k1]; simp [d6, d3, kd]
  have e2 : halfBaseF c r d (unl2 f l) 2 a = xa := by
    unfold halfBaseF
    simp only [lnk1_two', unl2_two', unl1_two', e1, k1]
    simp [Ne.symm d9, Ne.symm d8, Ne.symm d5, Ne.symm d2, d5, d2, ka]
  simp only [baseU, halfBaseU, e1, e2]

/-- the editing part of the end-point collapse, for the base dart `e` (used for `Left` with the dart of the call, for
    `Right` with its β2 image) -/
theorem collapse_base_core (cfg : Cfg Val) (m m' : Map Val) (e vid : Nat) (hwf : WF 3 m) (he : C01.InUse m e)
    (r1 : run (collapseEdgeToBase cfg m.n (m.β 0 e) e (m.β 1 e) (m.β 0 (m.β 2 e)) (m.β 2 e) (m.β 1 (m.β 2 e))) m =
      (.ok vid, m'))
    (gl : m.β 1 (m.β 1 e) = m.β 0 e) (gr : m.β 1 (m.β 1 (m.β 2 e)) = m.β 0 (m.β 2 e))
    (hr0 : m.β 2 e ≠ 0) (hb : m.β 0 e ≠ 0) (hd : m.β 0 (m.β 2 e) ≠ 0)
    (hx : m.β 2 (m.β 1 e) ≠ 0 ∧ m.β 0 (m.β 2 (m.β 1 e)) ≠ 0 ∧ m.β 1 (m.β 2 (m.β 1 e)) ≠ 0 ∧
      m.β 2 (m.β 0 (m.β 2 e)) ≠ 0 ∧ m.β 0 (m.β 2 (m.β 0 (m.β 2 e))) ≠ 0 ∧ m.β 1 (m.β 2 (m.β 0 (m.β 2 e))) ≠ 0)
    (hnd : [e, m.β 2 e, m.β 1 e, m.β 0 e, m.β 1 (m.β 2 e), m.β 0 (m.β 2 e),
      m.β 2 (m.β 1 e), m.β 0 (m.β 2 (m.β 1 e)), m.β 1 (m.β 2 (m.β 1 e)),
      m.β 2 (m.β 0 (m.β 2 e)), m.β 0 (m.β 2 (m.β 0 (m.β 2 e))), m.β 1 (m.β 2 (m.β 0 (m.β 2 e)))].Nodup) :
    WF 3 m' ∧
    (∀ x, x ∈ [e, m.β 1 e, m.β 2 (m.β 1 e), m.β 2 e, m.β 0 (m.β 2 e), m.β 2 (m.β 0 (m.β 2 e))] →
      m'.unused x = true ∧ ∀ i, i < 3 → m'.β i x = 0) ∧
    (m'.β 1 (m.β 0 (m.β 2 (m.β 1 e))) = m.β 0 e ∧ m'.β 1 (m.β 0 e) = m.β 1 (m.β 2 (m.β 1 e)) ∧
      m'.β 0 (m.β 0 e) = m.β 0 (m.β 2 (m.β 1 e)) ∧ m'.β 0 (m.β 1 (m.β 2 (m.β 1 e))) = m.β 0 e ∧
      m'.β 2 (m.β 0 e) = m.β 2 (m.β 0 e)) ∧
    (m'.β 1 (m.β 0 (m.β 2 (m.β 0 (m.β 2 e)))) = m.β 1 (m.β 2 e) ∧
      m'.β 1 (m.β 1 (m.β 2 e)) = m.β 1 (m.β 2 (m.β 0 (m.β 2 e))) ∧
      m'.β 0 (m.β 1 (m.β 2 e)) = m.β 0 (m.β 2 (m.β 0 (m.β 2 e))) ∧
      m'.β 0 (m.β 1 (m.β 2 (m.β 0 (m.β 2 e)))) = m.β 1 (m.β 2 e) ∧
      m'.β 2 (m.β 1 (m.β 2 e)) = m.β 2 (m.β 1 (m.β 2 e))) ∧
    (∀ i x, x ∉ [e, m.β 2 e, m.β 1 e, m.β 0 e, m.β 1 (m.β 2 e), m.β 0 (m.β 2 e),
      m.β 2 (m.β 1 e), m.β 0 (m.β 2 (m.β 1 e)), m.β 1 (m.β 2 (m.β 1 e)),
      m.β 2 (m.β 0 (m.β 2 e)), m.β 0 (m.β 2 (m.β 0 (m.β 2 e))), m.β 1 (m.β 2 (m.β 0 (m.β 2 e)))] → m'.β i x = m.β i x) ∧
    m'.n = m.n ∧
    (∀ x, x ∉ [e, m.β 1 e, m.β 2 (m.β 1 e), m.β 2 e, m.β 0 (m.β 2 e), m.β 2 (m.β 0 (m.β 2 e))] →
      m'.unused x = m.unused x) := by
  have hn := he.2.1
  obtain ⟨xa0, pa0, qa0, xd0, pd0, qd0⟩ := hx
  have hr : m.β 2 e < m.n := hwf.range 2 (by omega) e hn
  have a0 : m.β 1 e ≠ 0 := fun hh => hb (by rw [← gl, hh]; exact hwf.null 1 (by omega))
  have c0 : m.β 1 (m.β 2 e) ≠ 0 := fun hh => hd (by rw [← gr, hh]; exact hwf.null 1 (by omega))
  have ha : m.β 1 e < m.n := hwf.range 1 (by omega) e hn
  have hc : m.β 1 (m.β 2 e) < m.n := hwf.range 1 (by omega) _ hr
  have hdn : m.β 0 (m.β 2 e) < m.n := hwf.range 0 (by omega) _ hr
  have hxa : m.β 2 (m.β 1 e) < m.n := hwf.range 2 (by omega) _ ha
  have hxd : m.β 2 (m.β 0 (m.β 2 e)) < m.n := hwf.range 2 (by omega) _ hdn
  have Le : Live m.n m.u e := Live.of_inUse he
  have Lr := live_image hwf (by omega : 2 < 3) hn hr0
  have La := live_image hwf (by omega : 1 < 3) hn a0
  have Lb := live_image hwf (by omega : 0 < 3) hn hb
  have Lc := live_image hwf (by omega : 1 < 3) hr c0
  have Ld := live_image hwf (by omega : 0 < 3) hr hd
  -- symbolic execution
  have er := (hwf.invol 2 (by omega) (by omega) e hn hr0).1
  have ev := collapseBase_chain_eval m.β e (m.β 2 e) (m.β 1 e) (m.β 0 e) (m.β 1 (m.β 2 e)) (m.β 0 (m.β 2 e))
    (m.β 2 (m.β 1 e)) (m.β 0 (m.β 2 (m.β 1 e))) (m.β 1 (m.β 2 (m.β 1 e)))
    (m.β 2 (m.β 0 (m.β 2 e))) (m.β 0 (m.β 2 (m.β 0 (m.β 2 e)))) (m.β 1 (m.β 2 (m.β 0 (m.β 2 e)))) hnd
    ⟨xa0, pa0, qa0, xd0, pd0, qd0, hb, c0⟩
    rfl er rfl (hwf.invol 2 (by omega) (by omega) _ ha xa0).1 rfl (hwf.invol 2 (by omega) (by omega) _ hdn xd0).1
    rfl gl (hwf.inv10 e hn hb) rfl gr (hwf.inv10 _ hr hd)
    rfl (hwf.inv10 _ hxa pa0) rfl (hwf.inv10 _ hxd pd0)
    (hwf.inv01 e hn a0) (by rw [← gl]; exact hwf.inv01 _ ha (by rw [gl]; exact hb)) rfl
    (hwf.inv01 _ hr c0) (by rw [← gr]; exact hwf.inv01 _ hc (by rw [gr]; exact hd)) rfl
    rfl (hwf.inv01 _ hxa qa0) rfl (hwf.inv01 _ hxd qd0)
  obtain ⟨pre, ⟨ze, za, zxa, zr, zd, zxd⟩, glueL, glueR, frame⟩ := ev
  have J0 : InvJ m.n m.u m := ⟨hwf, rfl, hwf.usz⟩
  obtain ⟨J, hβ, hu⟩ := trj_base (n := m.n) (u := m.u) cfg hr0 (fun _ => Lb) (fun _ => Le) (fun _ => La)
    (fun _ => Ld) (fun _ => Lr) (fun _ => Lc) m m' vid J0 pre r1
  -- the flags written: `r, d, xd` then `e, a, xa`
  have hnd' := hnd
  simp only [List.nodup_cons, List.mem_cons, List.mem_nil_iff, not_or, or_false, List.nodup_nil, and_true] at hnd'
  have hU : m'.u = wr (wr (wr (wr (wr (wr m.u (m.β 2 e) true) (m.β 0 (m.β 2 e)) true) (m.β 2 (m.β 0 (m.β 2 e))) true)
      e true) (m.β 1 e) true) (m.β 2 (m.β 1 e)) true := by
    rw [hu]
    exact collapseBase_flags m.β e (m.β 2 e) (m.β 1 e) (m.β 0 e) (m.β 1 (m.β 2 e)) (m.β 0 (m.β 2 e)) _ _
      (by simp [hnd'.1.1, hnd'.1.2.1, hnd'.1.2.2.2.2.1, hnd'.1.2.2.2.2.2.2.2.2.1, hnd'.2.1.1, hnd'.2.1.2.2.2.1,
        hnd'.2.1.2.2.2.2.2.2.2.1, hnd'.2.2.1.2.2.1, hnd'.2.2.1.2.2.2.2.2.2.1, hnd'.2.2.2.2.2.1.2.2.2.1])
      rfl rfl rfl m.u
  have flagged : ∀ x, m'.unused x = true →
      x ∈ [e, m.β 1 e, m.β 2 (m.β 1 e), m.β 2 e, m.β 0 (m.β 2 e), m.β 2 (m.β 0 (m.β 2 e))] ∨ m.unused x = true := by
    intro x hxu
    unfold Map.unused at hxu ⊢
    rw [hU] at hxu
    rcases rd_wr_true hxu with rfl | hxu
    · simp
    rcases rd_wr_true hxu with rfl | hxu
    · simp
    rcases rd_wr_true hxu with rfl | hxu
    · simp
    rcases rd_wr_true hxu with rfl | hxu
    · simp
    rcases rd_wr_true hxu with rfl | hxu
    · simp
    rcases rd_wr_true hxu with rfl | hxu
    · simp
    exact Or.inr hxu
  have zero : ∀ x, x ∈ [e, m.β 1 e, m.β 2 (m.β 1 e), m.β 2 e, m.β 0 (m.β 2 e), m.β 2 (m.β 0 (m.β 2 e))] →
      ∀ i, i < 3 → m'.β i x = 0 := by
    intro x hx i hi
    rw [hβ]
    simp only [List.mem_cons, List.mem_nil_iff, or_false] at hx
    have i3 : i = 0 ∨ i = 1 ∨ i = 2 := by omega
    rcases hx with rfl | rfl | rfl | rfl | rfl | rfl <;> rcases i3 with rfl | rfl | rfl
    · exact ze.1
    · exact ze.2.1
    · exact ze.2.2
    · exact za.1
    · exact za.2.1
    · exact za.2.2
    · exact zxa.1
    · exact zxa.2.1
    · exact zxa.2.2
    · exact zr.1
    · exact zr.2.1
    · exact zr.2.2
    · exact zd.1
    · exact zd.2.1
    · exact zd.2.2
    · exact zxd.1
    · exact zxd.2.1
    · exact zxd.2.2
  have w := J.wf
  have hwf' : WF 3 m' := by
    refine ⟨⟨w.npos, w.rows, w.row, ?_, w.asz⟩, ⟨w.null, w.range, w.inv01, w.inv10, w.invol, ?_⟩⟩
    · rw [J.usz]; exact J.n_eq.symm
    · intro x hxn hxu i hi
      rcases flagged x hxu with hm | hm
      · exact zero x hm i hi
      · exact w.unusedFree x hxn hm i hi
  have setf : ∀ x, x ∈ [e, m.β 1 e, m.β 2 (m.β 1 e), m.β 2 e, m.β 0 (m.β 2 e), m.β 2 (m.β 0 (m.β 2 e))] →
      m'.unused x = true := by
    intro x hx
    have hxn : x < m.u.size := by
      rw [hwf.usz]
      simp only [List.mem_cons, List.mem_nil_iff, or_false] at hx
      rcases hx with rfl | rfl | rfl | rfl | rfl | rfl
      · exact hn
      · exact ha
      · exact hxa
      · exact hr
      · exact hdn
      · exact hxd
    unfold Map.unused
    rw [hU]
    simp only [rd_wr, size_wr]
    simp only [List.mem_cons, List.mem_nil_iff, or_false] at hx
    rcases hx with rfl | rfl | rfl | rfl | rfl | rfl <;> simp [hxn]
  refine ⟨hwf', fun x hx => ⟨setf x hx, zero x hx⟩, ?_, ?_, ?_, J.n_eq, ?_⟩
  · rw [hβ]; exact glueL
  · rw [hβ]; exact glueR
  · intro i x hx; rw [hβ]; exact frame i x hx
  · intro x hx
    simp only [List.mem_cons, List.mem_nil_iff, not_or, or_false] at hx
    obtain ⟨x1, x2, x3, x4, x5, x6⟩ := hx
    unfold Map.unused
    rw [hU]
    simp only [rd_wr]
    simp [Ne.symm x1, Ne.symm x2, Ne.symm x3, Ne.symm x4, Ne.symm x5, Ne.symm x6]



/-- **C15 (4), collapse towards an end point (`Collapsible::Left`), interior configuration**: on ANY well-formed 2-map,
    whenever the anchors make `is_collapsible(e)` answer `Left` and `collapse_edge(e)` itself (no assertion added)
    succeeds on an interior edge whose two faces are closed triangles `e → a → b`, `r → c → d` (`r = β2 e`), whose sides
    `a = β1 e` and `d = β0 r` are interior too (`xa = β2 a`, `xd = β2 d`, with `pa = β0 xa`, `qa = β1 xa`, `pd = β0 xd`,
    `qd = β1 xd` the neighbours of `xa`, `xd` in their faces), the twelve darts being pairwise distinct, then
    * the two 1-sews of each half were handed non-null darts and every flagged dart is free: the resulting map is WELL
      FORMED, unconditionally;
    * exactly the six darts `e, a, xa, r, d, xd` are flagged, all their β images are null — the kernel removes the dart
      `xa` (`xd`) of the NEIGHBOURING face, not `b` (`c`);
    * `b` takes the place of `xa` in its face (`pa → b → qa`), `c` that of `xd` (`pd → c → qd`), both keep their β2;
    * every image of every other dart and every other flag is unchanged.
    (With `β2 a` or `β2 d` null the kernel skips the removal: finding D15e.) -/
theorem C15_collapse_endpoint_interior (cfg : Cfg Val) (m m' : Map Val) (e v : Nat) (hwf : WF 3 m) (he : C01.InUse m e)
    (hleft : (run (isCollapsible cfg m.n e) m).1 = .ok .left)
    (h : run (collapseEdge cfg m.n e) m = (.ok v, m'))
    (hr0 : m.β 2 e ≠ 0) (hb : m.β 0 e ≠ 0) (hd : m.β 0 (m.β 2 e) ≠ 0)
    (hx : m.β 2 (m.β 1 e) ≠ 0 ∧ m.β 0 (m.β 2 (m.β 1 e)) ≠ 0 ∧ m.β 1 (m.β 2 (m.β 1 e)) ≠ 0 ∧
      m.β 2 (m.β 0 (m.β 2 e)) ≠ 0 ∧ m.β 0 (m.β 2 (m.β 0 (m.β 2 e))) ≠ 0 ∧ m.β 1 (m.β 2 (m.β 0 (m.β 2 e))) ≠ 0)
    (hnd : [e, m.β 2 e, m.β 1 e, m.β 0 e, m.β 1 (m.β 2 e), m.β 0 (m.β 2 e),
      m.β 2 (m.β 1 e), m.β 0 (m.β 2 (m.β 1 e)), m.β 1 (m.β 2 (m.β 1 e)),
      m.β 2 (m.β 0 (m.β 2 e)), m.β 0 (m.β 2 (m.β 0 (m.β 2 e))), m.β 1 (m.β 2 (m.β 0 (m.β 2 e)))].Nodup) :
    WF 3 m' ∧
    (∀ x, x ∈ [e, m.β 1 e, m.β 2 (m.β 1 e), m.β 2 e, m.β 0 (m.β 2 e), m.β 2 (m.β 0 (m.β 2 e))] →
      m'.unused x = true ∧ ∀ i, i < 3 → m'.β i x = 0) ∧
    (m'.β 1 (m.β 0 (m.β 2 (m.β 1 e))) = m.β 0 e ∧ m'.β 1 (m.β 0 e) = m.β 1 (m.β 2 (m.β 1 e)) ∧
      m'.β 0 (m.β 0 e) = m.β 0 (m.β 2 (m.β 1 e)) ∧ m'.β 0 (m.β 1 (m.β 2 (m.β 1 e))) = m.β 0 e ∧
      m'.β 2 (m.β 0 e) = m.β 2 (m.β 0 e)) ∧
    (m'.β 1 (m.β 0 (m.β 2 (m.β 0 (m.β 2 e)))) = m.β 1 (m.β 2 e) ∧
      m'.β 1 (m.β 1 (m.β 2 e)) = m.β 1 (m.β 2 (m.β 0 (m.β 2 e))) ∧
      m'.β 0 (m.β 1 (m.β 2 e)) = m.β 0 (m.β 2 (m.β 0 (m.β 2 e))) ∧
      m'.β 0 (m.β 1 (m.β 2 (m.β 0 (m.β 2 e)))) = m.β 1 (m.β 2 e) ∧
      m'.β 2 (m.β 1 (m.β 2 e)) = m.β 2 (m.β 1 (m.β 2 e))) ∧
    (∀ i x, x ∉ [e, m.β 2 e, m.β 1 e, m.β 0 e, m.β 1 (m.β 2 e), m.β 0 (m.β 2 e),
      m.β 2 (m.β 1 e), m.β 0 (m.β 2 (m.β 1 e)), m.β 1 (m.β 2 (m.β 1 e)),
      m.β 2 (m.β 0 (m.β 2 e)), m.β 0 (m.β 2 (m.β 0 (m.β 2 e))), m.β 1 (m.β 2 (m.β 0 (m.β 2 e)))] → m'.β i x = m.β i x) ∧
    m'.n = m.n ∧
    (∀ x, x ∉ [e, m.β 1 e, m.β 2 (m.β 1 e), m.β 2 e, m.β 0 (m.β 2 e), m.β 2 (m.β 0 (m.β 2 e))] →
      m'.unused x = m.unused x) := by
  have hn := he.2.1
  rw [C15_collapse_guards cfg m.n e m (fun i d hi hd => (hwf.toSized.okβ i d).2 ⟨hi, hd⟩)
    (fun i d hi hd => hwf.range i hi d hd) hn] at h
  simp only [he.1, if_false] at h
  by_cases gl : m.β 1 (m.β 1 e) = m.β 0 e
  swap
  · simp [gl] at h
  simp only [gl, ne_eq, not_true_eq_false, if_false] at h
  by_cases gr : m.β 1 (m.β 1 (m.β 2 e)) = m.β 0 (m.β 2 e)
  swap
  · simp [gr, hr0] at h
  simp only [gr, not_true_eq_false, and_false, if_false] at h
  have hr : m.β 2 e < m.n := hwf.range 2 (by omega) e hn
  -- the body: the anchors choose `Left`
  unfold collapseBodyG at h
  obtain ⟨cc, hc0, h⟩ := ro_bind_ok (ro_isCollapsible _ _ _) h
  rw [hc0] at hleft
  simp only [Out.ok.injEq] at hleft
  subst hleft
  simp only at h
  have eqk : edgeToBaseG (fun _ => pure ()) cfg m.n (m.β 0 e) e (m.β 1 e) (m.β 0 (m.β 2 e)) (m.β 2 e)
      (m.β 1 (m.β 2 e)) = collapseEdgeToBase cfg m.n (m.β 0 e) e (m.β 1 e) (m.β 0 (m.β 2 e)) (m.β 2 e)
      (m.β 1 (m.β 2 e)) := rfl
  rw [eqk] at h
  obtain ⟨vid, m1, r1, h2⟩ := run_bind_ok h
  obtain ⟨ok, _, h3⟩ := ro_bind_ok (ro_isOrbitOrientationConsistent _ _) h2
  have em : m' = m1 := by
    cases ok
    · simp at h3
    · simp at h3; exact h3.2.symm
  subst em
  exact collapse_base_core cfg m m' e vid hwf he r1 gl gr hr0 hb hd hx hnd

/-- **C15 (4), collapse towards the other end point (`Collapsible::Right`), interior configuration**: the statement of
    `C15_collapse_endpoint_interior` with the roles of `e` and `r = β2 e` exchanged (the base dart is `r`): the sides
    `c = β1 r` and `b = β0 e` are interior, the six darts `r, c, β2 c, e, b, β2 b` are flagged and free, `d` takes the
    place of `β2 c` in its face and `a` that of `β2 b`, everything else is unchanged, the result is well formed -/
theorem C15_collapse_endpoint_interior_right (cfg : Cfg Val) (m m' : Map Val) (e v : Nat) (hwf : WF 3 m)
    (he : C01.InUse m e)
    (hright : (run (isCollapsible cfg m.n e) m).1 = .ok .right)
    (h : run (collapseEdge cfg m.n e) m = (.ok v, m'))
    (hr0 : m.β 2 e ≠ 0) (hb : m.β 0 e ≠ 0) (hd : m.β 0 (m.β 2 e) ≠ 0)
    (hx : m.β 2 (m.β 1 (m.β 2 e)) ≠ 0 ∧ m.β 0 (m.β 2 (m.β 1 (m.β 2 e))) ≠ 0 ∧ m.β 1 (m.β 2 (m.β 1 (m.β 2 e))) ≠ 0 ∧
      m.β 2 (m.β 0 e) ≠ 0 ∧ m.β 0 (m.β 2 (m.β 0 e)) ≠ 0 ∧ m.β 1 (m.β 2 (m.β 0 e)) ≠ 0)
    (hnd : [m.β 2 e, e, m.β 1 (m.β 2 e), m.β 0 (m.β 2 e), m.β 1 e, m.β 0 e,
      m.β 2 (m.β 1 (m.β 2 e)), m.β 0 (m.β 2 (m.β 1 (m.β 2 e))), m.β 1 (m.β 2 (m.β 1 (m.β 2 e))),
      m.β 2 (m.β 0 e), m.β 0 (m.β 2 (m.β 0 e)), m.β 1 (m.β 2 (m.β 0 e))].Nodup) :
    WF 3 m' ∧
    (∀ x, x ∈ [m.β 2 e, m.β 1 (m.β 2 e), m.β 2 (m.β 1 (m.β 2 e)), e, m.β 0 e, m.β 2 (m.β 0 e)] →
      m'.unused x = true ∧ ∀ i, i < 3 → m'.β i x = 0) ∧
    (m'.β 1 (m.β 0 (m.β 2 (m.β 1 (m.β 2 e)))) = m.β 0 (m.β 2 e) ∧ m'.β 1 (m.β 0 (m.β 2 e)) = m.β 1 (m.β 2 (m.β 1 (m.β 2 e))) ∧
      m'.β 0 (m.β 0 (m.β 2 e)) = m.β 0 (m.β 2 (m.β 1 (m.β 2 e))) ∧ m'.β 0 (m.β 1 (m.β 2 (m.β 1 (m.β 2 e)))) = m.β 0 (m.β 2 e) ∧
      m'.β 2 (m.β 0 (m.β 2 e)) = m.β 2 (m.β 0 (m.β 2 e))) ∧
    (m'.β 1 (m.β 0 (m.β 2 (m.β 0 e))) = m.β 1 e ∧
      m'.β 1 (m.β 1 e) = m.β 1 (m.β 2 (m.β 0 e)) ∧
      m'.β 0 (m.β 1 e) = m.β 0 (m.β 2 (m.β 0 e)) ∧
      m'.β 0 (m.β 1 (m.β 2 (m.β 0 e))) = m.β 1 e ∧
      m'.β 2 (m.β 1 e) = m.β 2 (m.β 1 e)) ∧
    (∀ i x, x ∉ [m.β 2 e, e, m.β 1 (m.β 2 e), m.β 0 (m.β 2 e), m.β 1 e, m.β 0 e,
      m.β 2 (m.β 1 (m.β 2 e)), m.β 0 (m.β 2 (m.β 1 (m.β 2 e))), m.β 1 (m.β 2 (m.β 1 (m.β 2 e))),
      m.β 2 (m.β 0 e), m.β 0 (m.β 2 (m.β 0 e)), m.β 1 (m.β 2 (m.β 0 e))] → m'.β i x = m.β i x) ∧
    m'.n = m.n ∧
    (∀ x, x ∉ [m.β 2 e, m.β 1 (m.β 2 e), m.β 2 (m.β 1 (m.β 2 e)), e, m.β 0 e, m.β 2 (m.β 0 e)] →
      m'.unused x = m.unused x) := by
  have hn := he.2.1
  rw [C15_collapse_guards cfg m.n e m (fun i d hi hd => (hwf.toSized.okβ i d).2 ⟨hi, hd⟩)
    (fun i d hi hd => hwf.range i hi d hd) hn] at h
  simp only [he.1, if_false] at h
  by_cases gl : m.β 1 (m.β 1 e) = m.β 0 e
  swap
  · simp [gl] at h
  simp only [gl, ne_eq, not_true_eq_false, if_false] at h
  by_cases gr : m.β 1 (m.β 1 (m.β 2 e)) = m.β 0 (m.β 2 e)
  swap
  · simp [gr, hr0] at h
  simp only [gr, not_true_eq_false, and_false, if_false] at h
  have hr : m.β 2 e < m.n := hwf.range 2 (by omega) e hn
  have er := (hwf.invol 2 (by omega) (by omega) e hn hr0).1
  have Lr := live_image hwf (by omega : 2 < 3) hn hr0
  -- the body: the anchors choose `Right`
  unfold collapseBodyG at h
  obtain ⟨cc, hc0, h⟩ := ro_bind_ok (ro_isCollapsible _ _ _) h
  rw [hc0] at hright
  simp only [Out.ok.injEq] at hright
  subst hright
  simp only at h
  have eqk : edgeToBaseG (fun _ => pure ()) cfg m.n (m.β 0 (m.β 2 e)) (m.β 2 e) (m.β 1 (m.β 2 e)) (m.β 0 e) e
      (m.β 1 e) = collapseEdgeToBase cfg m.n (m.β 0 (m.β 2 e)) (m.β 2 e) (m.β 1 (m.β 2 e)) (m.β 0 e) e
      (m.β 1 e) := rfl
  rw [eqk] at h
  obtain ⟨vid, m1, r1, h2⟩ := run_bind_ok h
  obtain ⟨ok, _, h3⟩ := ro_bind_ok (ro_isOrbitOrientationConsistent _ _) h2
  have em : m' = m1 := by
    cases ok
    · simp at h3
    · simp at h3; exact h3.2.symm
  subst em
  have k := collapse_base_core cfg m m' (m.β 2 e) vid hwf Lr (by rw [er]; exact r1) gr (by rw [er]; exact gl)
    (by rw [er]; exact he.1) hd (by rw [er]; exact hb) (by rw [er]; exact hx) (by rw [er]; exact hnd)
  simp only [er] at k
  exact k

/-! ## (1) two more edge counts -/

/-- **C15 (1), edges, inner cut**: before the call `iter_edges` counts the edge `{e, r}` and the six spare darts, after it
    the four edges `{e, n6}`, `{r, n3}`, `{n1, n2}`, `{n4, n5}`; every other edge is counted as before:
    `#edges' + 3 = #edges` — the MESH (six spare darts = six edges before) gains three edges -/
theorem C15_cutInner_edge_count (cfg : Cfg Val) (m m' : Map Val) (e n1 n2 n3 n4 n5 n6 : Nat) (hwf : WF 3 m)
    (he : C01.InUse m e)
    (h : run (cutInnerEdge cfg m.n e n1 n2 n3 n4 n5 n6) m = (.ok (), m'))
    (hr0 : m.β 2 e ≠ 0)
    (htl : m.β 1 (m.β 1 e) = m.β 0 e) (hb : m.β 0 e ≠ 0)
    (htr : m.β 1 (m.β 1 (m.β 2 e)) = m.β 0 (m.β 2 e)) (hd : m.β 0 (m.β 2 e) ≠ 0)
    (hs : ∀ x, x ∈ [n1, n2, n3, n4, n5, n6] → Spare m x)
    (hnd : [e, m.β 2 e, m.β 1 e, m.β 0 e, m.β 1 (m.β 2 e), m.β 0 (m.β 2 e), n1, n2, n3, n4, n5, n6].Nodup) :
    (iterEdges2 m').length + 3 = (iterEdges2 m).length := by
  have hn := he.2.1
  have hr : m.β 2 e < m.n := hwf.range 2 (by omega) e hn
  have er := (hwf.invol 2 (by omega) (by omega) e hn hr0).1
  have Lr := live_image hwf (by omega : 2 < 3) hn hr0
  obtain ⟨hw', _⟩ := C15_cutInner_faces cfg m m' e n1 n2 n3 n4 n5 n6 hwf he h hr0 htl hb htr hd hs hnd
  obtain ⟨_, _, ⟨⟨u1, u2⟩, ⟨u3, u4⟩, ⟨u5, u6⟩, ⟨u7, u8⟩, u9⟩, _, hn', hu⟩ :=
    C15_cutInner_topology cfg m m' e n1 n2 n3 n4 n5 n6 hwf hn h hr0 htl hb htr hd hnd
  have hu' : ∀ d, m'.unused d = m.unused d := fun d => by unfold Map.unused; rw [hu]
  have hnd' := hnd
  simp only [List.nodup_cons, List.mem_cons, List.mem_nil_iff, not_or, or_false, List.nodup_nil, and_true] at hnd'
  obtain ⟨⟨q1, q2, q3, q4, q5, q6, q7, q8, q9, q10, q11⟩, ⟨q12, q13, q14, q15, q16, q17, q18, q19, q20, q21⟩, ⟨q22, q23, q24, q25, q26, q27, q28, q29, q30⟩, ⟨q31, q32, q33, q34, q35, q36, q37, q38⟩, ⟨q39, q40, q41, q42, q43, q44, q45⟩, ⟨q46, q47, q48, q49, q50, q51⟩, ⟨q52, q53, q54, q55, q56⟩, ⟨q57, q58, q59, q60⟩, ⟨q61, q62, q63⟩, ⟨q64, q65⟩, q66, _⟩ := hnd'
  have s1 := hs n1 (by simp); have s2 := hs n2 (by simp); have s3 := hs n3 (by simp)
  have s4 := hs n4 (by simp); have s5 := hs n5 (by simp); have s6 := hs n6 (by simp)
  have sp2 : m.β 2 n1 = 0 ∧ m.β 2 n2 = 0 ∧ m.β 2 n3 = 0 ∧ m.β 2 n4 = 0 ∧ m.β 2 n5 = 0 ∧ m.β 2 n6 = 0 :=
    ⟨s1.β 2 (by omega), s2.β 2 (by omega), s3.β 2 (by omega), s4.β 2 (by omega), s5.β 2 (by omega), s6.β 2 (by omega)⟩
  -- identifiers before and after
  have idO : ∀ d, d ≠ 0 → d < m.n → cellId m .edge d = (if m.β 2 d = 0 then d else min (m.β 2 d) d) :=
    fun d d0 dn => edgeId_eq hwf d0 dn
  have idN : ∀ d, d ≠ 0 → d < m.n → cellId m' .edge d = (if m'.β 2 d = 0 then d else min (m'.β 2 d) d) :=
    fun d d0 dn => edgeId_eq hw' d0 (by rw [hn']; exact dn)
  have n0 : n1 ≠ 0 ∧ n2 ≠ 0 ∧ n3 ≠ 0 ∧ n4 ≠ 0 ∧ n5 ≠ 0 ∧ n6 ≠ 0 := ⟨s1.1.1, s2.1.1, s3.1.1, s4.1.1, s5.1.1, s6.1.1⟩
  have nn : n1 < m.n ∧ n2 < m.n ∧ n3 < m.n ∧ n4 < m.n ∧ n5 < m.n ∧ n6 < m.n :=
    ⟨s1.1.2.1, s2.1.2.1, s3.1.2.1, s4.1.2.1, s5.1.2.1, s6.1.2.1⟩
  have oe : cellId m .edge e = min (m.β 2 e) e := by rw [idO e he.1 hn]; simp [hr0]
  have or' : cellId m .edge (m.β 2 e) = min (m.β 2 e) e := by rw [idO _ hr0 hr, er]; simp [he.1, Nat.min_comm]
  have o1 : cellId m .edge n1 = n1 := by rw [idO _ n0.1 nn.1]; simp [sp2]
  have o2 : cellId m .edge n2 = n2 := by rw [idO _ n0.2.1 nn.2.1]; simp [sp2]
  have o3 : cellId m .edge n3 = n3 := by rw [idO _ n0.2.2.1 nn.2.2.1]; simp [sp2]
  have o4 : cellId m .edge n4 = n4 := by rw [idO _ n0.2.2.2.1 nn.2.2.2.1]; simp [sp2]
  have o5 : cellId m .edge n5 = n5 := by rw [idO _ n0.2.2.2.2.1 nn.2.2.2.2.1]; simp [sp2]
  have o6 : cellId m .edge n6 = n6 := by rw [idO _ n0.2.2.2.2.2 nn.2.2.2.2.2]; simp [sp2]
  have ne' : cellId m' .edge e = min n6 e := by rw [idN e he.1 hn, u1]; simp [n0]
  have nr : cellId m' .edge (m.β 2 e) = min n3 (m.β 2 e) := by rw [idN _ hr0 hr, u3]; simp [n0]
  have w1 : cellId m' .edge n1 = min n2 n1 := by rw [idN _ n0.1 nn.1, u5]; simp [n0]
  have w2 : cellId m' .edge n2 = min n2 n1 := by rw [idN _ n0.2.1 nn.2.1, u6]; simp [n0, Nat.min_comm]
  have w3 : cellId m' .edge n3 = min n3 (m.β 2 e) := by rw [idN _ n0.2.2.1 nn.2.2.1, u4]; simp [hr0, Nat.min_comm]
  have w4 : cellId m' .edge n4 = min n5 n4 := by rw [idN _ n0.2.2.2.1 nn.2.2.2.1, u7]; simp [n0]
  have w5 : cellId m' .edge n5 = min n5 n4 := by rw [idN _ n0.2.2.2.2.1 nn.2.2.2.2.1, u8]; simp [n0, Nat.min_comm]
  have w6 : cellId m' .edge n6 = min n6 e := by rw [idN _ n0.2.2.2.2.2 nn.2.2.2.2.2, u2]; simp [he.1, Nat.min_comm]
  have cnt := iterEdges_count hwf hw' hn' [e, m.β 2 e, n1, n2, n3, n4, n5, n6]
    [min (m.β 2 e) e, n1, n2, n3, n4, n5, n6] [min n6 e, min n3 (m.β 2 e), min n2 n1, min n5 n4]
    (fun d _ => hu' d) (fun y hy => u9 y hy) ?_ ?_ ?_ ?_ ?_ ?_
  · simp at cnt; omega
  · intro y hy v hv
    simp only [List.mem_cons, List.mem_nil_iff, or_false] at hy
    simp only [g2, List.mem_cons, List.mem_nil_iff, or_false] at hv
    rcases hy with rfl | rfl | rfl | rfl | rfl | rfl | rfl | rfl <;> subst hv <;> simp [er, sp2]
  · intro y hy v hv
    simp only [List.mem_cons, List.mem_nil_iff, or_false] at hy
    simp only [g2, List.mem_cons, List.mem_nil_iff, or_false] at hv
    rcases hy with rfl | rfl | rfl | rfl | rfl | rfl | rfl | rfl <;> subst hv <;> simp [u1, u2, u3, u4, u5, u6, u7, u8]
  · have a1 := min2_ne1 q16 q6
    have a2 := min2_ne1 q17 q7
    have a3 := min2_ne1 q18 q8
    have a4 := min2_ne1 q19 q9
    have a5 := min2_ne1 q20 q10
    have a6 := min2_ne1 q21 q11
    simp [a1, a2, a3, a4, a5, a6, q52, q53, q54, q55, q56, q57, q58, q59, q60, q61, q62, q63, q64, q65, q66]
  · have b1 := min2_ne (Ne.symm q63) (Ne.symm q21) q8 q1
    have b2 := min2_ne (Ne.symm q60) (Ne.symm q56) q7 q6
    have b3 := min2_ne (Ne.symm q66) (Ne.symm q65) q10 q9
    have b4 := min2_ne (Ne.symm q57) (Ne.symm q53) q17 q16
    have b5 := min2_ne q62 q61 q20 q19
    have b6 := min2_ne q59 q58 q55 q54
    simp [b1, b2, b3, b4, b5, b6]
  · intro x
    simp only [List.mem_cons, List.mem_nil_iff, or_false]
    constructor
    · rintro (rfl | rfl | rfl | rfl | rfl | rfl | rfl)
      · exact ⟨e, by simp, he.1, hn, he.2.2, oe⟩
      · exact ⟨_, by simp, s1.1.1, s1.1.2.1, s1.1.2.2, o1⟩
      · exact ⟨_, by simp, s2.1.1, s2.1.2.1, s2.1.2.2, o2⟩
      · exact ⟨_, by simp, s3.1.1, s3.1.2.1, s3.1.2.2, o3⟩
      · exact ⟨_, by simp, s4.1.1, s4.1.2.1, s4.1.2.2, o4⟩
      · exact ⟨_, by simp, s5.1.1, s5.1.2.1, s5.1.2.2, o5⟩
      · exact ⟨_, by simp, s6.1.1, s6.1.2.1, s6.1.2.2, o6⟩
    · rintro ⟨d, hdM, _, _, _, rfl⟩
      rcases hdM with rfl | rfl | rfl | rfl | rfl | rfl | rfl | rfl
      · exact Or.inl oe
      · exact Or.inl or'
      · exact Or.inr (Or.inl o1)
      · exact Or.inr (Or.inr (Or.inl o2))
      · exact Or.inr (Or.inr (Or.inr (Or.inl o3)))
      · exact Or.inr (Or.inr (Or.inr (Or.inr (Or.inl o4))))
      · exact Or.inr (Or.inr (Or.inr (Or.inr (Or.inr (Or.inl o5)))))
      · exact Or.inr (Or.inr (Or.inr (Or.inr (Or.inr (Or.inr o6)))))
  · intro x
    simp only [List.mem_cons, List.mem_nil_iff, or_false]
    constructor
    · rintro (rfl | rfl | rfl | rfl)
      · exact ⟨e, by simp, he.1, hn, by rw [hu']; exact he.2.2, ne'⟩
      · exact ⟨m.β 2 e, by simp, hr0, hr, by rw [hu']; exact Lr.2.2, nr⟩
      · exact ⟨n1, by simp, s1.1.1, s1.1.2.1, by rw [hu']; exact s1.1.2.2, w1⟩
      · exact ⟨n4, by simp, s4.1.1, s4.1.2.1, by rw [hu']; exact s4.1.2.2, w4⟩
    · rintro ⟨d, hdM, _, _, _, rfl⟩
      rcases hdM with rfl | rfl | rfl | rfl | rfl | rfl | rfl | rfl
      · exact Or.inl ne'
      · exact Or.inr (Or.inl nr)
      · exact Or.inr (Or.inr (Or.inl w1))
      · exact Or.inr (Or.inr (Or.inl w2))
      · exact Or.inr (Or.inl w3)
      · exact Or.inr (Or.inr (Or.inr w4))
      · exact Or.inr (Or.inr (Or.inr w5))
      · exact Or.inl w6


theorem nodup5_min {e r a b c d xa xb xc xd : Nat} (hnd : [e, r, a, b, c, d, xa, xb, xc, xd].Nodup) :
    [min r e, min xa a, min xb b, min xc c, min xd d].Nodup ∧ [min xa xb, min xc xd].Nodup := by
  simp only [List.nodup_cons, List.mem_cons, List.mem_nil_iff, not_or, or_false, List.nodup_nil, and_true] at hnd
  obtain ⟨⟨p01, p02, p03, p04, p05, p06, p07, p08, p09⟩, ⟨p12, p13, p14, p15, p16, p17, p18, p19⟩, ⟨p23, p24, p25, p26, p27, p28, p29⟩, ⟨p34, p35, p36, p37, p38, p39⟩, ⟨p45, p46, p47, p48, p49⟩, ⟨p56, p57, p58, p59⟩, ⟨p67, p68, p69⟩, ⟨p78, p79⟩, p89, _⟩ := hnd
  have t1 := min2_ne p16 p12 p06 p02
  have t2 := min2_ne p17 p13 p07 p03
  have t3 := min2_ne p18 p14 p08 p04
  have t4 := min2_ne p19 p15 p09 p05
  have t5 := min2_ne p67 (Ne.symm p36) p27 p23
  have t6 := min2_ne p68 (Ne.symm p46) p28 p24
  have t7 := min2_ne p69 (Ne.symm p56) p29 p25
  have t8 := min2_ne p78 (Ne.symm p47) p38 p34
  have t9 := min2_ne p79 (Ne.symm p57) p39 p35
  have t10 := min2_ne p89 (Ne.symm p58) p49 p45
  have t0 := min2_ne p68 p69 p78 p79
  simp [t1, t2, t3, t4, t5, t6, t7, t8, t9, t10, t0]

/-- **C15 (1), edges, interior midpoint collapse**: the edge `{e, r}` disappears and the four other sides of the two
    triangles are glued in pairs with their neighbours (`{a, xa}, {b, xb}` become `{xa, xb}`; `{c, xc}, {d, xd}` become
    `{xc, xd}`): `#edges' + 3 = #edges` -/
theorem C15_collapse_midpoint_edge_count (cfg : Cfg Val) (m m' : Map Val) (e v : Nat) (hwf : WF 3 m) (he : C01.InUse m e)
    (hreg : regd cfg stVA = false)
    (h : run (collapseEdge cfg m.n e) m = (.ok v, m'))
    (hr0 : m.β 2 e ≠ 0) (hb : m.β 0 e ≠ 0) (hd : m.β 0 (m.β 2 e) ≠ 0)
    (hx : m.β 2 (m.β 1 e) ≠ 0 ∧ m.β 2 (m.β 0 e) ≠ 0 ∧ m.β 2 (m.β 1 (m.β 2 e)) ≠ 0 ∧ m.β 2 (m.β 0 (m.β 2 e)) ≠ 0)
    (hnd : [e, m.β 2 e, m.β 1 e, m.β 0 e, m.β 1 (m.β 2 e), m.β 0 (m.β 2 e), m.β 2 (m.β 1 e), m.β 2 (m.β 0 e),
      m.β 2 (m.β 1 (m.β 2 e)), m.β 2 (m.β 0 (m.β 2 e))].Nodup) :
    (iterEdges2 m').length + 3 = (iterEdges2 m).length := by
  have hn := he.2.1
  obtain ⟨hw', fl, ⟨gb, ga, gd, gc⟩, frame, _, _, hn', hu⟩ :=
    C15_collapse_midpoint_interior cfg m m' e v hwf he hreg h hr0 hb hd hx hnd
  obtain ⟨xa0, xb0, xc0, xd0⟩ := hx
  have hr : m.β 2 e < m.n := hwf.range 2 (by omega) e hn
  have er := (hwf.invol 2 (by omega) (by omega) e hn hr0).1
  have hbn : m.β 0 e < m.n := hwf.range 0 (by omega) e hn
  have hdn : m.β 0 (m.β 2 e) < m.n := hwf.range 0 (by omega) _ hr
  have ha : m.β 1 e < m.n := hwf.range 1 (by omega) e hn
  have hc : m.β 1 (m.β 2 e) < m.n := hwf.range 1 (by omega) _ hr
  have a0 : m.β 1 e ≠ 0 := by intro hh; rw [hh, hwf.null 2 (by omega)] at xa0; exact xa0 rfl
  have c0 : m.β 1 (m.β 2 e) ≠ 0 := by intro hh; rw [hh, hwf.null 2 (by omega)] at xc0; exact xc0 rfl
  have Lr := live_image hwf (by omega : 2 < 3) hn hr0
  have La := live_image hwf (by omega : 1 < 3) hn a0
  have Lb := live_image hwf (by omega : 0 < 3) hn hb
  have Lc := live_image hwf (by omega : 1 < 3) hr c0
  have Ld := live_image hwf (by omega : 0 < 3) hr hd
  have Lxa := live_image hwf (by omega : 2 < 3) ha xa0
  have Lxb := live_image hwf (by omega : 2 < 3) hbn xb0
  have Lxc := live_image hwf (by omega : 2 < 3) hc xc0
  have Lxd := live_image hwf (by omega : 2 < 3) hdn xd0
  have ia := (hwf.invol 2 (by omega) (by omega) _ ha xa0).1
  have ib := (hwf.invol 2 (by omega) (by omega) _ hbn xb0).1
  have ic := (hwf.invol 2 (by omega) (by omega) _ hc xc0).1
  have id' := (hwf.invol 2 (by omega) (by omega) _ hdn xd0).1
  have idO : ∀ d, d ≠ 0 → d < m.n → cellId m .edge d = (if m.β 2 d = 0 then d else min (m.β 2 d) d) :=
    fun d d0 dn => edgeId_eq hwf d0 dn
  have idN : ∀ d, d ≠ 0 → d < m.n → cellId m' .edge d = (if m'.β 2 d = 0 then d else min (m'.β 2 d) d) :=
    fun d d0 dn => edgeId_eq hw' d0 (by rw [hn']; exact dn)
  have oe : cellId m .edge e = min (m.β 2 e) e := by rw [idO e he.1 hn]; simp [hr0]
  have or' : cellId m .edge (m.β 2 e) = min (m.β 2 e) e := by rw [idO _ hr0 hr, er]; simp [he.1, Nat.min_comm]
  have oa : cellId m .edge (m.β 1 e) = min (m.β 2 (m.β 1 e)) (m.β 1 e) := by rw [idO _ a0 ha]; simp [xa0]
  have oxa : cellId m .edge (m.β 2 (m.β 1 e)) = min (m.β 2 (m.β 1 e)) (m.β 1 e) := by
    rw [idO _ xa0 Lxa.2.1, ia]; simp [a0, Nat.min_comm]
  have ob : cellId m .edge (m.β 0 e) = min (m.β 2 (m.β 0 e)) (m.β 0 e) := by rw [idO _ hb hbn]; simp [xb0]
  have oxb : cellId m .edge (m.β 2 (m.β 0 e)) = min (m.β 2 (m.β 0 e)) (m.β 0 e) := by
    rw [idO _ xb0 Lxb.2.1, ib]; simp [hb, Nat.min_comm]
  have oc : cellId m .edge (m.β 1 (m.β 2 e)) = min (m.β 2 (m.β 1 (m.β 2 e))) (m.β 1 (m.β 2 e)) := by
    rw [idO _ c0 hc]; simp [xc0]
  have oxc : cellId m .edge (m.β 2 (m.β 1 (m.β 2 e))) = min (m.β 2 (m.β 1 (m.β 2 e))) (m.β 1 (m.β 2 e)) := by
    rw [idO _ xc0 Lxc.2.1, ic]; simp [c0, Nat.min_comm]
  have od : cellId m .edge (m.β 0 (m.β 2 e)) = min (m.β 2 (m.β 0 (m.β 2 e))) (m.β 0 (m.β 2 e)) := by
    rw [idO _ hd hdn]; simp [xd0]
  have oxd : cellId m .edge (m.β 2 (m.β 0 (m.β 2 e))) = min (m.β 2 (m.β 0 (m.β 2 e))) (m.β 0 (m.β 2 e)) := by
    rw [idO _ xd0 Lxd.2.1, id']; simp [hd, Nat.min_comm]
  have nxb : cellId m' .edge (m.β 2 (m.β 0 e)) = min (m.β 2 (m.β 1 e)) (m.β 2 (m.β 0 e)) := by
    rw [idN _ xb0 Lxb.2.1, gb]; simp [xa0]
  have nxa : cellId m' .edge (m.β 2 (m.β 1 e)) = min (m.β 2 (m.β 1 e)) (m.β 2 (m.β 0 e)) := by
    rw [idN _ xa0 Lxa.2.1, ga]; simp [xb0, Nat.min_comm]
  have nxd : cellId m' .edge (m.β 2 (m.β 0 (m.β 2 e))) = min (m.β 2 (m.β 1 (m.β 2 e))) (m.β 2 (m.β 0 (m.β 2 e))) := by
    rw [idN _ xd0 Lxd.2.1, gd]; simp [xc0]
  have nxc : cellId m' .edge (m.β 2 (m.β 1 (m.β 2 e))) = min (m.β 2 (m.β 1 (m.β 2 e))) (m.β 2 (m.β 0 (m.β 2 e))) := by
    rw [idN _ xc0 Lxc.2.1, gc]; simp [xd0, Nat.min_comm]
  have six : ∀ x, x ∈ [e, m.β 2 e, m.β 1 e, m.β 0 e, m.β 1 (m.β 2 e), m.β 0 (m.β 2 e)] → m'.unused x = true :=
    fun x hx => (fl x hx).1
  have keepu : ∀ x, x ∉ [e, m.β 2 e, m.β 1 e, m.β 0 e, m.β 1 (m.β 2 e), m.β 0 (m.β 2 e)] → m'.unused x = m.unused x := hu
  have hnd' := hnd
  simp only [List.nodup_cons, List.mem_cons, List.mem_nil_iff, not_or, or_false, List.nodup_nil, and_true] at hnd'
  obtain ⟨⟨_, _, _, _, _, e7, e8, e9, e10⟩, ⟨_, _, _, _, r7, r8, r9, r10⟩, ⟨_, _, _, a7, a8, a9, a10⟩,
    ⟨_, _, b7, b8, b9, b10⟩, ⟨_, c7, c8, c9, c10⟩, ⟨d7, d8, d9, d10⟩, _⟩ := hnd'
  have nd := nodup5_min hnd
  have cnt := iterEdges_count hwf hw' hn'
    [e, m.β 2 e, m.β 1 e, m.β 0 e, m.β 1 (m.β 2 e), m.β 0 (m.β 2 e), m.β 2 (m.β 1 e), m.β 2 (m.β 0 e),
      m.β 2 (m.β 1 (m.β 2 e)), m.β 2 (m.β 0 (m.β 2 e))]
    [min (m.β 2 e) e, min (m.β 2 (m.β 1 e)) (m.β 1 e), min (m.β 2 (m.β 0 e)) (m.β 0 e),
      min (m.β 2 (m.β 1 (m.β 2 e))) (m.β 1 (m.β 2 e)), min (m.β 2 (m.β 0 (m.β 2 e))) (m.β 0 (m.β 2 e))]
    [min (m.β 2 (m.β 1 e)) (m.β 2 (m.β 0 e)), min (m.β 2 (m.β 1 (m.β 2 e))) (m.β 2 (m.β 0 (m.β 2 e)))]
    ?_ (fun y hy => frame 2 y hy) ?_ ?_ nd.1 nd.2 ?_ ?_
  · simp at cnt; omega
  · intro x hx
    refine keepu x ?_
    simp only [List.mem_cons, List.mem_nil_iff, not_or, or_false] at hx ⊢
    exact ⟨hx.1, hx.2.1, hx.2.2.1, hx.2.2.2.1, hx.2.2.2.2.1, hx.2.2.2.2.2.1⟩
  · intro y hy w hw
    simp only [List.mem_cons, List.mem_nil_iff, or_false] at hy
    simp only [g2, List.mem_cons, List.mem_nil_iff, or_false] at hw
    rcases hy with rfl | rfl | rfl | rfl | rfl | rfl | rfl | rfl | rfl | rfl <;> subst hw <;> simp [er, ia, ib, ic, id']
  · intro y hy w hw
    simp only [List.mem_cons, List.mem_nil_iff, or_false] at hy
    simp only [g2, List.mem_cons, List.mem_nil_iff, or_false] at hw
    rcases hy with rfl | rfl | rfl | rfl | rfl | rfl | rfl | rfl | rfl | rfl <;> subst hw
    · exact Or.inl ((fl _ (by simp)).2 2 (by omega))
    · exact Or.inl ((fl _ (by simp)).2 2 (by omega))
    · exact Or.inl ((fl _ (by simp)).2 2 (by omega))
    · exact Or.inl ((fl _ (by simp)).2 2 (by omega))
    · exact Or.inl ((fl _ (by simp)).2 2 (by omega))
    · exact Or.inl ((fl _ (by simp)).2 2 (by omega))
    · rw [ga]; simp
    · rw [gb]; simp
    · rw [gc]; simp
    · rw [gd]; simp
  · intro x
    simp only [List.mem_cons, List.mem_nil_iff, or_false]
    constructor
    · rintro (rfl | rfl | rfl | rfl | rfl)
      · exact ⟨e, by simp, he.1, hn, he.2.2, oe⟩
      · exact ⟨_, by simp, a0, ha, La.2.2, oa⟩
      · exact ⟨_, by simp, hb, hbn, Lb.2.2, ob⟩
      · exact ⟨_, by simp, c0, hc, Lc.2.2, oc⟩
      · exact ⟨_, by simp, hd, hdn, Ld.2.2, od⟩
    · rintro ⟨d, hdM, _, _, _, rfl⟩
      rcases hdM with rfl | rfl | rfl | rfl | rfl | rfl | rfl | rfl | rfl | rfl
      · exact Or.inl oe
      · exact Or.inl or'
      · exact Or.inr (Or.inl oa)
      · exact Or.inr (Or.inr (Or.inl ob))
      · exact Or.inr (Or.inr (Or.inr (Or.inl oc)))
      · exact Or.inr (Or.inr (Or.inr (Or.inr od)))
      · exact Or.inr (Or.inl oxa)
      · exact Or.inr (Or.inr (Or.inl oxb))
      · exact Or.inr (Or.inr (Or.inr (Or.inl oxc)))
      · exact Or.inr (Or.inr (Or.inr (Or.inr oxd)))
  · intro x
    simp only [List.mem_cons, List.mem_nil_iff, or_false]
    have inuse' : ∀ y, y ∉ [e, m.β 2 e, m.β 1 e, m.β 0 e, m.β 1 (m.β 2 e), m.β 0 (m.β 2 e)] → Live m.n m.u y →
        m'.unused y = false := by
      intro y hy Ly
      rw [keepu y hy]; exact Ly.2.2
    have xaN : m.β 2 (m.β 1 e) ∉ [e, m.β 2 e, m.β 1 e, m.β 0 e, m.β 1 (m.β 2 e), m.β 0 (m.β 2 e)] := by
      simp [Ne.symm e7, Ne.symm r7, Ne.symm a7, Ne.symm b7, Ne.symm c7, Ne.symm d7]
    have xbN : m.β 2 (m.β 0 e) ∉ [e, m.β 2 e, m.β 1 e, m.β 0 e, m.β 1 (m.β 2 e), m.β 0 (m.β 2 e)] := by
      simp [Ne.symm e8, Ne.symm r8, Ne.symm a8, Ne.symm b8, Ne.symm c8, Ne.symm d8]
    have xcN : m.β 2 (m.β 1 (m.β 2 e)) ∉ [e, m.β 2 e, m.β 1 e, m.β 0 e, m.β 1 (m.β 2 e), m.β 0 (m.β 2 e)] := by
      simp [Ne.symm e9, Ne.symm r9, Ne.symm a9, Ne.symm b9, Ne.symm c9, Ne.symm d9]
    have xdN : m.β 2 (m.β 0 (m.β 2 e)) ∉ [e, m.β 2 e, m.β 1 e, m.β 0 e, m.β 1 (m.β 2 e), m.β 0 (m.β 2 e)] := by
      simp [Ne.symm e10, Ne.symm r10, Ne.symm a10, Ne.symm b10, Ne.symm c10, Ne.symm d10]
    constructor
    · rintro (rfl | rfl)
      · exact ⟨_, by simp, xa0, Lxa.2.1, inuse' _ xaN Lxa, nxa⟩
      · exact ⟨_, by simp, xc0, Lxc.2.1, inuse' _ xcN Lxc, nxc⟩
    · rintro ⟨d, hdM, _, _, hdu, rfl⟩
      have dead : ∀ y, y ∈ [e, m.β 2 e, m.β 1 e, m.β 0 e, m.β 1 (m.β 2 e), m.β 0 (m.β 2 e)] → m'.unused y = false → False := by
        intro y hy hh; rw [six y hy] at hh; exact absurd hh (by simp)
      rcases hdM with rfl | rfl | rfl | rfl | rfl | rfl | rfl | rfl | rfl | rfl
      · exact (dead _ (by simp) hdu).elim
      · exact (dead _ (by simp) hdu).elim
      · exact (dead _ (by simp) hdu).elim
      · exact (dead _ (by simp) hdu).elim
      · exact (dead _ (by simp) hdu).elim
      · exact (dead _ (by simp) hdu).elim
      · exact Or.inl nxa
      · exact Or.inl nxb
      · exact Or.inr nxc
      · exact Or.inr nxd


/-! ## non-vacuity: every theorem above applied to a concrete call -/

/-- `C15_six_distinct` on the diagonal of the unit square -/
example : [2, unitSquare.β 2 2, unitSquare.β 1 2, unitSquare.β 0 2, unitSquare.β 1 (unitSquare.β 2 2),
    unitSquare.β 0 (unitSquare.β 2 2)].Nodup :=
  C15_six_distinct (m := unitSquare) (by decide +kernel) (e := 2) (by decide +kernel) (by decide +kernel)
    (by decide +kernel) (by decide +kernel) (by decide +kernel) (by decide +kernel) (by decide +kernel)
    (by decide +kernel) (by decide +kernel) (by decide +kernel)

/-- the swap theorems on `swap_edge(2)` of the unit square: 4 vertices, 5 edges, 2 faces before and after -/
example : ∃ m', run (swapEdge (stdCfg 3 0) unitSquare.n 2) unitSquare = (.ok (), m') ∧
    (iterVertices2 m').length = 4 ∧ (iterEdges2 m').length = 5 ∧ (iterFaces2 m').length = 2 ∧
    cellId m' .vertex 2 = cellId m' .vertex (unitSquare.β 0 2) := by
  have hrun := run_eq_of_fst (p := swapEdge (stdCfg 3 0) unitSquare.n 2) (m := unitSquare) (a := ()) (by decide +kernel)
  have c := C15_swap_counts (stdCfg 3 0) unitSquare _ 2 (by decide) (by decide +kernel) hrun (by decide) (by decide)
    (by decide)
  have k := C15_swap_cells (stdCfg 3 0) unitSquare _ 2 (by decide) (by decide +kernel) hrun (by decide) (by decide)
    (by decide)
  refine ⟨_, hrun, ?_, ?_, ?_, k.2.1.1⟩
  · rw [c.1]; decide +kernel
  · rw [c.2.1]; decide +kernel
  · rw [c.2.2]; decide +kernel

/-- the outer-cut counts on `cut_outer_edge(1, [9, 8, 7])` of the unit square with three spare darts: the iterators
    yield 7 vertices, 8 edges, 5 faces before (three spare darts each) and 5, 7, 3 after -/
example : ∃ m', run (cutOuterEdge (stdCfg 3 0) sq3.n 1 9 8 7) sq3 = (.ok (), m') ∧
    (iterVertices2 sq3).length = 7 ∧ (iterEdges2 sq3).length = 8 ∧ (iterFaces2 sq3).length = 5 ∧
    (iterVertices2 m').length + 2 = 7 ∧ (iterEdges2 m').length + 1 = 8 ∧ (iterFaces2 m').length + 2 = 5 ∧
    cellId m' .vertex 8 = cellId m' .vertex (sq3.β 0 1) := by
  have hrun := run_eq_of_fst (p := cutOuterEdge (stdCfg 3 0) sq3.n 1 9 8 7) (m := sq3) (a := ()) (by decide +kernel)
  have hw : WF 3 sq3 := by decide +kernel
  have he : C01.InUse sq3 1 := by decide +kernel
  have s9 : Spare sq3 9 := ⟨by decide +kernel, by decide +kernel⟩
  have s8 : Spare sq3 8 := ⟨by decide +kernel, by decide +kernel⟩
  have s7 : Spare sq3 7 := ⟨by decide +kernel, by decide +kernel⟩
  have v := C15_cutOuter_vertices (stdCfg 3 0) sq3 _ 1 9 8 7 hw he hrun (by decide +kernel) (by decide +kernel)
    (by decide +kernel) s9 s8 s7 (by decide +kernel)
  have ec := C15_cutOuter_edge_count (stdCfg 3 0) sq3 _ 1 9 8 7 hw he hrun (by decide +kernel) (by decide +kernel)
    s9 s8 s7 (by decide +kernel)
  have fc := C15_cutOuter_face_count (stdCfg 3 0) sq3 _ 1 9 8 7 hw he hrun (by decide +kernel) (by decide +kernel)
    s9 s8 s7 (by decide +kernel)
  have vc := C15_cutOuter_vertex_count (stdCfg 3 0) sq3 _ 1 9 8 7 hw he hrun (by decide +kernel) (by decide +kernel)
    (by decide +kernel) s9 s8 s7 (by decide +kernel)
  have l1 : (iterVertices2 sq3).length = 7 := by decide +kernel
  have l2 : (iterEdges2 sq3).length = 8 := by decide +kernel
  have l3 : (iterFaces2 sq3).length = 5 := by decide +kernel
  exact ⟨_, hrun, l1, l2, l3, by rw [vc, l1], by rw [ec, l2], by rw [fc, l3], v.2.2.1⟩

/-- the inner-cut theorems on `cut_inner_edge(2, [12 … 7])` of the unit square with six spare darts: 10 vertices and 8
    faces before (six spare darts each), 5 and 4 after; the new vertex has identifier 7 -/
example : ∃ m', run (cutInnerEdge (stdCfg 3 0) sq6.n 2 12 11 10 9 8 7) sq6 = (.ok (), m') ∧
    (iterVertices2 sq6).length = 10 ∧ (iterFaces2 sq6).length = 8 ∧
    (iterVertices2 m').length + 5 = 10 ∧ (iterFaces2 m').length + 4 = 8 ∧ cellId m' .vertex 12 = 7 := by
  have hrun := run_eq_of_fst (p := cutInnerEdge (stdCfg 3 0) sq6.n 2 12 11 10 9 8 7) (m := sq6) (a := ())
    (by decide +kernel)
  have hw : WF 3 sq6 := by decide +kernel
  have he : C01.InUse sq6 2 := by decide +kernel
  have hs : ∀ x, x ∈ [12, 11, 10, 9, 8, 7] → Spare sq6 x := by
    intro x hx
    simp only [List.mem_cons, List.mem_nil_iff, or_false] at hx
    rcases hx with rfl | rfl | rfl | rfl | rfl | rfl <;> exact ⟨by decide +kernel, by decide +kernel⟩
  have c := C15_cutInner_cells (stdCfg 3 0) sq6 _ 2 12 11 10 9 8 7 hw he hrun (by decide +kernel) (by decide +kernel)
    (by decide +kernel) (by decide +kernel) (by decide +kernel) hs (by decide +kernel)
  have vc := C15_cutInner_vertex_count (stdCfg 3 0) sq6 _ 2 12 11 10 9 8 7 hw he hrun (by decide +kernel)
    (by decide +kernel) (by decide +kernel) (by decide +kernel) (by decide +kernel) hs (by decide +kernel)
  have fc := C15_cutInner_face_count (stdCfg 3 0) sq6 _ 2 12 11 10 9 8 7 hw he hrun (by decide +kernel)
    (by decide +kernel) (by decide +kernel) (by decide +kernel) (by decide +kernel) hs (by decide +kernel)
  have l1 : (iterVertices2 sq6).length = 10 := by decide +kernel
  have l3 : (iterFaces2 sq6).length = 8 := by decide +kernel
  exact ⟨_, hrun, l1, l3, by rw [vc, l1], by rw [fc, l3], by rw [c.2.2.2.1]; decide⟩

/-- the collapse face count on `collapse_edge(26)` of the 2 x 2 grid after one inner cut (`cutGrid`) -/
example : ∃ m', run (collapseEdge (stdCfg 3 0) cutGrid.n 26) cutGrid = (.ok 3, m') ∧
    (iterFaces2 m').length + 2 = (iterFaces2 cutGrid).length := by
  have hrun := run_eq_of_fst (p := collapseEdge (stdCfg 3 0) cutGrid.n 26) (m := cutGrid) (a := 3) (by decide +kernel)
  exact ⟨_, hrun, C15_collapse_midpoint_face_count (stdCfg 3 0) cutGrid _ 26 3 (by decide +kernel) (by decide +kernel)
    (by decide +kernel) hrun (by decide +kernel) (by decide +kernel) (by decide +kernel) (by decide +kernel)
    (by decide +kernel)⟩

/-- `C15_swap_moves_corners` on `swap_edge(2)` of the unit square: `A = (1,0)`, `B = (0,1)`, `C = (0,0)`, `D = (1,1)`;
    afterwards the vertex of dart 1 is at `(1/2, 0)` or `(1/4, 0)` and that of dart 6 at `(1/2, 1)` or `(3/4, 1)` -/
example : ∃ m', run (swapEdge (stdCfg 3 0) unitSquare.n 2) unitSquare = (.ok (), m') ∧
    (m'.att 0 (cellId m' .vertex 1) = some (.pt (1/2) 0 0) ∨ m'.att 0 (cellId m' .vertex 1) = some (.pt (1/4) 0 0)) ∧
    (m'.att 0 (cellId m' .vertex 6) = some (.pt (1/2) 1 0) ∨ m'.att 0 (cellId m' .vertex 6) = some (.pt (3/4) 1 0)) := by
  have hrun := run_eq_of_fst (p := swapEdge (stdCfg 3 0) unitSquare.n 2) (m := unitSquare) (a := ()) (by decide +kernel)
  have k := C15_swap_moves_corners (stdCfg 3 0) rfl unitSquare _ 2 (by decide) (by decide) (by decide +kernel) hrun
    (by decide) (by decide) (by decide) (by decide +kernel)
    (A := .pt 1 0 0) (B := .pt 0 1 0) (C := .pt 0 0 0) (D := .pt 1 1 0) ⟨_, _, _, rfl⟩ ⟨_, _, _, rfl⟩ ⟨_, _, _, rfl⟩
    ⟨_, _, _, rfl⟩ (by decide +kernel) (by decide +kernel) (by decide +kernel) (by decide +kernel)
  have e1 : unitSquare.β 0 2 = 1 := by decide
  have e2 : unitSquare.β 0 (unitSquare.β 2 2) = 6 := by decide
  rw [e1, e2] at k
  have m1 : midV (.pt 0 0 0) (.pt 1 0 0) = .pt (1/2) 0 0 := by decide +kernel
  have m2 : midV (.pt (1/2) 0 0) (.pt 0 0 0) = .pt (1/4) 0 0 := by decide +kernel
  have m3 : midV (.pt 0 1 0) (.pt 1 1 0) = .pt (1/2) 1 0 := by decide +kernel
  have m4 : midV (.pt (1/2) 1 0) (.pt 1 1 0) = .pt (3/4) 1 0 := by decide +kernel
  rw [m1, m2, m3, m4] at k
  exact ⟨_, hrun, k.2.2.1, k.2.2.2⟩

/-- `C15_cutInner_midpoint_in_final_map` on `cut_inner_edge(2, [12 … 7])` of the unit square: the new vertex has
    identifier 7 and holds the average of `(1, 0)` and `(0, 1)` -/
example : ∃ m', run (cutInnerEdge (stdCfg 3 0) sq6.n 2 12 11 10 9 8 7) sq6 = (.ok (), m') ∧
    cellId m' .vertex 12 = 7 ∧ m'.att 0 7 = some (.pt (1/2) (1/2) 0) := by
  have hrun := run_eq_of_fst (p := cutInnerEdge (stdCfg 3 0) sq6.n 2 12 11 10 9 8 7) (m := sq6) (a := ())
    (by decide +kernel)
  have hs : ∀ x, x ∈ [12, 11, 10, 9, 8, 7] → Spare sq6 x := by
    intro x hx
    simp only [List.mem_cons, List.mem_nil_iff, or_false] at hx
    rcases hx with rfl | rfl | rfl | rfl | rfl | rfl <;> exact ⟨by decide +kernel, by decide +kernel⟩
  have hnone : ∀ x, x ∈ [12, 11, 10, 9, 8, 7] → sq6.att 0 x = none := by
    intro x hx
    simp only [List.mem_cons, List.mem_nil_iff, or_false] at hx
    rcases hx with rfl | rfl | rfl | rfl | rfl | rfl <;> decide +kernel
  obtain ⟨va, vb, ha, hb, hid, hv⟩ := C15_cutInner_midpoint_in_final_map (stdCfg 3 0) rfl sq6 _ 2 12 11 10 9 8 7
    (by decide +kernel) (by decide +kernel) (by decide +kernel) hrun (by decide +kernel) (by decide +kernel)
    (by decide +kernel) (by decide +kernel) (by decide +kernel) hs hnone (by decide +kernel) (by decide +kernel)
  have e1 : sq6.att 0 (cellId sq6 .vertex 2) = some (.pt 1 0 0) := by decide +kernel
  have e2 : sq6.att 0 (cellId sq6 .vertex (sq6.β 1 2)) = some (.pt 0 1 0) := by decide +kernel
  rw [e1] at ha; rw [e2] at hb
  simp only [Option.some.injEq] at ha hb
  have e3 : min 12 (min 10 (min 9 7)) = 7 := by decide
  rw [e3] at hid
  rw [hid, ← ha, ← hb] at hv
  exact ⟨_, hrun, hid, by rw [hv]; decide +kernel⟩

/-- `C15_collapse_endpoint_interior` on `collapse_edge(12)` of `flatGrid` (anchored 2 x 2 grid after one outer cut): the
    anchors choose `Left`, the call answers `ok 6`, the twelve darts are distinct, the result is well formed -/
example : ∃ m', run (collapseEdge (stdCfg 3 224) flatGrid.n 12) flatGrid = (.ok 6, m') ∧ WF 3 m' ∧
    m'.unused 12 = true ∧ m'.unused (flatGrid.β 2 (flatGrid.β 1 12)) = true := by
  have hrun := run_eq_of_fst (p := collapseEdge (stdCfg 3 224) flatGrid.n 12) (m := flatGrid) (a := 6) (by decide +kernel)
  have k := C15_collapse_endpoint_interior (stdCfg 3 224) flatGrid _ 12 6 (by decide +kernel) (by decide +kernel) (by decide +kernel) hrun
    (by decide +kernel) (by decide +kernel) (by decide +kernel) (by decide +kernel) (by decide +kernel)
  exact ⟨_, hrun, k.1, (k.2.1 12 (by simp)).1, (k.2.1 _ (by simp)).1⟩

/-- the two remaining edge counts: `cut_inner_edge(2, [12 … 7])` on the unit square with six spare darts (11 edges for
    the iterator before, 8 after) and `collapse_edge(26)` on `cutGrid` -/
example : (∃ m', run (cutInnerEdge (stdCfg 3 0) sq6.n 2 12 11 10 9 8 7) sq6 = (.ok (), m') ∧
      (iterEdges2 sq6).length = 11 ∧ (iterEdges2 m').length + 3 = 11) ∧
    (∃ m', run (collapseEdge (stdCfg 3 0) cutGrid.n 26) cutGrid = (.ok 3, m') ∧
      (iterEdges2 m').length + 3 = (iterEdges2 cutGrid).length) := by
  constructor
  · have hrun := run_eq_of_fst (p := cutInnerEdge (stdCfg 3 0) sq6.n 2 12 11 10 9 8 7) (m := sq6) (a := ())
      (by decide +kernel)
    have hs : ∀ x, x ∈ [12, 11, 10, 9, 8, 7] → Spare sq6 x := by
      intro x hx
      simp only [List.mem_cons, List.mem_nil_iff, or_false] at hx
      rcases hx with rfl | rfl | rfl | rfl | rfl | rfl <;> exact ⟨by decide +kernel, by decide +kernel⟩
    have ec := C15_cutInner_edge_count (stdCfg 3 0) sq6 _ 2 12 11 10 9 8 7 (by decide +kernel) (by decide +kernel) hrun
      (by decide +kernel) (by decide +kernel) (by decide +kernel) (by decide +kernel) (by decide +kernel) hs
      (by decide +kernel)
    have l2 : (iterEdges2 sq6).length = 11 := by decide +kernel
    exact ⟨_, hrun, l2, by rw [ec, l2]⟩
  · have hrun := run_eq_of_fst (p := collapseEdge (stdCfg 3 0) cutGrid.n 26) (m := cutGrid) (a := 3) (by decide +kernel)
    exact ⟨_, hrun, C15_collapse_midpoint_edge_count (stdCfg 3 0) cutGrid _ 26 3 (by decide +kernel) (by decide +kernel)
      (by decide +kernel) hrun (by decide +kernel) (by decide +kernel) (by decide +kernel) (by decide +kernel)
      (by decide +kernel)⟩

/-- `C15_collapse_endpoint_interior_right` on `collapse_edge(6)` of `flatGrid`: the anchors choose `Right`, the call
    answers `ok 3`, the result is well formed and the dart itself is flagged -/
example : ∃ m', run (collapseEdge (stdCfg 3 224) flatGrid.n 6) flatGrid = (.ok 3, m') ∧ WF 3 m' ∧ m'.unused 6 = true := by
  have hrun := run_eq_of_fst (p := collapseEdge (stdCfg 3 224) flatGrid.n 6) (m := flatGrid) (a := 3) (by decide +kernel)
  have k := C15_collapse_endpoint_interior_right (stdCfg 3 224) flatGrid _ 6 3 (by decide +kernel) (by decide +kernel)
    (by decide +kernel) hrun (by decide +kernel) (by decide +kernel) (by decide +kernel) (by decide +kernel)
    (by decide +kernel)
  exact ⟨_, hrun, k.1, (k.2.1 6 (by simp)).1⟩

end HC.C15
