/-
  C15, third part — counts through the iterators, distinctness of the darts around an edge, the end-point variant of
  the collapse.  (header completed below, see the theorem docstrings)
-/
import Honeycomb.Props.C15b

set_option linter.unusedSimpArgs false
set_option linter.unusedVariables false

namespace HC.C15
open HC HC.C03

/-! ## (5) the six darts around an interior edge are pairwise distinct -/

/-- on a well-formed 2-map, two closed β1-triangles `e → a → b → e`, `r → c → d → r` (`r = β2 e`) are made of six
    pairwise distinct darts as soon as they are not loops (`β1 e ≠ e`, `β1 r ≠ r`) and `r` is not a dart of the first -/
theorem C15_six_distinct {X : Type} {m : Map X} (hwf : WF 3 m) {e : Nat} (he : e < m.n) (hr0 : m.β 2 e ≠ 0)
    (gl : m.β 1 (m.β 1 e) = m.β 0 e) (hb : m.β 0 e ≠ 0)
    (gr : m.β 1 (m.β 1 (m.β 2 e)) = m.β 0 (m.β 2 e)) (hd : m.β 0 (m.β 2 e) ≠ 0)
    (l1 : m.β 1 e ≠ e) (l2 : m.β 1 (m.β 2 e) ≠ m.β 2 e) (f1 : m.β 2 e ≠ m.β 1 e) (f2 : m.β 2 e ≠ m.β 0 e) :
    [e, m.β 2 e, m.β 1 e, m.β 0 e, m.β 1 (m.β 2 e), m.β 0 (m.β 2 e)].Nodup := by
  have hr : m.β 2 e < m.n := hwf.range 2 (by omega) e he
  have a0 : m.β 1 e ≠ 0 := fun hh => hb (by rw [← gl, hh]; exact hwf.null 1 (by omega))
  have c0 : m.β 1 (m.β 2 e) ≠ 0 := fun hh => hd (by rw [← gr, hh]; exact hwf.null 1 (by omega))
  have ha : m.β 1 e < m.n := hwf.range 1 (by omega) e he
  have hc : m.β 1 (m.β 2 e) < m.n := hwf.range 1 (by omega) _ hr
  have hbn : m.β 0 e < m.n := hwf.range 0 (by omega) e he
  have hdn : m.β 0 (m.β 2 e) < m.n := hwf.range 0 (by omega) _ hr
  -- β1 and β0 images around the two triangles
  have p3 : m.β 1 (m.β 0 e) = e := hwf.inv10 e he hb
  have q3 : m.β 1 (m.β 0 (m.β 2 e)) = m.β 2 e := hwf.inv10 _ hr hd
  have i1 : m.β 0 (m.β 1 e) = e := hwf.inv01 e he a0
  have i4 : m.β 0 (m.β 1 (m.β 2 e)) = m.β 2 e := hwf.inv01 _ hr c0
  have i2 : m.β 0 (m.β 0 e) = m.β 1 e := by
    have := hwf.inv01 _ ha (by rw [gl]; exact hb); rw [gl] at this; exact this
  have i5 : m.β 0 (m.β 0 (m.β 2 e)) = m.β 1 (m.β 2 e) := by
    have := hwf.inv01 _ hc (by rw [gr]; exact hd); rw [gr] at this; exact this
  have ner : e ≠ m.β 2 e := fun hh => (hwf.invol 2 (by omega) (by omega) e he hr0).2 hh.symm
  generalize hR : m.β 2 e = r at *
  generalize hA : m.β 1 e = a at *
  generalize hB : m.β 0 e = b at *
  generalize hC : m.β 1 r = c at *
  generalize hD : m.β 0 r = d at *
  -- every coincidence propagates around the triangles to one of the excluded ones
  have eb : e ≠ b := fun hh => l1 (by have := p3; rw [← hh, hA] at this; exact this)
  have rd : r ≠ d := fun hh => l2 (by have := q3; rw [← hh, hC] at this; exact this)
  have ab : a ≠ b := fun hh => by
    have : m.β 0 a = m.β 0 b := by rw [hh]
    rw [i1, i2] at this; exact l1 this.symm
  have cd : c ≠ d := fun hh => by
    have : m.β 0 c = m.β 0 d := by rw [hh]
    rw [i4, i5] at this; exact l2 this.symm
  have ec : e ≠ c := fun hh => by
    have : m.β 0 e = m.β 0 c := by rw [hh]
    rw [hB, i4] at this; exact f2 this.symm
  have ed : e ≠ d := fun hh => by
    have : m.β 1 e = m.β 1 d := by rw [hh]
    rw [hA, q3] at this; exact f1 this.symm
  have ac : a ≠ c := fun hh => by
    have : m.β 0 a = m.β 0 c := by rw [hh]
    rw [i1, i4] at this; exact ner this
  have ad : a ≠ d := fun hh => by
    have : m.β 1 a = m.β 1 d := by rw [hh]
    rw [gl, q3] at this; exact f2 this.symm
  have bc : b ≠ c := fun hh => by
    have : m.β 0 b = m.β 0 c := by rw [hh]
    rw [i2, i4] at this; exact f1 this.symm
  have bd : b ≠ d := fun hh => by
    have : m.β 1 b = m.β 1 d := by rw [hh]
    rw [p3, q3] at this; exact ner this
  simp [ner, l1.symm, eb, ec, ed, f1, f2, l2.symm, rd, ab, ac, ad, bc, bd, cd]

/-! ## (1) counting cells through the iterators -/

/-- two duplicate-free lists that agree outside `M` and whose parts inside `M` are the duplicate-free lists `S`, `S'` -/
theorem length_of_parts {L L' S S' M : List Nat} (hL : L.Nodup) (hL' : L'.Nodup) (hS : S.Nodup) (hS' : S'.Nodup)
    (hout : ∀ x, x ∉ M → (x ∈ L' ↔ x ∈ L))
    (hin : ∀ x, x ∈ M → (x ∈ L ↔ x ∈ S)) (hin' : ∀ x, x ∈ M → (x ∈ L' ↔ x ∈ S'))
    (hSM : ∀ x, x ∈ S → x ∈ M) (hSM' : ∀ x, x ∈ S' → x ∈ M) :
    L'.length + S.length = L.length + S'.length := by
  have key : ∀ (K T : List Nat), K.Nodup → T.Nodup → (∀ x, x ∈ M → (x ∈ K ↔ x ∈ T)) → (∀ x, x ∈ T → x ∈ M) →
      (K.filter (fun x => decide (x ∈ M))).length = T.length := by
    intro K T hK hT h1 h2
    apply List.Perm.length_eq
    rw [List.perm_ext_iff_of_nodup (hK.sublist List.filter_sublist) hT]
    intro x
    simp only [List.mem_filter, decide_eq_true_eq]
    constructor
    · intro ⟨a, b⟩; exact (h1 x b).1 a
    · intro hx; exact ⟨(h1 x (h2 x hx)).2 hx, h2 x hx⟩
  have out : (L'.filter (fun x => !decide (x ∈ M))).length = (L.filter (fun x => !decide (x ∈ M))).length := by
    apply List.Perm.length_eq
    rw [List.perm_ext_iff_of_nodup (hL'.sublist List.filter_sublist) (hL.sublist List.filter_sublist)]
    intro x
    simp only [List.mem_filter, Bool.not_eq_true', decide_eq_false_iff_not]
    constructor
    · intro ⟨a, b⟩; exact ⟨(hout x b).1 a, b⟩
    · intro ⟨a, b⟩; exact ⟨(hout x b).2 a, b⟩
  have e1 := (List.filter_append_perm (fun x => decide (x ∈ M)) L).length_eq
  have e2 := (List.filter_append_perm (fun x => decide (x ∈ M)) L').length_eq
  rw [List.length_append] at e1 e2
  have k1 := key L S hL hS hin hSM
  have k2 := key L' S' hL' hS' hin' hSM'
  omega

/-- **face count, generic**: `M` lists the darts touched by an edit which keeps `n`, keeps β0/β1 and the flags outside `M`,
    and in both maps keeps the faces of the darts of `M` inside `M`.  If `S` (`S'`) lists without repetition the face
    identifiers of the in-use darts of `M` before (after), then `#iter_faces' + #S = #iter_faces + #S'`. -/
theorem iterFaces_count {m m' : Map Val} (h : WF 3 m) (h' : WF 3 m') (hn : m'.n = m.n) (M S S' : List Nat)
    (hu : ∀ d, d ∉ M → m'.unused d = m.unused d)
    (hfr : ∀ y, y ∉ M → m'.β 1 y = m.β 1 y ∧ m'.β 0 y = m.β 0 y)
    (hcl : ∀ y, y ∈ M → ∀ x, x ∈ g2 m .face y → x = 0 ∨ x ∈ M)
    (hcl' : ∀ y, y ∈ M → ∀ x, x ∈ g2 m' .face y → x = 0 ∨ x ∈ M)
    (hS : S.Nodup) (hS' : S'.Nodup)
    (hin : ∀ x, x ∈ S ↔ ∃ d, d ∈ M ∧ d ≠ 0 ∧ d < m.n ∧ m.unused d = false ∧ cellId m .face d = x)
    (hin' : ∀ x, x ∈ S' ↔ ∃ d, d ∈ M ∧ d ≠ 0 ∧ d < m.n ∧ m'.unused d = false ∧ cellId m' .face d = x) :
    (iterFaces2 m').length + S.length = (iterFaces2 m).length + S'.length := by
  have nodup : ∀ mm : Map Val, (iterFaces2 mm).Nodup := fun mm =>
    ((C03_iter_sorted mm).2.2).imp (fun hab => Nat.ne_of_lt hab)
  -- the identifier of a dart lies in `M` iff the dart does
  have idM : ∀ (mm : Map Val) (hw : WF 3 mm), (∀ y, y ∈ M → ∀ x, x ∈ g2 mm .face y → x = 0 ∨ x ∈ M) →
      ∀ d, d ≠ 0 → d < mm.n → (cellId mm .face d ∈ M ↔ d ∈ M) := by
    intro mm hw hc d hd0 hd
    have sp := cellId_spec hw (pol := .face) trivial hd0 hd
    obtain ⟨c0, hr⟩ := (mem_orb hw (pol := .face) trivial hd0 hd _).1 sp.1
    constructor
    · intro hc'
      have back := Reach.symm_of_invClosed (g2_null hw .face trivial) (g2_range hw .face trivial)
        (C03_images_inverse_closed hw (pol := .face) trivial) hd c0 hr
      have : d = 0 ∨ d ∈ M := by
        refine reach_closed (S := fun z => z = 0 ∨ z ∈ M) ?_ (Or.inr hc') back
        intro y hy v hv
        rcases hy with rfl | hy
        · exact Or.inl (g2_null hw .face trivial v hv)
        · exact hc y hy v hv
      rcases this with h0 | hM
      · exact absurd h0 hd0
      · exact hM
    · intro hdM
      have : cellId mm .face d = 0 ∨ cellId mm .face d ∈ M := by
        refine reach_closed (S := fun z => z = 0 ∨ z ∈ M) ?_ (Or.inr hdM) hr
        intro y hy v hv
        rcases hy with rfl | hy
        · exact Or.inl (g2_null hw .face trivial v hv)
        · exact hc y hy v hv
      rcases this with h0 | hM
      · exact absurd h0 c0
      · exact hM
  have frame : ∀ d, d ≠ 0 → d < m.n → d ∉ M → cellId m' .face d = cellId m .face d := fun d hd0 hd hdM =>
    (cellId_frame h h' hn (pol := .face) trivial M
      (by intro y hy; simp only [g2]; rw [(hfr y hy).1, (hfr y hy).2]) hcl hcl' hd0 hd hdM).2
  refine length_of_parts (M := M) (nodup m) (nodup m') hS hS' ?_ ?_ ?_ ?_ ?_
  · intro x hx
    rw [C03_iterFaces2_mem h' x, C03_iterFaces2_mem h x]
    constructor
    · rintro ⟨d, hd0, hd, hdu, rfl⟩
      rw [hn] at hd
      have hdM : d ∉ M := fun hh => hx ((idM m' h' hcl' d hd0 (by rw [hn]; exact hd)).2 hh)
      exact ⟨d, hd0, hd, by rw [← hu d hdM]; exact hdu, (frame d hd0 hd hdM).symm⟩
    · rintro ⟨d, hd0, hd, hdu, rfl⟩
      have hdM : d ∉ M := fun hh => hx ((idM m h hcl d hd0 hd).2 hh)
      exact ⟨d, hd0, by rw [hn]; exact hd, by rw [hu d hdM]; exact hdu, frame d hd0 hd hdM⟩
  · intro x hx
    rw [C03_iterFaces2_mem h x, hin]
    constructor
    · rintro ⟨d, hd0, hd, hdu, rfl⟩
      exact ⟨d, (idM m h hcl d hd0 hd).1 hx, hd0, hd, hdu, rfl⟩
    · rintro ⟨d, _, hd0, hd, hdu, rfl⟩
      exact ⟨d, hd0, hd, hdu, rfl⟩
  · intro x hx
    rw [C03_iterFaces2_mem h' x, hin']
    constructor
    · rintro ⟨d, hd0, hd, hdu, rfl⟩
      exact ⟨d, (idM m' h' hcl' d hd0 hd).1 hx, hd0, by rw [← hn]; exact hd, hdu, rfl⟩
    · rintro ⟨d, _, hd0, hd, hdu, rfl⟩
      exact ⟨d, hd0, by rw [hn]; exact hd, hdu, rfl⟩
  · intro x hx
    obtain ⟨d, hdM, hd0, hd, _, rfl⟩ := (hin x).1 hx
    exact (idM m h hcl d hd0 hd).2 hdM
  · intro x hx
    obtain ⟨d, hdM, hd0, hd, _, rfl⟩ := (hin' x).1 hx
    exact (idM m' h' hcl' d hd0 (by rw [hn]; exact hd)).2 hdM

/-- **edge count, generic**: the same with β2 and edge identifiers -/
theorem iterEdges_count {m m' : Map Val} (h : WF 3 m) (h' : WF 3 m') (hn : m'.n = m.n) (M S S' : List Nat)
    (hu : ∀ d, d ∉ M → m'.unused d = m.unused d)
    (hfr : ∀ y, y ∉ M → m'.β 2 y = m.β 2 y)
    (hcl : ∀ y, y ∈ M → ∀ x, x ∈ g2 m .edge y → x = 0 ∨ x ∈ M)
    (hcl' : ∀ y, y ∈ M → ∀ x, x ∈ g2 m' .edge y → x = 0 ∨ x ∈ M)
    (hS : S.Nodup) (hS' : S'.Nodup)
    (hin : ∀ x, x ∈ S ↔ ∃ d, d ∈ M ∧ d ≠ 0 ∧ d < m.n ∧ m.unused d = false ∧ cellId m .edge d = x)
    (hin' : ∀ x, x ∈ S' ↔ ∃ d, d ∈ M ∧ d ≠ 0 ∧ d < m.n ∧ m'.unused d = false ∧ cellId m' .edge d = x) :
    (iterEdges2 m').length + S.length = (iterEdges2 m).length + S'.length := by
  have nodup : ∀ mm : Map Val, (iterEdges2 mm).Nodup := fun mm =>
    ((C03_iter_sorted mm).2.1).imp (fun hab => Nat.ne_of_lt hab)
  -- the identifier of a dart lies in `M` iff the dart does
  have idM : ∀ (mm : Map Val) (hw : WF 3 mm), (∀ y, y ∈ M → ∀ x, x ∈ g2 mm .edge y → x = 0 ∨ x ∈ M) →
      ∀ d, d ≠ 0 → d < mm.n → (cellId mm .edge d ∈ M ↔ d ∈ M) := by
    intro mm hw hc d hd0 hd
    have sp := cellId_spec hw (pol := .edge) trivial hd0 hd
    obtain ⟨c0, hr⟩ := (mem_orb hw (pol := .edge) trivial hd0 hd _).1 sp.1
    constructor
    · intro hc'
      have back := Reach.symm_of_invClosed (g2_null hw .edge trivial) (g2_range hw .edge trivial)
        (C03_images_inverse_closed hw (pol := .edge) trivial) hd c0 hr
      have : d = 0 ∨ d ∈ M := by
        refine reach_closed (S := fun z => z = 0 ∨ z ∈ M) ?_ (Or.inr hc') back
        intro y hy v hv
        rcases hy with rfl | hy
        · exact Or.inl (g2_null hw .edge trivial v hv)
        · exact hc y hy v hv
      rcases this with h0 | hM
      · exact absurd h0 hd0
      · exact hM
    · intro hdM
      have : cellId mm .edge d = 0 ∨ cellId mm .edge d ∈ M := by
        refine reach_closed (S := fun z => z = 0 ∨ z ∈ M) ?_ (Or.inr hdM) hr
        intro y hy v hv
        rcases hy with rfl | hy
        · exact Or.inl (g2_null hw .edge trivial v hv)
        · exact hc y hy v hv
      rcases this with h0 | hM
      · exact absurd h0 c0
      · exact hM
  have frame : ∀ d, d ≠ 0 → d < m.n → d ∉ M → cellId m' .edge d = cellId m .edge d := fun d hd0 hd hdM =>
    (cellId_frame h h' hn (pol := .edge) trivial M
      (by intro y hy; simp only [g2]; rw [hfr y hy]) hcl hcl' hd0 hd hdM).2
  refine length_of_parts (M := M) (nodup m) (nodup m') hS hS' ?_ ?_ ?_ ?_ ?_
  · intro x hx
    rw [C03_iterEdges2_mem h' x, C03_iterEdges2_mem h x]
    constructor
    · rintro ⟨d, hd0, hd, hdu, rfl⟩
      rw [hn] at hd
      have hdM : d ∉ M := fun hh => hx ((idM m' h' hcl' d hd0 (by rw [hn]; exact hd)).2 hh)
      exact ⟨d, hd0, hd, by rw [← hu d hdM]; exact hdu, (frame d hd0 hd hdM).symm⟩
    · rintro ⟨d, hd0, hd, hdu, rfl⟩
      have hdM : d ∉ M := fun hh => hx ((idM m h hcl d hd0 hd).2 hh)
      exact ⟨d, hd0, by rw [hn]; exact hd, by rw [hu d hdM]; exact hdu, frame d hd0 hd hdM⟩
  · intro x hx
    rw [C03_iterEdges2_mem h x, hin]
    constructor
    · rintro ⟨d, hd0, hd, hdu, rfl⟩
      exact ⟨d, (idM m h hcl d hd0 hd).1 hx, hd0, hd, hdu, rfl⟩
    · rintro ⟨d, _, hd0, hd, hdu, rfl⟩
      exact ⟨d, hd0, hd, hdu, rfl⟩
  · intro x hx
    rw [C03_iterEdges2_mem h' x, hin']
    constructor
    · rintro ⟨d, hd0, hd, hdu, rfl⟩
      exact ⟨d, (idM m' h' hcl' d hd0 hd).1 hx, hd0, by rw [← hn]; exact hd, hdu, rfl⟩
    · rintro ⟨d, _, hd0, hd, hdu, rfl⟩
      exact ⟨d, hd0, by rw [hn]; exact hd, hdu, rfl⟩
  · intro x hx
    obtain ⟨d, hdM, hd0, hd, _, rfl⟩ := (hin x).1 hx
    exact (idM m h hcl d hd0 hd).2 hdM
  · intro x hx
    obtain ⟨d, hdM, hd0, hd, _, rfl⟩ := (hin' x).1 hx
    exact (idM m' h' hcl' d hd0 (by rw [hn]; exact hd)).2 hdM

/-- the three darts of a closed β1-triangle have the same face identifier, the smallest of the three -/
theorem faceIds_triangle {m : Map Val} (h : WF 3 m) {x y z : Nat} (hx0 : x ≠ 0) (hx : x < m.n) (hy0 : y ≠ 0) (hz0 : z ≠ 0)
    (h1 : m.β 1 x = y) (h2 : m.β 1 y = z) (h3 : m.β 1 z = x) :
    cellId m .face x = min x (min y z) ∧ cellId m .face y = min x (min y z) ∧ cellId m .face z = min x (min y z) := by
  have hy : y < m.n := by rw [← h1]; exact h.range 1 (by omega) x hx
  have hz : z < m.n := by rw [← h2]; exact h.range 1 (by omega) y hy
  refine ⟨faceId_triangle h hx0 hx hy0 hz0 h1 h2 h3, ?_, ?_⟩
  · rw [faceId_triangle h hy0 hy hz0 hx0 h2 h3 h1]; omega
  · rw [faceId_triangle h hz0 hz hx0 hy0 h3 h1 h2]; omega

/-- a free in-use dart is a face of its own -/
theorem faceId_spare {m : Map Val} (h : WF 3 m) {x : Nat} (sx : Spare m x) : cellId m .face x = x := by
  obtain ⟨_, hin, _⟩ := cell_of_list h (pol := .face) trivial sx.1.1 sx.1.2.1 [x] (by simp [sx.1.1])
    (by intro y hy; simp at hy; subst hy; exact .refl _) (by simp)
    (by intro y hy v hv; simp at hy; subst hy; simp [g2, sx.β 1 (by omega), sx.β 0 (by omega)] at hv; exact Or.inl hv)
  simpa using hin

theorem min3_ne {x y z u v w : Nat} (h1 : x ≠ u) (h2 : x ≠ v) (h3 : x ≠ w) (h4 : y ≠ u) (h5 : y ≠ v) (h6 : y ≠ w)
    (h7 : z ≠ u) (h8 : z ≠ v) (h9 : z ≠ w) : min x (min y z) ≠ min u (min v w) := by omega

theorem min3_ne1 {x y z u : Nat} (h1 : x ≠ u) (h2 : y ≠ u) (h3 : z ≠ u) : min x (min y z) ≠ u := by omega

theorem nodup_pair {a b : Nat} (h : a ≠ b) : [a, b].Nodup := by simp [h]

/-- **C15 (1), faces, swap**: `swap_edge` keeps the number of faces (`iter_faces` has the same length) -/
theorem C15_swap_face_count (cfg : Cfg Val) (m m' : Map Val) (e : Nat) (hwf : WF 3 m) (he : C01.InUse m e)
    (h : run (swapEdge cfg m.n e) m = (.ok (), m'))
    (hb : m.β 0 e ≠ 0) (hd : m.β 0 (m.β 2 e) ≠ 0)
    (hnd : [e, m.β 2 e, m.β 1 e, m.β 0 e, m.β 1 (m.β 2 e), m.β 0 (m.β 2 e)].Nodup) :
    (iterFaces2 m').length = (iterFaces2 m).length := by
  have hn := he.2.1
  obtain ⟨⟨p1, p2, p3⟩, ⟨q1, q2, q3⟩, ⟨r1, r2, r3⟩, ⟨t1, t2, t3⟩, b2, fr, hn', hu⟩ :=
    C15_swap_topology cfg m m' e hwf hn h hb hd hnd
  -- the guards hold (the call succeeded)
  have g := h
  rw [C15_swap_guards cfg m.n e m (fun i d hi hd => (hwf.toSized.okβ i d).2 ⟨hi, hd⟩)
    (fun i d hi hd => hwf.range i hi d hd) hn] at g
  simp only [he.1, if_false] at g
  have r0 : m.β 2 e ≠ 0 := by intro hh; simp [hh] at g
  simp only [r0, if_false] at g
  have gg : ¬ (m.β 1 (m.β 1 e) ≠ m.β 0 e ∨ m.β 1 (m.β 1 (m.β 2 e)) ≠ m.β 0 (m.β 2 e)) := by
    intro hh; simp [hh] at g
  have gl : m.β 1 (m.β 1 e) = m.β 0 e := by
    by_cases hh : m.β 1 (m.β 1 e) = m.β 0 e
    · exact hh
    · exact absurd (Or.inl hh) gg
  have gr : m.β 1 (m.β 1 (m.β 2 e)) = m.β 0 (m.β 2 e) := by
    by_cases hh : m.β 1 (m.β 1 (m.β 2 e)) = m.β 0 (m.β 2 e)
    · exact hh
    · exact absurd (Or.inr hh) gg
  have hr : m.β 2 e < m.n := hwf.range 2 (by omega) e hn
  have a0 : m.β 1 e ≠ 0 := fun hh => hb (by rw [← gl, hh]; exact hwf.null 1 (by omega))
  have c0 : m.β 1 (m.β 2 e) ≠ 0 := fun hh => hd (by rw [← gr, hh]; exact hwf.null 1 (by omega))
  have ha : m.β 1 e < m.n := hwf.range 1 (by omega) e hn
  have hc : m.β 1 (m.β 2 e) < m.n := hwf.range 1 (by omega) _ hr
  have hbn : m.β 0 e < m.n := hwf.range 0 (by omega) e hn
  have hdn : m.β 0 (m.β 2 e) < m.n := hwf.range 0 (by omega) _ hr
  have Lr := live_image hwf (by omega : 2 < 3) hn r0
  have La := live_image hwf (by omega : 1 < 3) hn a0
  have Lb := live_image hwf (by omega : 0 < 3) hn hb
  have Lc := live_image hwf (by omega : 1 < 3) hr c0
  have Ld := live_image hwf (by omega : 0 < 3) hr hd
  have hw' : WF 3 m' := wf_of_run_ok h (C15_swap_preserves_WF cfg m e hwf he ⟨a0, hb⟩ (fun _ => ⟨c0, hd⟩))
  have p3' := hwf.inv10 e hn hb
  have q3' := hwf.inv10 _ hr hd
  have i1 := hwf.inv01 e hn a0
  have i4 := hwf.inv01 _ hr c0
  have i2 : m.β 0 (m.β 0 e) = m.β 1 e := by
    have := hwf.inv01 _ ha (by rw [gl]; exact hb); rw [gl] at this; exact this
  have i5 : m.β 0 (m.β 0 (m.β 2 e)) = m.β 1 (m.β 2 e) := by
    have := hwf.inv01 _ hc (by rw [gr]; exact hd); rw [gr] at this; exact this
  -- identifiers before and after
  obtain ⟨o1, o2, o3⟩ := faceIds_triangle hwf he.1 hn a0 hb rfl gl p3'
  obtain ⟨o4, o5, o6⟩ := faceIds_triangle hwf r0 hr c0 hd rfl gr q3'
  obtain ⟨n1, n2, n3⟩ := faceIds_triangle hw' he.1 (by rw [hn']; exact hn) hd a0 p1 p2 p3
  obtain ⟨n4, n5, n6⟩ := faceIds_triangle hw' r0 (by rw [hn']; exact hr) hb c0 q1 q2 q3
  have hu' : ∀ d, m'.unused d = m.unused d := fun d => by unfold Map.unused; rw [hu]
  have hnd' := hnd
  simp only [List.nodup_cons, List.mem_cons, List.mem_nil_iff, not_or, or_false, List.nodup_nil, and_true] at hnd'
  obtain ⟨⟨d1, d2, d3, d4, d5⟩, ⟨d6, d7, d8, d9⟩, ⟨d10, d11, d12⟩, ⟨d13, d14⟩, d15, _⟩ := hnd'
  have cnt := iterFaces_count hwf hw' hn' [e, m.β 2 e, m.β 1 e, m.β 0 e, m.β 1 (m.β 2 e), m.β 0 (m.β 2 e)]
    [min e (min (m.β 1 e) (m.β 0 e)), min (m.β 2 e) (min (m.β 1 (m.β 2 e)) (m.β 0 (m.β 2 e)))]
    [min e (min (m.β 0 (m.β 2 e)) (m.β 1 e)), min (m.β 2 e) (min (m.β 0 e) (m.β 1 (m.β 2 e)))]
    (fun d _ => hu' d) (fun y hy => ⟨fr 1 y hy, fr 0 y hy⟩) ?_ ?_ ?_ ?_ ?_ ?_
  · simpa using cnt
  · intro y hy v hv
    simp only [List.mem_cons, List.mem_nil_iff, or_false] at hy
    simp only [g2, List.mem_cons, List.mem_nil_iff, or_false] at hv
    rcases hy with rfl | rfl | rfl | rfl | rfl | rfl <;> rcases hv with rfl | rfl <;>
      simp [gl, gr, p3', q3', i1, i2, i4, i5]
  · intro y hy v hv
    simp only [List.mem_cons, List.mem_nil_iff, or_false] at hy
    simp only [g2, List.mem_cons, List.mem_nil_iff, or_false] at hv
    rcases hy with rfl | rfl | rfl | rfl | rfl | rfl <;> rcases hv with rfl | rfl <;>
      simp [p1, p2, p3, q1, q2, q3, r1, r2, r3, t1, t2, t3]
  · exact nodup_pair (min3_ne d1 d4 d5 (Ne.symm d6) d11 d12 (Ne.symm d7) d13 d14)
  · exact nodup_pair (min3_ne d1 d3 d4 (Ne.symm d9) (Ne.symm d14) (Ne.symm d15) (Ne.symm d6) d10 d11)
  · intro x
    simp only [List.mem_cons, List.mem_nil_iff, or_false]
    constructor
    · rintro (rfl | rfl)
      · exact ⟨e, Or.inl rfl, he.1, hn, he.2.2, o1⟩
      · exact ⟨m.β 2 e, Or.inr (Or.inl rfl), r0, hr, Lr.2.2, o4⟩
    · rintro ⟨d, hdM, _, _, _, rfl⟩
      rcases hdM with rfl | rfl | rfl | rfl | rfl | rfl
      · exact Or.inl o1
      · exact Or.inr o4
      · exact Or.inl o2
      · exact Or.inl o3
      · exact Or.inr o5
      · exact Or.inr o6
  · intro x
    simp only [List.mem_cons, List.mem_nil_iff, or_false]
    constructor
    · rintro (rfl | rfl)
      · exact ⟨e, Or.inl rfl, he.1, hn, by rw [hu']; exact he.2.2, n1⟩
      · exact ⟨m.β 2 e, Or.inr (Or.inl rfl), r0, hr, by rw [hu']; exact Lr.2.2, n4⟩
    · rintro ⟨d, hdM, _, _, _, rfl⟩
      rcases hdM with rfl | rfl | rfl | rfl | rfl | rfl
      · exact Or.inl n1
      · exact Or.inr n4
      · exact Or.inl n3
      · exact Or.inr n5
      · exact Or.inr n6
      · exact Or.inl n2

/-- **C15 (1), faces, outer cut**: before the call `iter_faces` counts the triangle and the three spare darts (free darts
    are faces of their own), after it the two new triangles: `#faces' + 2 = #faces`, i.e. the MESH gains one face -/
theorem C15_cutOuter_face_count (cfg : Cfg Val) (m m' : Map Val) (e nd1 nd2 nd3 : Nat) (hwf : WF 3 m) (he : C01.InUse m e)
    (h : run (cutOuterEdge cfg m.n e nd1 nd2 nd3) m = (.ok (), m'))
    (htri : m.β 1 (m.β 1 e) = m.β 0 e) (hb : m.β 0 e ≠ 0)
    (s1 : Spare m nd1) (s2 : Spare m nd2) (s3 : Spare m nd3)
    (hnd : [e, m.β 1 e, m.β 0 e, nd1, nd2, nd3].Nodup) :
    (iterFaces2 m').length + 2 = (iterFaces2 m).length := by
  have hn := he.2.1
  have a0 : m.β 1 e ≠ 0 := fun hh => hb (by rw [← htri, hh]; exact hwf.null 1 (by omega))
  have hnd' := hnd
  simp only [List.nodup_cons, List.mem_cons, List.mem_nil_iff, not_or, or_false, List.nodup_nil, and_true] at hnd'
  obtain ⟨⟨d1, d2, d3, d4, d5⟩, ⟨d6, d7, d8, d9⟩, ⟨d10, d11, d12⟩, ⟨d13, d14⟩, d15, _⟩ := hnd'
  obtain ⟨hw', _⟩ := C15_cutOuter_cells cfg m m' e nd1 nd2 nd3 hwf he h htri hb s1 s2 s3 hnd
  obtain ⟨⟨p1, p2, p3⟩, ⟨q1, q2, q3⟩, ⟨r1, r2, r3⟩, ⟨t1, t2, t3⟩, _, fr, hn', hu⟩ :=
    C15_cutOuter_topology cfg m m' e nd1 nd2 nd3 hwf hn h htri hb hnd
  have ha : m.β 1 e < m.n := hwf.range 1 (by omega) e hn
  have La := live_image hwf (by omega : 1 < 3) hn a0
  have Lb := live_image hwf (by omega : 0 < 3) hn hb
  have p3' := hwf.inv10 e hn hb
  have i1 := hwf.inv01 e hn a0
  have i2 : m.β 0 (m.β 0 e) = m.β 1 e := by
    have := hwf.inv01 _ ha (by rw [htri]; exact hb); rw [htri] at this; exact this
  obtain ⟨o1, o2, o3⟩ := faceIds_triangle hwf he.1 hn a0 hb rfl htri p3'
  obtain ⟨n1, n2, n3⟩ := faceIds_triangle hw' he.1 (by rw [hn']; exact hn) s1.1.1 hb p1 p2 p3
  obtain ⟨n4, n5, n6⟩ := faceIds_triangle hw' s3.1.1 (by rw [hn']; exact s3.1.2.1) a0 s2.1.1 q1 q2 q3
  have hu' : ∀ d, m'.unused d = m.unused d := fun d => by unfold Map.unused; rw [hu]
  have cnt := iterFaces_count hwf hw' hn' [e, m.β 1 e, m.β 0 e, nd1, nd2, nd3]
    [min e (min (m.β 1 e) (m.β 0 e)), nd1, nd2, nd3]
    [min e (min nd1 (m.β 0 e)), min nd3 (min (m.β 1 e) nd2)]
    (fun d _ => hu' d) (fun y hy => ⟨fr 1 y hy, fr 0 y hy⟩) ?_ ?_ ?_ ?_ ?_ ?_
  · simp at cnt; omega
  · intro y hy v hv
    simp only [List.mem_cons, List.mem_nil_iff, or_false] at hy
    simp only [g2, List.mem_cons, List.mem_nil_iff, or_false] at hv
    rcases hy with rfl | rfl | rfl | rfl | rfl | rfl <;> rcases hv with rfl | rfl <;>
      simp [htri, i1, i2, p3', s1.β 1 (by omega), s1.β 0 (by omega), s2.β 1 (by omega), s2.β 0 (by omega),
        s3.β 1 (by omega), s3.β 0 (by omega)]
  · intro y hy v hv
    simp only [List.mem_cons, List.mem_nil_iff, or_false] at hy
    simp only [g2, List.mem_cons, List.mem_nil_iff, or_false] at hv
    rcases hy with rfl | rfl | rfl | rfl | rfl | rfl <;> rcases hv with rfl | rfl <;>
      simp [p1, p2, p3, q1, q2, q3, r1, r2, r3, t1, t2, t3]
  · have k1 := min3_ne1 d3 d7 d10
    have k2 := min3_ne1 d4 d8 d11
    have k3 := min3_ne1 d5 d9 d12
    simp [k1, k2, k3, d13, d14, d15]
  · exact nodup_pair (min3_ne d5 d1 d4 d14 (Ne.symm d7) d13 d12 (Ne.symm d6) d11)
  · intro x
    simp only [List.mem_cons, List.mem_nil_iff, or_false]
    constructor
    · rintro (rfl | rfl | rfl | rfl)
      · exact ⟨e, Or.inl rfl, he.1, hn, he.2.2, o1⟩
      · exact ⟨_, by simp, s1.1.1, s1.1.2.1, s1.1.2.2, faceId_spare hwf s1⟩
      · exact ⟨_, by simp, s2.1.1, s2.1.2.1, s2.1.2.2, faceId_spare hwf s2⟩
      · exact ⟨_, by simp, s3.1.1, s3.1.2.1, s3.1.2.2, faceId_spare hwf s3⟩
    · rintro ⟨d, hdM, _, _, _, rfl⟩
      rcases hdM with rfl | rfl | rfl | rfl | rfl | rfl
      · exact Or.inl o1
      · exact Or.inl o2
      · exact Or.inl o3
      · exact Or.inr (Or.inl (faceId_spare hwf s1))
      · exact Or.inr (Or.inr (Or.inl (faceId_spare hwf s2)))
      · exact Or.inr (Or.inr (Or.inr (faceId_spare hwf s3)))
  · intro x
    simp only [List.mem_cons, List.mem_nil_iff, or_false]
    constructor
    · rintro (rfl | rfl)
      · exact ⟨e, Or.inl rfl, he.1, hn, by rw [hu']; exact he.2.2, n1⟩
      · exact ⟨nd3, by simp, s3.1.1, s3.1.2.1, by rw [hu']; exact s3.1.2.2, n4⟩
    · rintro ⟨d, hdM, _, _, _, rfl⟩
      rcases hdM with rfl | rfl | rfl | rfl | rfl | rfl
      · exact Or.inl n1
      · exact Or.inr n5
      · exact Or.inl n3
      · exact Or.inl n2
      · exact Or.inr n6
      · exact Or.inr n4

/-- **C15 (1), faces, interior midpoint collapse**: the two triangles disappear, `#faces' + 2 = #faces` -/
theorem C15_collapse_midpoint_face_count (cfg : Cfg Val) (m m' : Map Val) (e v : Nat) (hwf : WF 3 m) (he : C01.InUse m e)
    (hreg : regd cfg stVA = false)
    (h : run (collapseEdge cfg m.n e) m = (.ok v, m'))
    (hr0 : m.β 2 e ≠ 0) (hb : m.β 0 e ≠ 0) (hd : m.β 0 (m.β 2 e) ≠ 0)
    (hx : m.β 2 (m.β 1 e) ≠ 0 ∧ m.β 2 (m.β 0 e) ≠ 0 ∧ m.β 2 (m.β 1 (m.β 2 e)) ≠ 0 ∧ m.β 2 (m.β 0 (m.β 2 e)) ≠ 0)
    (hnd : [e, m.β 2 e, m.β 1 e, m.β 0 e, m.β 1 (m.β 2 e), m.β 0 (m.β 2 e), m.β 2 (m.β 1 e), m.β 2 (m.β 0 e),
      m.β 2 (m.β 1 (m.β 2 e)), m.β 2 (m.β 0 (m.β 2 e))].Nodup) :
    (iterFaces2 m').length + 2 = (iterFaces2 m).length := by
  have hn := he.2.1
  obtain ⟨hw', fl, _, _, _, f01, hn', hu⟩ := C15_collapse_midpoint_interior cfg m m' e v hwf he hreg h hr0 hb hd hx hnd
  -- the guards hold
  have g := h
  rw [C15_collapse_guards cfg m.n e m (fun i d hi hd => (hwf.toSized.okβ i d).2 ⟨hi, hd⟩)
    (fun i d hi hd => hwf.range i hi d hd) hn] at g
  simp only [he.1, if_false] at g
  have gl : m.β 1 (m.β 1 e) = m.β 0 e := by
    by_cases hh : m.β 1 (m.β 1 e) = m.β 0 e
    · exact hh
    · simp [hh] at g
  simp only [gl, ne_eq, not_true_eq_false, if_false] at g
  have gr : m.β 1 (m.β 1 (m.β 2 e)) = m.β 0 (m.β 2 e) := by
    by_cases hh : m.β 1 (m.β 1 (m.β 2 e)) = m.β 0 (m.β 2 e)
    · exact hh
    · simp [hh, hr0] at g
  have hr : m.β 2 e < m.n := hwf.range 2 (by omega) e hn
  have a0 : m.β 1 e ≠ 0 := fun hh => hb (by rw [← gl, hh]; exact hwf.null 1 (by omega))
  have c0 : m.β 1 (m.β 2 e) ≠ 0 := fun hh => hd (by rw [← gr, hh]; exact hwf.null 1 (by omega))
  have ha : m.β 1 e < m.n := hwf.range 1 (by omega) e hn
  have hc : m.β 1 (m.β 2 e) < m.n := hwf.range 1 (by omega) _ hr
  have Lr := live_image hwf (by omega : 2 < 3) hn hr0
  have p3' := hwf.inv10 e hn hb
  have q3' := hwf.inv10 _ hr hd
  have i1 := hwf.inv01 e hn a0
  have i4 := hwf.inv01 _ hr c0
  have i2 : m.β 0 (m.β 0 e) = m.β 1 e := by
    have := hwf.inv01 _ ha (by rw [gl]; exact hb); rw [gl] at this; exact this
  have i5 : m.β 0 (m.β 0 (m.β 2 e)) = m.β 1 (m.β 2 e) := by
    have := hwf.inv01 _ hc (by rw [gr]; exact hd); rw [gr] at this; exact this
  obtain ⟨o1, o2, o3⟩ := faceIds_triangle hwf he.1 hn a0 hb rfl gl p3'
  obtain ⟨o4, o5, o6⟩ := faceIds_triangle hwf hr0 hr c0 hd rfl gr q3'
  have hnd6 : [e, m.β 2 e, m.β 1 e, m.β 0 e, m.β 1 (m.β 2 e), m.β 0 (m.β 2 e)].Nodup := by
    have := hnd
    simp only [List.nodup_cons, List.mem_cons, List.mem_nil_iff, not_or, or_false, List.nodup_nil, and_true] at this ⊢
    obtain ⟨⟨a1, a2, a3, a4, a5, _⟩, ⟨b1, b2, b3, b4, _⟩, ⟨c1, c2, c3, _⟩, ⟨e1, e2, _⟩, ⟨f1, _⟩, _⟩ := this
    exact ⟨⟨a1, a2, a3, a4, a5⟩, ⟨b1, b2, b3, b4⟩, ⟨c1, c2, c3⟩, ⟨e1, e2⟩, f1, by simp⟩
  have hnd' := hnd6
  simp only [List.nodup_cons, List.mem_cons, List.mem_nil_iff, not_or, or_false, List.nodup_nil, and_true] at hnd'
  obtain ⟨⟨d1, d2, d3, d4, d5⟩, ⟨d6, d7, d8, d9⟩, ⟨d10, d11, d12⟩, ⟨d13, d14⟩, d15, _⟩ := hnd'
  have cnt := iterFaces_count hwf hw' hn' [e, m.β 2 e, m.β 1 e, m.β 0 e, m.β 1 (m.β 2 e), m.β 0 (m.β 2 e)]
    [min e (min (m.β 1 e) (m.β 0 e)), min (m.β 2 e) (min (m.β 1 (m.β 2 e)) (m.β 0 (m.β 2 e)))] []
    hu (fun y hy => ⟨(f01 y hy).2, (f01 y hy).1⟩) ?_ ?_ ?_ ?_ ?_ ?_
  · simpa using cnt
  · intro y hy v hv
    simp only [List.mem_cons, List.mem_nil_iff, or_false] at hy
    simp only [g2, List.mem_cons, List.mem_nil_iff, or_false] at hv
    rcases hy with rfl | rfl | rfl | rfl | rfl | rfl <;> rcases hv with rfl | rfl <;>
      simp [gl, gr, p3', q3', i1, i2, i4, i5]
  · intro y hy v hv
    simp only [g2, List.mem_cons, List.mem_nil_iff, or_false] at hv
    have z := (fl y hy).2
    rcases hv with rfl | rfl
    · exact Or.inl (z 1 (by omega))
    · exact Or.inl (z 0 (by omega))
  · exact nodup_pair (min3_ne d1 d4 d5 (Ne.symm d6) d11 d12 (Ne.symm d7) d13 d14)
  · simp
  · intro x
    simp only [List.mem_cons, List.mem_nil_iff, or_false]
    constructor
    · rintro (rfl | rfl)
      · exact ⟨e, Or.inl rfl, he.1, hn, he.2.2, o1⟩
      · exact ⟨m.β 2 e, Or.inr (Or.inl rfl), hr0, hr, Lr.2.2, o4⟩
    · rintro ⟨d, hdM, _, _, _, rfl⟩
      rcases hdM with rfl | rfl | rfl | rfl | rfl | rfl
      · exact Or.inl o1
      · exact Or.inr o4
      · exact Or.inl o2
      · exact Or.inl o3
      · exact Or.inr o5
      · exact Or.inr o6
  · intro x
    simp only [List.not_mem_nil, false_iff, not_exists, not_and]
    intro d hdM _ _ hdu
    have := (fl d hdM).1
    rw [this] at hdu
    exact absurd hdu (by simp)

/-- **C15 (1), faces, inner cut**: before the call `iter_faces` counts the two triangles and the six spare darts, after it
    the four new triangles: `#faces' + 4 = #faces`, i.e. the MESH gains two faces -/
theorem C15_cutInner_face_count (cfg : Cfg Val) (m m' : Map Val) (e n1 n2 n3 n4 n5 n6 : Nat) (hwf : WF 3 m)
    (he : C01.InUse m e)
    (h : run (cutInnerEdge cfg m.n e n1 n2 n3 n4 n5 n6) m = (.ok (), m'))
    (hr0 : m.β 2 e ≠ 0)
    (htl : m.β 1 (m.β 1 e) = m.β 0 e) (hb : m.β 0 e ≠ 0)
    (htr : m.β 1 (m.β 1 (m.β 2 e)) = m.β 0 (m.β 2 e)) (hd : m.β 0 (m.β 2 e) ≠ 0)
    (hs : ∀ x, x ∈ [n1, n2, n3, n4, n5, n6] → Spare m x)
    (hnd : [e, m.β 2 e, m.β 1 e, m.β 0 e, m.β 1 (m.β 2 e), m.β 0 (m.β 2 e), n1, n2, n3, n4, n5, n6].Nodup) :
    (iterFaces2 m').length + 4 = (iterFaces2 m).length := by
  have hn := he.2.1
  have hr : m.β 2 e < m.n := hwf.range 2 (by omega) e hn
  have a0 : m.β 1 e ≠ 0 := fun hh => hb (by rw [← htl, hh]; exact hwf.null 1 (by omega))
  have c0 : m.β 1 (m.β 2 e) ≠ 0 := fun hh => hd (by rw [← htr, hh]; exact hwf.null 1 (by omega))
  have ha : m.β 1 e < m.n := hwf.range 1 (by omega) e hn
  have hc : m.β 1 (m.β 2 e) < m.n := hwf.range 1 (by omega) _ hr
  have Lr := live_image hwf (by omega : 2 < 3) hn hr0
  have hnd' := hnd
  simp only [List.nodup_cons, List.mem_cons, List.mem_nil_iff, not_or, or_false, List.nodup_nil, and_true] at hnd'
  obtain ⟨⟨q1, q2, q3, q4, q5, q6, q7, q8, q9, q10, q11⟩, ⟨q12, q13, q14, q15, q16, q17, q18, q19, q20, q21⟩, ⟨q22, q23, q24, q25, q26, q27, q28, q29, q30⟩, ⟨q31, q32, q33, q34, q35, q36, q37, q38⟩, ⟨q39, q40, q41, q42, q43, q44, q45⟩, ⟨q46, q47, q48, q49, q50, q51⟩, ⟨q52, q53, q54, q55, q56⟩, ⟨q57, q58, q59, q60⟩, ⟨q61, q62, q63⟩, ⟨q64, q65⟩, q66, _⟩ := hnd'
  have s1 := hs n1 (by simp); have s2 := hs n2 (by simp); have s3 := hs n3 (by simp)
  have s4 := hs n4 (by simp); have s5 := hs n5 (by simp); have s6 := hs n6 (by simp)
  have hw' : WF 3 m' := wf_of_run_ok h
    (C15_cutInner_preserves_WF cfg m e n1 n2 n3 n4 n5 n6 hwf he hr0 ⟨a0, hb⟩ ⟨c0, hd⟩ hs q52 q64)
  obtain ⟨⟨⟨p1, p2, p3⟩, ⟨p4, p5, p6⟩, ⟨p7, p8, p9⟩, ⟨p10, p11, p12⟩⟩,
    ⟨⟨r1, r2, r3⟩, ⟨r4, r5, r6⟩, ⟨r7, r8, r9⟩, ⟨r10, r11, r12⟩⟩, _, fr, hn', hu⟩ :=
    C15_cutInner_topology cfg m m' e n1 n2 n3 n4 n5 n6 hwf hn h hr0 htl hb htr hd hnd
  have p3' := hwf.inv10 e hn hb
  have q3' := hwf.inv10 _ hr hd
  have i1 := hwf.inv01 e hn a0
  have i4 := hwf.inv01 _ hr c0
  have i2 : m.β 0 (m.β 0 e) = m.β 1 e := by
    have := hwf.inv01 _ ha (by rw [htl]; exact hb); rw [htl] at this; exact this
  have i5 : m.β 0 (m.β 0 (m.β 2 e)) = m.β 1 (m.β 2 e) := by
    have := hwf.inv01 _ hc (by rw [htr]; exact hd); rw [htr] at this; exact this
  obtain ⟨o1, o2, o3⟩ := faceIds_triangle hwf he.1 hn a0 hb rfl htl p3'
  obtain ⟨o4, o5, o6⟩ := faceIds_triangle hwf hr0 hr c0 hd rfl htr q3'
  obtain ⟨w1, w2, w3⟩ := faceIds_triangle hw' he.1 (by rw [hn']; exact hn) s1.1.1 hb p1 p2 p3
  obtain ⟨w4, w5, w6⟩ := faceIds_triangle hw' s3.1.1 (by rw [hn']; exact s3.1.2.1) a0 s2.1.1 p4 p5 p6
  obtain ⟨w7, w8, w9⟩ := faceIds_triangle hw' hr0 (by rw [hn']; exact hr) s4.1.1 hd p7 p8 p9
  obtain ⟨w10, w11, w12⟩ := faceIds_triangle hw' s6.1.1 (by rw [hn']; exact s6.1.2.1) c0 s5.1.1 p10 p11 p12
  have hu' : ∀ d, m'.unused d = m.unused d := fun d => by unfold Map.unused; rw [hu]
  have cnt := iterFaces_count hwf hw' hn' [e, m.β 2 e, m.β 1 e, m.β 0 e, m.β 1 (m.β 2 e), m.β 0 (m.β 2 e), n1, n2, n3, n4, n5, n6]
    [min (e) (min (m.β 1 e) (m.β 0 e)), min (m.β 2 e) (min (m.β 1 (m.β 2 e)) (m.β 0 (m.β 2 e))), n1, n2, n3, n4, n5, n6]
    [min (e) (min (n1) (m.β 0 e)), min (n3) (min (m.β 1 e) (n2)), min (m.β 2 e) (min (n4) (m.β 0 (m.β 2 e))), min (n6) (min (m.β 1 (m.β 2 e)) (n5))]
    (fun d _ => hu' d) (fun y hy => ⟨fr 1 y hy, fr 0 y hy⟩) ?_ ?_ ?_ ?_ ?_ ?_
  · simp at cnt; omega
  · intro y hy v hv
    simp only [List.mem_cons, List.mem_nil_iff, or_false] at hy
    simp only [g2, List.mem_cons, List.mem_nil_iff, or_false] at hv
    rcases hy with rfl | rfl | rfl | rfl | rfl | rfl | rfl | rfl | rfl | rfl | rfl | rfl <;> rcases hv with rfl | rfl <;>
      simp [htl, htr, p3', q3', i1, i2, i4, i5, s1.β 1 (by omega), s1.β 0 (by omega), s2.β 1 (by omega), s2.β 0 (by omega),
        s3.β 1 (by omega), s3.β 0 (by omega), s4.β 1 (by omega), s4.β 0 (by omega), s5.β 1 (by omega), s5.β 0 (by omega),
        s6.β 1 (by omega), s6.β 0 (by omega)]
  · intro y hy v hv
    simp only [List.mem_cons, List.mem_nil_iff, or_false] at hy
    simp only [g2, List.mem_cons, List.mem_nil_iff, or_false] at hv
    rcases hy with rfl | rfl | rfl | rfl | rfl | rfl | rfl | rfl | rfl | rfl | rfl | rfl <;> rcases hv with rfl | rfl <;>
      simp [p1, p2, p3, p4, p5, p6, p7, p8, p9, p10, p11, p12, r1, r2, r3, r4, r5, r6, r7, r8, r9, r10, r11, r12]
  · have a1 := min3_ne q1 q4 q5 (Ne.symm q12) q23 q24 (Ne.symm q13) q31 q32
    have a2 := min3_ne1 q6 q25 q33
    have a3 := min3_ne1 q16 q40 q46
    have a4 := min3_ne1 q7 q26 q34
    have a5 := min3_ne1 q17 q41 q47
    have a6 := min3_ne1 q8 q27 q35
    have a7 := min3_ne1 q18 q42 q48
    have a8 := min3_ne1 q9 q28 q36
    have a9 := min3_ne1 q19 q43 q49
    have a10 := min3_ne1 q10 q29 q37
    have a11 := min3_ne1 q20 q44 q50
    have a12 := min3_ne1 q11 q30 q38
    have a13 := min3_ne1 q21 q45 q51
    simp [a1, a2, a3, a4, a5, a6, a7, a8, a9, a10, a11, a12, a13, q52, q53, q54, q55, q56, q57, q58, q59, q60, q61, q62, q63, q64, q65, q66]
  · have b1 := min3_ne q8 q2 q7 q53 (Ne.symm q25) q52 q35 (Ne.symm q22) q34
    have b2 := min3_ne q1 q9 q5 (Ne.symm q16) q54 (Ne.symm q46) (Ne.symm q13) q36 q32
    have b3 := min3_ne q11 q4 q10 q56 (Ne.symm q40) q55 q38 q31 q37
    have b4 := min3_ne (Ne.symm q18) q61 (Ne.symm q48) (Ne.symm q12) q28 q24 (Ne.symm q17) q58 (Ne.symm q47)
    have b5 := min3_ne q63 (Ne.symm q42) q62 q30 q23 q29 q60 (Ne.symm q41) q59
    have b6 := min3_ne q21 q14 q20 q65 (Ne.symm q43) q64 q51 (Ne.symm q39) q50
    simp [b1, b2, b3, b4, b5, b6]
  · intro x
    simp only [List.mem_cons, List.mem_nil_iff, or_false]
    constructor
    · rintro (rfl | rfl | rfl | rfl | rfl | rfl | rfl | rfl)
      · exact ⟨e, by simp, he.1, hn, he.2.2, o1⟩
      · exact ⟨m.β 2 e, by simp, hr0, hr, Lr.2.2, o4⟩
      · exact ⟨_, by simp, s1.1.1, s1.1.2.1, s1.1.2.2, faceId_spare hwf s1⟩
      · exact ⟨_, by simp, s2.1.1, s2.1.2.1, s2.1.2.2, faceId_spare hwf s2⟩
      · exact ⟨_, by simp, s3.1.1, s3.1.2.1, s3.1.2.2, faceId_spare hwf s3⟩
      · exact ⟨_, by simp, s4.1.1, s4.1.2.1, s4.1.2.2, faceId_spare hwf s4⟩
      · exact ⟨_, by simp, s5.1.1, s5.1.2.1, s5.1.2.2, faceId_spare hwf s5⟩
      · exact ⟨_, by simp, s6.1.1, s6.1.2.1, s6.1.2.2, faceId_spare hwf s6⟩
    · rintro ⟨d, hdM, _, _, _, rfl⟩
      rcases hdM with rfl | rfl | rfl | rfl | rfl | rfl | rfl | rfl | rfl | rfl | rfl | rfl
      · exact Or.inl o1
      · exact Or.inr (Or.inl o4)
      · exact Or.inl o2
      · exact Or.inl o3
      · exact Or.inr (Or.inl o5)
      · exact Or.inr (Or.inl o6)
      · exact Or.inr (Or.inr (Or.inl (faceId_spare hwf s1)))
      · exact Or.inr (Or.inr (Or.inr (Or.inl (faceId_spare hwf s2))))
      · exact Or.inr (Or.inr (Or.inr (Or.inr (Or.inl (faceId_spare hwf s3)))))
      · exact Or.inr (Or.inr (Or.inr (Or.inr (Or.inr (Or.inl (faceId_spare hwf s4))))))
      · exact Or.inr (Or.inr (Or.inr (Or.inr (Or.inr (Or.inr (Or.inl (faceId_spare hwf s5)))))))
      · exact Or.inr (Or.inr (Or.inr (Or.inr (Or.inr (Or.inr (Or.inr (faceId_spare hwf s6)))))))
  · intro x
    simp only [List.mem_cons, List.mem_nil_iff, or_false]
    constructor
    · rintro (rfl | rfl | rfl | rfl)
      · exact ⟨e, by simp, he.1, hn, by rw [hu']; exact he.2.2, w1⟩
      · exact ⟨n3, by simp, s3.1.1, s3.1.2.1, by rw [hu']; exact s3.1.2.2, w4⟩
      · exact ⟨m.β 2 e, by simp, hr0, hr, by rw [hu']; exact Lr.2.2, w7⟩
      · exact ⟨n6, by simp, s6.1.1, s6.1.2.1, by rw [hu']; exact s6.1.2.2, w10⟩
    · rintro ⟨d, hdM, _, _, _, rfl⟩
      rcases hdM with rfl | rfl | rfl | rfl | rfl | rfl | rfl | rfl | rfl | rfl | rfl | rfl
      · exact Or.inl w1
      · exact Or.inr (Or.inr (Or.inl w7))
      · exact Or.inr (Or.inl w5)
      · exact Or.inl w3
      · exact Or.inr (Or.inr (Or.inr w11))
      · exact Or.inr (Or.inr (Or.inl w9))
      · exact Or.inl w2
      · exact Or.inr (Or.inl w6)
      · exact Or.inr (Or.inl w4)
      · exact Or.inr (Or.inr (Or.inl w8))
      · exact Or.inr (Or.inr (Or.inr w12))
      · exact Or.inr (Or.inr (Or.inr w10))

/-- the edge identifier is `d` or `min(β2 d, d)` -/
theorem edgeId_eq {m : Map Val} (h : WF 3 m) {d : Nat} (hd0 : d ≠ 0) (hd : d < m.n) :
    cellId m .edge d = (if m.β 2 d = 0 then d else min (m.β 2 d) d) := (C03_edgeId2_min h hd0 hd).2.2.2

/-- **C15 (1), edges, swap**: same β2, same flags: `iter_edges` has the same length -/
theorem C15_swap_edge_count (cfg : Cfg Val) (m m' : Map Val) (e : Nat) (hwf : WF 3 m) (he : C01.InUse m e)
    (h : run (swapEdge cfg m.n e) m = (.ok (), m'))
    (hl : m.β 1 e ≠ 0 ∧ m.β 0 e ≠ 0) (hr : m.β 2 e ≠ 0 → m.β 1 (m.β 2 e) ≠ 0 ∧ m.β 0 (m.β 2 e) ≠ 0)
    (hb2 : ∀ x, m'.β 2 x = m.β 2 x) (hn' : m'.n = m.n) (hu : m'.u = m.u) :
    (iterEdges2 m').length = (iterEdges2 m).length := by
  have hw' : WF 3 m' := wf_of_run_ok h (C15_swap_preserves_WF cfg m e hwf he hl hr)
  have cnt := iterEdges_count hwf hw' hn' [] [] [] (fun d _ => by unfold Map.unused; rw [hu]) (fun y _ => hb2 y)
    (by simp) (by simp) (by simp) (by simp) (by simp) (by simp)
  simpa using cnt

theorem min2_ne {x y u v : Nat} (h1 : x ≠ u) (h2 : x ≠ v) (h3 : y ≠ u) (h4 : y ≠ v) : min x y ≠ min u v := by omega
theorem min2_ne1 {x y u : Nat} (h1 : x ≠ u) (h2 : y ≠ u) : min x y ≠ u := by omega

/-- **C15 (1), edges, outer cut**: before the call `iter_edges` counts the spare darts `nd1`, `nd2` as two edges, after it
    they form one; every other edge (the two halves `e`, `nd3` of the cut edge included) is counted as before:
    `#edges' + 1 = #edges` — the MESH (three spare darts = three edges before) gains two edges -/
theorem C15_cutOuter_edge_count (cfg : Cfg Val) (m m' : Map Val) (e nd1 nd2 nd3 : Nat) (hwf : WF 3 m) (he : C01.InUse m e)
    (h : run (cutOuterEdge cfg m.n e nd1 nd2 nd3) m = (.ok (), m'))
    (htri : m.β 1 (m.β 1 e) = m.β 0 e) (hb : m.β 0 e ≠ 0)
    (s1 : Spare m nd1) (s2 : Spare m nd2) (s3 : Spare m nd3)
    (hnd : [e, m.β 1 e, m.β 0 e, nd1, nd2, nd3].Nodup) :
    (iterEdges2 m').length + 1 = (iterEdges2 m).length := by
  have hn := he.2.1
  have hnd' := hnd
  simp only [List.nodup_cons, List.mem_cons, List.mem_nil_iff, not_or, or_false, List.nodup_nil, and_true] at hnd'
  obtain ⟨⟨d1, d2, d3, d4, d5⟩, ⟨d6, d7, d8, d9⟩, ⟨d10, d11, d12⟩, ⟨d13, d14⟩, d15, _⟩ := hnd'
  obtain ⟨hw', _⟩ := C15_cutOuter_cells cfg m m' e nd1 nd2 nd3 hwf he h htri hb s1 s2 s3 hnd
  obtain ⟨_, _, _, _, ⟨u1, u2, u3⟩, _, hn', hu⟩ := C15_cutOuter_topology cfg m m' e nd1 nd2 nd3 hwf hn h htri hb hnd
  have hu' : ∀ d, m'.unused d = m.unused d := fun d => by unfold Map.unused; rw [hu]
  have n1' : nd1 < m'.n := by rw [hn']; exact s1.1.2.1
  have n2' : nd2 < m'.n := by rw [hn']; exact s2.1.2.1
  have cnt := iterEdges_count hwf hw' hn' [nd1, nd2] [nd1, nd2] [min nd1 nd2] (fun d _ => hu' d)
    (fun y hy => by simp only [List.mem_cons, List.mem_nil_iff, not_or, or_false] at hy; exact u3 y hy.1 hy.2)
    ?_ ?_ (nodup_pair d13) (by simp) ?_ ?_
  · simp at cnt; omega
  · intro y hy v hv
    simp only [List.mem_cons, List.mem_nil_iff, or_false] at hy
    simp only [g2, List.mem_cons, List.mem_nil_iff, or_false] at hv
    rcases hy with rfl | rfl <;> subst hv <;> simp [s1.β 2 (by omega), s2.β 2 (by omega)]
  · intro y hy v hv
    simp only [List.mem_cons, List.mem_nil_iff, or_false] at hy
    simp only [g2, List.mem_cons, List.mem_nil_iff, or_false] at hv
    rcases hy with rfl | rfl <;> subst hv <;> simp [u1, u2]
  · intro x
    simp only [List.mem_cons, List.mem_nil_iff, or_false]
    constructor
    · rintro (rfl | rfl)
      · exact ⟨_, Or.inl rfl, s1.1.1, s1.1.2.1, s1.1.2.2, by rw [edgeId_eq hwf s1.1.1 s1.1.2.1, s1.β 2 (by omega)]; simp⟩
      · exact ⟨_, Or.inr rfl, s2.1.1, s2.1.2.1, s2.1.2.2, by rw [edgeId_eq hwf s2.1.1 s2.1.2.1, s2.β 2 (by omega)]; simp⟩
    · rintro ⟨d, hdM, _, _, _, rfl⟩
      rcases hdM with rfl | rfl
      · exact Or.inl (by rw [edgeId_eq hwf s1.1.1 s1.1.2.1, s1.β 2 (by omega)]; simp)
      · exact Or.inr (by rw [edgeId_eq hwf s2.1.1 s2.1.2.1, s2.β 2 (by omega)]; simp)
  · intro x
    simp only [List.mem_cons, List.mem_nil_iff, or_false]
    constructor
    · rintro rfl
      refine ⟨nd1, Or.inl rfl, s1.1.1, s1.1.2.1, by rw [hu']; exact s1.1.2.2, ?_⟩
      rw [edgeId_eq hw' s1.1.1 n1', u1]; simp [s2.1.1]; omega
    · rintro ⟨d, hdM, _, _, _, rfl⟩
      rcases hdM with rfl | rfl
      · rw [edgeId_eq hw' s1.1.1 n1', u1]; simp [s2.1.1]; omega
      · rw [edgeId_eq hw' s2.1.1 n2', u2]; simp [s1.1.1]

/-! ### vertices after a cut: the old vertices keep their old darts, one of them gains a spare dart, one vertex is new -/

/-- two generators related by a projection `π` (identity on the nodes of the first graph that matter): every step of the
    first is a path of the second, every step of the second projects to a path of the first.  Then reachability between
    fixed points of `π` is the same. -/
theorem reach_equiv_of_projection {g g' : Nat → List Nat} (π : Nat → Nat)
    (h0 : ∀ z, z ∈ g 0 → z = 0) (h0' : ∀ z, z ∈ g' 0 → z = 0) (hπ0 : π 0 = 0)
    (fwd : ∀ y, π y = y → ∀ z, z ∈ g y → z ≠ 0 → Reach g' y z ∧ π z = z)
    (bwd : ∀ y z, z ∈ g' y → z ≠ 0 → Reach g (π y) (π z))
    {p q : Nat} (hp : π p = p) (hq0 : q ≠ 0) :
    (Reach g p q → Reach g' p q) ∧ (Reach g' p q → Reach g p (π q)) := by
  constructor
  · intro h
    have : Reach g' p q ∧ π q = q := by
      induction h with
      | refl => exact ⟨.refl _, hp⟩
      | tail hab hc ih =>
          rename_i b c
          by_cases hb0 : b = 0
          · subst hb0; exact absurd (h0 c hc) hq0
          · obtain ⟨r1, fb⟩ := ih hb0
            obtain ⟨r2, fc⟩ := fwd b fb c hc hq0
            exact ⟨r1.trans r2, fc⟩
    exact this.1
  · intro h
    induction h with
    | refl => rw [hp]; exact .refl _
    | tail hab hc ih =>
        rename_i b c
        by_cases hb0 : b = 0
        · subst hb0; exact absurd (h0' c hc) hq0
        · exact (ih hb0).trans (bwd b c hc hq0)

/-- the vertex generator -/
def vg (f : BF) (y : Nat) : List Nat := [f 1 (f 2 y), f 2 (f 0 y)]

/-- projection of the darts after an outer cut onto the darts before: `nd2` joins the vertex of `b`, `nd3` that of `nd1` -/
def piOuter (b nd1 nd2 nd3 : Nat) (y : Nat) : Nat := if y = nd2 then b else if y = nd3 then nd1 else y

set_option maxHeartbeats 1000000 in
/-- the two step conditions of `reach_equiv_of_projection` for the outer cut, on abstract β functions -/
theorem outer_vertex_steps (f f' : BF) (e a b nd1 nd2 nd3 : Nat)
    (z : ∀ i, f i 0 = 0) (z' : ∀ i, f' i 0 = 0)
    (hd : [e, a, b, nd1, nd2, nd3].Nodup) (n0 : e ≠ 0 ∧ a ≠ 0 ∧ b ≠ 0 ∧ nd1 ≠ 0 ∧ nd2 ≠ 0 ∧ nd3 ≠ 0)
    (fr1 : ∀ i, f i nd1 = 0) (fr2 : ∀ i, f i nd2 = 0) (fr3 : ∀ i, f i nd3 = 0)
    (img : ∀ i y, f i y ≠ nd1 ∧ f i y ≠ nd2 ∧ f i y ≠ nd3)
    (inv2 : ∀ y, f 2 y ≠ 0 → f 2 (f 2 y) = y) (e2 : f 2 e = 0)
    (h1 : f 1 e = a) (h2 : f 1 a = b) (h3 : f 1 b = e) (g1 : f 0 a = e) (g2' : f 0 b = a) (g3 : f 0 e = b)
    (p1 : f' 1 e = nd1) (p2 : f' 1 nd1 = b) (p3 : f' 1 b = e) (q1 : f' 1 nd3 = a) (q2 : f' 1 a = nd2) (q3 : f' 1 nd2 = nd3)
    (r1 : f' 0 nd1 = e) (r2 : f' 0 b = nd1) (r3 : f' 0 e = b) (t1 : f' 0 a = nd3) (t2 : f' 0 nd2 = a) (t3 : f' 0 nd3 = nd2)
    (u1 : f' 2 nd1 = nd2) (u2 : f' 2 nd2 = nd1) (u3 : ∀ x, x ≠ nd1 → x ≠ nd2 → f' 2 x = f 2 x)
    (fr : ∀ i x, x ∉ [e, a, b, nd1, nd2, nd3] → f' i x = f i x) :
    (∀ y, piOuter b nd1 nd2 nd3 y = y → ∀ w, w ∈ vg f y → w ≠ 0 →
      Reach (vg f') y w ∧ piOuter b nd1 nd2 nd3 w = w) ∧
    (∀ y w, w ∈ vg f' y → w ≠ 0 → Reach (vg f) (piOuter b nd1 nd2 nd3 y) (piOuter b nd1 nd2 nd3 w)) := by
  simp only [List.nodup_cons, List.mem_cons, List.mem_nil_iff, not_or, or_false, List.nodup_nil, and_true] at hd
  obtain ⟨⟨d1, d2, d3, d4, d5⟩, ⟨d6, d7, d8, d9⟩, ⟨d10, d11, d12⟩, ⟨d13, d14⟩, d15, _⟩ := hd
  obtain ⟨e0, a0, b0, n10, n20, n30⟩ := n0
  have pif : ∀ i y, piOuter b nd1 nd2 nd3 (f i y) = f i y := by
    intro i y; unfold piOuter; simp [(img i y).2.1, (img i y).2.2]
  have frx : ∀ i x, x ≠ e → x ≠ a → x ≠ b → x ≠ nd1 → x ≠ nd2 → x ≠ nd3 → f' i x = f i x := by
    intro i x x1 x2 x3 x4 x5 x6; exact fr i x (by simp [x1, x2, x3, x4, x5, x6])
  have single : ∀ (g : Nat → List Nat) (y w : Nat), w ∈ g y → Reach g y w := fun g y w h => Reach.single h
  constructor
  · intro y hy w hw hw0
    have y2 : y ≠ nd2 := by intro hh; subst hh; unfold piOuter at hy; simp at hy; exact d11 hy
    have y3 : y ≠ nd3 := by intro hh; subst hh; unfold piOuter at hy; simp [Ne.symm d15] at hy; exact d14 hy
    simp only [vg, List.mem_cons, List.mem_nil_iff, or_false] at hw
    rcases hw with rfl | rfl
    · -- first component: β1 (β2 y)
      refine ⟨?_, pif 1 _⟩
      have w0 : f 2 y ≠ 0 := by intro hh; rw [hh, z 1] at hw0; exact hw0 rfl
      have y1 : y ≠ nd1 := by intro hh; subst hh; exact w0 (fr1 2)
      have we : f 2 y ≠ e := by
        intro hh; have := inv2 y w0; rw [hh, e2] at this; subst this; exact w0 (z 2)
      by_cases wa : f 2 y = a
      · -- through the subdivided edge: y → nd2 → b
        rw [wa, h2]
        refine (single (vg f') y nd2 ?_).trans (single (vg f') nd2 b ?_)
        · simp [vg, u3 y y1 y2, wa, q2]
        · simp [vg, u2, p2]
      · by_cases wb : f 2 y = b
        · rw [wb, h3]
          exact single _ _ _ (by simp [vg, u3 y y1 y2, wb, p3])
        · have := frx 1 (f 2 y) we wa wb (img 2 y).1 (img 2 y).2.1 (img 2 y).2.2
          exact single _ _ _ (by simp [vg, u3 y y1 y2, this])
    · -- second component: β2 (β0 y)
      refine ⟨?_, pif 2 _⟩
      have w0 : f 0 y ≠ 0 := by intro hh; rw [hh, z 2] at hw0; exact hw0 rfl
      have y1 : y ≠ nd1 := by intro hh; subst hh; exact w0 (fr1 0)
      have wn := img 0 y
      by_cases ye : y = e
      · subst ye; exact single _ _ _ (by simp [vg, r3, g3, u3 b (Ne.symm wn.1 |> fun _ => d10) d11])
      · by_cases ya : y = a
        · subst ya; rw [g1, e2] at hw0; exact absurd rfl hw0
        · by_cases yb : y = b
          · subst yb
            rw [g2']
            refine (single (vg f') y nd2 ?_).trans (single (vg f') nd2 (f 2 a) ?_)
            · simp [vg, r2, u1]
            · simp [vg, t2, u3 a d7 d8]
          · have := frx 0 y ye ya yb y1 y2 y3
            exact single _ _ _ (by simp [vg, this, u3 (f 0 y) wn.1 wn.2.1])
  · intro y w hw hw0
    simp only [vg, List.mem_cons, List.mem_nil_iff, or_false] at hw
    by_cases y1 : y = nd1
    · subst y1
      rcases hw with rfl | rfl
      · simp [u1, q3, piOuter, d13, d14, Ne.symm d15]; exact .refl _
      · rw [r1, u3 e d3 d4, e2] at hw0; exact absurd rfl hw0
    by_cases y3 : y = nd3
    · subst y3
      rcases hw with rfl | rfl
      · rw [u3 y (Ne.symm d14) (Ne.symm d15), fr3 2, z' 1] at hw0; exact absurd rfl hw0
      · simp [t3, u2, piOuter, d13, d14, Ne.symm d15, Ne.symm d14]; exact .refl _
    by_cases y2 : y = nd2
    · subst y2
      rcases hw with rfl | rfl
      · simp [u2, p2, piOuter, d11, d12]; exact .refl _
      · simp only [t2, u3 a d7 d8]
        have : piOuter b nd1 y nd3 y = b := by simp [piOuter]
        rw [this, pif 2 a]
        exact single _ _ _ (by simp [vg, g2'])
    have py : piOuter b nd1 nd2 nd3 y = y := by simp [piOuter, y2, y3]
    rw [py]
    rcases hw with rfl | rfl
    · -- first component
      rw [u3 y y1 y2] at hw0 ⊢
      have w0 : f 2 y ≠ 0 := by intro hh; rw [hh, z' 1] at hw0; exact hw0 rfl
      have we : f 2 y ≠ e := by
        intro hh; have := inv2 y w0; rw [hh, e2] at this; subst this; exact w0 (z 2)
      by_cases wa : f 2 y = a
      · rw [wa, q2]
        have : piOuter b nd1 nd2 nd3 nd2 = b := by simp [piOuter]
        rw [this]
        exact single _ _ _ (by simp [vg, wa, h2])
      · by_cases wb : f 2 y = b
        · rw [wb, p3]
          have : piOuter b nd1 nd2 nd3 e = e := by simp [piOuter, d4, d5]
          rw [this]
          exact single _ _ _ (by simp [vg, wb, h3])
        · have := frx 1 (f 2 y) we wa wb (img 2 y).1 (img 2 y).2.1 (img 2 y).2.2
          rw [this, pif 1]
          exact single _ _ _ (by simp [vg])
    · -- second component
      by_cases ye : y = e
      · subst ye
        rw [r3, u3 b d10 d11, pif 2]
        exact single _ _ _ (by simp [vg, g3])
      · by_cases ya : y = a
        · subst ya
          rw [t1, u3 nd3 (Ne.symm d14) (Ne.symm d15), fr3 2] at hw0; exact absurd rfl hw0
        · by_cases yb : y = b
          · subst yb
            simp only [r2, u1]
            have : piOuter y nd1 nd2 nd3 nd2 = y := by simp [piOuter]
            rw [this]
            exact .refl _
          · have hy := frx 0 y ye ya yb y1 y2 y3
            have wn := img 0 y
            rw [hy, u3 (f 0 y) wn.1 wn.2.1, pif 2]
            exact single _ _ _ (by simp [vg])

/-- counting through a bijection on identifiers: `N` (`N'`) are identifiers that only exist before (after); on the others
    `ψ` is injective and onto the others after -/
theorem length_via_bijection {L L' N N' : List Nat} (hL : L.Nodup) (hL' : L'.Nodup) (ψ : Nat → Nat)
    (hN : N.Nodup) (hN' : N'.Nodup) (hNL : ∀ x, x ∈ N → x ∈ L) (hNL' : ∀ x, x ∈ N' → x ∈ L')
    (inj : ∀ a b, a ∈ L → a ∉ N → b ∈ L → b ∉ N → ψ a = ψ b → a = b)
    (img : ∀ y, (y ∈ L' ∧ y ∉ N') ↔ ∃ x, x ∈ L ∧ x ∉ N ∧ ψ x = y) :
    L'.length + N.length = L.length + N'.length := by
  have part : ∀ (K T : List Nat), K.Nodup → T.Nodup → (∀ x, x ∈ T → x ∈ K) →
      K.length = (K.filter (fun x => !decide (x ∈ T))).length + T.length := by
    intro K T hK hT hTK
    have e1 := (List.filter_append_perm (fun x => decide (x ∈ T)) K).length_eq
    rw [List.length_append] at e1
    have : (K.filter (fun x => decide (x ∈ T))).length = T.length := by
      apply List.Perm.length_eq
      rw [List.perm_ext_iff_of_nodup (hK.sublist List.filter_sublist) hT]
      intro x
      simp only [List.mem_filter, decide_eq_true_eq]
      exact ⟨fun h => h.2, fun h => ⟨hTK x h, h⟩⟩
    omega
  have e1 := part L N hL hN hNL
  have e2 := part L' N' hL' hN' hNL'
  have key : (L'.filter (fun x => !decide (x ∈ N'))).length = (L.filter (fun x => !decide (x ∈ N))).length := by
    rw [← List.length_map (as := L.filter (fun x => !decide (x ∈ N))) ψ]
    apply List.Perm.length_eq
    have nd : ((L.filter (fun x => !decide (x ∈ N))).map ψ).Nodup := by
      rw [List.nodup_iff_pairwise_ne, List.pairwise_map]
      have hp := List.nodup_iff_pairwise_ne.1 (hL.sublist (List.filter_sublist (p := fun x => !decide (x ∈ N))))
      refine List.Pairwise.imp_of_mem ?_ hp
      intro a b ha hb hab heq
      simp only [List.mem_filter, Bool.not_eq_true', decide_eq_false_iff_not] at ha hb
      exact hab (inj a b ha.1 ha.2 hb.1 hb.2 heq)
    rw [List.perm_ext_iff_of_nodup (hL'.sublist List.filter_sublist) nd]
    intro y
    simp only [List.mem_filter, Bool.not_eq_true', decide_eq_false_iff_not, List.mem_map]
    rw [img y]
    constructor
    · rintro ⟨x, a, b, c⟩; exact ⟨x, ⟨a, b⟩, c⟩
    · rintro ⟨x, ⟨a, b⟩, c⟩; exact ⟨x, a, b, c⟩
  omega

/-- a dart, its vertex identifier, and the paths between them -/
theorem vid_facts {m : Map Val} (h : WF 3 m) {d : Nat} (hd0 : d ≠ 0) (hd : d < m.n) (hu : m.unused d = false) :
    cellId m .vertex d ≠ 0 ∧ cellId m .vertex d < m.n ∧ m.unused (cellId m .vertex d) = false ∧
    Reach (g2 m .vertex) d (cellId m .vertex d) ∧ Reach (g2 m .vertex) (cellId m .vertex d) d ∧
    cellId m .vertex (cellId m .vertex d) = cellId m .vertex d := by
  obtain ⟨c0, cn, ci⟩ := cellId_idem h (pol := .vertex) trivial hd0 hd
  have sp := cellId_spec h (pol := .vertex) trivial hd0 hd
  have r := ((mem_orb h (pol := .vertex) trivial hd0 hd _).1 sp.1).2
  exact ⟨c0, cn, C03_orbit_of_in_use_is_in_use h (pol := .vertex) trivial hd0 hd hu _ sp.1, r,
    reach_symm h (pol := .vertex) trivial hd c0 r, ci⟩

/-- a spare dart is alone in its vertex -/
theorem spare_isolated {m : Map Val} (h : WF 3 m) {s : Nat} (hs : Spare m s) {x : Nat}
    (hr : Reach (g2 m .vertex) s x) : x = s ∨ x = 0 := by
  refine reach_closed (S := fun z => z = s ∨ z = 0) ?_ (Or.inl rfl) hr
  intro y hy v hv
  rcases hy with rfl | rfl
  · simp only [g2, List.mem_cons, List.mem_nil_iff, or_false] at hv
    rcases hv with rfl | rfl
    · right; rw [hs.β 2 (by omega)]; exact h.null 1 (by omega)
    · right; rw [hs.β 0 (by omega)]; exact h.null 2 (by omega)
  · exact Or.inr (g2_null h .vertex trivial v hv)

/-- **vertex count, generic**: `T` lists spare darts of `m` (each one a vertex of its own for `iter_vertices`); an edit keeps
    `n` and the flags; a projection `π` (identity outside `T`) relates the two vertex graphs as in
    `reach_equiv_of_projection`; every dart of `T` either joins the vertex of the old dart `π t` or lies in one of the new
    vertices listed (by identifier, without repetition) in `N'`.  Then `#iter_vertices' + #T = #iter_vertices + #N'`. -/
theorem iterVertices_count {m m' : Map Val} (h : WF 3 m) (h' : WF 3 m') (hn : m'.n = m.n)
    (hu : ∀ d, m'.unused d = m.unused d) (T N' : List Nat) (π : Nat → Nat)
    (hT : ∀ t, t ∈ T → Spare m t) (hTn : T.Nodup) (hN' : N'.Nodup)
    (hfix : ∀ x, x ∉ T → π x = x)
    (hreach : ∀ p q, π p = p → q ≠ 0 →
      (Reach (g2 m .vertex) p q → Reach (g2 m' .vertex) p q) ∧
      (Reach (g2 m' .vertex) p q → Reach (g2 m .vertex) p (π q)))
    (hπT : ∀ t, t ∈ T →
      (π t ∉ T ∧ π t ≠ 0 ∧ π t < m.n ∧ m.unused (π t) = false ∧ cellId m' .vertex t = cellId m' .vertex (π t)) ∨
      (π t ∈ T ∧ cellId m' .vertex t ∈ N'))
    (hNew : ∀ y, y ∈ N' → ∃ t, t ∈ T ∧ π t ∈ T ∧ y = cellId m' .vertex t) :
    (iterVertices2 m').length + T.length = (iterVertices2 m).length + N'.length := by
  have nodup : ∀ mm : Map Val, (iterVertices2 mm).Nodup := fun mm =>
    ((C03_iter_sorted mm).1).imp (fun hab => Nat.ne_of_lt hab)
  -- an old dart does not reach a spare one in `m`
  have old_ne : ∀ x s, x ∉ T → x ≠ 0 → x < m.n → s ∈ T → Reach (g2 m .vertex) x s → False := by
    intro x s hx hx0 hxn hs hr
    have sp := hT s hs
    have back := reach_symm h (pol := .vertex) trivial hxn sp.1.1 hr
    rcases spare_isolated h sp back with rfl | rfl
    · exact hx hs
    · exact hx0 rfl
  have spare_id : ∀ t, t ∈ T → cellId m .vertex t = t := by
    intro t ht
    have sp := hT t ht
    have f := vid_facts h sp.1.1 sp.1.2.1 sp.1.2.2
    rcases spare_isolated h sp f.2.2.2.1 with e | e
    · exact e
    · exact absurd e f.1
  -- the identifiers of `m` outside `T` are old in-use darts, their own identifiers
  have oldid : ∀ a, a ∈ iterVertices2 m → a ∉ T →
      a ≠ 0 ∧ a < m.n ∧ m.unused a = false ∧ cellId m .vertex a = a := by
    intro a ha _
    obtain ⟨d, hd0, hd, hdu, rfl⟩ := (C03_iterVertices2_mem h a).1 ha
    have f := vid_facts h hd0 hd hdu
    exact ⟨f.1, f.2.1, f.2.2.1, f.2.2.2.2.2⟩
  refine length_via_bijection (nodup m) (nodup m') (fun x => cellId m' .vertex x) hTn hN' ?_ ?_ ?_ ?_
  · intro t ht
    have sp := hT t ht
    exact (C03_iterVertices2_mem h t).2 ⟨t, sp.1.1, sp.1.2.1, sp.1.2.2, spare_id t ht⟩
  · intro y hy
    obtain ⟨t, ht, _, rfl⟩ := hNew y hy
    have sp := hT t ht
    exact (C03_iterVertices2_mem h' _).2 ⟨t, sp.1.1, by rw [hn]; exact sp.1.2.1, by rw [hu]; exact sp.1.2.2, rfl⟩
  · intro a b ha haT hb hbT hab
    obtain ⟨a0, an, _, ai⟩ := oldid a ha haT
    obtain ⟨b0, bn, _, bi⟩ := oldid b hb hbT
    have r' := (C03_same_id_iff_same_cell h' (pol := .vertex) trivial a0 (by rw [hn]; exact an) b0
      (by rw [hn]; exact bn)).1.1 hab
    have r := (hreach a b (hfix a haT) b0).2 r'
    rw [hfix b hbT] at r
    have := (C03_same_id_iff_same_cell h (pol := .vertex) trivial a0 an b0 bn).1.2 r
    rw [ai, bi] at this
    exact this
  · intro y
    constructor
    · rintro ⟨hy, hyN⟩
      obtain ⟨d, hd0, hd, hdu, rfl⟩ := (C03_iterVertices2_mem h' y).1 hy
      rw [hn] at hd
      rw [hu] at hdu
      -- an old dart of the same new vertex
      have : ∃ d0, d0 ∉ T ∧ d0 ≠ 0 ∧ d0 < m.n ∧ m.unused d0 = false ∧
          cellId m' .vertex d0 = cellId m' .vertex d := by
        by_cases hdT : d ∈ T
        · rcases hπT d hdT with ⟨p1, p2, p3, p4, p5⟩ | ⟨_, p2⟩
          · exact ⟨π d, p1, p2, p3, p4, p5.symm⟩
          · exact absurd p2 hyN
        · exact ⟨d, hdT, hd0, hd, hdu, rfl⟩
      obtain ⟨d0, d0T, d00, d0n, d0u, d0e⟩ := this
      have f := vid_facts h d00 d0n d0u
      have xT : cellId m .vertex d0 ∉ T := fun hh => old_ne d0 _ d0T d00 d0n hh f.2.2.2.1
      refine ⟨cellId m .vertex d0, (C03_iterVertices2_mem h _).2 ⟨d0, d00, d0n, d0u, rfl⟩, xT, ?_⟩
      rw [← d0e]
      have r' := (hreach d0 _ (hfix d0 d0T) f.1).1 f.2.2.2.1
      exact ((C03_same_id_iff_same_cell h' (pol := .vertex) trivial d00 (by rw [hn]; exact d0n) f.1
        (by rw [hn]; exact f.2.1)).1.2 r').symm
    · rintro ⟨x, hx, hxT, rfl⟩
      obtain ⟨x0, xn, xu, _⟩ := oldid x hx hxT
      refine ⟨(C03_iterVertices2_mem h' _).2 ⟨x, x0, by rw [hn]; exact xn, by rw [hu]; exact xu, rfl⟩, ?_⟩
      intro hN
      obtain ⟨t, ht, hπt, e⟩ := hNew _ hN
      have sp := hT t ht
      have r' := (C03_same_id_iff_same_cell h' (pol := .vertex) trivial x0 (by rw [hn]; exact xn) sp.1.1
        (by rw [hn]; exact sp.1.2.1)).1.1 e
      have r := (hreach x t (hfix x hxT) sp.1.1).2 r'
      exact old_ne x (π t) hxT x0 xn hπt r

/-- β outside the table is the null dart -/
theorem beta_oob {m : Map Val} (h : WF 3 m) {i d : Nat} (ho : ¬ (i < 3 ∧ d < m.n)) : m.β i d = 0 := by
  unfold Map.β
  by_cases hi : i < 3
  · have hd : ¬ d < m.n := fun x => ho ⟨hi, x⟩
    rw [rd_oob (rd m.b i) d (by rw [h.row i hi]; omega)]; rfl
  · rw [rd_oob m.b i (by rw [h.rows]; omega)]
    rw [rd_oob]; rfl
    show (#[] : Array Nat).size ≤ d
    simp

theorem beta_zero {m : Map Val} (h : WF 3 m) (i : Nat) : m.β i 0 = 0 := by
  by_cases hi : i < 3
  · exact h.null i hi
  · exact beta_oob h (fun hh => hi hh.1)

theorem spare_beta {m : Map Val} (h : WF 3 m) {s : Nat} (hs : Spare m s) (i : Nat) : m.β i s = 0 := by
  by_cases hi : i < 3
  · exact hs.β i hi
  · exact beta_oob h (fun hh => hi hh.1)

/-- no dart has a spare dart as an image -/
theorem beta_ne_spare {m : Map Val} (h : WF 3 m) {s : Nat} (hs : Spare m s) (i y : Nat) : m.β i y ≠ s := by
  intro hh
  by_cases ho : i < 3 ∧ y < m.n
  · obtain ⟨hi, hy⟩ := ho
    have s0 := hs.1.1
    -- the image `s` of `y` has `y` as an image, but `s` is free
    have : i = 0 ∨ i = 1 ∨ i = 2 := by omega
    rcases this with rfl | rfl | rfl
    · have := h.inv10 y hy (by rw [hh]; exact s0); rw [hh, hs.β 1 (by omega)] at this
      subst this; rw [h.null 0 (by omega)] at hh; exact s0 hh.symm
    · have := h.inv01 y hy (by rw [hh]; exact s0); rw [hh, hs.β 0 (by omega)] at this
      subst this; rw [h.null 1 (by omega)] at hh; exact s0 hh.symm
    · have := (h.invol 2 (by omega) (by omega) y hy (by rw [hh]; exact s0)).1; rw [hh, hs.β 2 (by omega)] at this
      subst this; rw [h.null 2 (by omega)] at hh; exact s0 hh.symm
  · rw [beta_oob h ho] at hh; exact hs.1.1 hh.symm

/-- **C15 (1), vertices, outer cut**: `iter_vertices` counted the three spare darts as three vertices; after the call `nd2`
    belongs to the vertex of `β0 e`, `nd1` and `nd3` form the new vertex, and two old darts share a vertex after the call
    exactly when they did before: `#vertices' + 2 = #vertices` — the MESH gains one vertex -/
theorem C15_cutOuter_vertex_count (cfg : Cfg Val) (m m' : Map Val) (e nd1 nd2 nd3 : Nat) (hwf : WF 3 m) (he : C01.InUse m e)
    (h : run (cutOuterEdge cfg m.n e nd1 nd2 nd3) m = (.ok (), m'))
    (htri : m.β 1 (m.β 1 e) = m.β 0 e) (hb : m.β 0 e ≠ 0) (hout : m.β 2 e = 0)
    (s1 : Spare m nd1) (s2 : Spare m nd2) (s3 : Spare m nd3)
    (hnd : [e, m.β 1 e, m.β 0 e, nd1, nd2, nd3].Nodup) :
    (iterVertices2 m').length + 2 = (iterVertices2 m).length := by
  have hn := he.2.1
  have a0 : m.β 1 e ≠ 0 := fun hh => hb (by rw [← htri, hh]; exact hwf.null 1 (by omega))
  have ha : m.β 1 e < m.n := hwf.range 1 (by omega) e hn
  have hbn : m.β 0 e < m.n := hwf.range 0 (by omega) e hn
  have hnd' := hnd
  simp only [List.nodup_cons, List.mem_cons, List.mem_nil_iff, not_or, or_false, List.nodup_nil, and_true] at hnd'
  obtain ⟨⟨d1, d2, d3, d4, d5⟩, ⟨d6, d7, d8, d9⟩, ⟨d10, d11, d12⟩, ⟨d13, d14⟩, d15, _⟩ := hnd'
  obtain ⟨hw', _, _, _, _, _, hv⟩ := C15_cutOuter_cells cfg m m' e nd1 nd2 nd3 hwf he h htri hb s1 s2 s3 hnd
  obtain ⟨⟨p1, p2, p3⟩, ⟨q1, q2, q3⟩, ⟨r1, r2, r3⟩, ⟨t1, t2, t3⟩, ⟨u1, u2, u3⟩, fr, hn', hu⟩ :=
    C15_cutOuter_topology cfg m m' e nd1 nd2 nd3 hwf hn h htri hb hnd
  have hu' : ∀ d, m'.unused d = m.unused d := fun d => by unfold Map.unused; rw [hu]
  have steps := outer_vertex_steps m.β m'.β e (m.β 1 e) (m.β 0 e) nd1 nd2 nd3 (beta_zero hwf) (beta_zero hw') hnd
    ⟨he.1, a0, hb, s1.1.1, s2.1.1, s3.1.1⟩ (spare_beta hwf s1) (spare_beta hwf s2) (spare_beta hwf s3)
    (fun i y => ⟨beta_ne_spare hwf s1 i y, beta_ne_spare hwf s2 i y, beta_ne_spare hwf s3 i y⟩)
    (fun y hy => by
      by_cases hyn : y < m.n
      · exact (hwf.invol 2 (by omega) (by omega) y hyn hy).1
      · exact absurd (beta_oob hwf (fun hh => hyn hh.2)) hy)
    hout rfl htri (hwf.inv10 e hn hb) (hwf.inv01 e hn a0)
    (by rw [← htri]; exact hwf.inv01 _ ha (by rw [htri]; exact hb)) rfl
    p1 p2 p3 q1 q2 q3 r1 r2 r3 t1 t2 t3 u1 u2 u3 fr
  have hreach := fun p q => reach_equiv_of_projection (g := g2 m .vertex) (g' := g2 m' .vertex)
    (piOuter (m.β 0 e) nd1 nd2 nd3) (g2_null hwf .vertex trivial) (g2_null hw' .vertex trivial)
    (by unfold piOuter; simp [Ne.symm s2.1.1, Ne.symm s3.1.1]) steps.1 steps.2 (p := p) (q := q)
  have n1' : nd1 < m'.n := by rw [hn']; exact s1.1.2.1
  have n2' : nd2 < m'.n := by rw [hn']; exact s2.1.2.1
  have n3' : nd3 < m'.n := by rw [hn']; exact s3.1.2.1
  have c3 : cellId m' .vertex nd3 = cellId m' .vertex nd1 := by
    refine (C03_same_id_iff_same_cell hw' (pol := .vertex) trivial s3.1.1 n3' s1.1.1 n1').1.2 ?_
    refine (C03_same_id_iff_same_cell hw' (pol := .vertex) trivial s1.1.1 n1' s3.1.1 n3').1.1 ?_ |> fun r => reach_symm hw' (pol := .vertex) trivial n1' s3.1.1 r
    exact (C03_same_id_iff_same_cell hw' (pol := .vertex) trivial s1.1.1 n1' s3.1.1 n3').1.2
      (Reach.single (by simp [g2, u1, q3]))
  have c2 : cellId m' .vertex nd2 = cellId m' .vertex (m.β 0 e) :=
    (C03_same_id_iff_same_cell hw' (pol := .vertex) trivial s2.1.1 n2' hb (by rw [hn']; exact hbn)).1.2
      (Reach.single (by simp [g2, u2, p2]))
  have cnt := iterVertices_count hwf hw' hn' hu' [nd1, nd2, nd3] [min nd1 nd3] (piOuter (m.β 0 e) nd1 nd2 nd3)
    (by intro t ht; simp only [List.mem_cons, List.mem_nil_iff, or_false] at ht; rcases ht with rfl | rfl | rfl <;> assumption)
    (by simp [d13, d14, d15]) (by simp)
    (by intro x hx; simp only [List.mem_cons, List.mem_nil_iff, not_or, or_false] at hx; unfold piOuter; simp [hx.2.1, hx.2.2])
    (fun p q hp hq => hreach p q hp hq) ?_ ?_
  · simp at cnt; omega
  · intro t ht
    simp only [List.mem_cons, List.mem_nil_iff, or_false] at ht
    rcases ht with rfl | rfl | rfl
    · right; unfold piOuter; simp [d13, d14, hv hout]
    · left; unfold piOuter
      simp only [if_true]
      exact ⟨by simp [d10, d11, d12], hb, hbn, by
        cases hx : m.unused (m.β 0 e) with
        | false => rfl
        | true => exact absurd (C01.C01_unused_is_nobodys_image hwf 0 (by omega) e hn hx) hb, c2⟩
    · right; unfold piOuter; simp [Ne.symm d15, c3, hv hout]
  · intro y hy
    simp only [List.mem_cons, List.mem_nil_iff, or_false] at hy
    subst hy
    exact ⟨nd1, by simp, by unfold piOuter; simp [d13, d14], (hv hout).symm⟩

/-! ### the vertex graph through its pairs

Every non-null step of the vertex graph joins `β2 z` and `β1 z` for some dart `z` (the two darts leaving the end of `z`),
in one direction or the other.  Comparing two maps then only needs the pairs of the darts whose images changed. -/

/-- what the vertex graph needs from a well-formed β function -/
structure BWF (f : BF) : Prop where
  z : ∀ i, f i 0 = 0
  inv2 : ∀ y, f 2 y ≠ 0 → f 2 (f 2 y) = y
  inv10 : ∀ y, f 0 y ≠ 0 → f 1 (f 0 y) = y
  inv01 : ∀ y, f 1 y ≠ 0 → f 0 (f 1 y) = y

theorem bwf_of_wf {m : Map Val} (h : WF 3 m) : BWF m.β where
  z := beta_zero h
  inv2 := fun y hy => by
    by_cases hyn : y < m.n
    · exact (h.invol 2 (by omega) (by omega) y hyn hy).1
    · exact absurd (beta_oob h (fun hh => hyn hh.2)) hy
  inv10 := fun y hy => by
    by_cases hyn : y < m.n
    · exact h.inv10 y hyn hy
    · exact absurd (beta_oob h (fun hh => hyn hh.2)) hy
  inv01 := fun y hy => by
    by_cases hyn : y < m.n
    · exact h.inv01 y hyn hy
    · exact absurd (beta_oob h (fun hh => hyn hh.2)) hy

theorem step_pair {f : BF} (hf : BWF f) {y w : Nat} (hw : w ∈ vg f y) (hw0 : w ≠ 0) :
    ∃ z, f 2 z ≠ 0 ∧ f 1 z ≠ 0 ∧ ((f 2 z = y ∧ f 1 z = w) ∨ (f 2 z = w ∧ f 1 z = y)) := by
  simp only [vg, List.mem_cons, List.mem_nil_iff, or_false] at hw
  rcases hw with rfl | rfl
  · have h2 : f 2 y ≠ 0 := fun hh => hw0 (by rw [hh]; exact hf.z 1)
    have y0 : y ≠ 0 := by intro hh; subst hh; exact h2 (hf.z 2)
    exact ⟨f 2 y, by rw [hf.inv2 y h2]; exact y0, hw0, Or.inl ⟨hf.inv2 y h2, rfl⟩⟩
  · have h0 : f 0 y ≠ 0 := fun hh => hw0 (by rw [hh]; exact hf.z 2)
    have y0 : y ≠ 0 := by intro hh; subst hh; exact h0 (hf.z 0)
    exact ⟨f 0 y, hw0, by rw [hf.inv10 y h0]; exact y0, Or.inr ⟨rfl, hf.inv10 y h0⟩⟩

theorem pair_step {f : BF} (hf : BWF f) (z : Nat) (h2 : f 2 z ≠ 0) (h1 : f 1 z ≠ 0) :
    f 1 z ∈ vg f (f 2 z) ∧ f 2 z ∈ vg f (f 1 z) := by
  simp only [vg, List.mem_cons, List.mem_nil_iff, or_false]
  exact ⟨Or.inl (by rw [hf.inv2 z h2]), Or.inr (by rw [hf.inv01 z h1])⟩

/-- a pair, as a path: `β2 z = u`, `β1 z = v`, both non-null -/
theorem pair_reach {f : BF} (hf : BWF f) (z : Nat) {u v : Nat} (e2 : f 2 z = u) (e1 : f 1 z = v) (u0 : u ≠ 0)
    (v0 : v ≠ 0) : Reach (vg f) u v := by
  subst e2; subst e1; exact Reach.single (pair_step hf z u0 v0).1

theorem vg_symm {f : BF} (hf : BWF f) {u v : Nat} (h : Reach (vg f) u v) (hv0 : v ≠ 0) : Reach (vg f) v u := by
  induction h with
  | refl => exact .refl _
  | tail hab hc ih =>
      rename_i b c
      obtain ⟨z, z2, z1, hz⟩ := step_pair hf hc hv0
      have b0 : b ≠ 0 := by rcases hz with ⟨e, _⟩ | ⟨_, e⟩ <;> (rw [← e]; assumption)
      have back : Reach (vg f) c b := by
        rcases hz with ⟨e2, e1⟩ | ⟨e2, e1⟩
        · rw [← e2, ← e1]; exact Reach.single (pair_step hf z z2 z1).2
        · rw [← e2, ← e1]; exact Reach.single (pair_step hf z z2 z1).1
      exact back.trans (ih b0)

/-- the two step conditions of `reach_equiv_of_projection`, from the pairs -/
theorem vertex_steps_of_pairs {f f' : BF} (hf : BWF f) (hf' : BWF f') (π : Nat → Nat)
    (pif : ∀ i y, π (f i y) = f i y) (πne : ∀ y, y ≠ 0 → π y ≠ 0)
    (P1 : ∀ z, f 2 z ≠ 0 → f 1 z ≠ 0 → Reach (vg f') (f 2 z) (f 1 z))
    (P2 : ∀ z, f' 2 z ≠ 0 → f' 1 z ≠ 0 → Reach (vg f) (π (f' 2 z)) (π (f' 1 z))) :
    (∀ y, π y = y → ∀ w, w ∈ vg f y → w ≠ 0 → Reach (vg f') y w ∧ π w = w) ∧
    (∀ y w, w ∈ vg f' y → w ≠ 0 → Reach (vg f) (π y) (π w)) := by
  constructor
  · intro y _ w hw hw0
    obtain ⟨z, z2, z1, hz⟩ := step_pair hf hw hw0
    rcases hz with ⟨e2, e1⟩ | ⟨e2, e1⟩
    · rw [← e2, ← e1]; exact ⟨P1 z z2 z1, pif 1 z⟩
    · rw [← e2, ← e1]; exact ⟨vg_symm hf' (P1 z z2 z1) z1, pif 2 z⟩
  · intro y w hw hw0
    obtain ⟨z, z2, z1, hz⟩ := step_pair hf' hw hw0
    rcases hz with ⟨e2, e1⟩ | ⟨e2, e1⟩
    · rw [← e2, ← e1]; exact P2 z z2 z1
    · rw [← e2, ← e1]; exact vg_symm hf (P2 z z2 z1) (πne _ z1)

/-- where the darts of the map after an inner cut project to: `n2` to `β0 e`, `n5` to `β0 (β2 e)`, the four darts of the
    new vertex to `n1` -/
def piInner (b d n1 n2 n3 n4 n5 n6 : Nat) (y : Nat) : Nat :=
  if y = n2 then b else if y = n5 then d else if y = n3 ∨ y = n4 ∨ y = n6 then n1 else y

/-- **C15 (1), vertices, inner cut**: `iter_vertices` counted the six spare darts as six vertices; after the call `n2` belongs
    to the vertex of `β0 e`, `n5` to the vertex of `β0 (β2 e)`, the darts `n1, n3, n4, n6` form the new vertex, and two old
    darts share a vertex after the call exactly when they did before: `#vertices' + 5 = #vertices` — the MESH gains one
    vertex -/
theorem C15_cutInner_vertex_count (cfg : Cfg Val) (m m' : Map Val) (e n1 n2 n3 n4 n5 n6 : Nat) (hwf : WF 3 m)
    (he : C01.InUse m e)
    (h : run (cutInnerEdge cfg m.n e n1 n2 n3 n4 n5 n6) m = (.ok (), m'))
    (hr0 : m.β 2 e ≠ 0)
    (htl : m.β 1 (m.β 1 e) = m.β 0 e) (hb : m.β 0 e ≠ 0)
    (htr : m.β 1 (m.β 1 (m.β 2 e)) = m.β 0 (m.β 2 e)) (hd : m.β 0 (m.β 2 e) ≠ 0)
    (hs : ∀ x, x ∈ [n1, n2, n3, n4, n5, n6] → Spare m x)
    (hnd : [e, m.β 2 e, m.β 1 e, m.β 0 e, m.β 1 (m.β 2 e), m.β 0 (m.β 2 e), n1, n2, n3, n4, n5, n6].Nodup) :
    (iterVertices2 m').length + 5 = (iterVertices2 m).length := by
  have hn := he.2.1
  have hr : m.β 2 e < m.n := hwf.range 2 (by omega) e hn
  have a0 : m.β 1 e ≠ 0 := fun hh => hb (by rw [← htl, hh]; exact hwf.null 1 (by omega))
  have c0 : m.β 1 (m.β 2 e) ≠ 0 := fun hh => hd (by rw [← htr, hh]; exact hwf.null 1 (by omega))
  have hbn : m.β 0 e < m.n := hwf.range 0 (by omega) e hn
  have hdn : m.β 0 (m.β 2 e) < m.n := hwf.range 0 (by omega) _ hr
  have hnd' := hnd
  simp only [List.nodup_cons, List.mem_cons, List.mem_nil_iff, not_or, or_false, List.nodup_nil, and_true] at hnd'
  obtain ⟨⟨q1, q2, q3, q4, q5, q6, q7, q8, q9, q10, q11⟩, ⟨q12, q13, q14, q15, q16, q17, q18, q19, q20, q21⟩, ⟨q22, q23, q24, q25, q26, q27, q28, q29, q30⟩, ⟨q31, q32, q33, q34, q35, q36, q37, q38⟩, ⟨q39, q40, q41, q42, q43, q44, q45⟩, ⟨q46, q47, q48, q49, q50, q51⟩, ⟨q52, q53, q54, q55, q56⟩, ⟨q57, q58, q59, q60⟩, ⟨q61, q62, q63⟩, ⟨q64, q65⟩, q66, _⟩ := hnd'
  have s1 := hs n1 (by simp); have s2 := hs n2 (by simp); have s3 := hs n3 (by simp)
  have s4 := hs n4 (by simp); have s5 := hs n5 (by simp); have s6 := hs n6 (by simp)
  have hw' : WF 3 m' := wf_of_run_ok h
    (C15_cutInner_preserves_WF cfg m e n1 n2 n3 n4 n5 n6 hwf he hr0 ⟨a0, hb⟩ ⟨c0, hd⟩ hs q52 q64)
  obtain ⟨⟨⟨p1, p2, p3⟩, ⟨p4, p5, p6⟩, ⟨p7, p8, p9⟩, ⟨p10, p11, p12⟩⟩, _,
    ⟨⟨u1, u2⟩, ⟨u3, u4⟩, ⟨u5, u6⟩, ⟨u7, u8⟩, u9⟩, fr, hn', hu⟩ :=
    C15_cutInner_topology cfg m m' e n1 n2 n3 n4 n5 n6 hwf hn h hr0 htl hb htr hd hnd
  have hu' : ∀ d, m'.unused d = m.unused d := fun d => by unfold Map.unused; rw [hu]
  have p3' := hwf.inv10 e hn hb
  have q3' := hwf.inv10 _ hr hd
  have er := (hwf.invol 2 (by omega) (by omega) e hn hr0).1
  have hf := bwf_of_wf hwf
  have hf' := bwf_of_wf hw'
  have ua := u9 (m.β 1 e) (by simp [q1, Ne.symm q1, q2, Ne.symm q2, q3, Ne.symm q3, q4, Ne.symm q4, q5, Ne.symm q5, q6, Ne.symm q6, q7, Ne.symm q7, q8, Ne.symm q8, q9, Ne.symm q9, q10, Ne.symm q10, q11, Ne.symm q11, q12, Ne.symm q12, q13, Ne.symm q13, q14, Ne.symm q14, q15, Ne.symm q15, q16, Ne.symm q16, q17, Ne.symm q17, q18, Ne.symm q18, q19, Ne.symm q19, q20, Ne.symm q20, q21, Ne.symm q21, q22, Ne.symm q22, q23, Ne.symm q23, q24, Ne.symm q24, q25, Ne.symm q25, q26, Ne.symm q26, q27, Ne.symm q27, q28, Ne.symm q28, q29, Ne.symm q29, q30, Ne.symm q30, q31, Ne.symm q31, q32, Ne.symm q32, q33, Ne.symm q33, q34, Ne.symm q34, q35, Ne.symm q35, q36, Ne.symm q36, q37, Ne.symm q37, q38, Ne.symm q38, q39, Ne.symm q39, q40, Ne.symm q40, q41, Ne.symm q41, q42, Ne.symm q42, q43, Ne.symm q43, q44, Ne.symm q44, q45, Ne.symm q45, q46, Ne.symm q46, q47, Ne.symm q47, q48, Ne.symm q48, q49, Ne.symm q49, q50, Ne.symm q50, q51, Ne.symm q51, q52, Ne.symm q52, q53, Ne.symm q53, q54, Ne.symm q54, q55, Ne.symm q55, q56, Ne.symm q56, q57, Ne.symm q57, q58, Ne.symm q58, q59, Ne.symm q59, q60, Ne.symm q60, q61, Ne.symm q61, q62, Ne.symm q62, q63, Ne.symm q63, q64, Ne.symm q64, q65, Ne.symm q65, q66, Ne.symm q66])
  have ub := u9 (m.β 0 e) (by simp [q1, Ne.symm q1, q2, Ne.symm q2, q3, Ne.symm q3, q4, Ne.symm q4, q5, Ne.symm q5, q6, Ne.symm q6, q7, Ne.symm q7, q8, Ne.symm q8, q9, Ne.symm q9, q10, Ne.symm q10, q11, Ne.symm q11, q12, Ne.symm q12, q13, Ne.symm q13, q14, Ne.symm q14, q15, Ne.symm q15, q16, Ne.symm q16, q17, Ne.symm q17, q18, Ne.symm q18, q19, Ne.symm q19, q20, Ne.symm q20, q21, Ne.symm q21, q22, Ne.symm q22, q23, Ne.symm q23, q24, Ne.symm q24, q25, Ne.symm q25, q26, Ne.symm q26, q27, Ne.symm q27, q28, Ne.symm q28, q29, Ne.symm q29, q30, Ne.symm q30, q31, Ne.symm q31, q32, Ne.symm q32, q33, Ne.symm q33, q34, Ne.symm q34, q35, Ne.symm q35, q36, Ne.symm q36, q37, Ne.symm q37, q38, Ne.symm q38, q39, Ne.symm q39, q40, Ne.symm q40, q41, Ne.symm q41, q42, Ne.symm q42, q43, Ne.symm q43, q44, Ne.symm q44, q45, Ne.symm q45, q46, Ne.symm q46, q47, Ne.symm q47, q48, Ne.symm q48, q49, Ne.symm q49, q50, Ne.symm q50, q51, Ne.symm q51, q52, Ne.symm q52, q53, Ne.symm q53, q54, Ne.symm q54, q55, Ne.symm q55, q56, Ne.symm q56, q57, Ne.symm q57, q58, Ne.symm q58, q59, Ne.symm q59, q60, Ne.symm q60, q61, Ne.symm q61, q62, Ne.symm q62, q63, Ne.symm q63, q64, Ne.symm q64, q65, Ne.symm q65, q66, Ne.symm q66])
  have uc := u9 (m.β 1 (m.β 2 e)) (by simp [q1, Ne.symm q1, q2, Ne.symm q2, q3, Ne.symm q3, q4, Ne.symm q4, q5, Ne.symm q5, q6, Ne.symm q6, q7, Ne.symm q7, q8, Ne.symm q8, q9, Ne.symm q9, q10, Ne.symm q10, q11, Ne.symm q11, q12, Ne.symm q12, q13, Ne.symm q13, q14, Ne.symm q14, q15, Ne.symm q15, q16, Ne.symm q16, q17, Ne.symm q17, q18, Ne.symm q18, q19, Ne.symm q19, q20, Ne.symm q20, q21, Ne.symm q21, q22, Ne.symm q22, q23, Ne.symm q23, q24, Ne.symm q24, q25, Ne.symm q25, q26, Ne.symm q26, q27, Ne.symm q27, q28, Ne.symm q28, q29, Ne.symm q29, q30, Ne.symm q30, q31, Ne.symm q31, q32, Ne.symm q32, q33, Ne.symm q33, q34, Ne.symm q34, q35, Ne.symm q35, q36, Ne.symm q36, q37, Ne.symm q37, q38, Ne.symm q38, q39, Ne.symm q39, q40, Ne.symm q40, q41, Ne.symm q41, q42, Ne.symm q42, q43, Ne.symm q43, q44, Ne.symm q44, q45, Ne.symm q45, q46, Ne.symm q46, q47, Ne.symm q47, q48, Ne.symm q48, q49, Ne.symm q49, q50, Ne.symm q50, q51, Ne.symm q51, q52, Ne.symm q52, q53, Ne.symm q53, q54, Ne.symm q54, q55, Ne.symm q55, q56, Ne.symm q56, q57, Ne.symm q57, q58, Ne.symm q58, q59, Ne.symm q59, q60, Ne.symm q60, q61, Ne.symm q61, q62, Ne.symm q62, q63, Ne.symm q63, q64, Ne.symm q64, q65, Ne.symm q65, q66, Ne.symm q66])
  have ud := u9 (m.β 0 (m.β 2 e)) (by simp [q1, Ne.symm q1, q2, Ne.symm q2, q3, Ne.symm q3, q4, Ne.symm q4, q5, Ne.symm q5, q6, Ne.symm q6, q7, Ne.symm q7, q8, Ne.symm q8, q9, Ne.symm q9, q10, Ne.symm q10, q11, Ne.symm q11, q12, Ne.symm q12, q13, Ne.symm q13, q14, Ne.symm q14, q15, Ne.symm q15, q16, Ne.symm q16, q17, Ne.symm q17, q18, Ne.symm q18, q19, Ne.symm q19, q20, Ne.symm q20, q21, Ne.symm q21, q22, Ne.symm q22, q23, Ne.symm q23, q24, Ne.symm q24, q25, Ne.symm q25, q26, Ne.symm q26, q27, Ne.symm q27, q28, Ne.symm q28, q29, Ne.symm q29, q30, Ne.symm q30, q31, Ne.symm q31, q32, Ne.symm q32, q33, Ne.symm q33, q34, Ne.symm q34, q35, Ne.symm q35, q36, Ne.symm q36, q37, Ne.symm q37, q38, Ne.symm q38, q39, Ne.symm q39, q40, Ne.symm q40, q41, Ne.symm q41, q42, Ne.symm q42, q43, Ne.symm q43, q44, Ne.symm q44, q45, Ne.symm q45, q46, Ne.symm q46, q47, Ne.symm q47, q48, Ne.symm q48, q49, Ne.symm q49, q50, Ne.symm q50, q51, Ne.symm q51, q52, Ne.symm q52, q53, Ne.symm q53, q54, Ne.symm q54, q55, Ne.symm q55, q56, Ne.symm q56, q57, Ne.symm q57, q58, Ne.symm q58, q59, Ne.symm q59, q60, Ne.symm q60, q61, Ne.symm q61, q62, Ne.symm q62, q63, Ne.symm q63, q64, Ne.symm q64, q65, Ne.symm q65, q66, Ne.symm q66])
  obtain ⟨π, hπ⟩ : ∃ π, π = piInner (m.β 0 e) (m.β 0 (m.β 2 e)) n1 n2 n3 n4 n5 n6 := ⟨_, rfl⟩
  have pif : ∀ i y, π (m.β i y) = m.β i y := by
    intro i y; rw [hπ]; unfold piInner
    simp [beta_ne_spare hwf s2 i y, beta_ne_spare hwf s3 i y, beta_ne_spare hwf s4 i y, beta_ne_spare hwf s5 i y,
      beta_ne_spare hwf s6 i y]
  have πn1 : π n1 = n1 := by rw [hπ]; simp [piInner, q1, Ne.symm q1, q2, Ne.symm q2, q3, Ne.symm q3, q4, Ne.symm q4, q5, Ne.symm q5, q6, Ne.symm q6, q7, Ne.symm q7, q8, Ne.symm q8, q9, Ne.symm q9, q10, Ne.symm q10, q11, Ne.symm q11, q12, Ne.symm q12, q13, Ne.symm q13, q14, Ne.symm q14, q15, Ne.symm q15, q16, Ne.symm q16, q17, Ne.symm q17, q18, Ne.symm q18, q19, Ne.symm q19, q20, Ne.symm q20, q21, Ne.symm q21, q22, Ne.symm q22, q23, Ne.symm q23, q24, Ne.symm q24, q25, Ne.symm q25, q26, Ne.symm q26, q27, Ne.symm q27, q28, Ne.symm q28, q29, Ne.symm q29, q30, Ne.symm q30, q31, Ne.symm q31, q32, Ne.symm q32, q33, Ne.symm q33, q34, Ne.symm q34, q35, Ne.symm q35, q36, Ne.symm q36, q37, Ne.symm q37, q38, Ne.symm q38, q39, Ne.symm q39, q40, Ne.symm q40, q41, Ne.symm q41, q42, Ne.symm q42, q43, Ne.symm q43, q44, Ne.symm q44, q45, Ne.symm q45, q46, Ne.symm q46, q47, Ne.symm q47, q48, Ne.symm q48, q49, Ne.symm q49, q50, Ne.symm q50, q51, Ne.symm q51, q52, Ne.symm q52, q53, Ne.symm q53, q54, Ne.symm q54, q55, Ne.symm q55, q56, Ne.symm q56, q57, Ne.symm q57, q58, Ne.symm q58, q59, Ne.symm q59, q60, Ne.symm q60, q61, Ne.symm q61, q62, Ne.symm q62, q63, Ne.symm q63, q64, Ne.symm q64, q65, Ne.symm q65, q66, Ne.symm q66]
  have πn2 : π n2 = m.β 0 e := by rw [hπ]; simp [piInner, q1, Ne.symm q1, q2, Ne.symm q2, q3, Ne.symm q3, q4, Ne.symm q4, q5, Ne.symm q5, q6, Ne.symm q6, q7, Ne.symm q7, q8, Ne.symm q8, q9, Ne.symm q9, q10, Ne.symm q10, q11, Ne.symm q11, q12, Ne.symm q12, q13, Ne.symm q13, q14, Ne.symm q14, q15, Ne.symm q15, q16, Ne.symm q16, q17, Ne.symm q17, q18, Ne.symm q18, q19, Ne.symm q19, q20, Ne.symm q20, q21, Ne.symm q21, q22, Ne.symm q22, q23, Ne.symm q23, q24, Ne.symm q24, q25, Ne.symm q25, q26, Ne.symm q26, q27, Ne.symm q27, q28, Ne.symm q28, q29, Ne.symm q29, q30, Ne.symm q30, q31, Ne.symm q31, q32, Ne.symm q32, q33, Ne.symm q33, q34, Ne.symm q34, q35, Ne.symm q35, q36, Ne.symm q36, q37, Ne.symm q37, q38, Ne.symm q38, q39, Ne.symm q39, q40, Ne.symm q40, q41, Ne.symm q41, q42, Ne.symm q42, q43, Ne.symm q43, q44, Ne.symm q44, q45, Ne.symm q45, q46, Ne.symm q46, q47, Ne.symm q47, q48, Ne.symm q48, q49, Ne.symm q49, q50, Ne.symm q50, q51, Ne.symm q51, q52, Ne.symm q52, q53, Ne.symm q53, q54, Ne.symm q54, q55, Ne.symm q55, q56, Ne.symm q56, q57, Ne.symm q57, q58, Ne.symm q58, q59, Ne.symm q59, q60, Ne.symm q60, q61, Ne.symm q61, q62, Ne.symm q62, q63, Ne.symm q63, q64, Ne.symm q64, q65, Ne.symm q65, q66, Ne.symm q66]
  have πn3 : π n3 = n1 := by rw [hπ]; simp [piInner, q1, Ne.symm q1, q2, Ne.symm q2, q3, Ne.symm q3, q4, Ne.symm q4, q5, Ne.symm q5, q6, Ne.symm q6, q7, Ne.symm q7, q8, Ne.symm q8, q9, Ne.symm q9, q10, Ne.symm q10, q11, Ne.symm q11, q12, Ne.symm q12, q13, Ne.symm q13, q14, Ne.symm q14, q15, Ne.symm q15, q16, Ne.symm q16, q17, Ne.symm q17, q18, Ne.symm q18, q19, Ne.symm q19, q20, Ne.symm q20, q21, Ne.symm q21, q22, Ne.symm q22, q23, Ne.symm q23, q24, Ne.symm q24, q25, Ne.symm q25, q26, Ne.symm q26, q27, Ne.symm q27, q28, Ne.symm q28, q29, Ne.symm q29, q30, Ne.symm q30, q31, Ne.symm q31, q32, Ne.symm q32, q33, Ne.symm q33, q34, Ne.symm q34, q35, Ne.symm q35, q36, Ne.symm q36, q37, Ne.symm q37, q38, Ne.symm q38, q39, Ne.symm q39, q40, Ne.symm q40, q41, Ne.symm q41, q42, Ne.symm q42, q43, Ne.symm q43, q44, Ne.symm q44, q45, Ne.symm q45, q46, Ne.symm q46, q47, Ne.symm q47, q48, Ne.symm q48, q49, Ne.symm q49, q50, Ne.symm q50, q51, Ne.symm q51, q52, Ne.symm q52, q53, Ne.symm q53, q54, Ne.symm q54, q55, Ne.symm q55, q56, Ne.symm q56, q57, Ne.symm q57, q58, Ne.symm q58, q59, Ne.symm q59, q60, Ne.symm q60, q61, Ne.symm q61, q62, Ne.symm q62, q63, Ne.symm q63, q64, Ne.symm q64, q65, Ne.symm q65, q66, Ne.symm q66]
  have πn4 : π n4 = n1 := by rw [hπ]; simp [piInner, q1, Ne.symm q1, q2, Ne.symm q2, q3, Ne.symm q3, q4, Ne.symm q4, q5, Ne.symm q5, q6, Ne.symm q6, q7, Ne.symm q7, q8, Ne.symm q8, q9, Ne.symm q9, q10, Ne.symm q10, q11, Ne.symm q11, q12, Ne.symm q12, q13, Ne.symm q13, q14, Ne.symm q14, q15, Ne.symm q15, q16, Ne.symm q16, q17, Ne.symm q17, q18, Ne.symm q18, q19, Ne.symm q19, q20, Ne.symm q20, q21, Ne.symm q21, q22, Ne.symm q22, q23, Ne.symm q23, q24, Ne.symm q24, q25, Ne.symm q25, q26, Ne.symm q26, q27, Ne.symm q27, q28, Ne.symm q28, q29, Ne.symm q29, q30, Ne.symm q30, q31, Ne.symm q31, q32, Ne.symm q32, q33, Ne.symm q33, q34, Ne.symm q34, q35, Ne.symm q35, q36, Ne.symm q36, q37, Ne.symm q37, q38, Ne.symm q38, q39, Ne.symm q39, q40, Ne.symm q40, q41, Ne.symm q41, q42, Ne.symm q42, q43, Ne.symm q43, q44, Ne.symm q44, q45, Ne.symm q45, q46, Ne.symm q46, q47, Ne.symm q47, q48, Ne.symm q48, q49, Ne.symm q49, q50, Ne.symm q50, q51, Ne.symm q51, q52, Ne.symm q52, q53, Ne.symm q53, q54, Ne.symm q54, q55, Ne.symm q55, q56, Ne.symm q56, q57, Ne.symm q57, q58, Ne.symm q58, q59, Ne.symm q59, q60, Ne.symm q60, q61, Ne.symm q61, q62, Ne.symm q62, q63, Ne.symm q63, q64, Ne.symm q64, q65, Ne.symm q65, q66, Ne.symm q66]
  have πn5 : π n5 = m.β 0 (m.β 2 e) := by rw [hπ]; simp [piInner, q1, Ne.symm q1, q2, Ne.symm q2, q3, Ne.symm q3, q4, Ne.symm q4, q5, Ne.symm q5, q6, Ne.symm q6, q7, Ne.symm q7, q8, Ne.symm q8, q9, Ne.symm q9, q10, Ne.symm q10, q11, Ne.symm q11, q12, Ne.symm q12, q13, Ne.symm q13, q14, Ne.symm q14, q15, Ne.symm q15, q16, Ne.symm q16, q17, Ne.symm q17, q18, Ne.symm q18, q19, Ne.symm q19, q20, Ne.symm q20, q21, Ne.symm q21, q22, Ne.symm q22, q23, Ne.symm q23, q24, Ne.symm q24, q25, Ne.symm q25, q26, Ne.symm q26, q27, Ne.symm q27, q28, Ne.symm q28, q29, Ne.symm q29, q30, Ne.symm q30, q31, Ne.symm q31, q32, Ne.symm q32, q33, Ne.symm q33, q34, Ne.symm q34, q35, Ne.symm q35, q36, Ne.symm q36, q37, Ne.symm q37, q38, Ne.symm q38, q39, Ne.symm q39, q40, Ne.symm q40, q41, Ne.symm q41, q42, Ne.symm q42, q43, Ne.symm q43, q44, Ne.symm q44, q45, Ne.symm q45, q46, Ne.symm q46, q47, Ne.symm q47, q48, Ne.symm q48, q49, Ne.symm q49, q50, Ne.symm q50, q51, Ne.symm q51, q52, Ne.symm q52, q53, Ne.symm q53, q54, Ne.symm q54, q55, Ne.symm q55, q56, Ne.symm q56, q57, Ne.symm q57, q58, Ne.symm q58, q59, Ne.symm q59, q60, Ne.symm q60, q61, Ne.symm q61, q62, Ne.symm q62, q63, Ne.symm q63, q64, Ne.symm q64, q65, Ne.symm q65, q66, Ne.symm q66]
  have πn6 : π n6 = n1 := by rw [hπ]; simp [piInner, q1, Ne.symm q1, q2, Ne.symm q2, q3, Ne.symm q3, q4, Ne.symm q4, q5, Ne.symm q5, q6, Ne.symm q6, q7, Ne.symm q7, q8, Ne.symm q8, q9, Ne.symm q9, q10, Ne.symm q10, q11, Ne.symm q11, q12, Ne.symm q12, q13, Ne.symm q13, q14, Ne.symm q14, q15, Ne.symm q15, q16, Ne.symm q16, q17, Ne.symm q17, q18, Ne.symm q18, q19, Ne.symm q19, q20, Ne.symm q20, q21, Ne.symm q21, q22, Ne.symm q22, q23, Ne.symm q23, q24, Ne.symm q24, q25, Ne.symm q25, q26, Ne.symm q26, q27, Ne.symm q27, q28, Ne.symm q28, q29, Ne.symm q29, q30, Ne.symm q30, q31, Ne.symm q31, q32, Ne.symm q32, q33, Ne.symm q33, q34, Ne.symm q34, q35, Ne.symm q35, q36, Ne.symm q36, q37, Ne.symm q37, q38, Ne.symm q38, q39, Ne.symm q39, q40, Ne.symm q40, q41, Ne.symm q41, q42, Ne.symm q42, q43, Ne.symm q43, q44, Ne.symm q44, q45, Ne.symm q45, q46, Ne.symm q46, q47, Ne.symm q47, q48, Ne.symm q48, q49, Ne.symm q49, q50, Ne.symm q50, q51, Ne.symm q51, q52, Ne.symm q52, q53, Ne.symm q53, q54, Ne.symm q54, q55, Ne.symm q55, q56, Ne.symm q56, q57, Ne.symm q57, q58, Ne.symm q58, q59, Ne.symm q59, q60, Ne.symm q60, q61, Ne.symm q61, q62, Ne.symm q62, q63, Ne.symm q63, q64, Ne.symm q64, q65, Ne.symm q65, q66, Ne.symm q66]
  have πe : π e = e := by rw [hπ]; simp [piInner, q1, Ne.symm q1, q2, Ne.symm q2, q3, Ne.symm q3, q4, Ne.symm q4, q5, Ne.symm q5, q6, Ne.symm q6, q7, Ne.symm q7, q8, Ne.symm q8, q9, Ne.symm q9, q10, Ne.symm q10, q11, Ne.symm q11, q12, Ne.symm q12, q13, Ne.symm q13, q14, Ne.symm q14, q15, Ne.symm q15, q16, Ne.symm q16, q17, Ne.symm q17, q18, Ne.symm q18, q19, Ne.symm q19, q20, Ne.symm q20, q21, Ne.symm q21, q22, Ne.symm q22, q23, Ne.symm q23, q24, Ne.symm q24, q25, Ne.symm q25, q26, Ne.symm q26, q27, Ne.symm q27, q28, Ne.symm q28, q29, Ne.symm q29, q30, Ne.symm q30, q31, Ne.symm q31, q32, Ne.symm q32, q33, Ne.symm q33, q34, Ne.symm q34, q35, Ne.symm q35, q36, Ne.symm q36, q37, Ne.symm q37, q38, Ne.symm q38, q39, Ne.symm q39, q40, Ne.symm q40, q41, Ne.symm q41, q42, Ne.symm q42, q43, Ne.symm q43, q44, Ne.symm q44, q45, Ne.symm q45, q46, Ne.symm q46, q47, Ne.symm q47, q48, Ne.symm q48, q49, Ne.symm q49, q50, Ne.symm q50, q51, Ne.symm q51, q52, Ne.symm q52, q53, Ne.symm q53, q54, Ne.symm q54, q55, Ne.symm q55, q56, Ne.symm q56, q57, Ne.symm q57, q58, Ne.symm q58, q59, Ne.symm q59, q60, Ne.symm q60, q61, Ne.symm q61, q62, Ne.symm q62, q63, Ne.symm q63, q64, Ne.symm q64, q65, Ne.symm q65, q66, Ne.symm q66]
  have πfix : ∀ x, x ∉ [n1, n2, n3, n4, n5, n6] → π x = x := by
    intro x hx; simp only [List.mem_cons, List.mem_nil_iff, not_or, or_false] at hx
    rw [hπ]; simp [piInner, hx.2.1, hx.2.2.1, hx.2.2.2.1, hx.2.2.2.2.1, hx.2.2.2.2.2]
  have πne : ∀ y, y ≠ 0 → π y ≠ 0 := by
    intro y hy
    by_cases hyT : y ∈ [n1, n2, n3, n4, n5, n6]
    · simp only [List.mem_cons, List.mem_nil_iff, or_false] at hyT
      rcases hyT with rfl | rfl | rfl | rfl | rfl | rfl
      · rw [πn1]; exact hy
      · rw [πn2]; exact hb
      · rw [πn3]; exact s1.1.1
      · rw [πn4]; exact s1.1.1
      · rw [πn5]; exact hd
      · rw [πn6]; exact s1.1.1
    · rw [πfix y hyT]; exact hy
  have P1 : ∀ z, m.β 2 z ≠ 0 → m.β 1 z ≠ 0 → Reach (vg m'.β) (m.β 2 z) (m.β 1 z) := by
    intro z z2 z1
    by_cases hz : z ∈ [e, m.β 2 e, m.β 1 e, m.β 0 e, m.β 1 (m.β 2 e), m.β 0 (m.β 2 e), n1, n2, n3, n4, n5, n6]
    · simp only [List.mem_cons, List.mem_nil_iff, or_false] at hz
      rcases hz with hz | hz | hz | hz | hz | hz | hz | hz | hz | hz | hz | hz <;> subst hz
      · exact pair_reach hf' n3 u4 p4 hr0 a0
      · rw [er]; exact pair_reach hf' n6 u2 p10 he.1 c0
      · rw [htl]
        exact (pair_reach hf' (m.β 1 e) ua p5 z2 s2.1.1).trans (pair_reach hf' n1 u5 p2 s2.1.1 hb)
      · rw [p3']; exact pair_reach hf' (m.β 0 e) ub p3 z2 he.1
      · rw [htr]
        exact (pair_reach hf' (m.β 1 (m.β 2 e)) uc p11 z2 s5.1.1).trans (pair_reach hf' n4 u7 p8 s5.1.1 hd)
      · rw [q3']; exact pair_reach hf' (m.β 0 (m.β 2 e)) ud p9 z2 hr0
      · exact absurd (s1.β 1 (by omega)) z1
      · exact absurd (s2.β 1 (by omega)) z1
      · exact absurd (s3.β 1 (by omega)) z1
      · exact absurd (s4.β 1 (by omega)) z1
      · exact absurd (s5.β 1 (by omega)) z1
      · exact absurd (s6.β 1 (by omega)) z1
    · exact pair_reach hf' z (fr 2 z hz) (fr 1 z hz) z2 z1
  have P2 : ∀ z, m'.β 2 z ≠ 0 → m'.β 1 z ≠ 0 → Reach (vg m.β) (π (m'.β 2 z)) (π (m'.β 1 z)) := by
    intro z z2 z1
    by_cases hz : z ∈ [e, m.β 2 e, m.β 1 e, m.β 0 e, m.β 1 (m.β 2 e), m.β 0 (m.β 2 e), n1, n2, n3, n4, n5, n6]
    · simp only [List.mem_cons, List.mem_nil_iff, or_false] at hz
      rcases hz with hz | hz | hz | hz | hz | hz | hz | hz | hz | hz | hz | hz <;> subst hz
      · rw [u1, p1, πn6, πn1]; exact .refl _
      · rw [u3, p7, πn3, πn4]; exact .refl _
      · rw [ua] at z2 ⊢; rw [p5, πn2, pif 2]; exact pair_reach hf (m.β 1 e) rfl htl z2 hb
      · rw [ub] at z2 ⊢; rw [p3, pif 2, πe]; exact pair_reach hf (m.β 0 e) rfl p3' z2 he.1
      · rw [uc] at z2 ⊢; rw [p11, πn5, pif 2]; exact pair_reach hf (m.β 1 (m.β 2 e)) rfl htr z2 hd
      · rw [ud] at z2 ⊢; rw [p9, pif 2, pif 2]; exact pair_reach hf (m.β 0 (m.β 2 e)) rfl q3' z2 hr0
      · rw [u5, p2, πn2, pif 0]; exact .refl _
      · rw [u6, p6, πn1, πn3]; exact .refl _
      · rw [u4, p4, pif 2, pif 1]; exact pair_reach hf e rfl rfl hr0 a0
      · rw [u7, p8, πn5, pif 0]; exact .refl _
      · rw [u8, p12, πn4, πn6]; exact .refl _
      · rw [u2, p10, πe, pif 1]; exact pair_reach hf (m.β 2 e) er rfl he.1 c0
    · rw [fr 2 z hz] at z2 ⊢; rw [fr 1 z hz] at z1 ⊢; rw [pif, pif]; exact pair_reach hf z rfl rfl z2 z1
  have steps := vertex_steps_of_pairs hf hf' π pif πne P1 P2
  have π0 : π 0 = 0 := πfix 0 (by simp [Ne.symm s1.1.1, Ne.symm s2.1.1, Ne.symm s3.1.1, Ne.symm s4.1.1, Ne.symm s5.1.1, Ne.symm s6.1.1])
  have hreach := fun p q => reach_equiv_of_projection (g := g2 m .vertex) (g' := g2 m' .vertex)
    π (g2_null hwf .vertex trivial) (g2_null hw' .vertex trivial) π0 steps.1 steps.2 (p := p) (q := q)
  have same' : ∀ x y, Spare m x → y ≠ 0 → y < m.n → y ∈ g2 m' .vertex x →
      cellId m' .vertex x = cellId m' .vertex y := fun x y sx y0 yn hxy =>
    (C03_same_id_iff_same_cell hw' (pol := .vertex) trivial sx.1.1 (by rw [hn']; exact sx.1.2.1) y0
      (by rw [hn']; exact yn)).1.2 (Reach.single hxy)
  have c13 := same' n1 n3 s1 s3.1.1 s3.1.2.1 (by simp [g2, u5, p6])
  have c34 := same' n3 n4 s3 s4.1.1 s4.1.2.1 (by simp [g2, u4, p7])
  have c46 := same' n4 n6 s4 s6.1.1 s6.1.2.1 (by simp [g2, u7, p12])
  have c2b := same' n2 (m.β 0 e) s2 hb hbn (by simp [g2, u6, p2])
  have c5d := same' n5 (m.β 0 (m.β 2 e)) s5 hd hdn (by simp [g2, u8, p8])
  have inuse : ∀ i x, i < 3 → x < m.n → m.β i x ≠ 0 → m.unused (m.β i x) = false := by
    intro i x hi hx h0
    cases hx' : m.unused (m.β i x) with
    | false => rfl
    | true => exact absurd (C01.C01_unused_is_nobodys_image hwf i hi x hx hx') h0
  have cnt := iterVertices_count hwf hw' hn' hu' [n1, n2, n3, n4, n5, n6] [cellId m' .vertex n1] π hs
    (by simp [q1, Ne.symm q1, q2, Ne.symm q2, q3, Ne.symm q3, q4, Ne.symm q4, q5, Ne.symm q5, q6, Ne.symm q6, q7, Ne.symm q7, q8, Ne.symm q8, q9, Ne.symm q9, q10, Ne.symm q10, q11, Ne.symm q11, q12, Ne.symm q12, q13, Ne.symm q13, q14, Ne.symm q14, q15, Ne.symm q15, q16, Ne.symm q16, q17, Ne.symm q17, q18, Ne.symm q18, q19, Ne.symm q19, q20, Ne.symm q20, q21, Ne.symm q21, q22, Ne.symm q22, q23, Ne.symm q23, q24, Ne.symm q24, q25, Ne.symm q25, q26, Ne.symm q26, q27, Ne.symm q27, q28, Ne.symm q28, q29, Ne.symm q29, q30, Ne.symm q30, q31, Ne.symm q31, q32, Ne.symm q32, q33, Ne.symm q33, q34, Ne.symm q34, q35, Ne.symm q35, q36, Ne.symm q36, q37, Ne.symm q37, q38, Ne.symm q38, q39, Ne.symm q39, q40, Ne.symm q40, q41, Ne.symm q41, q42, Ne.symm q42, q43, Ne.symm q43, q44, Ne.symm q44, q45, Ne.symm q45, q46, Ne.symm q46, q47, Ne.symm q47, q48, Ne.symm q48, q49, Ne.symm q49, q50, Ne.symm q50, q51, Ne.symm q51, q52, Ne.symm q52, q53, Ne.symm q53, q54, Ne.symm q54, q55, Ne.symm q55, q56, Ne.symm q56, q57, Ne.symm q57, q58, Ne.symm q58, q59, Ne.symm q59, q60, Ne.symm q60, q61, Ne.symm q61, q62, Ne.symm q62, q63, Ne.symm q63, q64, Ne.symm q64, q65, Ne.symm q65, q66, Ne.symm q66]) (by simp) πfix (fun p q hp hq => hreach p q hp hq) ?_ ?_
  · simp at cnt; omega
  · intro t ht
    simp only [List.mem_cons, List.mem_nil_iff, or_false] at ht
    rcases ht with rfl | rfl | rfl | rfl | rfl | rfl
    · right; rw [πn1]; simp
    · left; rw [πn2]; exact ⟨by simp [q1, Ne.symm q1, q2, Ne.symm q2, q3, Ne.symm q3, q4, Ne.symm q4, q5, Ne.symm q5, q6, Ne.symm q6, q7, Ne.symm q7, q8, Ne.symm q8, q9, Ne.symm q9, q10, Ne.symm q10, q11, Ne.symm q11, q12, Ne.symm q12, q13, Ne.symm q13, q14, Ne.symm q14, q15, Ne.symm q15, q16, Ne.symm q16, q17, Ne.symm q17, q18, Ne.symm q18, q19, Ne.symm q19, q20, Ne.symm q20, q21, Ne.symm q21, q22, Ne.symm q22, q23, Ne.symm q23, q24, Ne.symm q24, q25, Ne.symm q25, q26, Ne.symm q26, q27, Ne.symm q27, q28, Ne.symm q28, q29, Ne.symm q29, q30, Ne.symm q30, q31, Ne.symm q31, q32, Ne.symm q32, q33, Ne.symm q33, q34, Ne.symm q34, q35, Ne.symm q35, q36, Ne.symm q36, q37, Ne.symm q37, q38, Ne.symm q38, q39, Ne.symm q39, q40, Ne.symm q40, q41, Ne.symm q41, q42, Ne.symm q42, q43, Ne.symm q43, q44, Ne.symm q44, q45, Ne.symm q45, q46, Ne.symm q46, q47, Ne.symm q47, q48, Ne.symm q48, q49, Ne.symm q49, q50, Ne.symm q50, q51, Ne.symm q51, q52, Ne.symm q52, q53, Ne.symm q53, q54, Ne.symm q54, q55, Ne.symm q55, q56, Ne.symm q56, q57, Ne.symm q57, q58, Ne.symm q58, q59, Ne.symm q59, q60, Ne.symm q60, q61, Ne.symm q61, q62, Ne.symm q62, q63, Ne.symm q63, q64, Ne.symm q64, q65, Ne.symm q65, q66, Ne.symm q66], hb, hbn, inuse 0 e (by omega) hn hb, c2b⟩
    · right; rw [πn3]; simp [c13]
    · right; rw [πn4]; simp [c13, c34]
    · left; rw [πn5]; exact ⟨by simp [q1, Ne.symm q1, q2, Ne.symm q2, q3, Ne.symm q3, q4, Ne.symm q4, q5, Ne.symm q5, q6, Ne.symm q6, q7, Ne.symm q7, q8, Ne.symm q8, q9, Ne.symm q9, q10, Ne.symm q10, q11, Ne.symm q11, q12, Ne.symm q12, q13, Ne.symm q13, q14, Ne.symm q14, q15, Ne.symm q15, q16, Ne.symm q16, q17, Ne.symm q17, q18, Ne.symm q18, q19, Ne.symm q19, q20, Ne.symm q20, q21, Ne.symm q21, q22, Ne.symm q22, q23, Ne.symm q23, q24, Ne.symm q24, q25, Ne.symm q25, q26, Ne.symm q26, q27, Ne.symm q27, q28, Ne.symm q28, q29, Ne.symm q29, q30, Ne.symm q30, q31, Ne.symm q31, q32, Ne.symm q32, q33, Ne.symm q33, q34, Ne.symm q34, q35, Ne.symm q35, q36, Ne.symm q36, q37, Ne.symm q37, q38, Ne.symm q38, q39, Ne.symm q39, q40, Ne.symm q40, q41, Ne.symm q41, q42, Ne.symm q42, q43, Ne.symm q43, q44, Ne.symm q44, q45, Ne.symm q45, q46, Ne.symm q46, q47, Ne.symm q47, q48, Ne.symm q48, q49, Ne.symm q49, q50, Ne.symm q50, q51, Ne.symm q51, q52, Ne.symm q52, q53, Ne.symm q53, q54, Ne.symm q54, q55, Ne.symm q55, q56, Ne.symm q56, q57, Ne.symm q57, q58, Ne.symm q58, q59, Ne.symm q59, q60, Ne.symm q60, q61, Ne.symm q61, q62, Ne.symm q62, q63, Ne.symm q63, q64, Ne.symm q64, q65, Ne.symm q65, q66, Ne.symm q66], hd, hdn, inuse 0 _ (by omega) hr hd, c5d⟩
    · right; rw [πn6]; simp [c13, c34, c46]
  · intro y hy
    simp only [List.mem_cons, List.mem_nil_iff, or_false] at hy
    subst hy
    exact ⟨n1, by simp, by rw [πn1]; simp, rfl⟩

end HC.C15
