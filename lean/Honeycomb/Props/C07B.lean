/-
  C07 at lock granularity (granularity B): serializability survives every interleaving of the
  individual lock acquisitions of `Transaction::commit` (validation of each variable under its
  own lock, read locks held until every variable of the log is locked), with blocking.
  Model: `Model/StmProtoB.lean`.  Theorem `C07_serializable_B`.
-/
import Honeycomb.Model.StmProtoB
import Honeycomb.Props.C07

set_option linter.unusedSimpArgs false
set_option linter.unusedVariables false

namespace HC.C07B
open HC HC.Proto HC.ProtoB HC.C07 Store

variable {Var Val ε α : Type} [DecidableEq Var] [DecidableEq α]

/-! ## small facts -/

theorem publish_unwritten (ws : List (Var × Val)) (st : VStore Var Val) (v : Var)
    (h : ∀ p ∈ ws, p.1 ≠ v) : publish ws st v = st v := by
  induction ws with
  | nil => rfl
  | cons p ps ih =>
      simp only [publish, List.foldr]
      have hp : p.1 ≠ v := h p (by simp)
      simp only [hp, if_false]
      exact ih (fun q hq => h q (by simp [hq]))

theorem wrote_iff (t : Thread Var Val ε α) (v : Var) :
    wrote t v = true ↔ ∃ p ∈ t.att.writes, p.1 = v := by
  unfold wrote; simp [List.any_eq_true]

theorem wrote_mem_logVars (t : Thread Var Val ε α) (v : Var) (h : wrote t v = true) : v ∈ logVars t := by
  obtain ⟨p, hp, rfl⟩ := (wrote_iff t v).1 h
  unfold logVars
  exact List.mem_append_right _ (List.mem_map.2 ⟨p, hp, rfl⟩)

theorem read_mem_logVars (t : Thread Var Val ε α) (r : Var × Val × Nat) (h : r ∈ t.att.reads) :
    r.1 ∈ logVars t := by
  unfold logVars
  exact List.mem_append_left _ (List.mem_map.2 ⟨r, h, rfl⟩)

/-- a step of the closure (anything but `ret`) neither touches shared memory nor commits -/
theorem threadStep_not_ret (t : Thread Var Val ε α) (st : VStore Var Val)
    (h : ∀ a, t.att.pc ≠ .ret a) : (threadStep t st).2 = (st, none) := by
  rcases threadStep_cases t st with hc | ⟨_, _, a, _, hpc, _, _⟩
  · exact hc
  · exact absurd hpc (h a)

theorem getElem?_set_ne {β : Type} (l : List β) (i j : Nat) (x : β) (h : i ≠ j) :
    (l.set i x)[j]? = l[j]? := by
  simp [List.getElem?_set, h]

theorem getElem?_set_self {β : Type} (l : List β) (i : Nat) (x y : β) (h : l[i]? = some y) :
    (l.set i x)[i]? = some x := by
  have : i < l.length := by
    rcases Nat.lt_or_ge i l.length with h1 | h1
    · exact h1
    · rw [List.getElem?_eq_none h1] at h; cases h
  simp [List.getElem?_set, this]

theorem lt_of_getElem? {β : Type} {l : List β} {i : Nat} {y : β} (h : l[i]? = some y) : i < l.length := by
  rcases Nat.lt_or_ge i l.length with h1 | h1
  · exact h1
  · rw [List.getElem?_eq_none h1] at h; cases h

theorem otherHolds_false {s : SysB Var Val ε α} {i : Nat} {v : Var} (h : otherHolds s i v = false)
    {j : Nat} {u : ThreadB Var Val ε α} (hij : j ≠ i) (hu : s.threads[j]? = some u) : heldBy u v = false := by
  unfold otherHolds at h
  rw [List.any_eq_false] at h
  have := h j (List.mem_range.2 (lt_of_getElem? hu))
  simp only [hu, Bool.and_eq_true, decide_eq_true_eq, not_and] at this
  have := this hij
  simpa using this

theorem otherWriteHolds_false {s : SysB Var Val ε α} {i : Nat} {v : Var} (h : otherWriteHolds s i v = false)
    {j : Nat} {u : ThreadB Var Val ε α} (hij : j ≠ i) (hu : s.threads[j]? = some u)
    (hh : heldBy u v = true) : wrote u.th v = false := by
  unfold otherWriteHolds at h
  rw [List.any_eq_false] at h
  have := h j (List.mem_range.2 (lt_of_getElem? hu))
  simp only [hu, Bool.and_eq_true, decide_eq_true_eq, not_and] at this
  have := this hij hh
  simpa using this

/-! ## the invariant -/

/-- what holds of a thread inside `commit()` -/
structure CommitInv (tb : ThreadB Var Val ε α) (st : VStore Var Val) (todo held : List Var) : Prop where
  pc : ∃ a, tb.th.att.pc = .ret a
  valid : ∀ r ∈ tb.th.att.reads, r.1 ∈ held → (st r.1).2 = r.2.2
  cover : ∀ v ∈ logVars tb.th, v ∈ held ∨ v ∈ todo

structure SInvB (init : Var → Val) (s : SysB Var Val ε α) : Prop where
  thr : ∀ tb ∈ s.threads, TInv tb.th s.store
  rep : replay s.commits init = some (vals s.store)
  com : ∀ (j : Nat) (u : ThreadB Var Val ε α), s.threads[j]? = some u →
    ∀ todo held, u.ph = some (todo, held) → CommitInv u s.store todo held
  excl : ∀ (i j : Nat) (tbi tbj : ThreadB Var Val ε α), i ≠ j → s.threads[i]? = some tbi → s.threads[j]? = some tbj →
    ∀ v, heldBy tbi v = true → heldBy tbj v = true → wrote tbi.th v = false ∧ wrote tbj.th v = false

theorem heldBy_none (t : Thread Var Val ε α) (v : Var) :
    heldBy ({ th := t, ph := none } : ThreadB Var Val ε α) v = false := rfl

/-- updating thread `i` (and possibly shared memory): the commit invariant of the new state of
    thread `i` and its transport for the other threads give the commit invariant of the system -/
theorem com_set {s : SysB Var Val ε α} {i : Nat} {tb tb' : ThreadB Var Val ε α} {st' : VStore Var Val}
    (hcom : ∀ (j : Nat) (u : ThreadB Var Val ε α), s.threads[j]? = some u →
      ∀ todo held, u.ph = some (todo, held) → CommitInv u s.store todo held)
    (hti : s.threads[i]? = some tb)
    (hnew : ∀ todo held, tb'.ph = some (todo, held) → CommitInv tb' st' todo held)
    (hothers : ∀ (j : Nat) (u : ThreadB Var Val ε α), j ≠ i → s.threads[j]? = some u →
      ∀ todo held, u.ph = some (todo, held) → CommitInv u s.store todo held → CommitInv u st' todo held) :
    ∀ (j : Nat) (u : ThreadB Var Val ε α), (s.threads.set i tb')[j]? = some u →
      ∀ todo held, u.ph = some (todo, held) → CommitInv u st' todo held := by
  intro j u hj todo held hp
  by_cases hji : j = i
  · subst hji
    rw [getElem?_set_self _ _ _ _ hti] at hj
    simp only [Option.some.injEq] at hj; subst hj
    exact hnew todo held hp
  · rw [getElem?_set_ne _ _ _ _ (fun hh => hji hh.symm)] at hj
    exact hothers j u hji hj todo held hp (hcom j u hj todo held hp)

/-- replacing thread `i` by one that holds a SUBSET of what it held (and wrote the same) keeps
    exclusivity; used for every step that does not acquire a lock -/
theorem excl_set_shrink {s : SysB Var Val ε α} {i : Nat} {tb tb' : ThreadB Var Val ε α}
    (hex : ∀ (i j : Nat) (tbi tbj : ThreadB Var Val ε α), i ≠ j → s.threads[i]? = some tbi → s.threads[j]? = some tbj →
      ∀ v, heldBy tbi v = true → heldBy tbj v = true → wrote tbi.th v = false ∧ wrote tbj.th v = false)
    (hi : s.threads[i]? = some tb)
    (hsub : ∀ v, heldBy tb' v = true → heldBy tb v = true ∧ wrote tb'.th v = wrote tb.th v) :
    ∀ (a b : Nat) (ta tb2 : ThreadB Var Val ε α), a ≠ b → (s.threads.set i tb')[a]? = some ta → (s.threads.set i tb')[b]? = some tb2 →
      ∀ v, heldBy ta v = true → heldBy tb2 v = true → wrote ta.th v = false ∧ wrote tb2.th v = false := by
  intro a b ta tb2 hab ha hb v hva hvb
  by_cases hai : a = i
  · subst hai
    rw [getElem?_set_self _ _ _ _ hi] at ha
    simp only [Option.some.injEq] at ha; subst ha
    rw [getElem?_set_ne _ _ _ _ hab] at hb
    obtain ⟨h1, h2⟩ := hsub v hva
    have := hex a b tb tb2 hab hi hb v h1 hvb
    rw [h2]; exact this
  · by_cases hbi : b = i
    · subst hbi
      rw [getElem?_set_self _ _ _ _ hi] at hb
      simp only [Option.some.injEq] at hb; subst hb
      rw [getElem?_set_ne _ _ _ _ (fun h => hai h.symm)] at ha
      obtain ⟨h1, h2⟩ := hsub v hvb
      have := hex a b ta tb hab ha hi v hva h1
      rw [h2]; exact this
    · rw [getElem?_set_ne _ _ _ _ (fun h => hai h.symm)] at ha
      rw [getElem?_set_ne _ _ _ _ (fun h => hbi h.symm)] at hb
      exact hex a b ta tb2 hab ha hb v hva hvb

/-! ## steps of the closure (the thread is not inside `commit()`) -/

theorem inv_astep {init : Var → Val} {s : SysB Var Val ε α} {i : Nat} {tb : ThreadB Var Val ε α}
    (h : SInvB init s) (hti : s.threads[i]? = some tb) (hph : tb.ph = none)
    (hnr : ∀ a, tb.th.att.pc ≠ .ret a) :
    SInvB init { s with store := (threadStep tb.th s.store).2.1
                        threads := s.threads.set i { th := (threadStep tb.th s.store).1, ph := none } } := by
  have htm : tb ∈ s.threads := List.mem_of_getElem? hti
  have hst : (threadStep tb.th s.store).2.1 = s.store := by rw [threadStep_not_ret _ _ hnr]
  rw [hst]
  have hnew : heldBy ({ th := (threadStep tb.th s.store).1, ph := none } : ThreadB Var Val ε α) = fun _ => false := by
    funext v; rfl
  constructor
  · intro u hu
    rcases List.mem_or_eq_of_mem_set hu with hu | rfl
    · exact h.thr u hu
    · have := threadStep_inv tb.th s.store (h.thr tb htm)
      rw [hst] at this; exact this
  · exact h.rep
  · apply com_set h.com hti
    · intro todo held hp; cases hp
    · intro j u _ _ todo held _ hc; exact hc
  · apply excl_set_shrink h.excl hti
    intro v hv
    rw [hnew] at hv; cases hv

/-! ## entering `commit()` -/

theorem inv_enter {init : Var → Val} {s : SysB Var Val ε α} {i : Nat} {tb : ThreadB Var Val ε α} {a : α}
    (ord : List Var → List Var) (hord : ∀ l v, v ∈ l → v ∈ ord l)
    (h : SInvB init s) (hti : s.threads[i]? = some tb) (hph : tb.ph = none) (hpc : tb.th.att.pc = .ret a) :
    SInvB init { s with threads := s.threads.set i { th := tb.th, ph := some (ord (logVars tb.th), []) } } := by
  have htm : tb ∈ s.threads := List.mem_of_getElem? hti
  constructor
  · intro u hu
    rcases List.mem_or_eq_of_mem_set hu with hu | rfl
    · exact h.thr u hu
    · exact h.thr tb htm
  · exact h.rep
  · apply com_set h.com hti
    · intro todo held hp
      simp only [Option.some.injEq, Prod.mk.injEq] at hp
      obtain ⟨rfl, rfl⟩ := hp
      exact ⟨⟨a, hpc⟩, fun r _ hr => absurd hr (by simp), fun v hv => Or.inr (hord _ v hv)⟩
    · intro j u _ _ todo held _ hc; exact hc
  · apply excl_set_shrink h.excl hti
    intro v hv
    simp [heldBy] at hv

/-! ## inside `commit()`: a variable that is already locked is skipped -/

theorem inv_skip {init : Var → Val} {s : SysB Var Val ε α} {i : Nat} {tb : ThreadB Var Val ε α}
    {v : Var} {todo held : List Var}
    (h : SInvB init s) (hti : s.threads[i]? = some tb) (hph : tb.ph = some (v :: todo, held))
    (hc : held.contains v = true) :
    SInvB init { s with threads := s.threads.set i { th := tb.th, ph := some (todo, held) } } := by
  have htm : tb ∈ s.threads := List.mem_of_getElem? hti
  have hci := h.com i tb hti _ _ hph
  have hvh : v ∈ held := by simpa using hc
  constructor
  · intro u hu
    rcases List.mem_or_eq_of_mem_set hu with hu | rfl
    · exact h.thr u hu
    · exact h.thr tb htm
  · exact h.rep
  · apply com_set h.com hti
    · intro todo' held' hp
      simp only [Option.some.injEq, Prod.mk.injEq] at hp
      obtain ⟨rfl, rfl⟩ := hp
      refine ⟨hci.pc, hci.valid, ?_⟩
      intro w hw
      rcases hci.cover w hw with h1 | h1
      · exact Or.inl h1
      · rcases List.mem_cons.1 h1 with rfl | h2
        · exact Or.inl hvh
        · exact Or.inr h2
    · intro j u _ _ todo' held' _ hc; exact hc
  · apply excl_set_shrink h.excl hti
    intro w hw
    refine ⟨?_, rfl⟩
    simp only [heldBy, hph] at hw ⊢
    exact hw

/-! ## inside `commit()`: a failed validation releases everything and restarts the attempt -/

theorem inv_restart {init : Var → Val} {s : SysB Var Val ε α} {i : Nat} {tb : ThreadB Var Val ε α}
    (h : SInvB init s) (hti : s.threads[i]? = some tb) :
    SInvB init { s with threads := s.threads.set i { th := tb.th.restart, ph := none } } := by
  have htm : tb ∈ s.threads := List.mem_of_getElem? hti
  constructor
  · intro u hu
    rcases List.mem_or_eq_of_mem_set hu with hu | rfl
    · exact h.thr u hu
    · exact ⟨pcOK_fresh (Var := Var) (Val := Val) tb.th.todo tb.th.results, versOK_nil _⟩
  · exact h.rep
  · apply com_set h.com hti
    · intro todo held hp; cases hp
    · intro j u _ _ todo held _ hc; exact hc
  · apply excl_set_shrink h.excl hti
    intro w hw
    simp [heldBy] at hw

/-! ## inside `commit()`: taking the lock of the next variable, validated under the lock -/

theorem inv_lock {init : Var → Val} {s : SysB Var Val ε α} {i : Nat} {tb : ThreadB Var Val ε α}
    {v : Var} {todo held : List Var}
    (h : SInvB init s) (hti : s.threads[i]? = some tb) (hph : tb.ph = some (v :: todo, held))
    (hval : validAt tb.th s.store v = true)
    (hfree : (wrote tb.th v = true ∧ otherHolds s i v = false) ∨
             (wrote tb.th v = false ∧ otherWriteHolds s i v = false)) :
    SInvB init { s with threads := s.threads.set i { th := tb.th, ph := some (todo, v :: held) } } := by
  have htm : tb ∈ s.threads := List.mem_of_getElem? hti
  have hci := h.com i tb hti _ _ hph
  constructor
  · intro u hu
    rcases List.mem_or_eq_of_mem_set hu with hu | rfl
    · exact h.thr u hu
    · exact h.thr tb htm
  · exact h.rep
  · apply com_set h.com hti
    · intro todo' held' hp
      simp only [Option.some.injEq, Prod.mk.injEq] at hp
      obtain ⟨rfl, rfl⟩ := hp
      refine ⟨hci.pc, ?_, ?_⟩
      · intro r hr hrv
        rcases List.mem_cons.1 hrv with e | h2
        · unfold validAt at hval
          rw [List.all_eq_true] at hval
          have := hval r hr
          simp only [Bool.or_eq_true, decide_eq_true_eq, bne_iff_ne, ne_eq] at this
          rcases this with h3 | h3
          · exact absurd e h3
          · rw [e]; exact h3
        · exact hci.valid r hr h2
      · intro w hw
        rcases hci.cover w hw with h1 | h1
        · exact Or.inl (List.mem_cons_of_mem _ h1)
        · rcases List.mem_cons.1 h1 with rfl | h2
          · exact Or.inl (List.mem_cons_self)
          · exact Or.inr h2
    · intro j u _ _ todo' held' _ hc; exact hc
  · -- exclusivity: the new lock is compatible with everything the other threads hold
    intro a b ta tb2 hab ha hb w hwa hwb
    have old_held : ∀ w, heldBy ({ th := tb.th, ph := some (todo, v :: held) } : ThreadB Var Val ε α) w = true →
        w = v ∨ heldBy tb w = true := by
      intro w hw
      simp only [heldBy, hph, List.contains_cons, Bool.or_eq_true, beq_iff_eq] at hw ⊢
      rcases hw with h1 | h1
      · exact Or.inl h1
      · exact Or.inr h1
    by_cases hai : a = i
    · subst hai
      rw [getElem?_set_self _ _ _ _ hti] at ha
      simp only [Option.some.injEq] at ha; subst ha
      rw [getElem?_set_ne _ _ _ _ hab] at hb
      rcases old_held w hwa with rfl | h1
      · rcases hfree with ⟨_, hf⟩ | ⟨hw0, hf⟩
        · have := otherHolds_false hf (fun hh => hab hh.symm) hb
          rw [this] at hwb; cases hwb
        · exact ⟨hw0, otherWriteHolds_false hf (fun hh => hab hh.symm) hb hwb⟩
      · exact h.excl a b tb tb2 hab hti hb w h1 hwb
    · by_cases hbi : b = i
      · subst hbi
        rw [getElem?_set_self _ _ _ _ hti] at hb
        simp only [Option.some.injEq] at hb; subst hb
        rw [getElem?_set_ne _ _ _ _ (fun hh => hai hh.symm)] at ha
        rcases old_held w hwb with rfl | h1
        · rcases hfree with ⟨_, hf⟩ | ⟨hw0, hf⟩
          · have := otherHolds_false hf hai ha
            rw [this] at hwa; cases hwa
          · exact ⟨otherWriteHolds_false hf hai ha hwa, hw0⟩
        · exact h.excl a b ta tb hab ha hti w hwa h1
      · rw [getElem?_set_ne _ _ _ _ (fun hh => hai hh.symm)] at ha
        rw [getElem?_set_ne _ _ _ _ (fun hh => hbi hh.symm)] at hb
        exact h.excl a b ta tb2 hab ha hb w hwa hwb

/-! ## the last step of `commit()`: every variable of the log is locked -/

theorem inv_commit {init : Var → Val} {s : SysB Var Val ε α} {i : Nat} {tb : ThreadB Var Val ε α}
    {held : List Var} {p0 : Prog Var Val ε α} {rest : List (Prog Var Val ε α)} {a : α}
    (h : SInvB init s) (hti : s.threads[i]? = some tb) (hph : tb.ph = some ([], held))
    (htd : tb.th.todo = p0 :: rest) (hpc : tb.th.att.pc = .ret a) :
    SInvB init { store := publish tb.th.att.writes s.store
                 threads := s.threads.set i { th := tb.th.finish (.ok a), ph := none }
                 commits := s.commits ++ [(i, p0, a)] } := by
  have htm : tb ∈ s.threads := List.mem_of_getElem? hti
  have hci := h.com i tb hti _ _ hph
  -- every variable of the log is held
  have hall : ∀ v ∈ logVars tb.th, v ∈ held := by
    intro v hv
    rcases hci.cover v hv with h1 | h1
    · exact h1
    · simp at h1
  -- hence the whole read set is valid NOW: the commit is a validated commit of granularity A
  have hvalid : tb.th.att.valid s.store = true := by
    unfold Attempt.valid
    rw [List.all_eq_true]
    intro r hr
    simp only [decide_eq_true_eq]
    exact hci.valid r hr (hall _ (read_mem_logVars _ r hr))
  have hrun := T3_validated_commit tb.th s.store p0 rest a htd hpc (h.thr tb htm) hvalid
  -- what the commit writes is exclusively held by the committing thread
  have hunw : ∀ (j : Nat) (u : ThreadB Var Val ε α), j ≠ i → s.threads[j]? = some u → ∀ v, heldBy u v = true →
      publish tb.th.att.writes s.store v = s.store v := by
    intro j u hji hu v hv
    apply publish_unwritten
    intro p hp hpv
    have hw : wrote tb.th v = true := (wrote_iff _ _).2 ⟨p, hp, hpv⟩
    have hheld : heldBy tb v = true := by
      simp only [heldBy, hph]
      simpa using hall v (wrote_mem_logVars _ _ hw)
    have := (h.excl i j tb u (fun hh => hji hh.symm) hti hu v hheld hv).1
    rw [hw] at this; cases this
  constructor
  · intro u hu
    rcases List.mem_or_eq_of_mem_set hu with hu | rfl
    · exact ⟨(h.thr u hu).pc, (h.thr u hu).vers.publish _⟩
    · exact ⟨pcOK_fresh _ _, versOK_nil _⟩
  · exact replay_append s.commits i p0 a init _ _ h.rep hrun
  · apply com_set h.com hti
    · intro todo' held' hp; cases hp
    · intro j u hji hj todo' held' hp hcu
      refine ⟨hcu.pc, ?_, hcu.cover⟩
      intro r hr hrv
      have hheld : heldBy u r.1 = true := by
        simp only [heldBy, hp]; simpa using hrv
      show (publish tb.th.att.writes s.store r.1).2 = r.2.2
      rw [hunw j u hji hj r.1 hheld]
      exact hcu.valid r hr hrv
  · apply excl_set_shrink h.excl hti
    intro w hw
    simp [heldBy] at hw

/-! ## every step preserves the invariant -/

theorem stepB_inv (ord : List Var → List Var) (hord : ∀ l v, v ∈ l → v ∈ ord l)
    (init : Var → Val) (s : SysB Var Val ε α) (i : Nat) (h : SInvB init s) :
    SInvB init (s.step ord i) := by
  unfold SysB.step
  match hti : s.threads[i]? with
  | none => exact h
  | some tb =>
    simp only
    match htd : tb.th.todo with
    | [] => exact h
    | p0 :: rest =>
      simp only
      match hph : tb.ph with
      | none =>
          simp only
          match hpc : tb.th.att.pc with
          | .ret a =>
              simp only
              exact inv_enter ord hord h hti hph hpc
          | .read v k =>
              simp only
              split
              · exact h
              · exact inv_astep h hti hph (by intro a; rw [hpc]; exact fun hh => by cases hh)
          | .write v x k =>
              simp only
              exact inv_astep h hti hph (by intro a; rw [hpc]; exact fun hh => by cases hh)
          | .abort e =>
              simp only
              exact inv_astep h hti hph (by intro a; rw [hpc]; exact fun hh => by cases hh)
          | .retry =>
              simp only
              exact inv_astep h hti hph (by intro a; rw [hpc]; exact fun hh => by cases hh)
          | .panic =>
              simp only
              exact inv_astep h hti hph (by intro a; rw [hpc]; exact fun hh => by cases hh)
      | some (v :: todo, held) =>
          simp only
          by_cases hc : held.contains v = true
          · rw [if_pos hc]; exact inv_skip h hti hph hc
          · rw [if_neg hc]
            by_cases hw : wrote tb.th v = true
            · rw [if_pos hw]
              by_cases ho : otherHolds s i v = true
              · rw [if_pos ho]; exact h
              · rw [if_neg ho]
                by_cases hv : validAt tb.th s.store v = true
                · rw [if_pos hv]
                  exact inv_lock h hti hph hv (Or.inl ⟨hw, by simpa using ho⟩)
                · rw [if_neg hv]; exact inv_restart h hti
            · rw [if_neg hw]
              by_cases ho : otherWriteHolds s i v = true
              · rw [if_pos ho]; exact h
              · rw [if_neg ho]
                by_cases hv : validAt tb.th s.store v = true
                · rw [if_pos hv]
                  exact inv_lock h hti hph hv (Or.inr ⟨by simpa using hw, by simpa using ho⟩)
                · rw [if_neg hv]; exact inv_restart h hti
      | some ([], held) =>
          simp only
          match hpc : tb.th.att.pc with
          | .ret a =>
              simp only
              exact inv_commit h hti hph htd hpc
          | .read v k => simp only; exact h
          | .write v x k => simp only; exact h
          | .abort e => simp only; exact h
          | .retry => simp only; exact h
          | .panic => simp only; exact h

theorem execB_inv (ord : List Var → List Var) (hord : ∀ l v, v ∈ l → v ∈ ord l)
    (init : Var → Val) (sched : List Nat) :
    ∀ s : SysB Var Val ε α, SInvB init s → SInvB init (s.exec ord sched) := by
  induction sched with
  | nil => intro s h; exact h
  | cons i is ih => intro s h; exact ih _ (stepB_inv ord hord init s i h)

theorem initB_inv (init : Var → Val) (progs : List (List (Prog Var Val ε α))) :
    SInvB init (SysB.init init progs) := by
  constructor
  · intro tb ht
    simp only [SysB.init, List.mem_map] at ht
    obtain ⟨ps, _, rfl⟩ := ht
    exact ⟨pcOK_fresh _ _, versOK_nil _⟩
  · rfl
  · intro j u hj todo held hp
    simp only [SysB.init, List.getElem?_map] at hj
    match hps : progs[j]? with
    | none => rw [hps] at hj; cases hj
    | some ps => rw [hps] at hj; simp only [Option.map_some, Option.some.injEq] at hj; subst hj; cases hp
  · intro a b ta tb2 _ ha _ v hva _
    simp only [SysB.init, List.getElem?_map] at ha
    match hps : progs[a]? with
    | none => rw [hps] at ha; cases ha
    | some ps =>
        rw [hps] at ha; simp only [Option.map_some, Option.some.injEq] at ha; subst ha
        simp [heldBy] at hva

/-- **C07 at lock granularity**: under EVERY interleaving of closure steps and of the individual
    lock acquisitions / validations of `commit()`, with blocking on incompatible locks, the final
    shared memory and the values returned by the committed transactions are those of the
    sequential execution of the committed transactions in commit order -/
theorem C07_serializable_B (ord : List Var → List Var) (hord : ∀ l v, v ∈ l → v ∈ ord l)
    (init : Var → Val) (progs : List (List (Prog Var Val ε α))) (sched : List Nat) :
    replay ((SysB.init init progs).exec ord sched).commits init =
      some (vals ((SysB.init init progs).exec ord sched).store) :=
  (execB_inv ord hord init sched _ (initB_inv init progs)).rep

/-- a variable is never write-held by one thread while another thread holds it (in any mode):
    what the lock table of the real code guarantees is an invariant of the model -/
theorem C07_locks_exclusive_B (ord : List Var → List Var) (hord : ∀ l v, v ∈ l → v ∈ ord l)
    (init : Var → Val) (progs : List (List (Prog Var Val ε α))) (sched : List Nat)
    (i j : Nat) (ti tj : ThreadB Var Val ε α) (hij : i ≠ j)
    (hi : ((SysB.init init progs).exec ord sched).threads[i]? = some ti)
    (hj : ((SysB.init init progs).exec ord sched).threads[j]? = some tj) (v : Var)
    (h1 : heldBy ti v = true) (h2 : heldBy tj v = true) :
    wrote ti.th v = false ∧ wrote tj.th v = false :=
  (execB_inv ord hord init sched _ (initB_inv init progs)).excl i j ti tj hij hi hj v h1 h2

/-! ## non-vacuity: two increments, lock steps interleaved -/

/-- thread 0 and thread 1 both read x = 0 and write 1; both enter commit(); thread 0 locks x and
    commits; thread 1 then finds the version changed under the lock, restarts, and ends with 2 -/
example : (vals ((SysB.init (fun _ => 0) [[C07.incr], [C07.incr]]).exec id
    [0, 1, 0, 1, 0, 1, 0, 0, 0, 1, 1, 1, 1, 1, 1, 1, 1]).store) 0 = 2 := by decide
example : ((SysB.init (fun _ => (0 : Nat)) [[C07.incr], [C07.incr]]).exec id
    [0, 1, 0, 1, 0, 1, 0, 0, 0, 1, 1, 1, 1, 1, 1, 1, 1]).commits.map (·.1) = [0, 1] := by decide
/-- blocking really happens: while thread 0 holds the write lock of x, thread 1's lock step is a no-op -/
example : ((SysB.init (fun _ => (0 : Nat)) [[C07.incr], [C07.incr]]).exec id
    [0, 1, 0, 1, 0, 1, 0, 0, 1, 1, 1]).commits = [] := by decide

end HC.C07B
