/-
  C19, second part — the rounding-model hypothesis is SATISFIED by idealised IEEE arithmetic.

  `rnd p` (Model/Rounding.lean, theory in Lemmas/Rounding.lean) rounds a rational to the nearest number
  with `p` significant bits, ties to even, with an UNBOUNDED exponent range: binary64 for `p = 53`,
  binary32 for `p = 24`, as long as no overflow and no underflow (subnormal result) occurs.  Overflow and
  underflow are excluded from the property's quantifier and are NOT modelled here.

  * `C19b_roundModel`: `RoundModel (rnd p) 2⁻ᵖ` for every `p ≥ 1` (`…_f64`, `…_f32` for 53 / 24 bits);
    `C19b_rnd_odd`, `C19b_rnd_monotone`, `C19b_rep` discharge the other hypotheses used in `Props/C19.lean`
    (odd rounding; monotone rounding that fixes representable numbers).
  * consequently every `C19_fl_*` theorem is UNCONDITIONAL for the arithmetic `FlR (rnd p)` over ℚ —
    the model definitions (`V2.sub`, `P2.orient`, `V3.cross`, …) evaluated operation by operation with
    correctly rounded `+ − × ÷`: `C19b_*` below.
  * `C19b_closed_*`: the results of the rounded operations are again `p`-bit numbers (floats stay floats).

  What links `rnd 53` / `rnd 24` to the hardware is the `flop` stream of tools/props/c19.py (the real f64 / f32
  `+ − × ÷` of the harness compared with `rnd`, through python Fractions on a large sample and through
  the Lean definition itself on a smaller one).  That IEEE-754 hardware implements round-to-nearest-even is
  validated there, not proved.
-/
import Honeycomb.Props.C19
import Honeycomb.Lemmas.Rounding

namespace HC.C19
open HC.Geo HC.Rounding

/-! ## the instance -/

/-- unit roundoff of `p`-bit arithmetic: `2⁻ᵖ` (`2⁻⁵³` for binary64, `2⁻²⁴` for binary32) -/
abbrev uro (p : ℕ) : ℚ := (2 : ℚ) ^ (-(p : ℤ))

/-- **idealised IEEE rounding satisfies the rounding model** with unit roundoff `u = 2⁻ᵖ` -/
theorem C19b_roundModel {p : ℕ} (hp : 0 < p) : RoundModel (rnd p) (uro p) where
  u_nonneg := (two_zpow_pos _).le
  u_lt_one := by
    have : (2 : ℚ) ^ (-(p : ℤ)) < 2 ^ (0 : ℤ) := two_zpow_lt_iff.mpr (by omega)
    simpa using this
  err := rnd_rel_error p

/-- binary64 -/
theorem C19b_roundModel_f64 : RoundModel (rnd 53) ((2 : ℚ) ^ (-(53 : ℤ))) := C19b_roundModel (p := 53) (by norm_num)

/-- binary32 -/
theorem C19b_roundModel_f32 : RoundModel (rnd 24) ((2 : ℚ) ^ (-(24 : ℤ))) := C19b_roundModel (p := 24) (by norm_num)

/-- the rounding is odd (hypothesis of `C19_fl_v3_cross_antisymm`) -/
theorem C19b_rnd_odd (p : ℕ) : ∀ x : ℚ, rnd p (-x) = -rnd p x := rnd_neg p

/-- the rounding is monotone (hypothesis of `C19_fl_p2_average_between`) -/
theorem C19b_rnd_monotone {p : ℕ} (hp : 0 < p) : Monotone (rnd p) := fun a b h => rnd_monotone hp a b h

/-- `p`-bit numbers and their doubles are fixed (hypothesis `Rep` of `C19_fl_p2_average_between`) -/
theorem C19b_rep {p : ℕ} (hp : 0 < p) {x : ℚ} (h : Representable p x) : Rep (rnd p) x :=
  ⟨rnd_of_representable hp h, rnd_of_representable hp h.two_mul⟩

/-! ## floats stay floats -/

theorem C19b_closed_add {p : ℕ} (hp : 0 < p) (a b : FlR (rnd p)) : Representable p (a + b).val :=
  representable_rnd hp _
theorem C19b_closed_sub {p : ℕ} (hp : 0 < p) (a b : FlR (rnd p)) : Representable p (a - b).val :=
  representable_rnd hp _
theorem C19b_closed_mul {p : ℕ} (hp : 0 < p) (a b : FlR (rnd p)) : Representable p (a * b).val :=
  representable_rnd hp _
theorem C19b_closed_div {p : ℕ} (hp : 0 < p) (a b : FlR (rnd p)) : Representable p (a / b).val :=
  representable_rnd hp _
theorem C19b_closed_neg {p : ℕ} (a : FlR (rnd p)) (h : Representable p a.val) : Representable p (-a).val :=
  h.neg

/-! ## the rounding theorems of C19, unconditional for `rnd p` -/
section Unconditional
variable {p : ℕ} (hp : 0 < p)
include hp

theorem C19b_v2_sub_self (v : V2 (FlR (rnd p))) : V2.sub v v = ⟨⟨0⟩, ⟨0⟩⟩ :=
  C19_fl_v2_sub_self (C19b_roundModel hp) v
theorem C19b_v3_sub_self (v : V3 (FlR (rnd p))) : V3.sub v v = ⟨⟨0⟩, ⟨0⟩, ⟨0⟩⟩ :=
  C19_fl_v3_sub_self (C19b_roundModel hp) v
theorem C19b_p2_sub_self (v : P2 (FlR (rnd p))) : P2.sub v v = ⟨⟨0⟩, ⟨0⟩⟩ :=
  C19_fl_p2_sub_self (C19b_roundModel hp) v
theorem C19b_p3_sub_self (v : P3 (FlR (rnd p))) : P3.sub v v = ⟨⟨0⟩, ⟨0⟩, ⟨0⟩⟩ :=
  C19_fl_p3_sub_self (C19b_roundModel hp) v

/-- `(v + w) − v` is within `(2u + u²)(|v| + |w|)` of `w`, `u = 2⁻ᵖ`, componentwise -/
theorem C19b_v2_add_sub_bound (v w : V2 (FlR (rnd p))) :
    |(V2.sub (V2.add v w) v).x.val - w.x.val| ≤ (2 * uro p + uro p ^ 2) * (|v.x.val| + |w.x.val|) ∧
    |(V2.sub (V2.add v w) v).y.val - w.y.val| ≤ (2 * uro p + uro p ^ 2) * (|v.y.val| + |w.y.val|) :=
  C19_fl_v2_add_sub_bound (C19b_roundModel hp) v w
theorem C19b_v3_add_sub_bound (v w : V3 (FlR (rnd p))) :
    |(V3.sub (V3.add v w) v).x.val - w.x.val| ≤ (2 * uro p + uro p ^ 2) * (|v.x.val| + |w.x.val|) ∧
    |(V3.sub (V3.add v w) v).y.val - w.y.val| ≤ (2 * uro p + uro p ^ 2) * (|v.y.val| + |w.y.val|) ∧
    |(V3.sub (V3.add v w) v).z.val - w.z.val| ≤ (2 * uro p + uro p ^ 2) * (|v.z.val| + |w.z.val|) :=
  C19_fl_v3_add_sub_bound (C19b_roundModel hp) v w
theorem C19b_p2_add_sub_bound (q : P2 (FlR (rnd p))) (w : V2 (FlR (rnd p))) :
    |(P2.sub (P2.addV q w) q).x.val - w.x.val| ≤ (2 * uro p + uro p ^ 2) * (|q.x.val| + |w.x.val|) ∧
    |(P2.sub (P2.addV q w) q).y.val - w.y.val| ≤ (2 * uro p + uro p ^ 2) * (|q.y.val| + |w.y.val|) :=
  C19_fl_p2_add_sub_bound (C19b_roundModel hp) q w
theorem C19b_p3_add_sub_bound (q : P3 (FlR (rnd p))) (w : V3 (FlR (rnd p))) :
    |(P3.sub (P3.addV q w) q).x.val - w.x.val| ≤ (2 * uro p + uro p ^ 2) * (|q.x.val| + |w.x.val|) ∧
    |(P3.sub (P3.addV q w) q).y.val - w.y.val| ≤ (2 * uro p + uro p ^ 2) * (|q.y.val| + |w.y.val|) ∧
    |(P3.sub (P3.addV q w) q).z.val - w.z.val| ≤ (2 * uro p + uro p ^ 2) * (|q.z.val| + |w.z.val|) :=
  C19_fl_p3_add_sub_bound (C19b_roundModel hp) q w

/-- **orientation sign**, correctly rounded arithmetic: outside the band
    `(3u + 3u² + u³)(|A·B| + |C·D|)`, `u = 2⁻ᵖ`, the computed `cross_product_from_vertices` has the sign of
    the exact one -/
theorem C19b_orient_sign (a b c : P2 (FlR (rnd p)))
    (hband : (3 * uro p + 3 * uro p ^ 2 + uro p ^ 3)
        * orientBand (toR2 a) (toR2 b) (toR2 c) < |P2.orient (toR2 a) (toR2 b) (toR2 c)|) :
    (0 < (P2.orient a b c).val ↔ 0 < P2.orient (toR2 a) (toR2 b) (toR2 c)) ∧
    ((P2.orient a b c).val < 0 ↔ P2.orient (toR2 a) (toR2 b) (toR2 c) < 0) :=
  C19_fl_orient_sign (C19b_roundModel hp) a b c hband

/-- orthogonality of the computed cross product up to rounding -/
theorem C19b_v3_cross_dot_bound (a b : V3 (FlR (rnd p))) :
    |(V3.dot (V3.cross a b) a).val|
      ≤ ((2 * uro p + uro p ^ 2) + (3 * uro p + 3 * uro p ^ 2 + uro p ^ 3) * (1 + (2 * uro p + uro p ^ 2)))
          * crossMag (toR3 a) (toR3 b) (toR3 a) ∧
    |(V3.dot (V3.cross a b) b).val|
      ≤ ((2 * uro p + uro p ^ 2) + (3 * uro p + 3 * uro p ^ 2 + uro p ^ 3) * (1 + (2 * uro p + uro p ^ 2)))
          * crossMag (toR3 a) (toR3 b) (toR3 b) :=
  C19_fl_v3_cross_dot_bound (C19b_roundModel hp) a b

/-- the computed midpoint of two `p`-bit points lies between them, componentwise -/
theorem C19b_p2_average_between (a b : P2 (FlR (rnd p)))
    (hax : Representable p a.x.val) (hbx : Representable p b.x.val)
    (hay : Representable p a.y.val) (hby : Representable p b.y.val) :
    (min a.x.val b.x.val ≤ (P2.average a b).x.val ∧ (P2.average a b).x.val ≤ max a.x.val b.x.val) ∧
    (min a.y.val b.y.val ≤ (P2.average a b).y.val ∧ (P2.average a b).y.val ≤ max a.y.val b.y.val) :=
  C19_fl_p2_average_between (C19b_rnd_monotone hp) a b (C19b_rep hp hax) (C19b_rep hp hbx)
    (C19b_rep hp hay) (C19b_rep hp hby)

theorem C19b_p3_average_between (a b : P3 (FlR (rnd p)))
    (hax : Representable p a.x.val) (hbx : Representable p b.x.val)
    (hay : Representable p a.y.val) (hby : Representable p b.y.val)
    (haz : Representable p a.z.val) (hbz : Representable p b.z.val) :
    (min a.x.val b.x.val ≤ (P3.average a b).x.val ∧ (P3.average a b).x.val ≤ max a.x.val b.x.val) ∧
    (min a.y.val b.y.val ≤ (P3.average a b).y.val ∧ (P3.average a b).y.val ≤ max a.y.val b.y.val) ∧
    (min a.z.val b.z.val ≤ (P3.average a b).z.val ∧ (P3.average a b).z.val ≤ max a.z.val b.z.val) :=
  C19_fl_p3_average_between (C19b_rnd_monotone hp) a b (C19b_rep hp hax) (C19b_rep hp hbx)
    (C19b_rep hp hay) (C19b_rep hp hby) (C19b_rep hp haz) (C19b_rep hp hbz)

end Unconditional

/-- the computed cross product is antisymmetric (values; the sign of zero is not represented) -/
theorem C19b_v3_cross_antisymm (p : ℕ) (a b : V3 (FlR (rnd p))) : V3.cross a b = V3.neg (V3.cross b a) :=
  C19_fl_v3_cross_antisymm (rnd_neg p) a b

/-! ## Non-vacuity -/
section Examples

example : RoundModel (rnd 53) ((2 : ℚ) ^ (-(53 : ℤ))) := C19b_roundModel_f64
example : RoundModel (rnd 24) ((2 : ℚ) ^ (-(24 : ℤ))) := C19b_roundModel_f32
example : rnd 53 (-(1 / 3)) = -rnd 53 (1 / 3) := C19b_rnd_odd 53 _
example : rnd 53 (1 / 3) ≤ rnd 53 (1 / 2) := C19b_rnd_monotone (p := 53) (by norm_num) (by norm_num)
/-- `3/8` is a 53-bit number -/
example : Representable 53 (3 / 8) := ⟨3, -3, by norm_num, by norm_num⟩
example : Rep (rnd 53) (3 / 8) := C19b_rep (by norm_num) ⟨3, -3, by norm_num, by norm_num⟩
example (a b : FlR (rnd 53)) : Representable 53 (a + b).val := C19b_closed_add (by norm_num) a b
example (a b : FlR (rnd 53)) : Representable 53 (a - b).val := C19b_closed_sub (by norm_num) a b
example (a b : FlR (rnd 53)) : Representable 53 (a * b).val := C19b_closed_mul (by norm_num) a b
example (a b : FlR (rnd 53)) : Representable 53 (a / b).val := C19b_closed_div (by norm_num) a b
example : Representable 53 (-(⟨3 / 8⟩ : FlR (rnd 53))).val :=
  C19b_closed_neg _ ⟨3, -3, by norm_num, by norm_num⟩
example (v : V2 (FlR (rnd 53))) : V2.sub v v = ⟨⟨0⟩, ⟨0⟩⟩ := C19b_v2_sub_self (by norm_num) v
example (v : V3 (FlR (rnd 53))) : V3.sub v v = ⟨⟨0⟩, ⟨0⟩, ⟨0⟩⟩ := C19b_v3_sub_self (by norm_num) v
example (v : P2 (FlR (rnd 24))) : P2.sub v v = ⟨⟨0⟩, ⟨0⟩⟩ := C19b_p2_sub_self (by norm_num) v
example (v : P3 (FlR (rnd 24))) : P3.sub v v = ⟨⟨0⟩, ⟨0⟩, ⟨0⟩⟩ := C19b_p3_sub_self (by norm_num) v
example (v w : V2 (FlR (rnd 53))) := C19b_v2_add_sub_bound (p := 53) (by norm_num) v w
example (v w : V3 (FlR (rnd 53))) := C19b_v3_add_sub_bound (p := 53) (by norm_num) v w
example (q : P2 (FlR (rnd 53))) (w : V2 (FlR (rnd 53))) := C19b_p2_add_sub_bound (p := 53) (by norm_num) q w
example (q : P3 (FlR (rnd 53))) (w : V3 (FlR (rnd 53))) := C19b_p3_add_sub_bound (p := 53) (by norm_num) q w
example (a b : V3 (FlR (rnd 53))) := C19b_v3_cross_dot_bound (p := 53) (by norm_num) a b
example (a b : V3 (FlR (rnd 53))) : V3.cross a b = V3.neg (V3.cross b a) := C19b_v3_cross_antisymm 53 a b

/-- the band hypothesis is satisfiable in binary64: the standard frame `(0,0), (1,0), (0,1)` is far from
    collinear, so the correctly rounded orientation product is positive -/
example : 0 < (P2.orient (α := FlR (rnd 53)) ⟨⟨0⟩, ⟨0⟩⟩ ⟨⟨1⟩, ⟨0⟩⟩ ⟨⟨0⟩, ⟨1⟩⟩).val :=
  (C19b_orient_sign (p := 53) (by norm_num) ⟨⟨0⟩, ⟨0⟩⟩ ⟨⟨1⟩, ⟨0⟩⟩ ⟨⟨0⟩, ⟨1⟩⟩
    (by norm_num [orientBand, toR2, P2.orient])).1.mpr (by norm_num [toR2, P2.orient])

/-- midpoint of two binary64 points with dyadic coordinates -/
example := C19b_p2_average_between (p := 53) (by norm_num) ⟨⟨1⟩, ⟨3 / 8⟩⟩ ⟨⟨3⟩, ⟨-5⟩⟩
  ⟨1, 0, by norm_num, by norm_num⟩ ⟨3, 0, by norm_num, by norm_num⟩
  ⟨3, -3, by norm_num, by norm_num⟩ ⟨-5, 0, by norm_num, by norm_num⟩
example := C19b_p3_average_between (p := 53) (by norm_num) ⟨⟨1⟩, ⟨3 / 8⟩, ⟨0⟩⟩ ⟨⟨3⟩, ⟨-5⟩, ⟨2⟩⟩
  ⟨1, 0, by norm_num, by norm_num⟩ ⟨3, 0, by norm_num, by norm_num⟩
  ⟨3, -3, by norm_num, by norm_num⟩ ⟨-5, 0, by norm_num, by norm_num⟩
  ⟨0, 0, by norm_num, by norm_num⟩ ⟨2, 0, by norm_num, by norm_num⟩

end Examples

end HC.C19
