/-
  C16 — steps 2 and 3 of grisubal as discrete functions (`Model/Grisubal.lean`: `slotsOf`, `hitsOf`, `groupOf`,
  `slicesFrom`, `idAssignments`, `intersectionIds`, `intersectionDarts`; Rust:
  `routines/process_intersecs_data.rs`: `group_intersections_per_edge`, `compute_intersection_ids`).

  * `C16_slots_genpos`              for a segment in general position every preallocated slot of
                                    `intersection_metadata` is written: the slots are the crossings of
                                    `C16_metadata_spec`, no `(0, NaN)` is left
  * `C16_hits_ranks`                `filter(!nan).enumerate()`: the identifiers step 2 works with are the RANKS among
                                    the written slots: `0, 1, …, #written - 1`
  * `C16_hits_all_written`          … which are the slot numbers when every slot is written
  * `C16_group_sorted`              per edge, the hits are all the hits of that edge, each once, by non-decreasing `t`
  * `C16_intersection_ids_spec`     for EVERY iteration order of the `HashMap`: the hit of rank `k`, `i`-th of its edge
                                    `e` in the order of `t`, receives the dart `fh[i]` of the edge's block of new darts
                                    when it hit the identifier dart of the edge, `sh[len - 1 - i]` when it hit the
                                    opposite dart; the block of the `j`-th edge in iteration order is
                                    `base + 2·(hits of the earlier edges) ..+ 2·len`.
                                    With `C14_insertVertices_beta_structure` / `C14_new_vertex_position_full`
                                    (`insert_vertices_on_edge(e, block, ts)`: `e → fh[0] → … → fh[len-1]`, the `i`-th new
                                    point at `t_i` is the vertex `{fh[i], sh[len-1-i]}`), this is: every crossing gets
                                    exactly one new dart pair on its edge, in the order of `t`, and its entry of
                                    `intersection_darts` is the dart of that vertex on the side that was hit.
  * `C16_intersection_ids_distinct` distinct hits receive distinct darts, all inside the allocated block
  * `C16_nan_slot_shifts_ids`       the defect D16c, in the model: the entries of `intersection_darts` at the positions
                                    `≥ #written` stay `NULL_DART_ID` — when a slot is left at `(0, NaN)` (an edge through
                                    a grid corner) before a written one, the last written slots have no dart (step 4
                                    reads `intersection_darts[slot]`: dart 0, `build_base_edge` panics), and the
                                    written slots in between get the dart of another intersection.

  Tie: `slotsOf` is compared with the real step 1 through the hook (`gcrossd`, also on segments through grid corners);
  the functions of step 2 are crate-private and not behind the hook: they are NOT tied directly (their effect is: the
  end-to-end oracle, and the panic predicted by `C16_nan_slot_shifts_ids` is what the `corner` stream observes, on exactly
  the cases where a NaN slot precedes a written one).
-/
import Mathlib.Data.List.Nodup
import Honeycomb.Props.C16Cross

namespace HC.C16
open HC

/-! ## step 1 leaves no empty slot in general position -/

theorem C16_slots_genpos {g : GGrid} {eps : Rat} {a b : Pt} (H : GenPos g eps a b) :
    slotsOf g eps a b = (crossingsMeta g eps a b).map (fun c => some (c.dart, c.t)) := by
  obtain ⟨h1, _, h3⟩ := C16_metadata_spec H
  unfold slotsOf
  simp only
  have e : ∀ (P : Prop) [Decidable P], (crossingsMeta g eps a b).map
      (fun c => if P ∧ c.t = 0 then (none : Slot) else some (c.dart, c.t)) =
      (crossingsMeta g eps a b).map (fun c => some (c.dart, c.t)) := by
    intro P _
    apply List.map_congr_left
    intro c hc
    have := (h1 c hc).2.1
    rw [if_neg]
    intro hh
    rw [hh.2] at this
    exact lt_irrefl _ this
  have e' := e ((((cellOf g b).1 : Int) - ((cellOf g a).1 : Int)) ≠ 0 ∧ (((cellOf g b).2 : Int) - ((cellOf g a).2 : Int)) ≠ 0)
  simp only [and_assoc] at e'
  rw [e', List.length_map, h3, Nat.sub_self]
  simp

/-! ## `filter(!nan).enumerate()` -/

/-- the identifiers of step 2 are the ranks among the written slots -/
theorem C16_hits_ranks (b2 : Nat → Nat) (slots : List Slot) :
    (hitsOf b2 slots).map (fun x => x.2.idx) = List.range (slots.filterMap id).length := by
  unfold hitsOf
  rw [List.map_map]
  have : ((fun x : Nat × Hit => x.2.idx) ∘ fun x : (Nat × Rat) × Nat =>
      (edgeOf b2 x.1.1, ({ idx := x.2, t := if edgeOf b2 x.1.1 ≠ x.1.1 then 1 - x.1.2 else x.1.2, dart := x.1.1 } : Hit))) =
      Prod.snd := by
    funext x; rfl
  rw [this, List.zipIdx_map_snd, List.range_eq_range']

theorem hits_idx_nodup (b2 : Nat → Nat) (slots : List Slot) : ((hitsOf b2 slots).map (fun x => x.2.idx)).Nodup := by
  rw [C16_hits_ranks]; exact List.nodup_range

theorem hits_idx_lt (b2 : Nat → Nat) (slots : List Slot) {x : Nat × Hit} (hx : x ∈ hitsOf b2 slots) :
    x.2.idx < (slots.filterMap id).length := by
  have : x.2.idx ∈ (hitsOf b2 slots).map (fun x => x.2.idx) := List.mem_map.2 ⟨x, hx, rfl⟩
  rw [C16_hits_ranks] at this
  exact List.mem_range.1 this

/-- when every slot is written, the `k`-th hit is the `k`-th slot: rank = slot number -/
theorem C16_hits_all_written (b2 : Nat → Nat) (l : List (Nat × Rat)) (k : Nat) (d : Nat) (t : Rat)
    (hk : l[k]? = some (d, t)) :
    (hitsOf b2 (l.map some))[k]? =
      some (edgeOf b2 d, { idx := k, t := if edgeOf b2 d ≠ d then 1 - t else t, dart := d }) := by
  unfold hitsOf
  have : (l.map some).filterMap id = l := by
    rw [List.filterMap_map]; simp
  rw [this, List.getElem?_map, List.getElem?_zipIdx, hk]
  simp

/-! ## the stable sort by `t` -/

theorem mem_insertHit (c d : Hit) (l : List Hit) : d ∈ insertHit c l ↔ d = c ∨ d ∈ l := by
  induction l with
  | nil => simp [insertHit]
  | cons e es ih =>
      unfold insertHit
      split
      · simp
      · simp only [List.mem_cons, ih]
        constructor
        · rintro (h | h | h)
          · exact Or.inr (Or.inl h)
          · exact Or.inl h
          · exact Or.inr (Or.inr h)
        · rintro (h | h | h)
          · exact Or.inr (Or.inl h)
          · exact Or.inl h
          · exact Or.inr (Or.inr h)

theorem insertHit_perm (c : Hit) (l : List Hit) : (insertHit c l).Perm (c :: l) := by
  induction l with
  | nil => simp [insertHit]
  | cons e es ih =>
      unfold insertHit
      split
      · exact List.Perm.refl _
      · exact (List.Perm.cons e ih).trans (List.Perm.swap c e es)

theorem sorted_insertHit (c : Hit) (l : List Hit) (h : l.Pairwise (fun a b => a.t ≤ b.t)) :
    (insertHit c l).Pairwise (fun a b => a.t ≤ b.t) := by
  induction l with
  | nil => simp [insertHit]
  | cons e es ih =>
      unfold insertHit
      rw [List.pairwise_cons] at h
      split
      · rename_i hlt
        rw [List.pairwise_cons]
        refine ⟨?_, List.pairwise_cons.2 h⟩
        intro a ha
        rcases List.mem_cons.1 ha with rfl | ha
        · exact le_of_lt hlt
        · exact le_trans (le_of_lt hlt) (h.1 a ha)
      · rename_i hlt
        rw [List.pairwise_cons]
        refine ⟨?_, ih h.2⟩
        intro a ha
        rcases (mem_insertHit c a es).1 ha with rfl | ha
        · exact not_lt.1 hlt
        · exact h.1 a ha

theorem sortHits_aux_perm (l acc : List Hit) :
    (l.foldl (fun acc c => insertHit c acc) acc).Perm (l ++ acc) := by
  induction l generalizing acc with
  | nil => simp
  | cons c cs ih =>
      simp only [List.foldl_cons]
      refine (ih _).trans ?_
      refine (List.Perm.append_left cs (insertHit_perm c acc)).trans ?_
      simp only [List.cons_append]
      exact List.perm_middle

theorem sortHits_perm (l : List Hit) : (sortHits l).Perm l := by
  have := sortHits_aux_perm l []
  simpa [sortHits] using this

theorem sortHits_aux_sorted (l acc : List Hit) (h : acc.Pairwise (fun a b => a.t ≤ b.t)) :
    (l.foldl (fun acc c => insertHit c acc) acc).Pairwise (fun a b => a.t ≤ b.t) := by
  induction l generalizing acc with
  | nil => simpa
  | cons c cs ih => simp only [List.foldl_cons]; exact ih _ (sorted_insertHit c acc h)

theorem sortHits_sorted (l : List Hit) : (sortHits l).Pairwise (fun a b => a.t ≤ b.t) :=
  sortHits_aux_sorted l [] List.Pairwise.nil

theorem mem_groupOf {hs : List (Nat × Hit)} {e : Nat} {h : Hit} : h ∈ groupOf hs e ↔ (e, h) ∈ hs := by
  unfold groupOf
  rw [(sortHits_perm _).mem_iff, List.mem_map]
  constructor
  · rintro ⟨x, hx, rfl⟩
    rw [List.mem_filter] at hx
    have : x.1 = e := by simpa using hx.2
    rw [← this]; exact hx.1
  · intro hx
    exact ⟨(e, h), List.mem_filter.2 ⟨hx, by simp⟩, rfl⟩

/-- **C16, step 2 — one sorted list per edge**: under the key `e` the map holds exactly the hits of the edge `e`,
    each as often as it was found, by non-decreasing position `t` along the edge -/
theorem C16_group_sorted (hs : List (Nat × Hit)) (e : Nat) :
    (groupOf hs e).Perm ((hs.filter (fun x => x.1 = e)).map (·.2)) ∧
    (groupOf hs e).Pairwise (fun a b => a.t ≤ b.t) ∧
    ∀ h, h ∈ groupOf hs e ↔ (e, h) ∈ hs :=
  ⟨sortHits_perm _, sortHits_sorted _, fun _ => mem_groupOf⟩

theorem groupOf_idx_nodup {hs : List (Nat × Hit)} (hnd : (hs.map (fun x => x.2.idx)).Nodup) (e : Nat) :
    ((groupOf hs e).map (·.idx)).Nodup := by
  have hp : ((groupOf hs e).map (·.idx)).Perm (((hs.filter (fun x => x.1 = e)).map (·.2)).map (·.idx)) :=
    (sortHits_perm _).map _
  rw [hp.nodup_iff, List.map_map]
  exact hnd.sublist (List.filter_sublist.map _)

/-! ## the blocks of new darts -/

theorem slicesFrom_length : ∀ (ks : List Nat) (base : Nat), (slicesFrom base ks).length = ks.length
  | [], _ => rfl
  | k :: ks, base => by simp [slicesFrom, slicesFrom_length ks]

theorem slicesFrom_get : ∀ (ks : List Nat) (base j : Nat) (nd : List Nat), (slicesFrom base ks)[j]? = some nd →
    ∃ k, ks[j]? = some k ∧ nd = List.range' (base + 2 * (ks.take j).sum) (2 * k)
  | [], _, j, nd, h => by simp [slicesFrom] at h
  | k :: ks, base, 0, nd, h => by
      simp only [slicesFrom, List.getElem?_cons_zero, Option.some.injEq] at h
      exact ⟨k, rfl, by simp [← h]⟩
  | k :: ks, base, j + 1, nd, h => by
      simp only [slicesFrom, List.getElem?_cons_succ] at h
      obtain ⟨k', h1, h2⟩ := slicesFrom_get ks _ j nd h
      refine ⟨k', by simpa using h1, ?_⟩
      rw [h2, List.take_succ_cons, List.sum_cons]
      congr 1
      omega

/-! ## `res[id] = …` -/

theorem foldl_set_length (as : List (Nat × Nat)) : ∀ (r : List Nat),
    (as.foldl (fun r a => r.set a.1 a.2) r).length = r.length := by
  induction as with
  | nil => intro r; rfl
  | cons x xs ih => intro r; simp only [List.foldl_cons]; rw [ih, List.length_set]

theorem foldl_set_other (as : List (Nat × Nat)) (i : Nat) (hi : i ∉ as.map (·.1)) : ∀ (r : List Nat),
    (as.foldl (fun r a => r.set a.1 a.2) r)[i]? = r[i]? := by
  induction as with
  | nil => intro r; rfl
  | cons x xs ih =>
      intro r
      simp only [List.map_cons, List.mem_cons, not_or] at hi
      simp only [List.foldl_cons]
      rw [ih hi.2, List.getElem?_set_ne (Ne.symm hi.1)]

theorem foldl_set_get (as : List (Nat × Nat)) (hnd : (as.map (·.1)).Nodup) : ∀ (r : List Nat) (a : Nat × Nat),
    a ∈ as → a.1 < r.length → (as.foldl (fun r a => r.set a.1 a.2) r)[a.1]? = some a.2 := by
  induction as with
  | nil => intro r a ha; cases ha
  | cons x xs ih =>
      intro r a ha hlt
      simp only [List.map_cons, List.nodup_cons] at hnd
      simp only [List.foldl_cons]
      rcases List.mem_cons.1 ha with rfl | ha
      · rw [foldl_set_other xs _ hnd.1, List.getElem?_set_self hlt]
      · exact ih hnd.2 _ a ha (by rw [List.length_set]; exact hlt)

/-! ## the assignments -/

section
variable {hs : List (Nat × Hit)} {keys : List Nat} {base : Nat}

/-- groups and blocks, zipped, at the position `j` of the iteration order -/
theorem zip_get {j e : Nat} (hj : keys[j]? = some e) :
    ∃ nd, (slicesFrom base ((groupsOf hs keys).map (·.2.length)))[j]? = some nd ∧
      ((groupsOf hs keys).zip (slicesFrom base ((groupsOf hs keys).map (·.2.length))))[j]? =
        some ((e, groupOf hs e), nd) ∧
      nd = List.range' (base + 2 * (((groupsOf hs keys).map (·.2.length)).take j).sum) (2 * (groupOf hs e).length) := by
  have hlt : j < keys.length := by
    rcases Nat.lt_or_ge j keys.length with h | h
    · exact h
    · rw [List.getElem?_eq_none h] at hj; cases hj
  have hg : (groupsOf hs keys)[j]? = some (e, groupOf hs e) := by
    unfold groupsOf; rw [List.getElem?_map, hj]; rfl
  have hl : j < (slicesFrom base ((groupsOf hs keys).map (·.2.length))).length := by
    rw [slicesFrom_length, List.length_map]; unfold groupsOf; rw [List.length_map]; exact hlt
  obtain ⟨nd, hnd⟩ : ∃ nd, (slicesFrom base ((groupsOf hs keys).map (·.2.length)))[j]? = some nd :=
    ⟨_, List.getElem?_eq_getElem hl⟩
  refine ⟨nd, hnd, ?_, ?_⟩
  · rw [List.getElem?_zip_eq_some]; exact ⟨hg, hnd⟩
  · obtain ⟨k, h1, h2⟩ := slicesFrom_get _ _ _ _ hnd
    rw [List.getElem?_map, hg] at h1
    simp only [Option.map_some, Option.some.injEq] at h1
    rw [h2, ← h1]

/-- the indices written by `compute_intersection_ids` are the ranks of the hits, each once -/
theorem assign_idx (hnd : (hs.map (fun x => x.2.idx)).Nodup) (hk : keys.Nodup) :
    ((idAssignments (groupsOf hs keys) (slicesFrom base ((groupsOf hs keys).map (·.2.length)))).map (·.1)).Nodup ∧
    ∀ a, a ∈ idAssignments (groupsOf hs keys) (slicesFrom base ((groupsOf hs keys).map (·.2.length))) →
      ∃ x, x ∈ hs ∧ a.1 = x.2.idx := by
  have hlen : (groupsOf hs keys).length = (slicesFrom base ((groupsOf hs keys).map (·.2.length))).length := by
    rw [slicesFrom_length, List.length_map]
  have hfst : (idAssignments (groupsOf hs keys) (slicesFrom base ((groupsOf hs keys).map (·.2.length)))).map (·.1) =
      keys.flatMap (fun e => (groupOf hs e).map (·.idx)) := by
    unfold idAssignments
    rw [List.map_flatMap]
    have : ∀ x : (Nat × List Hit) × List Nat,
        (x.1.2.zipIdx.map fun hi : Hit × Nat =>
          (hi.1.idx, if hi.1.dart = x.1.1 then x.2.getD hi.2 0 else x.2.getD (x.2.length / 2 + (x.2.length / 2 - 1 - hi.2)) 0)).map (·.1) =
        (fun y : (Nat × List Hit) × List Nat => y.1.2.map (·.idx)) x := by
      intro x
      rw [List.map_map]
      have : ((fun a : Nat × Nat => a.1) ∘ fun hi : Hit × Nat =>
          (hi.1.idx, if hi.1.dart = x.1.1 then x.2.getD hi.2 0 else x.2.getD (x.2.length / 2 + (x.2.length / 2 - 1 - hi.2)) 0)) =
          (fun h : Hit => h.idx) ∘ Prod.fst := by funext hi; rfl
      rw [this, ← List.map_map, List.zipIdx_map_fst]
    simp only [this]
    have h2 : ((groupsOf hs keys).zip (slicesFrom base ((groupsOf hs keys).map (·.2.length)))).flatMap
        (fun y : (Nat × List Hit) × List Nat => y.1.2.map (·.idx)) =
        (((groupsOf hs keys).zip (slicesFrom base ((groupsOf hs keys).map (·.2.length)))).map (·.1)).flatMap
          (fun g : Nat × List Hit => g.2.map (·.idx)) := by
      rw [List.flatMap_map]
    rw [h2, List.map_fst_zip (Nat.le_of_eq hlen)]
    unfold groupsOf
    rw [List.flatMap_map]
  constructor
  · rw [hfst, List.nodup_flatMap]
    refine ⟨fun e _ => groupOf_idx_nodup hnd e, ?_⟩
    refine hk.imp ?_
    intro e e' hne
    show List.Disjoint _ _
    intro v hv hv'
    obtain ⟨h, hh, rfl⟩ := List.mem_map.1 hv
    obtain ⟨h', hh', e2⟩ := List.mem_map.1 hv'
    have m1 := mem_groupOf.1 hh
    have m2 := mem_groupOf.1 hh'
    have := List.inj_on_of_nodup_map hnd m1 m2 (by simpa using e2.symm)
    exact hne (by injection this)
  · intro a ha
    have : a.1 ∈ keys.flatMap (fun e => (groupOf hs e).map (·.idx)) := by
      rw [← hfst]; exact List.mem_map.2 ⟨a, ha, rfl⟩
    obtain ⟨e, _, hv⟩ := List.mem_flatMap.1 this
    obtain ⟨h, hh, e2⟩ := List.mem_map.1 hv
    exact ⟨(e, h), mem_groupOf.1 hh, e2.symm⟩

/-- **C16, step 2 — the dart of every hit, for every iteration order of the `HashMap`**: let `keys` be the order in
    which the map yields its keys (each key once, every edge that was hit among them).  The hit `h` of the edge `e`,
    `e` being the `j`-th key and `h` the `i`-th hit of `e` in the order of `t`, receives
    `res[h.idx] = fh[i]` when it hit the identifier dart of the edge and `sh[len - 1 - i]` when it hit the opposite dart,
    where `fh ++ sh` is the block `base + 2·(number of hits of the keys before e) ..+ 2·len` of `len = #hits of e`
    pairs of new darts -/
theorem C16_intersection_ids_spec (hnd : (hs.map (fun x => x.2.idx)).Nodup) (hk : keys.Nodup)
    (hall : ∀ x, x ∈ hs → x.1 ∈ keys) (n : Nat) (hn : ∀ x, x ∈ hs → x.2.idx < n)
    {e : Nat} {h : Hit} (hx : (e, h) ∈ hs) :
    ∃ j i, keys[j]? = some e ∧ (groupOf hs e)[i]? = some h ∧
      let len := (groupOf hs e).length
      let off := base + 2 * (((groupsOf hs keys).map (·.2.length)).take j).sum
      (intersectionIds n (groupsOf hs keys) (slicesFrom base ((groupsOf hs keys).map (·.2.length))))[h.idx]? =
        some (if h.dart = e then off + i else off + (len + (len - 1 - i))) := by
  obtain ⟨j, hj⟩ := List.getElem?_of_mem (hall _ hx)
  obtain ⟨i, hi⟩ := List.getElem?_of_mem (mem_groupOf.2 hx)
  refine ⟨j, i, hj, hi, ?_⟩
  obtain ⟨nd, _, hz, hnd'⟩ := zip_get (hs := hs) (base := base) hj
  have hilt : i < (groupOf hs e).length := by
    rcases Nat.lt_or_ge i (groupOf hs e).length with h' | h'
    · exact h'
    · rw [List.getElem?_eq_none h'] at hi; cases hi
  have hndl : nd.length = 2 * (groupOf hs e).length := by rw [hnd', List.length_range']
  have hhl : nd.length / 2 = (groupOf hs e).length := by omega
  have hget : ∀ p, p < 2 * (groupOf hs e).length → nd.getD p 0 =
      base + 2 * (((groupsOf hs keys).map (·.2.length)).take j).sum + p := by
    intro p hp
    rw [List.getD_eq_getElem?_getD, hnd', List.getElem?_range' (by omega)]
    simp
  -- the assignment of this hit
  have hmem : (h.idx, if h.dart = e then nd.getD i 0 else nd.getD (nd.length / 2 + (nd.length / 2 - 1 - i)) 0) ∈
      idAssignments (groupsOf hs keys) (slicesFrom base ((groupsOf hs keys).map (·.2.length))) := by
    unfold idAssignments
    rw [List.mem_flatMap]
    refine ⟨((e, groupOf hs e), nd), List.mem_of_getElem? hz, ?_⟩
    rw [List.mem_map]
    exact ⟨(h, i), List.mem_zipIdx_iff_getElem?.2 hi, rfl⟩
  have := foldl_set_get _ (assign_idx (base := base) hnd hk).1 (List.replicate n 0) _ hmem
    (by rw [List.length_replicate]; exact hn _ hx)
  simp only at this ⊢
  unfold intersectionIds
  rw [this]
  congr 1
  by_cases hd : h.dart = e
  · rw [if_pos hd, if_pos hd, hget i (by omega)]
  · rw [if_neg hd, if_neg hd, hhl, hget _ (by omega)]

theorem prefix_lt : ∀ {L : List Nat} {j j' k : Nat}, L[j]? = some k → j < j' → (L.take j).sum + k ≤ (L.take j').sum
  | [], j, _, _, hj, _ => by simp at hj
  | a :: as, 0, j' + 1, k, hj, _ => by
      simp only [List.getElem?_cons_zero, Option.some.injEq] at hj
      simp only [List.take_zero, List.sum_nil, List.take_succ_cons, List.sum_cons]
      omega
  | a :: as, j + 1, j' + 1, k, hj, hlt => by
      simp only [List.getElem?_cons_succ] at hj
      have := prefix_lt hj (Nat.lt_of_succ_lt_succ hlt)
      simp only [List.take_succ_cons, List.sum_cons]
      omega

theorem prefix_le_total {L : List Nat} {j k : Nat} (hj : L[j]? = some k) : (L.take j).sum + k ≤ L.sum := by
  have hlt : j < L.length := by
    rcases Nat.lt_or_ge j L.length with h | h
    · exact h
    · rw [List.getElem?_eq_none h] at hj; cases hj
  have := prefix_lt hj hlt
  rwa [List.take_length] at this

/-- **C16, step 2 — one dart per hit**: distinct hits receive distinct darts, all of them among the
    `n_tot = 2·Σ len` darts allocated by `add_free_darts(n_tot)` (first one: `base`) -/
theorem C16_intersection_ids_distinct (hnd : (hs.map (fun x => x.2.idx)).Nodup) (hk : keys.Nodup)
    (hall : ∀ x, x ∈ hs → x.1 ∈ keys) (n : Nat) (hn : ∀ x, x ∈ hs → x.2.idx < n)
    {x y : Nat × Hit} (hx : x ∈ hs) (hy : y ∈ hs) (hne : x ≠ y) :
    ∃ dx dy,
      (intersectionIds n (groupsOf hs keys) (slicesFrom base ((groupsOf hs keys).map (·.2.length))))[x.2.idx]? = some dx ∧
      (intersectionIds n (groupsOf hs keys) (slicesFrom base ((groupsOf hs keys).map (·.2.length))))[y.2.idx]? = some dy ∧
      dx ≠ dy ∧ base ≤ dx ∧ dx < base + 2 * ((groupsOf hs keys).map (·.2.length)).sum := by
  obtain ⟨e, h⟩ := x
  obtain ⟨e', h'⟩ := y
  obtain ⟨j, i, hj, hi, hv⟩ := C16_intersection_ids_spec (base := base) hnd hk hall n hn hx
  obtain ⟨j', i', hj', hi', hv'⟩ := C16_intersection_ids_spec (base := base) hnd hk hall n hn hy
  simp only at hv hv'
  have ilt : ∀ {e : Nat} {h : Hit} {i : Nat}, (groupOf hs e)[i]? = some h → i < (groupOf hs e).length := by
    intro e h i hi
    rcases Nat.lt_or_ge i (groupOf hs e).length with h' | h'
    · exact h'
    · rw [List.getElem?_eq_none h'] at hi; cases hi
  have hil := ilt hi
  have hil' := ilt hi'
  have hL : ∀ {j e : Nat}, keys[j]? = some e → ((groupsOf hs keys).map (·.2.length))[j]? = some (groupOf hs e).length := by
    intro j e hj
    unfold groupsOf
    rw [List.map_map, List.getElem?_map, hj]; rfl
  have hLj := hL hj
  have hLj' := hL hj'
  have tot := prefix_le_total hLj
  refine ⟨_, _, hv, hv', ?_, ?_, ?_⟩
  · rcases Nat.lt_trichotomy j j' with hlt | heq | hgt
    · have := prefix_lt hLj hlt
      split <;> split <;> omega
    · -- the same edge: different positions
      rw [heq, hj'] at hj
      injection hj with hj
      subst hj
      have hii : i ≠ i' := by
        intro e2; rw [e2, hi'] at hi; injection hi with hi; exact hne (by rw [hi])
      rw [heq]
      split <;> split <;> omega
    · have := prefix_lt hLj' hgt
      split <;> split <;> omega
  · split <;> omega
  · split <;> omega

/-- **C16, step 2 — the entries that are never written stay `NULL_DART_ID`** -/
theorem ids_unwritten (hnd : (hs.map (fun x => x.2.idx)).Nodup) (hk : keys.Nodup) (n k : Nat) (hk' : k < n)
    (hno : ∀ x, x ∈ hs → x.2.idx ≠ k) :
    (intersectionIds n (groupsOf hs keys) (slicesFrom base ((groupsOf hs keys).map (·.2.length))))[k]? = some 0 := by
  unfold intersectionIds
  rw [foldl_set_other]
  · rw [List.getElem?_replicate, if_pos hk']
  · intro hmem
    obtain ⟨a, ha, e⟩ := List.mem_map.1 hmem
    obtain ⟨x, hx, e2⟩ := (assign_idx (base := base) hnd hk).2 a ha
    exact hno x hx (by rw [← e2, e])

end

/-- **C16, steps 1 + 2 in general position**: when every slot is written (`C16_slots_genpos`), the slot `k` holding
    `(d, t)` receives a dart of the block of its edge `edge_id(d)` (the `j`-th in iteration order): the `i`-th of the
    first half when `d` is the identifier dart of the edge, the `i`-th from the end of the second half otherwise, `i`
    being the position of the hit among the hits of that edge in the order of `t` (measured from the identifier dart) -/
theorem C16_intersection_darts_spec (b2 : Nat → Nat) (base : Nat) (l : List (Nat × Rat)) (keys : List Nat)
    (hk : keys.Nodup) (hall : ∀ x, x ∈ l → edgeOf b2 x.1 ∈ keys) {k d : Nat} {t : Rat} (hkd : l[k]? = some (d, t)) :
    let hs := hitsOf b2 (l.map some)
    let e := edgeOf b2 d
    let h : Hit := { idx := k, t := if e ≠ d then 1 - t else t, dart := d }
    ∃ j i, keys[j]? = some e ∧ (groupOf hs e)[i]? = some h ∧
      (intersectionDarts b2 base (l.map some) keys)[k]? =
        some (if d = e then base + 2 * (((groupsOf hs keys).map (·.2.length)).take j).sum + i
              else base + 2 * (((groupsOf hs keys).map (·.2.length)).take j).sum +
                ((groupOf hs e).length + ((groupOf hs e).length - 1 - i))) := by
  intro hs e h
  have hx : (e, h) ∈ hs := List.mem_of_getElem? (C16_hits_all_written b2 l k d t hkd)
  have hfm : (l.map some).filterMap id = l := by rw [List.filterMap_map]; simp
  have hall' : ∀ x, x ∈ hs → x.1 ∈ keys := by
    intro x hx'
    obtain ⟨y, hy, rfl⟩ := List.mem_map.1 hx'
    rw [hfm] at hy
    obtain ⟨i, hi⟩ := List.getElem?_of_mem hy
    rw [List.getElem?_zipIdx] at hi
    cases hl : l[i]? with
    | none => rw [hl] at hi; cases hi
    | some v =>
        rw [hl] at hi
        simp only [Option.map_some, Option.some.injEq] at hi
        rw [← hi]
        exact hall v (List.mem_of_getElem? hl)
  have hn : ∀ x, x ∈ hs → x.2.idx < (l.map some).length := by
    intro x hx'
    have := hits_idx_lt b2 (l.map some) hx'
    rw [hfm] at this
    rw [List.length_map]; exact this
  obtain ⟨j, i, h1, h2, h3⟩ := C16_intersection_ids_spec (base := base) (hits_idx_nodup b2 (l.map some)) hk hall' _ hn hx
  exact ⟨j, i, h1, h2, h3⟩

/-- **C16 — finding D16c in the model**: the identifiers of step 2 are ranks among the WRITTEN slots; the entries of
    `intersection_darts` from position `#written` on are never assigned and stay `NULL_DART_ID`.  So as soon as a slot
    left at `(0, NaN)` (an edge through a grid corner) precedes a written slot, the LAST written slot `k` — whose
    `GeometryVertex::Intersec(k)` step 4 resolves with `intersection_darts[k]` — has dart 0 -/
theorem C16_nan_slot_shifts_ids (b2 : Nat → Nat) (base : Nat) (slots : List Slot) (keys : List Nat) (hk : keys.Nodup)
    {k : Nat} (hlt : k < slots.length) (hge : (slots.filterMap id).length ≤ k) :
    (intersectionDarts b2 base slots keys)[k]? = some 0 := by
  unfold intersectionDarts
  exact ids_unwritten (base := base) (hits_idx_nodup b2 slots) hk _ k hlt
    (fun x hx e => by have := hits_idx_lt b2 slots hx; omega)

/-! ## examples -/

/-- a 2 × 1 grid: β2 pairs dart 2 (right side of cell 0) with dart 8 (left side of cell 1) -/
def exB2 : Nat → Nat := fun d => if d = 2 then 8 else if d = 8 then 2 else 0

-- two crossings of the inner edge {2, 8}, one from each side, and one of the outer edge {3}: ranks = slots.
-- Edge 2 gets the block 9 10 | 11 12: 2 → 9 → 10 with 9 at t = 1/2 and 10 at t = 3/4, 8 → 11 → 12 on the other side;
-- slot 2 (dart 2, t = 1/2) reads 9; slot 0 (dart 8, t = 1/4 from its own origin = 3/4) reads 11, the dart of the
-- vertex {10, 11} on the side of dart 8
example : intersectionDarts exB2 9 [some (8, 1/4), some (3, 1/2), some (2, 1/2)] [2, 3] = [11, 13, 9] := by decide +kernel
-- the other iteration order of the map: other darts, same structure
example : intersectionDarts exB2 9 [some (8, 1/4), some (3, 1/2), some (2, 1/2)] [3, 2] = [13, 9, 11] := by decide +kernel
-- hypotheses of `C16_intersection_darts_spec` on this example
example : ([2, 3] : List Nat).Nodup ∧ ∀ x, x ∈ [((8 : Nat), (1/4 : Rat)), (3, 1/2), (2, 1/2)] → edgeOf exB2 x.1 ∈ [2, 3] := by
  decide +kernel
example := C16_intersection_darts_spec exB2 9 [((8 : Nat), (1/4 : Rat)), (3, 1/2), (2, 1/2)] [2, 3] (by decide)
  (by decide +kernel) (k := 0) (d := 8) (t := 1/4) (by decide +kernel)
-- D16c: the first slot was left at (0, NaN) by a corner crossing: slot 2 (rank 1) reads NULL_DART_ID, and slot 1
-- (rank 0) gets its dart only by luck of being numbered 0 … here slot 1 reads the dart meant for rank 1
example : intersectionDarts exB2 9 [none, some (3, 1/2), some (2, 1/2)] [2, 3] = [11, 9, 0] := by decide +kernel
example : (intersectionDarts exB2 9 [none, some (3, 1/2), some (2, 1/2)] [2, 3])[2]? = some 0 :=
  C16_nan_slot_shifts_ids exB2 9 _ _ (by decide) (by decide) (by decide)

end HC.C16
