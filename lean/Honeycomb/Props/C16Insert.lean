/-
  C16 — steps 2 and 3 of grisubal as discrete functions (`Model/Grisubal.lean`: `slotsOf`, `hitsOf`, `groupOf`,
  `slicesFrom`, `idAssignments`, `intersectionIds`, `intersectionDarts`; Rust:
  `routines/process_intersecs_data.rs`: `group_intersections_per_edge`, `compute_intersection_ids`).

  * `C16_slots_genpos`              for a segment in general position every preallocated slot of
                                    `intersection_metadata` is written: the slots are the crossings of
                                    `C16_metadata_spec`, no `(0, NaN)` is left
  * `C16_hits_slot_numbers`         `enumerate().filter(!nan)` (/repo 2e893a8): the hits are exactly the written slots,
                                    each under its own SLOT number; unwritten slots contribute nothing, shift nothing
  * `C16_group_sorted`              per edge, the hits are all the hits of that edge, each once, by non-decreasing `t`
  * `C16_intersection_ids_spec`     for EVERY iteration order of the `HashMap`: the hit of rank `k`, `i`-th of its edge
                                    `e` in the order of `t`, receives the dart `fh[i]` of the edge's block of new darts
                                    when it hit the identifier dart of the edge, `sh[len - 1 - i]` when it hit the
                                    opposite dart; the block of the `j`-th edge in iteration order is
                                    `base + 2·(hits of the earlier edges) ..+ 2·len`.
                                    With `C14_insertVertices_beta_structure` / `C14_new_vertex_position_full`
                                    (`insert_vertices_on_edge(e, block, ts)`: `e → fh[0] → … → fh[len-1]`, the `i`-th new
                                    point at `t_i` is the vertex `{fh[i], sh[len-1-i]}`), this is: every crossing gets
                                    exactly one new dart pair on its edge, in the order of `t`, and its entry of
                                    `intersection_darts` is the dart of that vertex on the side that was hit.
  * `C16_intersection_ids_distinct` distinct hits receive distinct darts, all inside the allocated block
  * `C16_intersection_darts_spec`   steps 1 + 2 on a slot vector: the written slot `k` gets its dart at `res[k]` — also with
    `C16_intersection_darts_distinct`  unwritten slots (corner crossings) before it: the positive form of finding D16c
    `C16_unwritten_slot_null`       (ids were ranks after the filter; fixed in /repo 2e893a8); an unwritten slot keeps 0
  * `C16_insert_edge_spec`          the MAP after step 3 on one edge (C14's `insertVerticesOnEdge` on the block of the
                                    edge with its sorted positions): well formed, C14's `InsertResult` chain, the `i`-th
                                    hit reads `fh[i]` / `sh[len-1-i]` with `β1 (β2 sh[len-1-i]) = fh[i]`, and the vertex of
                                    `fh[i]` carries the point at position `t_i`.  NOT proved: the induction over all edges
                                    (each insertion leaves the other edges' hypotheses intact by `InsertResult`'s frame
                                    clauses; validated by the `gids` tie)

  Tie: `slotsOf` is compared with the real step 1 through the hook `verif::intersection_data` (`gcrossd`, also on segments
  through grid corners / ending on grid lines); steps 2 + 3 (`stepsTwoThree`, `Model/GrisubalInsert.lean`) are compared with
  the hook `verif::intersection_darts` (`gids`: the vector of darts, `wf` and the full snapshot of the map after insertion
  as identical text, the iteration order of the real `HashMap` being read off the implementation's result and handed to
  the model, which is parametric in it — the theorems hold for every order), on random slot vectors and on the real slot
  vectors of corner / on-line geometries.
-/
import Mathlib.Data.List.Nodup
import Honeycomb.Props.C16Cross
import Honeycomb.Props.C14b
import Honeycomb.Model.GrisubalInsert

namespace HC.C16
open HC

/-! ## step 1 leaves no empty slot in general position -/

theorem C16_slots_genpos {g : GGrid} {eps : Rat} {a b : Pt} (H : GenPos g eps a b) :
    slotsOf g eps a b = (crossingsMeta g eps a b).map (fun c => some (c.dart, c.t)) := by
  obtain ⟨h1, _, h3⟩ := C16_metadata_spec H
  unfold slotsOf
  simp only
  have e : ∀ (P : Prop) [Decidable P], (crossingsMeta g eps a b).map
      (fun c => if P ∧ c.t = 0 then (none : Slot) else some (c.dart, c.t)) =
      (crossingsMeta g eps a b).map (fun c => some (c.dart, c.t)) := by
    intro P _
    apply List.map_congr_left
    intro c hc
    have := (h1 c hc).2.1
    rw [if_neg]
    intro hh
    rw [hh.2] at this
    exact lt_irrefl _ this
  have e' := e ((((gridCellOf g b).1 : Int) - ((gridCellOf g a).1 : Int)) ≠ 0 ∧ (((gridCellOf g b).2 : Int) - ((gridCellOf g a).2 : Int)) ≠ 0)
  simp only [and_assoc] at e'
  rw [e', List.length_map, h3, Nat.sub_self]
  simp

/-! ## `enumerate().filter(!nan)` -/

theorem filterMap_sublist_map {α β : Type} {f : α → Option β} {g : α → β} (h : ∀ x y, f x = some y → y = g x) :
    ∀ l : List α, (l.filterMap f).Sublist (l.map g)
  | [] => List.Sublist.slnil
  | x :: l => by
      rw [List.filterMap_cons, List.map_cons]
      cases hf : f x with
      | none => exact (filterMap_sublist_map h l).cons _
      | some y => rw [h x y hf]; exact (filterMap_sublist_map h l).cons_cons _

/-- **C16, step 2 — identifiers are slot numbers**: the hits are exactly the written slots, each under its own slot
    number `k` (the `k` of `GeometryVertex::Intersec(k)`), with its edge and its position measured from the edge's
    identifier dart; unwritten slots contribute nothing and shift nothing -/
theorem C16_hits_slot_numbers (b2 : Nat → Nat) (slots : List Slot) (x : Nat × Hit) :
    x ∈ hitsOf b2 slots ↔ ∃ k d t, slots[k]? = some (some (d, t)) ∧
      x = (edgeOf b2 d, { idx := k, t := if edgeOf b2 d ≠ d then 1 - t else t, dart := d }) := by
  unfold hitsOf
  rw [List.mem_filterMap]
  constructor
  · rintro ⟨⟨sl, k⟩, hm, hx⟩
    rw [List.mem_zipIdx_iff_getElem?] at hm
    cases sl with
    | none => simp at hx
    | some dt =>
        simp only [Option.map_some, Option.some.injEq] at hx
        exact ⟨k, dt.1, dt.2, by simpa using hm, hx.symm⟩
  · rintro ⟨k, d, t, hk, rfl⟩
    exact ⟨(some (d, t), k), List.mem_zipIdx_iff_getElem?.2 hk, rfl⟩

theorem hits_idx_nodup (b2 : Nat → Nat) (slots : List Slot) : ((hitsOf b2 slots).map (fun x => x.2.idx)).Nodup := by
  unfold hitsOf
  rw [List.map_filterMap]
  have hsub := filterMap_sublist_map (g := fun x : Slot × Nat => x.2)
    (f := fun x : Slot × Nat => Option.map (fun y : Nat × Hit => y.2.idx) (x.1.map fun dt =>
      (edgeOf b2 dt.1, ({ idx := x.2, t := if edgeOf b2 dt.1 ≠ dt.1 then 1 - dt.2 else dt.2, dart := dt.1 } : Hit))))
    (by
      intro x y hy
      cases hx : x.1 with
      | none => rw [hx] at hy; simp at hy
      | some dt => rw [hx] at hy; simp at hy; exact hy.symm) slots.zipIdx
  refine List.Nodup.sublist hsub ?_
  rw [List.zipIdx_map_snd]
  exact List.nodup_range'

theorem hits_idx_lt (b2 : Nat → Nat) (slots : List Slot) {x : Nat × Hit} (hx : x ∈ hitsOf b2 slots) :
    x.2.idx < slots.length := by
  obtain ⟨k, d, t, hk, rfl⟩ := (C16_hits_slot_numbers b2 slots x).1 hx
  rcases Nat.lt_or_ge k slots.length with h | h
  · exact h
  · rw [List.getElem?_eq_none h] at hk; cases hk

/-! ## the stable sort by `t` -/

theorem mem_insertHit (c d : Hit) (l : List Hit) : d ∈ insertHit c l ↔ d = c ∨ d ∈ l := by
  induction l with
  | nil => simp [insertHit]
  | cons e es ih =>
      unfold insertHit
      split
      · simp
      · simp only [List.mem_cons, ih]
        constructor
        · rintro (h | h | h)
          · exact Or.inr (Or.inl h)
          · exact Or.inl h
          · exact Or.inr (Or.inr h)
        · rintro (h | h | h)
          · exact Or.inr (Or.inl h)
          · exact Or.inl h
          · exact Or.inr (Or.inr h)

theorem insertHit_perm (c : Hit) (l : List Hit) : (insertHit c l).Perm (c :: l) := by
  induction l with
  | nil => simp [insertHit]
  | cons e es ih =>
      unfold insertHit
      split
      · exact List.Perm.refl _
      · exact (List.Perm.cons e ih).trans (List.Perm.swap c e es)

theorem sorted_insertHit (c : Hit) (l : List Hit) (h : l.Pairwise (fun a b => a.t ≤ b.t)) :
    (insertHit c l).Pairwise (fun a b => a.t ≤ b.t) := by
  induction l with
  | nil => simp [insertHit]
  | cons e es ih =>
      unfold insertHit
      rw [List.pairwise_cons] at h
      split
      · rename_i hlt
        rw [List.pairwise_cons]
        refine ⟨?_, List.pairwise_cons.2 h⟩
        intro a ha
        rcases List.mem_cons.1 ha with rfl | ha
        · exact le_of_lt hlt
        · exact le_trans (le_of_lt hlt) (h.1 a ha)
      · rename_i hlt
        rw [List.pairwise_cons]
        refine ⟨?_, ih h.2⟩
        intro a ha
        rcases (mem_insertHit c a es).1 ha with rfl | ha
        · exact not_lt.1 hlt
        · exact h.1 a ha

theorem sortHits_aux_perm (l acc : List Hit) :
    (l.foldl (fun acc c => insertHit c acc) acc).Perm (l ++ acc) := by
  induction l generalizing acc with
  | nil => simp
  | cons c cs ih =>
      simp only [List.foldl_cons]
      refine (ih _).trans ?_
      refine (List.Perm.append_left cs (insertHit_perm c acc)).trans ?_
      simp only [List.cons_append]
      exact List.perm_middle

theorem sortHits_perm (l : List Hit) : (sortHits l).Perm l := by
  have := sortHits_aux_perm l []
  simpa [sortHits] using this

theorem sortHits_aux_sorted (l acc : List Hit) (h : acc.Pairwise (fun a b => a.t ≤ b.t)) :
    (l.foldl (fun acc c => insertHit c acc) acc).Pairwise (fun a b => a.t ≤ b.t) := by
  induction l generalizing acc with
  | nil => simpa
  | cons c cs ih => simp only [List.foldl_cons]; exact ih _ (sorted_insertHit c acc h)

theorem sortHits_sorted (l : List Hit) : (sortHits l).Pairwise (fun a b => a.t ≤ b.t) :=
  sortHits_aux_sorted l [] List.Pairwise.nil

theorem mem_groupOf {hs : List (Nat × Hit)} {e : Nat} {h : Hit} : h ∈ groupOf hs e ↔ (e, h) ∈ hs := by
  unfold groupOf
  rw [(sortHits_perm _).mem_iff, List.mem_map]
  constructor
  · rintro ⟨x, hx, rfl⟩
    rw [List.mem_filter] at hx
    have : x.1 = e := by simpa using hx.2
    rw [← this]; exact hx.1
  · intro hx
    exact ⟨(e, h), List.mem_filter.2 ⟨hx, by simp⟩, rfl⟩

/-- **C16, step 2 — one sorted list per edge**: under the key `e` the map holds exactly the hits of the edge `e`,
    each as often as it was found, by non-decreasing position `t` along the edge -/
theorem C16_group_sorted (hs : List (Nat × Hit)) (e : Nat) :
    (groupOf hs e).Perm ((hs.filter (fun x => x.1 = e)).map (·.2)) ∧
    (groupOf hs e).Pairwise (fun a b => a.t ≤ b.t) ∧
    ∀ h, h ∈ groupOf hs e ↔ (e, h) ∈ hs :=
  ⟨sortHits_perm _, sortHits_sorted _, fun _ => mem_groupOf⟩

theorem groupOf_idx_nodup {hs : List (Nat × Hit)} (hnd : (hs.map (fun x => x.2.idx)).Nodup) (e : Nat) :
    ((groupOf hs e).map (·.idx)).Nodup := by
  have hp : ((groupOf hs e).map (·.idx)).Perm (((hs.filter (fun x => x.1 = e)).map (·.2)).map (·.idx)) :=
    (sortHits_perm _).map _
  rw [hp.nodup_iff, List.map_map]
  exact hnd.sublist (List.filter_sublist.map _)

/-! ## the blocks of new darts -/

theorem slicesFrom_length : ∀ (ks : List Nat) (base : Nat), (slicesFrom base ks).length = ks.length
  | [], _ => rfl
  | k :: ks, base => by simp [slicesFrom, slicesFrom_length ks]

theorem slicesFrom_get : ∀ (ks : List Nat) (base j : Nat) (nd : List Nat), (slicesFrom base ks)[j]? = some nd →
    ∃ k, ks[j]? = some k ∧ nd = List.range' (base + 2 * (ks.take j).sum) (2 * k)
  | [], _, j, nd, h => by simp [slicesFrom] at h
  | k :: ks, base, 0, nd, h => by
      simp only [slicesFrom, List.getElem?_cons_zero, Option.some.injEq] at h
      exact ⟨k, rfl, by simp [← h]⟩
  | k :: ks, base, j + 1, nd, h => by
      simp only [slicesFrom, List.getElem?_cons_succ] at h
      obtain ⟨k', h1, h2⟩ := slicesFrom_get ks _ j nd h
      refine ⟨k', by simpa using h1, ?_⟩
      rw [h2, List.take_succ_cons, List.sum_cons]
      congr 1
      omega

/-! ## `res[id] = …` -/

theorem foldl_set_length (as : List (Nat × Nat)) : ∀ (r : List Nat),
    (as.foldl (fun r a => r.set a.1 a.2) r).length = r.length := by
  induction as with
  | nil => intro r; rfl
  | cons x xs ih => intro r; simp only [List.foldl_cons]; rw [ih, List.length_set]

theorem foldl_set_other (as : List (Nat × Nat)) (i : Nat) (hi : i ∉ as.map (·.1)) : ∀ (r : List Nat),
    (as.foldl (fun r a => r.set a.1 a.2) r)[i]? = r[i]? := by
  induction as with
  | nil => intro r; rfl
  | cons x xs ih =>
      intro r
      simp only [List.map_cons, List.mem_cons, not_or] at hi
      simp only [List.foldl_cons]
      rw [ih hi.2, List.getElem?_set_ne (Ne.symm hi.1)]

theorem foldl_set_get (as : List (Nat × Nat)) (hnd : (as.map (·.1)).Nodup) : ∀ (r : List Nat) (a : Nat × Nat),
    a ∈ as → a.1 < r.length → (as.foldl (fun r a => r.set a.1 a.2) r)[a.1]? = some a.2 := by
  induction as with
  | nil => intro r a ha; cases ha
  | cons x xs ih =>
      intro r a ha hlt
      simp only [List.map_cons, List.nodup_cons] at hnd
      simp only [List.foldl_cons]
      rcases List.mem_cons.1 ha with rfl | ha
      · rw [foldl_set_other xs _ hnd.1, List.getElem?_set_self hlt]
      · exact ih hnd.2 _ a ha (by rw [List.length_set]; exact hlt)

/-! ## the assignments -/

section
variable {hs : List (Nat × Hit)} {keys : List Nat} {base : Nat}

/-- groups and blocks, zipped, at the position `j` of the iteration order -/
theorem zip_get {j e : Nat} (hj : keys[j]? = some e) :
    ∃ nd, (slicesFrom base ((groupsOf hs keys).map (·.2.length)))[j]? = some nd ∧
      ((groupsOf hs keys).zip (slicesFrom base ((groupsOf hs keys).map (·.2.length))))[j]? =
        some ((e, groupOf hs e), nd) ∧
      nd = List.range' (base + 2 * (((groupsOf hs keys).map (·.2.length)).take j).sum) (2 * (groupOf hs e).length) := by
  have hlt : j < keys.length := by
    rcases Nat.lt_or_ge j keys.length with h | h
    · exact h
    · rw [List.getElem?_eq_none h] at hj; cases hj
  have hg : (groupsOf hs keys)[j]? = some (e, groupOf hs e) := by
    unfold groupsOf; rw [List.getElem?_map, hj]; rfl
  have hl : j < (slicesFrom base ((groupsOf hs keys).map (·.2.length))).length := by
    rw [slicesFrom_length, List.length_map]; unfold groupsOf; rw [List.length_map]; exact hlt
  obtain ⟨nd, hnd⟩ : ∃ nd, (slicesFrom base ((groupsOf hs keys).map (·.2.length)))[j]? = some nd :=
    ⟨_, List.getElem?_eq_getElem hl⟩
  refine ⟨nd, hnd, ?_, ?_⟩
  · rw [List.getElem?_zip_eq_some]; exact ⟨hg, hnd⟩
  · obtain ⟨k, h1, h2⟩ := slicesFrom_get _ _ _ _ hnd
    rw [List.getElem?_map, hg] at h1
    simp only [Option.map_some, Option.some.injEq] at h1
    rw [h2, ← h1]

/-- the indices written by `compute_intersection_ids` are the ranks of the hits, each once -/
theorem assign_idx (hnd : (hs.map (fun x => x.2.idx)).Nodup) (hk : keys.Nodup) :
    ((idAssignments (groupsOf hs keys) (slicesFrom base ((groupsOf hs keys).map (·.2.length)))).map (·.1)).Nodup ∧
    ∀ a, a ∈ idAssignments (groupsOf hs keys) (slicesFrom base ((groupsOf hs keys).map (·.2.length))) →
      ∃ x, x ∈ hs ∧ a.1 = x.2.idx := by
  have hlen : (groupsOf hs keys).length = (slicesFrom base ((groupsOf hs keys).map (·.2.length))).length := by
    rw [slicesFrom_length, List.length_map]
  have hfst : (idAssignments (groupsOf hs keys) (slicesFrom base ((groupsOf hs keys).map (·.2.length)))).map (·.1) =
      keys.flatMap (fun e => (groupOf hs e).map (·.idx)) := by
    unfold idAssignments
    rw [List.map_flatMap]
    have : ∀ x : (Nat × List Hit) × List Nat,
        (x.1.2.zipIdx.map fun hi : Hit × Nat =>
          (hi.1.idx, if hi.1.dart = x.1.1 then x.2.getD hi.2 0 else x.2.getD (x.2.length / 2 + (x.2.length / 2 - 1 - hi.2)) 0)).map (·.1) =
        (fun y : (Nat × List Hit) × List Nat => y.1.2.map (·.idx)) x := by
      intro x
      rw [List.map_map]
      have : ((fun a : Nat × Nat => a.1) ∘ fun hi : Hit × Nat =>
          (hi.1.idx, if hi.1.dart = x.1.1 then x.2.getD hi.2 0 else x.2.getD (x.2.length / 2 + (x.2.length / 2 - 1 - hi.2)) 0)) =
          (fun h : Hit => h.idx) ∘ Prod.fst := by funext hi; rfl
      rw [this, ← List.map_map, List.zipIdx_map_fst]
    simp only [this]
    have h2 : ((groupsOf hs keys).zip (slicesFrom base ((groupsOf hs keys).map (·.2.length)))).flatMap
        (fun y : (Nat × List Hit) × List Nat => y.1.2.map (·.idx)) =
        (((groupsOf hs keys).zip (slicesFrom base ((groupsOf hs keys).map (·.2.length)))).map (·.1)).flatMap
          (fun g : Nat × List Hit => g.2.map (·.idx)) := by
      rw [List.flatMap_map]
    rw [h2, List.map_fst_zip (Nat.le_of_eq hlen)]
    unfold groupsOf
    rw [List.flatMap_map]
  constructor
  · rw [hfst, List.nodup_flatMap]
    refine ⟨fun e _ => groupOf_idx_nodup hnd e, ?_⟩
    refine hk.imp ?_
    intro e e' hne
    show List.Disjoint _ _
    intro v hv hv'
    obtain ⟨h, hh, rfl⟩ := List.mem_map.1 hv
    obtain ⟨h', hh', e2⟩ := List.mem_map.1 hv'
    have m1 := mem_groupOf.1 hh
    have m2 := mem_groupOf.1 hh'
    have := List.inj_on_of_nodup_map hnd m1 m2 (by simpa using e2.symm)
    exact hne (by injection this)
  · intro a ha
    have : a.1 ∈ keys.flatMap (fun e => (groupOf hs e).map (·.idx)) := by
      rw [← hfst]; exact List.mem_map.2 ⟨a, ha, rfl⟩
    obtain ⟨e, _, hv⟩ := List.mem_flatMap.1 this
    obtain ⟨h, hh, e2⟩ := List.mem_map.1 hv
    exact ⟨(e, h), mem_groupOf.1 hh, e2.symm⟩

/-- the value of `res[h.idx]` for given positions `j` (of the edge among the keys) and `i` (of the hit among the sorted
    hits of the edge) -/
theorem intersection_ids_at (hnd : (hs.map (fun x => x.2.idx)).Nodup) (hk : keys.Nodup)
    (n : Nat) (hn : ∀ x, x ∈ hs → x.2.idx < n)
    {e : Nat} {h : Hit} (hx : (e, h) ∈ hs) {j i : Nat} (hj : keys[j]? = some e) (hi : (groupOf hs e)[i]? = some h) :
      (intersectionIds n (groupsOf hs keys) (slicesFrom base ((groupsOf hs keys).map (·.2.length))))[h.idx]? =
        some (if h.dart = e then base + 2 * (((groupsOf hs keys).map (·.2.length)).take j).sum + i
              else base + 2 * (((groupsOf hs keys).map (·.2.length)).take j).sum +
                ((groupOf hs e).length + ((groupOf hs e).length - 1 - i))) := by
  obtain ⟨nd, _, hz, hnd'⟩ := zip_get (hs := hs) (base := base) hj
  have hilt : i < (groupOf hs e).length := by
    rcases Nat.lt_or_ge i (groupOf hs e).length with h' | h'
    · exact h'
    · rw [List.getElem?_eq_none h'] at hi; cases hi
  have hndl : nd.length = 2 * (groupOf hs e).length := by rw [hnd', List.length_range']
  have hhl : nd.length / 2 = (groupOf hs e).length := by omega
  have hget : ∀ p, p < 2 * (groupOf hs e).length → nd.getD p 0 =
      base + 2 * (((groupsOf hs keys).map (·.2.length)).take j).sum + p := by
    intro p hp
    rw [List.getD_eq_getElem?_getD, hnd', List.getElem?_range' (by omega)]
    simp
  -- the assignment of this hit
  have hmem : (h.idx, if h.dart = e then nd.getD i 0 else nd.getD (nd.length / 2 + (nd.length / 2 - 1 - i)) 0) ∈
      idAssignments (groupsOf hs keys) (slicesFrom base ((groupsOf hs keys).map (·.2.length))) := by
    unfold idAssignments
    rw [List.mem_flatMap]
    refine ⟨((e, groupOf hs e), nd), List.mem_of_getElem? hz, ?_⟩
    rw [List.mem_map]
    exact ⟨(h, i), List.mem_zipIdx_iff_getElem?.2 hi, rfl⟩
  have := foldl_set_get _ (assign_idx (base := base) hnd hk).1 (List.replicate n 0) _ hmem
    (by rw [List.length_replicate]; exact hn _ hx)
  simp only at this ⊢
  unfold intersectionIds
  rw [this]
  congr 1
  by_cases hd : h.dart = e
  · rw [if_pos hd, if_pos hd, hget i (by omega)]
  · rw [if_neg hd, if_neg hd, hhl, hget _ (by omega)]

/-- **C16, step 2 — the dart of every hit, for every iteration order of the `HashMap`**: let `keys` be the order in
    which the map yields its keys (each key once, every edge that was hit among them).  The hit `h` of the edge `e`,
    `e` being the `j`-th key and `h` the `i`-th hit of `e` in the order of `t`, receives
    `res[h.idx] = fh[i]` when it hit the identifier dart of the edge and `sh[len - 1 - i]` when it hit the opposite dart,
    where `fh ++ sh` is the block `base + 2·(number of hits of the keys before e) ..+ 2·len` of `len = #hits of e`
    pairs of new darts -/
theorem C16_intersection_ids_spec (hnd : (hs.map (fun x => x.2.idx)).Nodup) (hk : keys.Nodup)
    (hall : ∀ x, x ∈ hs → x.1 ∈ keys) (n : Nat) (hn : ∀ x, x ∈ hs → x.2.idx < n)
    {e : Nat} {h : Hit} (hx : (e, h) ∈ hs) :
    ∃ j i, keys[j]? = some e ∧ (groupOf hs e)[i]? = some h ∧
      let len := (groupOf hs e).length
      let off := base + 2 * (((groupsOf hs keys).map (·.2.length)).take j).sum
      (intersectionIds n (groupsOf hs keys) (slicesFrom base ((groupsOf hs keys).map (·.2.length))))[h.idx]? =
        some (if h.dart = e then off + i else off + (len + (len - 1 - i))) := by
  obtain ⟨j, hj⟩ := List.getElem?_of_mem (hall _ hx)
  obtain ⟨i, hi⟩ := List.getElem?_of_mem (mem_groupOf.2 hx)
  exact ⟨j, i, hj, hi, intersection_ids_at (base := base) hnd hk n hn hx hj hi⟩

theorem prefix_lt : ∀ {L : List Nat} {j j' k : Nat}, L[j]? = some k → j < j' → (L.take j).sum + k ≤ (L.take j').sum
  | [], j, _, _, hj, _ => by simp at hj
  | a :: as, 0, j' + 1, k, hj, _ => by
      simp only [List.getElem?_cons_zero, Option.some.injEq] at hj
      simp only [List.take_zero, List.sum_nil, List.take_succ_cons, List.sum_cons]
      omega
  | a :: as, j + 1, j' + 1, k, hj, hlt => by
      simp only [List.getElem?_cons_succ] at hj
      have := prefix_lt hj (Nat.lt_of_succ_lt_succ hlt)
      simp only [List.take_succ_cons, List.sum_cons]
      omega

theorem prefix_le_total {L : List Nat} {j k : Nat} (hj : L[j]? = some k) : (L.take j).sum + k ≤ L.sum := by
  have hlt : j < L.length := by
    rcases Nat.lt_or_ge j L.length with h | h
    · exact h
    · rw [List.getElem?_eq_none h] at hj; cases hj
  have := prefix_lt hj hlt
  rwa [List.take_length] at this

/-- **C16, step 2 — one dart per hit**: distinct hits receive distinct darts, all of them among the
    `n_tot = 2·Σ len` darts allocated by `add_free_darts(n_tot)` (first one: `base`) -/
theorem C16_intersection_ids_distinct (hnd : (hs.map (fun x => x.2.idx)).Nodup) (hk : keys.Nodup)
    (hall : ∀ x, x ∈ hs → x.1 ∈ keys) (n : Nat) (hn : ∀ x, x ∈ hs → x.2.idx < n)
    {x y : Nat × Hit} (hx : x ∈ hs) (hy : y ∈ hs) (hne : x ≠ y) :
    ∃ dx dy,
      (intersectionIds n (groupsOf hs keys) (slicesFrom base ((groupsOf hs keys).map (·.2.length))))[x.2.idx]? = some dx ∧
      (intersectionIds n (groupsOf hs keys) (slicesFrom base ((groupsOf hs keys).map (·.2.length))))[y.2.idx]? = some dy ∧
      dx ≠ dy ∧ base ≤ dx ∧ dx < base + 2 * ((groupsOf hs keys).map (·.2.length)).sum := by
  obtain ⟨e, h⟩ := x
  obtain ⟨e', h'⟩ := y
  obtain ⟨j, i, hj, hi, hv⟩ := C16_intersection_ids_spec (base := base) hnd hk hall n hn hx
  obtain ⟨j', i', hj', hi', hv'⟩ := C16_intersection_ids_spec (base := base) hnd hk hall n hn hy
  simp only at hv hv'
  have ilt : ∀ {e : Nat} {h : Hit} {i : Nat}, (groupOf hs e)[i]? = some h → i < (groupOf hs e).length := by
    intro e h i hi
    rcases Nat.lt_or_ge i (groupOf hs e).length with h' | h'
    · exact h'
    · rw [List.getElem?_eq_none h'] at hi; cases hi
  have hil := ilt hi
  have hil' := ilt hi'
  have hL : ∀ {j e : Nat}, keys[j]? = some e → ((groupsOf hs keys).map (·.2.length))[j]? = some (groupOf hs e).length := by
    intro j e hj
    unfold groupsOf
    rw [List.map_map, List.getElem?_map, hj]; rfl
  have hLj := hL hj
  have hLj' := hL hj'
  have tot := prefix_le_total hLj
  refine ⟨_, _, hv, hv', ?_, ?_, ?_⟩
  · rcases Nat.lt_trichotomy j j' with hlt | heq | hgt
    · have := prefix_lt hLj hlt
      split <;> split <;> omega
    · -- the same edge: different positions
      rw [heq, hj'] at hj
      injection hj with hj
      subst hj
      have hii : i ≠ i' := by
        intro e2; rw [e2, hi'] at hi; injection hi with hi; exact hne (by rw [hi])
      rw [heq]
      split <;> split <;> omega
    · have := prefix_lt hLj' hgt
      split <;> split <;> omega
  · split <;> omega
  · split <;> omega

/-- **C16, step 2 — the entries that are never written stay `NULL_DART_ID`** -/
theorem ids_unwritten (hnd : (hs.map (fun x => x.2.idx)).Nodup) (hk : keys.Nodup) (n k : Nat) (hk' : k < n)
    (hno : ∀ x, x ∈ hs → x.2.idx ≠ k) :
    (intersectionIds n (groupsOf hs keys) (slicesFrom base ((groupsOf hs keys).map (·.2.length))))[k]? = some 0 := by
  unfold intersectionIds
  rw [foldl_set_other]
  · rw [List.getElem?_replicate, if_pos hk']
  · intro hmem
    obtain ⟨a, ha, e⟩ := List.mem_map.1 hmem
    obtain ⟨x, hx, e2⟩ := (assign_idx (base := base) hnd hk).2 a ha
    exact hno x hx (by rw [← e2, e])

end

/-- **C16, steps 1 + 2 — every written slot gets its dart under its own number** (the positive form of the repaired
    D16c), for every iteration order `keys` of the `HashMap`: the slot `k` holding `(d, t)` receives at `res[k]` a dart of
    the block of its edge `e = edge_id(d)` (the `j`-th key): the `i`-th of the first half when `d` is the identifier dart
    of the edge, the `i`-th from the end of the second half otherwise, `i` being the position of the hit among the hits of
    that edge in the order of `t` (measured from the identifier dart).  Unwritten slots in between change nothing. -/
theorem C16_intersection_darts_spec (b2 : Nat → Nat) (base : Nat) (slots : List Slot) (keys : List Nat)
    (hk : keys.Nodup) (hall : ∀ (k d : Nat) (t : Rat), slots[k]? = some (some (d, t)) → edgeOf b2 d ∈ keys) {k d : Nat} {t : Rat}
    (hkd : slots[k]? = some (some (d, t))) :
    let hs := hitsOf b2 slots
    let e := edgeOf b2 d
    let h : Hit := { idx := k, t := if e ≠ d then 1 - t else t, dart := d }
    ∃ j i, keys[j]? = some e ∧ (groupOf hs e)[i]? = some h ∧
      (intersectionDarts b2 base slots keys)[k]? =
        some (if d = e then base + 2 * (((groupsOf hs keys).map (·.2.length)).take j).sum + i
              else base + 2 * (((groupsOf hs keys).map (·.2.length)).take j).sum +
                ((groupOf hs e).length + ((groupOf hs e).length - 1 - i))) := by
  intro hs e h
  have hx : (e, h) ∈ hs := (C16_hits_slot_numbers b2 slots _).2 ⟨k, d, t, hkd, rfl⟩
  have hall' : ∀ x, x ∈ hs → x.1 ∈ keys := by
    intro x hx'
    obtain ⟨k', d', t', hk', rfl⟩ := (C16_hits_slot_numbers b2 slots x).1 hx'
    exact hall k' d' t' hk'
  have hn : ∀ x, x ∈ hs → x.2.idx < slots.length := fun x hx' => hits_idx_lt b2 slots hx'
  obtain ⟨j, i, h1, h2, h3⟩ := C16_intersection_ids_spec (base := base) (hits_idx_nodup b2 slots) hk hall' _ hn hx
  exact ⟨j, i, h1, h2, h3⟩

/-- **C16, steps 1 + 2 — an unwritten slot keeps `NULL_DART_ID`** (and nothing reads it: its vertex is a
    `GeometryVertex::IntersecCorner`, resolved from its dart, not from `intersection_darts`) -/
theorem C16_unwritten_slot_null (b2 : Nat → Nat) (base : Nat) (slots : List Slot) (keys : List Nat) (hk : keys.Nodup)
    {k : Nat} (hkn : slots[k]? = some none) :
    (intersectionDarts b2 base slots keys)[k]? = some 0 := by
  have hlt : k < slots.length := by
    rcases Nat.lt_or_ge k slots.length with h | h
    · exact h
    · rw [List.getElem?_eq_none h] at hkn; cases hkn
  unfold intersectionDarts
  refine ids_unwritten (base := base) (hits_idx_nodup b2 slots) hk _ k hlt ?_
  intro x hx e
  obtain ⟨k', d, t, hk', rfl⟩ := (C16_hits_slot_numbers b2 slots x).1 hx
  simp only at e
  rw [e, hkn] at hk'
  cases hk'

/-- distinct written slots receive distinct darts, inside the allocated block -/
theorem C16_intersection_darts_distinct (b2 : Nat → Nat) (base : Nat) (slots : List Slot) (keys : List Nat)
    (hk : keys.Nodup) (hall : ∀ (k d : Nat) (t : Rat), slots[k]? = some (some (d, t)) → edgeOf b2 d ∈ keys) {k k' : Nat}
    {dt dt' : Nat × Rat} (hkd : slots[k]? = some (some dt)) (hkd' : slots[k']? = some (some dt')) (hne : k ≠ k') :
    ∃ x y, (intersectionDarts b2 base slots keys)[k]? = some x ∧ (intersectionDarts b2 base slots keys)[k']? = some y ∧
      x ≠ y ∧ base ≤ x ∧
      x < base + 2 * ((groupsOf (hitsOf b2 slots) keys).map (·.2.length)).sum := by
  have hall' : ∀ x, x ∈ hitsOf b2 slots → x.1 ∈ keys := by
    intro x hx'
    obtain ⟨k', d', t', hk', rfl⟩ := (C16_hits_slot_numbers b2 slots x).1 hx'
    exact hall k' d' t' hk'
  have m1 := (C16_hits_slot_numbers b2 slots _).2 ⟨k, dt.1, dt.2, hkd, rfl⟩
  have m2 := (C16_hits_slot_numbers b2 slots _).2 ⟨k', dt'.1, dt'.2, hkd', rfl⟩
  exact C16_intersection_ids_distinct (base := base) (hits_idx_nodup b2 slots) hk hall' _
    (fun x hx' => hits_idx_lt b2 slots hx') m1 m2 (by intro e; injection e with _ e2; injection e2 with e3; exact hne e3)

/-! ## step 3 on one edge: the map -/

theorem range'_getD {a n i : Nat} (h : i < n) : (List.range' a n).getD i 0 = a + i := by
  rw [List.getD_eq_getElem?_getD, List.getElem?_range' h]; simp

/-- **C16, steps 2 + 3 on one edge — the map after `insert_vertices_on_edge(e, block of e, sorted positions of e)`**
    (`insert_intersections` does this for every key; `insertVerticesOnEdge` is the model of C14, tied there and, through
    the hook `intersection_darts`, here).  On a well-formed map, `e` the `j`-th key, `len` hits on it, `off` the start of
    its block, `fh = off ..+ len`, `sh = off + len ..+ len`: if the call succeeds then
    * the result is well formed and has C14's `InsertResult` shape: `e → fh[0] → … → fh[len-1] → old successor`, the
      mirrored chain `β2 e → sh[0] → …` on a two-dart edge, β2 pairing the two sides in reverse, all else unchanged;
    * the `i`-th hit `h` of the edge in the order of `t` reads `intersection_darts[h.idx] = fh[i]` if it hit the identifier
      dart, and `sh[len-1-i]` otherwise — a dart with `β1 (β2 ·) = fh[i]`, i.e. of the same vertex as `fh[i]`;
    * that vertex carries the point at position `h.t` of the edge: `v1 + (v2 - v1)·h.t`.
    Hence: every crossing gets exactly one new dart pair on its edge, in the order of `t`, and its entry in
    `intersection_darts` is the dart of its vertex on the side that was hit. -/
theorem C16_insert_edge_spec {m m' : Map Val} {hs : List (Nat × Hit)} {keys : List Nat} {base n j e : Nat}
    (hnd : (hs.map (fun x => x.2.idx)).Nodup) (hk : keys.Nodup) (hn : ∀ x, x ∈ hs → x.2.idx < n)
    (hj : keys[j]? = some e) (hwf : WF 3 m) (he : C01.InUse m e)
    (hlive : ∀ d, d ∈ List.range' (base + 2 * (((groupsOf hs keys).map (·.2.length)).take j).sum)
      (2 * (groupOf hs e).length) → m.unused d = false)
    (hr : run (insertVerticesOnEdge m.n e
      (List.range' (base + 2 * (((groupsOf hs keys).map (·.2.length)).take j).sum) (2 * (groupOf hs e).length))
      ((groupOf hs e).map (·.t))) m = (.ok (), m')) :
    WF 3 m' ∧
    C14.InsertResult m m' e
      (List.range' (base + 2 * (((groupsOf hs keys).map (·.2.length)).take j).sum) (groupOf hs e).length)
      (List.range' (base + 2 * (((groupsOf hs keys).map (·.2.length)).take j).sum + (groupOf hs e).length)
        (groupOf hs e).length) ∧
    ∃ v1 v2 : Val, ∀ (i : Nat) (h : Hit), (groupOf hs e)[i]? = some h →
      ∃ x, (intersectionIds n (groupsOf hs keys) (slicesFrom base ((groupsOf hs keys).map (·.2.length))))[h.idx]? = some x ∧
        (h.dart = e → x = base + 2 * (((groupsOf hs keys).map (·.2.length)).take j).sum + i) ∧
        (h.dart ≠ e → x = base + 2 * (((groupsOf hs keys).map (·.2.length)).take j).sum +
            ((groupOf hs e).length + ((groupOf hs e).length - 1 - i)) ∧
          (m.β 2 e ≠ 0 → m'.β 1 (m'.β 2 x) = base + 2 * (((groupsOf hs keys).map (·.2.length)).take j).sum + i)) ∧
        ∀ vid, (run (vertexId2 m.n (base + 2 * (((groupsOf hs keys).map (·.2.length)).take j).sum + i)) m').1 = .ok vid →
          m'.att 0 vid = some (placeVal v1 v2 (some h.t)) := by
  generalize hoff : base + 2 * (((groupsOf hs keys).map (·.2.length)).take j).sum = off at *
  generalize hlen : (groupOf hs e).length = len at *
  have htl : ((groupOf hs e).map (·.t)).length = len := by rw [List.length_map, hlen]
  have hsplit : List.range' off (2 * len) = List.range' off len ++ List.range' (off + len) len := by
    rw [show 2 * len = len + len by omega, ← List.range'_append, Nat.one_mul]
  have htake : (List.range' off (2 * len)).take ((groupOf hs e).map (·.t)).length = List.range' off len := by
    rw [htl, hsplit, List.take_left' (by rw [List.length_range'])]
  have hdrop : (List.range' off (2 * len)).drop ((groupOf hs e).map (·.t)).length = List.range' (off + len) len := by
    rw [htl, hsplit, List.drop_left' (by rw [List.length_range'])]
  have hfhnd : ((List.range' off (2 * len)).take ((groupOf hs e).map (·.t)).length).Nodup := by
    rw [htake]; exact List.nodup_range'
  obtain ⟨hwf', hres⟩ := C14.C14_insertVertices_beta_structure m m' e _ _ hwf he hlive hfhnd
    (fun _ => List.nodup_range') hr
  rw [htake, hdrop] at hres
  obtain ⟨vid1, vid2, v1, v2, _, _, _, _, hpos, _⟩ := C14.C14_new_vertex_position_full m m' e _ _ hwf he hlive hfhnd
    (fun _ => List.nodup_range') hr
  rw [htake] at hpos
  refine ⟨hwf', hres, v1, v2, ?_⟩
  intro i h hi
  have hilt : i < len := by
    rcases Nat.lt_or_ge i len with h' | h'
    · exact h'
    · rw [List.getElem?_eq_none (by rw [hlen]; exact h')] at hi; cases hi
  have hx : (e, h) ∈ hs := mem_groupOf.1 (List.mem_of_getElem? hi)
  have hval := intersection_ids_at (base := base) hnd hk n hn hx hj hi
  rw [hoff, hlen] at hval
  refine ⟨_, hval, ?_, ?_, ?_⟩
  · intro hd; rw [if_pos hd]
  · intro hd
    rw [if_neg hd]
    refine ⟨rfl, fun he2 => ?_⟩
    -- β2 of `sh[len-1-i]` is `(e :: fh)[i]`, whose β1 is `fh[i]`
    obtain ⟨hpz, hpl1, _⟩ := hres.pairs he2
    have hchain := C14.B1Chain.index (List.range' off len) e i hres.side1.1 (by rw [List.length_range']; exact hilt)
    have hfi : (e :: List.range' off len).getD (i + 1) 0 = off + i := by
      rw [List.getD_cons_succ, range'_getD hilt]
    have hb2 : m'.β 2 (off + (len + (len - 1 - i))) = (e :: List.range' off len).getD i 0 := by
      cases i with
      | zero =>
          have hl : (List.range' (off + len) len).getLastD (m.β 2 e) = off + (len + (len - 1 - 0)) := by
            rw [C14.getLastD_index, List.length_range']
            have : len = (len - 1) + 1 := by omega
            rw [this, List.getD_cons_succ, range'_getD (by omega)]
            omega
          rw [← hl, hpl1]; rfl
      | succ i' =>
          have := C14.zip_index (Q := fun p => m'.β 2 p.1 = p.2 ∧ m'.β 2 p.2 = p.1) hpz (len - (i' + 1))
            (by simp only [List.length_cons, List.length_range']; omega)
            (by simp only [List.length_reverse, List.length_range']; omega)
          have e1 : (m.β 2 e :: List.range' (off + len) len).getD (len - (i' + 1)) 0 = off + (len + (len - 1 - (i' + 1))) := by
            have : len - (i' + 1) = (len - 1 - (i' + 1)) + 1 := by omega
            rw [this, List.getD_cons_succ, range'_getD (by omega)]
            omega
          have e2 : (List.range' off len).reverse.getD (len - (i' + 1)) 0 = (e :: List.range' off len).getD (i' + 1) 0 := by
            rw [List.getD_cons_succ, List.getD_eq_getElem?_getD,
              List.getElem?_eq_getElem (by simp only [List.length_reverse, List.length_range']; omega), List.getElem_reverse]
            simp only [List.length_range', List.getElem_range', Option.getD_some]
            rw [range'_getD (by omega)]
            omega
          rw [e1, e2] at this
          exact this.1
    rw [hb2, hchain, hfi]
  · intro vid hv
    refine hpos (h.t, off + i) ?_ vid hv
    have : (((groupOf hs e).map (·.t)).zip (List.range' off len))[i]? = some (h.t, off + i) := by
      rw [List.getElem?_zip_eq_some]
      exact ⟨by rw [List.getElem?_map, hi]; rfl, by rw [List.getElem?_range' hilt]; simp⟩
    exact List.mem_of_getElem? this

/-! ## examples -/

/-- a 2 × 1 grid: β2 pairs dart 2 (right side of cell 0) with dart 8 (left side of cell 1) -/
def exB2 : Nat → Nat := fun d => if d = 2 then 8 else if d = 8 then 2 else 0

-- two crossings of the inner edge {2, 8}, one from each side, and one of the outer edge {3}.
-- Edge 2 gets the block 9 10 | 11 12: 2 → 9 → 10 with 9 at t = 1/2 and 10 at t = 3/4, 8 → 11 → 12 on the other side;
-- slot 2 (dart 2, t = 1/2) reads 9; slot 0 (dart 8, t = 1/4 from its own origin = 3/4) reads 11, the dart of the
-- vertex {10, 11} on the side of dart 8
example : intersectionDarts exB2 9 [some (8, 1/4), some (3, 1/2), some (2, 1/2)] [2, 3] = [11, 13, 9] := by decide +kernel
-- the other iteration order of the map: other darts, same structure
example : intersectionDarts exB2 9 [some (8, 1/4), some (3, 1/2), some (2, 1/2)] [3, 2] = [13, 9, 11] := by decide +kernel
-- hypotheses of `C16_intersection_darts_spec` on this example
example : ([2, 3] : List Nat).Nodup ∧ ∀ x, x ∈ [((8 : Nat), (1/4 : Rat)), (3, 1/2), (2, 1/2)] → edgeOf exB2 x.1 ∈ [2, 3] := by
  decide +kernel
-- unwritten slots (corner crossings) in front and in between: every written slot keeps its own number (D16c repaired;
-- before /repo 2e893a8 this was [11, 9, 0, 0, 0]: slot 4 read NULL_DART_ID)
example : intersectionDarts exB2 9 [none, some (8, 1/4), none, some (3, 1/2), some (2, 1/2)] [2, 3] = [0, 11, 0, 13, 9] := by
  decide +kernel
example := C16_intersection_darts_spec exB2 9 [none, some (8, 1/4), none, some (3, 1/2), some (2, 1/2)] [2, 3] (by decide)
  (by
    intro k d t hk
    have : k < 5 := by
      rcases Nat.lt_or_ge k 5 with h | h
      · exact h
      · rw [List.getElem?_eq_none (by simpa using h)] at hk; cases hk
    rcases (by omega : k = 0 ∨ k = 1 ∨ k = 2 ∨ k = 3 ∨ k = 4) with rfl | rfl | rfl | rfl | rfl <;>
      simp at hk <;> (obtain ⟨rfl, _⟩ := hk; decide))
  (k := 4) (d := 2) (t := 1/2) (by decide +kernel)
example : (intersectionDarts exB2 9 [none, some (8, 1/4), none, some (3, 1/2), some (2, 1/2)] [2, 3])[2]? = some 0 :=
  C16_unwritten_slot_null exB2 9 _ _ (by decide) (by decide)

/-- the 2 × 1 grid of the examples above with the six darts `add_free_darts(6)` allocated (9 … 14) -/
def exGridMap : Map Val :=
  { (Map.empty 3 6 15 : Map Val) with
    b := #[#[0, 4, 1, 2, 3, 8, 5, 6, 7, 0, 0, 0, 0, 0, 0], #[0, 2, 3, 4, 1, 6, 7, 8, 5, 0, 0, 0, 0, 0, 0],
           #[0, 0, 8, 0, 0, 0, 0, 0, 2, 0, 0, 0, 0, 0, 0]]
    a := #[#[none, some (.pt 0 0 0), some (.pt 1 0 0), some (.pt 1 1 0), some (.pt 0 1 0), none, some (.pt 2 0 0),
             some (.pt 2 1 0), none, none, none, none, none, none, none, none],
           Array.replicate 16 none, Array.replicate 16 none, Array.replicate 16 none,
           Array.replicate 16 none, Array.replicate 16 none] }

def exSlots : List Slot := [none, some (8, 1/4), none, some (3, 1/2), some (2, 1/2)]

-- every hypothesis of `C16_insert_edge_spec` holds on the inner edge 2 of the grid (first key, block 9 10 | 11 12)
example := C16_insert_edge_spec (m := exGridMap) (hs := hitsOf (exGridMap.β 2) exSlots) (keys := [2, 3]) (base := 9) (n := 5)
  (j := 0) (e := 2) (hits_idx_nodup _ _) (by decide) (fun x hx => hits_idx_lt _ exSlots hx) (by decide)
  (by decide +kernel) (by decide +kernel) (by decide +kernel) (C14.ok_of_fst (by decide +kernel))
-- … and the result: 2 → 9 → 10 → 3 with 9 at (1, 1/2) and 10 at (1, 3/4); slot 1 (dart 8) reads 11 with β1 (β2 11) = 10
example : let m' := (run (insertVerticesOnEdge exGridMap.n 2 [9, 10, 11, 12] [1/2, 3/4]) exGridMap).2
    (m'.β 1 2, m'.β 1 9, m'.β 1 10, m'.β 1 (m'.β 2 11), m'.att 0 9, m'.att 0 10) =
      (9, 10, 3, 10, some (.pt 1 (1/2) 0), some (.pt 1 (3/4) 0)) := by decide +kernel

end HC.C16
