/-
  C08 — operations composed in one transaction act like the same calls in sequence.

  For every list of transactional closures over a map (core operations, kernels, user blocks —
  anything of type `P X α`): if each succeeds when they are run one after the other, each in its
  own `atomically_with_err`, then running them inside ONE atomic block returns the same list of
  results and exactly the same final map; and conversely.  Proved for the sequential semantics
  and, through T1, for the transaction-log semantics that `fast-stm` implements (an operation
  reads its own transaction's earlier writes from the log, and nothing else).

  The premise that a real operation *is* such a closure (reads shared state only through its
  `Transaction`) is a fact about the code, checked by the differential run of tools/props/c08.py
  (it is false today for `three_sew/three_unsew` and the vertex-insertion kernels: known findings).
-/
import Honeycomb.Lemmas.MapLawful
import Honeycomb.Props.C01

namespace HC.C08
open HC
variable {X α : Type}

theorem C08_block_equals_sequence (ps : List (P X α)) (m m' : Map X) (rs : List α)
    (h : runEach ps m = some (rs, m')) : atomically (seqAll ps) m = (.ok rs, m') :=
  compose_eq_sequence ps m m' rs h

theorem C08_sequence_of_block (ps : List (P X α)) (m m' : Map X) (rs : List α)
    (h : atomically (seqAll ps) m = (.ok rs, m')) : runEach ps m = some (rs, m') :=
  sequence_of_compose ps m m' rs h

/-- the same with the log semantics on both sides: what `fast-stm` executes -/
def runEachLog : List (P X α) → Map X → Option (List α × Map X)
  | [], s => some ([], s)
  | p :: ps, s =>
      match atomicallyLog p s with
      | (.ok a, s') =>
          match runEachLog ps s' with
          | some (as, s'') => some (a :: as, s'')
          | none => none
      | _ => none

theorem runEachLog_eq (ps : List (P X α)) : ∀ m : Map X, runEachLog ps m = runEach ps m := by
  induction ps with
  | nil => intro m; rfl
  | cons p ps ih =>
      intro m
      simp only [runEachLog, runEach, T1_atomicallyLog_eq]
      match atomically p m with
      | (.ok a, s') => simp only [ih]; cases runEach ps s' <;> rfl
      | (.err e, s') => rfl
      | (.retry, s') => rfl
      | (.panic, s') => rfl

theorem C08_log_block_equals_sequence (ps : List (P X α)) (m m' : Map X) (rs : List α)
    (h : runEachLog ps m = some (rs, m')) : atomicallyLog (seqAll ps) m = (.ok rs, m') := by
  rw [T1_atomicallyLog_eq]
  rw [runEachLog_eq] at h
  exact compose_eq_sequence ps m m' rs h

/-- read-your-writes, stated on its own: inside a transaction a read returns the last value the
    transaction wrote to that variable, else the committed one -/
theorem C08_read_your_writes (ℓ : Log MVar (MVal X)) (m : Map X) (hw : ℓ.WritesOK m) (v : MVar) :
    Store.sget (ℓ.apply m) v = (ℓ.lastWrite v).getD (Store.sget m v) :=
  sget_apply ℓ m hw v

/-! non-vacuity: build a triangle by three 1-links and 2-sew it to another one, in one block -/

def exProg : List (P Val Unit) :=
  [C01.prog (stdCfg 3 7) 9 (.unlink 1 3), C01.prog (stdCfg 3 7) 9 (.link 1 3 7),
   C01.prog (stdCfg 3 7) 9 (.sew 2 2 4), C01.prog (stdCfg 3 7) 9 (.unsew 2 4)]

example : (runEach exProg C01.exMap).isSome = true := by decide +kernel
example : (atomically (seqAll exProg) C01.exMap).1 = .ok [(), (), (), ()] := by decide +kernel

end HC.C08
