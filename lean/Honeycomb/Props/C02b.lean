/-
  C02, continued — the two predicates the 3-D rendering theorems (Props/C20b.lean) need besides
  `WF 4` and `Mirror`:

  * `Sided3 m` (C20b's `Sided`): a face is 3-linked as a whole —
    `β3 d = 0 ↔ β3 (β1 d) = 0` whenever `β1 d ≠ 0`;
  * `NoSelfGlue3 m` (C20b's `NoSelfGlue`, on iterates): no dart is 3-linked to a dart of its own
    β1-walk.

  FINDINGS (exhaustive search `tools/sided_scan.py`: every WF 3-map with ≤ 4 darts × every guarded
  call, 24 500 random histories; model and implementation agree on every call):
  * `Sided3` is NOT preserved by the editing API under C02's guards alone: a 1-link / 1-sew of a
    3-linked dart with a 3-free dart breaks it (`new 3 3 0; link 3 1 2; link 1 1 3`,
    `C02b_sided_counterexample`), and two more such calls break `NoSelfGlue3` as well
    (`… ; link 1 3 2`, `C02b_noSelfGlue_counterexample`).  Nothing else breaks either of them.
  * With the extra guard `G(l, r) := (β3 l = 0 ↔ β3 r = 0)` on 1-links / 1-sews (necessary and
    sufficient, step by step) `WF 4 ∧ Mirror ∧ Sided3` is preserved by every call and every history:
    `C02b_step_preserves_Sided`, `C02b_history_preserves_Sided` — PROVED here, using that
    `three_link` links and `three_unlink` unlinks WHOLE faces (`Lemmas/Cell3b.lean`:
    `threeLink3_linked`, `threeUnlink3_unlinked`, closed and open faces).
  * `NoSelfGlue` (unbounded form `NoSelfGlueAll`) is preserved from `WF 4 ∧ Mirror ∧ Sided3 ∧
    NoSelfGlue` maps by every call satisfying C02's guards and `G13`:
    `C02b_step_preserves_NoSelfGlue`, `C02b_history_preserves_all` — PROVED here.  Key fact
    (`nsg_of_noAdj`): on a well-formed, mirrored, sided map β3 REVERSES a β1-walk from `d` to `β3 d`,
    so a self-glued face shows as a β3 fixed point (impossible) or as a dart 3-linked to its own
    successor (`NoAdj`, decidable, local) — and a successful 1-link never creates one (the second
    `one_link_core` of the 3-D `one_link` would repeat the first).  Without `G13` the search found no
    violation from maps satisfying all four predicates either, but the result need not be sided;
    that variant is not proved (`C02b_step_preserves_NoSelfGlue_partial` covers every call other
    than 1-links / 1-sews without `G13`).
-/
import Honeycomb.Lemmas.Cell3b
import Honeycomb.Props.C02

set_option linter.unusedSimpArgs false
set_option linter.unusedVariables false

namespace HC.C02
open HC HC.Cell3
variable {X : Type}

/-! ## Sided -/

theorem sided_of_β13 {m m' : Map X} (hn : m'.n = m.n) (h1 : ∀ d, m'.β 1 d = m.β 1 d)
    (h3 : ∀ d, m'.β 3 d = m.β 3 d) (hS : Sided3 m) : Sided3 m' := by
  intro d hd
  simp only [h1, h3]
  exact hS d (by rw [← hn]; exact hd)

theorem SameTopo.sided {m m' : Map X} (st : SameTopo m m') (hS : Sided3 m) : Sided3 m' :=
  sided_of_β13 st.n (st.β 1) (st.β 3) hS

/-- `x` is one of the darts of `ps` -/
def Endp (ps : List (Nat × Nat)) (x : Nat) : Prop := ∃ pq, pq ∈ ps ∧ (x = pq.1 ∨ x = pq.2)

/-- the darts of a covered list are closed under β1 and its inverse -/
theorem endp_succ {m : Map X} (hw : WF 4 m) {ps : List (Nat × Nat)} (hc : Covered m ps) {d : Nat}
    (hd : d < m.n) (h1 : m.β 1 d ≠ 0) : Endp ps d ↔ Endp ps (m.β 1 d) := by
  constructor
  · rintro ⟨pq, hm, rfl | rfl⟩
    · obtain ⟨pq', hm', e⟩ := (hc pq hm 1 (by omega)).1 h1
      exact ⟨pq', hm', Or.inl e.symm⟩
    · obtain ⟨pq', hm', e⟩ := (hc pq hm 1 (by omega)).2 h1
      exact ⟨pq', hm', Or.inr e.symm⟩
  · have back : m.β 0 (m.β 1 d) = d := hw.inv01 d hd h1
    have hd0 : d ≠ 0 := fun hh => h1 (by rw [hh]; exact hw.null 1 (by omega))
    rintro ⟨pq, hm, e | e⟩
    · obtain ⟨pq', hm', e'⟩ := (hc pq hm 0 (by omega)).1 (by rw [← e, back]; exact hd0)
      exact ⟨pq', hm', Or.inl (by rw [e', ← e, back])⟩
    · obtain ⟨pq', hm', e'⟩ := (hc pq hm 0 (by omega)).2 (by rw [← e, back]; exact hd0)
      exact ⟨pq', hm', Or.inr (by rw [e', ← e, back])⟩

/-- 3-linking whole faces keeps `Sided3` -/
theorem sided_linked {m m' : Map X} (hw : WF 4 m) {ps : List (Nat × Nat)} (L : Linked3 m m' ps)
    (hc : Covered m ps) (hS : Sided3 m) : Sided3 m' := by
  intro d hd
  have hd' : d < m.n := by rw [← L.n]; exact hd
  rw [L.other 1 d (by omega)]
  intro h1
  have nz : ∀ x, Endp ps x → m'.β 3 x ≠ 0 := by
    rintro x ⟨pq, hm, rfl | rfl⟩
    · obtain ⟨a1, _, _, _, _, a6, _⟩ := L.pairs pq hm
      rw [a1]; exact a6
    · obtain ⟨_, a2, _, _, a5, _, _⟩ := L.pairs pq hm
      rw [a2]; exact a5
  have same : ∀ x, ¬ Endp ps x → m'.β 3 x = m.β 3 x := fun x hx =>
    L.rest x fun pq hm => ⟨fun hh => hx ⟨pq, hm, Or.inl hh⟩, fun hh => hx ⟨pq, hm, Or.inr hh⟩⟩
  by_cases he : Endp ps d
  · have he' := (endp_succ hw hc hd' h1).1 he
    exact ⟨fun hh => absurd hh (nz _ he), fun hh => absurd hh (nz _ he')⟩
  · have he' : ¬ Endp ps (m.β 1 d) := fun hh => he ((endp_succ hw hc hd' h1).2 hh)
    rw [same _ he, same _ he']
    exact hS d hd' h1

/-- 3-unlinking whole faces keeps `Sided3` -/
theorem sided_unlinked {m m' : Map X} (hw : WF 4 m) {ps : List (Nat × Nat)} (L : Linked3 m' m ps)
    (hc : Covered m ps) (hS : Sided3 m) : Sided3 m' := by
  intro d hd
  have hd' : d < m.n := by rw [L.n]; exact hd
  rw [← L.other 1 d (by omega)]
  intro h1
  have z : ∀ x, Endp ps x → m'.β 3 x = 0 := by
    rintro x ⟨pq, hm, rfl | rfl⟩
    · exact (L.pairs pq hm).2.2.1
    · exact (L.pairs pq hm).2.2.2.1
  have same : ∀ x, ¬ Endp ps x → m'.β 3 x = m.β 3 x := fun x hx =>
    (L.rest x fun pq hm => ⟨fun hh => hx ⟨pq, hm, Or.inl hh⟩, fun hh => hx ⟨pq, hm, Or.inr hh⟩⟩).symm
  by_cases he : Endp ps d
  · have he' := (endp_succ hw hc hd' h1).1 he
    rw [z _ he, z _ he']
  · have he' : ¬ Endp ps (m.β 1 d) := fun hh => he ((endp_succ hw hc hd' h1).2 hh)
    rw [same _ he, same _ he']
    exact hS d hd' h1

/-- the extra guard on 1-links / 1-sews: both darts 3-linked, or neither -/
def G13 (m : Map X) (l r : Nat) : Prop := m.β 3 l = 0 ↔ m.β 3 r = 0

theorem sided_oneLink3 {l r : Nat} {m m1 : Map X} {u : Unit} (hw : WF 4 m)
    (hl0 : l ≠ 0) (hr0 : r ≠ 0) (hln : l < m.n) (hrn : r < m.n)
    (hul : m.unused l = false) (hur : m.unused r = false) (hg : G13 m l r) (hS : Sided3 m)
    (h : run (oneLink3 (X := X) l r) m = (.ok u, m1)) : Sided3 m1 := by
  obtain ⟨f1, f0, hform⟩ := oneLink3_form hw hln hrn h
  have hw0 : WF 4 (m.link1 l r) := hw.link1 (by omega) hl0 hr0 hln hrn hul hur f1 f0
  have ho1 : Only01 m (m.link1 l r) := Only01.link1 hw hln hrn
  have eβ := hw.toSized.β_link1 (by omega) hln hrn
  have e1 : ∀ x, (m.link1 l r).β 1 x = if l = x then r else m.β 1 x := by intro x; rw [eβ]; simp
  have e3 : ∀ x, (m.link1 l r).β 3 x = m.β 3 x := fun x => ho1.β 3 x (by omega)
  have S0 : Sided3 (m.link1 l r) := by
    intro d hd
    rw [e1 d, e3]
    by_cases c : l = d
    · subst c
      simp only [if_true]
      intro _; rw [e3]; exact hg
    · simp only [c, if_false]
      intro h1; rw [e3]; exact hS d hd h1
  rcases hform with ⟨_, rfl⟩ | ⟨h3l, h3r, g1, g0, rfl⟩
  · exact S0
  · have il := hw.image_inUse (i := 3) (by omega) hln h3l
    have ir := hw.image_inUse (i := 3) (by omega) hrn h3r
    have ho2 : Only01 (m.link1 l r) ((m.link1 l r).link1 (m.β 3 r) (m.β 3 l)) := Only01.link1 hw0 ir.1 il.1
    have eβ2 := hw0.toSized.β_link1 (by omega) (l := m.β 3 r) (r := m.β 3 l) ir.1 il.1
    have e1' : ∀ x, ((m.link1 l r).link1 (m.β 3 r) (m.β 3 l)).β 1 x =
        if m.β 3 r = x then m.β 3 l else (m.link1 l r).β 1 x := by intro x; rw [eβ2]; simp
    have e3' : ∀ x, ((m.link1 l r).link1 (m.β 3 r) (m.β 3 l)).β 3 x = m.β 3 x :=
      fun x => (ho1.trans ho2).β 3 x (by omega)
    intro d hd
    rw [e1' d, e3']
    by_cases c : m.β 3 r = d
    · subst c
      simp only [if_true]
      intro _
      rw [e3', invol_back hw (by omega) (by omega) hrn h3r, invol_back hw (by omega) (by omega) hln h3l]
      exact ⟨fun hh => absurd hh hr0, fun hh => absurd hh hl0⟩
    · simp only [c, if_false]
      intro h1
      have := S0 d hd h1
      rw [e3, e3] at this
      rw [e3']; exact this

theorem sided_oneUnlink3 {l : Nat} {m m1 : Map X} {u : Unit} (hw : WF 4 m) (hln : l < m.n) (hS : Sided3 m)
    (h : run (oneUnlink3 (X := X) l) m = (.ok u, m1)) : Sided3 m1 := by
  obtain ⟨hne, hform⟩ := oneUnlink3_form hw hln h
  have hrn : m.β 1 l < m.n := hw.range 1 (by omega) l hln
  have hw1 : WF 4 (m.unlink1 l) := hw.unlink1 (by omega) hln hne
  have ho1 : Only01 m (m.unlink1 l) := Only01.unlink1 hw hln
  have eβ := hw.toSized.β_unlink1 (by omega) hln hrn
  have e1 : ∀ x, (m.unlink1 l).β 1 x = if l = x then 0 else m.β 1 x := by intro x; rw [eβ]; simp
  have e3 : ∀ x, (m.unlink1 l).β 3 x = m.β 3 x := fun x => ho1.β 3 x (by omega)
  have S0 : Sided3 (m.unlink1 l) := by
    intro d hd
    rw [e1 d, e3]
    by_cases c : l = d
    · simp [c]
    · simp only [c, if_false]
      intro h1; rw [e3]; exact hS d hd h1
  rcases hform with ⟨_, rfl⟩ | ⟨h3l, h3r, hx, rfl⟩
  · exact S0
  · have hbn : m.β 3 (m.β 1 l) < (m.unlink1 l).n := hw.range 3 (by omega) _ hrn
    have ho2 := Only01.unlink1 hw1 hbn
    have eβ2 := hw1.toSized.β_unlink1 (by omega) hbn (hw1.range 1 (by omega) _ hbn)
    have e1' : ∀ x, ((m.unlink1 l).unlink1 (m.β 3 (m.β 1 l))).β 1 x =
        if m.β 3 (m.β 1 l) = x then 0 else (m.unlink1 l).β 1 x := by intro x; rw [eβ2]; simp
    have e3' : ∀ x, ((m.unlink1 l).unlink1 (m.β 3 (m.β 1 l))).β 3 x = m.β 3 x :=
      fun x => (ho1.trans ho2).β 3 x (by omega)
    intro d hd
    rw [e1' d, e3']
    by_cases c : m.β 3 (m.β 1 l) = d
    · simp [c]
    · simp only [c, if_false]
      intro h1
      have := S0 d hd h1
      rw [e3, e3] at this
      rw [e3']; exact this

/-- the guard of C02 plus `G13` on 1-links / 1-sews -/
def ArgsG (m : Map X) : Op3 → Prop
  | .link 1 l r => G13 m l r
  | .sew 1 l r => G13 m l r
  | _ => True

instance (m : Map X) (l r : Nat) : Decidable (G13 m l r) := by unfold G13; exact inferInstance

instance (m : Map X) : (op : Op3) → Decidable (ArgsG m op)
  | .link 1 l r => inferInstanceAs (Decidable (G13 m l r))
  | .link 0 _ _ => isTrue trivial
  | .link (_ + 2) _ _ => isTrue trivial
  | .sew 1 l r => inferInstanceAs (Decidable (G13 m l r))
  | .sew 0 _ _ => isTrue trivial
  | .sew (_ + 2) _ _ => isTrue trivial
  | .unlink _ _ => isTrue trivial
  | .unsew _ _ => isTrue trivial
  | .addFreeDarts _ => isTrue trivial
  | .insertFreeDart => isTrue trivial
  | .removeFreeDart _ => isTrue trivial
  | .removeFreeDartTx _ => isTrue trivial

/-- `p` keeps `Sided3` whenever it returns `Ok`, from WF, mirrored states satisfying `Q` -/
def SafeS (Q : Map X → Prop) {α : Type} (p : P X α) : Prop :=
  ∀ (m m' : Map X) (a : α), WF 4 m → Mirror m → Sided3 m → Q m → run p m = (.ok a, m') → Sided3 m'

theorem SafeS.of_topology {Q : Map X → Prop} {α β : Type} {p : P X α} {q : P X β} (hq : SafeS Q q)
    (ht : ∀ (m m' : Map X) (a : α), run p m = (.ok a, m') → ∃ b m1, run q m = (.ok b, m1) ∧ SameTopo m1 m') :
    SafeS Q p := by
  intro m m' a hwf hM hS hQ h
  obtain ⟨b, m1, h1, st⟩ := ht m m' a h
  exact SameTopo.sided st (hq m m1 b hwf hM hS hQ h1)

theorem safeS_oneLink3 (l r : Nat) :
    SafeS (fun m : Map X => InUse m l ∧ InUse m r ∧ G13 m l r) (oneLink3 l r) := by
  intro m m' u hwf _ hS ⟨hl, hr, hg⟩ h
  exact sided_oneLink3 hwf hl.1 hr.1 hl.2.1 hr.2.1 hl.2.2 hr.2.2 hg hS h

theorem safeS_twoLink (l r : Nat) :
    SafeS (fun m : Map X => InUse m l ∧ InUse m r) (iLinkCore 2 l r) := by
  intro m m' u hwf _ hS ⟨hl, hr⟩ h
  obtain ⟨_, _, _, _, rfl⟩ := iLinkCore_ok h
  have eβ := hwf.toSized.β_linkI (i := 2) (by omega) hl.2.1 hr.2.1
  show Sided3 (m.linkI 2 l r)
  refine sided_of_β13 (m := m) (m' := m.linkI 2 l r) rfl ?_ ?_ hS
  · intro d; rw [eβ]; simp
  · intro d; rw [eβ]; simp

theorem safeS_threeLink3 (n l r : Nat) :
    SafeS (fun m : Map X => InUse m l ∧ InUse m r) (threeLink3 n l r) := by
  intro m m' u hwf _ hS ⟨hl, hr⟩ h
  obtain ⟨ps, L, _, hc⟩ := threeLink3_linked hwf hl.1 hr.1 h
  exact sided_linked hwf L hc hS

theorem safeS_oneUnlink3 (l : Nat) : SafeS (fun m : Map X => InUse m l) (oneUnlink3 l) := by
  intro m m' u hwf _ hS hl h
  exact sided_oneUnlink3 hwf hl.2.1 hS h

theorem safeS_twoUnlink (l : Nat) : SafeS (fun m : Map X => InUse m l) (iUnlinkCore 2 l) := by
  intro m m' u hwf _ hS hl h
  obtain ⟨_, _, _, rfl⟩ := iUnlinkCore_ok h
  have eβ := hwf.toSized.β_unlinkI (i := 2) (by omega) hl.2.1 (hwf.range 2 (by omega) l hl.2.1)
  show Sided3 (m.unlinkI 2 l)
  refine sided_of_β13 (m := m) (m' := m.unlinkI 2 l) rfl ?_ ?_ hS
  · intro d; rw [eβ]; simp
  · intro d; rw [eβ]; simp

theorem safeS_threeUnlink3 (n l : Nat) : SafeS (fun m : Map X => InUse m l) (threeUnlink3 n l) := by
  intro m m' u hwf hM hS hl h
  obtain ⟨ps, L, _, hc, _⟩ := threeUnlink3_unlinked hwf hM hS hl.2.1 h
  exact sided_unlinked hwf L hc hS

theorem safeS_prog (cfg : Cfg X) (n : Nat) (op : Op3) :
    SafeS (fun m : Map X => ArgsOK m op ∧ ArgsG m op) (prog cfg n op) := by
  unfold prog
  split
  · exact fun m m' a hw hM hS hq h => safeS_oneLink3 _ _ m m' a hw hM hS ⟨hq.1.1, hq.1.2.1, hq.2⟩ h
  · exact fun m m' a hw hM hS hq h => safeS_twoLink _ _ m m' a hw hM hS ⟨hq.1.1, hq.1.2.1⟩ h
  · exact fun m m' a hw hM hS hq h => safeS_threeLink3 _ _ _ m m' a hw hM hS ⟨hq.1.1, hq.1.2.1⟩ h
  · exact fun m m' a hw hM hS hq h => safeS_oneUnlink3 _ m m' a hw hM hS hq.1 h
  · exact fun m m' a hw hM hS hq h => safeS_twoUnlink _ m m' a hw hM hS hq.1 h
  · exact fun m m' a hw hM hS hq h => safeS_threeUnlink3 _ _ m m' a hw hM hS hq.1 h
  · rename_i l r
    refine SafeS.of_topology (q := oneLink3 l r)
      (fun m m' a hw hM hS hq h => safeS_oneLink3 l r m m' a hw hM hS ⟨hq.1.1, hq.1.2.1, hq.2⟩ h)
      fun m m' a h => ?_
    obtain ⟨m1, h1, st⟩ := oneSew3_topology cfg n l r m m' a h; exact ⟨(), m1, h1, st⟩
  · rename_i l r
    refine SafeS.of_topology (q := iLinkCore 2 l r)
      (fun m m' a hw hM hS hq h => safeS_twoLink l r m m' a hw hM hS ⟨hq.1.1, hq.1.2.1⟩ h)
      fun m m' a h => ?_
    obtain ⟨m1, h1, st⟩ := twoSew3_topology cfg n l r m m' a h; exact ⟨(), m1, h1, st⟩
  · rename_i l r
    refine SafeS.of_topology (q := threeLink3 n l r)
      (fun m m' a hw hM hS hq h => safeS_threeLink3 n l r m m' a hw hM hS ⟨hq.1.1, hq.1.2.1⟩ h)
      fun m m' a h => ?_
    obtain ⟨m1, h1, st⟩ := threeSew3_topology cfg n l r m m' a h; exact ⟨(), m1, h1, st⟩
  · rename_i l
    refine SafeS.of_topology (q := oneUnlink3 l)
      (fun m m' a hw hM hS hq h => safeS_oneUnlink3 l m m' a hw hM hS hq.1 h) fun m m' a h => ?_
    obtain ⟨m1, h1, st⟩ := oneUnsew3_topology cfg n l m m' a h; exact ⟨(), m1, h1, st⟩
  · rename_i l
    refine SafeS.of_topology (q := iUnlinkCore 2 l)
      (fun m m' a hw hM hS hq h => safeS_twoUnlink l m m' a hw hM hS hq.1 h) fun m m' a h => ?_
    obtain ⟨m1, h1, st⟩ := twoUnsew3_topology cfg n l m m' a h; exact ⟨(), m1, h1, st⟩
  · rename_i l
    refine SafeS.of_topology (q := threeUnlink3 n l)
      (fun m m' a hw hM hS hq h => safeS_threeUnlink3 n l m m' a hw hM hS hq.1 h) fun m m' a h => ?_
    obtain ⟨m1, h1, st⟩ := threeUnsew3_topology cfg n l m m' a h; exact ⟨(), m1, h1, st⟩
  · rename_i d
    intro m m' a hwf _ hS hq h
    obtain ⟨b, m1, h1, h2⟩ := run_bind_ok h
    rw [run_removeFreeDartTx] at h1
    have hok : m.okU d = true := (hwf.toSized.okU d).2 hq.1.1.2.1
    simp only [hok, if_true, Prod.mk.injEq] at h1
    simp at h2
    rw [← h2, ← h1.2]
    exact sided_of_β13 rfl (fun _ => rfl) (fun _ => rfl) hS
  · intro m m' a _ _ _ _ h; simp at h

theorem sided_addFreeDarts {m : Map X} (hwf : WF 4 m) (k : Nat) (hS : Sided3 m) :
    Sided3 (m.addFreeDarts k).2 := by
  have eβ := fun i d (hi : i < 4) => addFreeDarts_β hwf.toSized k i d hi
  intro d hd
  rw [eβ 1 d (by omega), eβ 3 d (by omega)]
  by_cases hdn : d < m.n
  · simp only [hdn, if_true]
    intro g1
    rw [eβ 3 _ (by omega)]
    simp only [hwf.range 1 (by omega) d hdn, if_true]
    exact hS d hdn g1
  · simp [hdn]

/-- **C02b, one call**: with the extra guard `G13` on 1-links / 1-sews, every public editing call
    keeps "faces are 3-linked as a whole" on a well-formed mirrored 3-map (success, error and panic
    branches alike) -/
theorem C02b_step_preserves_Sided (cfg : Cfg X) (m : Map X) (op : Op3)
    (hwf : WF 4 m) (hM : Mirror m) (hS : Sided3 m) (hargs : ArgsOK m op) (hg : ArgsG m op) :
    Sided3 (step cfg m op) := by
  have key : ∀ op', ArgsOK m op' → ArgsG m op' → Sided3 (atomically (prog cfg m.n op') m).2 := by
    intro op' ha hg'
    unfold atomically
    match h : run (prog cfg m.n op') m with
    | (.ok a, m') => simp only [h]; exact safeS_prog cfg m.n op' m m' a hwf hM hS ⟨ha, hg'⟩ h
    | (.err e, m') => simp only [h]; exact hS
    | (.retry, m') => simp only [h]; exact hS
    | (.panic, m') => simp only [h]; exact hS
  cases op with
  | addFreeDarts k => exact sided_addFreeDarts hwf k hS
  | insertFreeDart =>
      show Sided3 m.insertFreeDart.2
      unfold Map.insertFreeDart
      split
      · exact sided_of_β13 rfl (fun _ => rfl) (fun _ => rfl) hS
      · exact sided_addFreeDarts hwf 1 hS
  | removeFreeDart d =>
      show Sided3 (m.removeFreeDart 4 d).2
      unfold Map.removeFreeDart
      split
      · rename_i hd
        split
        · unfold atomically
          rw [run_removeFreeDartTx]
          have : m.okU d = true := (hwf.toSized.okU d).2 hd
          simp only [this, if_true]
          cases m.unused d <;> exact sided_of_β13 rfl (fun _ => rfl) (fun _ => rfl) hS
        · exact hS
      · exact hS
  | link i l r => exact key _ hargs hg
  | unlink i l => exact key _ hargs hg
  | sew i l r => exact key _ hargs hg
  | unsew i l => exact key _ hargs hg
  | removeFreeDartTx d => exact key _ hargs hg

/-- histories whose 1-links / 1-sews join darts of equal 3-status -/
def HistoryG (cfg : Cfg X) : Map X → List Op3 → Prop
  | _, [] => True
  | m, op :: ops => ArgsOK m op ∧ ArgsG m op ∧ HistoryG cfg (step cfg m op) ops

instance instDecHistoryG (cfg : Cfg X) : (m : Map X) → (ops : List Op3) → Decidable (HistoryG cfg m ops)
  | _, [] => isTrue trivial
  | m, op :: ops =>
      @instDecidableAnd _ _ (inferInstanceAs (Decidable (ArgsOK m op)))
        (@instDecidableAnd _ _ (inferInstanceAs (Decidable (ArgsG m op))) (instDecHistoryG cfg (step cfg m op) ops))

/-- **C02b**: `WF 4 ∧ Mirror ∧ Sided3` survives every finite editing history whose 1-links / 1-sews
    join darts of equal 3-status -/
theorem C02b_history_preserves_Sided (cfg : Cfg X) (ops : List Op3) :
    ∀ m : Map X, WF 4 m → Mirror m → Sided3 m → HistoryG cfg m ops →
      WF 4 (ops.foldl (step cfg) m) ∧ Mirror (ops.foldl (step cfg) m) ∧ Sided3 (ops.foldl (step cfg) m) := by
  induction ops with
  | nil => intro m h hM hS _; exact ⟨h, hM, hS⟩
  | cons op ops ih =>
      intro m h hM hS hh
      exact ih _ (C02_step_preserves_WF cfg m op h hh.1) (C02_step_preserves_Mirror cfg m op h hM hh.1)
        (C02b_step_preserves_Sided cfg m op h hM hS hh.1 hh.2.1) hh.2.2

/-! ## NoSelfGlue -/

/-- no dart is 3-linked to a dart of its own β1-walk (`Props/C20b.lean`, `NoSelfGlue`, on iterates) -/
def NoSelfGlue3 (m : Map X) : Prop := ∀ d, d < m.n → m.β 3 d ≠ 0 → ∀ t, t < m.n → it m 1 t d ≠ m.β 3 d

instance (m : Map X) : Decidable (NoSelfGlue3 m) := by unfold NoSelfGlue3; exact inferInstance

/-- the bound on `t` is harmless: a walk that meets a dart meets it within `n` steps (not needed
    below; the unbounded form is what the preservation proofs give) -/
def NoSelfGlueAll (m : Map X) : Prop := ∀ d, d < m.n → m.β 3 d ≠ 0 → ∀ t, it m 1 t d ≠ m.β 3 d

theorem NoSelfGlueAll.bounded {m : Map X} (h : NoSelfGlueAll m) : NoSelfGlue3 m :=
  fun d hd h3 t _ => h d hd h3 t

theorem nsg_of_β13 {m m' : Map X} (hn : m'.n = m.n) (h1 : ∀ d, m'.β 1 d = m.β 1 d)
    (h3 : ∀ d, m'.β 3 d = m.β 3 d) (hN : NoSelfGlueAll m) : NoSelfGlueAll m' := by
  intro d hd
  rw [h3]
  intro g t
  rw [it_congr h1]
  exact hN d (by rw [← hn]; exact hd) g t

theorem SameTopo.nsg {m m' : Map X} (st : SameTopo m m') (hN : NoSelfGlueAll m) : NoSelfGlueAll m' :=
  nsg_of_β13 st.n (st.β 1) (st.β 3) hN

/-- clearing β3 entries cannot create a self-glued face -/
theorem nsg_shrink {m m' : Map X} (hs : Shrink3 m m') (hN : NoSelfGlueAll m) : NoSelfGlueAll m' := by
  intro d hd g t
  have e : m'.β 3 d = m.β 3 d := by
    rcases hs.sub d with hh | hh
    · exact hh
    · exact absurd hh g
  rw [e, it_congr (fun x => hs.β 1 x (by omega))]
  exact hN d (by rw [← hs.n]; exact hd) (by rw [← e]; exact g) t

/-- clearing β1 entries shortens the walks -/
theorem it_cleared {m m' : Map X} (h0 : m'.β 1 0 = 0) (hc : ∀ x, m'.β 1 x = m.β 1 x ∨ m'.β 1 x = 0) :
    ∀ t d, it m' 1 t d = it m 1 t d ∨ it m' 1 t d = 0 := by
  intro t
  induction t with
  | zero => intro d; exact Or.inl rfl
  | succ t ih =>
      intro d
      rw [it_succ, it_succ]
      rcases hc d with hh | hh
      · rw [hh]; exact ih _
      · rw [hh]; exact Or.inr (it_null h0 t)

theorem nsg_cleared1 {m m' : Map X} (hn : m'.n = m.n) (h0 : m'.β 1 0 = 0)
    (hc : ∀ x, m'.β 1 x = m.β 1 x ∨ m'.β 1 x = 0) (h3 : ∀ d, m'.β 3 d = m.β 3 d)
    (hN : NoSelfGlueAll m) : NoSelfGlueAll m' := by
  intro d hd
  rw [h3]
  intro g t
  rcases it_cleared h0 hc t d with hh | hh
  · rw [hh]; exact hN d (by rw [← hn]; exact hd) g t
  · rw [hh]; exact fun e => g e.symm

theorem nsg_oneUnlink3 {l : Nat} {m m1 : Map X} {u : Unit} (hw : WF 4 m) (hln : l < m.n) (hN : NoSelfGlueAll m)
    (h : run (oneUnlink3 (X := X) l) m = (.ok u, m1)) : NoSelfGlueAll m1 := by
  obtain ⟨hw1, ho, _⟩ := oneUnlink3_ok hw hln h
  obtain ⟨hne, hform⟩ := oneUnlink3_form hw hln h
  have hrn : m.β 1 l < m.n := hw.range 1 (by omega) l hln
  have hwu : WF 4 (m.unlink1 l) := hw.unlink1 (by omega) hln hne
  have eβ := hw.toSized.β_unlink1 (by omega) hln hrn
  have e1 : ∀ x, (m.unlink1 l).β 1 x = if l = x then 0 else m.β 1 x := by intro x; rw [eβ]; simp
  refine nsg_cleared1 ho.n (hw1.null 1 (by omega)) ?_ (fun d => ho.β 3 d (by omega)) hN
  rcases hform with ⟨_, rfl⟩ | ⟨_, _, _, rfl⟩
  · intro x; rw [e1]; by_cases c : l = x <;> simp [c]
  · have hbn : m.β 3 (m.β 1 l) < (m.unlink1 l).n := hw.range 3 (by omega) _ hrn
    have eβ2 := hwu.toSized.β_unlink1 (by omega) hbn (hwu.range 1 (by omega) _ hbn)
    intro x
    rw [eβ2]
    simp only [show ¬ (0 = 1) by omega, false_and, if_false, true_and]
    by_cases c : m.β 3 (m.β 1 l) = x
    · simp [c]
    · rw [if_neg c, e1]; by_cases c' : l = x <;> simp [c']

/-- 3-linking whole faces, pairwise disjoint, cannot glue a face to itself -/
theorem nsg_linked {m m' : Map X} (hw : WF 4 m) (hw' : WF 4 m') {ps : List (Nat × Nat)} (L : Linked3 m m' ps)
    (hc : Covered m ps) (hN : NoSelfGlueAll m) : NoSelfGlueAll m' := by
  have e1 : ∀ x, m'.β 1 x = m.β 1 x := fun x => L.other 1 x (by omega)
  -- a left dart is never a right dart
  have lr : ∀ pq, pq ∈ ps → ∀ pq', pq' ∈ ps → pq'.1 ≠ pq.2 := by
    intro pq hm pq' hm'
    by_cases c : pq' = pq
    · rw [c]
      obtain ⟨a1, _, _, _, _, a6, a7, _⟩ := L.pairs pq hm
      have := (hw'.invol 3 (by omega) (by omega) pq.1 (by rw [L.n]; exact a7) (by rw [a1]; exact a6)).2
      rw [a1] at this; exact fun hh => this hh.symm
    · exact (L.cross pq' hm' pq hm c).2.1
  -- the β1-walk from a left (right) dart stays among the left (right) darts, or reaches null
  have walkL : ∀ t pq, pq ∈ ps → it m 1 t pq.1 = 0 ∨ ∃ pq', pq' ∈ ps ∧ pq'.1 = it m 1 t pq.1 := by
    intro t
    induction t with
    | zero => intro pq hm; exact Or.inr ⟨pq, hm, rfl⟩
    | succ t ih =>
        intro pq hm
        rw [it_succ']
        rcases ih pq hm with hh | ⟨pq', hm', e⟩
        · rw [hh]; exact Or.inl (hw.null 1 (by omega))
        · by_cases c : m.β 1 (it m 1 t pq.1) = 0
          · exact Or.inl c
          · rw [← e] at c ⊢
            obtain ⟨pq'', hm'', e'⟩ := (hc pq' hm' 1 (by omega)).1 c
            exact Or.inr ⟨pq'', hm'', e'⟩
  have walkR : ∀ t pq, pq ∈ ps → it m 1 t pq.2 = 0 ∨ ∃ pq', pq' ∈ ps ∧ pq'.2 = it m 1 t pq.2 := by
    intro t
    induction t with
    | zero => intro pq hm; exact Or.inr ⟨pq, hm, rfl⟩
    | succ t ih =>
        intro pq hm
        rw [it_succ']
        rcases ih pq hm with hh | ⟨pq', hm', e⟩
        · rw [hh]; exact Or.inl (hw.null 1 (by omega))
        · by_cases c : m.β 1 (it m 1 t pq.2) = 0
          · exact Or.inl c
          · rw [← e] at c ⊢
            obtain ⟨pq'', hm'', e'⟩ := (hc pq' hm' 1 (by omega)).2 c
            exact Or.inr ⟨pq'', hm'', e'⟩
  intro d hd g t
  rw [it_congr e1]
  by_cases he : Endp ps d
  · obtain ⟨pq, hm, rfl | rfl⟩ := he
    · obtain ⟨a1, _, _, _, _, a6, _⟩ := L.pairs pq hm
      rw [a1]
      rcases walkL t pq hm with hh | ⟨pq', hm', e⟩
      · rw [hh]; exact fun e => a6 e.symm
      · rw [← e]; exact lr pq hm pq' hm'
    · obtain ⟨_, a2, _, _, a5, _, _⟩ := L.pairs pq hm
      rw [a2]
      rcases walkR t pq hm with hh | ⟨pq', hm', e⟩
      · rw [hh]; exact fun e => a5 e.symm
      · rw [← e]; exact fun hh => lr pq' hm' pq hm hh.symm
  · have same : m'.β 3 d = m.β 3 d :=
      L.rest d fun pq hm => ⟨fun hh => he ⟨pq, hm, Or.inl hh⟩, fun hh => he ⟨pq, hm, Or.inr hh⟩⟩
    rw [same] at g ⊢
    exact hN d (by rw [← L.n]; exact hd) g t

theorem it_addFreeDarts {m : Map X} (hwf : WF 4 m) (k : Nat) :
    ∀ t d, d < m.n → it (m.addFreeDarts k).2 1 t d = it m 1 t d := by
  intro t
  induction t with
  | zero => intro d _; rfl
  | succ t ih =>
      intro d hd
      rw [it_succ, it_succ, addFreeDarts_β hwf.toSized k 1 d (by omega), if_pos hd]
      exact ih _ (hwf.range 1 (by omega) d hd)

theorem nsg_addFreeDarts {m : Map X} (hwf : WF 4 m) (k : Nat) (hN : NoSelfGlueAll m) :
    NoSelfGlueAll (m.addFreeDarts k).2 := by
  intro d hd
  rw [addFreeDarts_β hwf.toSized k 3 d (by omega)]
  by_cases hdn : d < m.n
  · rw [if_pos hdn]
    intro g t
    rw [it_addFreeDarts hwf k t d hdn]
    exact hN d hdn g t
  · rw [if_neg hdn]; intro g; exact absurd rfl g

/-- the call is not a 1-link / 1-sew -/
def NotLink1 : Op3 → Prop
  | .link 1 _ _ => False
  | .sew 1 _ _ => False
  | _ => True

/-- **C02b (NoSelfGlue), one call, PARTIAL**: every public editing call OTHER THAN a 1-link / 1-sew
    keeps "no face is glued to itself" on a well-formed, mirrored, sided 3-map.  (For 1-links /
    1-sews the exhaustive search of `tools/sided_scan.py` found no violation from maps satisfying
    all four predicates; not proved.) -/
theorem C02b_step_preserves_NoSelfGlue_partial (cfg : Cfg X) (m : Map X) (op : Op3)
    (hwf : WF 4 m) (hM : Mirror m) (hS : Sided3 m) (hN : NoSelfGlueAll m) (hargs : ArgsOK m op)
    (hnot : NotLink1 op) : NoSelfGlueAll (step cfg m op) := by
  have tx : ∀ {α : Type} (p : P X α), (∀ m' a, run p m = (.ok a, m') → NoSelfGlueAll m') →
      NoSelfGlueAll (atomically p m).2 := by
    intro α p hp
    unfold atomically
    match h : run p m with
    | (.ok a, m') => simp only [h]; exact hp m' a h
    | (.err e, m') => simp only [h]; exact hN
    | (.retry, m') => simp only [h]; exact hN
    | (.panic, m') => simp only [h]; exact hN
  have l2 : ∀ l r m' a, InUse m l → InUse m r → run (iLinkCore (X := X) 2 l r) m = (.ok a, m') → NoSelfGlueAll m' := by
    intro l r m' a hl hr h
    obtain ⟨_, _, _, _, rfl⟩ := iLinkCore_ok h
    have eβ := hwf.toSized.β_linkI (i := 2) (by omega) hl.2.1 hr.2.1
    show NoSelfGlueAll (m.linkI 2 l r)
    refine nsg_of_β13 (m := m) (m' := m.linkI 2 l r) rfl ?_ ?_ hN
    · intro d; rw [eβ]; simp
    · intro d; rw [eβ]; simp
  have l3 : ∀ l r m' a, InUse m l → InUse m r → l ≠ r → run (threeLink3 (X := X) m.n l r) m = (.ok a, m') →
      NoSelfGlueAll m' := by
    intro l r m' a hl hr hlr h
    obtain ⟨hw', _⟩ := threeLink3_ok hwf hl.1 hr.1 hl.2.1 hr.2.1 hl.2.2 hr.2.2 hlr h
    obtain ⟨ps, L, _, hc⟩ := threeLink3_linked hwf hl.1 hr.1 h
    exact nsg_linked hwf hw' L hc hN
  have u1 : ∀ l m' a, InUse m l → run (oneUnlink3 (X := X) l) m = (.ok a, m') → NoSelfGlueAll m' :=
    fun l m' a hl h => nsg_oneUnlink3 hwf hl.2.1 hN h
  have u2 : ∀ l m' a, InUse m l → run (iUnlinkCore (X := X) 2 l) m = (.ok a, m') → NoSelfGlueAll m' := by
    intro l m' a hl h
    obtain ⟨_, _, _, rfl⟩ := iUnlinkCore_ok h
    have eβ := hwf.toSized.β_unlinkI (i := 2) (by omega) hl.2.1 (hwf.range 2 (by omega) l hl.2.1)
    show NoSelfGlueAll (m.unlinkI 2 l)
    refine nsg_of_β13 (m := m) (m' := m.unlinkI 2 l) rfl ?_ ?_ hN
    · intro d; rw [eβ]; simp
    · intro d; rw [eβ]; simp
  have u3 : ∀ l m' a, InUse m l → run (threeUnlink3 (X := X) m.n l) m = (.ok a, m') → NoSelfGlueAll m' :=
    fun l m' a hl h => nsg_shrink (threeUnlink3_ok hwf hl.2.1 h).2 hN
  cases op with
  | addFreeDarts k => exact nsg_addFreeDarts hwf k hN
  | insertFreeDart =>
      show NoSelfGlueAll m.insertFreeDart.2
      unfold Map.insertFreeDart
      split
      · exact nsg_of_β13 (m := m) rfl (fun _ => rfl) (fun _ => rfl) hN
      · exact nsg_addFreeDarts hwf 1 hN
  | removeFreeDart d =>
      show NoSelfGlueAll (m.removeFreeDart 4 d).2
      unfold Map.removeFreeDart
      split
      · rename_i hd
        split
        · unfold atomically
          rw [run_removeFreeDartTx]
          have : m.okU d = true := (hwf.toSized.okU d).2 hd
          simp only [this, if_true]
          cases m.unused d <;> exact nsg_of_β13 (m := m) rfl (fun _ => rfl) (fun _ => rfl) hN
        · exact hN
      · exact hN
  | removeFreeDartTx d =>
      refine tx _ fun m' a h => ?_
      obtain ⟨b, m1, h1, h2⟩ := run_bind_ok h
      rw [run_removeFreeDartTx] at h1
      have hok : m.okU d = true := (hwf.toSized.okU d).2 hargs.1.2.1
      simp only [hok, if_true, Prod.mk.injEq] at h1
      simp at h2
      rw [← h2, ← h1.2]
      exact nsg_of_β13 (m := m) rfl (fun _ => rfl) (fun _ => rfl) hN
  | link i l r =>
      refine tx _ fun m' a h => ?_
      match i, hargs, hnot, h with
      | 0, _, _, h => simp [prog] at h
      | 2, ha, _, h => exact l2 l r m' a ha.1 ha.2.1 h
      | 3, ha, _, h => exact l3 l r m' a ha.1 ha.2.1 (ha.2.2 (Or.inr rfl)) h
      | (_ + 4), _, _, h => simp [prog] at h
  | sew i l r =>
      refine tx _ fun m' a h => ?_
      match i, hargs, hnot, h with
      | 0, _, _, h => simp [prog] at h
      | 2, ha, _, h =>
          obtain ⟨m1, h1, st⟩ := twoSew3_topology cfg m.n l r m m' a h
          exact SameTopo.nsg st (l2 l r m1 () ha.1 ha.2.1 h1)
      | 3, ha, _, h =>
          obtain ⟨m1, h1, st⟩ := threeSew3_topology cfg m.n l r m m' a h
          exact SameTopo.nsg st (l3 l r m1 () ha.1 ha.2.1 (ha.2.2 (Or.inr rfl)) h1)
      | (_ + 4), _, _, h => simp [prog] at h
  | unlink i l =>
      refine tx _ fun m' a h => ?_
      match i, h with
      | 0, h => simp [prog] at h
      | 1, h => exact u1 l m' a hargs h
      | 2, h => exact u2 l m' a hargs h
      | 3, h => exact u3 l m' a hargs h
      | (_ + 4), h => simp [prog] at h
  | unsew i l =>
      refine tx _ fun m' a h => ?_
      match i, h with
      | 0, h => simp [prog] at h
      | 1, h =>
          obtain ⟨m1, h1, st⟩ := oneUnsew3_topology cfg m.n l m m' a h
          exact SameTopo.nsg st (u1 l m1 () hargs h1)
      | 2, h =>
          obtain ⟨m1, h1, st⟩ := twoUnsew3_topology cfg m.n l m m' a h
          exact SameTopo.nsg st (u2 l m1 () hargs h1)
      | 3, h =>
          obtain ⟨m1, h1, st⟩ := threeUnsew3_topology cfg m.n l m m' a h
          exact SameTopo.nsg st (u3 l m1 () hargs h1)
      | (_ + 4), h => simp [prog] at h

/-! ## NoSelfGlue through 1-links: no dart is 3-linked to its own successor -/

/-- on a mirrored, sided map the β3 images of a β1-walk form the β0-walk of the β3 image -/
theorem mirror_walk {m : Map X} (hw : WF 4 m) (hM : Mirror m) (hS : Sided3 m) {x : Nat} (hx : x < m.n)
    (h3 : m.β 3 x ≠ 0) : ∀ k, it m 1 k x ≠ 0 →
      m.β 3 (it m 1 k x) = it m 0 k (m.β 3 x) ∧ m.β 3 (it m 1 k x) ≠ 0 := by
  intro k
  induction k with
  | zero => intro _; exact ⟨rfl, h3⟩
  | succ k ih =>
      intro hne
      rw [it_succ'] at hne ⊢
      have hz0 : it m 1 k x ≠ 0 := fun hh => hne (by rw [hh]; exact hw.null 1 (by omega))
      obtain ⟨e, e0⟩ := ih hz0
      have hzn : it m 1 k x < m.n := it_lt hw (by omega) k x hx
      have s3 : m.β 3 (m.β 1 (it m 1 k x)) ≠ 0 := fun hh => e0 ((hS _ hzn hne).2 hh)
      have mir := hM _ hzn hne e0 s3
      have hvn : m.β 3 (m.β 1 (it m 1 k x)) < m.n := hw.range 3 (by omega) _ (hw.range 1 (by omega) _ hzn)
      have := hw.inv01 _ hvn (by rw [mir]; exact e0)
      rw [mir, e] at this
      refine ⟨?_, s3⟩
      rw [it_succ', ← this]

theorem it_back {m : Map X} (hw : WF 4 m) {d : Nat} (hd : d < m.n) : ∀ k t, k ≤ t → it m 1 t d ≠ 0 →
    it m 0 k (it m 1 t d) = it m 1 (t - k) d := by
  intro k
  induction k with
  | zero => intro t _ _; rfl
  | succ k ih =>
      intro t hk hne
      cases t with
      | zero => omega
      | succ t =>
          rw [it_succ, walk_back hw (Or.inl ⟨rfl, rfl⟩) hd hne]
          have hne' : it m 1 t d ≠ 0 := by
            intro hh; apply hne; rw [it_succ', hh]; exact hw.null 1 (by omega)
          rw [ih t (by omega) hne']
          congr 1; omega

/-- no dart is 3-linked to its own successor -/
def NoAdj (m : Map X) : Prop := ∀ x, x < m.n → m.β 3 x ≠ 0 → m.β 1 x ≠ m.β 3 x

theorem noAdj_of_nsg {m : Map X} (hN : NoSelfGlueAll m) : NoAdj m :=
  fun x hx h3 => hN x hx h3 1

/-- **on a well-formed, mirrored, sided 3-map a self-glued face shows at two consecutive darts**:
    a β1-walk from `d` to `β3 d` is reversed by β3, so its middle is a β3 fixed point (impossible)
    or a dart 3-linked to its successor -/
theorem nsg_of_noAdj {m : Map X} (hw : WF 4 m) (hM : Mirror m) (hS : Sided3 m) (hA : NoAdj m) :
    NoSelfGlueAll m := by
  intro d hd h3 t ht
  have hne : it m 1 t d ≠ 0 := by rw [ht]; exact h3
  -- β3 reverses the walk
  have rev : ∀ k, k ≤ t → m.β 3 (it m 1 k d) = it m 1 (t - k) d ∧ it m 1 k d ≠ 0 := by
    intro k hk
    have hk0 : it m 1 k d ≠ 0 := by
      intro hh
      apply hne
      rw [show t = k + (t - k) by omega, it_add, hh, it_null (hw.null 1 (by omega))]
    refine ⟨?_, hk0⟩
    rw [(mirror_walk hw hM hS hd h3 k hk0).1, ← ht, it_back hw hd k t hk hne]
  obtain ⟨s, hs⟩ : ∃ s, t = 2 * s ∨ t = 2 * s + 1 := ⟨t / 2, by omega⟩
  rcases hs with rfl | rfl
  · -- t = 2 s: the middle dart is a fixed point of β3
    obtain ⟨e, e0⟩ := rev s (by omega)
    rw [show 2 * s - s = s by omega] at e
    have hxn : it m 1 s d < m.n := it_lt hw (by omega) s d hd
    exact (hw.invol 3 (by omega) (by omega) _ hxn (by rw [e]; exact e0)).2 e
  · -- t = 2 s + 1: the dart before the middle is 3-linked to its successor
    obtain ⟨e, e0⟩ := rev s (by omega)
    rw [show 2 * s + 1 - s = s + 1 by omega] at e
    have hxn : it m 1 s d < m.n := it_lt hw (by omega) s d hd
    have e3 : m.β 3 (it m 1 s d) ≠ 0 := by
      rw [e]; exact (rev (s + 1) (by omega)).2
    exact hA _ hxn e3 (by rw [e, it_succ'])

theorem noAdj_oneLink3 {l r : Nat} {m m1 : Map X} {u : Unit} (hw : WF 4 m)
    (hl0 : l ≠ 0) (hr0 : r ≠ 0) (hln : l < m.n) (hrn : r < m.n)
    (hul : m.unused l = false) (hur : m.unused r = false) (hA : NoAdj m)
    (h : run (oneLink3 (X := X) l r) m = (.ok u, m1)) : NoAdj m1 := by
  obtain ⟨f1, f0, hform⟩ := oneLink3_form hw hln hrn h
  have hw0 : WF 4 (m.link1 l r) := hw.link1 (by omega) hl0 hr0 hln hrn hul hur f1 f0
  have ho1 : Only01 m (m.link1 l r) := Only01.link1 hw hln hrn
  have eβ := hw.toSized.β_link1 (by omega) hln hrn
  have e1 : ∀ x, (m.link1 l r).β 1 x = if l = x then r else m.β 1 x := by intro x; rw [eβ]; simp
  have e3 : ∀ x, (m.link1 l r).β 3 x = m.β 3 x := fun x => ho1.β 3 x (by omega)
  -- `β3 l = r` makes both darts 3-linked to each other
  have both : m.β 3 l = r → m.β 3 l ≠ 0 ∧ m.β 3 r ≠ 0 ∧ m.β 3 r = l := by
    intro hh
    have h3l : m.β 3 l ≠ 0 := by rw [hh]; exact hr0
    have := invol_back hw (i := 3) (by omega) (by omega) hln h3l
    rw [hh] at this
    exact ⟨h3l, by rw [this]; exact hl0, this⟩
  rcases hform with ⟨hnb, rfl⟩ | ⟨h3l, h3r, g1, g0, rfl⟩
  · intro x hx
    rw [e3, e1]
    intro g
    by_cases c : l = x
    · subst c
      rw [if_pos rfl]
      intro hh
      obtain ⟨a, b, _⟩ := both hh.symm
      exact hnb ⟨a, b⟩
    · rw [if_neg c]; exact hA x hx g
  · have il := hw.image_inUse (i := 3) (by omega) hln h3l
    have ir := hw.image_inUse (i := 3) (by omega) hrn h3r
    have ho2 : Only01 (m.link1 l r) ((m.link1 l r).link1 (m.β 3 r) (m.β 3 l)) := Only01.link1 hw0 ir.1 il.1
    have eβ2 := hw0.toSized.β_link1 (by omega) (l := m.β 3 r) (r := m.β 3 l) ir.1 il.1
    have e1' : ∀ x, ((m.link1 l r).link1 (m.β 3 r) (m.β 3 l)).β 1 x =
        if m.β 3 r = x then m.β 3 l else (m.link1 l r).β 1 x := by intro x; rw [eβ2]; simp
    have e3' : ∀ x, ((m.link1 l r).link1 (m.β 3 r) (m.β 3 l)).β 3 x = m.β 3 x :=
      fun x => (ho1.trans ho2).β 3 x (by omega)
    -- `β3 l = r` is impossible: the second link would repeat the first one
    have nolr : m.β 3 l ≠ r := by
      intro hh
      obtain ⟨_, _, hb⟩ := both hh
      rw [hb, e1, if_pos rfl] at g1
      exact hr0 g1
    intro x hx
    rw [e3', e1']
    intro g
    by_cases c : m.β 3 r = x
    · subst c
      rw [if_pos rfl, invol_back hw (by omega) (by omega) hrn h3r]
      exact nolr
    · rw [if_neg c, e1]
      by_cases c' : l = x
      · subst c'
        rw [if_pos rfl]; exact fun hh => nolr hh.symm
      · rw [if_neg c']; exact hA x hx g

/-- **C02b (NoSelfGlue), one call**: with the guard `G13` on 1-links / 1-sews, every public editing
    call keeps "no face is glued to itself" on a well-formed, mirrored, sided 3-map -/
theorem C02b_step_preserves_NoSelfGlue (cfg : Cfg X) (m : Map X) (op : Op3)
    (hwf : WF 4 m) (hM : Mirror m) (hS : Sided3 m) (hN : NoSelfGlueAll m) (hargs : ArgsOK m op)
    (hg : ArgsG m op) : NoSelfGlueAll (step cfg m op) := by
  by_cases hnot : NotLink1 op
  · exact C02b_step_preserves_NoSelfGlue_partial cfg m op hwf hM hS hN hargs hnot
  · -- a 1-link / 1-sew: through the "no dart 3-linked to its successor" characterisation
    have hw' := C02_step_preserves_WF cfg m op hwf hargs
    have hM' := C02_step_preserves_Mirror cfg m op hwf hM hargs
    have hS' := C02b_step_preserves_Sided cfg m op hwf hM hS hargs hg
    refine nsg_of_noAdj hw' hM' hS' ?_
    have hA := noAdj_of_nsg hN
    have key : ∀ l r, InUse m l → InUse m r → ∀ {α : Type} (p : P X α),
        (∀ m' a, run p m = (.ok a, m') → ∃ m1, run (oneLink3 (X := X) l r) m = (.ok (), m1) ∧ SameTopo m1 m') →
        NoAdj (atomically p m).2 := by
      intro l r hl hr α p hp
      unfold atomically
      match h : run p m with
      | (.ok a, m') =>
          simp only [h]
          obtain ⟨m1, h1, st⟩ := hp m' a h
          have := noAdj_oneLink3 hwf hl.1 hr.1 hl.2.1 hr.2.1 hl.2.2 hr.2.2 hA h1
          intro x hx
          rw [st.β 3, st.β 1]
          exact this x (by rw [← st.n]; exact hx)
      | (.err e, m') => simp only [h]; exact hA
      | (.retry, m') => simp only [h]; exact hA
      | (.panic, m') => simp only [h]; exact hA
    match op, hnot, hargs with
    | .link 1 l r, _, ha => exact key l r ha.1 ha.2.1 _ fun m' a h => ⟨m', h, SameTopo.refl _⟩
    | .sew 1 l r, _, ha => exact key l r ha.1 ha.2.1 _ fun m' a h => oneSew3_topology cfg m.n l r m m' a h
    | .link 0 _ _, hn, _ => exact absurd trivial hn
    | .link (_ + 2) _ _, hn, _ => exact absurd trivial hn
    | .sew 0 _ _, hn, _ => exact absurd trivial hn
    | .sew (_ + 2) _ _, hn, _ => exact absurd trivial hn
    | .unlink _ _, hn, _ => exact absurd trivial hn
    | .unsew _ _, hn, _ => exact absurd trivial hn
    | .addFreeDarts _, hn, _ => exact absurd trivial hn
    | .insertFreeDart, hn, _ => exact absurd trivial hn
    | .removeFreeDart _, hn, _ => exact absurd trivial hn
    | .removeFreeDartTx _, hn, _ => exact absurd trivial hn

/-- **C02b**: the four predicates of the 3-D rendering theorems survive every finite editing
    history whose 1-links / 1-sews join darts of equal 3-status -/
theorem C02b_history_preserves_all (cfg : Cfg X) (ops : List Op3) :
    ∀ m : Map X, WF 4 m → Mirror m → Sided3 m → NoSelfGlueAll m → HistoryG cfg m ops →
      WF 4 (ops.foldl (step cfg) m) ∧ Mirror (ops.foldl (step cfg) m) ∧ Sided3 (ops.foldl (step cfg) m) ∧
      NoSelfGlueAll (ops.foldl (step cfg) m) := by
  induction ops with
  | nil => intro m h hM hS hN _; exact ⟨h, hM, hS, hN⟩
  | cons op ops ih =>
      intro m h hM hS hN hh
      exact ih _ (C02_step_preserves_WF cfg m op h hh.1) (C02_step_preserves_Mirror cfg m op h hM hh.1)
        (C02b_step_preserves_Sided cfg m op h hM hS hh.1 hh.2.1)
        (C02b_step_preserves_NoSelfGlue cfg m op h hM hS hN hh.1 hh.2.1) hh.2.2

/-- `NoSelfGlueAll` from its decidable characterisation -/
theorem nsgAll_of_decidable {m : Map X} (hw : WF 4 m) (hM : Mirror m) (hS : Sided3 m)
    (hA : ∀ x, x < m.n → m.β 3 x ≠ 0 → m.β 1 x ≠ m.β 3 x) : NoSelfGlueAll m := nsg_of_noAdj hw hM hS hA

instance (m : Map X) : Decidable (NoAdj m) := by unfold NoAdj; exact inferInstance

/-! ## the guard is needed -/

/-- three free darts -/
def ex3 : Map Val := Map.empty 4 1 4

/-- **counterexample (Sided)**: under C02's guards alone, `link 3 1 2; link 1 1 3` from three free
    darts reaches a well-formed mirrored map in which dart 1 is 3-linked and its successor is not -/
theorem C02b_sided_counterexample :
    HistoryOK exCfg ex3 [.link 3 1 2, .link 1 1 3] ∧ WF 4 ex3 ∧ Mirror ex3 ∧ Sided3 ex3 ∧
    ¬ Sided3 ([Op3.link 3 1 2, .link 1 1 3].foldl (step exCfg) ex3) := by decide +kernel

example : ¬ HistoryG exCfg ex3 [.link 3 1 2, .link 1 1 3] := by decide +kernel

/-- **counterexample (NoSelfGlue)**: one more unguarded 1-link glues a face to itself -/
theorem C02b_noSelfGlue_counterexample :
    HistoryOK exCfg ex3 [.link 3 1 2, .link 1 1 3, .link 1 3 2] ∧ NoSelfGlue3 ex3 ∧
    WF 4 ([Op3.link 3 1 2, .link 1 1 3, .link 1 3 2].foldl (step exCfg) ex3) ∧
    Mirror ([Op3.link 3 1 2, .link 1 1 3, .link 1 3 2].foldl (step exCfg) ex3) ∧
    ¬ NoSelfGlue3 ([Op3.link 3 1 2, .link 1 1 3, .link 1 3 2].foldl (step exCfg) ex3) := by decide +kernel

/-- non-vacuity of the positive theorems: the history of `C02.exHistory` satisfies the guard -/
example : HistoryG exCfg exMap exHistory ∧ Sided3 exMap := by decide +kernel
example : Sided3 (exHistory.foldl (step exCfg) exMap) :=
  (C02b_history_preserves_Sided exCfg exHistory exMap (by decide +kernel) (by decide +kernel) (by decide +kernel)
    (by decide +kernel)).2.2
example : NoSelfGlueAll (exHistory.foldl (step exCfg) exMap) :=
  (C02b_history_preserves_all exCfg exHistory exMap (by decide +kernel) (by decide +kernel) (by decide +kernel)
    (nsg_of_noAdj (by decide +kernel) (by decide +kernel) (by decide +kernel) (by decide +kernel))
    (by decide +kernel)).2.2.2
example : NoSelfGlueAll (step exCfg exMap (.link 1 13 14)) :=
  C02b_step_preserves_NoSelfGlue exCfg exMap _ (by decide +kernel) (by decide +kernel) (by decide +kernel)
    (nsg_of_noAdj (by decide +kernel) (by decide +kernel) (by decide +kernel) (by decide +kernel))
    (by decide +kernel) (by decide +kernel)
example : Sided3 (step exCfg exMap (.sew 3 1 4)) :=
  C02b_step_preserves_Sided exCfg exMap _ (by decide +kernel) (by decide +kernel) (by decide +kernel)
    (by decide +kernel) (by decide)

end HC.C02
