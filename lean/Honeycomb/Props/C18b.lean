/-
  C18 — "removed darts are not reported by any orbit of a remaining dart", for 3-MAPS (the 2-D statement is
  `C18_orbit_excludes_removed` in Props/C18.lean; until this file the 3-D clause was only evaluated by the oracle).
  Consequence of the 3-D orbit specification (Props/C03b.lean) and of "a removed dart is nobody's image" on a
  well-formed 3-map (`C02_unused_is_nobodys_image`).
-/
import Honeycomb.Props.C18
import Honeycomb.Props.C03b

namespace HC.C18
open HC
variable {X : Type}

/-- **C18, orbits, 3-D**: on a well-formed 3-map, no orbit (any policy the 3-D code accepts, custom ones
    included) of a dart that is in use ever reports a removed dart, and the traversal leaves the map unchanged -/
theorem C18_orbit3_excludes_removed {m : Map X} (h : WF 4 m) {pol : Policy} (hp : C03.Pol3OK pol) {d : Nat}
    (hd0 : d ≠ 0) (hd : d < m.n) (hu : m.unused d = false) :
    ∃ out, run (orbit3 (X := X) m.n pol d) m = (.ok out, m) ∧ ∀ x, x ∈ out → m.unused x = false := by
  have hs := C03.C03_orbit3_spec h hp hd0 hd
  exact ⟨C03.orb3 m pol d, hs.1, C03.C03_orbit3_of_in_use_is_in_use h hp hd0 hd hu⟩

/-- the hypotheses are satisfiable: the well-formed example 3-map of Props/C03b.lean, its dart 1, the vertex policy -/
example : WF 4 C03.ex3 ∧ C03.Pol3OK Policy.vertex ∧ (1 : Nat) ≠ 0 ∧ 1 < C03.ex3.n ∧ C03.ex3.unused 1 = false :=
  ⟨by decide +kernel, trivial, by decide, by decide, by decide⟩

end HC.C18
